(* C02: what one call observes.  For every call id the observations tagged
   with it, over a whole run, are: non-final messages, then at most one done
   message, then at most one return; nothing after the return. *)
From Coq Require Import Lia.
From VF Require Export Sched.ProofsFoot.
Open Scope Z_scope.

(* ---- observations of one call ---------------------------------------------------------- *)
Definition obs_call (o : obs) : option nat :=
  match o with
  | OMsg c _ _ _ | ORet c _ | OSync c _ _ => Some c
  | OGhost _ | OPanic _ => None
  end.
Definition tagged (c : nat) (o : obs) : bool :=
  match obs_call o with Some c' => Nat.eqb c c' | None => false end.
Definition ctag (c : nat) (l : list obs) : list obs := filter (tagged c) l.

Lemma ctag_app : forall c a b, ctag c (a ++ b) = ctag c a ++ ctag c b.
Proof. intros. apply filter_app. Qed.
Lemma ctag_rev : forall c l, ctag c (rev l) = rev (ctag c l).
Proof.
  intros c l. unfold ctag. induction l as [|x l IH]; cbn; [reflexivity|].
  rewrite filter_app, IH. cbn. destruct (tagged c x); cbn; [reflexivity|apply app_nil_r].
Qed.

(* the program counter of call c and what the current event has shown it so far (newest first) *)
Definition At (c : nat) (p : option pc) (l : list obs) (s : state) : Prop :=
  aget Nat.eqb c (s_calls s) = p /\ ctag c (s_out s) = l.

Lemma At_frame : forall c p l s s',
  s_calls s' = s_calls s -> s_out s' = s_out s -> At c p l s -> At c p l s'.
Proof. unfold At. intros c p l s s' H1 H2 H. rewrite H1, H2. exact H. Qed.

Lemma At_emit_internal : forall c p l s o, obs_call o = None -> At c p l s -> At c p l (emit o s).
Proof.
  unfold At, emit. intros c p l s o Ho [H1 H2]. cbn. split; [exact H1|].
  unfold tagged. rewrite Ho. exact H2.
Qed.

Ltac t_frame :=
  prim_unfold; prim_cases; reflexivity.

Ltac t_at :=
  intros;
  first [ (eapply At_frame; [ | | eassumption]; t_frame)
        | (apply At_emit_internal; [reflexivity | eassumption]) ].

(* ---- shapes of the trace of one call -------------------------------------------------------- *)
Definition nonfinal (c : nat) (o : obs) : Prop := exists n st, o = OMsg c n st None /\ st <> 4%N.
Definition final (c : nat) (o : obs) : Prop := exists n r, o = OMsg c n 4%N (Some r).
Definition is_end (c : nat) (o : obs) : Prop := (exists code, o = ORet c code) \/ (exists d z, o = OSync c d z).

Definition open_tr (c : nat) (tr : list obs) : Prop := Forall (nonfinal c) tr.
Definition done_tr (c : nat) (tr : list obs) : Prop :=
  exists msgs d, tr = msgs ++ [d] /\ Forall (nonfinal c) msgs /\ final c d.
Definition closed_tr (c : nat) (k : bool) (tr : list obs) : Prop :=
  tr = [] \/
  (k = false /\ exists o, tr = [o] /\ is_end c o) \/
  (k = true /\ exists msgs code, Forall (nonfinal c) msgs /\
     ((tr = msgs ++ [ORet c code] /\ code <> cOK) \/ (exists d, tr = msgs ++ [d; ORet c code] /\ final c d))).

(* k: is the call an Execute / WaitExecution stream *)
Definition J (c : nat) (k : bool) (p : option pc) (tr : list obs) : Prop :=
  match p with
  | None => tr = []
  | Some PDone => closed_tr c k tr
  | Some (PStream _ _) | Some (PStreamCancelled _) => k = true /\ open_tr c tr
  | Some (PWaitRecheck _) => k = true /\ tr = []
  | Some (PStreamReturn _ code) => k = true /\ code = cOK /\ done_tr c tr
  | Some _ => k = false /\ tr = []
  end.

Definition Jst (c : nat) (k : bool) (tr0 : list obs) (s : state) : Prop :=
  J c k (aget Nat.eqb c (s_calls s)) (tr0 ++ rev (ctag c (s_out s))).

Lemma Jst_frame : forall c k tr0 s s',
  s_calls s' = s_calls s -> s_out s' = s_out s -> Jst c k tr0 s -> Jst c k tr0 s'.
Proof. unfold Jst. intros c k tr0 s s' H1 H2 H. rewrite H1, H2. exact H. Qed.

Lemma Jst_emit_other : forall c k tr0 s o, tagged c o = false -> Jst c k tr0 s -> Jst c k tr0 (emit o s).
Proof. unfold Jst, emit. intros c k tr0 s o Ho H. cbn. rewrite Ho. exact H. Qed.

Lemma Jst_setcall_other : forall c k tr0 s c' p, c' <> c -> Jst c k tr0 s -> Jst c k tr0 (set_call c' p s).
Proof.
  unfold Jst, set_call. intros c k tr0 s c' p Hne H. cbn.
  rewrite (aget_aset_other Nat.eqb nat_eqb_eq) by auto. exact H.
Qed.

Lemma tagged_other_msg : forall c c' o st d, c' <> c -> tagged c (OMsg c' o st d) = false.
Proof. intros. unfold tagged. cbn. apply Nat.eqb_neq. auto. Qed.
Lemma tagged_other_ret : forall c c' code, c' <> c -> tagged c (ORet c' code) = false.
Proof. intros. unfold tagged. cbn. apply Nat.eqb_neq. auto. Qed.
Lemma tagged_other_sync : forall c c' d z, c' <> c -> tagged c (OSync c' d z) = false.
Proof. intros. unfold tagged. cbn. apply Nat.eqb_neq. auto. Qed.

Lemma Jst_ret_other : forall c k tr0 s c' code, c' <> c -> Jst c k tr0 s -> Jst c k tr0 (ret c' code s).
Proof.
  intros. unfold ret. apply Jst_setcall_other; [assumption|].
  apply Jst_emit_other; [apply tagged_other_ret; assumption | assumption].
Qed.

Lemma Jst_of_At : forall c k tr0 p0 s, J c k p0 tr0 -> At c p0 [] s -> Jst c k tr0 s.
Proof. unfold Jst, At. intros c k tr0 p0 s HJ [H1 H2]. rewrite H1, H2. cbn. rewrite app_nil_r. exact HJ. Qed.

(* closure of Jst under everything that does not concern call c *)
Ltac t_jst :=
  intros;
  first [ (eapply Jst_frame; [ | | eassumption]; t_frame)
        | (apply Jst_emit_other; [first [reflexivity | apply tagged_other_msg | apply tagged_other_ret | apply tagged_other_sync]; assumption | assumption])
        | (apply Jst_setcall_other; assumption)
        | (apply Jst_ret_other; assumption) ].

(* an event of another call leaves the view of call c alone *)
Lemma step_core_J_other : forall c k tr0 e s,
  ev_call e <> c -> Jst c k tr0 s -> Jst c k tr0 (step_core e s).
Proof.
  intros c k tr0 e s Hne H.
  apply fr_step_core with (P := Jst c k tr0) (c0 := ev_call e); try (t_jst; fail); try reflexivity; try assumption.
Qed.

(* ---- what the sections of call c itself do to its view ------------------------------------ *)
Lemma At_setcall : forall c p l s p', At c p l s -> At c (Some p') l (set_call c p' s).
Proof.
  unfold At, set_call. intros c p l s p' [H1 H2]. cbn. split; [|exact H2].
  apply (aget_aset_same Nat.eqb nat_eqb_eq).
Qed.

Lemma At_emit_self : forall c p l s o, tagged c o = true -> At c p l s -> At c p (o :: l) (emit o s).
Proof. unfold At, emit, ctag. intros c p l s o Ho [H1 H2]. cbn. rewrite Ho, H2. auto. Qed.

Lemma tagged_self_msg : forall c o st d, tagged c (OMsg c o st d) = true.
Proof. intros. unfold tagged. cbn. apply Nat.eqb_refl. Qed.
Lemma tagged_self_ret : forall c code, tagged c (ORet c code) = true.
Proof. intros. unfold tagged. cbn. apply Nat.eqb_refl. Qed.
Lemma tagged_self_sync : forall c d z, tagged c (OSync c d z) = true.
Proof. intros. unfold tagged. cbn. apply Nat.eqb_refl. Qed.

Lemma At_ret : forall c p l s code, At c p l s -> At c (Some PDone) (ORet c code :: l) (ret c code s).
Proof. intros. unfold ret. eapply At_setcall. apply At_emit_self; [apply tagged_self_ret|eassumption]. Qed.

Lemma At_get_call : forall c p l s, At c p l s -> get_call s c = match p with Some x => x | None => PDone end.
Proof. unfold At, get_call. intros c p l s [H1 _]. rewrite H1. reflexivity. Qed.

Lemma Jst_of_At_gen : forall c k tr0 p l s, At c p l s -> J c k p (tr0 ++ rev l) -> Jst c k tr0 s.
Proof. unfold Jst, At. intros c k tr0 p l s [H1 H2] HJ. rewrite H1, H2. exact HJ. Qed.

(* -- calls that are not streams: one end observation at most, then PDone -- *)
Definition other_pc (p : pc) : Prop :=
  match p with
  | PDone | PStream _ _ | PStreamCancelled _ | PWaitRecheck _ | PStreamReturn _ _ => False
  | _ => True
  end.
Definition okfalse (c : nat) (p' : pc) (l' : list obs) : Prop :=
  (l' = [] /\ other_pc p') \/ (p' = PDone /\ (l' = [] \/ exists o, l' = [o] /\ is_end c o)).
Definition Post0 (c : nat) (p0 : option pc) (s : state) : Prop :=
  At c p0 [] s \/ exists p' l', At c (Some p') l' s /\ okfalse c p' l'.

Lemma Post0_J : forall c p0 s, J c false p0 [] -> Post0 c p0 s -> Jst c false [] s.
Proof.
  intros c p0 s HJ [H|[p' [l' [H Hok]]]].
  - eapply Jst_of_At; eassumption.
  - eapply Jst_of_At_gen; [exact H|]. cbn [app].
    destruct Hok as [[-> Ho]|[-> [->|[o [-> He]]]]].
    + cbn. destruct p'; cbn in Ho; try contradiction; cbn; auto.
    + cbn. left. reflexivity.
    + cbn. right. left. split; [reflexivity|]. exists o. auto.
Qed.

Lemma P0_stay : forall c p0 s, At c p0 [] s -> Post0 c p0 s.
Proof. intros. left. assumption. Qed.

Lemma P0_ret : forall c p0 code s, At c p0 [] s -> Post0 c p0 (ret c code s).
Proof.
  intros c p0 code s H. right. exists PDone, [ORet c code]. split; [eapply At_ret; exact H|].
  right. split; [reflexivity|]. right. exists (ORet c code). split; [reflexivity|]. left. eauto.
Qed.

Lemma P0_park : forall c p0 p' s, other_pc p' -> At c p0 [] s -> Post0 c p0 (set_call c p' s).
Proof.
  intros c p0 p' s Ho H. right. exists p', []. split; [eapply At_setcall; exact H|]. left. auto.
Qed.

Lemma At_finish_sync : forall c p l w s, At c p l s -> At c (Some PDone) l (finish_sync c w s).
Proof.
  intros c p l w s H. unfold finish_sync. eapply At_setcall.
  destruct (k_cleanup (get_worker s w)); t_at.
Qed.

Lemma P0_sync_return_exec : forall c p0 w s, At c p0 [] s -> Post0 c p0 (sync_return_exec c w s).
Proof.
  intros c p0 w s H. unfold sync_return_exec. right. exists PDone.
  destruct (k_task (get_worker s w)).
  - eexists. split; [eapply At_finish_sync; apply At_emit_self; [apply tagged_self_sync|exact H]|].
    right. split; [reflexivity|]. right. eexists. split; [reflexivity|]. right. eauto.
  - exists []. split; [eapply At_finish_sync; apply At_emit_internal; [reflexivity|exact H]|].
    right. auto.
Qed.

Lemma P0_sync_return_idle : forall c p0 w s, At c p0 [] s -> Post0 c p0 (sync_return_idle c w s).
Proof.
  intros c p0 w s H. unfold sync_return_idle. right. exists PDone.
  eexists. split; [eapply At_finish_sync; apply At_emit_self; [apply tagged_self_sync|exact H]|].
  right. split; [reflexivity|]. right. eexists. split; [reflexivity|]. right. eauto.
Qed.

Lemma P0_sync_return_err : forall c p0 w code s, At c p0 [] s -> Post0 c p0 (sync_return_err c w code s).
Proof.
  intros c p0 w code s H. unfold sync_return_err. right. exists PDone.
  eexists. split; [eapply At_finish_sync; apply At_emit_self; [apply tagged_self_ret|exact H]|].
  right. split; [reflexivity|]. right. eexists. split; [reflexivity|]. left. eauto.
Qed.

Lemma P0_sync_none : forall c p0 w d z s, At c p0 [] s -> Post0 c p0 (finish_sync c w (emit (OSync c d z) s)).
Proof.
  intros c p0 w d z s H. right. exists PDone.
  eexists. split; [eapply At_finish_sync; apply At_emit_self; [apply tagged_self_sync|exact H]|].
  right. split; [reflexivity|]. right. eexists. split; [reflexivity|]. right. eauto.
Qed.

Ltac at_go c p0 := fr_go (At c p0 (@nil obs)) t_at.

Ltac p0_base c p0 :=
  first [ apply P0_sync_return_exec | apply P0_sync_return_idle | apply P0_sync_return_err | apply P0_sync_none
        | apply P0_ret | (apply P0_park; [exact I|]) ].

Ltac hoare leaf :=
  cbv beta iota zeta; cbn [fst snd];
  repeat first [ leaf | fr_destruct_head ].

Lemma P0_sync_loop : forall c p0 w s, At c p0 [] s -> Post0 c p0 (sync_loop c w s).
Proof.
  intros c p0 w s H. unfold sync_loop.
  hoare ltac:(p0_base c p0; at_go c p0).
  all: try (apply P0_stay; at_go c p0).
Qed.

Lemma P0_get_next_task : forall c p0 w b pr s, At c p0 [] s -> Post0 c p0 (get_next_task c w b pr s).
Proof.
  intros c p0 w b pr s H. unfold get_next_task.
  hoare ltac:(first [p0_base c p0 | apply P0_sync_loop]; at_go c p0).
  all: try (apply P0_stay; at_go c p0).
Qed.

Lemma P0_get_current_or_next : forall c p0 w b pr s, At c p0 [] s -> Post0 c p0 (get_current_or_next c w b pr s).
Proof.
  intros c p0 w b pr s H. unfold get_current_or_next.
  hoare ltac:(first [p0_base c p0 | apply P0_get_next_task]; at_go c p0).
  all: try (apply P0_stay; at_go c p0).
Qed.

(* in an equation  (if .. then inl A else match .. with .. => inr c ..) = inl s1  find A *)
Ltac sum_cases H :=
  repeat (match type of H with
          | (match ?y with _ => _ end) = _ => head_disc y ltac:(fun z => destruct z eqn:?)
          end);
  try discriminate H.

Lemma P0_sync_start : forall c p0 a s, At c p0 [] s -> Post0 c p0 (sync_start c a s).
Proof.
  intros c p0 a s H. unfold sync_start. cbv zeta.
  match goal with |- Post0 _ _ (match ?R with _ => _ end) => destruct R as [s1|code1] eqn:ER end;
    [|apply P0_ret; assumption].
  assert (H1 : At c p0 [] s1).
  { sum_cases ER; injection ER as <-; unfold add_scq, add_pq; at_go c p0. }
  clear ER H. revert H1. generalize s1. clear s. intros s H.
  match goal with |- Post0 _ _ (match ?R with _ => _ end) => destruct R as [s2|code2] eqn:ER end;
    [|apply P0_ret; assumption].
  assert (H2 : At c p0 [] s2).
  { sum_cases ER; injection ER as <-; at_go c p0. }
  clear ER H. revert H2. generalize s2. clear s. intros s H.
  hoare ltac:(first [p0_base c p0 | apply P0_get_next_task | apply P0_get_current_or_next]; at_go c p0).
  all: try (apply P0_stay; at_go c p0).
Qed.

Lemma P0_kill_lookup : forall c p0 n code s, At c p0 [] s -> Post0 c p0 (kill_lookup c n code s).
Proof.
  intros c p0 n code s H. unfold kill_lookup.
  hoare ltac:(p0_base c p0; at_go c p0).
Qed.

(* -- streams -- *)
Lemma J_after_ret : forall c k p0 tr0 code,
  J c k p0 tr0 -> p0 <> Some PDone ->
  (k = true -> code <> cOK \/ exists o c', p0 = Some (PStreamReturn o c')) ->
  J c k (Some PDone) (tr0 ++ [ORet c code]).
Proof.
  intros c k p0 tr0 code HJ Hnd Hk. cbn [J].
  assert (Hf : k = false -> tr0 = [] -> closed_tr c k (tr0 ++ [ORet c code])).
  { intros -> ->. right. left. split; [reflexivity|]. exists (ORet c code). split; [reflexivity|]. left. eauto. }
  assert (Hopen : k = true -> open_tr c tr0 -> code <> cOK -> closed_tr c k (tr0 ++ [ORet c code])).
  { intros -> Ho Hc. right. right. split; [reflexivity|]. exists tr0, code. split; [exact Ho|]. left. auto. }
  destruct p0 as [p|]; cbn [J] in HJ.
  - destruct p; try (destruct HJ as [Hkk Htr]; apply Hf; assumption); try congruence.
    + (* PWaitRecheck *) destruct HJ as [Hkk ->]. destruct (Hk Hkk) as [Hc|[o [c' Hp]]]; [|discriminate].
      apply Hopen; auto. constructor.
    + (* PStream *) destruct HJ as [Hkk Ho]. destruct (Hk Hkk) as [Hc|[o' [c' Hp]]]; [|discriminate]. apply Hopen; auto.
    + (* PStreamCancelled *) destruct HJ as [Hkk Ho]. destruct (Hk Hkk) as [Hc|[o' [c' Hp]]]; [|discriminate]. apply Hopen; auto.
    + (* PStreamReturn *) destruct HJ as [Hkk [_ [msgs [d [-> [Hm Hd]]]]]].
      right. right. split; [exact Hkk|]. exists msgs, code. split; [exact Hm|]. right. exists d.
      split; [rewrite <- app_assoc; reflexivity | exact Hd].
  - subst tr0. destruct k.
    + destruct (Hk eq_refl) as [Hc|[o [c' Hp]]]; [|discriminate]. apply Hopen; auto. constructor.
    + apply Hf; reflexivity.
Qed.

Lemma J_ret : forall c k p0 tr0 code s,
  J c k p0 tr0 -> p0 <> Some PDone ->
  (k = true -> code <> cOK \/ exists o c', p0 = Some (PStreamReturn o c')) ->
  At c p0 [] s -> Jst c k tr0 (ret c code s).
Proof.
  intros c k p0 tr0 code s HJ Hnd Hk H. eapply Jst_of_At_gen; [eapply At_ret; exact H|].
  cbn [rev app]. eapply J_after_ret; eassumption.
Qed.

Definition stream_capable (p0 : option pc) : Prop :=
  p0 = None \/ (exists n, p0 = Some (PWaitRecheck n)) \/ (exists o g, p0 = Some (PStream o g)).

Lemma J_open_of_capable : forall c p0 tr0, J c true p0 tr0 -> stream_capable p0 -> open_tr c tr0.
Proof.
  intros c p0 tr0 HJ [->|[[n ->]|[o [g ->]]]]; cbn [J] in HJ.
  - subst. constructor.
  - destruct HJ as [_ ->]. constructor.
  - tauto.
Qed.

Lemma J_stream_iter : forall c p0 tr0 o s,
  J c true p0 tr0 -> stream_capable p0 -> At c p0 [] s -> Jst c true tr0 (stream_iter c o s).
Proof.
  intros c p0 tr0 o s HJ Hcap H. pose proof (J_open_of_capable _ _ _ HJ Hcap) as Hopen.
  destruct (t_resp (get_task s (o_task (get_op s o)))) as [r|] eqn:Er.
  - rewrite (stream_iter_done _ _ _ _ Er).
    eapply Jst_of_At_gen; [eapply At_setcall; apply At_emit_self; [apply tagged_self_msg|exact H]|].
    cbn [rev app J]. split; [reflexivity|]. split; [reflexivity|].
    exists tr0, (OMsg c o 4 (Some r)). split; [reflexivity|]. split; [exact Hopen|]. exists o, r. reflexivity.
  - destruct (stream_iter_not_done c o s Er) as [Heq Hst]. cbv zeta in Heq. rewrite Heq.
    eapply Jst_of_At_gen; [eapply At_setcall; apply At_emit_self; [apply tagged_self_msg|exact H]|].
    cbn [rev app J]. split; [reflexivity|]. unfold open_tr. apply Forall_app. split; [exact Hopen|].
    constructor; [|constructor]. eexists _, _. split; [reflexivity|exact Hst].
Qed.

Lemma J_wait_execution_begin : forall c p0 tr0 o s,
  J c true p0 tr0 -> stream_capable p0 -> At c p0 [] s -> Jst c true tr0 (wait_execution_begin c o s).
Proof.
  intros c p0 tr0 o s HJ Hcap H. unfold wait_execution_begin. eapply J_stream_iter; [exact HJ|exact Hcap|].
  at_go c p0.
Qed.

Lemma J_stream_return : forall c k p0 tr0 o code s,
  J c k p0 tr0 -> p0 <> Some PDone ->
  (k = true -> code <> cOK \/ exists o c', p0 = Some (PStreamReturn o c')) ->
  At c p0 [] s -> Jst c k tr0 (stream_return c o code s).
Proof.
  intros c k p0 tr0 o code s HJ Hnd Hk H. unfold stream_return. change (set_call c PDone (emit (ORet c code) ?x)) with (ret c code x).
  eapply J_ret; [exact HJ|exact Hnd|exact Hk|]. at_go c p0.
Qed.

Lemma J_park : forall c k p0 tr0 p' s,
  J c k p0 tr0 -> J c k (Some p') tr0 -> At c p0 [] s -> Jst c k tr0 (set_call c p' s).
Proof.
  intros c k p0 tr0 p' s HJ HJ' H. eapply Jst_of_At_gen; [eapply At_setcall; exact H|].
  cbn [rev]. rewrite app_nil_r. exact HJ'.
Qed.

Ltac code_ne :=
  intros _; left; try (match goal with |- (if ?b then _ else _) <> _ => destruct b end); discriminate.

Lemma J_exec_start : forall c a s, At c None [] s -> Jst c true [] (exec_start c a s).
Proof.
  intros c a s H. unfold exec_start, new_operation.
  assert (HJ : J c true None []) by reflexivity.
  assert (Hcap : stream_capable None) by (left; reflexivity).
  hoare ltac:(first [ (eapply J_wait_execution_begin; [exact HJ|exact Hcap|])
                    | (eapply J_ret; [exact HJ|discriminate|code_ne|]) ]; at_go c (@None pc)).
Qed.

Definition is_start (e : event) : bool :=
  match e with EEnter _ _ | ETimer _ _ | ECancel _ => false | _ => true end.
Definition stream_start (e : event) : bool :=
  match e with EStartExecute _ _ _ | EStartWait _ _ _ => true | _ => false end.

Ltac j_false c p0 :=
  eapply (Post0_J c p0); [cbn [J]; auto|];
  hoare ltac:(first [p0_base c p0 | apply P0_sync_start | apply P0_kill_lookup | apply P0_sync_loop]; at_go c p0).

Ltac stay c := eapply Jst_of_At; [eassumption | match goal with |- At c ?p _ _ => at_go c p end].

(* one critical section of call c itself *)
Lemma step_core_J_self : forall c k p0 tr0 e s,
  ev_call e = c -> J c k p0 tr0 -> At c p0 [] s ->
  (is_start e = true -> p0 = None /\ k = stream_start e) ->
  Jst c k tr0 (step_core e s).
Proof.
  intros c k p0 tr0 e s Hc HJ H Hstart.
  destruct e; cbn [ev_call] in Hc; subst c0; cbn [is_start stream_start] in Hstart;
    try (destruct (Hstart eq_refl) as [-> ->]; clear Hstart; cbn [J] in HJ; subst tr0); unfold step_core.
  - (* Execute *) apply J_exec_start. at_go c (@None pc).
  - (* WaitExecution *)
    hoare ltac:(first [ (eapply (J_ret c true None []); [reflexivity|discriminate|code_ne|])
                      | (eapply (J_park c true None []); [reflexivity|cbn [J]; auto|]) ]; at_go c (@None pc)).
  - (* Synchronize *) eapply (Post0_J c None); [reflexivity|]. apply P0_sync_start. at_go c (@None pc).
  - (* KillOperations by name *) eapply (Post0_J c None); [reflexivity|]. apply P0_kill_lookup. at_go c (@None pc).
  - (* KillOperations by queue *) eapply (Post0_J c None); [reflexivity|].
    hoare ltac:(p0_base c (@None pc); at_go c (@None pc)).
  - (* AddDrain *) eapply (Post0_J c None); [reflexivity|].
    hoare ltac:(p0_base c (@None pc); at_go c (@None pc)).
  - (* RemoveDrain *) eapply (Post0_J c None); [reflexivity|].
    hoare ltac:(p0_base c (@None pc); at_go c (@None pc)).
  - (* TerminateWorkers *) eapply (Post0_J c None); [reflexivity|]. cbv zeta.
    match goal with |- Post0 _ _ (match ?x with _ => _ end) => rewrite (surjective_pairing x) end.
    apply P0_park; [exact I|].
    apply (fr_terminate_fold (At c None [])); try (t_at; fail). at_go c (@None pc).
  - (* Register *) eapply (Post0_J c None); [reflexivity|].
    hoare ltac:(p0_base c (@None pc); at_go c (@None pc)).
  - (* Tick *) eapply (Post0_J c None); [reflexivity|]. apply P0_ret. at_go c (@None pc).
  - (* EEnter *)
    cbv zeta. rewrite (At_get_call _ _ _ _ H).
    destruct p0 as [p|]; [|cbn [at_gate negb]; stay c].
    destruct (negb (at_gate s p)); [stay c|].
    pose proof HJ as HJ'. cbn [J] in HJ'.
    destruct p; try (stay c; fail).
    all: try (destruct HJ' as [-> ->]; match goal with H : At ?c' ?p _ _ |- _ => j_false c' p end; fail).
    + (* PWaitRecheck *) destruct HJ' as [-> ->].
      hoare ltac:(first [ (eapply (J_wait_execution_begin c (Some (PWaitRecheck name)) []); [cbn [J]; auto|right; left; eauto|])
                        | (eapply (J_ret c true (Some (PWaitRecheck name)) []); [cbn [J]; auto|discriminate|code_ne|]) ];
                  at_go c (Some (PWaitRecheck name))).
    + (* PStream *) destruct HJ' as [-> Ho].
      eapply (J_stream_iter c (Some (PStream o gen)) tr0); [cbn [J]; auto|right; right; eauto|]. at_go c (Some (PStream o gen)).
    + (* PStreamCancelled *) destruct HJ' as [-> Ho].
      eapply (J_stream_return c true (Some (PStreamCancelled o)) tr0); [cbn [J]; auto|discriminate|code_ne|]. at_go c (Some (PStreamCancelled o)).
    + (* PStreamReturn *) destruct HJ' as [-> Hd].
      eapply (J_stream_return c true (Some (PStreamReturn o code)) tr0); [cbn [J]; auto|discriminate|intros _; right; eauto|]. at_go c (Some (PStreamReturn o code)).
  - (* ETimer *)
    cbv zeta. rewrite (At_get_call _ _ _ _ H).
    destruct p0 as [p|]; [|cbn [at_gate]; stay c].
    destruct (at_gate s p); [stay c|].
    pose proof HJ as HJ'. cbn [J] in HJ'.
    destruct p; try (stay c; fail).
    all: try (destruct HJ' as [-> ->]; match goal with H : At ?c' ?p _ _ |- _ => j_false c' p end; fail).
    destruct HJ' as [-> Ho].
    eapply (J_stream_iter c (Some (PStream o gen)) tr0); [cbn [J]; auto|right; right; eauto|]. at_go c (Some (PStream o gen)).
  - (* ECancel *)
    cbv zeta. rewrite (At_get_call _ _ _ _ H).
    destruct p0 as [p|]; [|cbn [at_gate]; stay c].
    destruct (at_gate s p); [stay c|].
    pose proof HJ as HJ'. cbn [J] in HJ'.
    destruct p; try (stay c; fail).
    all: try (destruct HJ' as [-> ->]; match goal with H : At ?c' ?p _ _ |- _ => j_false c' p end; fail).
    destruct HJ' as [-> Ho]. eapply (J_park c true (Some (PStream o gen)) tr0); [cbn [J]; auto|cbn [J]; auto|exact H].
Qed.

(* ---- TerminateWorkers calls returning by themselves ---------------------------------------- *)
Definition calls_nodup (s : state) : Prop := NoDup (map fst (s_calls s)).

Lemma calls_nodup_frame : forall s s', s_calls s' = s_calls s -> calls_nodup s -> calls_nodup s'.
Proof. unfold calls_nodup. intros s s' ->. auto. Qed.
Lemma calls_nodup_setcall : forall s c p, calls_nodup s -> calls_nodup (set_call c p s).
Proof. unfold calls_nodup, set_call. intros. cbn. apply (NoDup_keys_aset Nat.eqb nat_eqb_eq). assumption. Qed.
Lemma calls_nodup_ret : forall s c code, calls_nodup s -> calls_nodup (ret c code s).
Proof. intros. unfold ret. apply calls_nodup_setcall. eapply calls_nodup_frame; [|eassumption]. reflexivity. Qed.

Ltac t_nodup :=
  intros;
  first [ (eapply calls_nodup_frame; [ | eassumption]; t_frame)
        | (apply calls_nodup_setcall; assumption)
        | (apply calls_nodup_ret; assumption) ].

Lemma calls_nodup_step_core : forall e s, calls_nodup s -> calls_nodup (step_core e s).
Proof.
  intros e s H. apply fr_step_core with (P := calls_nodup) (c0 := ev_call e); try (t_nodup; fail); try reflexivity; assumption.
Qed.

Lemma calls_nodup_auto_returns : forall s, calls_nodup s -> calls_nodup (auto_returns s).
Proof. intros s H. apply fr_auto_returns with (P := calls_nodup); try (t_nodup; fail); assumption. Qed.

Lemma calls_nodup_step : forall s eh, calls_nodup s -> calls_nodup (fst (step s eh)).
Proof.
  intros s eh H. unfold step. cbn [fst].
  eapply calls_nodup_frame; [reflexivity|]. apply calls_nodup_auto_returns. apply calls_nodup_step_core.
  eapply calls_nodup_frame; [|exact H]. reflexivity.
Qed.

Definition auto_step (s : state) (cp : nat * pc) : state :=
  let '(c, p) := cp in
  match p with
  | PTerminate waits => if terminate_done s waits then ret c cOK s else s
  | _ => s
  end.

Lemma auto_returns_fold : forall s, auto_returns s = fold_left auto_step (s_calls s) s.
Proof. reflexivity. Qed.

Lemma aget_calls_ret_other : forall c c' code s, c' <> c -> aget Nat.eqb c (s_calls (ret c' code s)) = aget Nat.eqb c (s_calls s).
Proof. intros. unfold ret, set_call, emit. cbn. apply (aget_aset_other Nat.eqb nat_eqb_eq). auto. Qed.

Lemma auto_fold_J : forall c k tr0 l s,
  NoDup (map fst l) -> (forall p, In (c, p) l -> aget Nat.eqb c (s_calls s) = Some p) ->
  Jst c k tr0 s -> Jst c k tr0 (fold_left auto_step l s).
Proof.
  intros c k tr0. induction l as [|[c' p'] l IH]; intros s Hnd Hin HJ; cbn [fold_left]; [exact HJ|].
  inversion Hnd as [|? ? Hnotin Hnd']; subst. cbn [fst] in Hnotin.
  destruct (Nat.eq_dec c' c) as [->|Hne].
  - (* the entry of call c itself *)
    assert (Hvac : forall s1 p, In (c, p) l -> aget Nat.eqb c (s_calls s1) = Some p).
    { intros s1 p Hp. exfalso. apply Hnotin. apply (in_map fst) in Hp. exact Hp. }
    apply IH; [exact Hnd'|apply Hvac|].
    pose proof (Hin p' (or_introl eq_refl)) as Hp. unfold auto_step.
    destruct p'; try exact HJ. destruct (terminate_done s waits); [|exact HJ].
    unfold Jst in HJ. rewrite Hp in HJ. cbn [J] in HJ. destruct HJ as [-> Htr].
    apply app_eq_nil in Htr. destruct Htr as [-> Hout].
    assert (Hc : ctag c (s_out s) = []).
    { destruct (ctag c (s_out s)); [reflexivity|]. cbn in Hout. apply app_eq_nil in Hout. destruct Hout. discriminate. }
    eapply (J_ret c false (Some (PTerminate waits)) []); [cbn [J]; auto|discriminate|discriminate|].
    split; assumption.
  - assert (HJ' : Jst c k tr0 (auto_step s (c', p'))).
    { unfold auto_step. destruct p'; try exact HJ. destruct (terminate_done s waits); [|exact HJ].
      apply Jst_ret_other; assumption. }
    apply IH; [exact Hnd'| |exact HJ'].
    intros p Hp. specialize (Hin p (or_intror Hp)). unfold auto_step.
    destruct p'; try exact Hin. destruct (terminate_done s waits); [|exact Hin].
    rewrite aget_calls_ret_other by assumption. exact Hin.
Qed.

Lemma auto_returns_J : forall c k tr0 s, calls_nodup s -> Jst c k tr0 s -> Jst c k tr0 (auto_returns s).
Proof.
  intros c k tr0 s Hnd HJ. rewrite auto_returns_fold. apply auto_fold_J; [exact Hnd| |exact HJ].
  intros p Hp. apply (In_aget_NoDup Nat.eqb nat_eqb_eq); assumption.
Qed.

(* ---- one event ------------------------------------------------------------------------------------ *)
Lemma step_J : forall c k tr0 s e h,
  calls_nodup s -> J c k (aget Nat.eqb c (s_calls s)) tr0 ->
  (is_start e = true -> ev_call e = c -> aget Nat.eqb c (s_calls s) = None /\ k = stream_start e) ->
  J c k (aget Nat.eqb c (s_calls (fst (step s (e, h))))) (tr0 ++ ctag c (snd (step s (e, h)))).
Proof.
  intros c k tr0 s e h Hnd HJ Hstart. unfold step. cbn [fst snd].
  set (sa := s <| s_hints := h |> <| s_out := [] |>).
  assert (Hat : At c (aget Nat.eqb c (s_calls s)) [] sa) by (split; reflexivity).
  assert (Hnda : calls_nodup sa) by (eapply calls_nodup_frame; [|exact Hnd]; reflexivity).
  assert (H1 : Jst c k tr0 (step_core e sa)).
  { destruct (Nat.eq_dec (ev_call e) c) as [Heq|Hne].
    - eapply step_core_J_self; [exact Heq|exact HJ|exact Hat|]. intro Hs. apply Hstart; assumption.
    - apply step_core_J_other; [exact Hne|]. eapply Jst_of_At; eassumption. }
  apply auto_returns_J in H1; [|apply calls_nodup_step_core; exact Hnda].
  unfold Jst in H1. rewrite ctag_rev. exact H1.
Qed.

(* ---- freshness of call ids ----------------------------------------------------------------------------- *)
Definition hevent := (event * list (nat * wref))%type.

Fixpoint fresh_calls (U : list nat) (evs : list hevent) : Prop :=
  match evs with
  | [] => True
  | (e, _) :: tl => if is_start e then ~ In (ev_call e) U /\ fresh_calls (ev_call e :: U) tl else fresh_calls U tl
  end.

Definition keys_in (U : list nat) (s : state) : Prop := forall c, In c (map fst (s_calls s)) -> In c U.

Lemma keys_in_frame : forall U s s', s_calls s' = s_calls s -> keys_in U s -> keys_in U s'.
Proof. unfold keys_in. intros U s s' ->. auto. Qed.
Lemma keys_in_setcall : forall U s c p, In c U -> keys_in U s -> keys_in U (set_call c p s).
Proof.
  unfold keys_in, set_call. intros U s c p Hc H c1. cbn. rewrite (map_fst_aset Nat.eqb nat_eqb_eq).
  destruct (aget Nat.eqb c (s_calls s)); [apply H|]. intro Hin. apply in_app_or in Hin. destruct Hin as [Hin|[<-|[]]]; auto.
Qed.
Lemma keys_in_ret : forall U s c code, In c (map fst (s_calls s)) \/ In c U -> keys_in U s -> keys_in U (ret c code s).
Proof.
  intros U s c code Hc H. unfold ret. apply keys_in_setcall; [destruct Hc; auto|].
  eapply keys_in_frame; [|exact H]. reflexivity.
Qed.

Lemma keys_in_auto_fold : forall U l s,
  (forall cp, In cp l -> In (fst cp) U) -> keys_in U s -> keys_in U (fold_left auto_step l s).
Proof.
  intros U. induction l as [|[c' p'] l IH]; intros s Hl H; cbn [fold_left]; [exact H|].
  apply IH; [intros cp Hcp; apply Hl; right; exact Hcp|].
  unfold auto_step. destruct p'; try exact H. destruct (terminate_done s waits); [|exact H].
  apply keys_in_ret; [right; apply (Hl (c', PTerminate waits)); left; reflexivity|exact H].
Qed.

Lemma keys_in_auto_returns : forall U s, keys_in U s -> keys_in U (auto_returns s).
Proof.
  intros U s H. rewrite auto_returns_fold. apply keys_in_auto_fold; [|exact H].
  intros cp Hcp. apply H. apply in_map. exact Hcp.
Qed.

Ltac t_keys :=
  intros;
  first [ (eapply keys_in_frame; [ | eassumption]; t_frame)
        | (apply keys_in_setcall; assumption) ].

Lemma keys_in_step_core : forall U e s, In (ev_call e) U -> keys_in U s -> keys_in U (step_core e s).
Proof.
  intros U e s Hc H. apply fr_step_core with (P := keys_in U) (c0 := ev_call e); try (t_keys; fail); try reflexivity; assumption.
Qed.

(* a gate / timer / cancel event for a call that was never started does nothing *)
Lemma step_core_unknown_call : forall e s,
  is_start e = false -> aget Nat.eqb (ev_call e) (s_calls s) = None -> step_core e s = s.
Proof.
  intros e s Hs Hc. destruct e; try discriminate; cbn [ev_call] in Hc; unfold step_core, get_call; rewrite Hc; reflexivity.
Qed.

Lemma keys_in_step : forall U s e h,
  keys_in U s -> keys_in (if is_start e then ev_call e :: U else U) (fst (step s (e, h))).
Proof.
  intros U s e h H. unfold step. cbn [fst].
  eapply keys_in_frame; [reflexivity|]. apply keys_in_auto_returns.
  set (sa := s <| s_hints := h |> <| s_out := [] |>).
  assert (Ha : keys_in U sa) by (eapply keys_in_frame; [|exact H]; reflexivity).
  destruct (is_start e) eqn:Es.
  - apply keys_in_step_core; [left; reflexivity|]. intros c Hc. right. apply Ha. exact Hc.
  - destruct (aget Nat.eqb (ev_call e) (s_calls sa)) eqn:Eg.
    + apply keys_in_step_core; [|exact Ha]. apply Ha. eapply aget_Some_in_keys; [exact nat_eqb_eq|exact Eg].
    + rewrite step_core_unknown_call by assumption. exact Ha.
Qed.

(* ---- a whole run ------------------------------------------------------------------------------------------ *)
Definition kinds_ok (K : nat -> bool) (evs : list hevent) : Prop :=
  forall e h, In (e, h) evs -> is_start e = true -> K (ev_call e) = stream_start e.

Lemma run_J : forall c K evs s U tr0,
  calls_nodup s -> keys_in U s -> fresh_calls U evs -> kinds_ok K evs ->
  J c (K c) (aget Nat.eqb c (s_calls s)) tr0 ->
  J c (K c) (aget Nat.eqb c (s_calls (fst (run s evs)))) (tr0 ++ ctag c (List.concat (snd (run s evs)))).
Proof.
  intros c K. induction evs as [|[e h] evs IH]; intros s U tr0 Hnd Hk Hf HK HJ.
  - cbn. rewrite app_nil_r. exact HJ.
  - cbn [run]. destruct (step s (e, h)) as [s1 o] eqn:Es. destruct (run s1 evs) as [s2 os] eqn:Er.
    cbn [fst snd List.concat]. rewrite ctag_app, app_assoc.
    assert (Hs1 : s1 = fst (step s (e, h))) by (rewrite Es; reflexivity).
    assert (Ho : o = snd (step s (e, h))) by (rewrite Es; reflexivity).
    replace s2 with (fst (run s1 evs)) by (rewrite Er; reflexivity).
    replace os with (snd (run s1 evs)) by (rewrite Er; reflexivity).
    cbn [fresh_calls] in Hf.
    apply (IH s1 (if is_start e then ev_call e :: U else U)).
    + subst s1. apply calls_nodup_step. exact Hnd.
    + subst s1. apply keys_in_step. exact Hk.
    + destruct (is_start e); tauto.
    + intros e' h' Hin Hs'. apply (HK e' h'); [right; exact Hin|exact Hs'].
    + subst s1 o. apply step_J; [exact Hnd|exact HJ|].
      intros Hst Hc. rewrite Hst in Hf. destruct Hf as [Hnotin _]. split.
      * destruct (aget Nat.eqb c (s_calls s)) eqn:Eg; [|reflexivity]. exfalso. apply Hnotin. apply Hk.
        rewrite Hc. eapply aget_Some_in_keys; [exact nat_eqb_eq|exact Eg].
      * rewrite <- Hc. apply (HK e h); [left; reflexivity|exact Hst].
Qed.

Definition kind_of (evs : list hevent) (c : nat) : bool :=
  existsb (fun '(e, _) => is_start e && Nat.eqb (ev_call e) c && stream_start e) evs.

Lemma fresh_notin : forall evs U e h, fresh_calls U evs -> In (e, h) evs -> is_start e = true -> ~ In (ev_call e) U.
Proof.
  induction evs as [|[e0 h0] evs IH]; intros U e h Hf Hin Hs; [contradiction|].
  cbn [fresh_calls] in Hf. destruct Hin as [Heq|Hin].
  - inversion Heq; subst. rewrite Hs in Hf. tauto.
  - destruct (is_start e0).
    + destruct Hf as [_ Hf]. intro Hu. apply (IH _ e h Hf Hin Hs). right. exact Hu.
    + apply (IH _ e h Hf Hin Hs).
Qed.

Lemma kind_of_used : forall evs U c, fresh_calls U evs -> In c U -> kind_of evs c = false.
Proof.
  intros evs U c Hf Hc. unfold kind_of. apply not_true_is_false. intro Hex.
  apply existsb_exists in Hex. destruct Hex as [[e h] [Hin Hb]].
  apply andb_true_iff in Hb. destruct Hb as [Hb _]. apply andb_true_iff in Hb. destruct Hb as [Hs He].
  apply Nat.eqb_eq in He. subst c. exact (fresh_notin _ _ _ _ Hf Hin Hs Hc).
Qed.

Lemma kinds_ok_fresh : forall evs U, fresh_calls U evs -> kinds_ok (kind_of evs) evs.
Proof.
  induction evs as [|[e0 h0] evs IH]; intros U Hf e h Hin Hs; [contradiction|].
  cbn [fresh_calls] in Hf. unfold kind_of. cbn [existsb]. fold (kind_of evs (ev_call e)).
  destruct Hin as [Heq|Hin].
  - inversion Heq; subst. rewrite Hs in *. rewrite Nat.eqb_refl. cbn [andb].
    destruct Hf as [_ Hf]. rewrite (kind_of_used evs _ (ev_call e) Hf) by (left; reflexivity).
    apply orb_false_r.
  - destruct (is_start e0) eqn:Es0.
    + destruct Hf as [_ Hf]. pose proof (fresh_notin _ _ _ _ Hf Hin Hs) as Hn.
      assert (Hne : Nat.eqb (ev_call e0) (ev_call e) = false).
      { apply Nat.eqb_neq. intro Heq. apply Hn. left. exact Heq. }
      rewrite Hne. cbn [andb orb]. apply (IH _ Hf e h Hin Hs).
    + cbn [andb orb]. apply (IH _ Hf e h Hin Hs).
Qed.

Lemma init_calls : forall cfg t0, s_calls (init cfg t0) = [].
Proof. reflexivity. Qed.

(* the invariant for every call over every run *)
Lemma call_view : forall cfg t0 evs c,
  fresh_calls [] evs ->
  J c (kind_of evs c) (aget Nat.eqb c (s_calls (fst (run (init cfg t0) evs))))
    (ctag c (List.concat (snd (run (init cfg t0) evs)))).
Proof.
  intros cfg t0 evs c Hf.
  apply (run_J c (kind_of evs) evs (init cfg t0) [] []).
  - unfold calls_nodup. rewrite init_calls. constructor.
  - intros c' Hc'. rewrite init_calls in Hc'. destruct Hc'.
  - exact Hf.
  - eapply kinds_ok_fresh. exact Hf.
  - rewrite init_calls. reflexivity.
Qed.

(* ---- reading the invariant ------------------------------------------------------------------------------------ *)
(* every trace is  msgs ++ suf  with msgs non-final messages and suf one of five endings *)
Definition ending (c : nat) (k : bool) (suf : list obs) : Prop :=
  suf = [] \/
  (exists d, suf = [d] /\ final c d) \/
  (k = false /\ exists o, suf = [o] /\ is_end c o) \/
  (k = true /\ exists code, suf = [ORet c code] /\ code <> cOK) \/
  (k = true /\ exists d code, suf = [d; ORet c code] /\ final c d).

Lemma J_forms : forall c k p tr, J c k p tr -> exists msgs suf, tr = msgs ++ suf /\ Forall (nonfinal c) msgs /\ ending c k suf.
Proof.
  intros c k p tr HJ.
  assert (Hnil : tr = [] -> exists msgs suf, tr = msgs ++ suf /\ Forall (nonfinal c) msgs /\ ending c k suf).
  { intros ->. exists [], []. split; [reflexivity|]. split; [constructor|left; reflexivity]. }
  assert (Hopen : open_tr c tr -> exists msgs suf, tr = msgs ++ suf /\ Forall (nonfinal c) msgs /\ ending c k suf).
  { intro Ho. exists tr, []. split; [rewrite app_nil_r; reflexivity|]. split; [exact Ho|left; reflexivity]. }
  destruct p as [p|]; cbn [J] in HJ; [|auto].
  destruct p; try (destruct HJ as [_ HJ]; auto; fail).
  - (* PStreamReturn *) destruct HJ as [_ [_ [msgs [d [-> [Hm Hd]]]]]].
    exists msgs, [d]. split; [reflexivity|]. split; [exact Hm|]. right. left. eauto.
  - (* PDone *) destruct HJ as [->|[[-> [o [-> He]]]|[-> [msgs [code [Hm [[-> Hc]|[d [-> Hd]]]]]]]]]; [auto| | |].
    + exists [], [o]. split; [reflexivity|]. split; [constructor|]. right. right. left. eauto.
    + exists msgs, [ORet c code]. split; [reflexivity|]. split; [exact Hm|]. right. right. right. left. eauto.
    + exists msgs, [d; ORet c code]. split; [reflexivity|]. split; [exact Hm|]. right. right. right. right. eauto.
Qed.

Lemma split_after_prefix {A} (P : A -> Prop) : forall msgs suf pre x post,
  Forall P msgs -> ~ P x -> msgs ++ suf = pre ++ x :: post ->
  exists suf1, pre = msgs ++ suf1 /\ suf = suf1 ++ x :: post.
Proof.
  induction msgs as [|m msgs IH]; intros suf pre x post Hm Hx Heq.
  - exists pre. split; [reflexivity|exact Heq].
  - inversion Hm as [|? ? Hpm Hms]; subst. destruct pre as [|p pre]; cbn in Heq; inversion Heq as [[Hhd Htl]]; subst; [contradiction|].
    destruct (IH suf pre x post Hms Hx Htl) as [suf1 [-> ->]]. exists suf1. split; reflexivity.
Qed.

Lemma nonfinal_not_final : forall c o, nonfinal c o -> ~ final c o.
Proof. intros c o [n [st [-> Hst]]] [n' [r H]]. discriminate. Qed.
Lemma nonfinal_not_end : forall c o, nonfinal c o -> ~ is_end c o.
Proof. intros c o [n [st [-> Hst]]] [[code H]|[d [z H]]]; discriminate. Qed.
Lemma final_not_end : forall c o, final c o -> ~ is_end c o.
Proof. intros c o [n [r ->]] [[code H]|[d [z H]]]; discriminate. Qed.

(* at most one done message; before it only non-final messages, after it at most the return *)
Lemma forms_done_once : forall c k msgs suf pre d post,
  Forall (nonfinal c) msgs -> ending c k suf -> msgs ++ suf = pre ++ d :: post -> final c d ->
  Forall (nonfinal c) pre /\ (post = [] \/ exists code, post = [ORet c code]).
Proof.
  intros c k msgs suf pre d post Hm He Heq Hd.
  destruct (split_after_prefix _ msgs suf pre d post Hm (fun H => nonfinal_not_final _ _ H Hd) Heq) as [suf1 [-> Hs]].
  destruct He as [->|[[d' [-> Hd']]|[[_ [o [-> Ho]]]|[[_ [code [-> Hc]]]|[_ [d' [code [-> Hd']]]]]]]].
  - destruct suf1; discriminate.
  - destruct suf1 as [|a [|b suf1]]; inversion Hs; subst. rewrite app_nil_r. auto.
  - destruct suf1 as [|a [|b suf1]]; inversion Hs; subst. exfalso. exact (final_not_end _ _ Hd Ho).
  - destruct suf1 as [|a [|b suf1]]; inversion Hs; subst. destruct Hd as [n [r H]]. discriminate.
  - destruct suf1 as [|a [|b [|b' suf1]]]; inversion Hs; subst.
    + rewrite app_nil_r. split; [exact Hm|]. right. eauto.
    + destruct Hd as [n [r H]]. discriminate.
Qed.

(* nothing after the end of a call *)
Lemma forms_nothing_after_end : forall c k msgs suf pre o post,
  Forall (nonfinal c) msgs -> ending c k suf -> msgs ++ suf = pre ++ o :: post -> is_end c o -> post = [].
Proof.
  intros c k msgs suf pre o post Hm He Heq Ho.
  destruct (split_after_prefix _ msgs suf pre o post Hm (fun H => nonfinal_not_end _ _ H Ho) Heq) as [suf1 [-> Hs]].
  destruct He as [->|[[d' [-> Hd']]|[[_ [o' [-> Ho']]]|[[_ [code [-> Hc]]]|[_ [d' [code [-> Hd']]]]]]]].
  - destruct suf1; discriminate.
  - destruct suf1 as [|a [|b suf1]]; inversion Hs; subst. reflexivity.
  - destruct suf1 as [|a [|b suf1]]; inversion Hs; subst. reflexivity.
  - destruct suf1 as [|a [|b suf1]]; inversion Hs; subst. reflexivity.
  - destruct suf1 as [|a [|b [|b' suf1]]]; inversion Hs; subst; [|reflexivity].
    exfalso. exact (final_not_end _ _ Hd' Ho).
Qed.

(* a stream returns OK only right after its done message *)
Lemma forms_ok_after_done : forall c msgs suf pre post,
  Forall (nonfinal c) msgs -> ending c true suf -> msgs ++ suf = pre ++ ORet c cOK :: post ->
  exists pre' d, pre = pre' ++ [d] /\ final c d.
Proof.
  intros c msgs suf pre post Hm He Heq.
  assert (Ho : is_end c (ORet c cOK)) by (left; eauto).
  destruct (split_after_prefix _ msgs suf pre _ post Hm (fun H => nonfinal_not_end _ _ H Ho) Heq) as [suf1 [-> Hs]].
  destruct He as [->|[[d' [-> Hd']]|[[Hk _]|[[_ [code [-> Hc]]]|[_ [d' [code [-> Hd']]]]]]]]; [| |discriminate| |].
  - destruct suf1; discriminate.
  - destruct suf1 as [|a [|b suf1]]; inversion Hs; subst. exfalso. exact (final_not_end _ _ Hd' Ho).
  - destruct suf1 as [|a [|b suf1]]; inversion Hs; subst. congruence.
  - destruct suf1 as [|a [|b [|b' suf1]]]; inversion Hs; subst.
    + exfalso. exact (final_not_end _ _ Hd' Ho).
    + eexists msgs, _. split; [reflexivity|eassumption].
Qed.

Definition call_trace (c : nat) (outs : list (list obs)) : list obs := ctag c (List.concat outs).

Lemma stream_done_once_all : forall cfg t0 evs c,
  fresh_calls [] evs ->
  forall pre d post, call_trace c (snd (run (init cfg t0) evs)) = pre ++ d :: post -> final c d ->
    Forall (nonfinal c) pre /\ (post = [] \/ exists code, post = [ORet c code]).
Proof.
  intros cfg t0 evs c Hf pre d post Heq Hd.
  destruct (J_forms _ _ _ _ (call_view cfg t0 evs c Hf)) as [msgs [suf [Htr [Hm He]]]].
  unfold call_trace in Heq. rewrite Htr in Heq. eapply forms_done_once; eassumption.
Qed.

Lemma nothing_after_end_all : forall cfg t0 evs c,
  fresh_calls [] evs ->
  forall pre o post, call_trace c (snd (run (init cfg t0) evs)) = pre ++ o :: post -> is_end c o -> post = [].
Proof.
  intros cfg t0 evs c Hf pre o post Heq Ho.
  destruct (J_forms _ _ _ _ (call_view cfg t0 evs c Hf)) as [msgs [suf [Htr [Hm He]]]].
  unfold call_trace in Heq. rewrite Htr in Heq. eapply forms_nothing_after_end; eassumption.
Qed.

Lemma return_follows_done_all : forall cfg t0 evs c,
  fresh_calls [] evs -> kind_of evs c = true ->
  forall pre post, call_trace c (snd (run (init cfg t0) evs)) = pre ++ ORet c cOK :: post ->
    exists pre' d, pre = pre' ++ [d] /\ final c d.
Proof.
  intros cfg t0 evs c Hf Hk pre post Heq.
  pose proof (call_view cfg t0 evs c Hf) as HJ. rewrite Hk in HJ.
  destruct (J_forms _ _ _ _ HJ) as [msgs [suf [Htr [Hm He]]]].
  unfold call_trace in Heq. rewrite Htr in Heq. eapply forms_ok_after_done; eassumption.
Qed.

(* the overall shape *)
Lemma call_trace_shape : forall cfg t0 evs c,
  fresh_calls [] evs ->
  exists msgs suf, call_trace c (snd (run (init cfg t0) evs)) = msgs ++ suf /\
    Forall (nonfinal c) msgs /\ ending c (kind_of evs c) suf.
Proof. intros cfg t0 evs c Hf. exact (J_forms _ _ _ _ (call_view cfg t0 evs c Hf)). Qed.

