(* C07 (scheduler part): the backlog of the background-learning invocation is bounded by the configured maximum. *)
From Coq Require Import Lia.
From VF Require Export Sched.ProofsBg1 Sched.ProofsTC5.
From VF Require Import Sched.ProofsLearner Sched.ProofsRoute.
Open Scope Z_scope.

Definition bgl (s : state) (pk : pkey) (sc : N) : nat := List.length (v_qops (get_inv s (mkI (mkSK pk sc) bgp))).
Definition BQ (s : state) : Prop := forall p sc, In p (s_pqs s) -> (bgl s (p_key p) sc <= p_maxbg p)%nat.

Lemma BQ_frame : forall s s', s_pqs s' = s_pqs s -> s_invs s' = s_invs s -> BQ s -> BQ s'.
Proof. unfold BQ, bgl. intros s s' E1 E2 H p sc. rewrite E1, (get_inv_frame _ _ _ E2). apply H. Qed.

(* the invocation table shrinks, or changes elsewhere *)
Lemma BQ_invs_le : forall s s', s_pqs s' = s_pqs s ->
  (forall i, i_path i = bgp -> (List.length (v_qops (get_inv s' i)) <= List.length (v_qops (get_inv s i)))%nat) -> BQ s -> BQ s'.
Proof. unfold BQ, bgl. intros s s' E1 E2 H p sc Hp. rewrite E1 in Hp. specialize (H p sc Hp). specialize (E2 (mkI (mkSK (p_key p) sc) bgp) eq_refl). lia. Qed.

Lemma BQ_upd_inv : forall s i f,
  (i_path i <> bgp \/ (List.length (v_qops (f (get_inv s i))) <= List.length (v_qops (get_inv s i)))%nat) -> BQ s -> BQ (upd_inv i f s).
Proof.
  intros s i f Hf H. apply (BQ_invs_le s); [rewrite upd_inv_eq; reflexivity| |exact H].
  intros j Hj. rewrite get_inv_upd_inv. destruct (iref_eqb j i && inv_exists s i) eqn:E; [|apply Nat.le_refl].
  apply andb_true_iff in E. destruct E as [E _]. apply iref_eqb_eq in E. subst j. destruct Hf as [Hf|Hf]; [contradiction|exact Hf].
Qed.
Lemma BQ_invs_new : forall s i z, BQ s -> BQ (s <| s_invs ::= fun l => l ++ [(i, new_inv z)] |>).
Proof.
  intros s i z H. apply (BQ_invs_le s); [reflexivity| |exact H]. intros j _. unfold get_inv. cbn. rewrite (aget_app iref_eqb).
  destruct (aget iref_eqb j (s_invs s)); [apply Nat.le_refl|]. cbn. destruct (iref_eqb j i); apply Nat.le_refl.
Qed.
Lemma BQ_invs_del : forall s i, NoDup (map fst (s_invs s)) -> BQ s -> BQ (s <| s_invs := adel iref_eqb i (s_invs s) |>).
Proof.
  intros s i Hnd H. apply (BQ_invs_le s); [reflexivity| |exact H]. intros j _. rewrite get_inv_adel by exact Hnd.
  destruct (iref_eqb j i); [cbn; lia|apply Nat.le_refl].
Qed.

Lemma filter_len_le : forall {A} (P : A -> bool) l, (List.length (filter P l) <= List.length l)%nat.
Proof. intros A P. induction l as [|x l IH]; cbn; [lia|]. destruct (P x); cbn; lia. Qed.

Ltac t_BQ :=
  intros;
  lazymatch goal with
  | |- BQ (upd_inv _ _ _) =>
    (try match goal with Hf : inv_upd _ |- _ => destruct Hf end);
    apply BQ_upd_inv; [right; cbn; first [apply Nat.le_refl | (unfold remove_nat; apply filter_len_le)] | assumption]
  | |- BQ (set s_invs (fun l => l ++ [(_, new_inv _)]) _) => apply BQ_invs_new; assumption
  | |- _ => (eapply BQ_frame; [| |eassumption]); frame_eq
  end.

(* with the structure of the tables *)
Definition SB (s : state) : Prop := St s /\ BQ s.
Ltac t_SB :=
  intros;
  match goal with H : SB _ |- _ => let HS := fresh "HS" in let HB := fresh "HB" in destruct H as [HS HB] end;
  split; [t_St | t_BQ].

Lemma SB_remove_if_empty : forall i s, SB s -> SB (fst (remove_if_empty i s)).
Proof.
  intros i s [HS HB]. split; [apply St_remove_if_empty; exact HS|]. unfold remove_if_empty. destruct (_ && _); cbn [fst]; [|exact HB].
  apply BQ_invs_del; [exact (proj1 (proj2 (proj2 HS)))|exact HB].
Qed.
Lemma SB_get_or_create_invocation : forall k p s, SB s -> SB (get_or_create_invocation k p s).
Proof.
  intros k p s [HS HB]. split; [apply St_get_or_create_invocation; exact HS|]. unfold get_or_create_invocation.
  apply fold_left_pres; [|exact HB]. intros a pp Ha. destruct (inv_exists a (mkI k pp)); [exact Ha|t_BQ].
Qed.
Ltac sb_leaf :=
  idtac;
  lazymatch goal with
  | |- SB (get_or_create_invocation _ _ _) => apply SB_get_or_create_invocation
  | |- SB (fst (remove_if_empty _ _)) => apply SB_remove_if_empty
  end.
Ltac sb_go := inv_go sb_leaf t_SB.

Lemma SB_decrement_executing : forall i w s, SB s -> SB (decrement_executing i w s).
Proof. intros. sb_go. Qed.
Lemma SB_clear_last_invocation : forall w s, SB s -> SB (clear_last_invocation w s).
Proof. intros. sb_go. Qed.
Lemma SB_assign_queued : forall w t r s, SB s -> SB (assign_queued w t r s).
Proof. intros. unfold assign_queued, assign_unqueued, report_non_final_stage_change. sb_go. Qed.
Lemma SB_ct_prefix : forall t b s, SB s -> SB (ct_prefix t b s).
Proof. intros. unfold ct_prefix, assign_queued, assign_unqueued, report_non_final_stage_change. sb_go. Qed.

(* ---- enqueue -------------------------------------------------------------------------------------------------------------------------------------------- *)
Lemma SB_update_first_priority : forall i s, SB s -> SB (update_first_priority i s).
Proof. intros. sb_go. Qed.

Lemma SB_enqueue_other : forall o s, i_path (o_inv (get_op s o)) <> bgp -> SB s -> SB (enqueue o s).
Proof.
  intros o s Hp H. unfold enqueue. cbv zeta. apply fold_left_pres; [intros; apply SB_update_first_priority; assumption|].
  destruct H as [HS HB]. split; [t_St|apply BQ_upd_inv; [left; exact Hp|exact HB]].
Qed.

Lemma SB_enqueue_bg : forall o s p0 sc,
  NoDup (map p_key (s_pqs s)) -> In p0 (s_pqs s) -> o_inv (get_op s o) = mkI (mkSK (p_key p0) sc) bgp ->
  (bgl s (p_key p0) sc < p_maxbg p0)%nat -> SB s -> SB (enqueue o s).
Proof.
  intros o s p0 sc Hnd Hp0 Hi Hlt H. unfold enqueue. cbv zeta. apply fold_left_pres; [intros; apply SB_update_first_priority; assumption|].
  destruct H as [HS HB]. split; [t_St|]. rewrite Hi.
  intros p sc' Hp. rewrite upd_inv_eq in Hp. cbn in Hp. unfold bgl. rewrite get_inv_upd_inv.
  destruct (iref_eqb (mkI (mkSK (p_key p) sc') bgp) (mkI (mkSK (p_key p0) sc) bgp) && inv_exists s (mkI (mkSK (p_key p0) sc) bgp)) eqn:E; [|apply HB; exact Hp].
  apply andb_true_iff in E. destruct E as [E _]. apply iref_eqb_eq in E. inversion E as [[Ek Es]]. cbn [v_qops set]. rewrite app_length. cbn.
  assert (Epp : p = p0).
  { clear -Hnd Hp Hp0 Ek. induction (s_pqs s) as [|q l IH]; [destruct Hp|]. cbn in Hnd. inversion Hnd as [|? ? Hni Hnd']; subst.
    destruct Hp as [->|Hp]; destruct Hp0 as [->|Hp0]; auto.
    - exfalso. apply Hni. rewrite Ek. apply in_map. exact Hp0.
    - exfalso. apply Hni. rewrite <- Ek. apply in_map. exact Hp. }
  subst p. unfold bgl in Hlt. lia.
Qed.

Lemma enqueue_fold_SB_other : forall l s,
  (forall o, In o l -> i_path (o_inv (get_op s o)) <> bgp) -> SB s -> SB (fold_left (fun s o => enqueue o s) l s).
Proof.
  induction l as [|o l IH]; intros s Hl H; cbn [fold_left]; [exact H|].
  apply IH; [|apply SB_enqueue_other; [apply Hl; left; reflexivity|exact H]].
  intros o' Ho'. destruct (enqueue_reads o s) as [E _]. rewrite (get_op_frame _ _ _ E). apply Hl. right. exact Ho'.
Qed.

(* ---- task.schedule ----------------------------------------------------------------------------------------------------------------------------------------- *)
Lemma SB_assign_unqueued : forall w t r s, SB s -> SB (assign_unqueued w t r s).
Proof. intros. unfold assign_unqueued. sb_go. Qed.
Lemma SB_dequeue_worker : forall w s, SB s -> SB (dequeue_worker w s).
Proof. intros. unfold dequeue_worker. sb_go. Qed.

Lemma SB_schedule_other : forall t s,
  (forall o, In o (task_opids s t) -> i_path (o_inv (get_op s o)) <> bgp) -> SB s -> SB (schedule t s).
Proof.
  intros t s Hl H. unfold schedule. cbv zeta. destruct (pick_worker s t _) as [w|].
  - apply SB_assign_unqueued. unfold wake_up. apply SB_dequeue_worker. exact H.
  - apply enqueue_fold_SB_other; assumption.
Qed.

Lemma SB_schedule_bg : forall t s p0 sc o,
  NoDup (map p_key (s_pqs s)) -> In p0 (s_pqs s) -> t_ops (get_task s t) = [(mkI (mkSK (p_key p0) sc) bgp, o)] ->
  o_inv (get_op s o) = mkI (mkSK (p_key p0) sc) bgp -> (bgl s (p_key p0) sc < p_maxbg p0)%nat -> SB s -> SB (schedule t s).
Proof.
  intros t s p0 sc o Hnd Hp0 Eo Hi Hlt H. unfold schedule. cbv zeta. destruct (pick_worker s t _) as [w|].
  - apply SB_assign_unqueued. unfold wake_up. apply SB_dequeue_worker. exact H.
  - unfold task_opids. rewrite Eo. cbn [map snd fold_left]. eapply SB_enqueue_bg; eassumption.
Qed.

(* ---- task.complete -------------------------------------------------------------------------------------------------------------------------------------- *)
Lemma SB_new_task_op : forall s x prio i m, SB s ->
  SB (fst (new_operation (s_ntasks s) prio i m (s <| s_ntasks ::= S |> <| s_tasks ::= fun l => l ++ [(s_ntasks s, x)] |>))).
Proof.
  intros s x prio i m [HS HB]. unfold new_operation. cbn [fst]. split; [eapply St_frame; [| | |exact HS]; reflexivity|eapply BQ_frame; [| |exact HB]; reflexivity].
Qed.

Lemma SB_ct_learner : forall t r b x p k s,
  aget Nat.eqb (s_ntasks s) (s_tasks s) = None -> aget Nat.eqb (s_nops s) (s_ops s) = None -> (t < s_ntasks s)%nat ->
  NoDup (map p_key (s_pqs s)) -> In p (s_pqs s) -> p_key p = sk_pk k ->
  SB s -> SB (fst (ct_learner t r b x p k s)).
Proof.
  intros t r b x p k s Hft Hfo Ht Hnd Hp Hk H. unfold ct_learner.
  destruct (t_learner x) as [l|]; [|cbn [fst]; sb_go].
  destruct (resp_success r).
  - cbv zeta. set (s1 := upd_task t _ (emit _ s)). assert (H1 : SB s1) by (unfold s1; sb_go).
    destruct (l_succ l) as [[[[bidx bdur] btimeout] bl]|]; [|exact H1].
    destruct (Nat.eqb (p_maxbg p) 0); [cbn [fst]; sb_go|].
    set (bk := mkSK (sk_pk k) (nth bidx (p_scs p) 0%N)). set (bi := mkI bk [4294967295%N]).
    set (s2 := get_or_create_invocation bk [4294967295%N] s1). assert (H2 : SB s2) by (apply SB_get_or_create_invocation; exact H1).
    destruct (Nat.leb (p_maxbg p) (List.length (v_qops (get_inv s2 bi)))) eqn:El; [cbn [fst]; sb_go|]. apply Nat.leb_gt in El. cbv zeta.
    destruct (goc_frames bk [4294967295%N] s1) as [G1 [G2 _]]. destruct (get_or_create_invocation_tasks bk [4294967295%N] s1) as [_ [G3 G4]]. fold s2 in G1, G2, G3, G4.
    assert (Hft2 : aget Nat.eqb (s_ntasks s2) (s_tasks s2) = None).
    { rewrite G4, G1. unfold s1. cbn. rewrite (aget_aset_other Nat.eqb nat_eqb_eq); [exact Hft|]. lia. }
    assert (Hfo2 : aget Nat.eqb (s_nops s2) (s_ops s2) = None) by (rewrite G3, G2; unfold s1; rewrite upd_task_eq; cbn; exact Hfo).
    assert (Hpq2 : s_pqs s2 = s_pqs s).
    { unfold s2, get_or_create_invocation. apply (fold_left_pres (fun a => s_pqs a = s_pqs s)); [|unfold s1; rewrite upd_task_eq; reflexivity].
      intros a pp Ha. destruct (inv_exists a (mkI bk pp)); exact Ha. }
    pose proof (SB_new_task_op s2 (mkTask [] (t_instance x) (t_digest x) (Some true) btimeout (t_qts x) (t_suffix x) None 0 bdur (Some bl) None 0) (p_bgprio p) bi true H2) as H3.
    unfold new_operation in *. cbn [fst snd] in *.
    match goal with |- SB (schedule ?bt ?e) => set (s3 := e) in * end.
    assert (Et3 : t_ops (get_task s3 (s_ntasks s2)) = [(bi, s_nops s2)]).
    { unfold s3. rewrite get_task_upd_task, Nat.eqb_refl. cbn [t_ops set]. rewrite (get_task_frame (s2 <| s_ntasks ::= S |> <| s_tasks ::= fun l0 => l0 ++ [(s_ntasks s2, mkTask [] (t_instance x) (t_digest x) (Some true) btimeout (t_qts x) (t_suffix x) None 0 bdur (Some bl) None 0)] |>)) by reflexivity.
      rewrite get_task_newtask, Hft2, Nat.eqb_refl. reflexivity. }
    assert (Eo3 : o_inv (get_op s3 (s_nops s2)) = bi).
    { set (sN := s2 <| s_ntasks ::= S |> <| s_tasks ::= fun l0 => l0 ++ [(s_ntasks s2, mkTask [] (t_instance x) (t_digest x) (Some true) btimeout (t_qts x) (t_suffix x) None 0 bdur (Some bl) None 0)] |>).
      unfold s3. rewrite (get_op_frame (sN <| s_nops ::= S |> <| s_ops ::= fun l0 => l0 ++ [(s_nops sN, mkOper (s_ntasks s2) (p_bgprio p) bi 0 true None)] |>)) by reflexivity.
      change (s_nops s2) with (s_nops sN) at 1. rewrite get_op_newop. change (s_ops sN) with (s_ops s2). change (s_nops sN) with (s_nops s2). rewrite Hfo2, Nat.eqb_refl. reflexivity. }
    assert (Ebk : bi = mkI (mkSK (p_key p) (nth bidx (p_scs p) 0%N)) bgp) by (unfold bi, bk; rewrite Hk; reflexivity).
    apply (SB_schedule_bg (s_ntasks s2) s3 p (nth bidx (p_scs p) 0%N) (s_nops s2)); [| | | | |exact H3].
    + change (s_pqs s3) with (s_pqs s2). rewrite Hpq2. exact Hnd.
    + change (s_pqs s3) with (s_pqs s2). rewrite Hpq2. exact Hp.
    + rewrite Et3, Ebk. reflexivity.
    + rewrite Eo3. exact Ebk.
    + unfold bgl. change (get_inv s3 (mkI (mkSK (p_key p) (nth bidx (p_scs p) 0%N)) bgp)) with (get_inv s2 (mkI (mkSK (p_key p) (nth bidx (p_scs p) 0%N)) bgp)). rewrite <- Ebk. exact El.
  - destruct b; cbv zeta; [destruct (l_fail l) as [[[d tm] nl]|]|]; cbn [fst]; sb_go.
Qed.

(* after the retargeting loop every listed operation sits in an invocation with one of the old paths (or is not registered) *)
Lemma retarget_untouched : forall lk (l : list (iref * nat)) s o, ~ In o (map snd l) -> get_op (retarget_fold lk l s) o = get_op s o.
Proof.
  intros lk l. induction l as [|[i0 o0] l IH]; intros s o Hn; cbn [retarget_fold fold_left]; [reflexivity|].
  fold (retarget_fold lk l (upd_op o0 (fun y => y <| o_inv := mkI lk (i_path i0) |>) s)).
  rewrite IH by (intro Hin; apply Hn; right; exact Hin). rewrite get_op_upd_op.
  destruct (Nat.eqb o o0 && op_alive s o0) eqn:E; [|reflexivity]. apply andb_true_iff in E. destruct E as [E _]. apply Nat.eqb_eq in E. subst.
  exfalso. apply Hn. left. reflexivity.
Qed.

Lemma retarget_path : forall lk (l : list (iref * nat)) s o, In o (map snd l) ->
  (exists i, In (i, o) l /\ o_inv (get_op (retarget_fold lk l s) o) = mkI lk (i_path i)) \/
  (op_alive s o = false /\ get_op (retarget_fold lk l s) o = get_op s o).
Proof.
  intros lk l. induction l as [|[i0 o0] l IH]; intros s o Hin; [destruct Hin|]. cbn [retarget_fold fold_left].
  fold (retarget_fold lk l (upd_op o0 (fun y => y <| o_inv := mkI lk (i_path i0) |>) s)).
  set (s1 := upd_op o0 (fun y => y <| o_inv := mkI lk (i_path i0) |>) s).
  destruct (in_dec Nat.eq_dec o (map snd l)) as [Hl|Hl].
  - destruct (IH s1 o Hl) as [[i [Hi Ei]]|[Hd Eg]].
    + left. exists i. split; [right; exact Hi|exact Ei].
    + unfold s1 in Hd. rewrite op_alive_upd_op in Hd. right. split; [exact Hd|]. rewrite Eg. unfold s1. rewrite get_op_upd_op.
      destruct (Nat.eqb o o0 && op_alive s o0) eqn:E; [|reflexivity]. apply andb_true_iff in E. destruct E as [E1 E2]. apply Nat.eqb_eq in E1. subst. congruence.
  - cbn in Hin. destruct Hin as [E|Hin]; [|contradiction]. subst o0. rewrite (retarget_untouched lk l s1 o Hl). unfold s1. rewrite get_op_upd_op, Nat.eqb_refl.
    destruct (op_alive s o) eqn:Ea; cbn [andb]; [left; exists i0; split; [left; reflexivity|reflexivity]|right; auto].
Qed.

Lemma dead_op_path : forall s o, op_alive s o = false -> i_path (o_inv (get_op s o)) <> bgp.
Proof. intros s o H. unfold op_alive, get_op in *. destruct (aget Nat.eqb o (s_ops s)); [discriminate|]. cbn. discriminate. Qed.

Lemma retarget_tasks : forall lk (l : list (iref * nat)) s, s_tasks (retarget_fold lk l s) = s_tasks s.
Proof.
  intros lk l. induction l as [|[i o] l IH]; intro a; cbn [retarget_fold fold_left]; [reflexivity|].
  fold (retarget_fold lk l (upd_op o (fun y => y <| o_inv := mkI lk (i_path i) |>) a)). rewrite IH. rewrite upd_op_eq. reflexivity.
Qed.

Lemma SB_retarget_fold : forall lk l s, SB s -> SB (retarget_fold lk l s).
Proof.
  intros lk l. induction l as [|[i o] l IH]; intros s H; cbn [retarget_fold fold_left]; [exact H|].
  fold (retarget_fold lk l (upd_op o (fun y => y <| o_inv := mkI lk (i_path i) |>) s)). apply IH. sb_go.
Qed.

Lemma SB_ct_tail : forall t r x p k s retry,
  (retry <> None -> ~ has_bg (t_ops (get_task s t))) -> SB s -> SB (ct_tail t r x p k s retry).
Proof.
  intros t r x p k s retry Hre H. unfold ct_tail. destruct retry as [[d tm]|]; [|sb_go]. specialize (Hre ltac:(discriminate)). cbv zeta.
  set (lk := mkSK (sk_pk k) (largest_sc p)). set (old := t_ops (get_task s t)) in *.
  destruct (goc_fold_frames lk old s) as [G1 [G2 _]]. set (s6 := fold_left _ old s) in *.
  assert (H6 : SB s6).
  { unfold s6. apply fold_left_pres; [|exact H]. intros a [i o] Ha. apply SB_get_or_create_invocation. exact Ha. }
  set (s7 := upd_task t _ s6). assert (H7 : SB s7) by (unfold s7; sb_go).
  assert (Et7 : t_ops (get_task s7 t) = map (fun '(i, o) => (mkI lk (i_path i), o)) old) by (unfold s7; rewrite get_task_upd_task, Nat.eqb_refl; reflexivity).
  fold (retarget_fold lk old s7). pose proof (SB_retarget_fold lk old s7 H7) as H8.
  pose proof (retarget_tasks lk old s7) as Et8.
  set (s8 := retarget_fold lk old s7) in *.
  assert (Hops : forall o, In o (task_opids s8 t) -> i_path (o_inv (get_op s8 o)) <> bgp).
  { intros o Ho. unfold task_opids in Ho. rewrite (get_task_frame _ _ _ Et8), Et7, map_map in Ho.
    assert (Ho' : In o (map snd old)) by (rewrite (map_ext _ snd) in Ho; [exact Ho|intros [i0 o0]; reflexivity]).
    destruct (retarget_path lk old s7 o Ho') as [[i [Hi Ei]]|[Hd Eg]].
    - fold s8 in Ei. rewrite Ei. cbn. intro E. apply Hre. exists i, o. auto.
    - fold s8 in Eg. rewrite Eg. apply dead_op_path. exact Hd. }
  clearbody s8. unfold report_non_final_stage_change.
  pose proof (SB_schedule_other t s8 Hops H8) as H9. set (s9 := schedule t s8) in *. clearbody s9. sb_go.
Qed.

Lemma SB_complete_task : forall t r b s,
  W s -> (t < s_ntasks s)%nat -> NoDup (map p_key (s_pqs s)) -> BT s -> SB s -> SB (complete_task t r b s).
Proof.
  intros t r b s HW Ht Hnd HBT H. rewrite complete_task_eq2. destruct (t_resp (get_task s t)); [exact H|]. cbv zeta.
  pose proof (SB_ct_prefix t b s H) as H4. destruct (ct_prefix_frames t b s) as [[K1 _] [_ Ep]].
  assert (HW4 : W (ct_prefix t b s)) by (apply (W_of_WL_step t s _ HW Ht); intro HWL; unfold ct_prefix; w_go2).
  assert (Hn4 : s_ntasks (ct_prefix t b s) = s_ntasks s).
  { assert (Hk : keeps_counts (s_ntasks s) (s_nops s) (ct_prefix t b s)); [|exact (proj1 Hk)].
    assert (H0 : keeps_counts (s_ntasks s) (s_nops s) s) by (split; reflexivity). unfold ct_prefix. fr_go (keeps_counts (s_ntasks s) (s_nops s)) t_counts. }
  set (s4 := ct_prefix t b s) in *. clearbody s4.
  destruct (get_pq s4 (sk_pk (task_scq s t))) as [p|] eqn:Epq; [|sb_go].
  destruct (get_pq_some_in _ _ _ Epq) as [Hp Hk].
  pose proof (SB_ct_learner t r b (get_task s t) p (task_scq s t) s4 (W_task_fresh _ HW4) (W_op_fresh _ HW4) ltac:(lia) ltac:(rewrite Ep; exact Hnd) Hp Hk H4) as H5.
  assert (Hl : snd (ct_learner t r b (get_task s t) p (task_scq s t) s4) <> None ->
               (exists l d tm nl, t_learner (get_task s t) = Some l /\ l_fail l = Some (d, tm, nl)) /\
               t_ops (get_task (fst (ct_learner t r b (get_task s t) p (task_scq s t) s4)) t) = t_ops (get_task s4 t)).
  { unfold ct_learner. destruct (t_learner (get_task s t)) as [l|]; [|cbn; congruence].
    destruct (resp_success r).
    - cbv zeta. destruct (l_succ l) as [[[[bidx bdur] btimeout] bl]|]; [|cbn; congruence].
      destruct (Nat.eqb (p_maxbg p) 0); [cbn; congruence|]. destruct (Nat.leb _ _); [cbn; congruence|]. cbv zeta.
      destruct (new_operation _ _ _ _ _). cbn. congruence.
    - destruct b; [|cbn; congruence]. cbv zeta. destruct (l_fail l) as [[[d tm] nl]|] eqn:Ef; [|cbn; congruence]. cbn [fst snd]. intros _.
      split; [exists l, d, tm, nl; auto|]. rewrite get_task_upd_task, Nat.eqb_refl. reflexivity. }
  destruct (ct_learner t r b (get_task s t) p (task_scq s t) s4) as [s5 retry]. cbn [fst snd] in *.
  apply SB_ct_tail; [|exact H5]. intros Hr Hb. destruct (Hl Hr) as [[l [d [tm [nl [El Ef]]]]] Eo].
  unfold TKeep in K1. rewrite Eo, K1 in Hb. destruct (HBT t) as [_ B]. specialize (B Hb). rewrite El in B. cbn in B. congruence.
Qed.

(* ---- the platform queue table changes ------------------------------------------------------------------------------------------------------------- *)
Lemma BQ_pqs_sub : forall s s', s_invs s' = s_invs s ->
  (forall p', In p' (s_pqs s') -> exists p, In p (s_pqs s) /\ p_key p = p_key p' /\ p_maxbg p = p_maxbg p') -> BQ s -> BQ s'.
Proof.
  unfold BQ, bgl. intros s s' E Hsub H p' sc Hp'. destruct (Hsub p' Hp') as [p [Hp [Ek Em]]]. rewrite (get_inv_frame _ _ _ E), <- Ek, <- Em. apply H. exact Hp.
Qed.

Lemma BQ_upd_pq : forall s k f, (forall p, p_key (f p) = p_key p /\ p_maxbg (f p) = p_maxbg p) -> BQ s -> BQ (upd_pq k f s).
Proof.
  intros s k f Hf H. apply (BQ_pqs_sub s); [reflexivity| |exact H]. intros p' Hp'. unfold upd_pq in Hp'. cbn in Hp'. apply in_map_iff in Hp'.
  destruct Hp' as [p [E Hp]]. exists p. split; [exact Hp|]. destruct (pkey_eqb (p_key p) k); subst p'; [destruct (Hf p); auto|auto].
Qed.

Lemma BQ_pqs_filter : forall s g, BQ s -> BQ (s <| s_pqs := filter g (s_pqs s) |>).
Proof.
  intros s g H. apply (BQ_pqs_sub s); [reflexivity| |exact H]. intros p' Hp'. cbn in Hp'. apply filter_In in Hp'. exists p'. tauto.
Qed.

(* a platform queue whose key is not in use yet: no invocation can name it *)
Lemma BQ_add_pq : forall s k l m b, St s -> MI s -> get_pq s k = None -> BQ s -> BQ (add_pq k l m b s).
Proof.
  intros s k l m b HS HM Hn H p sc Hp. unfold add_pq in Hp. cbn in Hp. apply in_app_or in Hp. unfold bgl.
  rewrite (get_inv_frame s) by reflexivity. destruct Hp as [Hp|[<-|[]]]; [apply H; exact Hp|]. cbn [p_key p_maxbg].
  assert (Hne : inv_exists s (mkI (mkSK k sc) bgp) = false).
  { destruct (inv_exists s (mkI (mkSK k sc) bgp)) eqn:E; [|reflexivity]. exfalso.
    apply inv_exists_in in E. apply HM in E. cbn in E. destruct HS as [_ [_ [_ [_ S5]]]]. destruct (S5 _ E) as [p [Hp [Hk _]]]. cbn in Hk.
    unfold get_pq in Hn. apply (find_none _ _ Hn) in Hp. rewrite (proj2 (pkey_eqb_eq _ _) Hk) in Hp. discriminate. }
  unfold inv_exists in Hne. unfold get_inv. destruct (aget iref_eqb (mkI (mkSK k sc) bgp) (s_invs s)); [discriminate|cbn; lia].
Qed.

Lemma BQ_delscq : forall s k, BQ s ->
  BQ (s <| s_scqs := adel skey_eqb k (s_scqs s) |> <| s_invs := filter (fun '(i, _) => negb (skey_eqb (i_sk i) k)) (s_invs s) |>).
Proof.
  intros s k H. apply (BQ_invs_le s); [reflexivity| |exact H]. intros j _. unfold get_inv. cbn.
  destruct (skey_eqb (i_sk j) k) eqn:E.
  - rewrite (aget_filter_drop iref_eqb iref_eqb_eq (fun i => negb (skey_eqb (i_sk i) k))); [cbn; lia|]. cbn. rewrite E. reflexivity.
  - rewrite (aget_filter_keep iref_eqb iref_eqb_eq (fun i => negb (skey_eqb (i_sk i) k))); [apply Nat.le_refl|]. cbn. rewrite E. reflexivity.
Qed.

(* ---- the clean-up queue ------------------------------------------------------------------------------------------------------------------------------ *)
Definition FBQ (s : state) : Prop := FI s /\ BT s /\ BQ s.

Lemma FI_SB : forall s, FI s -> BQ s -> SB s.
Proof. intros s H HB. split; [exact (SW_St _ (FI_SW _ H))|exact HB]. Qed.
Lemma FI_pqs_nodup : forall s, FI s -> NoDup (map p_key (s_pqs s)).
Proof. intros s H. exact (proj1 (FI_Sp _ H)). Qed.

Lemma FBQ_complete_task_nb : forall t r s, resp_success r = false -> (t < s_ntasks s)%nat -> FBQ s -> FBQ (complete_task t r false s).
Proof.
  intros t r s Hr Ht [HF [HT HB]]. split; [apply FI_complete_task_nb; assumption|]. split; [apply BT_complete_task; [exact (FI_W _ HF)|exact Ht|exact HT]|].
  exact (proj2 (SB_complete_task t r false s (FI_W _ HF) Ht (FI_pqs_nodup _ HF) HT (FI_SB _ HF HB))).
Qed.

Lemma FBQ_cancel_all_queued : forall i r s, resp_success r = false -> FBQ s -> FBQ (cancel_all_queued i r s).
Proof.
  intros i r s Hr H. rewrite cancel_all_queued_eq. apply cancel_go_closed; [|exact H].
  intros s1 d v o tl H1 Hin Hq. apply FBQ_complete_task_nb; [exact Hr| |exact H1]. exact (W_pick_qop _ _ _ _ _ (FI_W _ (proj1 H1)) Hin Hq).
Qed.

Lemma BQ_operation_remove : forall o s, op_alive s o = true -> FBQ s -> BQ (operation_remove o s).
Proof.
  intros o s Ha [HF [HT HB]]. pose proof (W_pick_op _ _ (FI_W _ HF) Ha) as Hlt. unfold operation_remove. cbv zeta.
  match goal with |- BQ (upd_task ?t _ (set s_ops _ ?e)) => assert (H1 : SB e) end.
  { destruct (Nat.eqb _ 1).
    - apply SB_complete_task; [exact (FI_W _ HF)|exact Hlt|exact (FI_pqs_nodup _ HF)|exact HT|exact (FI_SB _ HF HB)].
    - pose proof (FI_SB _ HF HB) as HSB. unfold task_stage. destruct (t_resp (get_task s (o_task (get_op s o)))); [destruct (t_worker (get_task s (o_task (get_op s o)))); exact HSB|].
      destruct (t_worker (get_task s (o_task (get_op s o)))) as [w|]; cbv iota; [apply SB_decrement_executing; exact HSB|].
      match goal with |- SB (fst (fold_left ?g ?l ?a)) => apply (fold_left_pres (fun acc => SB (fst acc)) g l) end; [|cbn [fst]; sb_go].
      intros [s1 go] j Hs1. cbn [fst] in *. destruct go; [apply SB_remove_if_empty; exact Hs1|exact Hs1]. }
  match goal with |- BQ (upd_task ?t _ (set s_ops _ ?e)) => set (s1 := e) in * end. clearbody s1. destruct H1 as [_ HB1]. t_BQ.
Qed.

Lemma FBQ_run_entry : forall e s, In e (cleanup_entries s) -> FBQ s -> FBQ (run_entry e s).
Proof.
  intros e s Hin [HF [HT HB]]. split; [apply FI_run_entry; assumption|].
  split; [exact (proj2 (WB_run_entry e s Hin (conj (FI_W _ HF) HT)))|].
  destruct e as [z ce]. unfold run_entry. cbn [fst snd]. destruct ce as [o|w|k].
  - apply BQ_operation_remove; [rewrite op_alive_upd_op; eapply cleanup_entry_op_alive; exact Hin|].
    split; [fi_prim HF|split; [bt_go0|t_BQ]].
  - unfold remove_stale_worker, mark_terminating. cbv zeta.
    set (s1 := upd_worker w (fun k => k <| k_term := true |>) (upd_worker w (fun k => k <| k_cleanup := None |>) s)).
    assert (H1 : FBQ s1).
    { unfold s1. split; [|split; [bt_go0|]].
      - assert (Ha : FI (upd_worker w (fun k => k <| k_cleanup := None |>) s)) by (fi_prim HF). fi_prim Ha.
      - assert (Ha : BQ (upd_worker w (fun k => k <| k_cleanup := None |>) s)) by t_BQ. t_BQ. }
    clearbody s1.
    set (s2 := match k_task (get_worker s1 w) with None => s1 | Some t => complete_task t (mkResp cUNAVAILABLE 0 0) false s1 end).
    assert (H2 : SB s2).
    { unfold s2. destruct H1 as [A [B C]]. destruct (k_task (get_worker s1 w)) as [t|] eqn:Ek; [|exact (FI_SB _ A C)].
      apply SB_complete_task; [exact (FI_W _ A)|exact (W_pick_worker _ _ _ (FI_W _ A) Ek)|exact (FI_pqs_nodup _ A)|exact B|exact (FI_SB _ A C)]. }
    clearbody s2. pose proof (SB_clear_last_invocation w s2 H2) as H3. set (s3 := clear_last_invocation w s2) in *. clearbody s3.
    destruct H3 as [_ HB3]. assert (H4 : BQ (upd_scq (w_sk w) (fun q => q <| q_workers ::= adel wref_eqb w |>) s3)) by t_BQ.
    set (s4 := upd_scq (w_sk w) _ s3) in *. clearbody s4. destruct (_ && _); [t_BQ|exact H4].
  - unfold scq_remove. cbv zeta. set (s0 := upd_scq k (fun q => q <| q_cleanup := None |>) s).
    assert (H0 : FBQ s0) by (unfold s0; split; [fi_prim HF|split; [bt_go0|t_BQ]]). clearbody s0.
    pose proof (FBQ_cancel_all_queued (mkI k []) (mkResp cUNAVAILABLE 0 0) s0 eq_refl H0) as [_ [_ H1]].
    set (s1 := cancel_all_queued _ _ s0) in *. clearbody s1.
    apply BQ_pqs_filter. apply BQ_upd_pq; [intro; split; reflexivity|]. apply BQ_delscq. exact H1.
Qed.

Lemma FBQ_enter : forall t s, FBQ s -> FBQ (enter t s).
Proof.
  intros t s H. unfold enter. destruct (s_now s <? t); [|exact H]. cbv zeta.
  apply cleanup_run_closed; [intros s1 w [A [B C]]; split; [fi_prim A|split; [bt_go0|t_BQ]] | intros; apply FBQ_run_entry; assumption | destruct H as [A [B C]]; split; [fi_prim A|split; [bt_go0|t_BQ]]].
Qed.

(* ---- Synchronize: the part after the size class queue was found or created -------------------------------------------------------------- *)
Definition sync_rest (c : nat) (a : sync_args) (s : state) : state :=
  let w := y_worker a in
  let k := w_sk w in
    let r2 : state + N :=
      if worker_exists s w then
        match k_cleanup (get_worker s w) with
        | None => inr cEXHAUSTED
        | Some _ => inl (upd_worker w (fun k => k <| k_cleanup := None |>) s)
        end
      else
        let nl := List.length (limits_of s k) in
        let s := upd_scq k (fun q => q <| q_workers ::= fun l => l ++ [(w, mkWorker None None false (Some []) false (repeat 0 nl))] |>) s in
        inl (upd_inv (mkI k []) (fun v => v <| v_idle ::= N.succ |>) s) in
    match r2 with
    | inr code => ret c code s
    | inl s =>
      match y_state a with
      | WNoState => sync_return_err c w cINVALID s
      | WIdle => get_current_or_next c w true (y_prefer_idle a) s
      | WExecuting d =>
        if running_correct s w d
        then finish_sync c w (emit (OSync c DNone (s_now s + cf_busy_sync (s_cfg s))) s)
        else get_current_or_next c w false (y_prefer_idle a) s
      | WCompleted d r =>
        if running_correct s w d
        then match k_task (get_worker s w) with
             | Some t => get_next_task c w true (y_prefer_idle a) (complete_task t r true s)
             | None => s
             end
        else get_current_or_next c w true (y_prefer_idle a) s
      end
    end.

Lemma sync_rest_closed (P : state -> Prop) c a :
  (forall s code, P s -> P (ret c code s)) ->
  (forall s w, P s -> P (upd_worker w (fun k => k <| k_cleanup := None |>) s)) ->
  (forall s k w n, P s -> P (upd_scq k (fun q => q <| q_workers ::= fun l => l ++ [(w, mkWorker None None false (Some []) false (repeat 0 n))] |>) s)) ->
  (forall s i, P s -> P (upd_inv i (fun v => v <| v_idle ::= N.succ |>) s)) ->
  (forall s w code, P s -> P (sync_return_err c w code s)) ->
  (forall s w b pr, P s -> P (get_current_or_next c w b pr s)) ->
  (forall s w b pr, P s -> P (get_next_task c w b pr s)) ->
  (forall s w d z, P s -> P (finish_sync c w (emit (OSync c d z) s))) ->
  (forall s w t r, P s -> k_task (get_worker s w) = Some t -> P (complete_task t r true s)) ->
  forall s, P s -> P (sync_rest c a s).
Proof.
  intros Hret Hkdis Hnw Hidle Herr Hcur Hnext Hnone Hcomp s H. unfold sync_rest. cbv zeta.
  match goal with |- P (match ?R with _ => _ end) => destruct R as [s2|code2] eqn:ER end; [|apply Hret; exact H].
  assert (H2 : P s2) by (sum_cases ER; injection ER as <-; auto).
  clear ER H. revert H2. generalize s2. clear s. intros s H.
  destruct (y_state a) as [|d|d r|]; auto.
  - destruct (running_correct s (y_worker a) d); auto.
  - destruct (running_correct s (y_worker a) d); auto.
    destruct (k_task (get_worker s (y_worker a))) as [t|] eqn:Ek; [|exact H]. apply Hnext. eapply Hcomp; eassumption.
Qed.

Lemma SB_get_next_task : forall c w b pr s, SB s -> SB (get_next_task c w b pr s).
Proof. intros. unfold get_next_task, sync_loop, assign_next_queued_task, assign_queued, assign_unqueued, report_non_final_stage_change, sync_return_exec, sync_return_idle, finish_sync. sb_go. Qed.

Lemma BQ_get_current_or_next : forall c w b pr s, FI s -> BT s -> BQ s -> BQ (get_current_or_next c w b pr s).
Proof.
  intros c w b pr s HF HT HB. unfold get_current_or_next.
  destruct (k_task (get_worker s w)) as [t|] eqn:Ek; [|exact (proj2 (SB_get_next_task c w b pr s (FI_SB _ HF HB)))].
  destruct (Nat.ltb _ _).
  { pose proof (FI_SB _ HF HB) as HSB. match goal with |- BQ ?e => assert (Hx : SB e) by (unfold sync_return_exec, finish_sync; sb_go); exact (proj2 Hx) end. }
  apply (fun H => proj2 (SB_get_next_task c w b pr _ H)).
  apply SB_complete_task; [exact (FI_W _ HF)|exact (W_pick_worker _ _ _ (FI_W _ HF) Ek)|exact (FI_pqs_nodup _ HF)|exact HT|exact (FI_SB _ HF HB)].
Qed.

Lemma BQ_add_scq : forall k b s, BQ s -> BQ (add_scq k b s).
Proof.
  intros k b s H. unfold add_scq. cbv zeta. apply BQ_invs_new.
  apply (BQ_frame (upd_pq (sk_pk k) (fun p => p <| p_scs ::= insert_sorted (sk_sc k) |>) s)); [reflexivity|reflexivity|].
  apply BQ_upd_pq; [intro; split; reflexivity|exact H].
Qed.

(* ---- Synchronize -------------------------------------------------------------------------------------------------------------------------------------------- *)
Definition BQP (s : state) : Prop := Pan s \/ BQ s.

Lemma Pan_sync_start : forall c a s, Pan s -> Pan (sync_start c a s).
Proof.
  intros c a s H. apply (sync_start_closed Pan); try exact H; intros;
    unfold ret, add_scq, add_pq, sync_return_err, finish_sync, get_current_or_next, get_next_task, sync_loop, assign_next_queued_task, sync_return_exec, sync_return_idle, finish_sync;
    inv_go fail t_pan.
Qed.

Lemma BQP_sync_start : forall c a s,
  is_phantom (y_worker a) = false ->
  (forall d r, y_state a = WCompleted d r -> BG (y_worker a) r s) ->
  FI s -> BT s -> BQ s -> BQP (sync_start c a s).
Proof.
  intros c a s Hph Hbg H HT HB.
  destruct (NX_CM _ _ (FI_NX _ H)) as [Hp|[_ HM]]; [left; apply Pan_sync_start; exact Hp|right].
  (* the structure invariants of the intermediate states come from the C01 layer: follow its proof *)
  unfold sync_start. cbv zeta. set (w := y_worker a) in *. set (k := w_sk w).
  match goal with |- BQ (match ?R with _ => _ end) => destruct R as [s1|code1] eqn:ER end; [|unfold ret; t_BQ].
  assert (H1 : FI s1 /\ scq_exists s1 k = true /\ q_cleanup (get_scq s1 k) = None /\ (forall d r, y_state a = WCompleted d r -> BG w r s1) /\ BT s1 /\ BQ s1).
  { destruct (scq_exists s k) eqn:Ee.
    - injection ER as <-. split; [fi_prim H|]. split; [rewrite scq_exists_upd_scq; exact Ee|]. split; [rewrite get_scq_upd_scq, skey_eqb_refl, Ee; reflexivity|]. split; [|split; [bt_go0|t_BQ]].
      intros d r E. eapply BG_frame; [ | | |exact (Hbg d r E)]; [rewrite get_worker_upd_scq_keep by reflexivity; reflexivity|rewrite upd_scq_eq; reflexivity|rewrite upd_scq_eq; reflexivity].
    - assert (Hwn : forall b s0, scq_exists s0 k = false -> k_task (get_worker (add_scq k b s0) w) = None).
      { intros b s0 He0. unfold get_worker. fold k. rewrite get_scq_add_scq_new by exact He0. reflexivity. }
      pose proof H as [HSW [HW [HSp HNX]]]. destruct (get_pq s (sk_pk k)) as [p|] eqn:Ep.
      + sum_cases ER. injection ER as <-. apply get_pq_some_in in Ep. destruct Ep as [Ep1 Ep2].
        split; [|split; [rewrite scq_exists_add_scq, skey_eqb_refl; apply orb_true_r|split; [rewrite get_scq_add_scq_new by exact Ee; reflexivity|split; [intros d r _; apply BG_none; apply Hwn; exact Ee|split; [unfold add_scq; bt_go0|]]]]].
        * split; [apply SW_add_scq; [exact Ee|exists p; auto|exact HSW]|]. split; [w_of_wl HW; unfold add_scq; w_go2|]. split; [apply Sp_add_scq; assumption|apply NX_add_scq; [exact Ee|exists p; auto|exact HNX]].
        * apply BQ_add_scq. exact HB.
      + injection ER as <-.
        assert (Hp : SW (add_pq (sk_pk k) [] 0 0 s)) by (unfold add_pq; destruct HSW as [HS HWP]; split; [t_St|eapply WP_frame; [ | | |exact HWP]; reflexivity]).
        assert (Hpq : exists p, In p (s_pqs (add_pq (sk_pk k) [] 0 0 s)) /\ p_key p = sk_pk k).
        { unfold add_pq. cbn. eexists. split; [apply in_or_app; right; left; reflexivity|reflexivity]. }
        split; [|split; [rewrite scq_exists_add_scq, skey_eqb_refl; apply orb_true_r|split; [rewrite get_scq_add_scq_new by exact Ee; reflexivity|split; [intros d r _; apply BG_none; apply Hwn; exact Ee|split; [unfold add_scq, add_pq; bt_go0|]]]]].
        * split; [apply SW_add_scq; [exact Ee|exact Hpq|exact Hp]|]. split; [w_of_wl HW; unfold add_scq, add_pq; w_go2|].
          split; [apply Sp_add_scq; [exact Ee|apply Sp_add_pq; assumption]|apply NX_add_scq; [exact Ee|exact Hpq|apply NX_add_pq; exact HNX]].
        * pose proof (BQ_add_pq s (sk_pk k) [] 0%nat 0 (SW_St _ HSW) HM Ep HB) as HB1. set (s0 := add_pq (sk_pk k) [] 0 0 s) in *. clearbody s0.
          apply BQ_add_scq. exact HB1. }
  clear ER H Hbg HT HB HM. destruct H1 as [H [Hse [Hqc [Hbg [HT HB]]]]]. revert H Hse Hqc Hbg HT HB. generalize s1. clear s. intros s H Hse Hqc Hbg HT HB.
  match goal with |- BQ (match ?R with _ => _ end) => destruct R as [s2|code2] eqn:ER end; [|unfold ret; t_BQ].
  assert (H2 : FI s2 /\ (forall d r, y_state a = WCompleted d r -> BG w r s2) /\ BT s2 /\ BQ s2).
  { pose proof H as [HSW [HW [HSp HNX]]]. destruct (worker_exists s w) eqn:Ee.
    - destruct (k_cleanup (get_worker s w)) eqn:Ec; [|discriminate]. injection ER as <-.
      split; [fi_prim H|]. split; [|split; [bt_go0|t_BQ]].
      intros d r E. eapply BG_frame; [ | | |exact (Hbg d r E)]; [rewrite get_worker_upd_worker, wref_eqb_refl, Ee; reflexivity|rewrite upd_worker_eq; reflexivity|rewrite upd_worker_eq; reflexivity].
    - injection ER as <-. set (s2 := upd_scq k _ s).
      assert (Hs2 : SW s2) by (destruct HSW as [HS HWP]; split; [apply St_newworker; assumption|apply WP_newworker; assumption]).
      assert (HX2 : XS [] s2) by (apply XS_newworker; [exact Ee|exact Hph|exact (NX_XS _ _ HNX)]).
      assert (HN2 : NX [] s2) by (split; [exact HX2|]; destruct HNX as [_ [B C]]; unfold s2; split; [t_TK|t_CM]).
      assert (HW2 : W s2) by (w_of_wl HW; unfold s2; w_go2).
      assert (HSp2 : Sp s2) by (unfold s2; sp_go).
      assert (Hg2 : get_worker s2 w = mkWorker None None false (Some []) false (repeat 0 (List.length (limits_of s k)))) by (apply get_worker_newworker_aux; assumption).
      assert (HF2 : FI s2) by (split; [exact Hs2|split; [exact HW2|split; [exact HSp2|exact HN2]]]).
      split; [fi_prim HF2|]. split; [intros d r _; apply BG_none; rewrite (get_worker_frame' s2) by apply scqs_upd_inv; rewrite Hg2; reflexivity|].
      assert (HT2 : BT s2) by (unfold s2; bt_go0). assert (HB2 : BQ s2) by (unfold s2; t_BQ). clearbody s2. split; [bt_go0|t_BQ]. }
  clear ER H Hse Hqc Hbg HT HB. destruct H2 as [H [Hbg [HT HB]]]. revert H Hbg HT HB. generalize s2. clear s. intros s H Hbg HT HB. unfold k in *. clear k.
  assert (HSB : SB s) by exact (FI_SB _ H HB).
  destruct (y_state a) as [|d|d r|] eqn:Ey.
  - apply BQ_get_current_or_next; assumption.
  - destruct (running_correct s w d); [|apply BQ_get_current_or_next; assumption]. unfold finish_sync. match goal with |- BQ ?e => assert (Hx : SB e) by sb_go; exact (proj2 Hx) end.
  - destruct (running_correct s w d); [|apply BQ_get_current_or_next; assumption].
    destruct (k_task (get_worker s w)) as [t|] eqn:Ek; [|exact HB].
    apply (fun Hx => proj2 (SB_get_next_task c w true (y_prefer_idle a) _ Hx)).
    apply SB_complete_task; [exact (FI_W _ H)|exact (W_pick_worker _ _ _ (FI_W _ H) Ek)|exact (FI_pqs_nodup _ H)|exact HT|exact HSB].
  - unfold sync_return_err, finish_sync. match goal with |- BQ ?e => assert (Hx : SB e) by sb_go; exact (proj2 Hx) end.
Qed.

(* ---- Execute ------------------------------------------------------------------------------------------------------------------------------------------------ *)
Lemma SB_wait_execution_begin : forall c o s, SB s -> SB (wait_execution_begin c o s).
Proof. intros. unfold wait_execution_begin, stream_iter. sb_go. Qed.

Lemma SB_exec_start : forall c a s, exec_bg_ok a -> W s -> SB s -> SB (exec_start c a s).
Proof.
  intros c a s [Hk _] HW H. unfold exec_start. pose proof (W_op_fresh s HW) as Hfo. pose proof (W_task_fresh s HW) as Hft.
  destruct (aget dkey_eqb _ _) as [t0|].
  - cbv zeta. set (k := task_scq (emit (OGhost GSelAbandoned) s) t0).
    set (s2 := get_or_create_invocation k (x_keys a) (emit (OGhost GSelAbandoned) s)).
    assert (H2 : SB s2) by (unfold s2; sb_go).
    destruct (goc_frames k (x_keys a) (emit (OGhost GSelAbandoned) s)) as [_ [G2 _]]. destruct (get_or_create_invocation_tasks k (x_keys a) (emit (OGhost GSelAbandoned) s)) as [_ [G3 _]]. fold s2 in G2, G3.
    destruct (aget iref_eqb _ _); [apply SB_wait_execution_begin; exact H2|].
    unfold new_operation. cbv iota beta. apply SB_wait_execution_begin.
    match goal with |- SB (match task_stage (get_task ?e t0) with _ => _ end) => set (s3 := e) end.
    assert (H3 : SB s3) by (unfold s3; destruct H2 as [A B]; split; [eapply St_frame; [| | |exact A]; reflexivity|eapply BQ_frame; [| |exact B]; reflexivity]).
    assert (Eo3 : o_inv (get_op s3 (s_nops s2)) = mkI k (x_keys a)).
    { unfold s3. rewrite (get_op_frame (s2 <| s_nops ::= S |> <| s_ops ::= fun l0 => l0 ++ [(s_nops s2, mkOper t0 (x_prio a) (mkI k (x_keys a)) 0 false None)] |>)) by reflexivity.
      rewrite get_op_newop. rewrite G2, G3. change (s_ops (emit (OGhost GSelAbandoned) s)) with (s_ops s). change (s_nops (emit (OGhost GSelAbandoned) s)) with (s_nops s). rewrite Hfo, Nat.eqb_refl. reflexivity. }
    clearbody s3. destruct (task_stage (get_task s3 t0)) as [|[ | |]]; try (sb_go; fail).
    all: try (destruct p; try (sb_go; fail)).
    all: try (apply SB_enqueue_other; [rewrite Eo3; exact Hk|exact H3]).
    all: try (destruct (t_worker (get_task s3 t0)); sb_go).
  - destruct (longest_prefix_pq s _ _) as [p|]; [|unfold ret; sb_go].
    destruct (x_sel a) as [[[idx dur] timeout] l]. cbv zeta.
    set (s1 := emit (OGhost GSelect) s). set (k := mkSK (p_key p) (nth idx (p_scs p) 0%N)).
    set (x := mkTask [] (x_instance a) (x_digest a) (Some (x_dnc a)) timeout (s_now s1) (drop_prefix (pk_prefix (p_key p)) (x_instance a)) None 0 dur (Some l) None 0).
    set (t := s_ntasks s1).
    set (sN := s1 <| s_ntasks ::= S |> <| s_tasks ::= fun ts => ts ++ [(t, x)] |>).
    set (s3 := if x_dnc a then sN else sN <| s_inflight ::= aset dkey_eqb (x_instance a, x_digest a) t |>).
    assert (H3 : SB s3 /\ get_task s3 t = x /\ s_ops s3 = s_ops s /\ s_nops s3 = s_nops s).
    { assert (HN : SB sN) by (unfold sN, s1; destruct H as [A B]; split; [eapply St_frame; [| | |exact A]; reflexivity|eapply BQ_frame; [| |exact B]; reflexivity]).
      assert (Eg : get_task sN t = x) by (unfold sN, t; rewrite get_task_newtask; change (s_tasks s1) with (s_tasks s); change (s_ntasks s1) with (s_ntasks s); rewrite Hft, Nat.eqb_refl; reflexivity).
      unfold s3. destruct (x_dnc a); [split; [exact HN|split; [exact Eg|split; reflexivity]]|].
      split; [destruct HN as [A B]; split; [eapply St_frame; [| | |exact A]; reflexivity|eapply BQ_frame; [| |exact B]; reflexivity]|split; [exact Eg|split; reflexivity]]. }
    destruct H3 as [H3 [Eg3 [Eo3 En3]]]. clearbody s3.
    set (s4 := get_or_create_invocation k (x_keys a) s3). assert (H4 : SB s4) by (apply SB_get_or_create_invocation; exact H3).
    destruct (goc_frames k (x_keys a) s3) as [G1 [G2 _]]. destruct (get_or_create_invocation_tasks k (x_keys a) s3) as [_ [G3 _]]. fold s4 in G1, G2, G3.
    unfold new_operation. cbv iota beta. apply SB_wait_execution_begin.
    match goal with |- SB (schedule t ?e) => set (s5 := e) end.
    assert (H5 : SB s5) by (unfold s5; destruct H4 as [A B]; split; [eapply St_frame; [| | |exact A]; reflexivity|eapply BQ_frame; [| |exact B]; reflexivity]).
    apply SB_schedule_other; [|exact H5]. intros o Ho. unfold task_opids, s5 in Ho. rewrite get_task_upd_task, Nat.eqb_refl in Ho. cbn [t_ops set] in Ho.
    rewrite (get_task_frame s4) in Ho by reflexivity. rewrite (get_task_frame _ _ _ G1), Eg3 in Ho. cbn in Ho. destruct Ho as [<-|[]].
    unfold s5. rewrite (get_op_frame (s4 <| s_nops ::= S |> <| s_ops ::= fun l0 => l0 ++ [(s_nops s4, mkOper t (x_prio a) (mkI k (x_keys a)) 0 false None)] |>)) by reflexivity.
    rewrite get_op_newop. rewrite G2, Eo3, G3, En3, Hfo, Nat.eqb_refl. cbn. exact Hk.
Qed.

(* ---- events --------------------------------------------------------------------------------------------------------------------------------------------------- *)
Lemma SB_wake_fold : forall p (l : list (wref * worker)) s,
  SB s -> SB (fold_left (fun s '(w, _) => if k_wait (get_worker s w) && matches w p then wake_up w s else s) l s).
Proof.
  intros p l s H. apply fold_left_pres; [|exact H]. intros a [w kw] Ha. destruct (_ && _); [unfold wake_up; apply SB_dequeue_worker; exact Ha|exact Ha].
Qed.

Lemma BQ_register_fold : forall k scs s, BQ s -> BQ (fold_left (fun s sc => add_scq (mkSK k sc) false s) scs s).
Proof. intros k scs. induction scs as [|sc scs IH]; intros s H; cbn [fold_left]; [exact H|]. apply IH. apply BQ_add_scq. exact H. Qed.

Lemma BQP_step_core : forall e s, ev_sel_ok s e -> ev_bg_ok e -> TOP s -> BT s -> BQ s -> BQP (step_core e s).
Proof.
  intros e s Hev Hbg HTOP HT HB. pose proof HTOP as [H [HTN HI]].
  assert (HFe : forall t, FBQ (enter t s)) by (intro t; apply FBQ_enter; split; [exact H|split; assumption]).
  assert (Hsb : forall t, SB (enter t s)) by (intro t; destruct (HFe t) as [A [_ C]]; exact (FI_SB _ A C)).
  assert (Hfin : forall s', SB s' -> BQP s') by (intros s' Hs; right; exact (proj2 Hs)).
  destruct e; cbn [ev_sel_ok ev_bg_ok] in Hev, Hbg; unfold step_core.
  - (* Execute *) apply Hfin. destruct (HFe t) as [A _]. apply SB_exec_start; [exact Hbg|exact (FI_W _ A)|exact (Hsb t)].
  - apply Hfin. pose proof (Hsb t) as He. set (s1 := enter t s) in *. clearbody s1. cbv zeta. unfold ret. sb_go.
  - (* Synchronize *) destruct Hev as [Hph Hb]. destruct (HFe t) as [A [B C]]. apply BQP_sync_start; assumption.
  - apply Hfin. pose proof (Hsb t) as He. set (s1 := enter t s) in *. clearbody s1. unfold kill_lookup, ret. sb_go.
  - (* kill a queue *)
    apply Hfin. pose proof (HFe t) as HF1. pose proof (Hsb t) as He. set (s1 := enter t s) in *. clearbody s1. cbv zeta.
    destruct (negb (scq_exists s1 k)); [unfold ret; sb_go|]. destruct (negb _); [unfold ret; sb_go|].
    pose proof (FBQ_cancel_all_queued (mkI k []) (mkResp code 0 0) s1 (kill_not_success _ Hev) HF1) as [A [_ C]].
    pose proof (FI_SB _ A C) as Hc. set (s2 := cancel_all_queued _ _ s1) in *. clearbody s2. unfold ret. sb_go.
  - (* add a drain *)
    apply Hfin. pose proof (Hsb t) as He. set (s1 := enter t s) in *. clearbody s1. cbv zeta.
    destruct (negb (scq_exists s1 k)); [unfold ret; sb_go|].
    set (s2 := upd_scq k _ s1). assert (H2 : SB s2) by (unfold s2; sb_go). clearbody s2.
    pose proof (SB_wake_fold p (q_workers (get_scq s2 k)) s2 H2) as H3. set (s3 := fold_left _ _ s2) in *. clearbody s3. unfold ret. sb_go.
  - apply Hfin. pose proof (Hsb t) as He. set (s1 := enter t s) in *. clearbody s1. cbv zeta. unfold ret. sb_go.
  - (* terminate *)
    apply Hfin. cbv zeta. pose proof (Hsb t) as He. set (s1 := enter t s) in *. clearbody s1.
    match goal with |- SB (match ?x with _ => _ end) => rewrite (surjective_pairing x) end. cbv beta iota.
    match goal with |- SB (set_call _ _ (fst (fold_left ?g ?l ?a))) => assert (H2 : SB (fst (fold_left g l a))) end.
    { match goal with |- SB (fst (fold_left ?g ?l ?a)) => apply (fold_left_pres (fun acc => SB (fst acc)) g l) end; [|exact He].
      intros [s2 w2] w H2. cbn [fst] in *. unfold mark_terminating, wake_up. sb_go. }
    set (s2 := fst _) in *. clearbody s2. sb_go.
  - (* register *)
    destruct (_ || _) eqn:Ev; [apply Hfin; pose proof (FI_SB _ H HB) as H0; unfold ret; sb_go|]. cbv zeta.
    destruct (HFe t) as [A [B C]]. set (s1 := enter t s) in *. clearbody s1.
    destruct (get_pq s1 k) as [p|] eqn:Ep; [apply Hfin; pose proof (FI_SB _ A C) as H0; unfold ret; sb_go|].
    destruct (NX_CM _ _ (FI_NX _ A)) as [Hp|[_ HM]]; [left; unfold ret, add_pq; match goal with |- Pan (set_call _ _ (emit _ (fold_left ?g ?l ?a))) => assert (Hx : Pan (fold_left g l a)) by (apply fold_left_pres; [intros; unfold add_scq; inv_go fail t_pan|inv_go fail t_pan]) end; inv_go fail t_pan|right].
    pose proof (BQ_add_pq s1 k limits maxbg bgprio (SW_St _ (FI_SW _ A)) HM Ep C) as H1.
    pose proof (BQ_register_fold k scs _ H1) as H2. set (s2 := fold_left _ scs _) in *. clearbody s2. unfold ret. t_BQ.
  - apply Hfin. pose proof (Hsb t) as He. unfold ret. sb_go.
  - (* EEnter *)
    cbv zeta. destruct (negb (at_gate s (get_call s c))); [right; exact HB|]. destruct (HFe t) as [A [B C]]. pose proof (Hsb t) as He. set (s1 := enter t s) in *. clearbody s1.
    destruct (get_call s c); try (right; exact C);
      try (apply Hfin; unfold stream_iter, stream_return, kill_lookup, wait_execution_begin, stream_iter, ret, sync_loop, assign_next_queued_task, assign_queued, assign_unqueued, report_non_final_stage_change, sync_return_exec, sync_return_err, sync_return_idle, finish_sync, maybe_dequeue; sb_go; fail).
    apply Hfin. destruct (op_alive s1 name) eqn:Ea; [|sb_go].
    pose proof (SB_complete_task (o_task (get_op s1 name)) (mkResp code 0 0) false s1 (FI_W _ A) (W_pick_op _ _ (FI_W _ A) Ea) (FI_pqs_nodup _ A) B He) as Hc.
    set (s2 := complete_task _ _ false s1) in *. clearbody s2. unfold ret. sb_go.
  - (* ETimer *)
    cbv zeta. destruct (at_gate s (get_call s c)); [right; exact HB|]. apply Hfin. pose proof (Hsb t) as He. pose proof (FI_SB _ H HB) as H0. set (s1 := enter t s) in *. clearbody s1.
    destruct (get_call s c); unfold stream_iter, sync_return_exec, sync_return_idle, finish_sync, maybe_dequeue; sb_go.
  - (* ECancel *)
    cbv zeta. destruct (at_gate s (get_call s c)); [right; exact HB|]. apply Hfin. pose proof (FI_SB _ H HB) as H0. destruct (get_call s c); unfold ret; sb_go.
Qed.
