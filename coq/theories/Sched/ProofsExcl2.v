(* C01, exclusivity layer: closure under the internal functions. *)
From Coq Require Import Lia.
From VF Require Export Sched.ProofsExcl.
Open Scope Z_scope.

Definition Qx (ext : list nat) (s : state) : Prop := SW s /\ ON s /\ NPh s /\ X ext s.

Lemma Qx_parts : forall ext s, Qx ext s -> SW s /\ ON s /\ NPh s /\ X ext s. Proof. auto. Qed.
Lemma Qx_X : forall ext s, Qx ext s -> X ext s. Proof. unfold Qx. tauto. Qed.
Lemma Qx_SW : forall ext s, Qx ext s -> SW s. Proof. unfold Qx. tauto. Qed.
Lemma Qx_weaken : forall ext t s, Qx ext s -> Qx (t :: ext) s.
Proof. unfold Qx. intros ext t s [A [B [C D]]]. auto using X_weaken. Qed.

Lemma NPh_frame : forall s s', s_scqs s' = s_scqs s -> NPh s -> NPh s'.
Proof. intros s s' E. apply NPh_mono. intros w. rewrite (worker_exists_frame _ _ _ E). auto. Qed.
Lemma NPh_upd_worker : forall s w f, NPh s -> NPh (upd_worker w f s).
Proof. intros s w f. apply NPh_mono. intros w'. rewrite worker_exists_upd_worker. auto. Qed.
Lemma NPh_upd_scq_keep : forall s k f, (forall q, q_workers (f q) = q_workers q) -> NPh s -> NPh (upd_scq k f s).
Proof. intros s k f Hf. apply NPh_mono. intros w'. rewrite worker_exists_upd_scq_keep by exact Hf. auto. Qed.
Lemma NPh_newscq : forall s k b, NPh s ->
  NPh (s <| s_scqs ::= fun l => l ++ [(k, mkScq b None [] 0 [])] |> <| s_invs ::= fun l => l ++ [(mkI k [], new_inv 0)] |>).
Proof.
  intros s k b. apply NPh_mono. intros w. unfold worker_exists. rewrite get_scq_app. unfold scq_exists, get_scq.
  destruct (aget skey_eqb (w_sk w) (s_scqs s)); [auto|]. destruct (skey_eqb (w_sk w) k); cbn; auto.
Qed.

Ltac t_ON :=
  lazymatch goal with
  | |- ON (upd_op _ _ _) => apply ON_upd_op; assumption
  | |- ON (set s_ops _ (set s_nops S _)) => apply ON_newop; assumption
  | |- ON (set s_ops (fun _ => adel Nat.eqb _ _) _) => apply ON_delop; assumption
  | |- _ => (eapply ON_frame; [ | | eassumption]); frame_eq
  end.

Ltac t_NPh :=
  lazymatch goal with
  | |- NPh (upd_worker _ _ _) => apply NPh_upd_worker; assumption
  | |- NPh (upd_scq _ _ _) => apply NPh_upd_scq_keep; [let q := fresh "q" in intros q; first [reflexivity | (destruct (existsb _ (q_drains q)); reflexivity)] | assumption]
  | |- NPh (set s_invs _ (set s_scqs (fun l => l ++ _) _)) => apply NPh_newscq; assumption
  | |- _ => (eapply NPh_frame; [ | eassumption]); frame_eq
  end.

Lemma X_upd_worker_keep : forall ext s w f,
  (forall k, k_task (f k) = k_task k) -> X ext s -> X ext (upd_worker w f s).
Proof.
  intros ext s w f Hf HX. pose proof (Hf (get_worker s w)) as E1. apply X_upd_worker; [| | |exact HX].
  - intros t Ht. left. rewrite <- E1. exact Ht.
  - intros t Ht. left. rewrite E1. exact Ht.
  - intros _. exact I.
Qed.

Ltac t_X :=
  lazymatch goal with
  | |- X _ (upd_task _ _ _) =>
    first [ (apply X_upd_task_ext; [in_L | assumption])
          | (apply X_upd_task_keep; [intros ?; cbn; repeat split; reflexivity | assumption]) ]
  | |- X _ (upd_op _ _ _) => apply X_upd_op_keep; [intros ?; cbn; split; reflexivity | assumption]
  | |- X _ (set s_ops _ (set s_nops S _)) => apply X_newop; [in_L | assumption]
  | |- X _ (upd_inv _ (fun v => v <| v_qops ::= remove_nat _ |>) _) => apply X_deq; assumption
  | |- X _ (upd_inv _ _ _) =>
    first [ (match goal with Hf : inv_upd ?f |- _ => destruct Hf end; first [ (apply X_upd_inv_keep; [intros ?; reflexivity | assumption]) | (apply X_deq; assumption) ])
          | (apply X_upd_inv_keep; [intros ?; reflexivity | assumption]) ]
  | |- X _ (set s_invs (fun l => l ++ [(_, new_inv _)]) _) => apply X_invs_new; assumption
  | |- X _ (set s_invs (fun _ => adel iref_eqb _ _) _) =>
    apply X_invs_del; [match goal with HS : St _ |- _ => destruct HS as [_ [_ [Hn _]]]; exact Hn end | assumption]
  | |- X _ (set s_invs _ (set s_scqs (fun l => l ++ _) _)) => apply X_newscq; assumption
  | |- X _ (upd_worker _ _ _) => apply X_upd_worker_keep; [intros ?; reflexivity | assumption]
  | |- X _ (upd_scq _ _ _) => apply X_upd_scq_keep; [let q := fresh "q" in intros q; first [reflexivity | (destruct (existsb _ (q_drains q)); reflexivity)] | assumption]
  | |- _ => (eapply X_frame; [ | | | | eassumption]); frame_eq
  end.

(* ---- no task lists an operation twice ------------------------------------------------------------------ *)
Definition XN (s : state) : Prop := forall t, NoDup (map snd (t_ops (get_task s t))).

Lemma XN_frame : forall s s', s_tasks s' = s_tasks s -> XN s -> XN s'.
Proof. intros s s' E H t. rewrite (get_task_frame _ _ _ E). apply H. Qed.
Lemma XN_upd_task : forall s t f, NoDup (map snd (t_ops (f (get_task s t)))) -> XN s -> XN (upd_task t f s).
Proof.
  intros s t f Hn H t'. rewrite get_task_upd_task. destruct (Nat.eqb t' t) eqn:E; [|apply H].
  exact Hn.
Qed.
Lemma XN_newtask : forall s x, t_ops x = [] -> XN s -> XN (s <| s_ntasks ::= S |> <| s_tasks ::= fun l => l ++ [(s_ntasks s, x)] |>).
Proof.
  intros s x Hx H t. unfold get_task. cbn. rewrite (aget_app Nat.eqb). specialize (H t). unfold get_task in H.
  destruct (aget Nat.eqb t (s_tasks s)); [exact H|]. cbn. destruct (Nat.eqb t (s_ntasks s)); [rewrite Hx; constructor|constructor].
Qed.
Lemma NoDup_snd_filter : forall (l : list (iref * nat)) g, NoDup (map snd l) -> NoDup (map snd (filter g l)).
Proof.
  induction l as [|[i o] l IH]; intros g H; cbn; [constructor|]. inversion H; subst.
  destruct (g (i, o)); cbn; [constructor|]; auto. intro Hin. apply H2. apply in_map_iff in Hin. destruct Hin as [[i' o'] [E Hin]].
  apply filter_In in Hin. cbn in E. subst. apply in_map_iff. exists (i', o). split; [reflexivity|tauto].
Qed.
Lemma map_snd_retarget : forall (l : list (iref * nat)) (g : iref -> iref), map snd (map (fun '(i, o) => (g i, o)) l) = map snd l.
Proof. induction l as [|[i o] l IH]; intro g; cbn; [reflexivity|]. rewrite IH. reflexivity. Qed.

Ltac t_XN :=
  lazymatch goal with
  | |- XN (upd_task _ _ _) =>
    apply XN_upd_task; [ | assumption];
    first [ (match goal with H : XN _ |- _ => exact (H _) end)
          | (cbn; apply NoDup_snd_filter; match goal with H : XN _ |- _ => exact (H _) end)
          | (cbn; assumption) ]
  | |- XN (set s_tasks _ (set s_ntasks S _)) => apply XN_newtask; [reflexivity | assumption]
  | |- _ => (eapply XN_frame; [ | eassumption]); frame_eq
  end.

(* ---- operations belong to tasks that were created ----------------------------------------------------------- *)
Definition OT (s : state) : Prop := forall o x, In (o, x) (s_ops s) -> (o_task x < s_ntasks s)%nat.

Lemma OT_frame : forall s s', s_ops s' = s_ops s -> s_ntasks s' = s_ntasks s -> OT s -> OT s'.
Proof. unfold OT. intros s s' -> ->. auto. Qed.
Lemma OT_upd_op : forall s o f, (forall y, o_task (f y) = o_task y) -> OT s -> OT (upd_op o f s).
Proof.
  unfold OT, upd_op. intros s o f Hf H o' x. destruct (aget Nat.eqb o (s_ops s)) eqn:E; [|apply H]. cbn.
  intro Hin. apply In_aset in Hin. destruct Hin as [[_ ->]|Hin]; [|eapply H; exact Hin].
  rewrite Hf. apply (H o). apply (aget_In Nat.eqb nat_eqb_eq). exact E.
Qed.
Lemma OT_newop : forall s t prio i m, (t < s_ntasks s)%nat -> OT s ->
  OT (s <| s_nops ::= S |> <| s_ops ::= fun l => l ++ [(s_nops s, mkOper t prio i 0 m None)] |>).
Proof.
  unfold OT. intros s t prio i m Ht H o x. cbn. intro Hin. apply in_app_or in Hin. destruct Hin as [Hin|[Heq|[]]]; [eapply H; exact Hin|].
  inversion Heq; subst. exact Ht.
Qed.
Lemma OT_delop : forall s o, OT s -> OT (s <| s_ops := adel Nat.eqb o (s_ops s) |>).
Proof. unfold OT. intros s o H o' x. cbn. intro Hin. apply In_adel in Hin. eapply H; exact Hin. Qed.
Lemma OT_newtask : forall s x, OT s -> OT (s <| s_ntasks ::= S |> <| s_tasks ::= fun l => l ++ [(s_ntasks s, x)] |>).
Proof. unfold OT. intros s x H o y. cbn. intro Hin. specialize (H _ _ Hin). lia. Qed.
Lemma OT_alive : forall s o, OT s -> op_alive s o = true -> (tsk s o < s_ntasks s)%nat.
Proof.
  unfold OT, op_alive, tsk, get_op. intros s o H Ha. destruct (aget Nat.eqb o (s_ops s)) eqn:E; [|discriminate].
  apply (H o). apply (aget_In Nat.eqb nat_eqb_eq). exact E.
Qed.

Ltac t_OT :=
  lazymatch goal with
  | |- OT (upd_op _ _ _) => apply OT_upd_op; [intros ?; reflexivity | assumption]
  | |- OT (set s_ops _ (set s_nops S _)) => apply OT_newop; [first [assumption | lia] | assumption]
  | |- OT (set s_ops (fun _ => adel Nat.eqb _ _) _) => apply OT_delop; assumption
  | |- OT (set s_tasks _ (set s_ntasks S _)) => apply OT_newtask; assumption
  | |- _ => (eapply OT_frame; [ | | eassumption]); frame_eq
  end.

(* the part of the invariant that does not mention calls and idle lists *)
Definition XS (ext : list nat) (s : state) : Prop := St s /\ ON s /\ NPh s /\ XN s /\ OT s /\ X ext s.

Lemma XS_X : forall ext s, XS ext s -> X ext s. Proof. unfold XS. tauto. Qed.
Lemma XS_XN : forall ext s, XS ext s -> XN s. Proof. unfold XS. tauto. Qed.
Lemma XS_OT : forall ext s, XS ext s -> OT s. Proof. unfold XS. tauto. Qed.
Lemma XS_ON : forall ext s, XS ext s -> ON s. Proof. unfold XS. tauto. Qed.
Lemma XS_NPh : forall ext s, XS ext s -> NPh s. Proof. unfold XS. tauto. Qed.
Lemma XS_St : forall ext s, XS ext s -> St s. Proof. unfold XS. tauto. Qed.
Lemma XS_weaken : forall ext t s, XS ext s -> XS (t :: ext) s.
Proof. unfold XS. intros ext t s [A [B [C [N [T D]]]]]. repeat (split; [assumption|]). apply X_weaken. exact D. Qed.

Ltac t_XS :=
  intros;
  match goal with H : XS _ _ |- _ =>
    let H1 := fresh "HS" in let H2 := fresh "HON" in let H3 := fresh "HNP" in let H4 := fresh "HX" in let H5 := fresh "HXN" in let H6 := fresh "HOT" in
    destruct H as [H1 [H2 [H3 [H5 [H6 H4]]]]] end;
  split; [ t_St | split; [ t_ON | split; [ t_NPh | split; [ t_XN | split; [ t_OT | t_X ] ] ] ] ].

Lemma XS_new_inv : forall ext s i z, inv_exists s i = false -> i_path i <> [] -> XS ext s -> XS ext (s <| s_invs ::= fun l => l ++ [(i, new_inv z)] |>).
Proof.
  intros ext s i z H1 H2 [A [B [C [N [T D]]]]]. split; [apply St_new_inv; assumption|]. split; [eapply ON_frame; [ | |exact B]; reflexivity|].
  split; [eapply NPh_frame; [|exact C]; reflexivity|]. split; [eapply XN_frame; [|exact N]; reflexivity|]. split; [eapply OT_frame; [ | |exact T]; reflexivity|apply X_invs_new; exact D].
Qed.

Lemma XS_get_or_create_invocation : forall ext k p s, XS ext s -> XS ext (get_or_create_invocation k p s).
Proof.
  intros ext k p s H. unfold get_or_create_invocation.
  assert (Hall : forall pp, In pp (prefixes_from [] p) -> pp <> []) by (intros; eapply prefixes_from_nonnil; eassumption).
  revert s H. induction (prefixes_from [] p) as [|pp l IH]; intros s H; cbn [fold_left]; [exact H|].
  apply IH; [intros; apply Hall; right; assumption|].
  destruct (inv_exists s (mkI k pp)) eqn:E; [exact H|]. apply XS_new_inv; [exact E|cbn; apply Hall; left; reflexivity|exact H].
Qed.

Lemma XS_remove_if_empty : forall ext i s, XS ext s -> XS ext (fst (remove_if_empty i s)).
Proof.
  intros ext i s H. pose proof H as [A [B [C [N [T D]]]]]. split; [apply St_remove_if_empty; exact A|].
  unfold remove_if_empty. destruct (_ && _); cbn [fst]; [|auto].
  split; [eapply ON_frame; [ | |exact B]; reflexivity|]. split; [eapply NPh_frame; [|exact C]; reflexivity|].
  split; [eapply XN_frame; [|exact N]; reflexivity|]. split; [eapply OT_frame; [ | |exact T]; reflexivity|].
  apply X_invs_del; [destruct A as [_ [_ [Hn _]]]; exact Hn|exact D].
Qed.

Ltac xs_leaf0 :=
  idtac;
  lazymatch goal with
  | |- XS _ (get_or_create_invocation _ _ _) => apply XS_get_or_create_invocation
  | |- XS _ (fst (remove_if_empty _ _)) => apply XS_remove_if_empty
  end.
Ltac xs_go0 := inv_go xs_leaf0 t_XS.

Lemma XS_clear_last_invocation : forall ext w s, XS ext s -> XS ext (clear_last_invocation w s).
Proof. intros. xs_go0. Qed.
Lemma XS_set_last_invocation : forall ext w p s, XS ext s -> XS ext (set_last_invocation w p s).
Proof. intros. xs_go0. Qed.
Lemma XS_dequeue_worker : forall ext w s, XS ext s -> XS ext (dequeue_worker w s).
Proof. intros. xs_go0. Qed.
Lemma XS_decrement_executing : forall ext i w s, XS ext s -> XS ext (decrement_executing i w s).
Proof. intros. xs_go0. Qed.
Lemma XS_increment_executing : forall ext i w s, XS ext s -> XS ext (increment_executing i w s).
Proof. intros. xs_go0. Qed.

Ltac xs_leaf1 :=
  first [ xs_leaf0
        | lazymatch goal with
          | |- XS _ (clear_last_invocation _ _) => apply XS_clear_last_invocation
          | |- XS _ (set_last_invocation _ _ _) => apply XS_set_last_invocation
          | |- XS _ (dequeue_worker _ _) => apply XS_dequeue_worker
          | |- XS _ (decrement_executing _ _ _) => apply XS_decrement_executing
          | |- XS _ (increment_executing _ _ _) => apply XS_increment_executing
          end ].
Ltac xs_go1 := inv_go xs_leaf1 t_XS.

(* handing a task (in its critical section) to a worker that is not waiting *)
Lemma XS_assign_prim : forall ext w t s,
  In t ext -> k_wait (get_worker s w) = false ->
  (is_phantom w = false -> k_task (get_worker s w) = None) ->
  XS ext s -> XS ext (upd_worker w (fun k => k <| k_task := Some t |>) s).
Proof.
  intros ext w t s Hin Hkw Hkt [A [B [C [N [T D]]]]]. split; [apply St_upd_worker; exact A|]. split; [eapply ON_frame; [ | |exact B]; rewrite upd_worker_eq; reflexivity|].
  split; [apply NPh_upd_worker; exact C|]. split; [eapply XN_frame; [|exact N]; rewrite upd_worker_eq; reflexivity|]. split; [eapply OT_frame; [ | |exact T]; rewrite upd_worker_eq; reflexivity|]. apply X_upd_worker; [| | |exact D]; cbn.
  - intros t' Ht'. inversion Ht'; subst. right. exact Hin.
  - intros t0 Ht0. exfalso. destruct (is_phantom w) eqn:Ep.
    + (* a phantom id is not registered: the record read is the dummy *)
      unfold get_worker in Ht0. destruct (aget wref_eqb w (q_workers (get_scq s (w_sk w)))) eqn:E; [|discriminate].
      assert (He : worker_exists s w = true) by (unfold worker_exists; rewrite E; reflexivity). specialize (C w He). congruence.
    + rewrite (Hkt eq_refl) in Ht0. discriminate.
  - rewrite Hkw. discriminate.
Qed.

Lemma XS_assign_unqueued : forall ext w t r s,
  In t ext -> k_wait (get_worker s w) = false -> XS ext s -> XS ext (assign_unqueued w t r s).
Proof.
  intros ext w t r s Hin Hkw H. unfold assign_unqueued. cbv zeta.
  destruct (negb (is_phantom w) && match k_task (get_worker s w) with Some _ => true | None => false end) eqn:Eg; [t_XS|].
  destruct (t_worker (get_task s t)); [t_XS|].
  assert (H1 : XS ext (upd_worker w (fun k => k <| k_task := Some t |>) s)).
  { apply XS_assign_prim; [exact Hin|exact Hkw| |exact H]. intro Hp. rewrite Hp in Eg. cbn in Eg.
    destruct (k_task (get_worker s w)); [discriminate|reflexivity]. }
  set (s1 := upd_worker w _ s) in *. clearbody s1. xs_go1.
Qed.

Lemma XS_assign_queued : forall ext w t r s,
  In t ext -> k_wait (get_worker s w) = false -> XS ext s -> XS ext (assign_queued w t r s).
Proof.
  intros ext w t r s Hin Hkw H. unfold assign_queued. cbv zeta.
  pose proof (XS_assign_unqueued ext w t r s Hin Hkw H) as H1.
  set (s1 := assign_unqueued w t r s) in *. clearbody s1. xs_go1.
Qed.

(* queueing *)
Lemma XS_enqueue : forall ext o s,
  op_alive s o = true -> In (tsk s o) ext -> ~ In o (v_qops (get_inv s (o_inv (get_op s o)))) ->
  XS ext s -> XS ext (enqueue o s).
Proof.
  intros ext o s Ha Hin Hnq [A [B [C [N [T D]]]]]. unfold enqueue. cbv zeta.
  assert (H1 : XS ext (upd_inv (o_inv (get_op s o)) (fun v => v <| v_qops ::= fun l => l ++ [o] |>) s)).
  { split; [apply St_upd_inv; exact A|]. split; [eapply ON_frame; [ | |exact B]; rewrite upd_inv_eq; reflexivity|].
    split; [eapply NPh_frame; [|exact C]; apply scqs_upd_inv|]. split; [eapply XN_frame; [|exact N]; rewrite upd_inv_eq; reflexivity|]. split; [eapply OT_frame; [ | |exact T]; rewrite upd_inv_eq; reflexivity|apply X_enq; assumption]. }
  set (s1 := upd_inv _ _ s) in *. clearbody s1. xs_go1.
Qed.

Ltac t_Qx_sw :=
  first [ (lazymatch goal with |- SW (set_call _ _ _) => apply SW_setcall_plain; [reflexivity | assumption] end)
        | (match goal with H0 : SW _ |- _ => let HS := fresh "HS" in let HW := fresh "HW" in destruct H0 as [HS HW] end; split; [t_St | t_WP]) ].

Ltac t_Qx :=
  intros;
  match goal with H : Qx _ _ |- _ =>
    let H1 := fresh "HSW" in let H2 := fresh "HON" in let H3 := fresh "HNP" in let H4 := fresh "HX" in
    destruct H as [H1 [H2 [H3 H4]]] end;
  split; [ t_Qx_sw | split; [ t_ON | split; [ t_NPh | t_X ] ] ].
