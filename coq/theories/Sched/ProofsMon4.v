(* The monitor on the model's trace: what one Execute event does to the operation table (c03_exec, c05_exec). *)
From Coq Require Import Lia.
From VF Require Export Sched.ProofsMon3.
From VF Require Import Sched.Spec Sched.Corr Sched.ProofsObsLink Sched.ProofsLearner Sched.ProofsRoute Sched.ProofsExec Sched.ProofsInflight Sched.ProofsSpec.
Open Scope Z_scope.

(* ---- the clean-up at the start of an event only removes operations and in-flight entries ------------------------------------------------------- *)
Lemma aget_adel_sub {K V} (eqb : K -> K -> bool) : forall k k' (l : list (K * V)) v, aget eqb k (adel eqb k' l) = Some v -> exists v', aget eqb k l = Some v'.
Proof.
  intros k k'. induction l as [|[k2 v2] l IH]; cbn; intros v H; [discriminate|].
  destruct (eqb k' k2) eqn:E1.
  - destruct (eqb k k2); [eexists; reflexivity|exists v; exact H].
  - cbn in H. destruct (eqb k k2); [eexists; reflexivity|eapply IH; exact H].
Qed.

Definition KS (s0 s : state) : Prop :=
  (forall o, op_alive s o = true -> op_alive s0 o = true) /\
  (forall k, aget dkey_eqb k (s_inflight s) <> None -> aget dkey_eqb k (s_inflight s0) <> None) /\
  s_nops s = s_nops s0.
Lemma KS_refl : forall s, KS s s. Proof. intro s. split; [auto|split; [auto|reflexivity]]. Qed.
Lemma KS_frame : forall s0 s s', s_ops s' = s_ops s -> s_inflight s' = s_inflight s -> s_nops s' = s_nops s -> KS s0 s -> KS s0 s'.
Proof. unfold KS, op_alive. intros s0 s s' -> -> ->. auto. Qed.
Lemma KS_upd_op : forall s0 s o f, KS s0 s -> KS s0 (upd_op o f s).
Proof. intros s0 s o f [A [B C]]. split; [intros o'; rewrite op_alive_upd_op; apply A|]. rewrite upd_op_eq. cbn. split; assumption. Qed.
Lemma KS_delop : forall s0 s o, KS s0 s -> KS s0 (s <| s_ops := adel Nat.eqb o (s_ops s) |>).
Proof.
  intros s0 s o [A [B C]]. split; [|split; assumption]. intros o' Ha. apply A. unfold op_alive in *. cbn in Ha.
  destruct (aget Nat.eqb o' (adel Nat.eqb o (s_ops s))) as [v|] eqn:E; [|discriminate]. destruct (aget_adel_sub Nat.eqb _ _ _ _ E) as [v' ->]. reflexivity.
Qed.
Lemma KS_infl_del : forall s0 s k, KS s0 s -> KS s0 (s <| s_inflight ::= adel dkey_eqb k |>).
Proof.
  intros s0 s k [A [B C]]. split; [exact A|split; [|exact C]]. intros k' Hn. apply B. cbn in Hn.
  destruct (aget dkey_eqb k' (adel dkey_eqb k (s_inflight s))) as [v|] eqn:E; [|congruence]. destruct (aget_adel_sub dkey_eqb _ _ _ _ E) as [v' ->]. discriminate.
Qed.
Ltac t_ks2 :=
  intros;
  lazymatch goal with
  | |- KS _ (upd_op _ _ _) => apply KS_upd_op; assumption
  | |- KS _ (set s_ops (fun _ => adel Nat.eqb _ _) _) => apply KS_delop; assumption
  | |- KS _ (set s_inflight (adel dkey_eqb _) _) => apply KS_infl_del; assumption
  | |- _ => (eapply KS_frame; [| | |eassumption]); frame_eq
  end.
Ltac ks_go := inv_go fail t_ks2.

Lemma KS_complete_task_nb : forall s0 t r s, resp_success r = false -> KS s0 s -> KS s0 (complete_task t r false s).
Proof.
  intros s0 t r s Hr H. rewrite complete_task_eq2. destruct (t_resp (get_task s t)); [exact H|]. cbv zeta.
  assert (H4 : KS s0 (ct_prefix t false s)) by (unfold ct_prefix; ks_go). set (s4 := ct_prefix t false s) in *. clearbody s4.
  destruct (get_pq s4 _) as [p|]; [|t_ks2]. unfold ct_learner. rewrite Hr.
  destruct (t_learner (get_task s t)); cbn [fst snd]; unfold ct_tail; ks_go.
Qed.
Lemma KS_cancel_all_queued : forall s0 i r s, resp_success r = false -> KS s0 s -> KS s0 (cancel_all_queued i r s).
Proof. intros s0 i r s Hr H. rewrite cancel_all_queued_eq. apply cancel_go_closed; [|exact H]. intros. apply KS_complete_task_nb; assumption. Qed.

Ltac ks_leaf :=
  idtac;
  lazymatch goal with
  | |- KS _ (complete_task _ (mkResp cCANCELLED 0 0) false _) => apply KS_complete_task_nb; [reflexivity|]
  | |- KS _ (complete_task _ (mkResp cUNAVAILABLE 0 0) false _) => apply KS_complete_task_nb; [reflexivity|]
  | |- KS _ (cancel_all_queued _ (mkResp cUNAVAILABLE 0 0) _) => apply KS_cancel_all_queued; [reflexivity|]
  end.
Ltac ks_go1 := inv_go ks_leaf t_ks2.

Lemma KS_enter : forall t s, KS s (enter t s).
Proof.
  intros t s. unfold enter. destruct (s_now s <? t); [|apply KS_refl]. cbv zeta.
  apply (cleanup_run_closed (KS s)); [intros; t_ks2| |eapply KS_frame; [| | |apply KS_refl]; reflexivity].
  intros s1 [z ce] H1 Hin. unfold run_entry. cbn [fst snd]. destruct ce as [o|w|k]; unfold operation_remove, remove_stale_worker, mark_terminating, scq_remove; ks_go1.
  all: match goal with |- KS ?s0 (fst (fold_left ?g ?l ?a)) => apply (fold_left_pres (fun acc => KS s0 (fst acc)) g l); [intros [s2 go] j H2; cbn [fst] in *; destruct go; [ks_go1|assumption]|cbn [fst]; ks_go1] end.
Qed.

(* ---- lists of keys ---------------------------------------------------------------------------------------------------------------------------------------- *)
Lemma keys_upd_op : forall o f s, map fst (s_ops (upd_op o f s)) = map fst (s_ops s).
Proof.
  intros o f s. unfold upd_op. destruct (aget Nat.eqb o (s_ops s)) eqn:E; [|reflexivity]. cbn. rewrite (map_fst_aset Nat.eqb nat_eqb_eq), E. reflexivity.
Qed.

Definition keeps_okeys (K : list nat) (s : state) : Prop := map fst (s_ops s) = K.
Ltac t_kok := intros; unfold keeps_okeys in *;
  first [assumption | (rewrite keys_upd_op; assumption) | (rewrite upd_inv_eq; assumption) | (rewrite upd_task_eq; assumption)
        | (rewrite upd_worker_eq; assumption) | (rewrite upd_scq_eq; assumption) | (cbn; assumption)].

Lemma keys_wait_execution_begin : forall c o s, map fst (s_ops (wait_execution_begin c o s)) = map fst (s_ops s).
Proof.
  intros c o s. assert (H0 : keeps_okeys (map fst (s_ops s)) s) by reflexivity.
  assert (H : keeps_okeys (map fst (s_ops s)) (wait_execution_begin c o s)); [|exact H]. unfold wait_execution_begin, stream_iter. fr_go (keeps_okeys (map fst (s_ops s))) t_kok.
Qed.
Lemma keys_schedule : forall t s, map fst (s_ops (schedule t s)) = map fst (s_ops s).
Proof. intros t s. rewrite (proj2 (schedule_frames t (get_task s t) t s ltac:(unfold TKeep; auto))). reflexivity. Qed.
Lemma keys_auto_returns : forall s, s_ops (auto_returns s) = s_ops s /\ s_tasks (auto_returns s) = s_tasks s /\ s_invs (auto_returns s) = s_invs s /\
  s_pqs (auto_returns s) = s_pqs s /\ s_inflight (auto_returns s) = s_inflight s /\ s_now (auto_returns s) = s_now s /\ s_scqs (auto_returns s) = s_scqs s.
Proof.
  intro s. rewrite auto_returns_fold.
  apply (fold_left_pres (fun a => s_ops a = s_ops s /\ s_tasks a = s_tasks s /\ s_invs a = s_invs s /\ s_pqs a = s_pqs s /\ s_inflight a = s_inflight s /\ s_now a = s_now s /\ s_scqs a = s_scqs s)); [|repeat split; reflexivity].
  intros a [c p] Ha. unfold auto_step. destruct p; try exact Ha. destruct (terminate_done a waits); exact Ha.
Qed.

(* ---- the operations an event adds, as the dumps show them ------------------------------------------------------------------------------------------- *)
Lemma name_in_dump : forall s o, existsb (fun o' => Nat.eqb o (do_name o')) (d_ops (observe s)) = op_alive s o.
Proof.
  intros s o. unfold observe, op_alive. cbn [d_ops]. induction (s_ops s) as [|[o1 x1] l IH]; cbn; [reflexivity|].
  destruct (Nat.eqb o o1); [reflexivity|exact IH].
Qed.

Lemma new_ops_filter : forall pre s s2,
  d_ops pre = d_ops (observe s) ->
  new_ops pre (observe s2) = map (fun '(o, x) => observe_op s2 o x) (filter (fun '(o, _) => negb (op_alive s o)) (s_ops s2)).
Proof.
  intros pre s s2 Hpre. unfold new_ops. rewrite Hpre. unfold observe at 2. cbn [d_ops].
  induction (s_ops s2) as [|[o x] l IH]; cbn [map filter]; [reflexivity|].
  cbn [do_name observe_op]. rewrite name_in_dump. destruct (op_alive s o); cbn [negb]; [exact IH|cbn [map]; f_equal; exact IH].
Qed.

Lemma filter_keys_none : forall {V} (P : nat -> bool) (l : list (nat * V)), (forall k, In k (map fst l) -> P k = false) -> filter (fun '(o, _) => P o) l = [].
Proof. intros V P. induction l as [|[o x] l IH]; intro H; cbn; [reflexivity|]. rewrite (H o (or_introl eq_refl)). apply IH. intros k Hk. apply H. right. exact Hk. Qed.

Lemma filter_keys_last : forall {V} (P : nat -> bool) (l : list (nat * V)) K n,
  map fst l = K ++ [n] -> (forall k, In k K -> P k = false) -> P n = true ->
  exists v, filter (fun '(o, _) => P o) l = [(n, v)] /\ In (n, v) l.
Proof.
  intros V P l K n E HK Hn. assert (Hl : exists l0 v, l = l0 ++ [(n, v)] /\ map fst l0 = K).
  { destruct l as [|x l] using rev_ind; [destruct K; discriminate|]. rewrite map_app in E. cbn in E. apply app_inj_tail in E. destruct E as [E1 E2]. destruct x as [o v]. cbn in E2. subst o. exists l, v. auto. }
  destruct Hl as [l0 [v [-> E0]]]. exists v. split; [|apply in_or_app; right; left; reflexivity].
  rewrite filter_app. rewrite (filter_keys_none P l0) by (intros k Hk; apply HK; rewrite <- E0; exact Hk). cbn. rewrite Hn. reflexivity.
Qed.

Lemma observe_frame_ops : forall s s', s_ops s' = s_ops s -> s_tasks s' = s_tasks s -> s_invs s' = s_invs s -> d_ops (observe s') = d_ops (observe s).
Proof.
  intros s s' E1 E2 E3. unfold observe. cbn [d_ops]. rewrite E1. apply map_ext. intros [o x]. unfold observe_op, is_queued_op. rewrite (get_task_frame _ _ _ E2).
  rewrite (get_inv_frame _ _ _ E3), (get_op_frame _ _ _ E1). reflexivity.
Qed.

(* ---- fields of a task / an operation that the rest of an Execute section leaves alone ---------------------------------------------------------------- *)
Definition TStat (t : nat) (x0 : task) (s : state) : Prop :=
  let x := get_task s t in
  t_ops x = t_ops x0 /\ t_instance x = t_instance x0 /\ t_digest x = t_digest x0 /\ t_suffix x = t_suffix x0 /\ t_dnc x = t_dnc x0 /\ t_resp x = t_resp x0.
Ltac t_tstat :=
  intros; unfold TStat in *; cbv zeta in *;
  first [ (erewrite get_task_frame; [eassumption | frame_eq])
        | (rewrite get_task_upd_task; let E := fresh "E" in destruct (Nat.eqb _ _) eqn:E; [apply Nat.eqb_eq in E; subst; cbn; assumption | assumption]) ].
Definition OStat (o : nat) (x0 : oper) (s : state) : Prop :=
  op_alive s o = true /\ o_task (get_op s o) = o_task x0 /\ o_inv (get_op s o) = o_inv x0 /\ o_mayexist (get_op s o) = o_mayexist x0.
Lemma OStat_frame : forall o x0 s s', s_ops s' = s_ops s -> OStat o x0 s -> OStat o x0 s'.
Proof. unfold OStat. intros o x0 s s' E H. rewrite (op_alive_frame _ _ _ E), (get_op_frame _ _ _ E). exact H. Qed.
Lemma OStat_upd_op : forall o x0 s o' f, (forall x, o_task (f x) = o_task x /\ o_inv (f x) = o_inv x /\ o_mayexist (f x) = o_mayexist x) -> OStat o x0 s -> OStat o x0 (upd_op o' f s).
Proof.
  unfold OStat. intros o x0 s o' f Hf [A [B [C D]]]. rewrite op_alive_upd_op, get_op_upd_op. split; [exact A|].
  destruct (Nat.eqb o o' && op_alive s o') eqn:E; [|auto]. apply andb_true_iff in E. destruct E as [E _]. apply Nat.eqb_eq in E. subst o'.
  destruct (Hf (get_op s o)) as [F1 [F2 F3]]. rewrite F1, F2, F3. auto.
Qed.
Ltac t_ostat :=
  intros;
  lazymatch goal with
  | |- OStat _ _ (upd_op _ _ _) => apply OStat_upd_op; [intro; repeat split; reflexivity | assumption]
  | |- _ => (eapply OStat_frame; [|eassumption]); frame_eq
  end.

Lemma web_stat : forall c o' s t x0 o x1, TStat t x0 s -> OStat o x1 s ->
  TStat t x0 (wait_execution_begin c o' s) /\ OStat o x1 (wait_execution_begin c o' s).
Proof.
  intros c o' s t x0 o x1 HT HO. split; unfold wait_execution_begin, stream_iter.
  - fr_go (TStat t x0) t_tstat.
  - fr_go (OStat o x1) t_ostat.
Qed.
Lemma schedule_stat : forall t' s t x0 o x1, TStat t x0 s -> OStat o x1 s -> TStat t x0 (schedule t' s) /\ OStat o x1 (schedule t' s).
Proof. intros t' s t x0 o x1 HT HO. split; [fr_go (TStat t x0) t_tstat|fr_go (OStat o x1) t_ostat]. Qed.

(* ---- what exec_start does to the operation table ----------------------------------------------------------------------------------------------------------- *)
Definition exec_same (c : nat) (a : exec_args) (s1 s2 : state) : Prop :=
  map fst (s_ops s2) = map fst (s_ops s1) /\
  (aget dkey_eqb (x_instance a, x_digest a) (s_inflight s1) <> None \/
   (longest_prefix_pq s1 (x_plat a) (x_instance a) = None /\
    In (ORet c (if s_now s1 <? s_hardfail s1 then cUNAVAILABLE else cFAILEDPRE)) (s_out s2))).
Definition exec_dedup_new (a : exec_args) (s1 s2 : state) : Prop :=
  map fst (s_ops s2) = map fst (s_ops s1) ++ [s_nops s1] /\
  exists xn x0, OStat (s_nops s1) xn s2 /\ o_mayexist xn = false /\ TStat (o_task xn) x0 s2 /\
    t_instance x0 = x_instance a /\ t_digest x0 = x_digest a /\ (2 <= List.length (t_ops x0))%nat /\ t_dnc x0 = Some false.
Definition exec_new (a : exec_args) (s1 s2 : state) : Prop :=
  map fst (s_ops s2) = map fst (s_ops s1) ++ [s_nops s1] /\
  aget dkey_eqb (x_instance a, x_digest a) (s_inflight s1) = None /\
  exists p xn x0, longest_prefix_pq s1 (x_plat a) (x_instance a) = Some p /\
    OStat (s_nops s1) xn s2 /\ o_mayexist xn = false /\
    o_inv xn = mkI (mkSK (p_key p) (nth (fst (fst (fst (x_sel a)))) (p_scs p) 0%N)) (x_keys a) /\
    TStat (o_task xn) x0 s2 /\ t_ops x0 = [(o_inv xn, s_nops s1)] /\
    t_instance x0 = x_instance a /\ t_digest x0 = x_digest a /\ t_suffix x0 = drop_prefix (pk_prefix (p_key p)) (x_instance a) /\
    t_dnc x0 = Some (x_dnc a).

Definition keeps_now (n : Z) (s : state) : Prop := s_now s = n.
Ltac t_know := intros; unfold keeps_now in *; prim_unfold; prim_cases; cbn; assumption.

Lemma exec_start_desc : forall c a s1, W s1 -> Inf s1 -> TN [] s1 ->
  let s2 := exec_start c a s1 in
  s_pqs s2 = s_pqs s1 /\ s_now s2 = s_now s1 /\ (exec_same c a s1 s2 \/ exec_dedup_new a s1 s2 \/ exec_new a s1 s2).
Proof.
  intros c a s1 HW HI HTN. pose proof (W_op_fresh s1 HW) as Hfo. pose proof (W_task_fresh s1 HW) as Hft. cbv zeta.
  split; [|split].
  - assert (H0 : keeps_pqs (s_pqs s1) s1) by reflexivity. assert (H : keeps_pqs (s_pqs s1) (exec_start c a s1)); [|exact H].
    unfold exec_start, new_operation, ret. fr_go (keeps_pqs (s_pqs s1)) t_kp.
  - assert (H0 : keeps_now (s_now s1) s1) by reflexivity. assert (H : keeps_now (s_now s1) (exec_start c a s1)); [|exact H].
    unfold exec_start, new_operation, ret. fr_go (keeps_now (s_now s1)) t_know.
  - unfold exec_start. destruct (aget dkey_eqb (x_instance a, x_digest a) (s_inflight s1)) as [t0|] eqn:Ei.
    + (* in flight *)
      cbv zeta. destruct HI as [_ [I2 _]]. destruct (I2 _ _ Ei) as [x [Ex [[Hr Hd] Hk]]].
      assert (Eg : get_task s1 t0 = x) by (unfold get_task; rewrite Ex; reflexivity).
      assert (Hne : t_ops (get_task s1 t0) <> []) by (apply (proj2 (HTN t0)); [intros []|rewrite Eg, Hd; discriminate]).
      set (k := task_scq (emit (OGhost GSelAbandoned) s1) t0).
      set (s2 := get_or_create_invocation k (x_keys a) (emit (OGhost GSelAbandoned) s1)).
      destruct (goc_frames k (x_keys a) (emit (OGhost GSelAbandoned) s1)) as [G1 [G2 _]]. destruct (get_or_create_invocation_tasks k (x_keys a) (emit (OGhost GSelAbandoned) s1)) as [_ [G3 _]]. fold s2 in G1, G2, G3.
      destruct (aget iref_eqb (mkI k (x_keys a)) (t_ops (get_task s2 t0))) as [o|].
      * left. split; [rewrite keys_wait_execution_begin, G2; reflexivity|left; congruence].
      * right. left. unfold new_operation. cbv iota beta.
        set (o := s_nops s2). assert (Eo : o = s_nops s1) by (unfold o; rewrite G3; reflexivity).
        match goal with |- exec_dedup_new a s1 (wait_execution_begin c o (match task_stage (get_task ?e t0) with _ => _ end)) => set (s3 := e) end.
        assert (K3 : map fst (s_ops s3) = map fst (s_ops s1) ++ [s_nops s1]) by (unfold s3; rewrite upd_task_eq; cbn; rewrite map_app, G2, <- Eo; reflexivity).
        set (xn := mkOper t0 (x_prio a) (mkI k (x_keys a)) 0 false None).
        assert (O3 : OStat o xn s3).
        { unfold OStat. rewrite (op_alive_frame (s2 <| s_nops ::= S |> <| s_ops ::= fun l0 => l0 ++ [(o, xn)] |>)) by reflexivity.
          rewrite (get_op_frame (s2 <| s_nops ::= S |> <| s_ops ::= fun l0 => l0 ++ [(o, xn)] |>)) by reflexivity.
          unfold o. rewrite op_alive_newop, get_op_newop, Nat.eqb_refl, G2, G3. change (s_ops (emit (OGhost GSelAbandoned) s1)) with (s_ops s1). change (s_nops (emit (OGhost GSelAbandoned) s1)) with (s_nops s1).
          rewrite Hfo. rewrite orb_true_r. auto. }
        set (x3 := (get_task s1 t0) <| t_ops ::= fun l => l ++ [(mkI k (x_keys a), o)] |>).
        assert (T3 : TStat t0 x3 s3).
        { unfold TStat, s3. cbv zeta. rewrite get_task_upd_task, Nat.eqb_refl. rewrite (get_task_frame s2) by reflexivity. rewrite (get_task_frame _ _ _ G1). unfold x3. cbn. auto 6. }
        assert (Hfin : forall s4, map fst (s_ops s4) = map fst (s_ops s3) -> TStat t0 x3 s4 -> OStat o xn s4 -> exec_dedup_new a s1 (wait_execution_begin c o s4)).
        { intros s4 K4 T4 O4. destruct (web_stat c o s4 t0 x3 o xn T4 O4) as [T5 O5]. split; [rewrite keys_wait_execution_begin, K4; exact K3|].
          exists xn, x3. rewrite <- Eo. split; [exact O5|]. split; [reflexivity|]. split; [exact T5|]. unfold x3. cbn [t_instance t_digest t_ops t_dnc set].
          rewrite Eg. unfold tkey in Hk. inversion Hk. split; [reflexivity|]. split; [reflexivity|]. split; [|exact Hd].
          rewrite app_length. cbn. rewrite <- Eg. destruct (t_ops (get_task s1 t0)); [congruence|cbn; lia]. }
        destruct (task_stage (get_task s3 t0)) as [|[pp|pp|]]; try (apply Hfin; [reflexivity|unfold TStat in *; exact T3|eapply OStat_frame; [|exact O3]; reflexivity]).
        -- destruct pp; try (apply Hfin; [reflexivity|exact T3|eapply OStat_frame; [|exact O3]; reflexivity]).
           destruct (t_worker (get_task s3 t0)) as [w|]; apply Hfin; try reflexivity; try exact T3; try exact O3.
           ++ assert (H0 : keeps_okeys (map fst (s_ops s3)) s3) by reflexivity. assert (H : keeps_okeys (map fst (s_ops s3)) (increment_executing (mkI k (x_keys a)) w s3)); [|exact H]. fr_go (keeps_okeys (map fst (s_ops s3))) t_kok.
           ++ fr_go (TStat t0 x3) t_tstat.
           ++ fr_go (OStat o xn) t_ostat.
        -- destruct pp; try (apply Hfin; [reflexivity|exact T3|eapply OStat_frame; [|exact O3]; reflexivity]).
           apply Hfin.
           ++ destruct (enqueue_reads o s3) as [E1 _]. rewrite E1. reflexivity.
           ++ unfold enqueue. fr_go (TStat t0 x3) t_tstat.
           ++ unfold enqueue. fr_go (OStat o xn) t_ostat.
    + destruct (longest_prefix_pq s1 (x_plat a) (x_instance a)) as [p|] eqn:Ep.
      * right. right. destruct (x_sel a) as [[[idx dur] timeout] l] eqn:Esel. cbv zeta. cbn [fst].
        set (s1e := emit (OGhost GSelect) s1). set (k := mkSK (p_key p) (nth idx (p_scs p) 0%N)).
        set (x := mkTask [] (x_instance a) (x_digest a) (Some (x_dnc a)) timeout (s_now s1e) (drop_prefix (pk_prefix (p_key p)) (x_instance a)) None 0 dur (Some l) None 0).
        set (t := s_ntasks s1e).
        set (sN := s1e <| s_ntasks ::= S |> <| s_tasks ::= fun ts => ts ++ [(t, x)] |>).
        assert (Eg : get_task sN t = x) by (unfold sN, t; rewrite get_task_newtask; change (s_tasks s1e) with (s_tasks s1); change (s_ntasks s1e) with (s_ntasks s1); rewrite Hft, Nat.eqb_refl; reflexivity).
        set (s3 := if x_dnc a then sN else sN <| s_inflight ::= aset dkey_eqb (x_instance a, x_digest a) t |>).
        assert (H3 : get_task s3 t = x /\ s_ops s3 = s_ops s1 /\ s_nops s3 = s_nops s1) by (unfold s3; destruct (x_dnc a); (split; [exact Eg|split; reflexivity])).
        destruct H3 as [Eg3 [Eo3 En3]]. clearbody s3.
        set (s4 := get_or_create_invocation k (x_keys a) s3).
        destruct (goc_frames k (x_keys a) s3) as [G1 [G2 _]]. destruct (get_or_create_invocation_tasks k (x_keys a) s3) as [_ [G3 _]]. fold s4 in G1, G2, G3.
        unfold new_operation. cbv iota beta. set (o := s_nops s4). assert (Eo : o = s_nops s1) by (unfold o; rewrite G3; exact En3).
        match goal with |- exec_new a s1 (wait_execution_begin c o (schedule t ?e)) => set (s5 := e) end.
        set (xn := mkOper t (x_prio a) (mkI k (x_keys a)) 0 false None).
        assert (K5 : map fst (s_ops s5) = map fst (s_ops s1) ++ [s_nops s1]) by (unfold s5; rewrite upd_task_eq; cbn; rewrite map_app, G2, Eo3, <- Eo; reflexivity).
        assert (O5 : OStat o xn s5).
        { unfold OStat. rewrite (op_alive_frame (s4 <| s_nops ::= S |> <| s_ops ::= fun l0 => l0 ++ [(o, xn)] |>)) by reflexivity.
          rewrite (get_op_frame (s4 <| s_nops ::= S |> <| s_ops ::= fun l0 => l0 ++ [(o, xn)] |>)) by reflexivity.
          unfold o. rewrite op_alive_newop, get_op_newop, Nat.eqb_refl, G2, G3, Eo3, En3, Hfo. rewrite orb_true_r. auto. }
        set (x5 := x <| t_ops := [(mkI k (x_keys a), o)] |>).
        assert (T5 : TStat t x5 s5).
        { unfold TStat, s5. cbv zeta. rewrite get_task_upd_task, Nat.eqb_refl. rewrite (get_task_frame s4) by reflexivity. rewrite (get_task_frame _ _ _ G1), Eg3. unfold x5. cbn. auto 6. }
        destruct (schedule_stat t s5 t x5 o xn T5 O5) as [T6 O6]. destruct (web_stat c o (schedule t s5) t x5 o xn T6 O6) as [T7 O7].
        split; [rewrite keys_wait_execution_begin, keys_schedule; exact K5|]. split; [exact Ei|].
        exists p, xn, x5. rewrite <- Eo. split; [exact Ep|]. split; [exact O7|]. split; [reflexivity|]. split; [rewrite Esel; reflexivity|]. split; [exact T7|].
        unfold x5, x. cbn. auto 7.
      * left. split; [reflexivity|]. right. split; [exact Ep|]. unfold ret. cbn. left. reflexivity.
Qed.

(* ---- routing, as the dump shows it ------------------------------------------------------------------------------------------------------------------------- *)
Lemma longest_prefix_observe : forall s plat inst,
  longest_prefix_d (observe s) plat inst = option_map (observe_pq s) (longest_prefix_pq s plat inst).
Proof.
  intros s plat inst. unfold longest_prefix_d, longest_prefix_pq, observe. cbn [d_pqs].
  assert (H : forall l best, fold_left (fun best p =>
      if (pk_plat (dp_key p) =? plat)%N && is_prefix (pk_prefix (dp_key p)) inst then
        match best with
        | Some b => if Nat.ltb (List.length (pk_prefix (dp_key b))) (List.length (pk_prefix (dp_key p))) then Some p else best
        | None => Some p end else best) (map (observe_pq s) l) (option_map (observe_pq s) best)
      = option_map (observe_pq s) (fold_left (fun best p =>
      if (pk_plat (p_key p) =? plat)%N && is_prefix (pk_prefix (p_key p)) inst then
        match best with
        | Some b => if Nat.ltb (List.length (pk_prefix (p_key b))) (List.length (pk_prefix (p_key p))) then Some p else best
        | None => Some p end else best) l best)).
  { induction l as [|p l IH]; intro best; cbn [map fold_left]; [reflexivity|]. rewrite <- IH. f_equal. cbn [dp_key observe_pq].
    destruct ((pk_plat (p_key p) =? plat)%N && is_prefix (pk_prefix (p_key p)) inst); [|reflexivity].
    destruct best as [b|]; cbn [option_map dp_key observe_pq]; [destruct (Nat.ltb _ _); reflexivity|reflexivity]. }
  exact (H (s_pqs s) None).
Qed.

Lemma longest_prefix_pq_frame : forall s s' plat inst, s_pqs s' = s_pqs s -> longest_prefix_pq s' plat inst = longest_prefix_pq s plat inst.
Proof. unfold longest_prefix_pq. intros s s' plat inst ->. reflexivity. Qed.

Lemma inflight_in_dump : forall s k, existsb (fun '(k', _) => dkey_eqb k' k) (d_inflight (observe s)) = match aget dkey_eqb k (s_inflight s) with Some _ => true | None => false end.
Proof.
  intros s k. unfold observe. cbn [d_inflight]. induction (s_inflight s) as [|[k1 t1] l IH]; cbn; [reflexivity|].
  rewrite (eqb_sym_of dkey_eqb dkey_eqb_eq k1 k). destruct (dkey_eqb k k1); [reflexivity|exact IH].
Qed.

(* ---- e_exec on a model step ------------------------------------------------------------------------------------------------------------------------------------ *)
Definition pre_ok (pre : dump) (s : state) : Prop := d_ops pre = d_ops (observe s) /\ d_inflight pre = d_inflight (observe s).

Lemma pc_exec_ok : forall cfg t0 pfx eh pre,
  good cfg t0 (pfx ++ [eh]) -> ~ panicked (snd (run (init cfg t0) (pfx ++ [eh]))) ->
  let s := fst (run (init cfg t0) pfx) in
  pre_ok pre s ->
  pc_exec cfg t0 pre (observe (fst (step s eh))) (fst eh) (snd (step s eh)) = ""%string.
Proof.
  intros cfg t0 pfx [e h] pre Hg Hnp s Hpre. unfold pc_exec. cbn [fst]. destruct e as [c a t| | | | | | | | | | | |]; try reflexivity.
  pose proof (good_prefix _ _ _ _ Hg) as [Hsel [Hfr Hbg]].
  assert (Hnp0 : ~ panicked (snd (run (init cfg t0) pfx))) by (intro Hp; apply Hnp; rewrite run_snoc_snd; apply panicked_app; left; exact Hp).
  assert (Hno : forall what, ~ In (OPanic what) (snd (step s (EStartExecute c a t, h)))).
  { intros what Hw. apply Hnp. rewrite run_snoc_snd. apply panicked_app. right. exists (snd (step s (EStartExecute c a t, h))), what. split; [left; reflexivity|exact Hw]. }
  destruct (Cok_run pfx (init cfg t0) Hsel (Cok_init cfg t0)) as [Hp|HC]; [contradiction|]. fold s in HC.
  destruct (hardfail_const cfg t0 pfx) as [Hcfg Hhf]. fold s in Hcfg, Hhf.
  (* the step, unfolded *)
  set (s0 := s <| s_hints := h |> <| s_out := [] |>).
  set (s1 := enter t s0). set (s2 := exec_start c a s1). set (s3 := auto_returns s2).
  assert (Estep : step s (EStartExecute c a t, h) = (s3 <| s_out := [] |> <| s_hints := [] |>, rev (s_out s3))) by reflexivity.
  rewrite Estep in *. cbn [fst snd] in *.
  assert (H0 : Cok s0) by (eapply Cok_eq; [..|exact HC]; reflexivity).
  destruct (TOP_enter t s0 (Cok_TOP _ H0)) as [HFI1 [HTN1 HI1]]. fold s1 in HFI1, HTN1, HI1.
  assert (Hpan : forall st, Pan st -> (forall x, In x (s_out st) -> In x (s_out s3)) -> False).
  { intros st [what Hw] Hsub. apply (Hno what). rewrite <- in_rev. apply Hsub. exact Hw. }
  assert (Hout12 : forall x, In x (s_out s1) -> In x (s_out s3)).
  { intros x Hx. assert (Hx2 : out_has x s2) by (unfold s2; assert (H1 : out_has x s1) by exact Hx; unfold exec_start, new_operation, wait_execution_begin, stream_iter, ret; inv_go fail t_oh).
    unfold s3. assert (H3 : out_has x (auto_returns s2)); [|exact H3]. apply (fr_auto_returns (out_has x)); try (intros; t_oh); try (intros; unfold ret; inv_go fail t_oh); try exact Hx2. }
  destruct HTN1 as [Hp|HTN1]; [exfalso; exact (Hpan s1 Hp Hout12)|].
  destruct (exec_start_desc c a s1 (FI_W _ HFI1) HI1 HTN1) as [Epq [Enow Hdesc]]. fold s2 in Epq, Enow, Hdesc.
  destruct (keys_auto_returns s2) as [A1 [A2 [A3 [A4 [A5 [A6 A7]]]]]]. fold s3 in A1, A2, A3, A4, A5, A6, A7.
  set (s' := s3 <| s_out := [] |> <| s_hints := [] |>).
  assert (Eops : d_ops (observe s') = d_ops (observe s2)) by (apply observe_frame_ops; [exact A1|exact A2|exact A3]).
  destruct (KS_enter t s0) as [KSa [KSi KSn]]. fold s1 in KSa, KSi, KSn.
  assert (Hal0 : forall o, op_alive s0 o = op_alive s o) by (intro; reflexivity).
  assert (Hn1 : s_nops s1 = s_nops s) by exact KSn.
  pose proof (W_op_fresh s (proj1 (proj2 HC))) as Hfo.
  (* the operations of the post-state that the pre-state does not name *)
  assert (Hnew : new_ops pre (observe s') = map (fun '(o, x) => observe_op s2 o x) (filter (fun '(o, _) => negb (op_alive s o)) (s_ops s2))).
  { unfold new_ops. rewrite Eops. fold (new_ops pre (observe s2)). apply new_ops_filter. exact (proj1 Hpre). }
  assert (Hold : forall k, In k (map fst (s_ops s1)) -> negb (op_alive s k) = false).
  { intros k Hk. apply negb_false_iff. rewrite <- Hal0. apply KSa. unfold op_alive. destruct (aget Nat.eqb k (s_ops s1)) eqn:E; [reflexivity|].
    exfalso. exact (aget_None_notin Nat.eqb nat_eqb_eq _ _ E Hk). }
  assert (Hfresh : negb (op_alive s (s_nops s1)) = true) by (rewrite Hn1; unfold op_alive; rewrite Hfo; reflexivity).
  assert (Hndo2 : NoDup (map fst (s_ops s2))).
  { pose proof (proj1 (ML_run cfg t0 (pfx ++ [(EStartExecute c a t, h)]))) as Hnd. rewrite run_snoc_fst in Hnd. fold s in Hnd. rewrite Estep in Hnd. cbn [fst] in Hnd.
    change (s_ops (s3 <| s_out := [] |> <| s_hints := [] |>)) with (s_ops s3) in Hnd. rewrite A1 in Hnd. exact Hnd. }
  assert (Hinfl : aget dkey_eqb (x_instance a, x_digest a) (s_inflight s1) <> None ->
                  existsb (fun '(k, _) => dkey_eqb k (x_instance a, x_digest a)) (d_inflight pre) = true).
  { intro Hn. rewrite (proj2 Hpre), inflight_in_dump. specialize (KSi _ Hn). change (s_inflight s0) with (s_inflight s) in KSi.
    destruct (aget dkey_eqb (x_instance a, x_digest a) (s_inflight s)); [reflexivity|congruence]. }
  apply first_nonempty_all_empty. intros y [<-|[<-|[<-|[]]]].
  - (* the selector is consulted exactly once *)
    pose proof (c07_exec_ok s c a t h) as Hc. rewrite Estep in Hc. exact Hc.
  - (* do_not_cache requests stand alone *)
    unfold c03_exec. destruct (x_dnc a) eqn:Ednc; [|reflexivity].
    match goal with |- match filter ?P (d_ops (observe s')) with _ => _ end = _ => destruct (filter P (d_ops (observe s'))) as [|d dl] eqn:Ef end; [reflexivity|].
    assert (Hd : In d (filter (fun o => negb (existsb (fun o' => Nat.eqb (do_name o) (do_name o')) (d_ops pre))
                           && dkey_eqb (dkey_of o) (x_instance a, x_digest a)
                           && match do_action o with Some (true, _) => negb (do_mayexist o) | _ => false end) (d_ops (observe s')))) by (rewrite Ef; left; reflexivity).
    apply filter_In in Hd. destruct Hd as [Hd Hc]. apply andb_true_iff in Hc. destruct Hc as [Hc Hact]. apply andb_true_iff in Hc. destruct Hc as [Hc1 Hc2].
    assert (Hdn : In d (new_ops pre (observe s'))) by (unfold new_ops; apply filter_In; split; [exact Hd|exact Hc1]).
    rewrite Hnew in Hdn. apply in_map_iff in Hdn. destruct Hdn as [[o x] [<- Hox]]. apply filter_In in Hox. destruct Hox as [Hox Hnal].
    assert (Ego : get_op s2 o = x) by (unfold get_op; rewrite (In_aget_NoDup Nat.eqb nat_eqb_eq _ _ _ Hndo2 Hox); reflexivity).
    destruct Hdesc as [[Ks _]|[[Kd [xn [x0 [HO [Hm [HT [Hi [Hdg [Hlen Hdc]]]]]]]]]|[Kn [_ [p [xn [x0 [Hlp [HO [Hm [Hinv [HT [Hops _]]]]]]]]]]]]].
    + exfalso. assert (Hk : In o (map fst (s_ops s1))) by (rewrite <- Ks; apply in_map_iff; exists (o, x); auto). rewrite (Hold o Hk) in Hnal. discriminate.
    + (* attached to a cacheable task: not a do_not_cache operation *)
      exfalso. assert (Eo : o = s_nops s1).
      { assert (Hk : In o (map fst (s_ops s2))) by (apply in_map_iff; exists (o, x); auto). rewrite Kd in Hk. apply in_app_or in Hk. destruct Hk as [Hk|[<-|[]]]; [rewrite (Hold o Hk) in Hnal; discriminate|reflexivity]. }
      subst o. destruct HO as [_ [Ht _]]. rewrite Ego in Ht. destruct HT as [_ [_ [_ [_ [Hdn' _]]]]]. cbv zeta in Hdn'.
      cbn [do_action observe_op] in Hact. rewrite Ht, Hdn', Hdc in Hact. discriminate.
    + assert (Eo : o = s_nops s1).
      { assert (Hk : In o (map fst (s_ops s2))) by (apply in_map_iff; exists (o, x); auto). rewrite Kn in Hk. apply in_app_or in Hk. destruct Hk as [Hk|[<-|[]]]; [rewrite (Hold o Hk) in Hnal; discriminate|reflexivity]. }
      subst o. destruct HO as [_ [Ht _]]. rewrite Ego in Ht. destruct HT as [Hto _]. cbv zeta in Hto.
      cbn [do_taskops observe_op]. rewrite Ht, Hto, Hops. reflexivity.
  - (* routing *)
    unfold c05_exec. cbv zeta.
    set (created := filter (fun x => negb (do_mayexist x)) (new_ops pre (observe s'))).
    destruct Hdesc as [[Ks Hs]|[[Kd [xn [x0 [HO [Hm [HT [Hi [Hdg [Hlen Hdc]]]]]]]]]|[Kn [Hni [p [xn [x0 [Hlp [HO [Hm [Hinv [HT [Hops [Hi [Hdg [Hsuf _]]]]]]]]]]]]]]]].
    + (* nothing created *)
      assert (Ecr : created = []).
      { unfold created. rewrite Hnew. rewrite filter_keys_none; [reflexivity|]. intros k Hk. apply Hold. rewrite <- Ks. exact Hk. }
      rewrite Ecr. cbn [existsb orb]. destruct Hs as [Hin|[Hnp' Hret]].
      * rewrite (Hinfl Hin). reflexivity.
      * destruct (existsb _ (d_inflight pre)); cbn [andb]; [reflexivity|].
        rewrite longest_prefix_observe. rewrite (longest_prefix_pq_frame s1) by (change (s_pqs s') with (s_pqs s3); rewrite A4; exact Epq). rewrite Hnp'. cbn [option_map].
        assert (Ecode : (if d_now (observe s') <? t0 + cf_pq_noworkers cfg then cUNAVAILABLE else cFAILEDPRE) = (if s_now s1 <? s_hardfail s1 then cUNAVAILABLE else cFAILEDPRE)).
        { change (d_now (observe s')) with (s_now s3). rewrite A6, Enow.
          assert (Eh : s_hardfail s1 = t0 + cf_pq_noworkers cfg).
          { assert (Hk : keeps_cfg (s_cfg s) (s_hardfail s) s1); [|rewrite (proj2 Hk); exact Hhf].
            unfold s1, enter. destruct (s_now s0 <? t); [|split; reflexivity]. cbv zeta.
            assert (Hk0 : keeps_cfg (s_cfg s) (s_hardfail s) (s0 <| s_now := t |>)) by (split; reflexivity).
            fr_go (keeps_cfg (s_cfg s) (s_hardfail s)) t_cfg. }
          rewrite Eh. reflexivity. }
        rewrite Ecode.
        match goal with |- (if ?b then _ else _) = _ => assert (Hb : b = true); [|rewrite Hb; reflexivity] end.
        apply existsb_exists. exists (ORet c (if s_now s1 <? s_hardfail s1 then cUNAVAILABLE else cFAILEDPRE)). split.
        -- rewrite <- in_rev. unfold s3. assert (H3 : out_has (ORet c (if s_now s1 <? s_hardfail s1 then cUNAVAILABLE else cFAILEDPRE)) (auto_returns s2)); [|exact H3].
           apply (fr_auto_returns (out_has _)); try (intros; t_oh); try (intros; unfold ret; inv_go fail t_oh); try exact Hret.
        -- rewrite Nat.eqb_refl, N.eqb_refl. reflexivity.
    + (* attached to the task in flight *)
      destruct (filter_keys_last (fun o => negb (op_alive s o)) (s_ops s2) (map fst (s_ops s1)) (s_nops s1) Kd Hold Hfresh) as [x [Ef Hx]].
      assert (Ego : get_op s2 (s_nops s1) = x) by (unfold get_op; rewrite (In_aget_NoDup Nat.eqb nat_eqb_eq _ _ _ Hndo2 Hx); reflexivity).
      destruct HO as [_ [Ht [_ Hme]]]. rewrite Ego in Ht, Hme. destruct HT as [Hto [Hti [Htd _]]]. cbv zeta in Hto, Hti, Htd.
      assert (Ecr : created = [observe_op s2 (s_nops s1) x]).
      { unfold created. rewrite Hnew, Ef. cbn [map filter]. cbn [do_mayexist observe_op]. rewrite Hme, Hm. reflexivity. }
      rewrite Ecr. cbn [existsb]. unfold dkey_of. cbn [do_instance do_digest do_taskops observe_op]. rewrite Ht, Hti, Htd, Hto, Hi, Hdg, map_length.
      assert (E1 : dkey_eqb (x_instance a, x_digest a) (x_instance a, x_digest a) = true) by (apply dkey_eqb_eq; reflexivity). rewrite E1.
      destruct (Nat.eqb (List.length (t_ops x0)) 1) eqn:E2; [apply Nat.eqb_eq in E2; lia|]. reflexivity.
    + (* a new task in the queue the router chose *)
      destruct (filter_keys_last (fun o => negb (op_alive s o)) (s_ops s2) (map fst (s_ops s1)) (s_nops s1) Kn Hold Hfresh) as [x [Ef Hx]].
      assert (Ego : get_op s2 (s_nops s1) = x) by (unfold get_op; rewrite (In_aget_NoDup Nat.eqb nat_eqb_eq _ _ _ Hndo2 Hx); reflexivity).
      destruct HO as [_ [Ht [Hiv Hme]]]. rewrite Ego in Ht, Hiv, Hme. destruct HT as [Hto [Hti [Htd [Hts _]]]]. cbv zeta in Hto, Hti, Htd, Hts.
      assert (Ecr : created = [observe_op s2 (s_nops s1) x]).
      { unfold created. rewrite Hnew, Ef. cbn [map filter]. cbn [do_mayexist observe_op]. rewrite Hme, Hm. reflexivity. }
      rewrite Ecr. cbn [existsb]. unfold dkey_of. cbn [do_instance do_digest do_taskops observe_op]. rewrite Ht, Hto, Hops. cbn [map List.length Nat.eqb negb]. rewrite andb_false_r. cbn [orb].
      rewrite andb_false_r. cbn [orb].
      rewrite longest_prefix_observe. rewrite (longest_prefix_pq_frame s1) by (change (s_pqs s') with (s_pqs s3); rewrite A4; exact Epq). rewrite Hlp. cbn [option_map].
      destruct (x_sel a) as [[[idx dur] timeout] l] eqn:Esel. cbn [fst] in Hinv. cbn [do_sk do_suffix observe_op dp_key dp_scs observe_pq].
      rewrite Hiv, Hinv. cbn [i_sk sk_pk sk_sc]. rewrite (proj2 (pkey_eqb_eq _ _) eq_refl), N.eqb_refl. cbn [negb].
      rewrite Ht, Hts, Hsuf. rewrite (proj2 (list_eqb_N_eq _ _) eq_refl). reflexivity.
Qed.

Lemma pre_ok_init : forall cfg t0, pre_ok empty_dump (init cfg t0).
Proof. intros. split; reflexivity. Qed.

Theorem monitor_exec_on_model : forall cfg t0 evs,
  selectors_in_range (init cfg t0) evs -> fresh_calls [] evs -> bg_scripts_ok evs ->
  panicked (snd (run (init cfg t0) evs)) \/ trace_sub [9%nat] cfg t0 (model_trace cfg t0 evs) = true.
Proof.
  intros cfg t0 evs Hsel Hfr Hbg.
  apply (trace_sub_generic cfg t0 [9%nat] (fun pfx _ pre => pre_ok pre (fst (run (init cfg t0) pfx)))) with (pfx := []) (m := mon0) (pre := empty_dump);
    [|split; [exact Hsel|split; assumption]|intros [o [what [[] _]]]|apply pre_ok_init].
  intros pfx eh m pre Hg Hnp HI. cbv zeta.
  split; [|rewrite run_snoc_fst; split; reflexivity]. cbn [forallb]. rewrite andb_true_r. apply String.eqb_eq.
  unfold p_components. cbv zeta. cbn [nth].
  exact (pc_exec_ok cfg t0 pfx eh pre Hg Hnp HI).
Qed.
