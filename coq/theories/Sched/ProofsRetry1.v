(* Positions 14 (e_retry) and 15 (e_early) of Spec.p_step on the model's own traces.

   HISTORY (first round, 2026-09-23).  With the p_step of that morning both positions were refuted by rw5_evs / rw6_evs below:
   the model (Model.assign, like in_memory_build_queue.go "t.retryCount = 0" in the assignment) resets t_retry at every
   assignment, while the monitor restarted m_reissue[w] only when the stored operation list shared no operation with the
   list of the task held; a task that its learner retries after a worker-reported failure keeps its operations, so the
   re-assignment to the same worker left the old count:
     0 register; 1 worker w parks; 2 Execute, learner 1 asks for one retry on failure: task 0 / operation 0 handed to w;
     3 the parked call is released: DExec                                   t_retry = 0   m_reissue[w] absent
     4 w asks again (idle): counted, told again                              t_retry = 1   m_reissue[w] = ([0], 1)
     5 w reports a failure of digest 5: accepted; the learner asks for the retry; the task is queued on the (same, largest)
       size class and handed to the very call that reported: DExec          t_retry = 0   m_reissue[w] = ([0], 1)   <- drift
     6 w asks again (idle): the model counts 0 < 1 and tells it again        t_retry = 1   monitor: 1 re-request before
       this one >= limit 1: "C06:task-reissued-beyond-retry-limit".
     7 (rw6_evs) one more re-request: the model fails the task at its limit (INTERNAL); position 15 read 2 <> 1:
       "C06:task-failed-before-retry-limit".
   (Then: k_task w = Some 0, t_retry (task 0) = 0, t_resp = None, operations [0], m_reissue[w] = ([0], 1) after six events.)
   Spec.p_step was repaired (an accepted completion report deletes m_reissue[w]); both histories are now accepted by all
   22 positions and kept here as regressions.

   SECOND ROUND.  Position 15 of that repaired p_step was refuted by rw7_evs (ProofsRetry3.v, which explains the mechanism:
   the operation list of the held task is replaced completely between two re-requests); p_step was repaired again (entries
   follow the task through every post dump) and rw7_evs is the third regression here: hypotheses, no panic, accepted. *)
From Coq Require Import Lia.
From VF Require Export Sched.ProofsMonW Sched.ProofsRetry3.
From VF Require Import Sched.Spec Sched.Corr Sched.ProofsStreams.
Open Scope Z_scope.

Definition rw5_evs : list (event * list (nat * wref)) :=
  [ (ERegister 0 (mkPK [] 0) [] 0 0 [1%N] 1, []);
    (EStartSync 1 (mkSync rw_w WIdle false) 2, []);
    (EStartExecute 2 (mkExec [] 0 5 false 0 [] (0%nat, 10, 100, Learner 1 None (Some (10, 100, Learner 2 None None)))) 3, []);
    (EEnter 1 4, []);
    (EStartSync 3 (mkSync rw_w WIdle false) 5, []);
    (EStartSync 4 (mkSync rw_w (WCompleted 5 (mkResp 2 0 9)) false) 6, []);
    (EStartSync 5 (mkSync rw_w WIdle false) 7, []) ].
Definition rw6_evs : list (event * list (nat * wref)) := rw5_evs ++ [ (EStartSync 6 (mkSync rw_w WIdle false) 8, []) ].

Definition mon_hyps (cfg : config) (t0 : Z) (evs : list (event * list (nat * wref))) : Prop :=
  selectors_in_range (init cfg t0) evs /\ fresh_calls [] evs /\ bg_scripts_ok evs /\ learner_ids_unique evs /\ causes_ok evs.

Ltac hyps_by_computation :=
  split; [apply selectors_in_rangeb_sound; vm_compute; reflexivity|]; split; [cbn; intuition congruence|];
  split; [apply bg_scripts_okb_sound; vm_compute; reflexivity|]; split; [apply learner_ids_uniqueb_sound; vm_compute; reflexivity|apply causes_okb_sound; vm_compute; reflexivity].

Lemma rw5_hypotheses : mon_hyps rw3_cfg 0 rw5_evs.
Proof. hyps_by_computation. Qed.
Lemma rw6_hypotheses : mon_hyps rw3_cfg 0 rw6_evs.
Proof. hyps_by_computation. Qed.
Lemma rw7_hypotheses : mon_hyps rw7_cfg 0 rw7_evs.
Proof. hyps_by_computation. Qed.

Lemma rw6_outputs : snd (run (init rw3_cfg 0) rw6_evs) =
  [[ORet 0 0]; []; [OGhost GSelect; OMsg 2 0 3 None]; [OSync 1 (DExec 5 false 100 3 []) 14];
   [OSync 3 (DExec 5 false 100 3 []) 15];
   [OGhost (GFailed 1 false); OSync 4 (DExec 5 false 100 3 []) 16];
   [OSync 5 (DExec 5 false 100 3 []) 17];
   [OGhost (GAbandoned 2)]].
Proof. vm_compute. reflexivity. Qed.

Lemma no_panic_in : forall os : list (list obs),
  forallb (forallb (fun x => match x with OPanic _ => false | _ => true end)) os = true -> ~ panicked os.
Proof.
  intros os H [o [what [Ho Hw]]]. rewrite forallb_forall in H. specialize (H _ Ho). rewrite forallb_forall in H. specialize (H _ Hw). discriminate.
Qed.
Lemma rw6_no_panic : ~ panicked (snd (run (init rw3_cfg 0) rw6_evs)).
Proof. rewrite rw6_outputs. apply no_panic_in. reflexivity. Qed.
Lemma rw7_no_panic : ~ panicked (snd (run (init rw7_cfg 0) rw7_evs)).
Proof. rewrite rw7_outputs. apply no_panic_in. reflexivity. Qed.

(* regressions: the repaired p_step accepts both histories of the first round, all 22 positions *)
Lemma rw5_accepted : trace_ok rw3_cfg 0 (model_trace rw3_cfg 0 rw5_evs) = true.
Proof. vm_compute. reflexivity. Qed.
Lemma rw6_accepted : trace_ok rw3_cfg 0 (model_trace rw3_cfg 0 rw6_evs) = true.
Proof. vm_compute. reflexivity. Qed.

(* what one position of the monitor says at every step of a trace *)
Fixpoint trace_comp_from (i : nat) (cfg : config) (t0 : Z) (m : mon) (pre : dump) (tr : list (event * list obs * dump)) : list string :=
  match tr with
  | [] => []
  | (e, o, d) :: tl => nth i (p_components cfg t0 m pre e o d) ""%string :: trace_comp_from i cfg t0 (pm_final cfg pre d e o m) d tl
  end.
Definition trace_comp (i : nat) (cfg : config) (t0 : Z) tr : list string := trace_comp_from i cfg t0 mon0 empty_dump tr.

Lemma trace_sub_one : forall i cfg t0 tr m pre,
  trace_sub_from [i] cfg t0 m pre tr = forallb (fun x => String.eqb x "") (trace_comp_from i cfg t0 m pre tr).
Proof.
  intros i cfg t0. induction tr as [|[[e o] d] tl IH]; intros m pre; cbn [trace_sub_from trace_comp_from forallb]; [reflexivity|].
  rewrite IH, andb_true_r. reflexivity.
Qed.

(* ---- second round: rw7_evs is accepted too; the entry now agrees with the model's counter ------------------------------------------------ *)
Lemma rw7_accepted : trace_ok rw7_cfg 0 (model_trace rw7_cfg 0 rw7_evs) = true.
Proof. vm_compute. reflexivity. Qed.
Lemma rw7_entry :
  aget wref_eqb rw7_w (m_reissue (fst (fold_left (fun (acc : mon * dump) x => let '(m, pre) := acc in let '(e, o, d) := x in (pm_final rw7_cfg pre d e o m, d))
                                                  (model_trace rw7_cfg 0 (firstn 10 rw7_evs)) (mon0, empty_dump)))) = Some ([1%nat], 2%nat).
Proof. vm_compute. reflexivity. Qed.
