(* Positions 14 (e_retry) and 15 (e_early) of Spec.p_step on the model's own traces: REFUTED.

   The statement asked for,
     forall cfg t0 evs, selectors_in_range (init cfg t0) evs -> fresh_calls [] evs -> bg_scripts_ok evs ->
       learner_ids_unique evs -> causes_ok evs ->
       panicked (snd (run (init cfg t0) evs)) \/ trace_sub [14] cfg t0 (model_trace cfg t0 evs) = true      (same with [15])
   is false of the model.  The simulation invariant the proof needs -- for a worker w that holds the uncompleted task T,
   an entry m_reissue[w] = (ops, n) that shares an operation with T has n = t_retry T -- is broken by a RE-ASSIGNMENT OF
   THE SAME TASK TO THE SAME WORKER after an accepted failure report:

     the model (Model.assign, like in_memory_build_queue.go "t.retryCount = 0" in the assignment) resets t_retry at every
     assignment; the monitor of the final p_step (rereq / retry_step) restarts its count only when the stored operation list
     shares no operation with the list of the task held -- and a task that is retried after a failure keeps its operations.
     The rule of an earlier p_step that covered this (an accepted completion report clears m_reissue[w], "pm_clear") was
     lost when the bookkeeping was rewritten to count re-requests.

   rw5_evs (7 events, retry count 1, one size class; rw_evs of ProofsMonW.v with one re-request before the failure report and
   one after the re-assignment):
     0 register; 1 worker w parks; 2 Execute, learner 1 asks for one retry on failure: task 0 / operation 0 handed to w;
     3 the parked call is released: DExec                                   t_retry = 0   m_reissue[w] absent
     4 w asks again (idle): counted, told again                              t_retry = 1   m_reissue[w] = ([0], 1)
     5 w reports a failure of digest 5: accepted; the learner asks for the retry; the task is queued on the (same, largest)
       size class and handed to the very call that reported: DExec          t_retry = 0   m_reissue[w] = ([0], 1)   <- drift
     6 w asks again (idle): the model counts 0 < 1 and tells it again        t_retry = 1   monitor: 1 re-request before
       this one >= limit 1: "C06:task-reissued-beyond-retry-limit".
   rw6_evs = rw5_evs + one more re-request: the model has reached the limit and fails the task with INTERNAL; position 15
   reads the drifted count 2 <> 1: "C06:task-failed-before-retry-limit".
   Both histories satisfy every hypothesis of monitor_components_on_model and report no panic; on rw5_evs the other 21
   positions accept every step.

   Second part of the file: the retry bookkeeping in isolation ([rb_run]: only rereq / retry_step / pc_early of ProofsMon1.v
   over m_reissue; checked against p_components on the histories) with the candidate repair "a Synchronize event whose
   completion report names the task the worker holds (rereq = None, state WCompleted) deletes m_reissue[w]": all six retry
   histories (rw, rw2, rw3, rw4, rw5, rw6) are accepted.  This is evidence for the repair, not a proof. *)
From Coq Require Import Lia.
From VF Require Export Sched.ProofsMonW.
From VF Require Import Sched.Spec Sched.Corr Sched.ProofsStreams.
Open Scope Z_scope.

(* ---- the witnesses ------------------------------------------------------------------------------------------------------------------------------------- *)
Definition rw5_evs : list (event * list (nat * wref)) :=
  [ (ERegister 0 (mkPK [] 0) [] 0 0 [1%N] 1, []);
    (EStartSync 1 (mkSync rw_w WIdle false) 2, []);
    (EStartExecute 2 (mkExec [] 0 5 false 0 [] (0%nat, 10, 100, Learner 1 None (Some (10, 100, Learner 2 None None)))) 3, []);
    (EEnter 1 4, []);
    (EStartSync 3 (mkSync rw_w WIdle false) 5, []);
    (EStartSync 4 (mkSync rw_w (WCompleted 5 (mkResp 2 0 9)) false) 6, []);
    (EStartSync 5 (mkSync rw_w WIdle false) 7, []) ].
Definition rw6_evs : list (event * list (nat * wref)) := rw5_evs ++ [ (EStartSync 6 (mkSync rw_w WIdle false) 8, []) ].

Definition mon_hyps (cfg : config) (t0 : Z) (evs : list (event * list (nat * wref))) : Prop :=
  selectors_in_range (init cfg t0) evs /\ fresh_calls [] evs /\ bg_scripts_ok evs /\ learner_ids_unique evs /\ causes_ok evs.

Lemma rw5_hypotheses : mon_hyps rw3_cfg 0 rw5_evs.
Proof.
  split; [apply selectors_in_rangeb_sound; vm_compute; reflexivity|]. split; [cbn; intuition congruence|].
  split; [apply bg_scripts_okb_sound; vm_compute; reflexivity|]. split; [apply learner_ids_uniqueb_sound; vm_compute; reflexivity|apply causes_okb_sound; vm_compute; reflexivity].
Qed.
Lemma rw6_hypotheses : mon_hyps rw3_cfg 0 rw6_evs.
Proof.
  split; [apply selectors_in_rangeb_sound; vm_compute; reflexivity|]. split; [cbn; intuition congruence|].
  split; [apply bg_scripts_okb_sound; vm_compute; reflexivity|]. split; [apply learner_ids_uniqueb_sound; vm_compute; reflexivity|apply causes_okb_sound; vm_compute; reflexivity].
Qed.

Lemma rw5_outputs : snd (run (init rw3_cfg 0) rw5_evs) =
  [[ORet 0 0]; []; [OGhost GSelect; OMsg 2 0 3 None]; [OSync 1 (DExec 5 false 100 3 []) 14];
   [OSync 3 (DExec 5 false 100 3 []) 15];
   [OGhost (GFailed 1 false); OSync 4 (DExec 5 false 100 3 []) 16];
   [OSync 5 (DExec 5 false 100 3 []) 17]].
Proof. vm_compute. reflexivity. Qed.
Lemma rw6_outputs : snd (run (init rw3_cfg 0) rw6_evs) =
  [[ORet 0 0]; []; [OGhost GSelect; OMsg 2 0 3 None]; [OSync 1 (DExec 5 false 100 3 []) 14];
   [OSync 3 (DExec 5 false 100 3 []) 15];
   [OGhost (GFailed 1 false); OSync 4 (DExec 5 false 100 3 []) 16];
   [OSync 5 (DExec 5 false 100 3 []) 17];
   [OGhost (GAbandoned 2)]].
Proof. vm_compute. reflexivity. Qed.

Lemma no_panic_in : forall os : list (list obs),
  forallb (forallb (fun x => match x with OPanic _ => false | _ => true end)) os = true -> ~ panicked os.
Proof.
  intros os H [o [what [Ho Hw]]]. rewrite forallb_forall in H. specialize (H _ Ho). rewrite forallb_forall in H. specialize (H _ Hw). discriminate.
Qed.
Lemma rw5_no_panic : ~ panicked (snd (run (init rw3_cfg 0) rw5_evs)).
Proof. rewrite rw5_outputs. apply no_panic_in. reflexivity. Qed.
Lemma rw6_no_panic : ~ panicked (snd (run (init rw3_cfg 0) rw6_evs)).
Proof. rewrite rw6_outputs. apply no_panic_in. reflexivity. Qed.

(* what one position of the monitor says at every step of a trace *)
Fixpoint trace_comp_from (i : nat) (cfg : config) (t0 : Z) (m : mon) (pre : dump) (tr : list (event * list obs * dump)) : list string :=
  match tr with
  | [] => []
  | (e, o, d) :: tl => nth i (p_components cfg t0 m pre e o d) ""%string :: trace_comp_from i cfg t0 (pm_final cfg pre d e o m) d tl
  end.
Definition trace_comp (i : nat) (cfg : config) (t0 : Z) tr : list string := trace_comp_from i cfg t0 mon0 empty_dump tr.

Lemma trace_sub_one : forall i cfg t0 tr m pre,
  trace_sub_from [i] cfg t0 m pre tr = forallb (fun x => String.eqb x "") (trace_comp_from i cfg t0 m pre tr).
Proof.
  intros i cfg t0. induction tr as [|[[e o] d] tl IH]; intros m pre; cbn [trace_sub_from trace_comp_from forallb]; [reflexivity|].
  rewrite IH, andb_true_r. reflexivity.
Qed.

Lemma rw5_retry_says : trace_comp 14 rw3_cfg 0 (model_trace rw3_cfg 0 rw5_evs) =
  [""; ""; ""; ""; ""; ""; "C06:task-reissued-beyond-retry-limit"]%string.
Proof. vm_compute. reflexivity. Qed.
Lemma rw5_rejected : trace_sub [14%nat] rw3_cfg 0 (model_trace rw3_cfg 0 rw5_evs) = false.
Proof. vm_compute. reflexivity. Qed.
(* nothing else complains about rw5_evs: the rejection is position 14's alone *)
Lemma rw5_others_accept : trace_sub (seq 0 14 ++ seq 15 7) rw3_cfg 0 (model_trace rw3_cfg 0 rw5_evs) = true.
Proof. vm_compute. reflexivity. Qed.
(* the drift: after event 5 the model's task 0 is held by the worker with t_retry = 0, the monitor stores ([0], 1) *)
Lemma rw5_drift :
  let s := fst (run (init rw3_cfg 0) (firstn 6 rw5_evs)) in
  k_task (get_worker s rw_w) = Some 0%nat /\ t_retry (get_task s 0%nat) = 0%nat /\ t_resp (get_task s 0%nat) = None /\ task_opids s 0%nat = [0%nat] /\
  aget wref_eqb rw_w (m_reissue (fst (fold_left (fun (acc : mon * dump) x => let '(m, pre) := acc in let '(e, o, d) := x in (pm_final rw3_cfg pre d e o m, d))
                                                  (model_trace rw3_cfg 0 (firstn 6 rw5_evs)) (mon0, empty_dump)))) = Some ([0%nat], 1%nat).
Proof. vm_compute. repeat split; reflexivity. Qed.

Lemma rw6_early_says : trace_comp 15 rw3_cfg 0 (model_trace rw3_cfg 0 rw6_evs) =
  [""; ""; ""; ""; ""; ""; ""; "C06:task-failed-before-retry-limit"]%string.
Proof. vm_compute. reflexivity. Qed.
Lemma rw6_rejected : trace_sub [15%nat] rw3_cfg 0 (model_trace rw3_cfg 0 rw6_evs) = false.
Proof. vm_compute. reflexivity. Qed.

(* ---- the refutations ---------------------------------------------------------------------------------------------------------------------------------- *)
Lemma monitor_retry_on_model_refuted :
  exists cfg t0 evs, mon_hyps cfg t0 evs /\ ~ panicked (snd (run (init cfg t0) evs)) /\ trace_sub [14%nat] cfg t0 (model_trace cfg t0 evs) = false.
Proof. exists rw3_cfg, 0, rw5_evs. exact (conj rw5_hypotheses (conj rw5_no_panic rw5_rejected)). Qed.
Lemma monitor_early_on_model_refuted :
  exists cfg t0 evs, mon_hyps cfg t0 evs /\ ~ panicked (snd (run (init cfg t0) evs)) /\ trace_sub [15%nat] cfg t0 (model_trace cfg t0 evs) = false.
Proof. exists rw3_cfg, 0, rw6_evs. exact (conj rw6_hypotheses (conj rw6_no_panic rw6_rejected)). Qed.

(* in the shape of the theorem that was asked for: it does not hold *)
Lemma monitor_retry_on_model_false :
  ~ (forall cfg t0 evs, selectors_in_range (init cfg t0) evs -> fresh_calls [] evs -> bg_scripts_ok evs -> learner_ids_unique evs -> causes_ok evs ->
       panicked (snd (run (init cfg t0) evs)) \/ trace_sub [14%nat] cfg t0 (model_trace cfg t0 evs) = true).
Proof.
  intro H. destruct rw5_hypotheses as [A [B [C [D E]]]]. destruct (H rw3_cfg 0 rw5_evs A B C D E) as [Hp|Ht]; [exact (rw5_no_panic Hp)|].
  rewrite rw5_rejected in Ht. discriminate.
Qed.
Lemma monitor_early_on_model_false :
  ~ (forall cfg t0 evs, selectors_in_range (init cfg t0) evs -> fresh_calls [] evs -> bg_scripts_ok evs -> learner_ids_unique evs -> causes_ok evs ->
       panicked (snd (run (init cfg t0) evs)) \/ trace_sub [15%nat] cfg t0 (model_trace cfg t0 evs) = true).
Proof.
  intro H. destruct rw6_hypotheses as [A [B [C [D E]]]]. destruct (H rw3_cfg 0 rw6_evs A B C D E) as [Hp|Ht]; [exact (rw6_no_panic Hp)|].
  rewrite rw6_rejected in Ht. discriminate.
Qed.

(* ---- the retry bookkeeping in isolation, and a candidate repair ------------------------------------------------------------------------------ *)
(* positions 14 and 15 read and write only m_reissue: run rereq / retry_step / pc_early alone.  [clear]: the candidate
   repair -- a Synchronize event whose completion report names the task the worker holds deletes the worker's entry *)
Definition rb_step (clear : bool) (cfg : config) (m : mon) (pre : dump) (e : event) (o : list obs) (post : dump) : mon * (string * string) :=
  let rr := rereq pre e m in
  let m1 := fst (retry_step cfg post e o rr m) in
  let m2 := match rr, e with
            | None, EStartSync _ a _ =>
              match y_state a with
              | WCompleted _ _ => if clear then m1 <| m_reissue := adel wref_eqb (y_worker a) (m_reissue m1) |> else m1
              | _ => m1
              end
            | _, _ => m1
            end in
  (m2, (snd (retry_step cfg post e o rr m), pc_early cfg pre post rr)).
Fixpoint rb_run (clear : bool) (cfg : config) (m : mon) (pre : dump) (tr : list (event * list obs * dump)) : list (string * string) :=
  match tr with
  | [] => []
  | (e, o, d) :: tl => snd (rb_step clear cfg m pre e o d) :: rb_run clear cfg (fst (rb_step clear cfg m pre e o d)) d tl
  end.
Definition rb_accepts (clear : bool) (cfg : config) (t0 : Z) (evs : list (event * list (nat * wref))) : bool :=
  forallb (fun x => String.eqb (fst x) "" && String.eqb (snd x) "") (rb_run clear cfg mon0 empty_dump (model_trace cfg t0 evs)).

(* without the repair the isolated bookkeeping says what positions 14 and 15 of p_components say *)
Lemma rb_faithful_on_witnesses :
  rb_run false rw3_cfg mon0 empty_dump (model_trace rw3_cfg 0 rw6_evs) =
  combine (trace_comp 14 rw3_cfg 0 (model_trace rw3_cfg 0 rw6_evs)) (trace_comp 15 rw3_cfg 0 (model_trace rw3_cfg 0 rw6_evs)) /\
  rb_run false rw3_cfg mon0 empty_dump (model_trace rw3_cfg 0 rw4_evs) =
  combine (trace_comp 14 rw3_cfg 0 (model_trace rw3_cfg 0 rw4_evs)) (trace_comp 15 rw3_cfg 0 (model_trace rw3_cfg 0 rw4_evs)) /\
  rb_run false rw3_cfg mon0 empty_dump (model_trace rw3_cfg 0 rw3_evs) =
  combine (trace_comp 14 rw3_cfg 0 (model_trace rw3_cfg 0 rw3_evs)) (trace_comp 15 rw3_cfg 0 (model_trace rw3_cfg 0 rw3_evs)) /\
  rb_run false rw_cfg mon0 empty_dump (model_trace rw_cfg 0 rw_evs2) =
  combine (trace_comp 14 rw_cfg 0 (model_trace rw_cfg 0 rw_evs2)) (trace_comp 15 rw_cfg 0 (model_trace rw_cfg 0 rw_evs2)).
Proof. vm_compute. repeat split; reflexivity. Qed.

Lemma rb_unrepaired_rejects : rb_accepts false rw3_cfg 0 rw5_evs = false /\ rb_accepts false rw3_cfg 0 rw6_evs = false.
Proof. vm_compute. split; reflexivity. Qed.

(* with the repair every retry history is accepted: the three regressions of PropertiesC06.v and the two new witnesses *)
Lemma rb_repaired_accepts :
  rb_accepts true rw_cfg 0 rw_evs = true /\ rb_accepts true rw_cfg 0 rw_evs2 = true /\
  rb_accepts true rw3_cfg 0 rw3_evs = true /\ rb_accepts true rw3_cfg 0 rw4_evs = true /\
  rb_accepts true rw3_cfg 0 rw5_evs = true /\ rb_accepts true rw3_cfg 0 rw6_evs = true.
Proof. vm_compute. repeat split; reflexivity. Qed.
