(* C01, completeness layer: task.complete. *)
From Coq Require Import Lia.
From VF Require Export Sched.ProofsFull4.
From VF Require Import Sched.ProofsLearner.
Open Scope Z_scope.

(* ---- invocations created by getOrCreateInvocation exist ------------------------------------------------------------ *)
Lemma prefixes_from_last : forall rest acc, rest <> [] -> In (acc ++ rest) (prefixes_from acc rest).
Proof.
  induction rest as [|k tl IH]; intros acc Hne; [congruence|]. cbn. destruct tl as [|k' tl'].
  - left. reflexivity.
  - right. replace (acc ++ k :: k' :: tl') with ((acc ++ [k]) ++ k' :: tl') by (rewrite <- app_assoc; reflexivity). apply IH. discriminate.
Qed.

Lemma goc_exists : forall k p s,
  (forall i, inv_exists s i = true -> inv_exists (get_or_create_invocation k p s) i = true) /\
  (p <> [] -> inv_exists (get_or_create_invocation k p s) (mkI k p) = true).
Proof.
  intros k p s. unfold get_or_create_invocation.
  assert (Hgen : forall l a, (forall i, inv_exists a i = true -> inv_exists (fold_left (fun s pp => if inv_exists s (mkI k pp) then s else s <| s_invs ::= fun l => l ++ [(mkI k pp, new_inv (s_now s))] |>) l a) i = true) /\
                             (forall pp, In pp l -> inv_exists (fold_left (fun s pp => if inv_exists s (mkI k pp) then s else s <| s_invs ::= fun l => l ++ [(mkI k pp, new_inv (s_now s))] |>) l a) (mkI k pp) = true)).
  { induction l as [|pp l IH]; intro a; cbn [fold_left]; [split; [auto|intros pp []]|].
    set (a1 := if inv_exists a (mkI k pp) then a else a <| s_invs ::= fun l0 => l0 ++ [(mkI k pp, new_inv (s_now a))] |>).
    assert (Hmono : forall i, inv_exists a i = true -> inv_exists a1 i = true).
    { intros i Hi. unfold a1. destruct (inv_exists a (mkI k pp)); [exact Hi|]. unfold inv_exists in *. cbn. rewrite (aget_app iref_eqb).
      destruct (aget iref_eqb i (s_invs a)); [reflexivity|discriminate]. }
    assert (Hnew : inv_exists a1 (mkI k pp) = true).
    { unfold a1. destruct (inv_exists a (mkI k pp)) eqn:E; [exact E|]. unfold inv_exists in *. cbn. rewrite (aget_app iref_eqb).
      destruct (aget iref_eqb (mkI k pp) (s_invs a)); [reflexivity|]. cbn. rewrite iref_eqb_refl. reflexivity. }
    destruct (IH a1) as [I1 I2]. split; [intros i Hi; apply I1; apply Hmono; exact Hi|].
    intros pp' [<-|Hin]; [apply I1; exact Hnew|apply I2; exact Hin]. }
  destruct (Hgen (prefixes_from [] p) s) as [G1 G2]. split; [exact G1|]. intros Hne. apply G2.
  exact (prefixes_from_last p [] Hne).
Qed.

Lemma goc_scq_exists : forall k p s k', scq_exists (get_or_create_invocation k p s) k' = scq_exists s k'.
Proof.
  intros k p s k'. unfold get_or_create_invocation. generalize (prefixes_from [] p). intro l. revert s.
  induction l as [|pp l IH]; intro s; cbn [fold_left]; [reflexivity|]. rewrite IH. destruct (inv_exists s (mkI k pp)); reflexivity.
Qed.

Lemma root_exists : forall s k, St s -> scq_exists s k = true -> inv_exists s (mkI k []) = true.
Proof. intros s k [_ [_ [_ [H _]]]] He. rewrite H. exact He. Qed.

(* ---- the bundle through task.complete -------------------------------------------------------------------------------- *)
Definition CN (ext L : list nat) (t : nat) (wo : option wref) (ro : option resp) (uq : bool) (s : state) : Prop :=
  SW s /\ WL L s /\ NX ext s /\ Lc t wo ro uq s.

Lemma CN_CT : forall ext L t wo ro uq s, CN ext L t wo ro uq s -> CT ext L t wo ro uq s.
Proof. intros ext L t wo ro uq s [A [B [C D]]]. split; [exact A|]. split; [exact B|]. split; [exact (NX_XS _ _ C)|exact D]. Qed.

Ltac cn_go := split; [sw_go2 | split; [w_go2 | split; [nx_go1 | lc_go1]]].

Lemma CN_detach : forall t (b : bool) s,
  t_resp (get_task s t) = None -> CN [] [t] t (t_worker (get_task s t)) None (match t_worker (get_task s t) with Some _ => true | None => false end) s ->
  let k := task_scq s t in
  let s1 := match t_worker (get_task s t) with
            | None => assign_queued (phantom_worker k) t 0 s
            | Some w => if b then set_last_invocation w (lowest_common (task_invs s t)) s else set_last_invocation w [] s
            end in
  let w := match t_worker (get_task s1 t) with Some w => w | None => phantom_worker k end in
  let s2 := fold_left (fun s i => decrement_executing i w s) (task_invs s1 t) s1 in
  CN [t] [t] t None None true (upd_task t (fun x => x <| t_worker := None |>) (upd_worker w (fun k => k <| k_task := None |>) s2)).
Proof.
  intros t b s Er H k s1 w s2. destruct H as [HSW [HWL [HNX HLc]]].
  assert (HNX0 : NX [t] s) by (apply NX_weaken; exact HNX). clear HNX.
  assert (H1 : exists w1, CN [t] [t] t (Some w1) None true s1).
  { unfold s1. destruct (t_worker (get_task s t)) as [w0|] eqn:Ew.
    - exists w0. destruct b; cn_go.
    - exists (phantom_worker k).
      assert (Hkw : k_wait (get_worker s (phantom_worker k)) = false)
        by (rewrite (NPh_dummy s _ (XS_NPh _ _ (NX_XS _ _ HNX0)) (phantom_is_phantom k)); reflexivity).
      destruct (XS_Lc_assign_queued [t] t false (phantom_worker k) 0 s (or_introl eq_refl) (NX_XS _ _ HNX0) HLc) as [HA HB]; [discriminate|exact Hkw|].
      destruct HB as [HB|[HB _]]; [|discriminate].
      split; [sw_go2|]. split; [w_go2|]. split; [|exact HB].
      apply NX_assign_queued; [left; reflexivity|exact Hkw| |discriminate| |exact HNX0].
      + intros i o Hin. cbn [w_sk phantom_worker]. unfold k. symmetry. eapply task_scq_first; [exact (NX_TK _ _ HNX0)|exact Hin].
      + intros o Ho. unfold task_opids in Ho. apply in_map_iff in Ho. destruct Ho as [[i o'] [E Ho]]. cbn in E. subst o'.
        destruct (LcO2 _ _ _ _ _ HLc i o Ho) as [_ [Ht _]]. exact Ht. }
  destruct H1 as [w1 [HSW1 [HWL1 [HNX1 HLc1]]]]. clearbody s1. clear HSW HWL HNX0 HLc.
  assert (Ew : w = w1) by (unfold w; rewrite (LcW _ _ _ _ _ HLc1); reflexivity). clearbody w. subst w.
  assert (H2 : CN [t] [t] t (Some w1) None true s2) by (unfold s2; cn_go).
  clearbody s2. clear HSW1 HWL1 HNX1 HLc1. destruct H2 as [HSW2 [HWL2 [HNX2 HLc2]]].
  split; [sw_go2|]. split; [w_go2|]. split; [|apply Lc_unassign_pair; exact HLc2].
  assert (H3 : NX [t] (upd_worker w1 (fun k => k <| k_task := None |>) s2)).
  { destruct HNX2 as [A [B C]]. split; [|split; [t_TK|t_CM]].
    apply XS_unassign_prim; [|exact A]. intros t0 Hk. left.
    destruct (is_phantom w1) eqn:Ep.
    - rewrite (NPh_dummy s2 _ (XS_NPh _ _ A) Ep) in Hk. discriminate.
    - destruct (LcA _ _ _ _ _ HLc2 w1 eq_refl Ep) as [_ Hk']. congruence. }
  set (s3 := upd_worker w1 _ s2) in *. clearbody s3. clear HNX2. nx_go1.
Qed.

Lemma CN_final' : forall t r x p k s,
  CN [t] [t] t None None true s -> CN [t] [t] t None (Some r) true (ct_tail t r x p k s None).
Proof.
  intros t r x p k s H. unfold ct_tail. cbv zeta.
  set (s6 := match aget dkey_eqb (t_instance x, t_digest x) (s_inflight s) with Some t' => _ | None => s end).
  assert (H6 : CN [t] [t] t None None true s6).
  { destruct H as [HSW [HWL [HNX HLc]]]. unfold s6. destruct (aget dkey_eqb _ _); [|split; auto]. destruct (Nat.eqb t _); [|split; auto].
    split; [sw_go2|]. split; [w_go2|]. split; [|lc_go1]. destruct HNX as [A [B C]]. split; [t_XS|]. split; [t_TK|t_CM]. }
  clearbody s6. clear H. destruct H6 as [HSW [HWL [HNX HLc]]].
  set (s7 := upd_task t _ s6).
  assert (H7 : CN [t] [t] t None (Some r) true s7).
  { unfold s7. split; [sw_go2|]. split; [w_go2|]. split; [nx_go1|apply Lc_resp; exact HLc]. }
  clearbody s7. clear HSW HWL HNX HLc. destruct H7 as [HSW [HWL [HNX HLc]]].
  cn_go.
Qed.

Lemma CN_drop : forall ext L t wo ro uq s,
  XS ext s -> (Pan s \/ ~ idle_live s t) -> CN (t :: ext) L t wo ro uq s -> NX ext s.
Proof.
  intros ext L t wo ro uq s HX Hd [_ [_ [HNX _]]]. apply (NX_drop ext t); [exact HX| |exact HNX].
  destruct Hd as [Hp|Hn]; [left; exact Hp|right; intro Hi; contradiction].
Qed.

Lemma NX_final : forall t r x p k s,
  CN [t] [t] t None None true s -> NX [] (ct_tail t r x p k s None).
Proof.
  intros t r x p k s H. pose proof (CN_final' t r x p k s H) as H'.
  apply (CN_drop [] [t] t None (Some r) true); [apply CT_final; apply CN_CT; exact H| |exact H'].
  right. destruct H' as [_ [_ [_ HL]]]. intros [_ E]. rewrite (LcR _ _ _ _ _ HL) in E. discriminate.
Qed.

Lemma retarget_fold_invs : forall lk l s i, inv_exists (retarget_fold lk l s) i = inv_exists s i.
Proof.
  intros lk l. induction l as [|[i0 o] l IH]; intros s i; cbn [retarget_fold fold_left]; [reflexivity|].
  fold (retarget_fold lk l (upd_op o (fun y => y <| o_inv := mkI lk (i_path i0) |>) s)). rewrite IH.
  apply inv_exists_frame. rewrite upd_op_eq. reflexivity.
Qed.

Lemma goc_fold_exists : forall lk (l : list (iref * nat)) s,
  St s -> scq_exists s lk = true ->
  let s' := fold_left (fun s '(i, _) => get_or_create_invocation lk (i_path i) s) l s in
  (forall i, inv_exists s i = true -> inv_exists s' i = true) /\
  (forall i o, In (i, o) l -> inv_exists s' (mkI lk (i_path i)) = true).
Proof.
  intros lk l. induction l as [|[i0 o0] l IH]; intros s HS He; cbn [fold_left]; [split; [auto|intros i o []]|].
  destruct (goc_exists lk (i_path i0) s) as [G1 G2].
  assert (HS1 : St (get_or_create_invocation lk (i_path i0) s)) by (apply St_get_or_create_invocation; exact HS).
  assert (He1 : scq_exists (get_or_create_invocation lk (i_path i0) s) lk = true) by (rewrite goc_scq_exists; exact He).
  destruct (IH _ HS1 He1) as [I1 I2]. cbv zeta in *. split; [intros i Hi; apply I1; apply G1; exact Hi|].
  intros i o [Heq|Hin]; [|eapply I2; exact Hin]. inversion Heq; subst. apply I1.
  destruct (i_path i) eqn:Ep; [apply root_exists; assumption|apply G2; discriminate].
Qed.

Lemma NX_goc_fold : forall ext lk (l : list (iref * nat)) s,
  scq_exists s lk = true -> NX ext s -> NX ext (fold_left (fun s '(i, _) => get_or_create_invocation lk (i_path i) s) l s).
Proof.
  intros ext lk l. induction l as [|[i0 o0] l IH]; intros s Hlk H; cbn [fold_left]; [exact H|].
  apply IH; [rewrite goc_scq_exists; exact Hlk|apply NX_get_or_create_invocation; assumption].
Qed.

Lemma CN_retry : forall t r x p k s d tm,
  scq_exists s (mkSK (sk_pk k) (largest_sc p)) = true ->
  CN [t] [t] t None None true s -> NX [] (ct_tail t r x p k s (Some (d, tm))).
Proof.
  intros t r x p k s d tm Hlk H. pose proof (CT_retry t r x p k s d tm (CN_CT _ _ _ _ _ _ _ H)) as HXfinal.
  unfold ct_tail in *. cbv zeta in *.
  set (lk := mkSK (sk_pk k) (largest_sc p)) in *.
  set (old := t_ops (get_task s t)) in *.
  set (s6 := fold_left _ old s) in *.
  assert (Eold : old = t_ops (get_task s6 t)).
  { unfold old, s6. symmetry. f_equal. apply get_task_frame. apply goc_fold_tasks. }
  destruct (goc_fold_exists lk old s (XS_St _ _ (NX_XS _ _ (proj1 (proj2 (proj2 H))))) Hlk) as [_ HIE6]. fold s6 in HIE6. cbv zeta in HIE6.
  assert (H6 : CN [t] [t] t None None true s6).
  { destruct H as [HSW [HWL [HNX HLc]]]. unfold s6. split; [sw_go2|]. split; [w_go2|]. split; [apply NX_goc_fold; assumption|lc_go1]. }
  clearbody s6. clear H. clearbody old. subst old. destruct H6 as [HSW [HWL [HNX HLc]]].
  set (s7 := upd_task t _ s6) in *.
  fold (retarget_fold lk (t_ops (get_task s6 t)) s7) in *.
  set (s8 := retarget_fold lk (t_ops (get_task s6 t)) s7) in *.
  assert (H8 : CN [t] [t] t None None true s8).
  { split; [unfold s8, s7, retarget_fold; sw_go2|]. split; [unfold s8, s7, retarget_fold; w_go2|].
    split; [|apply Lc_retry_block; [exact (XS_XN _ _ (NX_XS _ _ HNX))|exact HLc]].
    assert (H7 : NX [t] s7).
    { unfold s7. destruct HNX as [A [B C]]. split; [|split; [|t_CM]].
      - destruct A as [A1 [B1 [C1 [N1 [T1 D1]]]]]. split; [t_St|]. split; [t_ON|]. split; [t_NPh|].
        split; [|split; [t_OT|apply X_upd_task_ext; [left; reflexivity|exact D1]]].
        apply XN_upd_task; [|exact N1]. cbn. rewrite map_snd_retarget. apply N1.
      - apply TK_upd_task; [|exact B]. apply tk_retry. exact (LcW _ _ _ _ _ HLc). }
    (* re-targeting the operations one by one *)
    assert (Hgen : forall l a, NX [t] a -> (forall i o, In (i, o) l -> In (tsk a o) [t] /\ forall j, ~ In o (v_qops (get_inv a j))) -> NX [t] (retarget_fold lk l a)).
    { induction l as [|[i0 o0] l IH]; intros a Ha Hl; cbn [retarget_fold fold_left]; [exact Ha|].
      fold (retarget_fold lk l (upd_op o0 (fun y => y <| o_inv := mkI lk (i_path i0) |>) a)).
      destruct (Hl i0 o0 (or_introl eq_refl)) as [Hin Hnq].
      apply IH.
      - destruct Ha as [A [B C]]. split; [|split; [t_TK|]].
        + destruct A as [A1 [B1 [C1 [N1 [T1 D1]]]]]. split; [t_St|]. split; [t_ON|]. split; [t_NPh|]. split; [t_XN|]. split; [t_OT|].
          apply X_upd_op_inv_ext; assumption.
        + destruct C as [Hp|[HC HM]]; [left; t_pan|right]. split; [apply CQ_upd_op_ext; [exact Hin|intros; reflexivity|exact HC]|t_MI].
      - intros i' o' Hin'. destruct (Hl i' o' (or_intror Hin')) as [H1 H2]. split.
        + unfold tsk. rewrite get_op_upd_op. destruct (Nat.eqb o' o0 && op_alive a o0) eqn:E; [|exact H1].
          apply andb_true_iff in E. destruct E as [E _]. apply Nat.eqb_eq in E. subst. exact H1.
        + intros j. rewrite (get_inv_frame a) by (rewrite upd_op_eq; reflexivity). apply H2. }
    apply Hgen; [exact H7|]. intros i o Hin. destruct (LcO2 _ _ _ _ _ HLc i o Hin) as [Ha [Ht _]].
    change (tsk s7 o) with (tsk s6 o). rewrite Ht. split; [left; reflexivity|].
    intros j Hq. change (get_inv s7 j) with (get_inv s6 j) in Hq. unfold get_inv in Hq.
    destruct (aget iref_eqb j (s_invs s6)) as [v|] eqn:E; [|destruct Hq].
    apply (aget_In iref_eqb iref_eqb_eq) in E. exact (LcU _ _ _ _ _ HLc eq_refl o j v Ha Ht E Hq). }
  assert (HIE8 : forall i o, In (i, o) (t_ops (get_task s8 t)) -> inv_exists s8 i = true).
  { intros i o Hin. unfold s8 in *. rewrite retarget_fold_invs. change (inv_exists s7 i) with (inv_exists s6 i).
    destruct (retarget_reads lk (t_ops (get_task s6 t)) s7 (XS_XN _ _ (NX_XS _ _ HNX) t)) as [R1 _].
    rewrite (get_task_frame _ _ _ R1) in Hin. unfold s7 in Hin. rewrite get_task_upd_task, Nat.eqb_refl in Hin. cbn in Hin.
    apply in_map_iff in Hin. destruct Hin as [[i0 o0] [E Hin]]. inversion E; subst. eapply HIE6. exact Hin. }
  clearbody s8. clear HSW HWL HNX HLc HIE6. destruct H8 as [HSW [HWL [HNX HLc]]].
  pose proof (NX_schedule_clean [] t s8 HSW HNX HLc HIE8) as H9.
  set (s9 := schedule t s8) in *. clearbody s9. clear HNX. unfold report_non_final_stage_change in *. destruct H9 as [A [B C]].
  split; [exact HXfinal|]. split; [t_TK|t_CM].
Qed.

(* the background learning task *)
Lemma CN_bg : forall t s x prio bi,
  t_worker x = None -> t_resp x = None -> t_ops x = [] ->
  inv_exists s bi = true ->
  CN [t] [t] t None None true s ->
  let bt := s_ntasks s in
  let sN := s <| s_ntasks ::= S |> <| s_tasks ::= fun l => l ++ [(bt, x)] |> in
  CN [t] [t] t None None true (schedule bt (fst (new_operation bt prio bi true sN))).
Proof.
  intros t s x prio bi Hxw Hxr Hxo Hbi H bt sN.
  pose proof (CT_bg t s x prio bi Hxw Hxr Hxo (CN_CT _ _ _ _ _ _ _ H)) as HCT. cbv zeta in HCT. fold bt in HCT. fold sN in HCT.
  destruct H as [HSW [HWL [HNX HLc]]].
  assert (Hne : bt <> t) by (pose proof (LcN _ _ _ _ _ HLc); unfold bt; lia).
  assert (Hx : get_task sN bt = x).
  { unfold sN, bt. rewrite get_task_newtask, (W_task_fresh s (WL_W _ _ HWL)), Nat.eqb_refl. reflexivity. }
  assert (HN : SW sN /\ WL [bt; t] sN /\ NX [bt; t] sN /\ Lc t None None true sN /\ Lc bt None None true sN).
  { split; [unfold sN; sw_go2|]. split; [apply WL_newtask; exact HWL|]. split.
    - destruct HNX as [A [B C]]. split; [apply XS_newtask; assumption|]. split.
      + apply TK_newtask; [|exact B]. unfold tk_ok. rewrite Hxw, Hxo. repeat split; intros; try contradiction; discriminate.
      + destruct C as [Hp|[HC HM]]; [left; unfold sN; t_pan|right]. split; [apply CQ_newtask; exact HC|]. eapply MI_frame; [ | |exact HM]; reflexivity.
    - split; [apply Lc_newtask; exact HLc|apply Lc_fresh; try assumption; exact (WL_W _ _ HWL)]. }
  assert (Hbi' : inv_exists sN bi = true) by exact Hbi.
  clearbody sN. clear HSW HWL HNX HLc. destruct HN as [HSW [HWL [HNX [HLc HLb]]]].
  set (sO := fst (new_operation bt prio bi true sN)) in *.
  assert (HO : SW sO /\ NX [bt; t] sO /\ Lc bt None None true sO /\ t_ops (get_task sO bt) = [(bi, s_nops sN)] /\ inv_exists sO bi = true).
  { split; [unfold sO, new_operation; cbn [fst]; sw_go2|].
    assert (HXO : XS [bt; t] sO).
    { apply XS_new_operation; [left; reflexivity|exact (LcN _ _ _ _ _ HLb)| |exact (NX_XS _ _ HNX)].
      intros j o Hin. destruct (LcO2 _ _ _ _ _ HLb j o Hin) as [Ha _]. exact Ha. }
    split; [|split; [eapply Lc_new_operation_own; [exact (NX_XS _ _ HNX)|exact HLb]|]].
    - split; [exact HXO|]. destruct HNX as [A [B C]]. unfold sO, new_operation. cbn [fst]. split.
      + apply TK_upd_task; [|t_TK]. rewrite (get_task_frame sN) by reflexivity. rewrite Hx. apply tk_addop; [rewrite Hxo; intros i' o' []|rewrite Hxw; discriminate|].
        unfold tk_ok. rewrite Hxw, Hxo. repeat split; intros; try contradiction; discriminate.
      + destruct C as [Hp|[HC HM]]; [left; inv_go fail t_pan|right]. split.
        * apply CQ_upd_task; [left; left; reflexivity|]. apply CQ_newop; [left; reflexivity|apply ON_fresh; exact (XS_ON _ _ A)|exact HC].
        * eapply MI_frame; [ | |exact HM]; reflexivity.
    - split; [|exact Hbi']. unfold sO, new_operation. cbn [fst]. rewrite get_task_upd_task, Nat.eqb_refl. cbn.
      rewrite (get_task_frame sN) by reflexivity. rewrite Hx, Hxo. reflexivity. }
  clearbody sO. clear HSW HNX HLb. destruct HO as [HSW [HNX [HLb [Eops Hbi'']]]].
  destruct HCT as [C1 [C2 [_ C4]]]. split; [exact C1|]. split; [exact C2|]. split; [|exact C4].
  apply NX_schedule_clean; [exact HSW|exact HNX|exact HLb|]. intros i o Hin. rewrite Eops in Hin. destruct Hin as [E|[]]. inversion E; subst. exact Hbi''.
Qed.

Lemma CN_learner : forall t r b x p k s,
  (forall l bidx bdur btm bl, t_learner x = Some l -> l_succ l = Some (bidx, bdur, btm, bl) -> resp_success r = true ->
     scq_exists s (mkSK (sk_pk k) (nth bidx (p_scs p) 0%N)) = true) ->
  CN [t] [t] t None None true s -> CN [t] [t] t None None true (fst (ct_learner t r b x p k s)).
Proof.
  intros t r b x p k s Hbg H. unfold ct_learner.
  destruct (t_learner x) as [l|] eqn:El; [|destruct H as [HSW [HWL [HNX HLc]]]; cbn [fst]; cn_go].
  destruct (resp_success r) eqn:Ers.
  - cbv zeta. set (s1 := upd_task t _ (emit _ s)).
    assert (H1 : CN [t] [t] t None None true s1) by (destruct H as [HSW [HWL [HNX HLc]]]; unfold s1; cn_go).
    assert (Hsc1 : forall k', scq_exists s1 k' = scq_exists s k') by reflexivity.
    clearbody s1. clear H.
    destruct (l_succ l) as [[[[bidx bdur] btimeout] bl]|] eqn:Esu; [|exact H1].
    destruct (Nat.eqb (p_maxbg p) 0); [destruct H1 as [HSW [HWL [HNX HLc]]]; cbn [fst]; cn_go|].
    set (bk := mkSK (sk_pk k) (nth bidx (p_scs p) 0%N)).
    assert (Hbk : scq_exists s1 bk = true) by (rewrite Hsc1; eapply Hbg; eauto).
    set (s2 := get_or_create_invocation bk [4294967295%N] s1).
    assert (H2 : CN [t] [t] t None None true s2).
    { destruct H1 as [HSW [HWL [HNX HLc]]]. unfold s2. split; [sw_go2|]. split; [w_go2|]. split; [apply NX_get_or_create_invocation; assumption|lc_go1]. }
    assert (Hbi : inv_exists s2 (mkI bk [4294967295%N]) = true) by (unfold s2; apply goc_exists; discriminate).
    clearbody s2. clear H1.
    destruct (Nat.leb _ _); [destruct H2 as [HSW [HWL [HNX HLc]]]; cbn [fst]; cn_go|].
    unfold new_operation. cbn [fst].
    apply CN_bg; [reflexivity|reflexivity|reflexivity|exact Hbi|exact H2].
  - destruct b.
    + cbv zeta. destruct (l_fail l) as [[[d tm] nl]|]; destruct H as [HSW [HWL [HNX HLc]]]; cbn [fst]; cn_go.
    + destruct H as [HSW [HWL [HNX HLc]]]; cbn [fst]; cn_go.
Qed.

(* ---- task.complete ---------------------------------------------------------------------------------------------------------- *)
Lemma ct_learner_retry_by_worker : forall t r b x p k s d tm, snd (ct_learner t r b x p k s) = Some (d, tm) -> b = true.
Proof.
  intros t r b x p k s d tm H. unfold ct_learner in H. destruct (t_learner x) as [l|]; [|discriminate].
  destruct (resp_success r).
  - cbv zeta in H. destruct (l_succ l) as [[[[bidx bdur] btimeout] bl]|]; [|discriminate].
    destruct (Nat.eqb (p_maxbg p) 0); [discriminate|]. destruct (Nat.leb _ _); [discriminate|].
    unfold new_operation in H. cbn in H. discriminate.
  - destruct b; [reflexivity|discriminate].
Qed.

Lemma ct_learner_pqs : forall t r b x p k s, s_pqs (fst (ct_learner t r b x p k s)) = s_pqs s.
Proof.
  intros t r b x p k s. assert (H0 : keeps_pqs (s_pqs s) s) by reflexivity.
  assert (H : keeps_pqs (s_pqs s) (fst (ct_learner t r b x p k s))); [|exact H].
  unfold ct_learner, new_operation. fr_go (keeps_pqs (s_pqs s)) t_kp.
Qed.

Lemma Sp_ct_learner : forall t r b x p k s, Sp s -> Sp (fst (ct_learner t r b x p k s)).
Proof. intros t r b x p k s H. unfold ct_learner, new_operation. sp_go. Qed.

Lemma Sp_ct_prefix : forall t b s, Sp s -> Sp (ct_prefix t b s).
Proof. intros t b s H. unfold ct_prefix. sp_go. Qed.

Lemma last_in : forall (l : list N) d, l <> [] -> In (last l d) l.
Proof. induction l as [|x l IH]; intros d H; [congruence|]. destruct l as [|y l]; [left; reflexivity|right; apply IH; discriminate]. Qed.

Lemma NX_complete_task : forall t r b s,
  SW s -> W s -> Sp s -> (t < s_ntasks s)%nat ->
  (b = true -> t_worker (get_task s t) <> None) ->
  (forall l bidx bdur btm bl p, t_learner (get_task s t) = Some l -> l_succ l = Some (bidx, bdur, btm, bl) -> resp_success r = true ->
     get_pq s (sk_pk (task_scq s t)) = Some p -> (bidx < List.length (p_scs p))%nat) ->
  NX [] s -> NX [] (complete_task t r b s).
Proof.
  intros t r b s HSW HW HSp Hlt Hbw Hbg HNX.
  pose proof (XS_complete_task t r b s HSW HW Hlt (NX_XS _ _ HNX)) as HXfinal.
  rewrite complete_task_eq2 in *. destruct (t_resp (get_task s t)) eqn:Er; [exact HNX|]. cbv zeta in *.
  assert (H0 : CN [] [t] t (t_worker (get_task s t)) None (match t_worker (get_task s t) with Some _ => true | None => false end) s).
  { split; [exact HSW|]. split; [apply WL_cons; [apply WL_of_W; exact HW|exact Hlt]|]. split; [exact HNX|].
    pose proof (XS_St _ _ (NX_XS _ _ HNX)) as [_ [_ [Hnd _]]].
    pose proof (Lc_intro [] t s Hnd (fun H => H) Hlt (XS_X _ _ (NX_XS _ _ HNX))) as HL. rewrite Er in HL.
    destruct (t_worker (get_task s t)); exact HL. }
  pose proof (CN_detach t b s Er H0) as H4. change (CN [t] [t] t None None true (ct_prefix t b s)) in H4.
  destruct (ct_prefix_frames t b s) as [_ [_ Epq]]. pose proof (Sp_ct_prefix t b s HSp) as HSp4.
  set (s4 := ct_prefix t b s) in *. clearbody s4. clear H0.
  destruct (get_pq s4 (sk_pk (task_scq s t))) as [p|] eqn:Ep.
  - destruct (get_pq_in _ _ _ Ep) as [Hp4 Hkp].
    assert (Eps : get_pq s (sk_pk (task_scq s t)) = Some p) by (unfold get_pq in *; rewrite <- Epq; exact Ep).
    assert (Hbg4 : forall l bidx bdur btm bl, t_learner (get_task s t) = Some l -> l_succ l = Some (bidx, bdur, btm, bl) -> resp_success r = true ->
              scq_exists s4 (mkSK (sk_pk (task_scq s t)) (nth bidx (p_scs p) 0%N)) = true).
    { intros l bidx bdur btm bl El Es Hr. destruct HSp4 as [_ [_ S3]]. rewrite <- Hkp. apply (S3 p); [exact Hp4|]. apply nth_In. eapply Hbg; eassumption. }
    pose proof (CN_learner t r b (get_task s t) p (task_scq s t) s4 Hbg4 H4) as H5.
    pose proof (ct_learner_pqs t r b (get_task s t) p (task_scq s t) s4) as Epq5.
    pose proof (Sp_ct_learner t r b (get_task s t) p (task_scq s t) s4 HSp4) as HSp5.
    pose proof (ct_learner_retry_by_worker t r b (get_task s t) p (task_scq s t) s4) as Hrb.
    destruct (ct_learner t r b (get_task s t) p (task_scq s t) s4) as [s5 [[d tm]|]]; cbn [fst snd] in *.
    + apply CN_retry; [|exact H5].
      (* the largest size class queue of the platform queue exists *)
      specialize (Hrb d tm eq_refl). specialize (Hbw Hrb).
      destruct (t_worker (get_task s t)) as [w|] eqn:Ew; [|congruence].
      pose proof (XS_X _ _ (NX_XS _ _ HNX)) as HX. destruct (XA _ _ HX t w (fun F => F) Ew) as [Hph [Hex _]].
      destruct (NX_TK _ _ HNX t) as [_ [K2 K3]]. specialize (K3 w Ew Hph).
      destruct (t_ops (get_task s t)) as [|[i0 o0] l0] eqn:Eo; [congruence|].
      assert (Hk : task_scq s t = w_sk w) by (unfold task_scq; rewrite Eo; apply (K2 w i0 o0 Ew); left; reflexivity).
      assert (Hse : scq_exists s (task_scq s t) = true).
      { rewrite Hk. unfold worker_exists, scq_exists, get_scq in *. destruct (aget skey_eqb (w_sk w) (s_scqs s)); [reflexivity|discriminate]. }
      destruct (XS_St _ _ (NX_XS _ _ HNX)) as [_ [_ [_ [_ S5]]]]. destruct (S5 _ Hse) as [p' [Hp' [Hk' Hc']]].
      assert (Epp : p' = p).
      { pose proof (Sp_get_pq s p' HSp Hp') as E. rewrite Hk' in E. rewrite Eps in E. inversion E. reflexivity. }
      subst p'. destruct HSp5 as [_ [_ S3]]. rewrite <- Hkp. apply (S3 p); [rewrite Epq5; exact Hp4|].
      unfold largest_sc. apply last_in. intro E. rewrite E in Hc'. destruct Hc'.
    + apply NX_final. exact H5.
  - apply (CN_drop [] [t] t None None true); [exact HXfinal|left; apply Pan_panic|].
    destruct H4 as [HSW4 [HWL4 [HNX4 HLc4]]]. clear HNX. cn_go.
Qed.
