(* Frame lemmas for the internal functions of the scheduler model, proved
   once for an arbitrary predicate [P] on states that is closed under the
   primitive state updates the model is built from.

   Every lemma has the accumulated form  P s -> P (f args s), so that a
   footprint relation "R s0 s" is handled by taking P := R s0.  Closing the
   section generalises each lemma over exactly the closure hypotheses its
   proof uses: a predicate that is not closed under some primitive (say the
   update that records a task's response) still gets the lemmas for all
   functions that never perform it.  Updates of the invocation tree are
   taken to be irrelevant for [P] here (see ProofsInvs.v for the rest). *)
From Coq Require Import Lia.
From VF Require Export Sched.ProofsBasic.
Open Scope Z_scope.

(* ---- tactics ---------------------------------------------------------------------- *)
Ltac head_disc x k :=
  lazymatch x with
  | match ?y with _ => _ end => head_disc y k
  | _ => k x
  end.

(* the state expression is a [match]: split on its innermost discriminee *)
Ltac fr_split_on y :=
  lazymatch type of y with
  | prod _ _ => rewrite (surjective_pairing y); cbv beta iota; cbn [fst snd]
  | _ => destruct y eqn:?; cbv beta iota; cbn [fst snd]
  end.

Ltac fr_destruct_head :=
  lazymatch goal with
  | |- _ (match ?x with _ => _ end) => head_disc x fr_split_on
  | |- _ (fst (match ?x with _ => _ end)) => head_disc x fr_split_on
  end.

Ltac fr_fold :=
  lazymatch goal with
  | |- ?P (fold_left ?g ?l ?s) =>
    apply (fold_left_pres P g l); [let a := fresh "s" in let b := fresh "x" in let H := fresh "HP" in
                                   intros a b H; cbv beta iota | ]
  end.

Ltac fr_step := first [ assumption | fr_fold | fr_destruct_head ].

Create HintDb fr discriminated.
#[export] Hint Extern 6 => fr_fold : fr.
#[export] Hint Extern 7 => fr_destruct_head : fr.

Ltac fr := cbv beta iota zeta; cbn [fst snd]; auto 200 with fr nocore.

(* the loop of cancel_all_queued, named *)
Fixpoint cancel_go (i : iref) (r : resp) (n : nat) (s : state) : state :=
  match n with
  | O => s
  | S m =>
    match find (fun '(d, v) => descendant_or_self i d && negb (Nat.eqb (List.length (v_qops v)) 0)) (s_invs s) with
    | Some (_, v) =>
      match v_qops v with
      | o :: _ => cancel_go i r m (complete_task (o_task (get_op s o)) r false s)
      | [] => s
      end
    | None => s
    end
  end.
Lemma cancel_all_queued_eq : forall i r s, cancel_all_queued i r s = cancel_go i r (S (List.length (s_ops s))) s.
Proof.
  intros i r s. cbv beta delta [cancel_all_queued] zeta.
  generalize (S (List.length (s_ops s))) as n. intro n. revert s.
  induction n as [|n IH]; intro s; [reflexivity|].
  cbn [cancel_go]. cbv beta iota.
  destruct (find _ (s_invs s)) as [[d v]|]; [|reflexivity].
  destruct (v_qops v); [reflexivity|]. apply IH.
Qed.

Definition ev_call (e : event) : nat :=
  match e with
  | EStartExecute c _ _ | EStartWait c _ _ | EStartSync c _ _ | EStartKill c _ _ _ | EKillQueue c _ _ _
  | EAddDrain c _ _ _ | ERemoveDrain c _ _ _ | EStartTerminate c _ _ | ERegister c _ _ _ _ _ _ | ETick c _
  | EEnter c _ | ETimer c _ | ECancel c => c
  end.

(* the updates of one invocation the model performs *)
Inductive inv_upd : (inv -> inv) -> Prop :=
| iu_incr : forall w z, inv_upd (fun v => v <| v_exec ::= exec_incr w |> <| v_started := z |>)
| iu_decr : forall ex z, inv_upd (fun v => v <| v_exec := ex |> <| v_completed := z |>)
| iu_first : forall z, inv_upd (fun v => v <| v_first := z |>)
| iu_enq : forall o, inv_upd (fun v => v <| v_qops ::= fun l => l ++ [o] |>)
| iu_deq : forall o, inv_upd (fun v => v <| v_qops ::= remove_nat o |>)
| iu_idle_pred : inv_upd (fun v => v <| v_idle ::= N.pred |>)
| iu_idle_succ : inv_upd (fun v => v <| v_idle ::= N.succ |>)
| iu_isync_del : forall w, inv_upd (fun v => v <| v_isync ::= swap_remove w |>)
| iu_isync_add : forall w, inv_upd (fun v => v <| v_isync ::= fun l => l ++ [w] |>).
#[export] Hint Constructors inv_upd : fr.

Section Frame.
  Variable P : state -> Prop.

  (* ---- closure hypotheses: one per primitive update the model performs ---------- *)
  Hypothesis HP_panic : forall s w, P s -> P (panic w s).
  Hypothesis HP_emit_succ : forall s l, P s -> P (emit (OGhost (GSucceeded l)) s).
  Hypothesis HP_emit_fail : forall s l b, P s -> P (emit (OGhost (GFailed l b)) s).
  Hypothesis HP_emit_aband : forall s l, P s -> P (emit (OGhost (GAbandoned l)) s).

  Hypothesis HP_inv : forall s i f, inv_upd f -> P s -> P (upd_inv i f s).
  Hypothesis HP_invs_new : forall s i z, P s -> P (s <| s_invs ::= fun l => l ++ [(i, new_inv z)] |>).
  Hypothesis HP_invs_del : forall s i, P s -> P (s <| s_invs := adel iref_eqb i (s_invs s) |>).

  Hypothesis HP_T_assign : forall s t w, P s -> P (upd_task t (fun x => x <| t_worker := Some w |> <| t_retry := O |>) s).
  Hypothesis HP_T_gen : forall s t, P s -> P (upd_task t (fun x => x <| t_gen ::= S |>) s).
  Hypothesis HP_T_addop : forall s t i o, P s -> P (upd_task t (fun x => x <| t_ops ::= fun l => l ++ [(i, o)] |>) s).
  Hypothesis HP_T_unassign : forall s t, P s -> P (upd_task t (fun x => x <| t_worker := None |>) s).
  Hypothesis HP_T_learner : forall s t l, P s -> P (upd_task t (fun x => x <| t_learner := l |>) s).
  Hypothesis HP_T_retry : forall s t d tm ops,
    P s -> P (upd_task t (fun x => x <| t_expdur := d |> <| t_timeout := tm |> <| t_ops := ops |>) s).
  Hypothesis HP_T_resp : forall s t r, P s -> P (upd_task t (fun x => x <| t_resp := Some r |> <| t_dnc := None |>) s).
  Hypothesis HP_T_delop : forall s t o,
    P s -> P (upd_task t (fun y => y <| t_ops := filter (fun '(_, o') => negb (Nat.eqb o o')) (t_ops y) |>) s).
  Hypothesis HP_newtask_bg : forall s inst dg tm qts sfx dur bl,
    P s -> P (s <| s_ntasks ::= S |>
                <| s_tasks ::= fun l => l ++ [(s_ntasks s, mkTask [] inst dg (Some true) tm qts sfx None 0 dur (Some bl) None 0)] |>).

  Hypothesis HP_O_arm : forall s o z, P s -> P (upd_op o (fun x => x <| o_cleanup := Some z |>) s).
  Hypothesis HP_O_disarm : forall s o, P s -> P (upd_op o (fun x => x <| o_cleanup := None |>) s).
  Hypothesis HP_O_inv : forall s o i, P s -> P (upd_op o (fun y => y <| o_inv := i |>) s).
  Hypothesis HP_O_handed : forall s o, P s -> P (upd_op o (fun y => y <| o_mayexist := false |>) s).
  Hypothesis HP_newop : forall s t prio i m,
    P s -> P (s <| s_nops ::= S |> <| s_ops ::= fun l => l ++ [(s_nops s, mkOper t prio i 0 m None)] |>).
  Hypothesis HP_delop : forall s o, P s -> P (s <| s_ops := adel Nat.eqb o (s_ops s) |>).

  Hypothesis HP_K_last : forall s w p, P s -> P (upd_worker w (fun k => k <| k_last := p |>) s).
  Hypothesis HP_K_wait : forall s w b, P s -> P (upd_worker w (fun k => k <| k_wait := b |>) s).
  Hypothesis HP_K_task : forall s w t, P s -> P (upd_worker w (fun k => k <| k_task := t |>) s).
  Hypothesis HP_K_sticky : forall s w f, P s -> P (upd_worker w (fun k => k <| k_sticky ::= f |>) s).
  Hypothesis HP_K_term : forall s w, P s -> P (upd_worker w (fun k => k <| k_term := true |>) s).
  Hypothesis HP_K_disarm : forall s w, P s -> P (upd_worker w (fun k => k <| k_cleanup := None |>) s).

  Hypothesis HP_Q_delworker : forall s k w, P s -> P (upd_scq k (fun q => q <| q_workers ::= adel wref_eqb w |>) s).
  Hypothesis HP_Q_arm : forall s k z, P s -> P (upd_scq k (fun q => q <| q_cleanup := Some z |>) s).
  Hypothesis HP_Q_disarm : forall s k, P s -> P (upd_scq k (fun q => q <| q_cleanup := None |>) s).
  Hypothesis HP_delscq : forall s k,
    P s -> P (s <| s_scqs := adel skey_eqb k (s_scqs s) |>
                <| s_invs := filter (fun '(i, _) => negb (skey_eqb (i_sk i) k)) (s_invs s) |>).
  Hypothesis HP_pq_delsc : forall s k c,
    P s -> P (upd_pq k (fun p => p <| p_scs := filter (fun c' => negb (c' =? c)%N) (p_scs p) |>) s).
  Hypothesis HP_pqs_filter : forall s, P s -> P (s <| s_pqs := filter (fun p => negb (Nat.eqb (List.length (p_scs p)) 0)) (s_pqs s) |>).

  Hypothesis HP_infl_del : forall s k, P s -> P (s <| s_inflight ::= adel dkey_eqb k |>).
  Hypothesis HP_now : forall s t, P s -> P (s <| s_now := t |>).

  Local Hint Resolve HP_panic HP_emit_succ HP_emit_fail HP_emit_aband HP_inv HP_invs_new HP_invs_del
    HP_T_assign HP_T_gen HP_T_addop HP_T_unassign HP_T_learner HP_T_retry HP_T_resp HP_T_delop HP_newtask_bg
    HP_O_arm HP_O_disarm HP_O_inv HP_O_handed HP_newop HP_delop
    HP_K_last HP_K_wait HP_K_task HP_K_sticky HP_K_term HP_K_disarm
    HP_Q_delworker HP_Q_arm HP_Q_disarm HP_delscq HP_pq_delsc HP_pqs_filter HP_infl_del HP_now : fr.

  (* ---- invocation tree ------------------------------------------------------------ *)
  Lemma fr_get_or_create_invocation : forall k p s, P s -> P (get_or_create_invocation k p s).
  Proof. intros. unfold get_or_create_invocation. fr. Qed.
  Local Hint Resolve fr_get_or_create_invocation : fr.

  Lemma fr_remove_if_empty : forall i s, P s -> P (fst (remove_if_empty i s)).
  Proof. intros. unfold remove_if_empty. fr. Qed.
  Local Hint Resolve fr_remove_if_empty : fr.

  Lemma fr_increment_executing : forall i w s, P s -> P (increment_executing i w s).
  Proof. intros. unfold increment_executing. fr. Qed.
  Local Hint Resolve fr_increment_executing : fr.

  Lemma fr_decrement_executing : forall i w s, P s -> P (decrement_executing i w s).
  Proof. intros. unfold decrement_executing. fr. Qed.
  Local Hint Resolve fr_decrement_executing : fr.

  Lemma fr_update_first_priority : forall i s, P s -> P (update_first_priority i s).
  Proof. intros. unfold update_first_priority. fr. Qed.
  Local Hint Resolve fr_update_first_priority : fr.

  Lemma fr_enqueue : forall o s, P s -> P (enqueue o s).
  Proof. intros. unfold enqueue. fr. Qed.
  Local Hint Resolve fr_enqueue : fr.

  Lemma fr_remove_queued_from_invocation : forall o s, P s -> P (remove_queued_from_invocation o s).
  Proof. intros. unfold remove_queued_from_invocation. fr. Qed.
  Local Hint Resolve fr_remove_queued_from_invocation : fr.

  (* ---- workers -------------------------------------------------------------------------- *)
  Lemma fr_clear_last_invocation : forall w s, P s -> P (clear_last_invocation w s).
  Proof. intros. unfold clear_last_invocation. fr. Qed.
  Local Hint Resolve fr_clear_last_invocation : fr.

  Lemma fr_set_last_invocation : forall w p s, P s -> P (set_last_invocation w p s).
  Proof. intros. unfold set_last_invocation. fr. Qed.
  Local Hint Resolve fr_set_last_invocation : fr.

  Lemma fr_dequeue_worker : forall w s, P s -> P (dequeue_worker w s).
  Proof. intros. unfold dequeue_worker. fr. Qed.
  Local Hint Resolve fr_dequeue_worker : fr.

  Lemma fr_maybe_dequeue : forall w s, P s -> P (maybe_dequeue w s).
  Proof. intros. unfold maybe_dequeue. fr. Qed.
  Local Hint Resolve fr_maybe_dequeue : fr.

  Lemma fr_wake_up : forall w s, P s -> P (wake_up w s).
  Proof. intros. unfold wake_up. fr. Qed.
  Local Hint Resolve fr_wake_up : fr.

  Lemma fr_assign_unqueued : forall w t r s, P s -> P (assign_unqueued w t r s).
  Proof. intros. unfold assign_unqueued. fr. Qed.
  Local Hint Resolve fr_assign_unqueued : fr.

  Lemma fr_report_non_final_stage_change : forall t s, P s -> P (report_non_final_stage_change t s).
  Proof. intros. unfold report_non_final_stage_change. fr. Qed.
  Local Hint Resolve fr_report_non_final_stage_change : fr.

  Lemma fr_assign_queued : forall w t r s, P s -> P (assign_queued w t r s).
  Proof. intros. unfold assign_queued. fr. Qed.
  Local Hint Resolve fr_assign_queued : fr.

  Lemma fr_assign_next_queued_task : forall w s, P s -> P (fst (assign_next_queued_task w s)).
  Proof. intros. unfold assign_next_queued_task. fr. Qed.
  Local Hint Resolve fr_assign_next_queued_task : fr.

  Lemma fr_schedule : forall t s, P s -> P (schedule t s).
  Proof. intros. unfold schedule. fr. Qed.
  Local Hint Resolve fr_schedule : fr.

  (* ---- operations and tasks ----------------------------------------------------------------- *)
  Lemma fr_new_operation : forall t prio i m s, P s -> P (fst (new_operation t prio i m s)).
  Proof. intros. unfold new_operation. cbn [fst]. fr. Qed.
  Local Hint Resolve fr_new_operation : fr.

  Lemma fr_maybe_start_cleanup : forall o s, P s -> P (maybe_start_cleanup o s).
  Proof. intros. unfold maybe_start_cleanup. fr. Qed.
  Local Hint Resolve fr_maybe_start_cleanup : fr.

  Lemma fr_complete_task : forall t r b s, P s -> P (complete_task t r b s).
  Proof. intros. unfold complete_task, new_operation. fr. Qed.
  Local Hint Resolve fr_complete_task : fr.

  Lemma fr_operation_remove : forall o s, P s -> P (operation_remove o s).
  Proof.
    intros. unfold operation_remove. cbv beta iota zeta.
    apply HP_T_delop. apply HP_delop.
    repeat fr_destruct_head;
      try assumption;
      try (match goal with |- P (fst (fold_left ?g ?l ?a)) =>
             apply (fold_left_pres (fun acc => P (fst acc)) g l);
             [ intros [s1 go] j H1; cbn [fst] in *; destruct go; [apply fr_remove_if_empty; assumption | assumption]
             | cbn [fst] ] end);
      fr.
  Qed.
  Local Hint Resolve fr_operation_remove : fr.

  Lemma fr_cancel_all_queued : forall i r s, P s -> P (cancel_all_queued i r s).
  Proof.
    intros i r s. rewrite cancel_all_queued_eq. generalize (S (List.length (s_ops s))) as n.
    intro n. revert s. induction n as [|n IH]; intros s H; cbn [cancel_go]; [assumption|].
    destruct (find _ (s_invs s)) as [[d v]|]; [|assumption].
    destruct (v_qops v) as [|o tl]; [assumption|]. apply IH. fr.
  Qed.
  Local Hint Resolve fr_cancel_all_queued : fr.

  Lemma fr_scq_remove : forall k s, P s -> P (scq_remove k s).
  Proof. intros. unfold scq_remove. fr. Qed.
  Local Hint Resolve fr_scq_remove : fr.

  Lemma fr_mark_terminating : forall w s, P s -> P (mark_terminating w s).
  Proof. intros. unfold mark_terminating. fr. Qed.
  Local Hint Resolve fr_mark_terminating : fr.

  Lemma fr_remove_stale_worker : forall w z s, P s -> P (remove_stale_worker w z s).
  Proof. intros. unfold remove_stale_worker. fr. Qed.
  Local Hint Resolve fr_remove_stale_worker : fr.

  Lemma fr_run_entry : forall e s, P s -> P (run_entry e s).
  Proof. intros. unfold run_entry. fr. Qed.
  Local Hint Resolve fr_run_entry : fr.

  Lemma fr_cleanup_run : forall n s, P s -> P (cleanup_run n s).
  Proof.
    induction n as [|n IH]; intros s H; cbn [cleanup_run]; [fr|].
    destruct (earliest (cleanup_entries s)) as [e|]; [|assumption].
    destruct (fst e <=? s_now s); [|assumption]. apply IH. fr.
  Qed.
  Local Hint Resolve fr_cleanup_run : fr.

  Lemma fr_enter : forall t s, P s -> P (enter t s).
  Proof. intros. unfold enter. fr. Qed.
  Local Hint Resolve fr_enter : fr.

  (* ---- the RPC sections of Steps.v: further primitive updates ---------------------------- *)
  (* [c0] is the call the event belongs to: it is the only call whose program
     counter is set and (apart from the selector/learner calls and the returns
     of TerminateWorkers calls) the only one observations are tagged with *)
  Variable c0 : nat.
  Hypothesis HP_emit_msg : forall s o st d, P s -> P (emit (OMsg c0 o st d) s).
  Hypothesis HP_emit_ret : forall s code, P s -> P (emit (ORet c0 code) s).
  Hypothesis HP_emit_sync : forall s d z, P s -> P (emit (OSync c0 d z) s).
  Hypothesis HP_emit_select : forall s, P s -> P (emit (OGhost GSelect) s).
  Hypothesis HP_emit_selab : forall s, P s -> P (emit (OGhost GSelAbandoned) s).
  Hypothesis HP_setcall : forall s p, P s -> P (set_call c0 p s).
  Hypothesis HP_O_attach : forall s o, P s -> P (upd_op o (fun y => y <| o_cleanup := None |> <| o_waiters ::= S |>) s).
  Hypothesis HP_O_waiters : forall s o n, P s -> P (upd_op o (fun y => y <| o_waiters := n |>) s).
  Hypothesis HP_K_arm : forall s w z, P s -> P (upd_worker w (fun k => k <| k_cleanup := Some z |>) s).
  Hypothesis HP_T_retrycount : forall s t, P s -> P (upd_task t (fun x => x <| t_retry ::= S |>) s).
  Hypothesis HP_newtask_exec : forall s inst dg dnc tm sfx dur l,
    P s -> P (s <| s_ntasks ::= S |>
                <| s_tasks ::= fun ts => ts ++ [(s_ntasks s, mkTask [] inst dg (Some dnc) tm (s_now s) sfx None 0 dur (Some l) None 0)] |>).
  Hypothesis HP_infl_set : forall s k t, P s -> P (s <| s_inflight ::= aset dkey_eqb k t |>).
  Hypothesis HP_pq_addsc : forall s k c, P s -> P (upd_pq k (fun p => p <| p_scs ::= insert_sorted c |>) s).
  Hypothesis HP_newscq : forall s k b,
    P s -> P (s <| s_scqs ::= fun l => l ++ [(k, mkScq b None [] 0 [])] |>
                <| s_invs ::= fun l => l ++ [(mkI k [], new_inv 0)] |>).
  Hypothesis HP_newpq : forall s k limits maxbg bgprio, P s -> P (s <| s_pqs ::= fun l => l ++ [mkPq k limits maxbg bgprio []] |>).
  Hypothesis HP_Q_newworker : forall s k w n,
    P s -> P (upd_scq k (fun q => q <| q_workers ::= fun l => l ++ [(w, mkWorker None None false (Some []) false (repeat 0 n))] |>) s).
  Hypothesis HP_Q_adddrain : forall s k p,
    P s -> P (upd_scq k (fun q => if existsb (pattern_eqb p) (q_drains q) then q else q <| q_drains ::= fun l => l ++ [p] |>) s).
  Hypothesis HP_Q_deldrain : forall s k p,
    P s -> P (upd_scq k (fun q => q <| q_drains ::= filter (fun p' => negb (pattern_eqb p p')) |> <| q_undrain ::= S |>) s).

  Local Hint Resolve HP_emit_msg HP_emit_ret HP_emit_sync HP_emit_select HP_emit_selab HP_setcall HP_O_attach HP_O_waiters HP_K_arm HP_T_retrycount HP_newtask_exec HP_infl_set
    HP_pq_addsc HP_newscq HP_newpq HP_Q_newworker HP_Q_adddrain HP_Q_deldrain : fr.

  Lemma fr_stream_iter : forall o s, P s -> P (stream_iter c0 o s).
  Proof. intros. unfold stream_iter. fr. Qed.
  Local Hint Resolve fr_stream_iter : fr.

  Lemma fr_wait_execution_begin : forall o s, P s -> P (wait_execution_begin c0 o s).
  Proof. intros. unfold wait_execution_begin. fr. Qed.
  Local Hint Resolve fr_wait_execution_begin : fr.

  Lemma fr_stream_return : forall o code s, P s -> P (stream_return c0 o code s).
  Proof. intros. unfold stream_return. fr. Qed.
  Local Hint Resolve fr_stream_return : fr.

  Lemma fr_ret : forall code s, P s -> P (ret c0 code s).
  Proof. intros. unfold ret. fr. Qed.
  Local Hint Resolve fr_ret : fr.

  Lemma fr_exec_start : forall a s, P s -> P (exec_start c0 a s).
  Proof. intros. unfold exec_start, new_operation. fr. Qed.
  Local Hint Resolve fr_exec_start : fr.

  Lemma fr_finish_sync : forall w s, P s -> P (finish_sync c0 w s).
  Proof. intros. unfold finish_sync. fr. Qed.
  Local Hint Resolve fr_finish_sync : fr.

  Lemma fr_sync_return_exec : forall w s, P s -> P (sync_return_exec c0 w s).
  Proof. intros. unfold sync_return_exec. fr. Qed.
  Lemma fr_sync_return_idle : forall w s, P s -> P (sync_return_idle c0 w s).
  Proof. intros. unfold sync_return_idle. fr. Qed.
  Lemma fr_sync_return_err : forall w code s, P s -> P (sync_return_err c0 w code s).
  Proof. intros. unfold sync_return_err. fr. Qed.
  Local Hint Resolve fr_sync_return_exec fr_sync_return_idle fr_sync_return_err : fr.

  Lemma fr_sync_loop : forall w s, P s -> P (sync_loop c0 w s).
  Proof. intros. unfold sync_loop. fr. Qed.
  Local Hint Resolve fr_sync_loop : fr.

  Lemma fr_get_next_task : forall w bl pr s, P s -> P (get_next_task c0 w bl pr s).
  Proof. intros. unfold get_next_task. fr. Qed.
  Local Hint Resolve fr_get_next_task : fr.

  Lemma fr_get_current_or_next : forall w bl pr s, P s -> P (get_current_or_next c0 w bl pr s).
  Proof. intros. unfold get_current_or_next. fr. Qed.
  Local Hint Resolve fr_get_current_or_next : fr.

  Lemma fr_add_scq : forall k b s, P s -> P (add_scq k b s).
  Proof. intros. unfold add_scq. fr. Qed.
  Lemma fr_add_pq : forall k l m b s, P s -> P (add_pq k l m b s).
  Proof. intros. unfold add_pq. fr. Qed.
  Local Hint Resolve fr_add_scq fr_add_pq : fr.

  Lemma fr_sync_start : forall a s, P s -> P (sync_start c0 a s).
  Proof. intros. unfold sync_start. fr. Qed.
  Local Hint Resolve fr_sync_start : fr.

  Lemma fr_kill_lookup : forall n code s, P s -> P (kill_lookup c0 n code s).
  Proof. intros. unfold kill_lookup. fr. Qed.
  Local Hint Resolve fr_kill_lookup : fr.

  Lemma fr_auto_returns : (forall s c code, P s -> P (ret c code s)) -> forall s, P s -> P (auto_returns s).
  Proof. intros Hret s H. unfold auto_returns. fr. Qed.

  Lemma fr_terminate_fold : forall p l s waits,
    P s -> P (fst (fold_left (fun (acc : state * list (nat * nat)) w =>
        let '(s, waits) := acc in
        if matches w p then
          let s := mark_terminating w s in
          match k_task (get_worker s w) with
          | Some tk => (s, waits ++ [(tk, t_gen (get_task s tk))])
          | None => (if k_wait (get_worker s w) then wake_up w s else s, waits)
          end
        else (s, waits)) l (s, waits))).
  Proof.
    intros p l s waits H.
    match goal with |- P (fst (fold_left ?g ?l ?a)) => apply (fold_left_pres (fun acc => P (fst acc)) g l) end;
      [|exact H].
    intros [s1 w1] w H1. cbn [fst] in *. fr.
  Qed.

  Lemma fr_step_core : forall e s, ev_call e = c0 -> P s -> P (step_core e s).
  Proof.
    intros e s Hc H. destruct e; cbn [ev_call] in Hc; (match goal with Hx : ?c = c0 |- _ => subst c end); unfold step_core; try solve [fr].
    (* EStartTerminate *)
    cbv zeta.
    match goal with |- P (match ?x with _ => _ end) => rewrite (surjective_pairing x) end.
    apply HP_setcall. apply fr_terminate_fold. fr.
  Qed.

  Hypothesis HP_hints : forall s h, P s -> P (s <| s_hints := h |>).
  Hypothesis HP_out : forall s, P s -> P (s <| s_out := [] |>).

  Lemma fr_step : (forall s c code, P s -> P (ret c code s)) ->
    forall s eh, ev_call (fst eh) = c0 -> P s -> P (fst (step s eh)).
  Proof.
    intros Hret s eh Hc H. unfold step. cbn [fst]. apply HP_hints. apply HP_out. apply fr_auto_returns; [exact Hret|].
    apply fr_step_core; [exact Hc|]. apply HP_out. apply HP_hints. exact H.
  Qed.
End Frame.

(* ---- using the generic lemmas for a concrete predicate -------------------------------------
   [fr_go P tac]: the goal is  P e  with [P] a folded (named) predicate and [e]
   a state expression; peels function applications off [e] with the generic
   lemmas, closing their closure premises with [tac] (which must solve goals
   of the form  forall .., P s -> P (primitive update of s)).  Stops at the
   first expression it knows nothing about. *)
Ltac fr_lemmas P :=
  lazymatch goal with
  | |- _ (get_or_create_invocation _ _ _) => apply (fr_get_or_create_invocation P)
  | |- _ (fst (remove_if_empty _ _)) => apply (fr_remove_if_empty P)
  | |- _ (increment_executing _ _ _) => apply (fr_increment_executing P)
  | |- _ (decrement_executing _ _ _) => apply (fr_decrement_executing P)
  | |- _ (update_first_priority _ _) => apply (fr_update_first_priority P)
  | |- _ (enqueue _ _) => apply (fr_enqueue P)
  | |- _ (remove_queued_from_invocation _ _) => apply (fr_remove_queued_from_invocation P)
  | |- _ (clear_last_invocation _ _) => apply (fr_clear_last_invocation P)
  | |- _ (set_last_invocation _ _ _) => apply (fr_set_last_invocation P)
  | |- _ (dequeue_worker _ _) => apply (fr_dequeue_worker P)
  | |- _ (maybe_dequeue _ _) => apply (fr_maybe_dequeue P)
  | |- _ (wake_up _ _) => apply (fr_wake_up P)
  | |- _ (assign_unqueued _ _ _ _) => apply (fr_assign_unqueued P)
  | |- _ (report_non_final_stage_change _ _) => apply (fr_report_non_final_stage_change P)
  | |- _ (assign_queued _ _ _ _) => apply (fr_assign_queued P)
  | |- _ (fst (assign_next_queued_task _ _)) => apply (fr_assign_next_queued_task P)
  | |- _ (schedule _ _) => apply (fr_schedule P)
  | |- _ (fst (new_operation _ _ _ _ _)) => apply (fr_new_operation P)
  | |- _ (maybe_start_cleanup _ _) => apply (fr_maybe_start_cleanup P)
  | |- _ (complete_task _ _ _ _) => apply (fr_complete_task P)
  | |- _ (operation_remove _ _) => apply (fr_operation_remove P)
  | |- _ (cancel_all_queued _ _ _) => apply (fr_cancel_all_queued P)
  | |- _ (scq_remove _ _) => apply (fr_scq_remove P)
  | |- _ (mark_terminating _ _) => apply (fr_mark_terminating P)
  | |- _ (remove_stale_worker _ _ _) => apply (fr_remove_stale_worker P)
  | |- _ (run_entry _ _) => apply (fr_run_entry P)
  | |- _ (cleanup_run _ _) => apply (fr_cleanup_run P)
  | |- _ (enter _ _) => apply (fr_enter P)
  | |- _ (stream_iter _ _ _) => apply (fr_stream_iter P)
  | |- _ (wait_execution_begin _ _ _) => apply (fr_wait_execution_begin P)
  | |- _ (stream_return _ _ _ _) => apply (fr_stream_return P)
  | |- _ (ret _ _ _) => apply (fr_ret P)
  | |- _ (exec_start _ _ _) => apply (fr_exec_start P)
  | |- _ (finish_sync _ _ _) => apply (fr_finish_sync P)
  | |- _ (sync_return_exec _ _ _) => apply (fr_sync_return_exec P)
  | |- _ (sync_return_idle _ _ _) => apply (fr_sync_return_idle P)
  | |- _ (sync_return_err _ _ _ _) => apply (fr_sync_return_err P)
  | |- _ (sync_loop _ _ _) => apply (fr_sync_loop P)
  | |- _ (get_next_task _ _ _ _ _) => apply (fr_get_next_task P)
  | |- _ (get_current_or_next _ _ _ _ _) => apply (fr_get_current_or_next P)
  | |- _ (add_scq _ _ _) => apply (fr_add_scq P)
  | |- _ (add_pq _ _ _ _ _) => apply (fr_add_pq P)
  | |- _ (sync_start _ _ _) => apply (fr_sync_start P)
  | |- _ (kill_lookup _ _ _ _) => apply (fr_kill_lookup P)
  | |- _ (fst (fold_left _ _ (_, _))) => apply (fr_terminate_fold P)
  end.

Ltac is_prim_head f :=
  lazymatch f with
  | emit _ => idtac | panic _ => idtac | upd_task _ _ => idtac | upd_op _ _ => idtac | upd_inv _ _ => idtac
  | upd_scq _ _ => idtac | upd_worker _ _ => idtac | upd_pq _ _ => idtac | set_call _ _ => idtac
  | set _ _ => idtac
  end.

Ltac innermost_nonset s := lazymatch s with set _ _ ?s' => innermost_nonset s' | _ => s end.

Ltac fr_prim P tac :=
  lazymatch goal with
  | |- P ?e =>
    lazymatch e with
    | set _ _ ?s1 =>
      (* raw record updates: abstract the state they are applied to, everywhere *)
      let E := innermost_nonset s1 in
      let e' := eval pattern E in e in
      lazymatch e' with
      | ?F _ =>
        let H := fresh "Hprim" in
        assert (H : forall s0, P s0 -> P (F s0)) by (cbv beta; tac);
        apply (H E); clear H
      end
    | ?f ?s =>
      is_prim_head f;
      let H := fresh "Hprim" in
      assert (H : forall s0, P s0 -> P (f s0)) by tac;
      apply H; clear H
    end
  end.

Ltac fr_go P tac :=
  cbv beta iota zeta; cbn [fst snd];
  repeat first [ assumption | fr_fold | fr_destruct_head
               | (lazymatch goal with |- ?Q _ => fr_lemmas Q end; [ tac .. | ])
               | lazymatch goal with |- ?Q _ => fr_prim Q tac end ].

(* primitive updates never touch a record field they do not name *)
Ltac prim_unfold :=
  unfold panic, emit, upd_task, upd_op, upd_inv, upd_worker, upd_scq, upd_pq, set_call in *.
Ltac prim_cases :=
  repeat match goal with |- context[match ?x with _ => _ end] => destruct x end.
