(* C04, tree consistency: the counters the pruning of the invocation tree relies on.
   - idleWorkersCount of an invocation is at least the number of registered workers whose last invocation lies at or
     below it (ID);
   - the executing-workers count an invocation keeps for a worker is at least the number of operations of the task that
     worker runs that lie at or below it (EC);
   so invocations with parked workers, and invocations of executing tasks, exist together with all their ancestors. *)
From Coq Require Import Lia.
From VF Require Export Sched.ProofsFull8 Sched.ProofsFind.
Open Scope Z_scope.

(* ---- counting in association lists ------------------------------------------------------------------------------------------ *)
Section Count.
  Context {K V : Type} (eqb : K -> K -> bool) (eqb_eq : forall a b, eqb a b = true <-> a = b).
  Variable g : K * V -> nat.
  Definition asum (l : list (K * V)) : nat := list_sum (map g l).

  Lemma asum_cons : forall x l, asum (x :: l) = (g x + asum l)%nat.
  Proof. reflexivity. Qed.
  Lemma asum_app : forall l x, asum (l ++ [x]) = (asum l + g x)%nat.
  Proof. intros l x. unfold asum. rewrite map_app, list_sum_app. cbn. lia. Qed.

  Lemma asum_aset : forall k v v' l, aget eqb k l = Some v ->
    (asum (aset eqb k v' l) + g (k, v) = asum l + g (k, v'))%nat.
  Proof.
    intros k v v'. induction l as [|[k2 v2] l IH]; cbn [aget aset]; intro H; [discriminate|].
    destruct (eqb k k2) eqn:E.
    - apply eqb_eq in E. subst k2. injection H as ->. rewrite !asum_cons. lia.
    - specialize (IH H). rewrite !asum_cons. lia.
  Qed.

  Lemma asum_adel : forall k v l, aget eqb k l = Some v -> (asum (adel eqb k l) + g (k, v) = asum l)%nat.
  Proof.
    intros k v. induction l as [|[k2 v2] l IH]; cbn [aget adel]; intro H; [discriminate|].
    destruct (eqb k k2) eqn:E.
    - apply eqb_eq in E. subst k2. injection H as ->. rewrite !asum_cons. lia.
    - specialize (IH H). rewrite !asum_cons. lia.
  Qed.

  Lemma asum_adel_none : forall k (l : list (K * V)), aget eqb k l = None -> adel eqb k l = l.
  Proof.
    intros k. induction l as [|[k2 v2] l IH]; cbn; intro H; [reflexivity|].
    destruct (eqb k k2); [discriminate|]. rewrite IH by exact H. reflexivity.
  Qed.

  Lemma asum_in : forall k v l, In (k, v) l -> (g (k, v) <= asum l)%nat.
  Proof.
    intros k v. induction l as [|x l IH]; intros H; [destruct H|]. rewrite asum_cons.
    destruct H as [->|H]; [lia|]. specialize (IH H). lia.
  Qed.
End Count.

Definition flen {A} (P : A -> bool) (l : list A) : nat := List.length (filter P l).
Lemma flen_asum : forall {K V} (P : K * V -> bool) l, flen P l = asum (fun x => if P x then 1%nat else 0%nat) l.
Proof.
  intros K V P. induction l as [|x l IH]; [reflexivity|]. unfold flen, asum in *. cbn. destruct (P x); cbn; rewrite IH; reflexivity.
Qed.

(* ---- membership in a chain, as a boolean -------------------------------------------------------------------------------------- *)
Definition inb (a : iref) (l : list iref) : bool := existsb (iref_eqb a) l.
Lemma inb_In : forall a l, inb a l = true <-> In a l.
Proof.
  intros a l. unfold inb. rewrite existsb_exists. split.
  - intros [x [Hx E]]. apply iref_eqb_eq in E. subst. exact Hx.
  - intro H. exists a. split; [exact H|apply iref_eqb_eq; reflexivity].
Qed.
Lemma inb_false : forall a l, inb a l = false <-> ~ In a l.
Proof. intros a l. rewrite <- inb_In. destruct (inb a l); split; congruence. Qed.

(* ---- ID: idle workers ------------------------------------------------------------------------------------------------------------- *)
Definition touch (a : iref) (wk : wref * worker) : bool :=
  match k_last (snd wk) with Some p => inb a (chain (last_iref (fst wk) p)) | None => false end.
Definition qcnt (a : iref) (kq : skey * scq) : nat := flen (touch a) (q_workers (snd kq)).
Definition cntw (s : state) (a : iref) : nat := asum (qcnt a) (s_scqs s).
Definition idle_at (s : state) (a : iref) : nat := N.to_nat (v_idle (get_inv s a)).
Definition ID (s : state) : Prop := forall a, (cntw s a <= idle_at s a)%nat.

Lemma cntw_frame : forall s s' a, s_scqs s' = s_scqs s -> cntw s' a = cntw s a.
Proof. unfold cntw. intros s s' a ->. reflexivity. Qed.
Lemma idle_at_frame : forall s s' a, s_invs s' = s_invs s -> idle_at s' a = idle_at s a.
Proof. unfold idle_at. intros s s' a E. rewrite (get_inv_frame _ _ _ E). reflexivity. Qed.
Lemma ID_frame : forall s s', s_scqs s' = s_scqs s -> s_invs s' = s_invs s -> ID s -> ID s'.
Proof. unfold ID. intros s s' E1 E2 H a. rewrite (cntw_frame _ _ _ E1), (idle_at_frame _ _ _ E2). apply H. Qed.

(* a queue record changes *)
Lemma cntw_upd_scq : forall s k f a, scq_exists s k = true ->
  (cntw (upd_scq k f s) a + flen (touch a) (q_workers (get_scq s k)) =
   cntw s a + flen (touch a) (q_workers (f (get_scq s k))))%nat.
Proof.
  intros s k f a He. unfold cntw, upd_scq, get_scq, scq_exists in *.
  destruct (aget skey_eqb k (s_scqs s)) as [q|] eqn:E; [|discriminate]. cbn [s_scqs set].
  exact (asum_aset skey_eqb skey_eqb_eq (qcnt a) k q (f q) (s_scqs s) E).
Qed.
Lemma cntw_upd_scq_keep : forall s k f a, (forall q, q_workers (f q) = q_workers q) -> cntw (upd_scq k f s) a = cntw s a.
Proof.
  intros s k f a Hf. destruct (scq_exists s k) eqn:He.
  - pose proof (cntw_upd_scq s k f a He) as H. rewrite Hf in H. lia.
  - unfold upd_scq, scq_exists in *. destruct (aget skey_eqb k (s_scqs s)); [discriminate|reflexivity].
Qed.

(* a worker record changes *)
Lemma cntw_upd_worker : forall s w f a, worker_exists s w = true ->
  (cntw (upd_worker w f s) a + (if touch a (w, get_worker s w) then 1 else 0) =
   cntw s a + (if touch a (w, f (get_worker s w)) then 1 else 0))%nat.
Proof.
  intros s w f a He. unfold upd_worker. rewrite He.
  assert (Hs : scq_exists s (w_sk w) = true).
  { unfold worker_exists, get_scq, scq_exists in *. destruct (aget skey_eqb (w_sk w) (s_scqs s)); [reflexivity|discriminate]. }
  pose proof (cntw_upd_scq s (w_sk w) (fun q => q <| q_workers := aset wref_eqb w (f (get_worker s w)) (q_workers q) |>) a Hs) as H.
  cbn [q_workers set] in H.
  unfold worker_exists in He. unfold get_worker in *. destruct (aget wref_eqb w (q_workers (get_scq s (w_sk w)))) as [kw|] eqn:E; [|discriminate].
  rewrite !flen_asum in H.
  pose proof (asum_aset wref_eqb wref_eqb_eq (fun x => if touch a x then 1%nat else 0%nat) w kw (f kw) _ E) as H2. cbv beta in H2. lia.
Qed.
Lemma cntw_upd_worker_keep : forall s w f a, (forall k, k_last (f k) = k_last k) -> cntw (upd_worker w f s) a = cntw s a.
Proof.
  intros s w f a Hf. destruct (worker_exists s w) eqn:He; [|unfold upd_worker; rewrite He; reflexivity].
  pose proof (cntw_upd_worker s w f a He) as H.
  assert (E : touch a (w, f (get_worker s w)) = touch a (w, get_worker s w)) by (unfold touch; cbn; rewrite Hf; reflexivity).
  rewrite E in H. lia.
Qed.

(* a registered worker with a last invocation is counted along its chain *)
Lemma cntw_ge_one : forall s w p a, worker_exists s w = true -> k_last (get_worker s w) = Some p ->
  In a (chain (last_iref w p)) -> (1 <= cntw s a)%nat.
Proof.
  intros s w p a He Hl Ha. unfold worker_exists, get_worker, get_scq in *.
  destruct (aget skey_eqb (w_sk w) (s_scqs s)) as [q|] eqn:Eq; [|cbn in He; discriminate].
  destruct (aget wref_eqb w (q_workers q)) as [kw|] eqn:Ew; [|discriminate].
  apply (aget_In skey_eqb skey_eqb_eq) in Eq. apply (aget_In wref_eqb wref_eqb_eq) in Ew.
  pose proof (asum_in (qcnt a) _ _ _ Eq) as H1. unfold qcnt at 1 in H1. cbn [snd] in H1. rewrite flen_asum in H1.
  pose proof (asum_in (fun x => if touch a x then 1%nat else 0%nat) _ _ _ Ew) as H2. cbv beta in H2.
  assert (E : touch a (w, kw) = true) by (unfold touch; cbn; rewrite Hl; apply inb_In; exact Ha). rewrite E in H2. unfold cntw. lia.
Qed.

Lemma idle_at_upd_inv_keep : forall s i f a, (forall v, v_idle (f v) = v_idle v) -> idle_at (upd_inv i f s) a = idle_at s a.
Proof.
  intros s i f a Hf. unfold idle_at. rewrite get_inv_upd_inv. destruct (iref_eqb a i && inv_exists s i) eqn:E; [|reflexivity].
  apply andb_true_iff in E. destruct E as [E _]. apply iref_eqb_eq in E. subst. rewrite Hf. reflexivity.
Qed.
Lemma idle_at_invs_new : forall s i z a, idle_at (s <| s_invs ::= fun l => l ++ [(i, new_inv z)] |>) a = idle_at s a.
Proof.
  intros. unfold idle_at, get_inv. cbn. rewrite (aget_app iref_eqb). destruct (aget iref_eqb a (s_invs s)); [reflexivity|].
  cbn. destruct (iref_eqb a i); reflexivity.
Qed.

Lemma ID_upd_worker : forall s w f, (forall k, k_last (f k) = k_last k) -> ID s -> ID (upd_worker w f s).
Proof.
  unfold ID. intros s w f Hf H a. rewrite (cntw_upd_worker_keep _ _ _ _ Hf).
  rewrite (idle_at_frame s) by (rewrite upd_worker_eq; reflexivity). apply H.
Qed.
Lemma ID_upd_scq : forall s k f, (forall q, q_workers (f q) = q_workers q) -> ID s -> ID (upd_scq k f s).
Proof.
  unfold ID. intros s k f Hf H a. rewrite (cntw_upd_scq_keep _ _ _ _ Hf).
  rewrite (idle_at_frame s) by (rewrite upd_scq_eq; reflexivity). apply H.
Qed.
Lemma ID_upd_inv : forall s i f, (forall v, v_idle (f v) = v_idle v) -> ID s -> ID (upd_inv i f s).
Proof.
  unfold ID. intros s i f Hf H a. rewrite (idle_at_upd_inv_keep _ _ _ _ Hf).
  rewrite (cntw_frame s) by (rewrite upd_inv_eq; reflexivity). apply H.
Qed.
Lemma ID_invs_new : forall s i z, ID s -> ID (s <| s_invs ::= fun l => l ++ [(i, new_inv z)] |>).
Proof. unfold ID. intros s i z H a. rewrite idle_at_invs_new. rewrite (cntw_frame s) by reflexivity. apply H. Qed.

Ltac t_ID :=
  intros;
  lazymatch goal with
  | |- ID (upd_worker _ _ _) => apply ID_upd_worker; [intro; reflexivity | assumption]
  | |- ID (upd_scq _ _ _) => apply ID_upd_scq; [let q := fresh "q" in intro q; first [reflexivity | (destruct (existsb _ (q_drains q)); reflexivity)] | assumption]
  | |- ID (upd_inv _ _ _) => apply ID_upd_inv; [intro; reflexivity | assumption]
  | |- ID (set s_invs (fun l => l ++ [(_, new_inv _)]) _) => apply ID_invs_new; assumption
  | |- _ => (eapply ID_frame; [| |eassumption]); frame_eq
  end.

(* ---- KW: a waiting worker is in the list of its last invocation ------------------------------------------------------------------ *)
Definition KW (s : state) : Prop :=
  forall w, worker_exists s w = true -> k_wait (get_worker s w) = true ->
    exists p, k_last (get_worker s w) = Some p /\ In w (v_isync (get_inv s (last_iref w p))).

Lemma KW_frame : forall s s', s_scqs s' = s_scqs s -> s_invs s' = s_invs s -> KW s -> KW s'.
Proof.
  unfold KW. intros s s' E1 E2 H w. rewrite (worker_exists_frame _ _ _ E1), (get_worker_frame' _ _ _ E1).
  intros He Hw. destruct (H w He Hw) as [p [A B]]. exists p. rewrite (get_inv_frame _ _ _ E2). auto.
Qed.
Lemma KW_upd_worker : forall s w f,
  (forall k, k_wait (f k) = false \/ (k_wait (f k) = k_wait k /\ k_last (f k) = k_last k)) -> KW s -> KW (upd_worker w f s).
Proof.
  unfold KW. intros s w f Hf H w'. rewrite worker_exists_upd_worker, get_worker_upd_worker.
  assert (Hi : forall j, get_inv (upd_worker w f s) j = get_inv s j) by (intro; apply get_inv_frame; rewrite upd_worker_eq; reflexivity).
  destruct (wref_eqb w' w && worker_exists s w) eqn:E.
  - apply andb_true_iff in E. destruct E as [E _]. apply wref_eqb_eq in E. subst w'. intros He Hw.
    destruct (Hf (get_worker s w)) as [Hn|[E1 E2]]; [congruence|]. rewrite E1 in Hw. destruct (H w He Hw) as [p [A B]].
    exists p. rewrite E2, Hi. auto.
  - intros He Hw. destruct (H w' He Hw) as [p [A B]]. exists p. rewrite Hi. auto.
Qed.
Lemma KW_upd_scq : forall s k f, (forall q, q_workers (f q) = q_workers q) -> KW s -> KW (upd_scq k f s).
Proof.
  unfold KW. intros s k f Hf H w. unfold worker_exists at 1. rewrite (get_worker_upd_scq_keep _ _ _ _ Hf).
  rewrite get_scq_upd_scq. intros He Hw.
  assert (He' : worker_exists s w = true).
  { unfold worker_exists. destruct (skey_eqb (w_sk w) k && scq_exists s k) eqn:E; [|exact He]. rewrite Hf in He.
    apply andb_true_iff in E. destruct E as [E _]. apply skey_eqb_eq in E. rewrite E. exact He. }
  destruct (H w He' Hw) as [p [A B]]. exists p. rewrite (get_inv_frame s) by (rewrite upd_scq_eq; reflexivity). auto.
Qed.
Lemma KW_upd_inv : forall s i f, (forall v x, In x (v_isync v) -> In x (v_isync (f v))) -> KW s -> KW (upd_inv i f s).
Proof.
  unfold KW. intros s i f Hf H w. rewrite (worker_exists_frame s) by apply scqs_upd_inv. rewrite (get_worker_frame' s) by apply scqs_upd_inv.
  intros He Hw. destruct (H w He Hw) as [p [A B]]. exists p. split; [exact A|]. rewrite get_inv_upd_inv.
  destruct (iref_eqb (last_iref w p) i && inv_exists s i) eqn:E; [|exact B].
  apply andb_true_iff in E. destruct E as [E _]. apply iref_eqb_eq in E. rewrite <- E. apply Hf. exact B.
Qed.
Lemma KW_invs_new : forall s i z, KW s -> KW (s <| s_invs ::= fun l => l ++ [(i, new_inv z)] |>).
Proof.
  unfold KW. intros s i z H w He Hw. destruct (H w He Hw) as [p [A B]]. exists p. split; [exact A|]. rewrite isync_invs_new. exact B.
Qed.

Ltac t_KW :=
  intros;
  lazymatch goal with
  | |- KW (upd_worker _ _ _) => apply KW_upd_worker; [intro; first [right; split; reflexivity | left; reflexivity] | assumption]
  | |- KW (upd_scq _ _ _) => apply KW_upd_scq; [let q := fresh "q" in intro q; first [reflexivity | (destruct (existsb _ (q_drains q)); reflexivity)] | assumption]
  | |- KW (upd_inv _ _ _) => apply KW_upd_inv; [cbn; intros; first [assumption | (apply in_or_app; left; assumption)] | assumption]
  | |- KW (set s_invs (fun l => l ++ [(_, new_inv _)]) _) => apply KW_invs_new; assumption
  | |- _ => (eapply KW_frame; [| |eassumption]); frame_eq
  end.

(* ---- EC: executing workers --------------------------------------------------------------------------------------------------------- *)
Definition cnto (a : iref) (ops : list (iref * nat)) : nat := flen (fun io => inb a (chain (fst io))) ops.
Definition ecount (s : state) (a : iref) (w : wref) : nat :=
  match aget wref_eqb w (v_exec (get_inv s a)) with Some n => n | None => 0%nat end.
Definition EC (ext : list nat) (s : state) : Prop :=
  forall a t w, ~ In t ext -> t_worker (get_task s t) = Some w -> (cnto a (t_ops (get_task s t)) <= ecount s a w)%nat.

Lemma EC_frame : forall ext s s', s_tasks s' = s_tasks s -> s_invs s' = s_invs s -> EC ext s -> EC ext s'.
Proof.
  unfold EC, ecount. intros ext s s' E1 E2 H a t w. rewrite (get_task_frame _ _ _ E1), (get_inv_frame _ _ _ E2). apply H.
Qed.
Lemma EC_weaken : forall ext t s, EC ext s -> EC (t :: ext) s.
Proof. unfold EC. intros ext t s H a t' w Hn. apply H. intro Hin. apply Hn. right. exact Hin. Qed.
Lemma EC_drop : forall ext t s, t_worker (get_task s t) = None -> EC (t :: ext) s -> EC ext s.
Proof.
  unfold EC. intros ext t s Hw H a t' w Hn Ht. destruct (Nat.eq_dec t' t) as [->|Hne]; [congruence|].
  apply H; [|exact Ht]. intros [E|Hin]; [congruence|contradiction].
Qed.
Lemma EC_upd_task : forall ext s t f,
  (In t ext \/ t_worker (f (get_task s t)) = None \/
   (t_worker (f (get_task s t)) = t_worker (get_task s t) /\ forall a, (cnto a (t_ops (f (get_task s t))) <= cnto a (t_ops (get_task s t)))%nat)) ->
  EC ext s -> EC ext (upd_task t f s).
Proof.
  unfold EC. intros ext s t f Hf H a t' w Hn. rewrite get_task_upd_task.
  assert (Hec : ecount (upd_task t f s) a w = ecount s a w) by (unfold ecount; rewrite (get_inv_frame s) by reflexivity; reflexivity).
  rewrite Hec. destruct (Nat.eqb t' t) eqn:E; [|apply H; exact Hn]. apply Nat.eqb_eq in E. subst t'.
  destruct Hf as [Hin|[Hnone|[Hw Hc]]]; [contradiction|congruence|]. rewrite Hw. intro Ht. specialize (H a t w Hn Ht). specialize (Hc a). lia.
Qed.
Lemma EC_newtask : forall ext s x, t_worker x = None -> EC ext s ->
  EC ext (s <| s_ntasks ::= S |> <| s_tasks ::= fun l => l ++ [(s_ntasks s, x)] |>).
Proof.
  unfold EC. intros ext s x Hx H a t w Hn. rewrite get_task_newtask.
  match goal with |- _ -> (_ <= ecount ?s' a w)%nat => assert (Hec : ecount s' a w = ecount s a w) by (unfold ecount; rewrite (get_inv_frame s) by reflexivity; reflexivity) end.
  rewrite Hec. specialize (H a t w Hn). unfold get_task in H.
  destruct (aget Nat.eqb t (s_tasks s)); [exact H|]. destruct (Nat.eqb t (s_ntasks s)); [congruence|cbn; discriminate].
Qed.
Lemma EC_upd_inv : forall ext s i f,
  (forall v w, (match aget wref_eqb w (v_exec v) with Some n => n | None => 0 end <=
                match aget wref_eqb w (v_exec (f v)) with Some n => n | None => 0 end)%nat) ->
  EC ext s -> EC ext (upd_inv i f s).
Proof.
  unfold EC. intros ext s i f Hf H a t w Hn. rewrite (get_task_frame s) by (rewrite upd_inv_eq; reflexivity). intro Ht.
  specialize (H a t w Hn Ht). unfold ecount in *. rewrite get_inv_upd_inv.
  destruct (iref_eqb a i && inv_exists s i) eqn:E; [|exact H].
  apply andb_true_iff in E. destruct E as [E _]. apply iref_eqb_eq in E. subst. specialize (Hf (get_inv s i) w). lia.
Qed.
Lemma EC_invs_new : forall ext s i z, EC ext s -> EC ext (s <| s_invs ::= fun l => l ++ [(i, new_inv z)] |>).
Proof.
  unfold EC. intros ext s i z H a t w Hn Ht. specialize (H a t w Hn Ht). unfold ecount, get_inv in *. cbn.
  rewrite (aget_app iref_eqb). destruct (aget iref_eqb a (s_invs s)); [exact H|]. cbn. destruct (iref_eqb a i); exact H.
Qed.

Ltac t_EC :=
  intros;
  lazymatch goal with
  | |- EC _ (upd_task ?t _ _) =>
    apply EC_upd_task; [ first [ (left; in_L) | (right; left; reflexivity) | (right; right; split; [reflexivity | intro; apply Nat.le_refl]) ] | assumption ]
  | |- EC _ (upd_inv _ _ _) => apply EC_upd_inv; [intros; apply Nat.le_refl | assumption]
  | |- EC _ (set s_invs (fun l => l ++ [(_, new_inv _)]) _) => apply EC_invs_new; assumption
  | |- _ => (eapply EC_frame; [| |eassumption]); frame_eq
  end.

(* ---- QP: queued invocations exist with their ancestors ----------------------------------------------------------------------------- *)
Lemma anc_exist_mono : forall s s' d, (forall a, inv_exists s a = true -> inv_exists s' a = true) -> anc_exist s d -> anc_exist s' d.
Proof. unfold anc_exist. auto. Qed.
Lemma inv_exists_invs_new : forall s i z a, inv_exists s a = true -> inv_exists (s <| s_invs ::= fun l => l ++ [(i, new_inv z)] |>) a = true.
Proof. unfold inv_exists. intros s i z a H. cbn. rewrite (aget_app iref_eqb). destruct (aget iref_eqb a (s_invs s)); [reflexivity|discriminate]. Qed.

Lemma QPs_frame : forall s s', s_invs s' = s_invs s -> QPs s -> QPs s'.
Proof. unfold QPs, anc_exist, inv_exists. intros s s' ->. auto. Qed.
Lemma in_upd_inv : forall s i f d v, In (d, v) (s_invs (upd_inv i f s)) ->
  In (d, v) (s_invs s) \/ (d = i /\ inv_exists s i = true /\ v = f (get_inv s i)).
Proof.
  intros s i f d v. unfold upd_inv, inv_exists, get_inv. destruct (aget iref_eqb i (s_invs s)) as [x|] eqn:E; [|left; assumption].
  cbn. intro H. apply (In_aset iref_eqb) in H. destruct H as [[-> ->]|H]; [right; auto|left; exact H].
Qed.
Lemma QPs_upd_inv : forall s i f, (forall v, v_qops (f v) <> [] -> v_qops v <> []) -> QPs s -> QPs (upd_inv i f s).
Proof.
  unfold QPs. intros s i f Hf H d v Hin Hq.
  apply (anc_exist_mono s); [intros a Ha; rewrite inv_exists_upd_inv; exact Ha|].
  apply in_upd_inv in Hin. destruct Hin as [Hin|[-> [He ->]]]; [exact (H d v Hin Hq)|].
  apply (H i (get_inv s i)); [apply inv_exists_in; exact He|apply Hf; exact Hq].
Qed.
Lemma QPs_invs_new : forall s i z, QPs s -> QPs (s <| s_invs ::= fun l => l ++ [(i, new_inv z)] |>).
Proof.
  unfold QPs. intros s i z H d v Hin Hq. cbn in Hin. apply in_app_or in Hin.
  destruct Hin as [Hin|[E|[]]]; [|inversion E; subst; cbn in Hq; contradiction].
  apply (anc_exist_mono s); [intros a Ha; apply inv_exists_invs_new; exact Ha|exact (H d v Hin Hq)].
Qed.

Lemma remove_nat_nonempty : forall o l, remove_nat o l <> [] -> l <> [].
Proof. intros o [|x l] H; [exact H|discriminate]. Qed.

Ltac t_QP :=
  intros;
  lazymatch goal with
  | |- QPs (upd_inv _ _ _) => apply QPs_upd_inv; [cbn; intros; first [assumption | (eapply remove_nat_nonempty; eassumption)] | assumption]
  | |- QPs (set s_invs (fun l => l ++ [(_, new_inv _)]) _) => apply QPs_invs_new; assumption
  | |- _ => (eapply QPs_frame; [|eassumption]); frame_eq
  end.

(* ---- NQ: nothing is queued in the size class queue of a waiting worker ----------------------------------------------------------- *)
Definition NQ (s : state) : Prop :=
  forall w, worker_exists s w = true -> k_wait (get_worker s w) = true -> is_queued s (mkI (w_sk w) []) = false.

Lemma is_queued_frame : forall s s' i, s_invs s' = s_invs s -> is_queued s' i = is_queued s i.
Proof. unfold is_queued. intros s s' i ->. reflexivity. Qed.
Lemma NQ_frame : forall s s', s_scqs s' = s_scqs s -> s_invs s' = s_invs s -> NQ s -> NQ s'.
Proof.
  unfold NQ. intros s s' E1 E2 H w. rewrite (worker_exists_frame _ _ _ E1), (get_worker_frame' _ _ _ E1), (is_queued_frame _ _ _ E2). apply H.
Qed.
Lemma NQ_upd_worker : forall s w f, (forall k, k_wait (f k) = false \/ k_wait (f k) = k_wait k) -> NQ s -> NQ (upd_worker w f s).
Proof.
  unfold NQ. intros s w f Hf H w'. rewrite worker_exists_upd_worker, get_worker_upd_worker.
  rewrite (is_queued_frame s) by (rewrite upd_worker_eq; reflexivity).
  destruct (wref_eqb w' w && worker_exists s w) eqn:E; [|apply H].
  apply andb_true_iff in E. destruct E as [E _]. apply wref_eqb_eq in E. subst w'. intros He Hw.
  destruct (Hf (get_worker s w)) as [Hn|E1]; [congruence|]. rewrite E1 in Hw. exact (H w He Hw).
Qed.
Lemma NQ_upd_scq : forall s k f, (forall q, q_workers (f q) = q_workers q) -> NQ s -> NQ (upd_scq k f s).
Proof.
  unfold NQ. intros s k f Hf H w. unfold worker_exists at 1. rewrite (get_worker_upd_scq_keep _ _ _ _ Hf).
  rewrite get_scq_upd_scq. rewrite (is_queued_frame s) by (rewrite upd_scq_eq; reflexivity). intros He Hw. apply H; [|exact Hw].
  unfold worker_exists. destruct (skey_eqb (w_sk w) k && scq_exists s k) eqn:E; [|exact He]. rewrite Hf in He.
  apply andb_true_iff in E. destruct E as [E _]. apply skey_eqb_eq in E. rewrite E. exact He.
Qed.
Lemma is_queued_upd_inv : forall s i f j, (forall v, v_qops (f v) <> [] -> v_qops v <> []) ->
  is_queued (upd_inv i f s) j = true -> is_queued s j = true.
Proof.
  intros s i f j Hf H. apply is_queued_iff in H. destruct H as [d [v [Hin [Hc Hq]]]]. apply is_queued_iff.
  apply in_upd_inv in Hin. destruct Hin as [Hin|[-> [He ->]]]; [exists d, v; auto|].
  exists i, (get_inv s i). split; [apply inv_exists_in; exact He|]. split; [exact Hc|apply Hf; exact Hq].
Qed.
Lemma NQ_upd_inv : forall s i f, (forall v, v_qops (f v) <> [] -> v_qops v <> []) -> NQ s -> NQ (upd_inv i f s).
Proof.
  unfold NQ. intros s i f Hf H w. rewrite (worker_exists_frame s) by apply scqs_upd_inv. rewrite (get_worker_frame' s) by apply scqs_upd_inv.
  intros He Hw. specialize (H w He Hw). destruct (is_queued (upd_inv i f s) (mkI (w_sk w) [])) eqn:E; [|reflexivity].
  apply (is_queued_upd_inv _ _ _ _ Hf) in E. congruence.
Qed.
Lemma is_queued_invs_new : forall s i z j, is_queued (s <| s_invs ::= fun l => l ++ [(i, new_inv z)] |>) j = is_queued s j.
Proof. intros. unfold is_queued. cbn. rewrite existsb_app. cbn. rewrite andb_false_r. rewrite !orb_false_r. reflexivity. Qed.
Lemma NQ_invs_new : forall s i z, NQ s -> NQ (s <| s_invs ::= fun l => l ++ [(i, new_inv z)] |>).
Proof. unfold NQ. intros s i z H w He Hw. rewrite is_queued_invs_new. exact (H w He Hw). Qed.

Ltac t_NQ :=
  intros;
  lazymatch goal with
  | |- NQ (upd_worker _ _ _) => apply NQ_upd_worker; [intro; first [right; reflexivity | left; reflexivity] | assumption]
  | |- NQ (upd_scq _ _ _) => apply NQ_upd_scq; [let q := fresh "q" in intro q; first [reflexivity | (destruct (existsb _ (q_drains q)); reflexivity)] | assumption]
  | |- NQ (upd_inv _ _ _) => apply NQ_upd_inv; [cbn; intros; first [assumption | (eapply remove_nat_nonempty; eassumption)] | assumption]
  | |- NQ (set s_invs (fun l => l ++ [(_, new_inv _)]) _) => apply NQ_invs_new; assumption
  | |- _ => (eapply NQ_frame; [| |eassumption]); frame_eq
  end.

(* ---- the executing-workers table of one invocation ------------------------------------------------------------------------------- *)
Definition xcnt (l : list (wref * nat)) (w : wref) : nat := match aget wref_eqb w l with Some n => n | None => 0%nat end.
Lemma xcnt_exec_incr : forall l w w', xcnt (exec_incr w l) w' = (xcnt l w' + (if wref_eqb w' w then 1 else 0))%nat.
Proof.
  intros l w w'. unfold xcnt, exec_incr. destruct (aget wref_eqb w l) as [n|] eqn:E.
  - rewrite (aget_aset wref_eqb wref_eqb_eq). destruct (wref_eqb w' w) eqn:Ew; [|lia].
    apply wref_eqb_eq in Ew. subst. rewrite E. lia.
  - rewrite (aget_app wref_eqb). destruct (aget wref_eqb w' l) as [m|] eqn:E2.
    + destruct (wref_eqb w' w) eqn:Ew; [|lia]. apply wref_eqb_eq in Ew. subst. congruence.
    + cbn. destruct (wref_eqb w' w); lia.
Qed.
Lemma exec_incr_mono : forall w l w',
  (match aget wref_eqb w' l with Some n => n | None => 0 end <= match aget wref_eqb w' (exec_incr w l) with Some n => n | None => 0 end)%nat.
Proof. intros w l w'. change (xcnt l w' <= xcnt (exec_incr w l) w')%nat. rewrite xcnt_exec_incr. lia. Qed.
Lemma ecount_xcnt : forall s a w, ecount s a w = xcnt (v_exec (get_inv s a)) w.
Proof. reflexivity. Qed.
