(* C01: a Synchronize response tells a worker to execute only the task that
   is assigned to that worker in the state the event leaves behind, with that
   task's recorded desired state. *)
From Coq Require Import Lia.
From VF Require Export Sched.ProofsAbsorb.
Open Scope Z_scope.

Definition is_exec (d : desired) : bool := match d with DExec _ _ _ _ _ => true | _ => false end.
Definition is_sync_exec (o : obs) : bool := match o with OSync _ d _ => is_exec d | _ => false end.
Definition NoSX (s : state) : Prop := forall o, In o (s_out s) -> is_sync_exec o = false.
Definition SyncOK (s : state) : Prop :=
  forall c d z, In (OSync c d z) (s_out s) -> is_exec d = true ->
    exists w t, k_task (get_worker s w) = Some t /\ d = exec_desired s t.

Lemma NoSX_frame : forall s s', s_out s' = s_out s -> NoSX s -> NoSX s'.
Proof. unfold NoSX. intros s s' ->. auto. Qed.
Lemma NoSX_emit : forall s o, is_sync_exec o = false -> NoSX s -> NoSX (emit o s).
Proof. unfold NoSX, emit. intros s o Ho H x. cbn. intros [<-|Hx]; auto. Qed.
Ltac t_nosx :=
  intros;
  first [ (eapply NoSX_frame; [ | eassumption]; frame_eq)
        | (apply NoSX_emit; [reflexivity | assumption]) ].
Ltac nosx_go := inv_go fail t_nosx.

Lemma S_stay : forall s, NoSX s -> SyncOK s.
Proof. intros s H c d z Hin Hd. specialize (H _ Hin). cbn in H. congruence. Qed.

Lemma get_worker_upd_worker_ktask : forall s w w' f,
  (forall k, k_task (f k) = k_task k) -> k_task (get_worker (upd_worker w' f s) w) = k_task (get_worker s w).
Proof.
  intros s w w' f Hf. unfold upd_worker. destruct (worker_exists s w') eqn:Ee; [|reflexivity].
  unfold upd_scq. destruct (aget skey_eqb (w_sk w') (s_scqs s)) as [q|] eqn:Eq; [|reflexivity].
  unfold get_worker at 1, get_scq. cbn. rewrite (aget_aset skey_eqb skey_eqb_eq).
  destruct (skey_eqb (w_sk w) (w_sk w')) eqn:Ek.
  - apply skey_eqb_eq in Ek. cbn. rewrite (aget_aset wref_eqb wref_eqb_eq). destruct (wref_eqb w w') eqn:Ew.
    + apply wref_eqb_eq in Ew. subst w'. rewrite Hf. reflexivity.
    + unfold get_worker, get_scq. rewrite Ek, Eq. reflexivity.
  - reflexivity.
Qed.

Lemma get_worker_frame : forall s s' w, s_scqs s' = s_scqs s -> get_worker s' w = get_worker s w.
Proof. unfold get_worker, get_scq. intros s s' w ->. reflexivity. Qed.

Lemma S_sync_return_exec : forall c w s, NoSX s -> SyncOK (sync_return_exec c w s).
Proof.
  intros c w s H. unfold sync_return_exec. destruct (k_task (get_worker s w)) as [t|] eqn:Ek.
  - set (ob := OSync c (exec_desired s t) (s_now s + cf_busy_sync (s_cfg s))).
    set (s1 := emit ob s). unfold finish_sync.
    set (s2 := match k_cleanup (get_worker s1 w) with Some _ => panic "Cleanup key is already in use" s1 | None => _ end).
    assert (F : s_tasks s2 = s_tasks s /\ k_task (get_worker s2 w) = Some t /\
                (forall o, In o (s_out s2) -> o = ob \/ is_sync_exec o = false)).
    { unfold s2. destruct (k_cleanup (get_worker s1 w)).
      - split; [reflexivity|]. split; [exact Ek|]. intros o [<-|[<-|Ho]]; [right; reflexivity|left; reflexivity|right; apply H; exact Ho].
      - split; [rewrite upd_worker_eq; reflexivity|]. split.
        + rewrite get_worker_upd_worker_ktask by reflexivity. exact Ek.
        + rewrite upd_worker_eq. intros o [<-|Ho]; [left; reflexivity|right; apply H; exact Ho]. }
    destruct F as [F1 [F2 F3]]. clearbody s2.
    intros c' d z Hin Hd. change (In (OSync c' d z) (s_out s2)) in Hin.
    destruct (F3 _ Hin) as [Heq|Hno]; [|cbn in Hno; congruence].
    unfold ob in Heq. inversion Heq; subst. exists w, t. split.
    + rewrite (get_worker_frame s2 (set_call c PDone s2) w) by reflexivity. exact F2.
    + unfold exec_desired. rewrite (get_task_frame s (set_call c PDone s2) t) by exact F1. reflexivity.
  - apply S_stay. unfold finish_sync. nosx_go.
Qed.

Ltac s_base := idtac; lazymatch goal with |- SyncOK (sync_return_exec _ _ _) => apply S_sync_return_exec; nosx_go end.

Lemma S_sync_loop : forall c w s, NoSX s -> SyncOK (sync_loop c w s).
Proof.
  intros c w s H. unfold sync_loop. hoare s_base. all: apply S_stay; nosx_go.
Qed.

Lemma S_get_next_task : forall c w b pr s, NoSX s -> SyncOK (get_next_task c w b pr s).
Proof.
  intros c w b pr s H. unfold get_next_task.
  hoare ltac:(first [s_base | lazymatch goal with |- SyncOK (sync_loop _ _ _) => apply S_sync_loop; nosx_go end]).
  all: apply S_stay; nosx_go.
Qed.

Lemma S_get_current_or_next : forall c w b pr s, NoSX s -> SyncOK (get_current_or_next c w b pr s).
Proof.
  intros c w b pr s H. unfold get_current_or_next.
  hoare ltac:(first [s_base | lazymatch goal with |- SyncOK (get_next_task _ _ _ _ _) => apply S_get_next_task; nosx_go end]).
  all: apply S_stay; nosx_go.
Qed.

Lemma S_sync_start : forall c a s, NoSX s -> SyncOK (sync_start c a s).
Proof.
  intros c a s H. unfold sync_start. cbv zeta.
  match goal with |- SyncOK (match ?R with _ => _ end) => destruct R as [s1|code1] eqn:ER end;
    [|apply S_stay; nosx_go].
  assert (H1 : NoSX s1) by (sum_cases ER; injection ER as <-; unfold add_scq, add_pq; nosx_go).
  clear ER H. revert H1. generalize s1. clear s. intros s H.
  match goal with |- SyncOK (match ?R with _ => _ end) => destruct R as [s2|code2] eqn:ER end;
    [|apply S_stay; nosx_go].
  assert (H2 : NoSX s2) by (sum_cases ER; injection ER as <-; nosx_go).
  clear ER H. revert H2. generalize s2. clear s. intros s H.
  hoare ltac:(first [ s_base
    | lazymatch goal with
      | |- SyncOK (get_next_task _ _ _ _ _) => apply S_get_next_task; nosx_go
      | |- SyncOK (get_current_or_next _ _ _ _ _) => apply S_get_current_or_next; nosx_go
      end ]).
  all: apply S_stay; nosx_go.
Qed.

Lemma step_core_sync_ok : forall e s, NoSX s -> SyncOK (step_core e s).
Proof.
  intros e s H. destruct e; unfold step_core.
  all: try (apply S_stay; nosx_go; fail).
  - apply S_sync_start. nosx_go.
  - hoare ltac:(first [ s_base | lazymatch goal with |- SyncOK (sync_loop _ _ _) => apply S_sync_loop; nosx_go end ]).
    all: apply S_stay; nosx_go.
  - hoare ltac:(first [ s_base | lazymatch goal with |- SyncOK (sync_loop _ _ _) => apply S_sync_loop; nosx_go end ]).
    all: apply S_stay; nosx_go.
Qed.

Lemma SyncOK_ret : forall s c code, SyncOK s -> SyncOK (ret c code s).
Proof.
  intros s c code H c' d z Hin Hd. unfold ret, set_call, emit in Hin. cbn in Hin. destruct Hin as [Heq|Hin]; [discriminate|].
  destruct (H _ _ _ Hin Hd) as [w [t [Hk Hx]]]. exists w, t. split; [exact Hk|exact Hx].
Qed.

(* sync_tells_assigned *)
Lemma sync_tells_assigned_step : forall s eh c dg dnc tm qts sfx z,
  In (OSync c (DExec dg dnc tm qts sfx) z) (snd (step s eh)) ->
  let s' := fst (step s eh) in
  exists w t, k_task (get_worker s' w) = Some t /\ exec_desired s' t = DExec dg dnc tm qts sfx.
Proof.
  intros s eh c dg dnc tm qts sfx z Hin. unfold step in *. cbn [fst snd] in *. apply in_rev in Hin.
  set (sa := s <| s_hints := snd eh |> <| s_out := [] |>) in *.
  assert (Ha : NoSX sa) by (intros x []).
  pose proof (step_core_sync_ok (fst eh) sa Ha) as H1.
  assert (H2 : SyncOK (auto_returns (step_core (fst eh) sa))).
  { apply fr_auto_returns with (P := SyncOK); [apply SyncOK_ret|exact H1]. }
  destruct (H2 _ _ _ Hin eq_refl) as [w [t [Hk Hx]]]. exists w, t. split; [exact Hk|symmetry; exact Hx].
Qed.
