(* C06 — the property theorems about the scheduler model, and nothing else. *)
From VF Require Import Sched.Proofs.
Open Scope Z_scope.

(* operation.maybeStartCleanup on a registered operation nobody waits on and
   whose existence the client knows of: removal is scheduled at
   now + OperationWithNoWaitersTimeout. *)
Theorem maybe_start_cleanup_arms : forall s o,
  op_alive s o = true -> o_waiters (get_op s o) = O -> o_mayexist (get_op s o) = false ->
  o_cleanup (get_op s o) = None ->
  o_cleanup (get_op (maybe_start_cleanup o s) o) = Some (s_now s + cf_nowaiters (s_cfg s))
  /\ s_out (maybe_start_cleanup o s) = s_out s.
Proof. exact maybe_start_cleanup_arms. Qed.
Print Assumptions maybe_start_cleanup_arms.

(* cnt o calls: the number of calls parked in the stream loop of operation o
   (program counters PStream o _, PStreamCancelled o, PStreamReturn o _). *)

(* waiters_exact: in every reachable state the waiter count of every
   registered operation is the number of streams parked on it ... *)
Theorem waiters_exact : forall cfg t0 evs o x,
  fresh_calls [] evs -> let s := fst (run (init cfg t0) evs) in
  aget Nat.eqb o (s_ops s) = Some x -> o_waiters x = cnt o (s_calls s).
Proof. exact waiters_count_all. Qed.
Print Assumptions waiters_exact.

(* ... every stream is parked on a registered operation (operations with
   waiters are never collected) ... *)
Theorem parked_on_registered : forall cfg t0 evs c p o,
  fresh_calls [] evs -> let s := fst (run (init cfg t0) evs) in
  aget Nat.eqb c (s_calls s) = Some p -> parked_on p = Some o -> op_alive s o = true.
Proof. exact parked_alive_all. Qed.
Print Assumptions parked_on_registered.

(* ... and a removal is scheduled only for operations nobody waits on. *)
Theorem armed_only_unwaited : forall cfg t0 evs o x,
  fresh_calls [] evs -> let s := fst (run (init cfg t0) evs) in
  aget Nat.eqb o (s_ops s) = Some x -> o_cleanup x <> None -> o_waiters x = O.
Proof. exact armed_only_unwaited_all. Qed.
Print Assumptions armed_only_unwaited.

(* every operation a task lists is registered and belongs to that task *)
Theorem task_ops_registered : forall cfg t0 evs t x i o,
  fresh_calls [] evs -> let s := fst (run (init cfg t0) evs) in
  aget Nat.eqb t (s_tasks s) = Some x -> In (i, o) (t_ops x) ->
  exists y, aget Nat.eqb o (s_ops s) = Some y /\ o_task y = t.
Proof. exact task_ops_registered_all. Qed.
Print Assumptions task_ops_registered.

(* worker_timeout / no_waiter_timeout / queue_timeout, as what bq.enter does:
   whenever a critical section reads the clock as t > now, the clean-up loop
   runs every callback whose time has come, in time order, so that afterwards
   every time-out still armed (operation, worker or queue) lies strictly in
   the future -- or the loop ran out of fuel, which the model reports as
   OPanic "cleanup: out of fuel" (compared with the implementation's
   outputs on every history). *)
Theorem enter_fires_all_overdue : forall t s, s_now s < t ->
  In (OPanic "cleanup: out of fuel") (s_out (enter t s)) \/
  (forall e, In e (cleanup_entries (enter t s)) -> s_now (enter t s) < fst e).
Proof. exact enter_fires_all_overdue. Qed.
Print Assumptions enter_fires_all_overdue.

(* armed_when_unwaited: in every reachable state, a registered operation that
   nobody waits on and whose existence a client knows of has its removal
   scheduled (background-learning operations the client never heard of are
   exempt until their task is handed over) ... *)
Theorem armed_when_unwaited : forall cfg t0 evs o x,
  fresh_calls [] evs -> let s := fst (run (init cfg t0) evs) in
  aget Nat.eqb o (s_ops s) = Some x -> o_waiters x = O -> o_mayexist x = false -> o_cleanup x <> None.
Proof. exact armed_when_unwaited_all. Qed.
Print Assumptions armed_when_unwaited.

(* ... which is the operation part of the monitor Spec.c06_dump evaluated on the model's own dump. *)
Theorem c06_ops_ok : forall cfg t0 evs, fresh_calls [] evs ->
  let s := fst (run (init cfg t0) evs) in
  forallb (fun o => negb (Nat.eqb (do_waiters o) 0 && negb (do_mayexist o)
                          && match do_cleanup o with None => true | Some _ => false end))
          (d_ops (observe s)) = true.
Proof. exact c06_ops_ok. Qed.
Print Assumptions c06_ops_ok.

(* NOT PROVED YET (see docs/areas/Sched-proofs.md):
   worker_attended : every worker has k_cleanup <> None or a Synchronize call naming it;
   the queue / empty-invocation parts of Spec.c06_dump; c06_final (gc_complete). *)
