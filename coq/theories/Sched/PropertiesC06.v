(* C06 — the property theorems about the scheduler model, and nothing else. *)
From VF Require Import Sched.Proofs.
Open Scope Z_scope.

(* operation.maybeStartCleanup on a registered operation nobody waits on and
   whose existence the client knows of: removal is scheduled at
   now + OperationWithNoWaitersTimeout. *)
Theorem maybe_start_cleanup_arms : forall s o,
  op_alive s o = true -> o_waiters (get_op s o) = O -> o_mayexist (get_op s o) = false ->
  o_cleanup (get_op s o) = None ->
  o_cleanup (get_op (maybe_start_cleanup o s) o) = Some (s_now s + cf_nowaiters (s_cfg s))
  /\ s_out (maybe_start_cleanup o s) = s_out s.
Proof. exact maybe_start_cleanup_arms. Qed.
Print Assumptions maybe_start_cleanup_arms.
