(* C06 — the property theorems about the scheduler model, and nothing else. *)
From VF Require Import Sched.Proofs.
Open Scope Z_scope.

(* operation.maybeStartCleanup on a registered operation nobody waits on and
   whose existence the client knows of: removal is scheduled at
   now + OperationWithNoWaitersTimeout. *)
Theorem maybe_start_cleanup_arms : forall s o,
  op_alive s o = true -> o_waiters (get_op s o) = O -> o_mayexist (get_op s o) = false ->
  o_cleanup (get_op s o) = None ->
  o_cleanup (get_op (maybe_start_cleanup o s) o) = Some (s_now s + cf_nowaiters (s_cfg s))
  /\ s_out (maybe_start_cleanup o s) = s_out s.
Proof. exact maybe_start_cleanup_arms. Qed.
Print Assumptions maybe_start_cleanup_arms.

(* cnt o calls: the number of calls parked in the stream loop of operation o
   (program counters PStream o _, PStreamCancelled o, PStreamReturn o _). *)

(* waiters_exact: in every reachable state the waiter count of every
   registered operation is the number of streams parked on it ... *)
Theorem waiters_exact : forall cfg t0 evs o x,
  fresh_calls [] evs -> let s := fst (run (init cfg t0) evs) in
  aget Nat.eqb o (s_ops s) = Some x -> o_waiters x = cnt o (s_calls s).
Proof. exact waiters_count_all. Qed.
Print Assumptions waiters_exact.

(* ... every stream is parked on a registered operation (operations with
   waiters are never collected) ... *)
Theorem parked_on_registered : forall cfg t0 evs c p o,
  fresh_calls [] evs -> let s := fst (run (init cfg t0) evs) in
  aget Nat.eqb c (s_calls s) = Some p -> parked_on p = Some o -> op_alive s o = true.
Proof. exact parked_alive_all. Qed.
Print Assumptions parked_on_registered.

(* ... and a removal is scheduled only for operations nobody waits on. *)
Theorem armed_only_unwaited : forall cfg t0 evs o x,
  fresh_calls [] evs -> let s := fst (run (init cfg t0) evs) in
  aget Nat.eqb o (s_ops s) = Some x -> o_cleanup x <> None -> o_waiters x = O.
Proof. exact armed_only_unwaited_all. Qed.
Print Assumptions armed_only_unwaited.

(* every operation a task lists is registered and belongs to that task *)
Theorem task_ops_registered : forall cfg t0 evs t x i o,
  fresh_calls [] evs -> let s := fst (run (init cfg t0) evs) in
  aget Nat.eqb t (s_tasks s) = Some x -> In (i, o) (t_ops x) ->
  exists y, aget Nat.eqb o (s_ops s) = Some y /\ o_task y = t.
Proof. exact task_ops_registered_all. Qed.
Print Assumptions task_ops_registered.

(* worker_timeout / no_waiter_timeout / queue_timeout, as what bq.enter does:
   whenever a critical section reads the clock as t > now, the clean-up loop
   runs every callback whose time has come, in time order, so that afterwards
   every time-out still armed (operation, worker or queue) lies strictly in
   the future -- or the loop ran out of fuel, which the model reports as
   OPanic "cleanup: out of fuel" (compared with the implementation's
   outputs on every history). *)
Theorem enter_fires_all_overdue : forall t s, s_now s < t ->
  In (OPanic "cleanup: out of fuel") (s_out (enter t s)) \/
  (forall e, In e (cleanup_entries (enter t s)) -> s_now (enter t s) < fst e).
Proof. exact enter_fires_all_overdue. Qed.
Print Assumptions enter_fires_all_overdue.

(* armed_when_unwaited: in every reachable state, a registered operation that
   nobody waits on and whose existence a client knows of has its removal
   scheduled (background-learning operations the client never heard of are
   exempt until their task is handed over) ... *)
Theorem armed_when_unwaited : forall cfg t0 evs o x,
  fresh_calls [] evs -> let s := fst (run (init cfg t0) evs) in
  aget Nat.eqb o (s_ops s) = Some x -> o_waiters x = O -> o_mayexist x = false -> o_cleanup x <> None.
Proof. exact armed_when_unwaited_all. Qed.
Print Assumptions armed_when_unwaited.

(* ... which is the operation part of the monitor Spec.c06_dump evaluated on the model's own dump. *)
Theorem c06_ops_ok : forall cfg t0 evs, fresh_calls [] evs ->
  let s := fst (run (init cfg t0) evs) in
  forallb (fun o => negb (Nat.eqb (do_waiters o) 0 && negb (do_mayexist o)
                          && match do_cleanup o with None => true | Some _ => false end))
          (d_ops (observe s)) = true.
Proof. exact c06_ops_ok. Qed.
Print Assumptions c06_ops_ok.

(* retry_limit: the (N+1)-th redundant request for the task a worker already
   holds completes the task with INTERNAL; before that the worker is told to
   execute it again and the count goes up. *)
Theorem retry_limit : forall c w b pr s t,
  k_task (get_worker s w) = Some t -> (cf_retry_count (s_cfg s) <= t_retry (get_task s t))%nat ->
  get_current_or_next c w b pr s = get_next_task c w b pr (complete_task t (mkResp cINTERNAL 0 0) false s).
Proof. exact retry_limit. Qed.
Print Assumptions retry_limit.

Theorem retry_below_limit : forall c w b pr s t,
  k_task (get_worker s w) = Some t -> (t_retry (get_task s t) < cf_retry_count (s_cfg s))%nat ->
  get_current_or_next c w b pr s = sync_return_exec c w (upd_task t (fun x => x <| t_retry ::= S |>) s).
Proof. exact retry_below_limit. Qed.
Print Assumptions retry_below_limit.

(* worker_timeout: what the callback of a lapsed worker time-out does: the
   worker is marked terminating, its task (if any) fails with UNAVAILABLE, the
   worker is forgotten, and if it was the last worker of a worker-created
   queue the queue's own time-out is armed at (lapsed time + queue timeout). *)
Theorem worker_timeout : forall w z s t,
  k_task (get_worker (mark_terminating w s) w) = Some t ->
  remove_stale_worker w z s =
  let s1 := complete_task t (mkResp cUNAVAILABLE 0 0) false (mark_terminating w s) in
  let s2 := clear_last_invocation w s1 in
  let s3 := upd_scq (w_sk w) (fun q => q <| q_workers ::= adel wref_eqb w |>) s2 in
  if Nat.eqb (List.length (q_workers (get_scq s3 (w_sk w)))) 0 && q_removable (get_scq s3 (w_sk w))
  then upd_scq (w_sk w) (fun q => q <| q_cleanup := Some (z + cf_pq_noworkers (s_cfg s3)) |>) s3
  else s3.
Proof. exact remove_stale_worker_fails_task. Qed.
Print Assumptions worker_timeout.

(* no_waiter_timeout: the callback removes the operation; the task is
   cancelled when it was its last operation. *)
Theorem no_waiter_timeout : forall o s,
  List.length (t_ops (get_task s (o_task (get_op s o)))) = 1%nat ->
  operation_remove o s =
  let t := o_task (get_op s o) in
  let s1 := complete_task t (mkResp cCANCELLED 0 0) false s in
  upd_task t (fun y => y <| t_ops := filter (fun '(_, o') => negb (Nat.eqb o o')) (t_ops y) |>)
    (s1 <| s_ops := adel Nat.eqb o (s_ops s1) |>).
Proof. exact operation_remove_last_cancels. Qed.
Print Assumptions no_waiter_timeout.

(* worker_attended: over every run whose calls are numbered freshly, either some event reported one of the
   scheduler's impossible-state panics ([panicked]: an OPanic among the observations of some event -- the monitor
   reports that as a violation by itself), or in the reached state every registered worker has its removal
   time-out armed or is named by a parked Synchronize call.  (The escape is needed for one assertion only:
   "parking a worker without last invocation" in the blocking loop of Synchronize leaves a just-disarmed
   worker behind; excluding it needs an invariant about workers parked on the undrain wake-up, not proved.) *)
Theorem worker_attended : forall cfg t0 evs, fresh_calls [] evs ->
  let s := fst (run (init cfg t0) evs) in
  panicked (snd (run (init cfg t0) evs)) \/
  forall w, worker_exists s w = true ->
    k_cleanup (get_worker s w) <> None \/ exists c p, aget Nat.eqb c (s_calls s) = Some p /\ sync_of p = Some w.
Proof. exact worker_attended. Qed.
Print Assumptions worker_attended.

(* workerless_queue_armed: in every reachable state (all event lists, no hypothesis) a removable size class
   queue without workers has its removal time-out armed.  (The converse -- a queue whose removal is armed has no
   workers -- is part of PropertiesC01.parked_workers.) *)
Theorem workerless_queue_armed : forall cfg t0 evs k,
  let s := fst (run (init cfg t0) evs) in
  scq_exists s k = true -> q_removable (get_scq s k) = true -> q_workers (get_scq s k) = [] -> q_cleanup (get_scq s k) <> None.
Proof. exact workerless_queue_armed. Qed.
Print Assumptions workerless_queue_armed.

(* gc_complete: once every call has returned and no time-out is pending, nothing created on behalf of clients or
   workers remains -- every registered operation is one the scheduler made for itself (background learning), there is
   no worker, and no dynamically created size class queue -- unless a scheduler panic was observed on the way
   (escape inherited from worker_attended). *)
Theorem gc_complete : forall cfg t0 evs, fresh_calls [] evs ->
  let s := fst (run (init cfg t0) evs) in
  panicked (snd (run (init cfg t0) evs)) \/
  ((forall c p, aget Nat.eqb c (s_calls s) = Some p -> p = PDone) ->
   (forall o x, aget Nat.eqb o (s_ops s) = Some x -> o_cleanup x = None) ->
   (forall w, worker_exists s w = true -> k_cleanup (get_worker s w) = None) ->
   (forall k, scq_exists s k = true -> q_cleanup (get_scq s k) = None) ->
   (forall o x, aget Nat.eqb o (s_ops s) = Some x -> o_mayexist x = true) /\
   (forall w, worker_exists s w = false) /\
   (forall k, scq_exists s k = true -> q_removable (get_scq s k) = false)).
Proof. exact gc_complete. Qed.
Print Assumptions gc_complete.

(* NOT PROVED YET (see docs/areas/Sched-proofs.md):
   the empty-invocation part of Spec.c06_dump; the monitor-state versions (m_syncs, m_live) of these statements. *)

(* ---- position 13 of p_components (e_arm): timeouts are measured from the moment the party was last heard of ----
   every answer of a Synchronize call leaves its worker with the removal armed at now + worker timeout
   (sync_answer_armed), and a stream that returns and leaves its operation without waiters arms its removal at
   now + no-waiters timeout, no other registered operation losing waiters in that event (stream_return_spec, WUb) *)
Theorem sync_answer_armed : forall s e h, SW s -> calls_nodup s ->
  let s' := fst (step s (e, h)) in
  (exists x, In x (snd (step s (e, h))) /\ is_osync x = true) ->
  exists w, sync_worker e (get_call s (ev_call e)) = Some w /\ (Pan (auto_returns (step_core e (s <| s_hints := h |> <| s_out := [] |>))) \/ armed w s').
Proof. exact sync_answer_armed. Qed.
Print Assumptions sync_answer_armed.

Theorem monitor_arm_on_model : forall cfg t0 evs,
  selectors_in_range (init cfg t0) evs -> fresh_calls [] evs -> bg_scripts_ok evs -> causes_ok evs ->
  panicked (snd (run (init cfg t0) evs)) \/ trace_sub [13%nat] cfg t0 (model_trace cfg t0 evs) = true.
Proof. exact monitor_arm_on_model. Qed.
Print Assumptions monitor_arm_on_model.

(* ---- regression: the monitor's retry bookkeeping (positions 14 and 15 of p_step) on a re-assignment to the same worker ----
   rw_evs, rw_evs2 (ProofsMonW.v): retry count 0, one size class; a worker is told to run a task, reports a failure, the
   learner asks for the retry and the same Synchronize call is handed the task again (then the worker asks once more).
   An earlier p_step counted the second DExec as a re-issue; it now clears m_reissue[w] on an accepted completion report. *)
Example retry_monitor_accepts_reassignment :
  (selectors_in_range (init rw_cfg 0) rw_evs2 /\ fresh_calls [] rw_evs2 /\ bg_scripts_ok rw_evs2 /\ learner_ids_unique rw_evs2 /\ causes_ok rw_evs2) /\
  trace_ok rw_cfg 0 (model_trace rw_cfg 0 rw_evs) = true /\ trace_ok rw_cfg 0 (model_trace rw_cfg 0 rw_evs2) = true.
Proof. exact (conj rw2_hypotheses (conj rw_accepted rw2_accepted)). Qed.

(* ---- regression: position 15 (e_early) when deduplication changes the operation set of an assigned task ----
   rw3_evs (ProofsMonW.v): retry count 1; while a worker holds a task, in-flight deduplication attaches a second operation
   to it; the worker asks again twice and the model fails the task at the limit.  An earlier retry_fold recognised the task
   by same_set of its operation list and restarted its count; p_step now recognises it by a shared operation id. *)
Example early_monitor_accepts_deduplicated_task :
  (selectors_in_range (init rw3_cfg 0) rw3_evs /\ fresh_calls [] rw3_evs /\ bg_scripts_ok rw3_evs /\ learner_ids_unique rw3_evs /\ causes_ok rw3_evs) /\
  trace_ok rw3_cfg 0 (model_trace rw3_cfg 0 rw3_evs) = true.
Proof. exact (conj rw3_hypotheses rw3_accepted). Qed.

(* ---- regression: position 15 (e_early) and an assignment whose delivery was cancelled ----
   rw4_evs (ProofsMonW.v), retry count 1: a parked worker's Synchronize call is cancelled; before it leaves the scheduler
   an Execute hands the still listed worker a task; the call returns CANCELLED and the worker holds a task it was never
   told about.  It asks again (the scheduler counts a retry and tells it) and once more (limit reached, INTERNAL).  An
   earlier p_step counted the answers the worker got; it now counts the re-requests, as the scheduler does. *)
Example early_monitor_accepts_undelivered_assignment :
  (selectors_in_range (init rw3_cfg 0) rw4_evs /\ fresh_calls [] rw4_evs /\ bg_scripts_ok rw4_evs /\ learner_ids_unique rw4_evs /\ causes_ok rw4_evs) /\
  trace_ok rw3_cfg 0 (model_trace rw3_cfg 0 rw4_evs) = true.
Proof. exact (conj rw4_hypotheses rw4_accepted). Qed.
