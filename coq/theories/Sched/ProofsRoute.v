(* C05: a new task is created in the size class queue of the longest
   matching instance name prefix, with the selected size class and the
   remaining instance name as suffix. *)
From Coq Require Import Lia.
From VF Require Export Sched.ProofsExec.
Open Scope Z_scope.

(* the task with index t satisfies R *)
Definition task_has (t : nat) (R : task -> Prop) (s : state) : Prop := R (get_task s t).

(* what Execute records in a new task and nothing later changes *)
Definition routed (sfx inst : list N) (dg : N) (ops : list (iref * nat)) (x : task) : Prop :=
  t_suffix x = sfx /\ t_instance x = inst /\ t_digest x = dg /\ t_ops x = ops.

Ltac t_task :=
  intros; unfold task_has in *;
  first [ (erewrite get_task_frame; [eassumption | prim_unfold; prim_cases; reflexivity])
        | (rewrite get_task_upd_task;
           let E := fresh "E" in
           destruct (Nat.eqb _ _) eqn:E;
           [ apply Nat.eqb_eq in E; subst; unfold routed in *; cbn; assumption | assumption ]) ].

Definition keeps_counts (nt no : nat) (s : state) : Prop := s_ntasks s = nt /\ s_nops s = no.
Ltac t_counts := intros; unfold keeps_counts in *; prim_unfold; prim_cases; cbn; assumption.

Definition keeps_tasks (l : list (nat * task)) (s : state) : Prop := s_tasks s = l.
Ltac t_tasks := intros; unfold keeps_tasks in *; prim_unfold; prim_cases; cbn; assumption.

Lemma get_or_create_invocation_tasks : forall k p s,
  s_tasks (get_or_create_invocation k p s) = s_tasks s /\ s_nops (get_or_create_invocation k p s) = s_nops s
  /\ s_ntasks (get_or_create_invocation k p s) = s_ntasks s.
Proof.
  intros k p s.
  assert (H1 : keeps_tasks (s_tasks s) (get_or_create_invocation k p s)) by (fr_go (keeps_tasks (s_tasks s)) t_tasks; reflexivity).
  assert (H2 : keeps_counts (s_ntasks s) (s_nops s) (get_or_create_invocation k p s))
    by (fr_go (keeps_counts (s_ntasks s) (s_nops s)) t_counts; split; reflexivity).
  destruct H2. auto.
Qed.

Lemma exec_routes : forall c a s p,
  aget dkey_eqb (x_instance a, x_digest a) (s_inflight s) = None ->
  longest_prefix_pq s (x_plat a) (x_instance a) = Some p ->
  aget Nat.eqb (s_ntasks s) (s_tasks s) = None ->
  let k := mkSK (p_key p) (nth (fst (fst (fst (x_sel a)))) (p_scs p) 0%N) in
  let t := s_ntasks s in
  let s' := exec_start c a s in
  s_ntasks s' = S t /\ s_nops s' = S (s_nops s) /\
  routed (drop_prefix (pk_prefix (p_key p)) (x_instance a)) (x_instance a) (x_digest a)
         [(mkI k (x_keys a), s_nops s)] (get_task s' t) /\
  task_scq s' t = k.
Proof.
  intros c a s p H1 H2 Hfresh k t s'. subst t. remember (s_ntasks s) as t eqn:Et.
  assert (Hmain : keeps_counts (S t) (S (s_nops s)) s' /\
                  task_has t (routed (drop_prefix (pk_prefix (p_key p)) (x_instance a)) (x_instance a) (x_digest a)
                                     [(mkI k (x_keys a), s_nops s)]) s').
  { unfold s', exec_start. rewrite H1, H2. unfold k. clear k.
    destruct (x_sel a) as [[[idx dur] timeout] l]. cbn [fst]. cbv zeta.
    change (s_ntasks (emit (OGhost GSelect) s)) with (s_ntasks s). rewrite <- Et.
    change (s_now (emit (OGhost GSelect) s)) with (s_now s).
    set (k := mkSK (p_key p) (nth idx (p_scs p) 0%N)).
    set (s2 := (emit (OGhost GSelect) s) <| s_ntasks ::= S |> <| s_tasks ::= _ |>).
    set (s3 := if x_dnc a then s2 else _).
    assert (E3 : s_tasks s3 = s_tasks s ++ [(t, mkTask [] (x_instance a) (x_digest a) (Some (x_dnc a)) timeout (s_now s)
                   (drop_prefix (pk_prefix (p_key p)) (x_instance a)) None 0 dur (Some l) None 0)]
                 /\ s_ntasks s3 = S t /\ s_nops s3 = s_nops s).
    { unfold s3. destruct (x_dnc a); cbn; auto. }
    destruct E3 as [E3t [E3n E3o]].
    destruct (get_or_create_invocation_tasks k (x_keys a) s3) as [E4t [E4o E4n]].
    set (s4 := get_or_create_invocation k (x_keys a) s3) in *.
    unfold new_operation. cbv zeta. rewrite E4o, E3o.
    match goal with |- context [schedule _ ?x] => set (s5 := x) end.
    assert (H5 : keeps_counts (S t) (S (s_nops s)) s5 /\
                 task_has t (routed (drop_prefix (pk_prefix (p_key p)) (x_instance a)) (x_instance a) (x_digest a)
                                    [(mkI k (x_keys a), s_nops s)]) s5).
    { split.
      - unfold s5, keeps_counts, upd_task. cbn. rewrite E4n, E3n, E4o, E3o. auto.
      - unfold task_has, s5. rewrite get_task_upd_task, Nat.eqb_refl.
        unfold get_task. cbn [s_tasks set]. unfold set. cbn [s_tasks]. rewrite E4t, E3t.
        rewrite (aget_app Nat.eqb), Hfresh. cbn [aget]. rewrite Nat.eqb_refl.
        unfold routed. cbn. auto. }
    destruct H5 as [H5c H5t]. clearbody s5.
    split.
    - fr_go (keeps_counts (S t) (S (s_nops s))) t_counts.
    - match goal with |- task_has t ?R _ => fr_go (task_has t R) t_task end. }
  destruct Hmain as [[Hn Ho] Hr]. split; [exact Hn|]. split; [exact Ho|]. split; [exact Hr|].
  unfold task_scq. unfold task_has, routed in Hr. destruct Hr as [_ [_ [_ Hops]]]. rewrite Hops. reflexivity.
Qed.
