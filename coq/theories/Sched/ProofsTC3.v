(* C04, tree consistency: task.complete. *)
From Coq Require Import Lia.
From VF Require Export Sched.ProofsTC2.
From VF Require Import Sched.ProofsLearner Sched.ProofsRoute.
Open Scope Z_scope.

(* ---- frames ------------------------------------------------------------------------------------------------------------------------------------- *)
(* the workers of the tasks other than [t] *)
Definition KOW (t : nat) (s0 s : state) : Prop := forall t2, t2 <> t -> t_worker (get_task s t2) = t_worker (get_task s0 t2).
Lemma KOW_refl : forall t s, KOW t s s. Proof. intros t s t2 _. reflexivity. Qed.
Lemma KOW_frame : forall t s0 s s', s_tasks s' = s_tasks s -> KOW t s0 s -> KOW t s0 s'.
Proof. unfold KOW. intros t s0 s s' E H t2 Hne. rewrite (get_task_frame _ _ _ E). apply H. exact Hne. Qed.
Lemma KOW_upd_task_same : forall t s0 s f, KOW t s0 s -> KOW t s0 (upd_task t f s).
Proof. unfold KOW. intros t s0 s f H t2 Hne. rewrite get_task_upd_task. destruct (Nat.eqb t2 t) eqn:E; [apply Nat.eqb_eq in E; contradiction|apply H; exact Hne]. Qed.
Lemma KOW_upd_task_keep : forall t s0 s t' f, (forall x, t_worker (f x) = t_worker x) -> KOW t s0 s -> KOW t s0 (upd_task t' f s).
Proof. unfold KOW. intros t s0 s t' f Hf H t2 Hne. rewrite get_task_upd_task. destruct (Nat.eqb t2 t') eqn:E; [|apply H; exact Hne]. apply Nat.eqb_eq in E. subst. rewrite Hf. apply H. exact Hne. Qed.
Ltac t_kow :=
  intros;
  lazymatch goal with
  | |- KOW ?t _ (upd_task ?t _ _) => apply KOW_upd_task_same; assumption
  | |- KOW _ _ (upd_task _ _ _) => apply KOW_upd_task_keep; [intro; reflexivity | assumption]
  | |- _ => (eapply KOW_frame; [|eassumption]); frame_eq
  end.

Lemma KOW_assign_queued : forall w t r s, KOW t s (assign_queued w t r s).
Proof. intros w t r s. pose proof (KOW_refl t s) as H0. unfold assign_queued, assign_unqueued, report_non_final_stage_change. inv_go fail t_kow. Qed.

Lemma tasks_decrement_executing : forall i w s, s_tasks (decrement_executing i w s) = s_tasks s.
Proof.
  intros i w s. assert (H0 : keeps_tasks (s_tasks s) s) by reflexivity.
  assert (H : keeps_tasks (s_tasks s) (decrement_executing i w s)) by (fr_go (keeps_tasks (s_tasks s)) t_tasks). exact H.
Qed.
Lemma tasks_set_last_invocation : forall w p s, s_tasks (set_last_invocation w p s) = s_tasks s.
Proof.
  intros w p s. assert (H0 : keeps_tasks (s_tasks s) s) by reflexivity.
  assert (H : keeps_tasks (s_tasks s) (set_last_invocation w p s)) by (fr_go (keeps_tasks (s_tasks s)) t_tasks). exact H.
Qed.

(* what task.complete knows about assignments when it starts *)
Definition XAh (s : state) : Prop :=
  forall t w, t_worker (get_task s t) = Some w -> is_phantom w = false /\ k_task (get_worker s w) = Some t.

Lemma XAh_of_X : forall s, ProofsExcl.X (@nil nat) s -> XAh s.
Proof. intros s HX t w Ht. destruct (XA _ _ HX t w (fun F => F) Ht) as [A [_ [C _]]]. auto. Qed.

(* ---- the part of task.complete before the learner -------------------------------------------------------------------------------------------- *)
Lemma TC_ct_prefix : forall ext t (b : bool) s,
  XAh s ->
  (forall w, t_worker (get_task s t) = Some w -> worker_exists s w = true ->
     anc_exist s (last_iref w (if b then lowest_common (task_invs s t) else []))) ->
  TC [] ext s -> TC [] ext (ct_prefix t b s).
Proof.
  intros ext t b s HXA Hae H. unfold ct_prefix. cbv zeta.
  set (k := task_scq s t).
  set (s1 := match t_worker (get_task s t) with
             | None => assign_queued (phantom_worker k) t 0 s
             | Some w => if b then set_last_invocation w (lowest_common (task_invs s t)) s else set_last_invocation w [] s end).
  assert (H1 : TC [] (t :: ext) s1 /\ KOW t s s1 /\
               forall w, t_worker (get_task s1 t) = Some w -> t_worker (get_task s t) = Some w \/ w = phantom_worker k).
  { unfold s1. destruct (t_worker (get_task s t)) as [w|] eqn:Etw.
    - assert (Ht : forall p, s_tasks (set_last_invocation w p s) = s_tasks s) by (intro; apply tasks_set_last_invocation).
      specialize (Hae w eq_refl).
      destruct b; (split; [apply TC_weaken; apply TC_set_last_invocation; [exact Hae|exact H]|]);
        (split; [eapply KOW_frame; [apply Ht|apply KOW_refl]|]); intros w' Hw'; rewrite (get_task_frame _ _ _ (Ht _)) in Hw'; left; congruence.
    - split; [apply TC_assign_queued_ext; exact H|]. split; [apply KOW_assign_queued|].
      intros w' Hw'. right.
      (* the only assignment the prefix makes is to the placeholder *)
      unfold assign_queued, report_non_final_stage_change in Hw'. rewrite get_task_upd_task, Nat.eqb_refl in Hw'. cbn [t_worker set] in Hw'.
      match type of Hw' with t_worker (get_task (fold_left ?g ?l ?a) t) = _ =>
        assert (Ef : s_tasks (fold_left g l a) = s_tasks a) end.
      { apply fold_left_pres; [|reflexivity]. intros a' o Ha'. destruct (rq_reads o a') as [_ [E2 _]]. congruence. }
      rewrite (get_task_frame _ _ _ Ef) in Hw'. unfold assign_unqueued in Hw'. cbv zeta in Hw'.
      change (negb (is_phantom (phantom_worker k))) with false in Hw'. cbn [andb] in Hw'. rewrite Etw in Hw'.
      match type of Hw' with t_worker (get_task (upd_worker _ _ (clear_last_invocation _ (fold_left ?g ?l ?a))) t) = _ =>
        assert (Eg : s_tasks (upd_worker (phantom_worker k) (fun k0 => k0 <| k_sticky ::= set_from 0 (s_now (clear_last_invocation (phantom_worker k) (fold_left g l a))) |>) (clear_last_invocation (phantom_worker k) (fold_left g l a))) = s_tasks a) end.
      { rewrite upd_worker_eq. cbn. unfold clear_last_invocation. cbn. apply incr_fold_tasks. }
      rewrite (get_task_frame _ _ _ Eg) in Hw'. rewrite get_task_upd_task, Nat.eqb_refl in Hw'. cbn in Hw'. congruence. }
  destruct H1 as [H1 [HK1 Hw1]]. clearbody s1.
  set (w := match t_worker (get_task s1 t) with Some w => w | None => phantom_worker k end).
  assert (Hfree : free_worker (t :: ext) w s1).
  { intros t2 Hn Ht2. assert (Hne : t2 <> t) by (intros ->; apply Hn; left; reflexivity).
    rewrite (HK1 t2 Hne) in Ht2. destruct (HXA t2 w Ht2) as [Hph Hkt]. unfold w in *.
    destruct (t_worker (get_task s1 t)) as [w0|] eqn:E0; [|cbn in Hph; discriminate].
    destruct (Hw1 w0 eq_refl) as [Hs | ->]; [|cbn in Hph; discriminate].
    destruct (HXA t w0 Hs) as [_ Hkt']. congruence. }
  set (s2 := fold_left (fun s i => decrement_executing i w s) (task_invs s1 t) s1).
  assert (H2 : TC [] (t :: ext) s2 /\ s_tasks s2 = s_tasks s1).
  { unfold s2. apply (fold_left_pres (fun a => TC [] (t :: ext) a /\ s_tasks a = s_tasks s1)); [|split; [exact H1|reflexivity]].
    intros a i [Ha Ea]. split; [apply TC_decrement_executing; [eapply free_worker_frame; [exact Ea|exact Hfree]|exact Ha]|].
    rewrite tasks_decrement_executing. exact Ea. }
  destruct H2 as [H2 _]. clearbody s2.
  apply (TC_drop [] ext t); [rewrite get_task_upd_task, Nat.eqb_refl; reflexivity|].
  destruct H2 as [HSW [HKW [HID [HEC [HQP HNQ]]]]].
  set (s3 := upd_worker w (fun k0 => k0 <| k_task := None |>) s2).
  assert (H3 : SW s3 /\ KW s3 /\ IDs [] s3 /\ EC (t :: ext) s3 /\ QPs s3 /\ NQ s3) by (unfold s3; split; [t_SW'|split; [t_KW|split; [t_IDs|split; [t_EC|split; [t_QP|t_NQ]]]]]).
  destruct H3 as [A [B [C [D [E F]]]]]. split; [t_SW'|split; [t_KW|split; [t_IDs|split; [t_EC|split; [t_QP|t_NQ]]]]].
Qed.

(* ---- getOrCreateInvocation creates the whole chain ----------------------------------------------------------------------------------------------- *)
Lemma prefixes_from_all : forall rest acc r r', rest = r ++ r' -> r <> [] -> In (acc ++ r) (prefixes_from acc rest).
Proof.
  induction rest as [|x rest IH]; intros acc r r' E Hr; [destruct r; [contradiction|discriminate]|].
  destruct r as [|y r]; [contradiction|]. cbn in E. injection E as <- E. cbn [prefixes_from].
  destruct r as [|z r]; [left; reflexivity|]. right.
  replace (acc ++ x :: z :: r) with ((acc ++ [x]) ++ z :: r) by (rewrite <- app_assoc; reflexivity).
  apply (IH (acc ++ [x]) (z :: r) r'); [exact E|discriminate].
Qed.

Lemma goc_all : forall k p s,
  (forall i, inv_exists s i = true -> inv_exists (get_or_create_invocation k p s) i = true) /\
  (forall pp, In pp (prefixes_from [] p) -> inv_exists (get_or_create_invocation k p s) (mkI k pp) = true).
Proof.
  intros k p s. unfold get_or_create_invocation. generalize (prefixes_from [] p). intro l. revert s.
  induction l as [|pp l IH]; intro a; cbn [fold_left]; [split; [auto|intros pp []]|].
  set (a1 := if inv_exists a (mkI k pp) then a else a <| s_invs ::= fun l0 => l0 ++ [(mkI k pp, new_inv (s_now a))] |>).
  assert (Hmono : forall i, inv_exists a i = true -> inv_exists a1 i = true).
  { intros i Hi. unfold a1. destruct (inv_exists a (mkI k pp)); [exact Hi|]. apply inv_exists_invs_new. exact Hi. }
  assert (Hnew : inv_exists a1 (mkI k pp) = true).
  { unfold a1. destruct (inv_exists a (mkI k pp)) eqn:E; [exact E|]. unfold inv_exists in *. cbn. rewrite (aget_app iref_eqb).
    destruct (aget iref_eqb (mkI k pp) (s_invs a)); [reflexivity|]. cbn. rewrite iref_eqb_refl. reflexivity. }
  destruct (IH a1) as [I1 I2]. split; [intros i Hi; apply I1; apply Hmono; exact Hi|].
  intros pp' [<-|Hin]; [apply I1; exact Hnew|apply I2; exact Hin].
Qed.

Lemma goc_anc_exist : forall k p s, inv_exists s (mkI k []) = true -> anc_exist (get_or_create_invocation k p s) (mkI k p).
Proof.
  intros k p s Hroot a Ha. apply in_chain in Ha. destruct Ha as [Hk [r Hr]]. destruct (goc_all k p s) as [G1 G2].
  destruct a as [ak ap]. cbn in *. subst ak. destruct ap as [|x ap]; [apply G1; exact Hroot|].
  apply G2. apply (prefixes_from_all p [] (x :: ap) r); [exact Hr|discriminate].
Qed.

Lemma anc_exist_goc : forall k p s d, anc_exist s d -> anc_exist (get_or_create_invocation k p s) d.
Proof. intros k p s d H. apply (anc_exist_mono s); [apply (proj1 (goc_all k p s))|exact H]. Qed.

Lemma SW_frame' : forall s s', s_calls s' = s_calls s -> s_scqs s' = s_scqs s -> s_invs s' = s_invs s -> s_pqs s' = s_pqs s -> SW s -> SW s'.
Proof. intros s s' E1 E2 E3 E4 [A B]. split; [eapply St_frame; eassumption|eapply WP_frame; eassumption]. Qed.

(* ---- a new task with its first operation ---------------------------------------------------------------------------------------------------------- *)
Lemma TC_new_task_op : forall ext s x prio i m,
  t_worker x = None -> aget Nat.eqb (s_ntasks s) (s_tasks s) = None -> TC [] ext s ->
  let s' := fst (new_operation (s_ntasks s) prio i m (s <| s_ntasks ::= S |> <| s_tasks ::= fun l => l ++ [(s_ntasks s, x)] |>)) in
  TC [] ext s' /\ get_task s' (s_ntasks s) = x <| t_ops := t_ops x ++ [(i, s_nops s)] |> /\
  s_invs s' = s_invs s /\ s_scqs s' = s_scqs s /\
  (aget Nat.eqb (s_nops s) (s_ops s) = None -> get_op s' (s_nops s) = mkOper (s_ntasks s) prio i 0 m None).
Proof.
  intros ext s x prio i m Hx Hfresh [HSW [HKW [HID [HEC [HQP HNQ]]]]]. unfold new_operation. cbn [fst]. set (bt := s_ntasks s).
  set (sN := s <| s_ntasks ::= S |> <| s_tasks ::= fun l => l ++ [(bt, x)] |>).
  assert (Eg : get_task sN bt = x).
  { unfold sN, bt. rewrite get_task_newtask, Hfresh, Nat.eqb_refl. reflexivity. }
  set (sO := sN <| s_nops ::= S |> <| s_ops ::= fun l => l ++ [(s_nops sN, mkOper bt prio i 0 m None)] |>).
  split; [|split; [|split; [|split]]].
  - split; [eapply SW_frame'; [| | | |exact HSW]; reflexivity|].
    split; [eapply KW_frame; [| |exact HKW]; reflexivity|]. split; [eapply IDs_frame; [| |exact HID]; reflexivity|].
    split; [|split; [eapply QPs_frame; [|exact HQP]; reflexivity|eapply NQ_frame; [| |exact HNQ]; reflexivity]].
    apply (EC_drop ext bt); [rewrite get_task_upd_task, Nat.eqb_refl; cbn; rewrite (get_task_frame sN) by reflexivity; rewrite Eg; exact Hx|].
    apply EC_upd_task; [left; left; reflexivity|]. eapply EC_frame; [| |apply EC_weaken; apply EC_newtask; [exact Hx|exact HEC]]; reflexivity.
  - rewrite get_task_upd_task, Nat.eqb_refl. rewrite (get_task_frame sN) by reflexivity. rewrite Eg. reflexivity.
  - reflexivity.
  - reflexivity.
  - intro Ho. rewrite (get_op_frame sO) by reflexivity. unfold sO. rewrite get_op_newop.
    change (s_ops sN) with (s_ops s). change (s_nops sN) with (s_nops s). rewrite Ho, Nat.eqb_refl. reflexivity.
Qed.

(* ---- the learner step --------------------------------------------------------------------------------------------------------------------------- *)
Lemma TC_ct_learner : forall ext t r b x p k s,
  (t < s_ntasks s)%nat -> aget Nat.eqb (s_ntasks s) (s_tasks s) = None -> aget Nat.eqb (s_nops s) (s_ops s) = None ->
  (forall l bidx bdur btm bl, t_learner x = Some l -> resp_success r = true -> l_succ l = Some (bidx, bdur, btm, bl) ->
     inv_exists s (mkI (mkSK (sk_pk k) (nth bidx (p_scs p) 0%N)) []) = true) ->
  TC [] ext s -> TC [] ext (fst (ct_learner t r b x p k s)).
Proof.
  intros ext t r b x p k s Ht Hft Hfo Hroot H. unfold ct_learner.
  destruct (t_learner x) as [l|] eqn:El; [|cbn [fst]; tc_go2].
  destruct (resp_success r) eqn:Er.
  - cbv zeta. set (s1 := upd_task t _ (emit _ s)).
    assert (H1 : TC [] ext s1) by (unfold s1; tc_go2).
    destruct (l_succ l) as [[[[bidx bdur] btimeout] bl]|] eqn:Es; [|exact H1].
    destruct (Nat.eqb (p_maxbg p) 0); [cbn [fst]; tc_go2|].
    set (bk := mkSK (sk_pk k) (nth bidx (p_scs p) 0%N)). set (bi := mkI bk [4294967295%N]).
    set (s2 := get_or_create_invocation bk [4294967295%N] s1).
    assert (H2 : TC [] ext s2) by (apply TC_get_or_create_invocation; exact H1).
    destruct (Nat.leb _ _); [cbn [fst]; tc_go2|]. cbv zeta.
    destruct (goc_frames bk [4294967295%N] s1) as [G1 [G2 _]]. fold s2 in G1, G2.
    destruct (get_or_create_invocation_tasks bk [4294967295%N] s1) as [_ [G3 G4]]. fold s2 in G3, G4.
    assert (Hft2 : aget Nat.eqb (s_ntasks s2) (s_tasks s2) = None).
    { rewrite G4, G1. unfold s1. cbn. rewrite (aget_aset_other Nat.eqb nat_eqb_eq); [exact Hft|]. lia. }
    assert (Hfo2 : aget Nat.eqb (s_nops s2) (s_ops s2) = None).
    { rewrite G3, G2. unfold s1. rewrite upd_task_eq. cbn. exact Hfo. }
    pose proof (TC_new_task_op ext s2 (mkTask [] (t_instance x) (t_digest x) (Some true) btimeout (t_qts x) (t_suffix x) None 0 bdur (Some bl) None 0)
                  (p_bgprio p) bi true eq_refl Hft2 H2) as H3. cbv zeta in H3.
    destruct (new_operation (s_ntasks s2) (p_bgprio p) bi true _) as [s3 o3] eqn:En. cbn [fst] in H3 |- *.
    destruct H3 as [H3 [Et3 [Ei3 [Es3 Eo3]]]]. specialize (Eo3 Hfo2).
    apply (TC_schedule ext (s_ntasks s2) s3 bk); [|exact H3].
    intros i o Hin. rewrite Et3 in Hin. cbn in Hin. destruct Hin as [E|[]]. inversion E; subst i o.
    split; [|split; [exact (f_equal o_inv Eo3)|reflexivity]].
    apply (anc_exist_mono s2); [intros a Ha; unfold inv_exists in *; rewrite Ei3; exact Ha|].
    apply goc_anc_exist. unfold s1. rewrite (inv_exists_frame s) by (rewrite upd_task_eq; reflexivity).
    exact (Hroot l bidx bdur btimeout bl eq_refl eq_refl Es).
  - destruct b; cbv zeta; [destruct (l_fail l) as [[[d tm] nl]|]|]; cbn [fst]; tc_go2.
Qed.

(* ---- the retry / the response ------------------------------------------------------------------------------------------------------------------ *)
Lemma goc_fold_anc : forall lk (l : list (iref * nat)) s, inv_exists s (mkI lk []) = true ->
  let s' := fold_left (fun s '(i, _) => get_or_create_invocation lk (i_path i) s) l s in
  (forall d, anc_exist s d -> anc_exist s' d) /\ (forall i o, In (i, o) l -> anc_exist s' (mkI lk (i_path i))).
Proof.
  intros lk l. induction l as [|[i0 o0] l IH]; intros s Hr; cbn [fold_left]; [split; [auto|intros i o []]|].
  set (s1 := get_or_create_invocation lk (i_path i0) s).
  assert (Hr1 : inv_exists s1 (mkI lk []) = true) by (apply (proj1 (goc_all lk (i_path i0) s)); exact Hr).
  destruct (IH s1 Hr1) as [I1 I2]. cbv zeta in *. split.
  - intros d Hd. apply I1. apply anc_exist_goc. exact Hd.
  - intros i o [E|Hin]; [inversion E; subst; apply I1; apply goc_anc_exist; exact Hr|exact (I2 i o Hin)].
Qed.

Lemma TC_retarget_fold : forall ext lk l s, TC [] ext s -> TC [] ext (retarget_fold lk l s).
Proof.
  intros ext lk l. induction l as [|[i o] l IH]; intros s H; cbn [retarget_fold fold_left]; [exact H|].
  fold (retarget_fold lk l (upd_op o (fun y => y <| o_inv := mkI lk (i_path i) |>) s)). apply IH. tc_go2.
Qed.

Lemma TC_ct_tail : forall ext t r x p k s retry,
  t_worker (get_task s t) = None ->
  (retry <> None ->
     (forall i o, In (i, o) (t_ops (get_task s t)) -> op_alive s o = true) /\ NoDup (map snd (t_ops (get_task s t))) /\
     inv_exists s (mkI (mkSK (sk_pk k) (largest_sc p)) []) = true) ->
  TC [] ext s -> TC [] ext (ct_tail t r x p k s retry).
Proof.
  intros ext t r x p k s retry Htw Hre H. unfold ct_tail. destruct retry as [[d tm]|].
  - destruct (Hre ltac:(discriminate)) as [Hal [Hnd Hroot]]. cbv zeta.
    set (lk := mkSK (sk_pk k) (largest_sc p)) in *. set (old := t_ops (get_task s t)) in *.
    destruct (goc_fold_frames lk old s) as [G1 [G2 _]]. destruct (goc_fold_anc lk old s Hroot) as [A1 A2].
    set (s6 := fold_left _ old s) in *. cbv zeta in A1, A2.
    assert (H6 : TC [] ext s6).
    { unfold s6. apply fold_left_pres; [|exact H]. intros a [i o] Ha. apply TC_get_or_create_invocation. exact Ha. }
    set (s7 := upd_task t _ s6).
    assert (H7 : TC [] ext s7).
    { destruct H6 as [HSW [HKW [HID [HEC [HQP HNQ]]]]]. unfold s7. split; [t_SW'|split; [t_KW|split; [t_IDs|split; [|split; [t_QP|t_NQ]]]]].
      apply EC_upd_task; [|exact HEC]. right. left. cbn. rewrite (get_task_frame _ _ _ G1). exact Htw. }
    assert (Et7 : get_task s7 t = (get_task s t) <| t_expdur := d |> <| t_timeout := tm |> <| t_ops := map (fun '(i, o) => (mkI lk (i_path i), o)) old |>).
    { unfold s7. rewrite get_task_upd_task, Nat.eqb_refl. rewrite (get_task_frame _ _ _ G1). reflexivity. }
    fold (retarget_fold lk old s7). destruct (retarget_reads lk old s7 Hnd) as [R1 [_ [R3 [_ [_ [_ [R7 _]]]]]]].
    pose proof (TC_retarget_fold ext lk old s7 H7) as H8. set (s8 := retarget_fold lk old s7) in *.
    apply TC_T_gen. apply (TC_schedule ext t s8 lk); [|exact H8].
    intros i' o Hin. rewrite (get_task_frame _ _ _ R1), Et7 in Hin. cbn [t_ops set] in Hin.
    apply in_map_iff in Hin. destruct Hin as [[i o0] [E Hin]]. inversion E; subst i' o0.
    split; [|split; [|reflexivity]].
    + apply (anc_exist_mono s6); [|exact (A2 i o Hin)]. intros a Ha. unfold inv_exists in *. rewrite R3. unfold s7. rewrite upd_task_eq. exact Ha.
    + apply (R7 i o Hin). unfold s7. rewrite (op_alive_frame s6) by reflexivity. rewrite (op_alive_frame s s6) by exact G2. exact (Hal i o Hin).
  - tc_go2.
Qed.

(* ---- task.complete ----------------------------------------------------------------------------------------------------------------------------------- *)
Definition SE (k : skey) (s : state) : Prop := scq_exists s k = true.
Ltac t_se :=
  intros; unfold SE in *;
  first [ assumption | (rewrite scq_exists_upd_scq; assumption)
        | (match goal with |- scq_exists (upd_worker ?w ?f ?s) ?k = true => unfold upd_worker; destruct (worker_exists s w); [rewrite scq_exists_upd_scq; assumption|assumption] end)
        | (erewrite scq_exists_frame; [eassumption|frame_eq]) ].

Lemma SE_ct_prefix : forall k t b s, SE k s -> SE k (ct_prefix t b s).
Proof. intros k t b s H. unfold ct_prefix. fr_go (SE k) t_se. Qed.

Lemma fresh_of_W : forall s, W s -> aget Nat.eqb (s_ntasks s) (s_tasks s) = None /\ aget Nat.eqb (s_nops s) (s_ops s) = None.
Proof.
  intros s [H1 [H2 _]]. split; apply (notin_aget_None Nat.eqb nat_eqb_eq).
  - intro Hin. specialize (H1 _ Hin). lia.
  - intro Hin. apply in_map_iff in Hin. destruct Hin as [[o x] [E Hin]]. cbn in E. subst o. destruct (H2 _ _ Hin). lia.
Qed.

Lemma TC_complete_task : forall ext t r (b : bool) s,
  W s -> (t < s_ntasks s)%nat -> XAh s ->
  (forall w, t_worker (get_task s t) = Some w -> worker_exists s w = true ->
     anc_exist s (last_iref w (if b then lowest_common (task_invs s t) else []))) ->
  (forall l bidx bdur btm bl p, t_learner (get_task s t) = Some l -> resp_success r = true -> l_succ l = Some (bidx, bdur, btm, bl) ->
     get_pq s (sk_pk (task_scq s t)) = Some p -> scq_exists s (mkSK (sk_pk (task_scq s t)) (nth bidx (p_scs p) 0%N)) = true) ->
  (b = true -> resp_success r = false -> forall p, get_pq s (sk_pk (task_scq s t)) = Some p ->
     (forall i o, In (i, o) (t_ops (get_task s t)) -> op_alive s o = true) /\ NoDup (map snd (t_ops (get_task s t))) /\
     scq_exists s (mkSK (sk_pk (task_scq s t)) (largest_sc p)) = true) ->
  TC [] ext s -> TC [] ext (complete_task t r b s).
Proof.
  intros ext t r b s HW Ht HXA Hae Hbg Hre H. rewrite complete_task_eq2. destruct (t_resp (get_task s t)); [exact H|]. cbv zeta.
  pose proof (TC_ct_prefix ext t b s HXA Hae H) as H4.
  destruct (ct_prefix_frames t b s) as [[K1 [K2 _]] [Eo Ep]].
  assert (HW4 : W (ct_prefix t b s)) by (apply (W_of_WL_step t s _ HW Ht); intro HWL; unfold ct_prefix; w_go2).
  assert (Hn4 : s_ntasks (ct_prefix t b s) = s_ntasks s).
  { assert (Hk : keeps_counts (s_ntasks s) (s_nops s) (ct_prefix t b s)); [|exact (proj1 Hk)].
    assert (H0 : keeps_counts (s_ntasks s) (s_nops s) s) by (split; reflexivity). unfold ct_prefix. fr_go (keeps_counts (s_ntasks s) (s_nops s)) t_counts. }
  assert (Htw4 : t_worker (get_task (ct_prefix t b s) t) = None).
  { unfold ct_prefix. cbv zeta. rewrite get_task_upd_task, Nat.eqb_refl. reflexivity. }
  assert (HSE : forall k', scq_exists s k' = true -> scq_exists (ct_prefix t b s) k' = true) by (intros k' Hk'; apply (SE_ct_prefix k' t b s Hk')).
  set (s4 := ct_prefix t b s) in *. clearbody s4.
  assert (Eq : get_pq s4 (sk_pk (task_scq s t)) = get_pq s (sk_pk (task_scq s t))) by (unfold get_pq; rewrite Ep; reflexivity). rewrite Eq.
  destruct (get_pq s (sk_pk (task_scq s t))) as [p|] eqn:Epq; [|tc_go2].
  destruct (fresh_of_W _ HW4) as [Hft Hfo].
  pose proof (SW_St _ (TC_SW _ _ _ H4)) as HSt4.
  pose proof (TC_ct_learner ext t r b (get_task s t) p (task_scq s t) s4 ltac:(lia) Hft Hfo) as H5.
  assert (H5' : TC [] ext (fst (ct_learner t r b (get_task s t) p (task_scq s t) s4))).
  { apply H5; [|exact H4]. intros l bidx bdur btm bl El Er Es. apply (root_exists _ _ HSt4). apply HSE. exact (Hbg l bidx bdur btm bl p El Er Es eq_refl). }
  clear H5.
  (* what the learner step leaves of the task *)
  assert (Hl : let s5 := fst (ct_learner t r b (get_task s t) p (task_scq s t) s4) in
               snd (ct_learner t r b (get_task s t) p (task_scq s t) s4) <> None ->
               b = true /\ resp_success r = false /\ t_ops (get_task s5 t) = t_ops (get_task s4 t) /\ s_ops s5 = s_ops s4 /\ s_invs s5 = s_invs s4
               /\ t_worker (get_task s5 t) = t_worker (get_task s4 t)).
  { cbv zeta. unfold ct_learner. destruct (t_learner (get_task s t)) as [l|]; [|cbn; congruence].
    destruct (resp_success r).
    - cbv zeta. destruct (l_succ l) as [[[[bidx bdur] btimeout] bl]|]; [|cbn; congruence].
      destruct (Nat.eqb (p_maxbg p) 0); [cbn; congruence|]. destruct (Nat.leb _ _); [cbn; congruence|]. cbv zeta.
      destruct (new_operation _ _ _ _ _). cbn. congruence.
    - destruct b; [|cbn; congruence]. cbv zeta. destruct (l_fail l) as [[[d tm] nl]|]; [|cbn; congruence]. cbn [fst snd]. intros _.
      rewrite get_task_upd_task, Nat.eqb_refl. repeat split; reflexivity. }
  assert (Hnl : snd (ct_learner t r b (get_task s t) p (task_scq s t) s4) = None ->
               t_worker (get_task (fst (ct_learner t r b (get_task s t) p (task_scq s t) s4)) t) = None \/ True) by (intros _; right; exact I).
  destruct (ct_learner t r b (get_task s t) p (task_scq s t) s4) as [s5 retry] eqn:Ecl. cbn [fst snd] in *.
  destruct retry as [[d tm]|].
  - destruct (Hl ltac:(discriminate)) as [Eb [Er [Eops [Eo5 [Ei5 Ew5]]]]].
    destruct (Hre Eb Er p eq_refl) as [Hal [Hnd Hsc]].
    apply TC_ct_tail; [congruence| |exact H5'].
    intros _. rewrite Eops. unfold TKeep in *. rewrite K1. split; [|split; [exact Hnd|]].
    + intros i o Hin. rewrite (op_alive_frame s4 s5) by exact Eo5. rewrite (op_alive_frame s s4) by exact Eo. exact (Hal i o Hin).
    + unfold inv_exists. rewrite Ei5. apply (root_exists _ _ HSt4). apply HSE. exact Hsc.
  - (* no retry: the tail only records the response *)
    unfold ct_tail. tc_go2.
Qed.
