(* The monitor on the model's trace: the calls that have not returned (m_live), and c06_final. *)
From Coq Require Import Lia.
From VF Require Export Sched.ProofsMon2.
From VF Require Import Sched.Spec Sched.Corr Sched.ProofsStreams Sched.ProofsQueueArmed Sched.ProofsObsLink.
Open Scope Z_scope.

(* ---- how the monitor's list of live calls evolves ---------------------------------------------------------------------------------------------------- *)
Definition live_obs (x : obs) (L : list nat) : list nat :=
  match x with ORet c _ | OSync c _ _ => remove_nat c L | _ => L end.
Definition live_after (e : event) (o : list obs) (L : list nat) : list nat :=
  fold_left (fun L x => live_obs x L) o (if is_start e then ev_call e :: L else L).

Lemma c02_obs_live : forall post m err x, m_live (fst (c02_obs post (m, err) x)) = live_obs x (m_live m).
Proof.
  intros post m err x. unfold c02_obs, live_obs. destruct x; try reflexivity.
  - destruct (get_stream m c) as [sm|]; [|reflexivity]. destruct (sm_done sm); reflexivity.
  - destruct (get_stream m c); reflexivity.
  - destruct (find _ (m_syncs m)) as [[c' w]|]; reflexivity.
Qed.

Lemma c02_fold_live : forall post o m err, m_live (fst (fold_left (c02_obs post) o (m, err))) = fold_left (fun L x => live_obs x L) o (m_live m).
Proof.
  intros post o. induction o as [|x o IH]; intros m err; cbn [fold_left]; [reflexivity|].
  destruct (c02_obs post (m, err) x) as [m1 e1] eqn:E. rewrite IH. f_equal.
  pose proof (c02_obs_live post m err x) as H. rewrite E in H. exact H.
Qed.

Lemma mon_event_live : forall e m, m_live (mon_event e m) = if is_start e then ev_call e :: m_live m else m_live m.
Proof.
  intros e m. destruct e; cbn; try reflexivity.
  - destruct (x_sel a) as [[[? ?] ?] ?]. reflexivity.
  - destruct (y_state a); reflexivity.
Qed.

Lemma pm_final_live : forall cfg pre d e o m, m_live (pm_final cfg pre d e o m) = live_after e o (m_live m).
Proof.
  intros cfg pre d e o m. destruct (pm_final_frame cfg pre d e o m) as [_ [_ [_ [_ [E _]]]]]. cbv zeta in E. rewrite E. unfold pm3. rewrite c02_fold_live. unfold live_after. f_equal.
  unfold pm2. cbn [m_live set]. unfold pm1. cbv zeta.
  assert (H : m_live (mon_event e m) = if is_start e then ev_call e :: m_live m else m_live m) by apply mon_event_live.
  destruct e; try exact H. destruct (existsb _ o); [|exact H]. destruct (x_sel a) as [[[? ?] ?] l]. exact H.
Qed.

(* ---- calls that were started and have not observed their end are live ----------------------------------------------------------------------------- *)
Definition ends (c : nat) (x : obs) : bool := match x with ORet c' _ | OSync c' _ _ => Nat.eqb c c' | _ => false end.
Definition started (pfx : list (event * list (nat * wref))) (c : nat) : Prop :=
  exists e h, In (e, h) pfx /\ is_start e = true /\ ev_call e = c.
Definition Inv_live (cfg : config) (t0 : Z) (pfx : list (event * list (nat * wref))) (m : mon) : Prop :=
  forall c, started pfx c -> (forall x, In x (List.concat (snd (run (init cfg t0) pfx))) -> ends c x = false) -> In c (m_live m).

Lemma remove_nat_keeps : forall c c' L, In c L -> c <> c' -> In c (remove_nat c' L).
Proof. intros c c' L H Hne. unfold remove_nat. apply filter_In. split; [exact H|]. apply negb_true_iff. apply Nat.eqb_neq. congruence. Qed.

Lemma live_fold_keeps : forall o c L, In c L -> (forall x, In x o -> ends c x = false) -> In c (fold_left (fun L x => live_obs x L) o L).
Proof.
  induction o as [|x o IH]; intros c L H Hn; cbn [fold_left]; [exact H|]. apply IH; [|intros y Hy; apply Hn; right; exact Hy].
  specialize (Hn x (or_introl eq_refl)). destruct x; cbn [live_obs ends] in *; try exact H; apply remove_nat_keeps; try exact H; apply Nat.eqb_neq; exact Hn.
Qed.

Lemma Inv_live_step : forall cfg t0 pfx eh m pre d,
  Inv_live cfg t0 pfx m ->
  Inv_live cfg t0 (pfx ++ [eh]) (pm_final cfg pre d (fst eh) (snd (step (fst (run (init cfg t0) pfx)) eh)) m).
Proof.
  intros cfg t0 pfx [e h] m pre d H c Hs Hn. rewrite pm_final_live. unfold live_after. cbn [fst].
  rewrite run_snoc_snd, concat_app in Hn. cbn [List.concat] in Hn. rewrite app_nil_r in Hn.
  apply live_fold_keeps; [|intros x Hx; apply Hn; apply in_or_app; right; exact Hx].
  destruct Hs as [e' [h' [Hin [Hst Hc]]]]. apply in_app_or in Hin. destruct Hin as [Hin|[E|[]]].
  - assert (Hc0 : In c (m_live m)) by (apply H; [exists e', h'; auto|intros x Hx; apply Hn; apply in_or_app; left; exact Hx]).
    destruct (is_start e); [right; exact Hc0|exact Hc0].
  - inversion E; subst e' h'. rewrite Hst. left. exact Hc.
Qed.

(* the calls a reachable state knows were started *)
Lemma run_keys : forall cfg t0 pfx c, In c (map fst (s_calls (fst (run (init cfg t0) pfx)))) -> started pfx c.
Proof.
  intros cfg t0 pfx. induction pfx as [|[e h] pfx IH] using rev_ind; intros c Hc; [cbn in Hc; destruct Hc|].
  rewrite run_snoc_fst in Hc.
  assert (Hk : keys_in (map fst (s_calls (fst (run (init cfg t0) pfx)))) (fst (run (init cfg t0) pfx))) by (intros c' Hc'; exact Hc').
  pose proof (keys_in_step _ _ e h Hk c Hc) as Hin.
  destruct (is_start e) eqn:Es.
  - destruct Hin as [<-|Hin]; [exists e, h; split; [apply in_or_app; right; left; reflexivity|auto]|].
    destruct (IH c Hin) as [e' [h' [A B]]]. exists e', h'. split; [apply in_or_app; left; exact A|exact B].
  - destruct (IH c Hin) as [e' [h' [A B]]]. exists e', h'. split; [apply in_or_app; left; exact A|exact B].
Qed.

(* a call that is not done has not observed its end *)
Lemma not_done_no_end : forall cfg t0 pfx c p, fresh_calls [] pfx ->
  aget Nat.eqb c (s_calls (fst (run (init cfg t0) pfx))) = Some p -> p <> PDone ->
  forall x, In x (List.concat (snd (run (init cfg t0) pfx))) -> ends c x = false.
Proof.
  intros cfg t0 pfx c p Hf Hc Hp x Hx. destruct (ends c x) eqn:E; [|reflexivity]. exfalso.
  pose proof (call_view cfg t0 pfx c Hf) as HJ. rewrite Hc in HJ.
  assert (Hin : In x (ctag c (List.concat (snd (run (init cfg t0) pfx))))).
  { unfold ctag. apply filter_In. split; [exact Hx|]. destruct x; cbn in E; try discriminate; unfold tagged; cbn; exact E. }
  assert (Hend : is_end c x) by (destruct x; cbn in E; try discriminate; apply Nat.eqb_eq in E; subst; [left; eexists; reflexivity|right; eexists; eexists; reflexivity]).
  set (tr := ctag c (List.concat (snd (run (init cfg t0) pfx)))) in *.
  assert (Hno : forall y, In y tr -> nonfinal c y \/ final c y -> False -> False) by auto.
  destruct p; cbn [J] in HJ; try (destruct HJ as [_ HJ]; rewrite HJ in Hin; destruct Hin); try contradiction.
  - destruct HJ as [_ HJ]. unfold open_tr in HJ. rewrite Forall_forall in HJ. exact (nonfinal_not_end _ _ (HJ _ Hin) Hend).
  - destruct HJ as [_ HJ]. unfold open_tr in HJ. rewrite Forall_forall in HJ. exact (nonfinal_not_end _ _ (HJ _ Hin) Hend).
  - destruct HJ as [_ [_ [msgs [dd [Et [Hm Hfd]]]]]]. rewrite Et in Hin. apply in_app_or in Hin. destruct Hin as [Hin|[<-|[]]].
    + rewrite Forall_forall in Hm. exact (nonfinal_not_end _ _ (Hm _ Hin) Hend).
    + exact (final_not_end _ _ Hfd Hend).
Qed.

Lemma existsb_false_in : forall {A} (f : A -> bool) l x, existsb f l = false -> In x l -> f x = false.
Proof.
  intros A f l x H Hin. destruct (f x) eqn:E; [|reflexivity]. assert (Ht : existsb f l = true) by (apply existsb_exists; exists x; auto). congruence.
Qed.

(* ---- c06_final ---------------------------------------------------------------------------------------------------------------------------------------------- *)
Lemma scq_in_dump : forall s k, St s -> scq_exists s k = true -> In (sk_pk k, observe_scq s k) (all_scqs (observe s)).
Proof.
  intros s k [_ [_ [_ [_ S5]]]] He. destruct (S5 _ He) as [p [Hp [Hk Hc]]]. rewrite all_scqs_observe. apply in_flat_map. exists p. split; [exact Hp|].
  apply in_map_iff. exists (sk_sc k). split; [|exact Hc]. rewrite Hk, skey_eta. reflexivity.
Qed.

Lemma c06_final_ok : forall cfg t0 pfx m,
  fresh_calls [] pfx -> ~ panicked (snd (run (init cfg t0) pfx)) -> Inv_live cfg t0 pfx m ->
  c06_final m (observe (fst (run (init cfg t0) pfx))) = ""%string.
Proof.
  intros cfg t0 pfx m Hf Hnp HI. set (s := fst (run (init cfg t0) pfx)). unfold c06_final. cbv zeta.
  destruct (negb (Nat.eqb (List.length (m_live m)) 0)) eqn:El; [reflexivity|]. cbn [orb].
  match goal with |- (if ?pend then _ else _) = _ => destruct pend eqn:Ep end; [reflexivity|].
  apply orb_false_iff in Ep. destruct Ep as [Ep1 Ep2].
  assert (Hlive : m_live m = []) by (apply negb_false_iff in El; apply Nat.eqb_eq in El; destruct (m_live m); [reflexivity|discriminate]).
  pose proof (SW_St _ (SW_run cfg t0 pfx)) as HSt. fold s in HSt.
  destruct (gc_complete cfg t0 pfx Hf) as [Hp|Hgc]; [contradiction|]. fold s in Hgc.
  assert (Hdone : forall c p, aget Nat.eqb c (s_calls s) = Some p -> p = PDone).
  { intros c p Hc. destruct p; try reflexivity; exfalso;
      (assert (Hin : In c (m_live m)); [|rewrite Hlive in Hin; destruct Hin]);
      (apply HI; [apply (run_keys cfg t0); eapply aget_Some_in_keys; [exact nat_eqb_eq|exact Hc]|eapply not_done_no_end; [exact Hf|exact Hc|discriminate]]). }
  assert (Hops : forall o x, aget Nat.eqb o (s_ops s) = Some x -> o_cleanup x = None).
  { intros o x Ex. destruct (o_cleanup x) eqn:Ec; [|reflexivity]. exfalso.
    assert (Ht : existsb (fun o0 => match do_cleanup o0 with Some _ => true | None => false end) (d_ops (observe s)) = true); [|congruence].
    apply existsb_exists. exists (observe_op s o x). split; [unfold observe; cbn [d_ops]; apply in_map_iff; exists (o, x); split; [reflexivity|apply (aget_In Nat.eqb nat_eqb_eq); exact Ex]|].
    cbn [do_cleanup observe_op]. rewrite Ec. reflexivity. }
  assert (Hscq : forall k, scq_exists s k = true ->
            q_cleanup (get_scq s k) = None /\ forall w x, In (w, x) (q_workers (get_scq s k)) -> k_cleanup x = None).
  { intros k He. pose proof (scq_in_dump s k HSt He) as Hin.
    pose proof (existsb_false_in _ _ _ Ep2 Hin) as Hb.
    cbn beta iota in Hb. apply orb_false_iff in Hb. destruct Hb as [Hb1 Hb2]. cbn [ds_cleanup observe_scq] in Hb1. split; [destruct (q_cleanup (get_scq s k)); [discriminate|reflexivity]|].
    intros w x Hwx. destruct (k_cleanup x) eqn:Ec; [|reflexivity]. exfalso.
    assert (Ht : existsb (fun w0 => match dw_cleanup w0 with Some _ => true | None => false end) (ds_workers (observe_scq s k)) = true); [|congruence].
    apply existsb_exists. exists (observe_worker s w x). split; [cbn [ds_workers observe_scq]; apply in_map_iff; exists (w, x); auto|cbn [dw_cleanup observe_worker]; rewrite Ec; reflexivity]. }
  destruct Hgc as [G1 [G2 G3]]; [exact Hdone|exact Hops| |intros k He; exact (proj1 (Hscq k He))|].
  { intros w He. pose proof (worker_exists_scq _ _ He) as Hs. unfold worker_exists, get_worker in *.
    destruct (aget wref_eqb w (q_workers (get_scq s (w_sk w)))) as [x|] eqn:E; [|discriminate].
    apply (proj2 (Hscq _ Hs) w x). apply (aget_In wref_eqb wref_eqb_eq). exact E. }
  (* nothing leaked *)
  assert (H1 : existsb (fun o => negb (do_mayexist o)) (d_ops (observe s)) = false).
  { match goal with |- ?X = false => destruct X eqn:E end; [|reflexivity]. exfalso. apply existsb_exists in E. destruct E as [d [Hd Hm]].
    unfold observe in Hd. cbn [d_ops] in Hd. apply in_map_iff in Hd. destruct Hd as [[o x] [<- Hox]]. cbn [do_mayexist observe_op] in Hm.
    pose proof (In_aget_NoDup Nat.eqb nat_eqb_eq _ _ _ (proj1 (ML_run cfg t0 pfx)) Hox) as Ea. rewrite (G1 o x Ea) in Hm. discriminate. }
  rewrite H1.
  assert (H2 : existsb (fun '(_, q) => negb (Nat.eqb (List.length (ds_workers q)) 0)) (all_scqs (observe s)) = false).
  { match goal with |- ?X = false => destruct X eqn:E end; [|reflexivity]. exfalso. apply existsb_exists in E. destruct E as [[pk q] [Hq Hn]].
    apply in_all_scqs_observe in Hq. destruct Hq as [p [c [Hp [Hc [-> ->]]]]]. cbn [ds_workers observe_scq] in Hn. rewrite map_length in Hn.
    destruct (q_workers (get_scq s (mkSK (p_key p) c))) as [|[w x] l] eqn:Eq; [discriminate|].
    pose proof (SW_St _ (SW_run cfg t0 pfx)) as [_ [Hwk _]]. fold s in Hwk.
    assert (Hgs : In (mkSK (p_key p) c, get_scq s (mkSK (p_key p) c)) (s_scqs s)).
    { unfold get_scq in *. destruct (aget skey_eqb (mkSK (p_key p) c) (s_scqs s)) eqn:Eg; [apply (aget_In skey_eqb skey_eqb_eq); exact Eg|discriminate]. }
    destruct (Hwk _ _ Hgs) as [Hndw Hsk]. assert (Hwsk : w_sk w = mkSK (p_key p) c) by (apply Hsk; rewrite Eq; left; reflexivity).
    assert (He : worker_exists s w = true).
    { unfold worker_exists. rewrite Hwsk, Eq. cbn. rewrite wref_eqb_refl. reflexivity. }
    rewrite (G2 w) in He. discriminate. }
  rewrite H2.
  assert (H3 : existsb (fun '(_, q) => ds_removable q) (all_scqs (observe s)) = false).
  { match goal with |- ?X = false => destruct X eqn:E end; [|reflexivity]. exfalso. apply existsb_exists in E. destruct E as [[pk q] [Hq Hr]].
    apply in_all_scqs_observe in Hq. destruct Hq as [p [c [Hp [Hc [-> ->]]]]]. cbn [ds_removable observe_scq] in Hr.
    destruct (Sp_run cfg t0 pfx) as [_ [_ S3]]. fold s in S3. rewrite (G3 _ (S3 p c Hp Hc)) in Hr. discriminate. }
  rewrite H3. reflexivity.
Qed.

Lemma Inv_live_init : forall cfg t0, Inv_live cfg t0 [] mon0.
Proof. intros cfg t0 c [e [h [[] _]]]. Qed.

Theorem monitor_c06_final_on_model : forall cfg t0 evs,
  selectors_in_range (init cfg t0) evs -> fresh_calls [] evs -> bg_scripts_ok evs ->
  panicked (snd (run (init cfg t0) evs)) \/ trace_sub [12%nat] cfg t0 (model_trace cfg t0 evs) = true.
Proof.
  intros cfg t0 evs Hsel Hfr Hbg.
  apply (trace_sub_generic cfg t0 [12%nat] (fun pfx m _ => Inv_live cfg t0 pfx m)) with (pfx := []) (m := mon0) (pre := empty_dump);
    [|split; [exact Hsel|split; assumption]|intros [o [what [[] _]]]|apply Inv_live_init].
  intros pfx eh m pre Hg Hnp HI. cbv zeta.
  pose proof (Inv_live_step cfg t0 pfx eh m pre (observe (fst (step (fst (run (init cfg t0) pfx)) eh))) HI) as HI'.
  split; [|exact HI']. cbn [forallb]. rewrite andb_true_r. apply String.eqb_eq.
  unfold p_components. cbv zeta. cbn [nth]. rewrite <- (run_snoc_fst pfx eh (init cfg t0)).
  apply c06_final_ok; [exact (proj1 (proj2 Hg))|exact Hnp|].
  rewrite (run_snoc_fst pfx eh (init cfg t0)). exact HI'.
Qed.
