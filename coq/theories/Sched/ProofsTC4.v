(* C04, tree consistency: the clean-up queue (operation.remove, removeStaleWorker, sizeClassQueue.remove). *)
From Coq Require Import Lia.
From VF Require Export Sched.ProofsTC3.
From VF Require Import Sched.ProofsLearner Sched.ProofsRoute.
Open Scope Z_scope.

Lemma worker_exists_scq : forall s w, worker_exists s w = true -> scq_exists s (w_sk w) = true.
Proof.
  intros s w H. unfold worker_exists, get_scq, scq_exists in *. destruct (aget skey_eqb (w_sk w) (s_scqs s)); [reflexivity|discriminate].
Qed.

Lemma anc_exist_root : forall s k, inv_exists s (mkI k []) = true -> anc_exist s (mkI k []).
Proof. intros s k H a Ha. rewrite chain_root in Ha. destruct Ha as [<-|[]]. exact H. Qed.

(* completion by the scheduler itself *)
Lemma TC_complete_task_nb : forall ext t r s,
  G s -> (t < s_ntasks s)%nat -> resp_success r = false -> TC [] ext s -> TC [] ext (complete_task t r false s).
Proof.
  intros ext t r s HG Ht Hr H. apply TC_complete_task; [exact (G_W _ HG)|exact Ht|apply XAh_of_X; exact (XS_X _ _ (G_XS _ HG))| | | |exact H].
  - intros w _ He. apply anc_exist_root. apply (root_exists _ _ (SW_St _ (G_SW _ HG))). apply worker_exists_scq. exact He.
  - intros. congruence.
  - discriminate.
Qed.

Definition GT (s : state) : Prop := G s /\ TC [] [] s.

Lemma GT_complete_task_nb : forall t r s, (t < s_ntasks s)%nat -> resp_success r = false -> GT s -> GT (complete_task t r false s).
Proof. intros t r s Ht Hr [A B]. split; [apply G_complete_task; assumption|apply TC_complete_task_nb; assumption]. Qed.

Lemma GT_cancel_all_queued : forall i r s, resp_success r = false -> GT s -> GT (cancel_all_queued i r s).
Proof.
  intros i r s Hr H. rewrite cancel_all_queued_eq. apply cancel_go_closed; [|exact H].
  intros s1 d v o tl H1 Hin Hq. apply GT_complete_task_nb; [|exact Hr|exact H1].
  exact (W_pick_qop _ _ _ _ _ (G_W _ (proj1 H1)) Hin Hq).
Qed.

(* ---- what decrementExecutingWorkersCount takes away ------------------------------------------------------------------------------------------- *)
Lemma ecount_remove_if_empty : forall j s a w, NoDup (map fst (s_invs s)) ->
  ecount (fst (remove_if_empty j s)) a w = ecount s a w.
Proof.
  intros j s a w Hnd. unfold remove_if_empty.
  destruct (negb (is_root j) && inv_exists s j && negb (is_active s j) && (v_idle (get_inv s j) =? 0)%N) eqn:Eg; cbn [fst]; [|reflexivity].
  apply andb_true_iff in Eg. destruct Eg as [Eg _]. apply andb_true_iff in Eg. destruct Eg as [_ Eact]. apply negb_true_iff in Eact.
  destruct (active_exec_empty _ _ Eact) as [Eexec _]. unfold ecount. rewrite get_inv_adel by exact Hnd.
  destruct (iref_eqb a j) eqn:E; [|reflexivity]. apply iref_eqb_eq in E. subst. rewrite Eexec. reflexivity.
Qed.

Lemma NoDup_invs_upd_inv : forall i f s, NoDup (map fst (s_invs s)) -> NoDup (map fst (s_invs (upd_inv i f s))).
Proof.
  intros i f s H. unfold upd_inv. destruct (aget iref_eqb i (s_invs s)); [|exact H]. cbn. apply (NoDup_keys_aset iref_eqb iref_eqb_eq). exact H.
Qed.
Lemma NoDup_invs_rie : forall j s, NoDup (map fst (s_invs s)) -> NoDup (map fst (s_invs (fst (remove_if_empty j s)))).
Proof.
  intros j s H. unfold remove_if_empty. destruct (_ && _); cbn [fst]; [|exact H]. cbn. apply (NoDup_keys_adel iref_eqb). exact H.
Qed.

Lemma ecount_decrement_ge : forall i w s a, NoDup (map fst (s_invs s)) ->
  (ecount s a w <= ecount (decrement_executing i w s) a w + (if inb a (chain i) then 1 else 0))%nat.
Proof.
  intros i w s a Hnd. unfold decrement_executing.
  assert (Hgen : forall l s0, NoDup l -> NoDup (map fst (s_invs s0)) ->
     let s1 := fold_left (fun s j => let v := get_inv s j in
         match aget wref_eqb w (v_exec v) with
         | Some (S n) =>
           let ex := match n with O => adel wref_eqb w (v_exec v) | _ => aset wref_eqb w n (v_exec v) end in
           let s := upd_inv j (fun v => v <| v_exec := ex |> <| v_completed := s_now s |>) s in
           if is_root j then s else fst (remove_if_empty j s)
         | _ => panic "Executing workers count invalid" s
         end) l s0 in
     (ecount s0 a w <= ecount s1 a w + (if inb a l then 1 else 0))%nat).
  { induction l as [|j l IH]; intros s0 Hl Hn0; cbn [fold_left]; [cbn; lia|]. cbv zeta.
    inversion Hl as [|? ? Hj Hl']; subst.
    set (stp := match aget wref_eqb w (v_exec (get_inv s0 j)) with
                | Some (S n) =>
                  if is_root j then upd_inv j (fun v => v <| v_exec := match n with O => adel wref_eqb w (v_exec (get_inv s0 j)) | S _ => aset wref_eqb w n (v_exec (get_inv s0 j)) end |> <| v_completed := s_now s0 |>) s0
                  else fst (remove_if_empty j (upd_inv j (fun v => v <| v_exec := match n with O => adel wref_eqb w (v_exec (get_inv s0 j)) | S _ => aset wref_eqb w n (v_exec (get_inv s0 j)) end |> <| v_completed := s_now s0 |>) s0))
                | _ => panic "Executing workers count invalid" s0 end).
    assert (Hstp : NoDup (map fst (s_invs stp)) /\ (ecount s0 a w <= ecount stp a w + (if iref_eqb a j then 1 else 0))%nat).
    { unfold stp. destruct (aget wref_eqb w (v_exec (get_inv s0 j))) as [[|n]|] eqn:Eg;
        try (split; [exact Hn0|]; change (ecount (panic "Executing workers count invalid" s0) a w) with (ecount s0 a w); destruct (iref_eqb a j); lia).
      set (ex := match n with O => adel wref_eqb w (v_exec (get_inv s0 j)) | S _ => aset wref_eqb w n (v_exec (get_inv s0 j)) end).
      set (su := upd_inv j (fun v => v <| v_exec := ex |> <| v_completed := s_now s0 |>) s0).
      assert (Hsu : NoDup (map fst (s_invs su)) /\ (ecount s0 a w <= ecount su a w + (if iref_eqb a j then 1 else 0))%nat).
      { split; [apply NoDup_invs_upd_inv; exact Hn0|]. unfold su. rewrite ecount_upd_inv.
        destruct (iref_eqb a j) eqn:E; cbn [andb]; [|lia]. apply iref_eqb_eq in E. subst a.
        destruct (inv_exists s0 j); [|lia]. cbn [v_exec set]. rewrite ecount_xcnt. unfold xcnt at 1. rewrite Eg.
        unfold ex. destruct n; [lia|]. unfold xcnt. rewrite (aget_aset_same wref_eqb wref_eqb_eq). lia. }
      destruct Hsu as [A B]. destruct (is_root j); [split; assumption|]. split; [apply NoDup_invs_rie; exact A|]. rewrite ecount_remove_if_empty by exact A. exact B. }
    destruct Hstp as [A B]. specialize (IH stp Hl' A). cbv zeta in IH. fold stp.
    unfold inb. cbn [existsb]. fold (inb a l). destruct (iref_eqb a j) eqn:E; cbn [orb]; [|lia].
    apply iref_eqb_eq in E. subst. assert (Hn : inb j l = false) by (apply inb_false; exact Hj). rewrite Hn in IH. lia. }
  apply (Hgen (chain i) s (chain_NoDup i) Hnd).
Qed.

(* ---- operation.remove ---------------------------------------------------------------------------------------------------------------------------- *)
Lemma cnto_filter_le : forall a (P : iref * nat -> bool) ops, (cnto a (filter P ops) <= cnto a ops)%nat.
Proof.
  intros a P. induction ops as [|x ops IH]; [apply Nat.le_refl|]. unfold cnto, flen in *. cbn [filter].
  destruct (P x); cbn [filter]; destruct (inb a (chain (fst x))); cbn [List.length]; lia.
Qed.
Lemma cnto_filter_out : forall a o i ops, In (i, o) ops ->
  (cnto a (filter (fun '(_, o') => negb (Nat.eqb o o')) ops) + (if inb a (chain i) then 1 else 0) <= cnto a ops)%nat.
Proof.
  intros a o i. induction ops as [|[i1 o1] ops IH]; intros Hin; [destruct Hin|]. unfold cnto, flen in *. cbn [filter fst].
  destruct Hin as [E|Hin].
  - inversion E; subst. rewrite Nat.eqb_refl. cbn [negb].
    pose proof (cnto_filter_le a (fun '(_, o') => negb (Nat.eqb o o')) ops) as Hle. unfold cnto, flen in Hle.
    destruct (inb a (chain i)); cbn [List.length]; lia.
  - specialize (IH Hin). destruct (negb (Nat.eqb o o1)); cbn [filter fst]; destruct (inb a (chain i1)); cbn [List.length]; lia.
Qed.

Lemma prune_chain_TC : forall rem ext l s go, TC rem ext s ->
  TC rem ext (fst (fold_left (fun (acc : state * bool) j => let '(s, go) := acc in if go then remove_if_empty j s else (s, false)) l (s, go))).
Proof.
  intros rem ext l s go H.
  match goal with |- TC _ _ (fst (fold_left ?g ?l ?a)) => apply (fold_left_pres (fun acc => TC rem ext (fst acc)) g l) end; [|exact H].
  intros [s1 g1] j H1. cbn [fst] in *. destruct g1; [apply TC_remove_if_empty; exact H1|exact H1].
Qed.

Lemma prune_chain_tasks : forall l s go,
  s_tasks (fst (fold_left (fun (acc : state * bool) j => let '(s, go) := acc in if go then remove_if_empty j s else (s, false)) l (s, go))) = s_tasks s.
Proof.
  intros l s go.
  match goal with |- s_tasks (fst (fold_left ?g ?l ?a)) = _ => apply (fold_left_pres (fun acc => s_tasks (fst acc) = s_tasks s) g l) end; [|reflexivity].
  intros [s1 g1] j H1. cbn [fst] in *. destruct g1; [|exact H1]. unfold remove_if_empty. destruct (_ && _); exact H1.
Qed.

Lemma TC_operation_remove : forall o s, G s -> op_alive s o = true -> TC [] [] s -> TC [] [] (operation_remove o s).
Proof.
  intros o s HG Ha H. pose proof (G_XS _ HG) as HXS. pose proof (XS_X _ _ HXS) as HX.
  set (t := o_task (get_op s o)).
  pose proof (OT_alive s o (XS_OT _ _ HXS) Ha) as Hlt. change (tsk s o) with t in Hlt.
  pose proof (XO1 _ _ HX o Ha (fun F => F)) as Hlisted. change (tsk s o) with t in Hlisted.
  unfold operation_remove. cbv zeta. fold t.
  (* the last two steps *)
  assert (Hfin : forall a, TC [] [t] a ->
            (forall w x, t_worker (get_task a t) = Some w ->
               (cnto x (filter (fun '(_, o') => negb (Nat.eqb o o')) (t_ops (get_task a t))) <= ecount a x w)%nat) ->
            TC [] [] (upd_task t (fun y => y <| t_ops := filter (fun '(_, o') => negb (Nat.eqb o o')) (t_ops y) |>) (a <| s_ops := adel Nat.eqb o (s_ops a) |>))).
  { intros a [HSW [HKW [HID [HEC [HQP HNQ]]]]] Hc.
    split; [eapply SW_frame'; [| | | |exact HSW]; reflexivity|]. split; [eapply KW_frame; [| |exact HKW]; reflexivity|].
    split; [eapply IDs_frame; [| |exact HID]; reflexivity|]. split; [|split; [eapply QPs_frame; [|exact HQP]; reflexivity|eapply NQ_frame; [| |exact HNQ]; reflexivity]].
    intros x t' w Hn. rewrite get_task_upd_task. rewrite (get_task_frame a) by reflexivity.
    match goal with |- _ -> (_ <= ecount ?s' x w)%nat => assert (Hec : ecount s' x w = ecount a x w) by (unfold ecount; rewrite (get_inv_frame a) by reflexivity; reflexivity) end.
    rewrite Hec. destruct (Nat.eqb t' t) eqn:E.
    - apply Nat.eqb_eq in E. subst t'. cbn [t_worker t_ops set]. intro Hw. exact (Hc w x Hw).
    - intro Hw. apply (HEC x t' w); [intros [E1|[]]; subst; rewrite Nat.eqb_refl in E; discriminate|exact Hw]. }
  destruct (Nat.eqb (List.length (t_ops (get_task s t))) 1).
  - (* last operation of the task: the task is cancelled *)
    apply Hfin; [apply TC_weaken; apply TC_complete_task_nb; [exact HG|exact Hlt|reflexivity|exact H]|].
    intros w x Hw. rewrite (complete_task_post_worker t (mkResp cCANCELLED 0 0) s (G_SW _ HG) (G_W _ HG) Hlt HXS eq_refl) in Hw. discriminate.
  - unfold task_stage. destruct (t_resp (get_task s t)) eqn:Er.
    + apply Hfin; [apply TC_weaken; destruct (t_worker (get_task s t)); exact H|].
      intros w x Hw. exfalso. assert (Hw' : t_worker (get_task s t) = Some w) by (destruct (t_worker (get_task s t)); exact Hw).
      destruct (XA _ _ HX t w (fun F => F) Hw') as [_ [_ [_ E]]]. congruence.
    + destruct (t_worker (get_task s t)) as [w|] eqn:Ew.
      * (* executing: the invocation of the operation loses one *)
        assert (Hfree : free_worker [t] w s).
        { intros t2 Hn Ht2. destruct (XA _ _ HX t2 w (fun F => F) Ht2) as [_ [_ [K2 _]]]. destruct (XA _ _ HX t w (fun F => F) Ew) as [_ [_ [K1 _]]].
          apply Hn. left. congruence. }
        apply Hfin; [apply TC_decrement_executing; [exact Hfree|apply TC_weaken; exact H]|].
        intros w' x. rewrite (get_task_frame s) by apply tasks_decrement_executing. rewrite Ew. intro E. injection E as <-.
        destruct H as [HSW [_ [_ [HEC _]]]]. pose proof (SW_St _ HSW) as [_ [_ [Hnd _]]].
        pose proof (HEC x t w (fun F => F) Ew) as H1. pose proof (ecount_decrement_ge (o_inv (get_op s o)) w s x Hnd) as H2.
        pose proof (cnto_filter_out x o (o_inv (get_op s o)) _ Hlisted) as H3. lia.
      * (* queued *)
        apply Hfin; [apply TC_weaken; apply prune_chain_TC; apply TC_remove_queued; exact H|].
        intros w x. rewrite (get_task_frame (remove_queued_from_invocation o s)) by apply prune_chain_tasks.
        rewrite (get_task_frame s) by (apply (proj1 (proj2 (rq_reads o s)))). rewrite Ew. discriminate.
Qed.

(* ---- the five new components, without the structure invariant -------------------------------------------------------------------------------- *)
Definition TR (s : state) : Prop := KW s /\ IDs [] s /\ EC [] s /\ QPs s /\ NQ s.
Lemma TC_TR : forall s, TC [] [] s -> TR s. Proof. unfold TC, TR. tauto. Qed.
Lemma TC_of : forall s, SW s -> TR s -> TC [] [] s. Proof. unfold TC, TR. tauto. Qed.

(* ---- removeStaleWorker ------------------------------------------------------------------------------------------------------------------------------ *)
Lemma flen_adel_le : forall {V} (P : wref * V -> bool) w l, (flen P (adel wref_eqb w l) <= flen P l)%nat.
Proof.
  intros V P w. induction l as [|[w2 v2] l IH]; [apply Nat.le_refl|]. unfold flen in *. cbn [adel filter].
  destruct (wref_eqb w w2); [destruct (P (w2, v2)); cbn [List.length]; lia|]. cbn [filter]. destruct (P (w2, v2)); cbn [List.length]; lia.
Qed.

Lemma TR_delworker : forall w s, St s -> TR s -> TR (upd_scq (w_sk w) (fun q => q <| q_workers ::= adel wref_eqb w |>) s).
Proof.
  intros w s HS [HKW [HID [HEC [HQP HNQ]]]]. set (s' := upd_scq (w_sk w) _ s).
  assert (Hnd : NoDup (map fst (q_workers (get_scq s (w_sk w))))).
  { destruct HS as [_ [H1 _]]. unfold get_scq. destruct (aget skey_eqb (w_sk w) (s_scqs s)) as [q|] eqn:E; [|constructor].
    apply (aget_In skey_eqb skey_eqb_eq) in E. exact (proj1 (H1 _ _ E)). }
  assert (Hgw : forall w', get_worker s' w' = if wref_eqb w' w then dummy_worker else get_worker s w') by (intro; apply get_worker_delworker; exact Hnd).
  assert (Hex : forall w', worker_exists s' w' = if wref_eqb w' w then false else worker_exists s w') by (intro; apply worker_exists_delworker; exact Hnd).
  assert (Hi : forall j, get_inv s' j = get_inv s j) by (intro; apply get_inv_frame; apply invs_upd_scq).
  split; [|split; [|split; [|split]]].
  - intros w' He Hw. rewrite Hex in He. rewrite Hgw in Hw |- *. destruct (wref_eqb w' w); [discriminate|].
    destruct (HKW w' He Hw) as [p [A B]]. exists p. rewrite Hi. auto.
  - intro a. rewrite (idle_at_frame s) by apply invs_upd_scq. specialize (HID a). cbn [inb existsb] in *.
    destruct (scq_exists s (w_sk w)) eqn:Es.
    + pose proof (cntw_upd_scq s (w_sk w) (fun q => q <| q_workers ::= adel wref_eqb w |>) a Es) as Hc. cbn [q_workers set] in Hc.
      pose proof (flen_adel_le (touch a) w (q_workers (get_scq s (w_sk w)))). unfold s'. lia.
    + assert (E : s' = s) by (unfold s', upd_scq, scq_exists in *; destruct (aget skey_eqb (w_sk w) (s_scqs s)); [discriminate|reflexivity]). rewrite E. exact HID.
  - eapply EC_frame; [| |exact HEC]; [unfold s'; rewrite upd_scq_eq; reflexivity|apply invs_upd_scq].
  - eapply QPs_frame; [|exact HQP]. apply invs_upd_scq.
  - intros w' He Hw. rewrite Hex in He. rewrite Hgw in Hw. rewrite (is_queued_frame s) by apply invs_upd_scq.
    destruct (wref_eqb w' w); [discriminate|]. exact (HNQ w' He Hw).
Qed.

Lemma TR_upd_scq_keep : forall k f s, (forall q, q_workers (f q) = q_workers q) -> TR s -> TR (upd_scq k f s).
Proof.
  intros k f s Hf [HKW [HID [HEC [HQP HNQ]]]].
  split; [apply KW_upd_scq; assumption|]. split; [apply IDs_upd_scq; assumption|].
  split; [eapply EC_frame; [| |exact HEC]; [rewrite upd_scq_eq; reflexivity|apply invs_upd_scq]|].
  split; [eapply QPs_frame; [|exact HQP]; apply invs_upd_scq|apply NQ_upd_scq; assumption].
Qed.

Lemma TC_remove_stale_worker : forall w z s,
  unnamed s w -> k_wait (get_worker s w) = false -> G s -> TC [] [] s -> TC [] [] (remove_stale_worker w z s).
Proof.
  intros w z s Hun Hkw HG H. apply TC_of; [apply SW_remove_stale_worker; [exact Hun|exact Hkw|exact (G_SW _ HG)]|].
  unfold remove_stale_worker. cbv zeta.
  set (s1 := mark_terminating w s).
  assert (H1 : G s1 /\ TC [] [] s1) by (unfold s1, mark_terminating; split; [g_prim HG|tc_go2]).
  clearbody s1. destruct H1 as [HG1 H1].
  set (s2 := match k_task (get_worker s1 w) with None => s1 | Some t => complete_task t (mkResp cUNAVAILABLE 0 0) false s1 end).
  assert (H2 : TC [] [] s2).
  { unfold s2. destruct (k_task (get_worker s1 w)) as [t|] eqn:Ek; [|exact H1].
    apply TC_complete_task_nb; [exact HG1|exact (W_pick_worker _ _ _ (G_W _ HG1) Ek)|reflexivity|exact H1]. }
  clearbody s2.
  pose proof (TC_clear_last_invocation [] w s2 H2) as H3. set (s3 := clear_last_invocation w s2) in *. clearbody s3.
  pose proof (TR_delworker w s3 (SW_St _ (TC_SW _ _ _ H3)) (TC_TR _ H3)) as H4.
  set (s4 := upd_scq (w_sk w) _ s3) in *. clearbody s4.
  destruct (Nat.eqb _ 0 && _); [apply TR_upd_scq_keep; [intro; reflexivity|exact H4]|exact H4].
Qed.

(* ---- sizeClassQueue.remove ------------------------------------------------------------------------------------------------------------------------- *)
Lemma touch_sk : forall a w kw, touch a (w, kw) = true -> i_sk a = w_sk w.
Proof.
  intros a w kw H. unfold touch in H. cbn in H. destruct (k_last kw) as [p|]; [|discriminate]. apply inb_In in H.
  apply in_chain in H. exact (proj1 H).
Qed.
Lemma asum_zero : forall {K V} (g : K * V -> nat) l, (forall x, In x l -> g x = 0%nat) -> asum g l = 0%nat.
Proof. intros K V g. induction l as [|x l IH]; intro H; [reflexivity|]. rewrite asum_cons, (H x (or_introl eq_refl)), IH; [reflexivity|]. intros y Hy. apply H. right. exact Hy. Qed.
Lemma flen_zero : forall {A} (P : A -> bool) l, (forall x, In x l -> P x = false) -> flen P l = 0%nat.
Proof. intros A P. induction l as [|x l IH]; intro H; [reflexivity|]. unfold flen in *. cbn. rewrite (H x (or_introl eq_refl)). apply IH. intros y Hy. apply H. right. exact Hy. Qed.

Lemma cnto_zero : forall a ops, (forall i o, In (i, o) ops -> i_sk i <> i_sk a) -> cnto a ops = 0%nat.
Proof.
  intros a ops H. unfold cnto. apply flen_zero. intros [i o] Hin. cbn. apply inb_false. intro Hc. destruct i as [ik ip]. apply in_chain in Hc.
  apply (H _ _ Hin). cbn. symmetry. exact (proj1 Hc).
Qed.

Lemma TR_delscq : forall k s, St s -> q_workers (get_scq s k) = [] -> TK s -> X [] s -> TR s ->
  TR (s <| s_scqs := adel skey_eqb k (s_scqs s) |> <| s_invs := filter (fun '(i, _) => negb (skey_eqb (i_sk i) k)) (s_invs s) |>).
Proof.
  intros k s HS Hnone HTK HX [HKW [HID [HEC [HQP HNQ]]]]. pose proof HS as [Hn [Hwk _]].
  set (s' := s <| s_scqs := _ |> <| s_invs := _ |>).
  assert (Hq : forall k', q_workers (get_scq s' k') = q_workers (get_scq s k')).
  { intro k'. unfold s', get_scq. cbn. destruct (skey_eqb k' k) eqn:E.
    - apply skey_eqb_eq in E. subst. rewrite (aget_adel_same skey_eqb skey_eqb_eq) by exact Hn. unfold get_scq in Hnone. rewrite Hnone. reflexivity.
    - rewrite (aget_adel_other skey_eqb skey_eqb_eq); [reflexivity|]. intros ->. rewrite skey_eqb_refl in E. discriminate. }
  assert (Hw : forall w, get_worker s' w = get_worker s w) by (intro w; unfold get_worker; rewrite Hq; reflexivity).
  assert (Hex : forall w, worker_exists s' w = worker_exists s w) by (intro w; unfold worker_exists; rewrite Hq; reflexivity).
  assert (Hi : forall i, get_inv s' i = if skey_eqb (i_sk i) k then dummy_inv else get_inv s i).
  { intro i. unfold s', get_inv. cbn. destruct (skey_eqb (i_sk i) k) eqn:E.
    - rewrite (aget_filter_drop iref_eqb iref_eqb_eq (fun i => negb (skey_eqb (i_sk i) k))); [reflexivity|]. cbn. rewrite E. reflexivity.
    - rewrite (aget_filter_keep iref_eqb iref_eqb_eq (fun i => negb (skey_eqb (i_sk i) k))); [reflexivity|]. cbn. rewrite E. reflexivity. }
  assert (Hnok : forall w, worker_exists s w = true -> w_sk w <> k).
  { intros w He E. unfold worker_exists in He. rewrite E, Hnone in He. discriminate. }
  assert (Hin' : forall d v, In (d, v) (s_invs s') -> In (d, v) (s_invs s) /\ i_sk d <> k).
  { intros d v Hin. cbn in Hin. apply filter_In in Hin. destruct Hin as [Hin E]. split; [exact Hin|]. intros Ek. rewrite Ek, skey_eqb_refl in E. discriminate. }
  split; [|split; [|split; [|split]]].
  - intros w He Hwt. rewrite Hex in He. rewrite Hw in Hwt |- *. destruct (HKW w He Hwt) as [p [A B]]. exists p. split; [exact A|].
    rewrite Hi. cbn [last_iref i_sk]. destruct (skey_eqb (w_sk w) k) eqn:E; [apply skey_eqb_eq in E; exfalso; exact (Hnok w He E)|exact B].
  - intro a. cbn [inb existsb]. rewrite Nat.add_0_r. specialize (HID a). cbn [inb existsb] in HID. rewrite Nat.add_0_r in HID.
    assert (Hc : cntw s' a = cntw s a).
    { unfold cntw, s'. cbn [s_scqs set]. destruct (aget skey_eqb k (s_scqs s)) as [q|] eqn:E.
      - pose proof (asum_adel skey_eqb skey_eqb_eq (qcnt a) k q (s_scqs s) E) as Hs. unfold qcnt at 2 in Hs. cbn [snd] in Hs.
        unfold get_scq in Hnone. rewrite E in Hnone. rewrite Hnone in Hs. unfold flen in Hs. cbn in Hs. lia.
      - rewrite (asum_adel_none skey_eqb k _ E). reflexivity. }
    rewrite Hc. unfold idle_at. rewrite Hi. destruct (skey_eqb (i_sk a) k) eqn:E; [|exact HID]. apply skey_eqb_eq in E. cbn.
    assert (Hz : cntw s a = 0%nat); [|lia].
    unfold cntw. apply asum_zero. intros [k' q'] Hkq. unfold qcnt. cbn [snd]. apply flen_zero. intros [w kw] Hwk'.
    destruct (touch a (w, kw)) eqn:Et; [|reflexivity]. exfalso. apply touch_sk in Et.
    destruct (Hwk k' q' Hkq) as [_ Hsk]. assert (Hwk2 : w_sk w = k') by (apply Hsk; apply in_map_iff; exists (w, kw); auto).
    assert (Ek : k' = k) by congruence. rewrite Ek in Hkq.
    assert (Eq : get_scq s k = q') by (unfold get_scq; rewrite (In_aget_NoDup skey_eqb skey_eqb_eq _ _ _ Hn Hkq); reflexivity).
    rewrite Eq in Hnone. rewrite Hnone in Hwk'. destruct Hwk'.
  - intros a t w Hn' Ht. rewrite (get_task_frame s) in Ht |- * by reflexivity. specialize (HEC a t w Hn' Ht). unfold ecount in *. rewrite Hi.
    destruct (skey_eqb (i_sk a) k) eqn:E; [|exact HEC]. apply skey_eqb_eq in E. cbn.
    destruct (XA _ _ HX t w (fun F => F) Ht) as [_ [He _]].
    rewrite cnto_zero; [apply Nat.le_refl|]. intros i o Hin Esk.
    destruct (HTK t) as [_ [K2 _]]. specialize (K2 w i o Ht Hin). apply (Hnok w He). congruence.
  - intros d v Hin Hqo. destruct (Hin' d v Hin) as [Hin0 Hne]. pose proof (HQP d v Hin0 Hqo) as Hae. intros a Ha.
    specialize (Hae a Ha). unfold inv_exists in *. destruct d as [dk dp]. apply in_chain in Ha. destruct Ha as [Hak _]. cbn in *.
    unfold s'. cbn. rewrite (aget_filter_keep iref_eqb iref_eqb_eq (fun i => negb (skey_eqb (i_sk i) k))); [exact Hae|].
    cbn. destruct (skey_eqb (i_sk a) k) eqn:E; [apply skey_eqb_eq in E; congruence|reflexivity].
  - intros w He Hwt. rewrite Hex in He. rewrite Hw in Hwt. specialize (HNQ w He Hwt).
    destruct (is_queued s' (mkI (w_sk w) [])) eqn:E; [|reflexivity]. apply is_queued_iff in E. destruct E as [d [v [Hin [Hc Hqo]]]].
    destruct (Hin' d v Hin) as [Hin0 _]. assert (Hqs : is_queued s (mkI (w_sk w) []) = true) by (apply is_queued_iff; exists d, v; auto). congruence.
Qed.

Definition FT (s : state) : Prop := FI s /\ TC [] [] s.
Lemma FT_GT : forall s, FT s -> GT s. Proof. intros s [A B]. split; [exact (FI_G _ A)|exact B]. Qed.

Lemma FT_cancel_all_queued : forall i r s, resp_success r = false -> FT s -> FT (cancel_all_queued i r s).
Proof.
  intros i r s Hr [A B]. split; [apply FI_cancel_all_queued; assumption|].
  exact (proj2 (GT_cancel_all_queued i r s Hr (conj (FI_G _ A) B))).
Qed.

Lemma TR_frame : forall s s', s_tasks s' = s_tasks s -> s_scqs s' = s_scqs s -> s_invs s' = s_invs s -> TR s -> TR s'.
Proof.
  intros s s' E1 E2 E3 [A [B [C [D E]]]]. split; [eapply KW_frame; eassumption|]. split; [eapply IDs_frame; eassumption|].
  split; [eapply EC_frame; eassumption|]. split; [eapply QPs_frame; eassumption|eapply NQ_frame; eassumption].
Qed.

Lemma TC_scq_remove : forall k s, q_workers (get_scq s k) = [] -> FT s -> TC [] [] (scq_remove k s).
Proof.
  intros k s Hnw H. apply TC_of; [apply SW_scq_remove; [exact Hnw|exact (FI_SW _ (proj1 H))]|].
  unfold scq_remove. cbv zeta.
  set (s1 := cancel_all_queued (mkI k []) (mkResp cUNAVAILABLE 0 0) s).
  assert (H1 : FT s1) by (apply FT_cancel_all_queued; [reflexivity|exact H]).
  assert (Hn1 : NWf k s1).
  { unfold s1. rewrite cancel_all_queued_eq. apply cancel_go_closed; [|exact Hnw]. intros. inv_go fail t_nw. }
  clearbody s1. destruct H1 as [HFI H1].
  pose proof (TR_delscq k s1 (SW_St _ (FI_SW _ HFI)) Hn1 (NX_TK _ _ (FI_NX _ HFI)) (XS_X _ _ (NX_XS _ _ (FI_NX _ HFI))) (TC_TR _ H1)) as H2.
  eapply TR_frame; [| | |exact H2]; reflexivity.
Qed.

Lemma FT_run_entry : forall e s, In e (cleanup_entries s) -> FT s -> FT (run_entry e s).
Proof.
  intros e s Hin H. split; [apply FI_run_entry; [exact Hin|exact (proj1 H)]|].
  destruct e as [z ce]. destruct H as [HFI H]. pose proof (FI_G _ HFI) as HG. unfold run_entry. cbn [fst snd]. destruct ce as [o|w|k].
  - apply TC_operation_remove; [g_prim HG|rewrite op_alive_upd_op; eapply cleanup_entry_op_alive; exact Hin|tc_go2].
  - pose proof (cleanup_entry_worker s z w (SW_St _ (G_SW _ HG)) Hin) as Hc.
    pose proof (SW_WP _ (G_SW _ HG)) as [A2 [_ [B1 _]]].
    apply TC_remove_stale_worker.
    + eapply unnamed_frame; [apply calls_upd_worker|]. intros c p Hcp Hs. destruct (A2 _ _ _ Hcp Hs) as [_ E]. congruence.
    + rewrite get_worker_upd_worker. destruct (wref_eqb w w && worker_exists s w); cbn; apply B1; congruence.
    + g_prim HG.
    + tc_go2.
  - pose proof (cleanup_entry_scq s z k (SW_St _ (G_SW _ HG)) Hin) as Hc.
    pose proof (SW_WP _ (G_SW _ HG)) as [_ [_ [_ [_ [_ [_ [_ E7]]]]]]].
    apply TC_scq_remove.
    + assert (Hn : NWf k s) by (apply E7; congruence). change (NWf k (upd_scq k (fun q => q <| q_cleanup := None |>) s)). t_nw.
    + split; [fi_prim HFI|tc_go2].
Qed.

Lemma FT_enter : forall t s, FT s -> FT (enter t s).
Proof.
  intros t s H. unfold enter. destruct (s_now s <? t); [|exact H]. cbv zeta.
  apply cleanup_run_closed; [intros s1 w [A B]; split; [fi_prim A|tc_go2] | intros; apply FT_run_entry; assumption | destruct H as [A B]; split; [fi_prim A|tc_go2]].
Qed.
