(* C07 (scheduler part): background_bounded -- c07_background on every reachable state. *)
From Coq Require Import Lia.
From VF Require Export Sched.ProofsBg3.
From VF Require Import Sched.Spec Sched.ProofsObsLink Sched.ProofsFullEx.
Open Scope Z_scope.

Lemma BQ_step : forall s eh,
  ev_sel_ok (s <| s_hints := snd eh |> <| s_out := [] |>) (fst eh) -> ev_bg_ok (fst eh) -> Cok s -> BT s -> BQ s ->
  (exists what, In (OPanic what) (snd (step s eh))) \/ BQ (fst (step s eh)).
Proof.
  intros s eh Hev Hbg H HT HB. unfold step. cbn [fst snd].
  set (s0 := s <| s_hints := snd eh |> <| s_out := [] |>) in *.
  assert (H0 : Cok s0) by (eapply Cok_eq; [..|exact H]; reflexivity).
  assert (HT0 : BT s0) by (eapply BT_frame; [|exact HT]; reflexivity).
  assert (HB0 : BQ s0) by (eapply BQ_frame; [| |exact HB]; reflexivity).
  destruct (BQP_step_core (fst eh) s0 Hev Hbg (Cok_TOP _ H0) HT0 HB0) as [[what Hp]|H1].
  - assert (Hpan : Pan (auto_returns (step_core (fst eh) s0))).
    { apply (fr_auto_returns Pan); [intros; unfold ret; inv_go fail t_pan|exists what; exact Hp]. }
    destruct Hpan as [what' Hw']. left. exists what'. rewrite <- in_rev. exact Hw'.
  - right. set (s1 := step_core (fst eh) s0) in *. clearbody s1.
    assert (H2 : BQ (auto_returns s1)) by (apply (fr_auto_returns BQ); try (intros; t_BQ); try (intros; unfold ret; t_BQ); try exact H1).
    eapply BQ_frame; [| |exact H2]; reflexivity.
Qed.

Lemma BQ_init : forall cfg t0, BQ (init cfg t0).
Proof. intros cfg t0 p sc []. Qed.

Lemma BQ_run : forall evs s, selectors_in_range s evs -> bg_scripts_ok evs -> Cok s -> WB s -> BQ s ->
  panicked (snd (run s evs)) \/ BQ (fst (run s evs)).
Proof.
  induction evs as [|eh evs IH]; intros s Hsel Hbg H HWB HB; [right; exact HB|].
  cbn [run]. destruct (step s eh) as [s1 o] eqn:Es. destruct (run s1 evs) as [s2 os] eqn:Er. cbn [fst snd].
  cbn [selectors_in_range] in Hsel. destruct Hsel as [Hev Hsel]. rewrite Es in Hsel. cbn [fst] in Hsel.
  pose proof (Hbg eh (or_introl eq_refl)) as Hbe.
  destruct (Cok_step s eh Hev H) as [[what Hp]|H1].
  - left. exists o, what. rewrite Es in Hp. split; [left; reflexivity|exact Hp].
  - destruct (BQ_step s eh Hev Hbe H (proj2 HWB) HB) as [[what Hp]|HB1].
    + left. exists o, what. rewrite Es in Hp. split; [left; reflexivity|exact Hp].
    + pose proof (WB_step s eh Hbe HWB) as HWB1. rewrite Es in H1, HB1, HWB1. cbn [fst] in H1, HB1, HWB1.
      specialize (IH s1 Hsel (fun e He => Hbg e (or_intror He)) H1 HWB1 HB1). rewrite Er in IH. cbn [fst snd] in IH.
      destruct IH as [[o' [what [Ho Hp]]]|IH]; [left; exists o', what; split; [right; exact Ho|exact Hp]|right; exact IH].
Qed.

(* ---- the state predicate ------------------------------------------------------------------------------------------------------------------------------------- *)
Lemma c07_background_ok : forall s, NoDup (map fst (s_invs s)) -> ML s -> BQ s -> c07_background (observe s) = ""%string.
Proof.
  intros s Hndi [Hndo HM] HB. unfold c07_background. apply first_nonempty_all_empty. intros y Hy. apply in_app_or in Hy. destruct Hy as [Hy|Hy].
  - apply in_map_iff in Hy. destruct Hy as [d [Ey Hd]]. subst y. unfold observe in Hd. cbn [d_ops] in Hd.
    apply in_map_iff in Hd. destruct Hd as [[o x] [Ed Hin]]. subst d. cbn [do_mayexist do_action observe_op].
    destruct (o_mayexist x) eqn:Em; [|reflexivity]. cbn [andb].
    pose proof (In_aget_NoDup Nat.eqb nat_eqb_eq _ _ _ Hndo Hin) as Ea.
    assert (Hal : op_alive s o = true) by (unfold op_alive; rewrite Ea; reflexivity).
    assert (Eg : get_op s o = x) by (unfold get_op; rewrite Ea; reflexivity).
    destruct (HM o Hal) as [_ Hd]; [rewrite Eg; exact Em|]. rewrite Eg in Hd. rewrite Hd. reflexivity.
  - apply in_flat_map in Hy. destruct Hy as [dp [Hdp Hy]]. unfold observe in Hdp. cbn [d_pqs] in Hdp. apply in_map_iff in Hdp.
    destruct Hdp as [p [Edp Hp]]. subst dp. cbn [dp_scqs dp_maxbg observe_pq] in Hy. apply in_map_iff in Hy. destruct Hy as [q [Ey Hq]]. subst y.
    apply in_map_iff in Hq. destruct Hq as [c [Eq Hc]]. subst q. rewrite find_dinv_observe.
    destruct (aget iref_eqb (mkI (mkSK (p_key p) c) [4294967295%N]) (s_invs s)) as [v|] eqn:Ev; [|reflexivity].
    cbn [di_qops observe_inv]. specialize (HB p c Hp). unfold bgl, bgp, get_inv in HB. rewrite Ev in HB.
    destruct (Nat.ltb (p_maxbg p) (List.length (v_qops v))) eqn:El; [|reflexivity]. apply Nat.ltb_lt in El. lia.
Qed.

Theorem background_bounded : forall cfg t0 evs, selectors_in_range (init cfg t0) evs -> bg_scripts_ok evs ->
  panicked (snd (run (init cfg t0) evs)) \/ c07_background (observe (fst (run (init cfg t0) evs))) = ""%string.
Proof.
  intros cfg t0 evs Hsel Hbg.
  destruct (Cok_run evs (init cfg t0) Hsel (Cok_init cfg t0)) as [Hp|HC]; [left; exact Hp|].
  destruct (BQ_run evs (init cfg t0) Hsel Hbg (Cok_init cfg t0) (conj (W_init cfg t0) (BT_init cfg t0)) (BQ_init cfg t0)) as [Hp|HB]; [left; exact Hp|right].
  apply c07_background_ok; [exact (proj1 (proj2 (proj2 (SW_St _ (proj1 HC)))))|apply ML_run|exact HB].
Qed.

(* ---- a decision procedure for the hypothesis ------------------------------------------------------------------------------------------------------------- *)
Fixpoint lrn_okb (l : learner) : bool :=
  match l with
  | Learner _ succ fail =>
    match succ with Some (_, _, _, bl) => match l_fail bl with None => true | Some _ => false end && lrn_okb bl | None => true end &&
    match fail with Some (_, _, nl) => lrn_okb nl | None => true end
  end.
Lemma lrn_okb_sound : forall l, lrn_okb l = true -> lrn_ok l.
Proof.
  fix IH 1. intros [id succ fail] H. cbn in H |- *. apply andb_true_iff in H. destruct H as [H1 H2]. split.
  - destruct succ as [[[[a b] c] bl]|]; [|exact I]. apply andb_true_iff in H1. destruct H1 as [H1 H3]. split; [destruct (l_fail bl); [discriminate|reflexivity]|apply IH; exact H3].
  - destruct fail as [[[a b] nl]|]; [|exact I]. apply IH. exact H2.
Qed.
Definition ev_bg_okb (e : event) : bool :=
  match e with EStartExecute _ a _ => negb (path_eqb (x_keys a) bgp) && lrn_okb (snd (x_sel a)) | _ => true end.
Lemma bg_scripts_okb_sound : forall evs, forallb (fun eh => ev_bg_okb (fst eh)) evs = true -> bg_scripts_ok evs.
Proof.
  intros evs H eh Hin. rewrite forallb_forall in H. specialize (H eh Hin). destruct (fst eh); try exact I. cbn in *.
  apply andb_true_iff in H. destruct H as [H1 H2]. split; [|apply lrn_okb_sound; exact H2].
  intro E. rewrite E in H1. unfold path_eqb, bgp in H1. cbn in H1. discriminate.
Qed.

Lemma gen_bg_scripts_ok : bg_scripts_ok gen_evs.
Proof. apply bg_scripts_okb_sound. vm_compute. reflexivity. Qed.
