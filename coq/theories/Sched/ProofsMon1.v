(* The monitor of Spec.v ([p_step]) on the model's own trace: the components of the per-event predicate, one by one. *)
From Coq Require Import Lia.
From VF Require Export Sched.ProofsBg4.
From VF Require Import Sched.Spec Sched.Corr.
Open Scope Z_scope.

(* ---- [p_step], component by component ------------------------------------------------------------------------------------------------------------------- *)
Definition pm1 (e : event) (o : list obs) (m : mon) : mon :=
  let m := mon_event e m in
  match e with
  | EStartExecute _ a _ =>
    if existsb (fun x => match x with OGhost GSelect => true | _ => false end) o
    then let '(_, _, _, l) := x_sel a in m <| m_learners ::= cons (l_id l, l) |> else m
  | _ => m
  end.
Definition pm2 (e : event) (o : list obs) (m : mon) : mon :=
  (pm1 e o m) <| m_learners := fst (fold_left c07_ghost o (m_learners (pm1 e o m), ""%string)) |>.
Definition pc_learn (e : event) (o : list obs) (m : mon) : string := snd (fold_left c07_ghost o (m_learners (pm1 e o m), ""%string)).
(* a done message for an operation that is gone cannot state "cancelled for lack of waiting clients" to a stream that was not cancelled *)
Definition pc_gone (post : dump) (e : event) (o : list obs) (m : mon) : string :=
  let m2 := pm2 e o m in
  first_nonempty (map (fun x =>
                  match x with
                  | OMsg c name _ (Some r) =>
                    match get_stream m2 c, find_dop post name with
                    | Some s, None => if scheduler_made r && (r_code r =? cCANCELLED)%N && negb (sm_cancelled s) && negb (sm_done s)
                                      then "C02:cancelled-for-lack-of-waiters-while-a-client-waited"%string else ""%string
                    | _, _ => ""%string
                    end
                  | _ => ""%string
                  end) o).
Definition pm3 (post : dump) (e : event) (o : list obs) (m : mon) : mon := fst (fold_left (c02_obs post) o (pm2 e o m, ""%string)).
Definition pc_stream (post : dump) (e : event) (o : list obs) (m : mon) : string := snd (fold_left (c02_obs post) o (pm2 e o m, ""%string)).

Definition pc_sync (post : dump) (e : event) (o : list obs) (m3 : mon) : string :=
  first_nonempty (map (fun x =>
                  match x with
                  | OSync c dsr _ =>
                    match e with
                    | EStartSync c' a _ => if Nat.eqb c c' then c01_sync post (y_worker a) dsr else ""%string
                    | _ => match find (fun '(c', _) => Nat.eqb c c') (m_syncs (mon_event e m3)) with
                           | _ => ""%string
                           end
                    end
                  | _ => ""%string
                  end) o).

Definition pc_arm (cfg : config) (pre post : dump) (e : event) (o : list obs) (m0 m3 : mon) : string :=
  let syncs_before := m_syncs (mon_event e m0) in
  first_nonempty (map (fun x =>
                 match x with
                 | OSync c _ _ =>
                   match find (fun '(c', _) => Nat.eqb c c') syncs_before with
                   | Some (_, w) =>
                     match find_dworker post (w_sk w) (wid w) with
                     | Some k => if optz_eqb (dw_cleanup k) (Some (d_now post + cf_worker_timeout cfg)) then ""%string
                                 else "C06:worker-timeout-not-measured-from-last-synchronize"%string
                     | None => "C06:synchronized-worker-not-registered"%string
                     end
                   | None => ""%string
                   end
                 | ORet c _ =>
                   match find (fun s => Nat.eqb (sm_call s) c) (m_streams m3) with
                   | Some _ =>
                     first_nonempty (map (fun o =>
                       if Nat.eqb (do_waiters o) 0 && negb (do_mayexist o)
                          && match find_dop pre (do_name o) with
                             | Some o0 => negb (Nat.eqb (do_waiters o0) 0)
                             | None => false
                             end
                       then (if optz_eqb (do_cleanup o) (Some (d_now post + cf_nowaiters cfg)) then ""%string
                             else "C06:no-waiter-timeout-not-measured-from-last-waiter"%string)
                       else ""%string) (d_ops post))
                   | None => ""%string
                   end
                 | _ => ""%string
                 end) o).

Definition pc_lost (cfg : config) (pre post : dump) (m0 : mon) : string :=
  first_nonempty (map (fun o =>
                  match do_resp o, find_dop pre (do_name o) with
                  | Some r, Some o0 =>
                    match do_resp o0, do_worker o0 with
                    | None, Some wk =>
                      if scheduler_made r && (r_code r =? cUNAVAILABLE)%N then
                        let w := mkW (do_sk o0) (fst wk) (snd wk) in
                        match aget wref_eqb w (m_lastsync m0) with
                        | Some t => if existsb (fun '(_, w') => wref_eqb w w') (m_syncs m0) || (d_now post <? t + cf_worker_timeout cfg)
                                    then "C02:worker-declared-lost-before-its-timeout"%string else ""%string
                        | None => ""%string
                        end
                      else ""%string
                    | _, _ => ""%string
                    end
                  | _, _ => ""%string
                  end) (d_ops post)).

Definition pc_cancel (pre post : dump) (e : event) (m0 : mon) : string :=
  let is_kill := match e with
                 | EStartKill _ _ _ _ | EKillQueue _ _ _ _ => true
                 | EEnter c _ => negb (existsb (fun s => Nat.eqb (sm_call s) c) (m_streams m0))
                                 && negb (existsb (fun '(c', _) => Nat.eqb c c') (m_syncs m0))
                 | _ => false
                 end in
  if is_kill then ""%string else first_nonempty (map (fun o =>
                  match do_resp o, find_dop pre (do_name o) with
                  | Some r, Some o0 =>
                    match do_resp o0 with
                    | None => if scheduler_made r && (r_code r =? cCANCELLED)%N && negb (Nat.eqb (do_waiters o0) 0)
                              then "C02:cancelled-for-lack-of-waiters-while-a-client-waited"%string else ""%string
                    | Some _ => ""%string
                    end
                  | _, _ => ""%string
                  end) (d_ops post)).

Definition pc_panic (o : list obs) : string :=
  first_nonempty (map (fun x =>
                   match x with
                   | OPanic what => if String.eqb what "hang" then "C06:calls-blocked-forever"%string else "C01:scheduler-panicked"%string
                   | _ => ""%string
                   end) o).

(* a re-request: the worker of a Synchronize event holds a task (pre dump) and does not report it *)
Definition rereq (pre : dump) (e : event) (m : mon) : option (wref * list nat * nat) :=
    match e with
    | EStartSync _ a _ =>
      let w := y_worker a in
      match find_dworker pre (w_sk w) (wid w) with
      | Some k =>
        match dw_task k with
        | Some ops =>
          let names_task (d : N) := existsb (fun o => existsb (Nat.eqb (do_name o)) ops && (do_digest o =? d)%N) (d_ops pre) in
          let correct := match y_state a with
                         | WExecuting d => names_task d
                         | WCompleted d _ => names_task d
                         | WIdle => false
                         | WNoState => true
                         end in
          if correct then None
          else Some (w, ops, match aget wref_eqb w (m_reissue m) with
                             | Some (ops0, n0) => if shares_op ops0 ops then n0 else O
                             | None => O
                             end)
        | None => None
        end
      | None => None
      end
    | _ => None
    end.
Definition retry_step (cfg : config) (post : dump) (e : event) (o : list obs) (rr : option (wref * list nat * nat)) (m : mon) : mon * string :=
    match rr, e with
    | Some (w, ops, n), EStartSync c _ _ =>
      let told := existsb (fun x => match x with OSync c' (DExec _ _ _ _ _) _ => Nat.eqb c c' | _ => false end) o in
      match find_dworker post (w_sk w) (wid w) with
      | Some k =>
        match dw_task k with
        | Some ops' =>
          if told && shares_op ops ops'
          then (m <| m_reissue := aset wref_eqb w (ops', S n) (m_reissue m) |>,
                if Nat.leb (cf_retry_count cfg) n then "C06:task-reissued-beyond-retry-limit"%string else ""%string)
          else (m, ""%string)
        | None => (m, ""%string)
        end
      | None => (m, ""%string)
      end
    | _, _ => (m, ""%string)
    end.
Definition pc_early (cfg : config) (pre post : dump) (rr : option (wref * list nat * nat)) : string :=
  first_nonempty (map (fun o1 =>
                  match do_resp o1, find_dop pre (do_name o1) with
                  | Some r, Some o0 =>
                    match do_resp o0 with
                    | None =>
                      if scheduler_made r && (r_code r =? cINTERNAL)%N then
                        match rr with
                        | Some (_, ops, n) =>
                          if existsb (Nat.eqb (do_name o1)) ops && Nat.eqb n (cf_retry_count cfg) then ""%string
                          else "C06:task-failed-before-retry-limit"%string
                        | None => "C06:task-failed-before-retry-limit"%string
                        end
                      else ""%string
                    | Some _ => ""%string
                    end
                  | _, _ => ""%string
                  end) (d_ops post)).
(* the TerminateWorkers calls that have not returned, with what each still waits for *)
Definition pm_terms (post : dump) (e : event) (m : mon) : mon :=
  let m := match e with
           | EStartTerminate c pat _ => m <| m_terms ::= cons (c, term_waits pat post) |>
           | _ => m
           end in
  m <| m_terms := map (fun '(c, ws) => (c, map (term_track post) ws))
                      (filter (fun '(c, _) => existsb (Nat.eqb c) (m_live m)) (m_terms m)) |>.
Definition pc_term (post : dump) (mf : mon) : string :=
  first_nonempty (map (fun '(c, ws) => if forallb (term_over post) ws then "C06:terminate-workers-not-woken"%string else ""%string) (m_terms mf)).

Definition pc_exec (cfg : config) (t0 : Z) (pre post : dump) (e : event) (o : list obs) : string :=
  match e with
  | EStartExecute c a _ => first_nonempty [c07_exec o; c03_exec pre post a; c05_exec cfg t0 pre post c a o]
  | _ => ""%string
  end.

(* the monitor state after the event, and the list of components in the order [p_step] reports them *)
(* an accepted completion report ends the assignment the retry counter was about *)
Definition pm_clear (pre : dump) (e : event) (m : mon) : mon :=
  match e with
  | EStartSync _ a _ =>
    match y_state a, find_dworker pre (w_sk (y_worker a)) (wid (y_worker a)) with
    | WCompleted d _, Some k =>
      match dw_task k with
      | Some ops0 =>
        if existsb (fun o => existsb (Nat.eqb (do_name o)) ops0 && (do_digest o =? d)%N) (d_ops pre)
        then m <| m_reissue := adel wref_eqb (y_worker a) (m_reissue m) |> else m
      | None => m
      end
    | _, _ => m
    end
  | _ => m
  end.
Lemma pm_clear_eq : forall pre e m, pm_clear pre e m = m <| m_reissue := m_reissue (pm_clear pre e m) |>.
Proof.
  intros pre e m. unfold pm_clear. destruct e; try (destruct m; reflexivity).
  destruct (y_state a); try (destruct m; reflexivity). destruct (find_dworker _ _ _) as [k|]; [|destruct m; reflexivity].
  destruct (dw_task k); [|destruct m; reflexivity]. destruct (existsb _ _); destruct m; reflexivity.
Qed.
(* every entry follows its task through the post dump; an entry whose worker no longer holds the task is dropped *)
Definition pm_follow (post : dump) (m : mon) : mon :=
  m <| m_reissue := flat_map (fun '(w, (ops0, n)) =>
                               match find_dworker post (w_sk w) (wid w) with
                               | Some k => match dw_task k with
                                           | Some ops' => if shares_op ops0 ops' then [(w, (ops', n))] else []
                                           | None => []
                                           end
                               | None => []
                               end) (m_reissue m) |>.
Definition pm_final (cfg : config) (pre post : dump) (e : event) (o : list obs) (m : mon) : mon :=
  let mc := pm_clear pre e (pm3 post e o m) in
  pm_terms post e (pm_follow post (fst (retry_step cfg post e o (rereq pre e mc) mc))).
Definition p_components (cfg : config) (t0 : Z) (m : mon) (pre : dump) (e : event) (o : list obs) (post : dump) : list string :=
  let m3 := pm3 post e o m in
  let mc := pm_clear pre e m3 in
  let mf := pm_final cfg pre post e o m in
  [pc_panic o; c01_dump post; pc_sync post e o m3; pc_stream post e o m; pc_lost cfg pre post m; pc_cancel pre post e m;
   c03_dump post; c03_waited post; c04_dump post; pc_exec cfg t0 pre post e o; c05_assign pre post;
   c06_dump mf post; c06_final mf post; pc_arm cfg pre post e o m m3; snd (retry_step cfg post e o (rereq pre e mc) mc); pc_early cfg pre post (rereq pre e mc);
   pc_learn e o m; c07_background post; c07_learners_match mf post; pc_gone post e o m; pc_term post mf;
   c05_retry (m_learners (pm1 e o m)) pre post e o].

Lemma p_step_components : forall cfg t0 m pre e o post,
  p_step cfg t0 m pre e o post = (pm_final cfg pre post e o m, first_nonempty (p_components cfg t0 m pre e o post)).
Proof.
  intros cfg t0 m pre e o post. unfold p_step, p_gen, p_components, pm_final, pc_learn, pc_stream, pc_gone, pc_term, pm3, pm2. cbv zeta.
  fold (pm1 e o m).
  destruct (fold_left c07_ghost o (m_learners (pm1 e o m), ""%string)) as [ls el] eqn:E1. cbn [fst snd].
  destruct (fold_left (c02_obs post) o (pm1 e o m <| m_learners := ls |>, ""%string)) as [m3 es] eqn:E2. cbn [fst snd].
  fold (pm_clear pre e m3). fold (rereq pre e (pm_clear pre e m3)). fold (retry_step cfg post e o (rereq pre e (pm_clear pre e m3)) (pm_clear pre e m3)).
  destruct (retry_step cfg post e o (rereq pre e (pm_clear pre e m3)) (pm_clear pre e m3)) as [m4 er] eqn:E3. cbn [fst snd].
  fold (pm_follow post m4). fold (pm_terms post e (pm_follow post m4)). reflexivity.
Qed.

(* the last steps only touch m_reissue and m_terms *)
Lemma retry_step_eq : forall cfg post e o rr m, fst (retry_step cfg post e o rr m) = m <| m_reissue := m_reissue (fst (retry_step cfg post e o rr m)) |>.
Proof.
  intros cfg post e o rr m. unfold retry_step. destruct rr as [[[w ops] n]|]; [|destruct m; reflexivity]. destruct e; try (destruct m; reflexivity).
  destruct (find_dworker _ _ _) as [k|]; [|destruct m; reflexivity]. destruct (dw_task k); [|destruct m; reflexivity]. destruct (_ && _); destruct m; reflexivity.
Qed.
Lemma pm_terms_eq : forall post e m, pm_terms post e m = m <| m_terms := m_terms (pm_terms post e m) |>.
Proof. intros post e m. unfold pm_terms. destruct e; destruct m; reflexivity. Qed.
Lemma pm_final_frame : forall cfg pre post e o m,
  let m3 := pm3 post e o m in let mf := pm_final cfg pre post e o m in
  m_streams mf = m_streams m3 /\ m_syncs mf = m_syncs m3 /\ m_supplied mf = m_supplied m3 /\ m_learners mf = m_learners m3 /\
  m_live mf = m_live m3 /\ m_lastsync mf = m_lastsync m3.
Proof.
  intros cfg pre post e o m m3 mf. unfold mf, pm_final. cbv zeta. rewrite pm_terms_eq. unfold pm_follow. rewrite retry_step_eq, pm_clear_eq. cbn. repeat split; reflexivity.
Qed.
