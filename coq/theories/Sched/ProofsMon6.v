(* The monitor on the model's trace: e_learn and c07_learners_match.  The learners the monitor holds are, at every
   event boundary, exactly the learners held by the tasks of the model state. *)
From Coq Require Import Lia Permutation.
From VF Require Export Sched.ProofsMon5.
From VF Require Import Sched.Spec Sched.Corr Sched.ProofsObsLink Sched.ProofsObsC01 Sched.ProofsExec Sched.ProofsLearner Sched.ProofsRoute Sched.ProofsInflight.
Open Scope Z_scope.

(* ---- identifiers of the scripted learners ---------------------------------------------------------------------------------------------------------------------- *)
Fixpoint ids_of (l : learner) : list N :=
  match l with
  | Learner id succ fail =>
    id :: (match succ with Some (_, _, _, bl) => ids_of bl | None => [] end) ++ (match fail with Some (_, _, nl) => ids_of nl | None => [] end)
  end.
Definition ev_ids (e : event) : list N := match e with EStartExecute _ a _ => ids_of (snd (x_sel a)) | _ => [] end.
Definition all_ids (evs : list (event * list (nat * wref))) : list N := flat_map (fun eh => ev_ids (fst eh)) evs.
(* the hypothesis on histories: no identifier occurs twice in the learner scripts *)
Definition learner_ids_unique (evs : list (event * list (nat * wref))) : Prop := NoDup (all_ids evs).

Fixpoint nodupb (l : list N) : bool := match l with [] => true | x :: tl => negb (existsb (N.eqb x) tl) && nodupb tl end.
Lemma nodupb_sound : forall l, nodupb l = true -> NoDup l.
Proof.
  induction l as [|x l IH]; cbn; intro H; [constructor|]. apply andb_true_iff in H. destruct H as [H1 H2]. constructor; [|apply IH; exact H2].
  intro Hin. apply negb_true_iff in H1. assert (E : existsb (N.eqb x) l = true) by (apply existsb_exists; exists x; split; [exact Hin|apply N.eqb_refl]). congruence.
Qed.
Definition learner_ids_uniqueb (evs : list (event * list (nat * wref))) : bool := nodupb (all_ids evs).
Lemma learner_ids_uniqueb_sound : forall evs, learner_ids_uniqueb evs = true -> learner_ids_unique evs.
Proof. intros evs H. apply nodupb_sound. exact H. Qed.

Lemma l_id_in_ids : forall l, In (l_id l) (ids_of l).
Proof. intros [id s f]. left. reflexivity. Qed.

Lemma NoDup_app_disjoint {A} : forall (a b : list A) x, NoDup (a ++ b) -> In x a -> In x b -> False.
Proof.
  induction a as [|y a IH]; intros b x H Ha Hb; [destruct Ha|]. cbn in H. inversion H as [|? ? Hn Hd]; subst.
  destruct Ha as [->|Ha]; [apply Hn; apply in_or_app; right; exact Hb|exact (IH b x Hd Ha Hb)].
Qed.
Lemma NoDup_app_l {A} : forall (a b : list A), NoDup (a ++ b) -> NoDup a.
Proof. induction a as [|y a IH]; intros b H; [constructor|]. cbn in H. inversion H as [|? ? Hn Hd]; subst. constructor; [intro Hin; apply Hn; apply in_or_app; left; exact Hin|exact (IH b Hd)]. Qed.
Lemma NoDup_app_r {A} : forall (a b : list A), NoDup (a ++ b) -> NoDup b.
Proof. induction a as [|y a IH]; intros b H; [exact H|]. cbn in H. inversion H; subst. apply IH. assumption. Qed.
Lemma NoDup_drop_mid {A} : forall (a b c : list A), NoDup (a ++ b ++ c) -> NoDup (a ++ c).
Proof.
  intros a b. revert a. induction b as [|y b IH]; intros a c H; [exact H|]. cbn in H. apply IH. eapply NoDup_remove_1. exact H.
Qed.

(* the identifiers of a successor are among those of its parent, once *)
Lemma ids_succ : forall l bidx bdur btm bl X, l_succ l = Some (bidx, bdur, btm, bl) -> NoDup (ids_of l ++ X) -> NoDup (ids_of bl ++ X).
Proof.
  intros [id s f] bidx bdur btm bl X E H. cbn in E. subst s. cbn [ids_of] in H. cbn in H. inversion H as [|? ? _ Hd]; subst.
  rewrite <- app_assoc in Hd. exact (NoDup_drop_mid _ _ _ Hd).
Qed.
Lemma ids_fail : forall l d tm nl X, l_fail l = Some (d, tm, nl) -> NoDup (ids_of l ++ X) -> NoDup (ids_of nl ++ X).
Proof.
  intros [id s f] d tm nl X E H. cbn in E. subst f. cbn [ids_of] in H. cbn in H. inversion H as [|? ? _ Hd]; subst.
  rewrite <- app_assoc in Hd. exact (NoDup_app_r _ _ Hd).
Qed.
Lemma ids_none : forall l X, NoDup (ids_of l ++ X) -> NoDup X.
Proof. intros l X H. exact (NoDup_app_r _ _ H). Qed.

(* ---- the monitor's list of learners ---------------------------------------------------------------------------------------------------------------------------- *)
Definition live_ids (ls : list (N * learner)) : list N := flat_map (fun p => ids_of (snd p)) ls.
Definition LIc (ls : list (N * learner)) : Prop := forall i x, In (i, x) ls -> i = l_id x.

Lemma live_ids_perm : forall a b, Permutation a b -> Permutation (live_ids a) (live_ids b).
Proof. intros a b H. unfold live_ids. induction H; cbn; [constructor|apply Permutation_app_head; assumption| |eapply perm_trans; eassumption].
  rewrite !app_assoc. apply Permutation_app_tail. apply Permutation_app_comm. Qed.

Lemma live_ids_in : forall ls i x, In (i, x) ls -> In (l_id x) (live_ids ls).
Proof. intros ls i x H. unfold live_ids. apply in_flat_map. exists (i, x). split; [exact H|apply l_id_in_ids]. Qed.

Lemma LIc_nodup : forall ls, LIc ls -> NoDup (live_ids ls) -> NoDup (map fst ls).
Proof.
  induction ls as [|[i x] ls IH]; intros HL H; [constructor|]. cbn in *. constructor.
  - intro Hin. apply in_map_iff in Hin. destruct Hin as [[j y] [E Hy]]. cbn in E. subst j.
    pose proof (HL i x (or_introl eq_refl)) as Ei. pose proof (HL i y (or_intror Hy)) as Ej.
    apply (NoDup_app_disjoint _ _ i H); [rewrite Ei; apply l_id_in_ids|rewrite Ej; exact (live_ids_in ls i y Hy)].
  - apply IH; [intros j y Hy; apply HL; right; exact Hy|exact (NoDup_app_r _ _ H)].
Qed.

Lemma find_learner : forall ls i x, NoDup (map fst ls) -> In (i, x) ls -> find (learner_eqb_id i) ls = Some (i, x).
Proof.
  induction ls as [|[j y] ls IH]; intros i x Hn Hin; [destruct Hin|]. cbn in *. inversion Hn as [|? ? Hni Hn']; subst. unfold learner_eqb_id at 1. cbn [fst].
  destruct Hin as [E|Hin].
  - inversion E; subst. rewrite N.eqb_refl. reflexivity.
  - destruct (N.eqb i j) eqn:Eij; [apply N.eqb_eq in Eij; subst j; exfalso; apply Hni; apply in_map_iff; exists (i, x); auto|]. apply IH; assumption.
Qed.

Lemma remove_learner_notin : forall ls i, ~ In i (map fst ls) -> remove_learner i ls = ls.
Proof.
  induction ls as [|[j y] ls IH]; intros i Hn; [reflexivity|]. cbn in *. unfold learner_eqb_id at 1. cbn [fst].
  destruct (N.eqb i j) eqn:E; [apply N.eqb_eq in E; subst; exfalso; apply Hn; left; reflexivity|]. cbn. f_equal. apply IH. intro H. apply Hn. right. exact H.
Qed.

Lemma remove_learner_perm : forall ls i x, NoDup (map fst ls) -> In (i, x) ls -> Permutation ls ((i, x) :: remove_learner i ls).
Proof.
  induction ls as [|[j y] ls IH]; intros i x Hn Hin; [destruct Hin|]. cbn in Hn. inversion Hn as [|? ? Hni Hn']; subst.
  cbn [remove_learner filter]. unfold learner_eqb_id at 1. cbn [fst]. destruct Hin as [E|Hin].
  - inversion E; subst. rewrite N.eqb_refl. cbn [negb]. fold (remove_learner i ls). rewrite (remove_learner_notin ls i Hni). apply Permutation_refl.
  - destruct (N.eqb i j) eqn:Eij; [apply N.eqb_eq in Eij; subst j; exfalso; apply Hni; apply in_map_iff; exists (i, x); auto|]. cbn [negb].
    fold (remove_learner i ls). eapply perm_trans; [apply perm_skip; apply (IH i x Hn' Hin)|apply perm_swap].
Qed.

Lemma remove_learner_in : forall ls i j y, In (j, y) (remove_learner i ls) -> In (j, y) ls.
Proof. intros ls i j y H. unfold remove_learner in H. apply filter_In in H. tauto. Qed.

(* what one terminal call does to a well-formed list holding the learner *)
Definition LOK (ls : list (N * learner)) (F : list N) : Prop := LIc ls /\ NoDup (live_ids ls ++ F).

Lemma LOK_nodup : forall ls F, LOK ls F -> NoDup (map fst ls).
Proof. intros ls F [A B]. apply LIc_nodup; [exact A|exact (NoDup_app_l _ _ B)]. Qed.

Lemma LOK_split : forall ls F l, LOK ls F -> In (l_id l, l) ls ->
  find (learner_eqb_id (l_id l)) ls = Some (l_id l, l) /\ Permutation ls ((l_id l, l) :: remove_learner (l_id l) ls) /\
  LIc (remove_learner (l_id l) ls) /\ NoDup (ids_of l ++ live_ids (remove_learner (l_id l) ls) ++ F).
Proof.
  intros ls F l H Hin. pose proof (LOK_nodup _ _ H) as Hn. destruct H as [A B].
  split; [apply find_learner; assumption|]. pose proof (remove_learner_perm ls _ _ Hn Hin) as Hp. split; [exact Hp|].
  split; [intros j y Hy; apply A; eapply remove_learner_in; exact Hy|].
  assert (Hp2 : Permutation (live_ids ls ++ F) ((ids_of l ++ live_ids (remove_learner (l_id l) ls)) ++ F)).
  { apply Permutation_app_tail. exact (live_ids_perm _ _ Hp). }
  rewrite app_assoc. eapply Permutation_NoDup; [exact Hp2|exact B].
Qed.

Lemma LOK_cons : forall ls F l, LIc ls -> NoDup (ids_of l ++ live_ids ls ++ F) -> LOK ((l_id l, l) :: ls) F.
Proof.
  intros ls F l A B. split; [intros i x [E|Hin]; [inversion E; reflexivity|apply A; exact Hin]|]. cbn. rewrite <- app_assoc. exact B.
Qed.

Definition child_of (l : learner) (r : resp) (b : bool) : option learner :=
  if resp_success r then match l_succ l with Some (_, _, _, bl) => Some bl | None => None end
  else if b then match l_fail l with Some (_, _, nl) => Some nl | None => None end else None.
Definition opt_entry (c : option learner) : list (N * learner) := match c with Some x => [(l_id x, x)] | None => [] end.
Definition opt_list (c : option learner) : list learner := match c with Some x => [x] | None => [] end.

Lemma ghost_call : forall ls F l r b, LOK ls F -> In (l_id l, l) ls ->
  c07_ghost (ls, ""%string) (learner_call l r b) = (opt_entry (child_of l r b) ++ remove_learner (l_id l) ls, ""%string) /\
  LOK (opt_entry (child_of l r b) ++ remove_learner (l_id l) ls) F.
Proof.
  intros ls F l r b H Hin. destruct (LOK_split ls F l H Hin) as [Ef [Hp [HL Hn]]].
  assert (Hrem : LOK (remove_learner (l_id l) ls) F) by (split; [exact HL|exact (ids_none _ _ Hn)]).
  unfold learner_call, child_of. destruct (resp_success r).
  - cbn [c07_ghost]. rewrite Ef. destruct (l_succ l) as [[[[bidx bdur] btm] bl]|] eqn:Es; cbn [opt_entry app]; (split; [reflexivity|]); [|exact Hrem].
    apply LOK_cons; [exact HL|]. exact (ids_succ _ _ _ _ _ _ Es Hn).
  - destruct b.
    + cbn [c07_ghost]. rewrite Ef. destruct (l_fail l) as [[[d tm] nl]|] eqn:Efl; cbn [opt_entry app]; (split; [reflexivity|]); [|exact Hrem].
      apply LOK_cons; [exact HL|]. exact (ids_fail _ _ _ _ _ Efl Hn).
    + cbn [c07_ghost]. rewrite Ef. cbn [opt_entry app]. split; [reflexivity|exact Hrem].
Qed.

Lemma ghost_abandon_head : forall ls F bl, LOK ((l_id bl, bl) :: ls) F ->
  c07_ghost ((l_id bl, bl) :: ls, ""%string) (OGhost (GAbandoned (l_id bl))) = (ls, ""%string) /\ LOK ls F.
Proof.
  intros ls F bl H. pose proof (LOK_nodup _ _ H) as Hn. cbn in Hn. inversion Hn as [|? ? Hni _]; subst. destruct H as [A B].
  cbn [c07_ghost find]. unfold learner_eqb_id at 1. cbn [fst]. rewrite N.eqb_refl.
  cbn [remove_learner filter]. unfold learner_eqb_id at 1. cbn [fst]. rewrite N.eqb_refl. cbn [negb]. fold (remove_learner (l_id bl) ls).
  rewrite (remove_learner_notin ls _ Hni). split; [reflexivity|]. split; [intros i x Hx; apply A; right; exact Hx|].
  cbn in B. rewrite <- app_assoc in B. exact (NoDup_app_r _ _ B).
Qed.

Lemma ghost_nonterm : forall acc o, is_terminal o = false -> c07_ghost acc o = acc.
Proof. intros [ls err] o H. destruct o as [| | |g|]; try reflexivity. destruct g; try reflexivity; discriminate. Qed.

(* ---- the learners the tasks of a state hold ------------------------------------------------------------------------------------------------------------------ *)
Definition task_learners (s : state) : list learner :=
  flat_map (fun t => opt_list (t_learner (get_task s t))) (seq 0 (s_ntasks s)).

Lemma task_learners_ext : forall s s', s_ntasks s' = s_ntasks s -> (forall t, t_learner (get_task s' t) = t_learner (get_task s t)) -> task_learners s' = task_learners s.
Proof. intros s s' En Hl. unfold task_learners. rewrite En. apply flat_map_ext. intro t. rewrite Hl. reflexivity. Qed.

Lemma flat_map_ext_in' {A B} (f g : A -> list B) : forall l, (forall a, In a l -> f a = g a) -> flat_map f l = flat_map g l.
Proof. induction l as [|a l IH]; intro H; cbn; [reflexivity|]. rewrite (H a (or_introl eq_refl)), IH; [reflexivity|]. intros b Hb. apply H. right. exact Hb. Qed.

Lemma flat_map_seq_upd : forall (f g : nat -> list learner) n t, (t < n)%nat -> (forall t', t' <> t -> g t' = f t') ->
  exists A B, flat_map f (seq 0 n) = A ++ f t ++ B /\ flat_map g (seq 0 n) = A ++ g t ++ B.
Proof.
  intros f g n t Ht Hfg.
  assert (Hs : seq 0 n = seq 0 t ++ [t] ++ seq (S t) (n - S t)).
  { replace n with (t + (1 + (n - S t)))%nat at 1 by lia. rewrite seq_app. cbn. reflexivity. }
  exists (flat_map f (seq 0 t)), (flat_map f (seq (S t) (n - S t))). rewrite Hs, !flat_map_app. cbn. rewrite !app_nil_r.
  split; [reflexivity|]. f_equal; [|f_equal].
  - apply flat_map_ext_in'. intros a Ha. apply in_seq in Ha. apply Hfg. lia.
  - apply flat_map_ext_in'. intros a Ha. apply in_seq in Ha. apply Hfg. lia.
Qed.

(* changing the learner of one task *)
Lemma task_learners_set : forall s t lr, (t < s_ntasks s)%nat ->
  exists rest, Permutation (task_learners s) (opt_list (t_learner (get_task s t)) ++ rest) /\
               Permutation (task_learners (upd_task t (fun x => x <| t_learner := lr |>) s)) (opt_list lr ++ rest).
Proof.
  intros s t lr Ht. unfold task_learners. rewrite upd_task_eq. cbn [s_ntasks set]. change (s_ntasks (s <| s_tasks := s_tasks (upd_task t (fun x => x <| t_learner := lr |>) s) |>)) with (s_ntasks s).
  destruct (flat_map_seq_upd (fun t' => opt_list (t_learner (get_task s t'))) (fun t' => opt_list (t_learner (get_task (upd_task t (fun x => x <| t_learner := lr |>) s) t'))) (s_ntasks s) t Ht) as [A [B [E1 E2]]].
  { intros t' Hne. rewrite get_task_upd_task. destruct (Nat.eqb t' t) eqn:E; [apply Nat.eqb_eq in E; contradiction|reflexivity]. }
  exists (A ++ B). rewrite <- upd_task_eq. rewrite E1, E2. rewrite get_task_upd_task, Nat.eqb_refl. cbn [t_learner set].
  split; (eapply perm_trans; [apply Permutation_app_comm|]; rewrite <- app_assoc; apply Permutation_app_head; apply Permutation_app_comm).
Qed.

(* a new task *)
Lemma task_learners_newtask : forall s x, aget Nat.eqb (s_ntasks s) (s_tasks s) = None ->
  task_learners (s <| s_ntasks ::= S |> <| s_tasks ::= fun l => l ++ [(s_ntasks s, x)] |>) = task_learners s ++ opt_list (t_learner x).
Proof.
  intros s x Hf. unfold task_learners. cbn [s_ntasks set]. rewrite seq_S, flat_map_app. cbn [flat_map]. rewrite app_nil_r. f_equal.
  - apply flat_map_ext_in'. intros t Ht. apply in_seq in Ht. rewrite get_task_newtask. unfold get_task.
    destruct (aget Nat.eqb t (s_tasks s)); [reflexivity|]. destruct (Nat.eqb t (s_ntasks s)) eqn:E; [apply Nat.eqb_eq in E; lia|reflexivity].
  - cbn. rewrite get_task_newtask, Hf, Nat.eqb_refl. reflexivity.
Qed.

(* ---- the simulation, inside one event ---------------------------------------------------------------------------------------------------------------------- *)
Section Sim.
  Variable L0 : list (N * learner).   (* the monitor's learners at the start of the fold *)
  Variable F : list N.                (* the identifiers of the scripts of the events still to come *)

  Definition LSm (pend : list learner) (s : state) : Prop :=
    exists ls, fold_left c07_ghost (rev (s_out s)) (L0, ""%string) = (ls, ""%string) /\ LOK ls F /\
               Permutation (map snd ls) (pend ++ task_learners s).

  Lemma LS_frame : forall pend s s', s_out s' = s_out s -> s_ntasks s' = s_ntasks s ->
    (forall t, t_learner (get_task s' t) = t_learner (get_task s t)) -> LSm pend s -> LSm pend s'.
  Proof. intros pend s s' E1 E2 E3 [ls [A [B C]]]. exists ls. rewrite E1, (task_learners_ext s s' E2 E3). auto. Qed.

  Lemma LS_emit : forall pend s o, is_terminal o = false -> LSm pend s -> LSm pend (emit o s).
  Proof.
    intros pend s o Ho [ls [A [B C]]]. exists ls. unfold emit. cbn [s_out set rev]. rewrite fold_left_app, A. cbn [fold_left].
    rewrite (ghost_nonterm _ _ Ho). split; [reflexivity|]. split; [exact B|]. exact C.
  Qed.

  Lemma LS_upd_task_keep : forall pend s t f, (forall x, t_learner (f x) = t_learner x) -> LSm pend s -> LSm pend (upd_task t f s).
  Proof.
    intros pend s t f Hf H. apply LS_frame with (s := s); [reflexivity|reflexivity| |exact H].
    intro t'. rewrite get_task_upd_task. destruct (Nat.eqb t' t) eqn:E; [apply Nat.eqb_eq in E; subst; apply Hf|reflexivity].
  Qed.
End Sim.

Ltac t_LS :=
  intros;
  lazymatch goal with
  | |- LSm _ _ _ (upd_task _ _ _) => apply LS_upd_task_keep; [intro; reflexivity | assumption]
  | |- LSm _ _ _ (emit _ _) => apply LS_emit; [reflexivity | assumption]
  | |- LSm _ _ _ (panic _ _) => unfold panic; apply LS_emit; [reflexivity | assumption]
  | |- _ => (eapply LS_frame; [ | | |eassumption]); [frame_eq | frame_eq | (let t' := fresh in intro t'; apply f_equal; apply get_task_frame; frame_eq)]
  end.
Ltac ls_go0 := inv_go fail t_LS.

Lemma LS_ct_prefix : forall L0 F pend t b s, LSm L0 F pend s -> LSm L0 F pend (ct_prefix t b s).
Proof. intros. unfold ct_prefix. ls_go0. Qed.
Lemma LS_schedule : forall L0 F pend t s, LSm L0 F pend s -> LSm L0 F pend (schedule t s).
Proof. intros. ls_go0. Qed.

(* one terminal call, made while the learner of task [t] is replaced by [lr] *)
Lemma LS_call : forall L0 F pend s t l r b lr o, (t < s_ntasks s)%nat -> t_learner (get_task s t) = Some l -> o = learner_call l r b ->
  LSm L0 F pend s ->
  let s' := upd_task t (fun x => x <| t_learner := lr |>) (emit o s) in
  exists rem rest, fold_left c07_ghost (rev (s_out s')) (L0, ""%string) = (opt_entry (child_of l r b) ++ rem, ""%string) /\
    LOK (opt_entry (child_of l r b) ++ rem) F /\ Permutation (map snd rem) (pend ++ rest) /\ Permutation (task_learners s') (opt_list lr ++ rest).
Proof.
  intros L0 F pend s t l r b lr o Ht Hl Ho [ls [A [B C]]] s'.
  destruct (task_learners_set (emit o s) t lr Ht) as [rest [P1 P2]]. change (get_task (emit o s) t) with (get_task s t) in P1. rewrite Hl in P1.
  change (task_learners (emit o s)) with (task_learners s) in P1. cbn [opt_list app] in P1.
  assert (Hin : In (l_id l, l) ls).
  { assert (Hl' : In l (map snd ls)).
    { eapply Permutation_in; [apply Permutation_sym; exact C|]. apply in_or_app. right. eapply Permutation_in; [apply Permutation_sym; exact P1|]. left. reflexivity. }
    apply in_map_iff in Hl'. destruct Hl' as [[i y] [E Hy]]. cbn in E. subst y. rewrite <- (proj1 B i l Hy). exact Hy. }
  destruct (ghost_call ls F l r b B Hin) as [G1 G2]. destruct (LOK_split ls F l B Hin) as [_ [Hp _]].
  exists (remove_learner (l_id l) ls), rest. split; [|split; [exact G2|split; [|exact P2]]].
  - unfold s'. rewrite upd_task_eq. cbn [s_out set emit rev]. rewrite fold_left_app, A. cbn [fold_left]. rewrite Ho. exact G1.
  - apply (Permutation_cons_inv (a := l)). eapply perm_trans; [apply Permutation_sym; apply (Permutation_map snd Hp)|].
    eapply perm_trans; [exact C|]. eapply perm_trans; [apply Permutation_app_head; exact P1|]. apply Permutation_sym. apply Permutation_middle.
Qed.

Lemma LS_ct_learner : forall L0 F pend t r b x p k s,
  aget Nat.eqb (s_ntasks s) (s_tasks s) = None -> TL s -> t_learner (get_task s t) = t_learner x ->
  LSm L0 F pend s -> LSm L0 F pend (fst (ct_learner t r b x p k s)).
Proof.
  intros L0 F pend t r b x p k s Hft HTL Ex H. unfold ct_learner.
  destruct (t_learner x) as [l|] eqn:El; [|cbn [fst]; t_LS].
  assert (Ht : (t < s_ntasks s)%nat) by (apply HTL; rewrite Ex; discriminate).
  destruct (resp_success r) eqn:Es.
  - cbv zeta. set (s1 := upd_task t (fun x0 => x0 <| t_learner := None |>) (emit (OGhost (GSucceeded (l_id l))) s)).
    destruct (LS_call L0 F pend s t l r b None (OGhost (GSucceeded (l_id l))) Ht Ex ltac:(unfold learner_call; rewrite Es; reflexivity) H) as [rem [rest [A [B [C D]]]]].
    fold s1 in A, D. cbn [opt_list app] in D. unfold child_of in A, B. rewrite Es in A, B.
    destruct (l_succ l) as [[[[bidx bdur] btimeout] bl]|] eqn:Esu.
    2:{ cbn [opt_entry app] in A, B. exists rem. split; [exact A|split; [exact B|]]. eapply perm_trans; [exact C|]. apply Permutation_app_head. apply Permutation_sym. exact D. }
    cbn [opt_entry app] in A, B.
    (* the background learner is owed a call: either Abandoned, or it goes to the new task *)
    assert (Hab : forall s2, s_out s2 = s_out s1 -> s_ntasks s2 = s_ntasks s1 -> (forall t', t_learner (get_task s2 t') = t_learner (get_task s1 t')) ->
              LSm L0 F pend (emit (OGhost (GAbandoned (l_id bl))) s2)).
    { intros s2 E1 E2 E3. destruct (ghost_abandon_head rem F bl B) as [G1 G2]. exists rem. unfold emit. cbn [s_out set rev]. rewrite fold_left_app, E1, A. cbn [fold_left].
      split; [exact G1|split; [exact G2|]]. eapply perm_trans; [exact C|]. apply Permutation_app_head.
      change (task_learners (s2 <| s_out ::= cons (OGhost (GAbandoned (l_id bl))) |>)) with (task_learners s2). rewrite (task_learners_ext s1 s2 E2 E3). apply Permutation_sym. exact D. }
    destruct (Nat.eqb (p_maxbg p) 0); [cbn [fst]; apply Hab; reflexivity|].
    set (bk := mkSK (sk_pk k) (nth bidx (p_scs p) 0%N)).
    set (s2 := get_or_create_invocation bk [4294967295%N] s1).
    destruct (goc_frames bk [4294967295%N] s1) as [G1 [_ G5]]. destruct (get_or_create_invocation_tasks bk [4294967295%N] s1) as [_ [_ G4]]. fold s2 in G1, G4, G5.
    assert (E3 : forall t', t_learner (get_task s2 t') = t_learner (get_task s1 t')) by (intro; f_equal; apply get_task_frame; exact G1).
    destruct (Nat.leb _ _); [cbn [fst]; apply Hab; [exact G5|exact G4|exact E3]|]. cbv zeta.
    assert (Hft2 : aget Nat.eqb (s_ntasks s2) (s_tasks s2) = None).
    { rewrite G4, G1. unfold s1. cbn. rewrite (aget_aset_other Nat.eqb nat_eqb_eq); [exact Hft|]. lia. }
    set (xb := mkTask [] (t_instance x) (t_digest x) (Some true) btimeout (t_qts x) (t_suffix x) None 0 bdur (Some bl) None 0).
    set (sN := s2 <| s_ntasks ::= S |> <| s_tasks ::= fun l0 => l0 ++ [(s_ntasks s2, xb)] |>).
    assert (HN : LSm L0 F pend sN).
    { exists ((l_id bl, bl) :: rem). change (s_out sN) with (s_out s2). rewrite G5. split; [exact A|split; [exact B|]].
      unfold sN. rewrite (task_learners_newtask s2 xb Hft2). cbn [map snd t_learner xb opt_list]. rewrite (task_learners_ext s1 s2 G4 E3).
      eapply perm_trans; [apply perm_skip; exact C|]. eapply perm_trans; [apply Permutation_middle|]. apply Permutation_app_head.
      eapply perm_trans; [|apply Permutation_app_comm]. cbn. apply perm_skip. apply Permutation_sym. exact D. }
    clearbody sN. unfold new_operation. cbn [fst]. apply LS_schedule. ls_go0.
  - destruct b; cbv zeta.
    + set (o := OGhost (GFailed (l_id l) (r_code r =? cDEADLINE)%N)).
      assert (Hfin : forall lr, lr = child_of l r true -> LSm L0 F pend (upd_task t (fun x0 => x0 <| t_learner := lr |>) (emit o s))).
      { intros lr Elr. destruct (LS_call L0 F pend s t l r true lr o Ht Ex ltac:(unfold learner_call, o; rewrite Es; reflexivity) H) as [rem [rest [A [B [C D]]]]].
        exists (opt_entry (child_of l r true) ++ rem). split; [exact A|split; [exact B|]]. rewrite map_app.
        eapply perm_trans; [apply Permutation_app_head; exact C|]. eapply perm_trans; [|apply Permutation_app_head; apply Permutation_sym; exact D].
        rewrite Elr. destruct (child_of l r true); cbn; [apply Permutation_middle|apply Permutation_refl]. }
      destruct (l_fail l) as [[[d tm] nl]|] eqn:Ef; cbn [fst]; apply Hfin; unfold child_of; rewrite Es, Ef; reflexivity.
    + cbn [fst]. set (o := OGhost (GAbandoned (l_id l))).
      destruct (LS_call L0 F pend s t l r false None o Ht Ex ltac:(unfold learner_call, o; rewrite Es; reflexivity) H) as [rem [rest [A [B [C D]]]]].
      unfold child_of in A, B. rewrite Es in A, B. cbn [opt_entry app] in A, B.
      exists rem. split; [exact A|split; [exact B|]]. eapply perm_trans; [exact C|]. apply Permutation_app_head. apply Permutation_sym. exact D.
Qed.

Lemma LS_ct_tail : forall L0 F pend t r x p k s retry, LSm L0 F pend s -> LSm L0 F pend (ct_tail t r x p k s retry).
Proof. intros L0 F pend t r x p k s retry H. unfold ct_tail, report_non_final_stage_change, maybe_start_cleanup. destruct retry as [[d tm]|]; ls_go0. Qed.

Lemma LS_complete_task : forall L0 F pend t r b s, W s -> (t < s_ntasks s)%nat -> LN2 s -> LSm L0 F pend s -> LSm L0 F pend (complete_task t r b s).
Proof.
  intros L0 F pend t r b s HW Ht HL H. rewrite complete_task_eq2. destruct (t_resp (get_task s t)) eqn:Er; [exact H|]. cbv zeta.
  pose proof (LS_ct_prefix L0 F pend t b s H) as H4. pose proof (LN2_ct_prefix t b s HL) as HL4.
  assert (HW4 : W (ct_prefix t b s)) by (apply (W_of_WL_step t s _ HW Ht); intro HWL; unfold ct_prefix; w_go2).
  destruct (ct_prefix_frames t b s) as [[K1 [K2 [K3 _]]] _].
  set (s4 := ct_prefix t b s) in *. clearbody s4.
  destruct (get_pq s4 _) as [p|]; [|t_LS].
  pose proof (LS_ct_learner L0 F pend t r b (get_task s t) p (task_scq s t) s4 (W_task_fresh _ HW4) (proj2 HL4) K2 H4) as H5.
  destruct (ct_learner t r b (get_task s t) p (task_scq s t) s4) as [s5 retry]. cbn [fst] in H5. apply LS_ct_tail. exact H5.
Qed.

(* ---- everything else ---------------------------------------------------------------------------------------------------------------------------------------------- *)
Definition WLS (L0 : list (N * learner)) (F : list N) (pend : list learner) (s : state) : Prop := W s /\ LN2 s /\ LSm L0 F pend s.
Ltac wls_prim H :=
  destruct H as [HWx [HLx HMx]]; split;
  [match type of HWx with W ?s0 => apply (W_step1 s0); [exact HWx|let HWL := fresh "HWL" in intro HWL; w_go2] end
  |split; [ln_go2|ls_go0]].

Lemma WLS_complete_task : forall L0 F pend t r b s, (t < s_ntasks s)%nat -> WLS L0 F pend s -> WLS L0 F pend (complete_task t r b s).
Proof.
  intros L0 F pend t r b s Ht [A [B C]]. split; [apply (W_of_WL_step t s _ A Ht); apply WL_complete_task; left; reflexivity|].
  split; [apply LN2_complete_task; exact B|apply LS_complete_task; assumption].
Qed.

Lemma WLS_cancel_all_queued : forall L0 F pend i r s, WLS L0 F pend s -> WLS L0 F pend (cancel_all_queued i r s).
Proof.
  intros L0 F pend i r s H. rewrite cancel_all_queued_eq. apply cancel_go_closed; [|exact H].
  intros s1 d v o tl H1 Hin Hq. apply WLS_complete_task; [|exact H1]. exact (W_pick_qop _ _ _ _ _ (proj1 H1) Hin Hq).
Qed.

Lemma LS_operation_remove : forall L0 F pend o s, W s -> LN2 s -> op_alive s o = true -> LSm L0 F pend s -> LSm L0 F pend (operation_remove o s).
Proof.
  intros L0 F pend o s HW HL Ha H. pose proof (W_pick_op _ _ HW Ha) as Hlt. unfold operation_remove. cbv zeta.
  match goal with |- LSm _ _ _ (upd_task ?t _ (set s_ops _ ?e)) => assert (H1 : LSm L0 F pend e) end.
  { destruct (Nat.eqb _ 1); [apply LS_complete_task; assumption|].
    unfold task_stage. destruct (t_resp (get_task s (o_task (get_op s o)))); [destruct (t_worker (get_task s (o_task (get_op s o)))); exact H|].
    destruct (t_worker (get_task s (o_task (get_op s o)))) as [w|]; cbv iota; [ls_go0|].
    match goal with |- LSm _ _ _ (fst (fold_left ?g ?l ?a)) => apply (fold_left_pres (fun acc => LSm L0 F pend (fst acc)) g l) end; [|cbn [fst]; ls_go0].
    intros [s1 go] j Hs1. cbn [fst] in *. destruct go; [ls_go0|exact Hs1]. }
  match goal with |- LSm _ _ _ (upd_task ?t _ (set s_ops _ ?e)) => set (s1 := e) in * end. clearbody s1. ls_go0.
Qed.

Lemma WLS_run_entry : forall L0 F pend e s, In e (cleanup_entries s) -> WLS L0 F pend s -> WLS L0 F pend (run_entry e s).
Proof.
  intros L0 F pend e s Hin [HW [HL H]]. split; [apply (W_step1 s); [exact HW|apply WL_run_entry; exact Hin]|].
  split; [destruct e as [z ce]; unfold run_entry; cbn [fst snd]; destruct ce; [apply LN2_operation_remove|..]; ln_go|].
  destruct e as [z ce]. unfold run_entry. cbn [fst snd]. destruct ce as [o|w|k].
  - apply LS_operation_remove; [apply (W_step1 s); [exact HW|intro HWL; w_go2]|ln_go|rewrite op_alive_upd_op; eapply cleanup_entry_op_alive; exact Hin|ls_go0].
  - unfold remove_stale_worker, mark_terminating. cbv zeta.
    set (s1 := upd_worker w (fun k => k <| k_term := true |>) (upd_worker w (fun k => k <| k_cleanup := None |>) s)).
    assert (H1 : WLS L0 F pend s1) by (unfold s1; split; [apply (W_step1 s); [exact HW|intro HWL; w_go2]|split; [ln_go|ls_go0]]). clearbody s1.
    set (s2 := match k_task (get_worker s1 w) with None => s1 | Some t => complete_task t (mkResp cUNAVAILABLE 0 0) false s1 end).
    assert (H2 : LSm L0 F pend s2).
    { unfold s2. destruct (k_task (get_worker s1 w)) as [t|] eqn:Ek; [|exact (proj2 (proj2 H1))].
      exact (proj2 (proj2 (WLS_complete_task L0 F pend t _ false s1 (W_pick_worker _ _ _ (proj1 H1) Ek) H1))). }
    clearbody s2. ls_go0.
  - unfold scq_remove. cbv zeta. set (s0 := upd_scq k (fun q => q <| q_cleanup := None |>) s).
    assert (H0 : WLS L0 F pend s0) by (unfold s0; split; [apply (W_step1 s); [exact HW|intro HWL; w_go2]|split; [ln_go|ls_go0]]). clearbody s0.
    pose proof (proj2 (proj2 (WLS_cancel_all_queued L0 F pend (mkI k []) (mkResp cUNAVAILABLE 0 0) s0 H0))) as H1.
    set (s1 := cancel_all_queued _ _ s0) in *. clearbody s1. ls_go0.
Qed.

Lemma WLS_enter : forall L0 F pend t s, WLS L0 F pend s -> WLS L0 F pend (enter t s).
Proof.
  intros L0 F pend t s H. split; [apply (W_step1 s); [exact (proj1 H)|apply WL_enter]|]. split; [apply LN2_enter; exact (proj1 (proj2 H))|].
  unfold enter. destruct (s_now s <? t); [|exact (proj2 (proj2 H))]. cbv zeta.
  assert (Hc : WLS L0 F pend (cleanup_run (S (List.length (s_ops (s <| s_now := t |>)) + List.length (s_scqs (s <| s_now := t |>)) + List.length (flat_map (fun '(_, q) => q_workers q) (s_scqs (s <| s_now := t |>))))) (s <| s_now := t |>))); [|exact (proj2 (proj2 Hc))].
  apply cleanup_run_closed; [intros s1 w H1; wls_prim H1 | intros; apply WLS_run_entry; assumption | wls_prim H].
Qed.

Lemma LS_get_next_task : forall L0 F pend c w b pr s, LSm L0 F pend s -> LSm L0 F pend (get_next_task c w b pr s).
Proof. intros. unfold get_next_task, sync_loop, assign_next_queued_task, sync_return_exec, sync_return_idle, finish_sync. ls_go0. Qed.

Lemma WLS_get_current_or_next : forall L0 F pend c w b pr s, WLS L0 F pend s -> WLS L0 F pend (get_current_or_next c w b pr s).
Proof.
  intros L0 F pend c w b pr s [HW [HL H]]. split; [apply (W_step1 s); [exact HW|apply WL_get_current_or_next]|]. split; [apply LN2_get_current_or_next; exact HL|].
  unfold get_current_or_next.
  destruct (k_task (get_worker s w)) as [t|] eqn:Ek; [|apply LS_get_next_task; exact H].
  destruct (Nat.ltb _ _); [unfold sync_return_exec, finish_sync; ls_go0|].
  apply LS_get_next_task. apply LS_complete_task; [exact HW|exact (W_pick_worker _ _ _ HW Ek)|exact HL|exact H].
Qed.

Lemma WLS_sync_start : forall L0 F pend c a s, WLS L0 F pend s -> WLS L0 F pend (sync_start c a s).
Proof.
  intros L0 F pend c a s H. apply sync_start_closed; try exact H.
  - intros s0 code H0. unfold ret. wls_prim H0.
  - intros s0 k H0. wls_prim H0.
  - intros s0 k b H0. unfold add_scq. wls_prim H0.
  - intros s0 k l m b H0. unfold add_pq. wls_prim H0.
  - intros s0 w H0. wls_prim H0.
  - intros s0 k w n H0. wls_prim H0.
  - intros s0 i H0. wls_prim H0.
  - intros s0 w code H0. unfold sync_return_err, finish_sync. wls_prim H0.
  - intros s0 w b pr H0. apply WLS_get_current_or_next. exact H0.
  - intros s0 w b pr [A [B C]]. split; [apply (W_step1 s0); [exact A|apply WL_get_next_task]|split; [unfold get_next_task; ln_go2|apply LS_get_next_task; exact C]].
  - intros s0 w d z H0. unfold finish_sync. wls_prim H0.
  - intros s0 w t r H0 Hk. apply WLS_complete_task; [exact (W_pick_worker _ _ _ (proj1 H0) Hk)|exact H0].
Qed.

(* ---- Execute: the selector hands out the scripted learner with the new task -------------------------------------------------------------------------------- *)
Definition NSl (s : state) : Prop := ~ In (OGhost GSelect) (s_out s).
Ltac t_nsl := intros; unfold NSl in *;
  first [assumption | (rewrite upd_inv_eq; assumption) | (rewrite upd_task_eq; assumption) | (rewrite upd_op_eq; assumption)
        | (rewrite upd_worker_eq; assumption) | (rewrite upd_scq_eq; assumption)
        | (cbn; let E := fresh in let Hx := fresh in intros [E|Hx]; [discriminate E|auto]) | (cbn; assumption)].

Lemma exec_start_nosel : forall L0 F pend c a s,
  (aget dkey_eqb (x_instance a, x_digest a) (s_inflight s) <> None \/ longest_prefix_pq s (x_plat a) (x_instance a) = None) ->
  (LSm L0 F pend s -> LSm L0 F pend (exec_start c a s)) /\ (NSl s -> NSl (exec_start c a s)).
Proof.
  intros L0 F pend c a s Hb. unfold exec_start. destruct (aget dkey_eqb _ _) as [t0|] eqn:Ei.
  - split; intro H; cbv zeta; unfold new_operation, wait_execution_begin, stream_iter; [ls_go0|inv_go fail t_nsl].
  - destruct Hb as [Hb|Hb]; [congruence|]. rewrite Hb. split; intro H; unfold ret; [ls_go0|inv_go fail t_nsl].
Qed.

Lemma exec_start_sel : forall L0 F c a s p,
  aget dkey_eqb (x_instance a, x_digest a) (s_inflight s) = None -> longest_prefix_pq s (x_plat a) (x_instance a) = Some p ->
  W s -> LSm L0 F [snd (x_sel a)] s ->
  LSm L0 F [] (exec_start c a s) /\ In (OGhost GSelect) (s_out (exec_start c a s)).
Proof.
  intros L0 F c a s p Ei Hp HW H. unfold exec_start. rewrite Ei, Hp. pose proof (W_task_fresh s HW) as Hft.
  destruct (x_sel a) as [[[idx dur] timeout] l]. cbn [snd] in H. cbv zeta.
  set (s1 := emit (OGhost GSelect) s).
  match goal with |- context [set s_tasks (fun ts => ts ++ [(?tt, ?xx)])] => set (x := xx); set (t := tt) end.
  set (sN := s1 <| s_ntasks ::= S |> <| s_tasks ::= fun ts => ts ++ [(t, x)] |>).
  assert (H1 : LSm L0 F [l] s1) by (unfold s1; t_LS).
  assert (HN : LSm L0 F [] sN /\ out_has (OGhost GSelect) sN).
  { split; [|left; reflexivity]. destruct H1 as [ls [A [B C]]]. exists ls. split; [exact A|split; [exact B|]].
    unfold sN, t. change (s_ntasks s) with (s_ntasks s1). rewrite (task_learners_newtask s1 x Hft). cbn [app t_learner x opt_list].
    eapply perm_trans; [exact C|]. apply Permutation_app_comm. }
  clearbody sN. destruct HN as [HN HO].
  set (s3 := if x_dnc a then sN else sN <| s_inflight ::= aset dkey_eqb (x_instance a, x_digest a) t |>).
  assert (H3 : LSm L0 F [] s3 /\ out_has (OGhost GSelect) s3) by (unfold s3; destruct (x_dnc a); [split; assumption|split; [t_LS|exact HO]]).
  clearbody s3. destruct H3 as [H3 HO3]. unfold new_operation, wait_execution_begin, stream_iter. split; [ls_go0|].
  match goal with |- In _ (s_out ?e) => assert (Hx : out_has (OGhost GSelect) e); [|exact Hx] end. inv_go fail t_oh.
Qed.

Lemma LS_terminate_fold : forall L0 F pend p l s waits,
  LSm L0 F pend s -> LSm L0 F pend (fst (fold_left (fun (acc : state * list (nat * nat)) w =>
        let '(s, waits) := acc in
        if matches w p then
          let s := mark_terminating w s in
          match k_task (get_worker s w) with
          | Some tk => (s, waits ++ [(tk, t_gen (get_task s tk))])
          | None => (if k_wait (get_worker s w) then wake_up w s else s, waits)
          end
        else (s, waits)) l (s, waits))).
Proof. intros L0 F pend p l s waits H. apply (fr_terminate_fold (LSm L0 F pend)); try (intros; t_LS); try exact H. Qed.

Lemma WLS_step_core : forall L0 F pend e s, (forall c a t, e <> EStartExecute c a t) -> WLS L0 F pend s -> LSm L0 F pend (step_core e s).
Proof.
  intros L0 F pend e s Hne H.
  assert (He : forall t, WLS L0 F pend (enter t s)) by (intro t; apply WLS_enter; exact H).
  destruct e; unfold step_core.
  - exfalso. eapply Hne. reflexivity.
  - destruct (He t) as [_ [_ B]]. set (s1 := enter t s) in *. clearbody s1. cbv zeta. unfold ret. ls_go0.
  - exact (proj2 (proj2 (WLS_sync_start L0 F pend c a _ (He t)))).
  - destruct (He t) as [_ [_ B]]. set (s1 := enter t s) in *. clearbody s1. unfold kill_lookup, ret. ls_go0.
  - pose proof (He t) as H1. set (s1 := enter t s) in *. clearbody s1. cbv zeta. destruct H1 as [A [B C]].
    destruct (negb (scq_exists s1 k)); [unfold ret; ls_go0|]. destruct (negb _); [unfold ret; ls_go0|].
    pose proof (proj2 (proj2 (WLS_cancel_all_queued L0 F pend (mkI k []) (mkResp code 0 0) s1 (conj A (conj B C))))) as Hc. set (s2 := cancel_all_queued _ _ s1) in *. clearbody s2. unfold ret. ls_go0.
  - destruct (He t) as [_ [_ B]]. set (s1 := enter t s) in *. clearbody s1. cbv zeta. unfold ret, wake_up. ls_go0.
  - destruct (He t) as [_ [_ B]]. set (s1 := enter t s) in *. clearbody s1. cbv zeta. unfold ret. ls_go0.
  - cbv zeta. destruct (He t) as [_ [_ B]]. set (s1 := enter t s) in *. clearbody s1.
    match goal with |- LSm _ _ _ (match ?x with _ => _ end) => rewrite (surjective_pairing x) end. cbv beta iota.
    match goal with |- LSm _ _ _ (set_call _ _ (fst (fold_left ?g ?l ?a))) => assert (H2 : LSm L0 F pend (fst (fold_left g l a))) by (apply LS_terminate_fold; exact B) end.
    t_LS.
  - destruct (_ || _); [destruct H as [_ [_ B]]; unfold ret; ls_go0|]. cbv zeta. destruct (He t) as [_ [_ B]]. set (s1 := enter t s) in *. clearbody s1.
    destruct (get_pq s1 k); unfold ret, add_pq; [ls_go0|].
    match goal with |- LSm _ _ _ (set_call _ _ (emit _ (fold_left ?g ?l ?a))) => assert (H2 : LSm L0 F pend (fold_left g l a)) end.
    { apply fold_left_pres; [intros a0 sc Ha0; unfold add_scq; ls_go0|ls_go0]. }
    ls_go0.
  - destruct (He t) as [_ [_ B]]. unfold ret. ls_go0.
  - cbv zeta. destruct (negb (at_gate s (get_call s c))); [exact (proj2 (proj2 H))|]. destruct (He t) as [A [B C]]. set (s1 := enter t s) in *. clearbody s1.
    destruct (get_call s c); try exact C;
      try (unfold stream_iter, stream_return, kill_lookup, wait_execution_begin, stream_iter, ret, sync_loop, assign_next_queued_task, sync_return_exec, sync_return_err, sync_return_idle, finish_sync, maybe_dequeue, maybe_start_cleanup; ls_go0; fail).
    destruct (op_alive s1 name) eqn:Ea; [|ls_go0].
    pose proof (LS_complete_task L0 F pend (o_task (get_op s1 name)) (mkResp code 0 0) false s1 A (W_pick_op _ _ A Ea) B C) as Hc.
    set (s2 := complete_task _ _ false s1) in *. clearbody s2. unfold ret. ls_go0.
  - cbv zeta. destruct (at_gate s (get_call s c)); [exact (proj2 (proj2 H))|]. destruct (He t) as [_ [_ B]]. pose proof (proj2 (proj2 H)) as B0. set (s1 := enter t s) in *. clearbody s1.
    destruct (get_call s c); unfold stream_iter, sync_return_exec, sync_return_idle, finish_sync, maybe_dequeue; ls_go0.
  - cbv zeta. destruct (at_gate s (get_call s c)); [exact (proj2 (proj2 H))|]. destruct H as [_ [_ B]]. destruct (get_call s c); unfold ret; ls_go0.
Qed.

(* ---- one event ---------------------------------------------------------------------------------------------------------------------------------------------------- *)
Definition is_select (x : obs) : bool := match x with OGhost GSelect => true | _ => false end.
Definition sel_learners (e : event) (o : list obs) (L : list (N * learner)) : list (N * learner) :=
  match e with
  | EStartExecute _ a _ => if existsb is_select o then (l_id (snd (x_sel a)), snd (x_sel a)) :: L else L
  | _ => L
  end.

Lemma existsb_none {A} (f : A -> bool) : forall l, (forall x, In x l -> f x = false) -> existsb f l = false.
Proof. induction l as [|a l IH]; intro H; cbn; [reflexivity|]. rewrite (H a (or_introl eq_refl)). apply IH. intros x Hx. apply H. right. exact Hx. Qed.

Lemma LS_auto_returns : forall L0 F pend s, LSm L0 F pend s -> LSm L0 F pend (auto_returns s).
Proof. intros L0 F pend s H. apply (fr_auto_returns (LSm L0 F pend)); try (intros; t_LS); try (intros; unfold ret; ls_go0); try exact H. Qed.

Lemma NSl_enter : forall t s, NSl s -> NSl (enter t s).
Proof. intros t s H. fr_go NSl t_nsl. Qed.
Lemma NSl_auto_returns : forall s, NSl s -> NSl (auto_returns s).
Proof. intros s H. apply (fr_auto_returns NSl); try (intros; t_nsl); try (intros; unfold ret; inv_go fail t_nsl); try exact H. Qed.

Lemma LS_final : forall L0 F s, LSm L0 F [] s ->
  exists ls, fold_left c07_ghost (rev (s_out s)) (L0, ""%string) = (ls, ""%string) /\ LOK ls F /\
             Permutation (map snd ls) (task_learners (s <| s_out := [] |> <| s_hints := [] |>)).
Proof. intros L0 F s [ls [A [B C]]]. exists ls. split; [exact A|split; [exact B|exact C]]. Qed.

Lemma learn_step : forall s e h L F,
  W s -> LN2 s -> LOK L (ev_ids e ++ F) -> Permutation (map snd L) (task_learners s) ->
  exists ls, fold_left c07_ghost (snd (step s (e, h))) (sel_learners e (snd (step s (e, h))) L, ""%string) = (ls, ""%string) /\ LOK ls F /\
             Permutation (map snd ls) (task_learners (fst (step s (e, h)))).
Proof.
  intros s e h L F HW HL HK HP. unfold step. cbn [fst snd].
  set (s0 := s <| s_hints := h |> <| s_out := [] |>).
  assert (HW0 : W s0) by (apply (W_step1 s); [exact HW|intro HWL; eapply WL_frame; [..|exact HWL]; reflexivity]).
  assert (HL0 : LN2 s0) by (destruct HL; split; [eapply LN_frame; [|eassumption]; reflexivity|eapply TL_frame; [ | |eassumption]; reflexivity]).
  assert (Hstart : forall L0 F0 pend, LOK L0 F0 -> Permutation (map snd L0) (pend ++ task_learners s) -> WLS L0 F0 pend s0).
  { intros L0 F0 pend A B. split; [exact HW0|split; [exact HL0|]]. exists L0. split; [reflexivity|split; [exact A|exact B]]. }
  assert (Hweak : LOK L F).
  { destruct HK as [A B]. split; [exact A|]. exact (NoDup_drop_mid _ _ _ B). }
  destruct e as [c a t| | | | | | | | | | | |].
  1:{ (* Execute *)
    unfold step_core. set (s1 := enter t s0). cbn [sel_learners].
    destruct (aget dkey_eqb (x_instance a, x_digest a) (s_inflight s1)) as [t0|] eqn:Ei; [|destruct (longest_prefix_pq s1 (x_plat a) (x_instance a)) as [p|] eqn:Ep].
    3:{ (* no platform queue *)
      destruct (exec_start_nosel L F [] c a s1 (or_intror Ep)) as [X1 X2].
      assert (Hn : NSl (auto_returns (exec_start c a s1))) by (apply NSl_auto_returns, X2, NSl_enter; intros []).
      assert (Ee : existsb is_select (rev (s_out (auto_returns (exec_start c a s1)))) = false).
      { apply existsb_none. intros x Hx. apply in_rev in Hx. destruct x as [| | |g|]; try reflexivity. destruct g; try reflexivity. contradiction. }
      rewrite Ee. apply LS_final. apply LS_auto_returns, X1. exact (proj2 (proj2 (WLS_enter L F [] t s0 (Hstart L F [] Hweak HP)))). }
    1:{ assert (Hnn : aget dkey_eqb (x_instance a, x_digest a) (s_inflight s1) <> None) by (rewrite Ei; discriminate).
      destruct (exec_start_nosel L F [] c a s1 (or_introl Hnn)) as [X1 X2].
      assert (Hn : NSl (auto_returns (exec_start c a s1))) by (apply NSl_auto_returns, X2, NSl_enter; intros []).
      assert (Ee : existsb is_select (rev (s_out (auto_returns (exec_start c a s1)))) = false).
      { apply existsb_none. intros x Hx. apply in_rev in Hx. destruct x as [| | |g|]; try reflexivity. destruct g; try reflexivity. contradiction. }
      rewrite Ee. apply LS_final. apply LS_auto_returns, X1. exact (proj2 (proj2 (WLS_enter L F [] t s0 (Hstart L F [] Hweak HP)))). }
    (* a new task: the selector was consulted *)
    set (l := snd (x_sel a)) in *. set (L0 := (l_id l, l) :: L).
    assert (HK0 : LOK L0 F).
    { destruct HK as [A B]. apply LOK_cons; [exact A|]. cbn [ev_ids] in B. fold l in B. rewrite app_assoc. rewrite app_assoc in B.
      eapply Permutation_NoDup; [|exact B]. apply Permutation_app_tail. apply Permutation_app_comm. }
    assert (HP0 : Permutation (map snd L0) ([l] ++ task_learners s)) by (cbn; apply perm_skip; exact HP).
    destruct (WLS_enter L0 F [l] t s0 (Hstart L0 F [l] HK0 HP0)) as [HW1 [_ H1]]. fold s1 in HW1, H1.
    destruct (exec_start_sel L0 F c a s1 p Ei Ep HW1 H1) as [X1 X2].
    assert (Ee : existsb is_select (rev (s_out (auto_returns (exec_start c a s1)))) = true).
    { apply existsb_exists. exists (OGhost GSelect). split; [|reflexivity]. rewrite <- in_rev.
      assert (Hx : out_has (OGhost GSelect) (auto_returns (exec_start c a s1))); [|exact Hx].
      apply (fr_auto_returns (out_has _)); try (intros; t_oh); try (intros; unfold ret; inv_go fail t_oh); try exact X2. }
    rewrite Ee. apply LS_final. apply LS_auto_returns. exact X1. }
  all: cbn [sel_learners ev_ids app] in *; apply LS_final; apply LS_auto_returns; apply WLS_step_core; [intros; discriminate|apply Hstart; [exact HK|exact HP]].
Qed.

(* ---- the trace scheme with one more prefix-closed hypothesis on the history ------------------------------------------------------------------------ *)
Lemma trace_sub_generic2 : forall cfg t0 sel (Q : list (event * list (nat * wref)) -> Prop) (Inv : list (event * list (nat * wref)) -> mon -> dump -> Prop),
  (forall l1 l2, Q (l1 ++ l2) -> Q l1) ->
  (forall pfx eh m pre, good cfg t0 (pfx ++ [eh]) -> Q (pfx ++ [eh]) -> ~ panicked (snd (run (init cfg t0) (pfx ++ [eh]))) -> Inv pfx m pre ->
     let s := fst (run (init cfg t0) pfx) in let o := snd (step s eh) in let d := observe (fst (step s eh)) in
     forallb (fun i => String.eqb (nth i (p_components cfg t0 m pre (fst eh) o d) ""%string) "") sel = true /\
     Inv (pfx ++ [eh]) (pm_final cfg pre d (fst eh) o m) d) ->
  forall evs pfx m pre, good cfg t0 (pfx ++ evs) -> Q (pfx ++ evs) -> ~ panicked (snd (run (init cfg t0) pfx)) -> Inv pfx m pre ->
  panicked (snd (run (fst (run (init cfg t0) pfx)) evs)) \/
  trace_sub_from sel cfg t0 m pre (model_trace_from (fst (run (init cfg t0) pfx)) evs) = true.
Proof.
  intros cfg t0 sel Q Inv HQ Hstep. induction evs as [|eh evs IH]; intros pfx m pre Hg Hq Hnp HI; [right; reflexivity|].
  set (s := fst (run (init cfg t0) pfx)) in *. cbn [model_trace_from trace_sub_from].
  assert (Eapp : pfx ++ eh :: evs = (pfx ++ [eh]) ++ evs) by (rewrite <- app_assoc; reflexivity).
  assert (Es' : fst (run (init cfg t0) (pfx ++ [eh])) = fst (step s eh)) by apply run_snoc_fst.
  assert (Eo' : snd (run (init cfg t0) (pfx ++ [eh])) = snd (run (init cfg t0) pfx) ++ [snd (step s eh)]) by apply run_snoc_snd.
  destruct (classic_panic (snd (step s eh))) as [[what Hp]|Hno].
  { left. cbn [run]. destruct (step s eh) as [s1 o]. destruct (run s1 evs) as [s2 os]. cbn [snd] in *. exists o, what. split; [left; reflexivity|exact Hp]. }
  assert (Hnp' : ~ panicked (snd (run (init cfg t0) (pfx ++ [eh])))).
  { rewrite Eo'. intro Hp. apply panicked_app in Hp. destruct Hp as [Hp|[o [what [[<-|[]] Hw]]]]; [exact (Hnp Hp)|exact (Hno what Hw)]. }
  rewrite Eapp in Hg, Hq. pose proof (good_prefix _ _ _ _ Hg) as Hg1. pose proof (HQ _ _ Hq) as Hq1.
  destruct (Hstep pfx eh m pre Hg1 Hq1 Hnp' HI) as [Hc HI']. cbv zeta in Hc, HI'. fold s in Hc, HI'.
  destruct (IH (pfx ++ [eh]) _ _ Hg Hq Hnp' HI') as [Hp|Hrest].
  { left. rewrite Es' in Hp. cbn [run]. destruct (step s eh) as [s1 o]. cbn [fst] in Hp. destruct (run s1 evs) as [s2 os]. cbn [snd] in *.
    destruct Hp as [o' [what [Ho Hw]]]. exists o', what. split; [right; exact Ho|exact Hw]. }
  right. rewrite Es' in Hrest. rewrite Hrest, andb_true_r. exact Hc.
Qed.

Lemma learner_ids_unique_prefix : forall l1 l2, learner_ids_unique (l1 ++ l2) -> learner_ids_unique l1.
Proof. unfold learner_ids_unique, all_ids. intros l1 l2 H. rewrite flat_map_app in H. exact (NoDup_app_l _ _ H). Qed.

(* ---- the monitor's learners across events -------------------------------------------------------------------------------------------------------------------- *)
Lemma mon_event_learners : forall e m, m_learners (mon_event e m) = m_learners m.
Proof.
  intros e m. destruct e; cbn; try reflexivity.
  - destruct (x_sel a) as [[[? ?] ?] ?]. reflexivity.
  - destruct (y_state a); reflexivity.
Qed.
Lemma pm1_learners : forall e o m, m_learners (pm1 e o m) = sel_learners e o (m_learners m).
Proof.
  intros e o m. unfold pm1, sel_learners. cbv zeta. destruct e; try apply mon_event_learners.
  change (fun x : obs => match x with OGhost GSelect => true | _ => false end) with is_select.
  destruct (existsb is_select o); [|apply mon_event_learners]. destruct (x_sel a) as [[[? ?] ?] l] eqn:E. cbn [snd m_learners set]. rewrite mon_event_learners. reflexivity.
Qed.
Lemma c02_obs_learners : forall post m err x, m_learners (fst (c02_obs post (m, err) x)) = m_learners m.
Proof.
  intros post m err x. unfold c02_obs. destruct x; try reflexivity.
  - destruct (get_stream m c) as [sm|]; [|reflexivity]. destruct (sm_done sm); reflexivity.
  - destruct (get_stream m c); reflexivity.
  - destruct (find _ (m_syncs m)) as [[c' w]|]; reflexivity.
Qed.
Lemma c02_fold_learners : forall post o m err, m_learners (fst (fold_left (c02_obs post) o (m, err))) = m_learners m.
Proof.
  intros post o. induction o as [|x o IH]; intros m err; cbn [fold_left]; [reflexivity|].
  destruct (c02_obs post (m, err) x) as [m1 e1] eqn:E. rewrite IH. pose proof (c02_obs_learners post m err x) as H. rewrite E in H. exact H.
Qed.
Lemma pm_final_learners : forall cfg pre d e o m,
  m_learners (pm_final cfg pre d e o m) = fst (fold_left c07_ghost o (sel_learners e o (m_learners m), ""%string)).
Proof. intros cfg pre d e o m. destruct (pm_final_frame cfg pre d e o m) as [_ [_ [_ [E _]]]]. cbv zeta in E. rewrite E. unfold pm3. rewrite c02_fold_learners. unfold pm2. cbn [m_learners set]. rewrite pm1_learners. reflexivity. Qed.
Lemma pc_learn_eq : forall e o m, pc_learn e o m = snd (fold_left c07_ghost o (sel_learners e o (m_learners m), ""%string)).
Proof. intros e o m. unfold pc_learn. rewrite pm1_learners. reflexivity. Qed.

Lemma NoDup_app_intro {A} : forall (a b : list A), NoDup a -> NoDup b -> (forall x, In x a -> ~ In x b) -> NoDup (a ++ b).
Proof.
  induction a as [|y a IH]; intros b Ha Hb Hd; [exact Hb|]. cbn. inversion Ha as [|? ? Hn Ha']; subst. constructor.
  - intro Hin. apply in_app_or in Hin. destruct Hin as [Hin|Hin]; [contradiction|]. exact (Hd y (or_introl eq_refl) Hin).
  - apply IH; [exact Ha'|exact Hb|]. intros x Hx. apply Hd. right. exact Hx.
Qed.

Definition InvL (cfg : config) (t0 : Z) (pfx : list (event * list (nat * wref))) (m : mon) : Prop :=
  LIc (m_learners m) /\ NoDup (live_ids (m_learners m)) /\ incl (live_ids (m_learners m)) (all_ids pfx) /\
  Permutation (map snd (m_learners m)) (task_learners (fst (run (init cfg t0) pfx))).

Lemma all_ids_snoc : forall pfx eh, all_ids (pfx ++ [eh]) = all_ids pfx ++ ev_ids (fst eh).
Proof. intros. unfold all_ids. rewrite flat_map_app. cbn. rewrite app_nil_r. reflexivity. Qed.

Lemma LN2_run : forall cfg t0 evs, LN2 (fst (run (init cfg t0) evs)).
Proof. intros. apply (run_fst_snoc evs (init cfg t0) LN2); [intros; apply LN2_step; assumption|apply LN2_init]. Qed.

Lemma InvL_step : forall cfg t0 pfx eh m pre d, learner_ids_unique (pfx ++ [eh]) -> InvL cfg t0 pfx m ->
  let s := fst (run (init cfg t0) pfx) in
  pc_learn (fst eh) (snd (step s eh)) m = ""%string /\ InvL cfg t0 (pfx ++ [eh]) (pm_final cfg pre d (fst eh) (snd (step s eh)) m).
Proof.
  intros cfg t0 pfx [e h] m pre d Hu [A [B [C D]]] s. cbn [fst]. unfold learner_ids_unique in Hu. rewrite all_ids_snoc in Hu. cbn [fst] in Hu.
  set (L := m_learners m) in *.
  assert (HK : forall F, NoDup F -> (forall x, In x F -> ~ In x (live_ids L) /\ ~ In x (ev_ids e)) -> LOK L (ev_ids e ++ F)).
  { intros F HF Hd. split; [exact A|]. apply NoDup_app_intro; [exact B| |].
    - apply NoDup_app_intro; [exact (NoDup_app_r _ _ Hu)|exact HF|]. intros x Hx Hx'. exact (proj2 (Hd x Hx') Hx).
    - intros x Hx Hx'. apply in_app_or in Hx'. destruct Hx' as [Hx'|Hx']; [exact (NoDup_app_disjoint _ _ x Hu (C x Hx) Hx')|exact (proj1 (Hd x Hx') Hx)]. }
  pose proof (W_run cfg t0 pfx) as HW. pose proof (LN2_run cfg t0 pfx) as HL. fold s in HW, HL.
  destruct (learn_step s e h L [] HW HL (HK [] (NoDup_nil _) (fun x Hx => match Hx with end)) D) as [ls [E1 [[E2 E3] E4]]].
  rewrite pc_learn_eq. fold L. rewrite E1. split; [reflexivity|].
  unfold InvL. rewrite pm_final_learners. fold L. rewrite E1. cbn [fst]. rewrite app_nil_r in E3.
  split; [exact E2|split; [exact E3|split; [|rewrite run_snoc_fst; exact E4]]].
  (* every identifier held afterwards was held before or belongs to the script of this event *)
  intros x Hx. rewrite all_ids_snoc. cbn [fst].
  destruct (in_dec N.eq_dec x (live_ids L)) as [Hi|Hni]; [apply in_or_app; left; exact (C x Hi)|].
  destruct (in_dec N.eq_dec x (ev_ids e)) as [Hi|Hne]; [apply in_or_app; right; exact Hi|]. exfalso.
  destruct (learn_step s e h L [x] HW HL (HK [x] ltac:(constructor; [intros []|constructor]) ltac:(intros y [<-|[]]; auto)) D) as [ls' [E1' [[_ E3'] _]]].
  rewrite E1 in E1'. inversion E1'; subst ls'. exact (NoDup_app_disjoint _ _ x E3' Hx (or_introl eq_refl)).
Qed.

Theorem monitor_learn_on_model : forall cfg t0 evs,
  selectors_in_range (init cfg t0) evs -> fresh_calls [] evs -> bg_scripts_ok evs -> learner_ids_unique evs ->
  panicked (snd (run (init cfg t0) evs)) \/ trace_sub [16%nat] cfg t0 (model_trace cfg t0 evs) = true.
Proof.
  intros cfg t0 evs Hsel Hfr Hbg Hu.
  apply (trace_sub_generic2 cfg t0 [16%nat] learner_ids_unique (fun pfx m _ => InvL cfg t0 pfx m) learner_ids_unique_prefix) with (pfx := []) (m := mon0) (pre := empty_dump);
    [|split; [exact Hsel|split; assumption]|exact Hu|intros [o [what [[] _]]]|].
  - intros pfx eh m pre Hg Hq Hnp HI. cbv zeta.
    destruct (InvL_step cfg t0 pfx eh m pre (observe (fst (step (fst (run (init cfg t0) pfx)) eh))) Hq HI) as [E HI'].
    split; [|exact HI']. cbn [forallb]. rewrite andb_true_r. apply String.eqb_eq. unfold p_components. cbv zeta. cbn [nth]. exact E.
  - split; [intros i x []|split; [constructor|split; [intros x []|]]]. cbn. unfold task_learners, init. cbn. apply perm_nil.
Qed.
