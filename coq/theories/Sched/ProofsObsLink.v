(* How the look-ups of Spec.v on a dump [observe s] read the model state. *)
From Coq Require Import Lia.
From VF Require Import Sched.Spec.
From VF Require Import Sched.ProofsC01.
Open Scope Z_scope.

(* ---- generic: find on a mapped association list ------------------------------------------------------------ *)
Lemma find_map_aget {K V B} (eqb : K -> K -> bool) (f : K * V -> B) (g : B -> bool) (k : K) :
  (forall k' v, g (f (k', v)) = eqb k k') ->
  forall l, find g (map f l) = match aget eqb k l with Some v => Some (f (k, v)) | None => None end \/
            exists k' v, aget eqb k l = Some v /\ find g (map f l) = Some (f (k', v)) /\ eqb k k' = true.
Proof.
  intros Hg. induction l as [|[k' v] l IH]; cbn; [left; reflexivity|].
  rewrite Hg. destruct (eqb k k') eqn:E; [right; exists k', v; auto|exact IH].
Qed.

Lemma find_some_iff_first {A} (g : A -> bool) (l : list A) x :
  find g l = Some x -> g x = true /\ In x l.
Proof. intro H. apply find_some in H. tauto. Qed.

Lemma first_nonempty_all_empty : forall l, (forall x, In x l -> x = ""%string) -> first_nonempty l = ""%string.
Proof.
  induction l as [|x l IH]; intro H; cbn; [reflexivity|].
  rewrite (H x (or_introl eq_refl)). apply IH. intros y Hy. apply H. right. exact Hy.
Qed.

Lemma same_set_refl : forall l : list nat, same_set Nat.eqb l l = true.
Proof.
  intro l. unfold same_set. rewrite Nat.eqb_refl. cbn.
  assert (H : forallb (fun x => existsb (Nat.eqb x) l) l = true).
  { apply forallb_forall. intros x Hx. apply existsb_exists. exists x. split; [exact Hx|apply Nat.eqb_refl]. }
  rewrite H. reflexivity.
Qed.

(* ---- operations ----------------------------------------------------------------------------------------------- *)
Lemma find_dop_observe : forall s o x, aget Nat.eqb o (s_ops s) = Some x ->
  find_dop (observe s) o = Some (observe_op s o x).
Proof.
  intros s o x H. unfold find_dop, observe. cbn [d_ops].
  induction (s_ops s) as [|[o' x'] l IH]; cbn in *; [discriminate|].
  rewrite Nat.eqb_sym. destruct (Nat.eqb o o') eqn:E.
  - apply Nat.eqb_eq in E. subst. inversion H; subst. reflexivity.
  - apply IH. exact H.
Qed.

Lemma find_dop_observe_none : forall s o, aget Nat.eqb o (s_ops s) = None -> find_dop (observe s) o = None.
Proof.
  intros s o H. unfold find_dop, observe. cbn [d_ops].
  induction (s_ops s) as [|[o' x'] l IH]; cbn in *; [reflexivity|].
  rewrite Nat.eqb_sym. destruct (Nat.eqb o o'); [discriminate|]. apply IH. exact H.
Qed.

(* ---- size class queues ---------------------------------------------------------------------------------------- *)
Lemma all_scqs_observe : forall s,
  all_scqs (observe s) = flat_map (fun p => map (fun c => (p_key p, observe_scq s (mkSK (p_key p) c))) (p_scs p)) (s_pqs s).
Proof.
  intro s. unfold all_scqs, observe. cbn [d_pqs]. induction (s_pqs s) as [|p l IH]; cbn; [reflexivity|].
  rewrite IH. f_equal. rewrite map_map. reflexivity.
Qed.

Lemma in_all_scqs_observe : forall s pk q, In (pk, q) (all_scqs (observe s)) ->
  exists p c, In p (s_pqs s) /\ In c (p_scs p) /\ pk = p_key p /\ q = observe_scq s (mkSK (p_key p) c).
Proof.
  intros s pk q H. rewrite all_scqs_observe in H. apply in_flat_map in H. destruct H as [p [Hp H]].
  apply in_map_iff in H. destruct H as [c [E Hc]]. inversion E; subst. exists p, c. auto.
Qed.

Lemma skey_eta : forall k, mkSK (sk_pk k) (sk_sc k) = k. Proof. intros [a b]. reflexivity. Qed.

Lemma find_scq_observe : forall s k p,
  In p (s_pqs s) -> p_key p = sk_pk k -> In (sk_sc k) (p_scs p) -> find_scq (observe s) k = Some (observe_scq s k).
Proof.
  intros s k p Hp Hk Hc. unfold find_scq.
  destruct (find _ (all_scqs (observe s))) as [[pk q]|] eqn:Ef.
  - apply find_some in Ef. destruct Ef as [Hin Hm]. apply andb_true_iff in Hm. destruct Hm as [H1 H2].
    apply pkey_eqb_eq in H1. apply N.eqb_eq in H2.
    destruct (in_all_scqs_observe s pk q Hin) as [p' [c [_ [_ [Epk Eq]]]]]. subst q. cbn in H2. subst c.
    rewrite <- Epk, H1, skey_eta. reflexivity.
  - exfalso.
    assert (Hmem : In (p_key p, observe_scq s (mkSK (p_key p) (sk_sc k))) (all_scqs (observe s))).
    { rewrite all_scqs_observe. apply in_flat_map. exists p. split; [exact Hp|]. apply in_map_iff. exists (sk_sc k). auto. }
    pose proof (find_none _ _ Ef _ Hmem) as Hn. cbv beta iota in Hn. cbn [ds_sc observe_scq sk_sc] in Hn.
    rewrite Hk, (proj2 (pkey_eqb_eq _ _) eq_refl), N.eqb_refl in Hn. discriminate.
Qed.

(* ---- workers ----------------------------------------------------------------------------------------------------- *)
Lemma nn_eqb_wid : forall w w', w_sk w = w_sk w' -> nn_eqb (wid w') (wid w) = wref_eqb w w'.
Proof.
  intros [k h t] [k' h' t'] E. cbn in *. subst k'. unfold nn_eqb, wref_eqb, wid. cbn.
  rewrite (proj2 (skey_eqb_eq _ _) eq_refl). cbn. rewrite (N.eqb_sym h' h), (N.eqb_sym t' t). reflexivity.
Qed.

Lemma find_worker_observe : forall s w (l : list (wref * worker)),
  (forall w', In w' (map fst l) -> w_sk w' = w_sk w) ->
  find (fun x => nn_eqb (dw_id x) (wid w)) (map (fun '(w', x) => observe_worker s w' x) l)
  = match aget wref_eqb w l with Some x => Some (observe_worker s w x) | None => None end.
Proof.
  intros s w l. induction l as [|[w' x] l IH]; intro Hk; cbn; [reflexivity|].
  rewrite (nn_eqb_wid w w') by (symmetry; apply Hk; left; reflexivity).
  destruct (wref_eqb w w') eqn:E; [apply wref_eqb_eq in E; subst; reflexivity|].
  apply IH. intros w'' Hin. apply Hk. right. exact Hin.
Qed.

Lemma find_dworker_observe : forall s w p,
  In p (s_pqs s) -> p_key p = sk_pk (w_sk w) -> In (sk_sc (w_sk w)) (p_scs p) ->
  (forall w', In w' (map fst (q_workers (get_scq s (w_sk w)))) -> w_sk w' = w_sk w) ->
  find_dworker (observe s) (w_sk w) (wid w)
  = if worker_exists s w then Some (observe_worker s w (get_worker s w)) else None.
Proof.
  intros s w p Hp Hk Hc Hw. unfold find_dworker. rewrite (find_scq_observe s (w_sk w) p Hp Hk Hc).
  unfold observe_scq. cbn [ds_workers]. rewrite (find_worker_observe s w _ Hw).
  unfold worker_exists, get_worker. destruct (aget wref_eqb w (q_workers (get_scq s (w_sk w)))); reflexivity.
Qed.

(* ---- invocations --------------------------------------------------------------------------------------------------- *)
Lemma iref_eta : forall i, mkI (i_sk i) (i_path i) = i. Proof. intros [a b]. reflexivity. Qed.

Lemma eqb_sym_of {A} (eqb : A -> A -> bool) (H : forall a b, eqb a b = true <-> a = b) : forall a b, eqb a b = eqb b a.
Proof.
  intros a b. destruct (eqb a b) eqn:E1, (eqb b a) eqn:E2; try reflexivity.
  - apply H in E1. subst. rewrite (proj2 (H b b) eq_refl) in E2. discriminate.
  - apply H in E2. subst. rewrite (proj2 (H a a) eq_refl) in E1. discriminate.
Qed.

Lemma find_dinv_observe : forall s k pth,
  find_dinv (observe_scq s k) pth
  = match aget iref_eqb (mkI k pth) (s_invs s) with Some v => Some (observe_inv s (mkI k pth) v) | None => None end.
Proof.
  intros s k pth. unfold find_dinv, observe_scq. cbn [ds_invs].
  induction (s_invs s) as [|[i v] l IH]; cbn; [reflexivity|].
  unfold iref_eqb at 1. cbn [i_sk i_path].
  rewrite (eqb_sym_of skey_eqb skey_eqb_eq k (i_sk i)). unfold path_eqb. rewrite (eqb_sym_of (list_eqb N.eqb) list_eqb_N_eq pth (i_path i)).
  destruct (skey_eqb (i_sk i) k) eqn:Ek; cbn; [|exact IH].
  destruct (list_eqb N.eqb (i_path i) pth) eqn:Ep; [|exact IH].
  apply skey_eqb_eq in Ek. apply list_eqb_N_eq in Ep. subst. rewrite iref_eta. reflexivity.
Qed.
