(* Debugging helpers (not part of any check). *)
From VF Require Import Common.Verdict Sched.Corr.
Open Scope Z_scope.

Fixpoint debug_from (i : nat) (s : state) (prev : dump) (evs : list (event * list (nat * wref)))
    (obss : list (list obs)) (dumps : list ddelta) :=
  match evs, obss, dumps with
  | e :: evs', o :: obss', dl :: dumps' =>
    let d := apply_delta prev dl in
    let '(s', mo) := step s e in
    if negb (obs_list_eqb mo o) || negb (String.eqb (dump_diff (observe s') d) "")
    then Some (i, e, mo, o, dump_diff (observe s') d, observe s', d)
    else debug_from (S i) s' d evs' obss' dumps'
  | _, _, _ => None
  end.
Definition debug_case (c : case) :=
  debug_from 0 (init (c_cfg c) (c_t0 c)) empty_dump (c_events c) (c_obs c) (c_dumps c).
