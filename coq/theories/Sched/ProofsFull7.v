(* C01, completeness layer: the sections of the RPCs. *)
From Coq Require Import Lia.
From VF Require Export Sched.ProofsFullTN.
From VF Require Import Sched.ProofsLearner Sched.ProofsEnabled Sched.ProofsPolicy Sched.ProofsInflight.
Open Scope Z_scope.

Definition FC (c : nat) (w : wref) (s : state) : Prop := Ctx c w s /\ W s /\ Sp s /\ NX [] s.

Lemma FC_GC : forall c w s, FC c w s -> GC c w s.
Proof. intros c w s [A [B [_ D]]]. split; [exact A|]. split; [exact B|exact (NX_XS _ _ D)]. Qed.
Lemma FC_FI : forall c w s, FC c w s -> FI s.
Proof. intros c w s [A [B [C D]]]. split; [exact (Ctx_SW _ _ _ A)|]. split; [exact B|]. split; assumption. Qed.

Lemma FC_complete_task_nb : forall c w t r s, resp_success r = false -> (t < s_ntasks s)%nat -> FC c w s -> FC c w (complete_task t r false s).
Proof.
  intros c w t r s Hr Ht H. destruct (FI_complete_task_nb t r s Hr Ht (FC_FI _ _ _ H)) as [_ [B [C D]]].
  split; [apply Ctx_complete_task; exact (proj1 H)|]. split; [exact B|]. split; assumption.
Qed.

Lemma FC_assign_next : forall c w s, FC c w s -> FC c w (fst (assign_next_queued_task w s)).
Proof.
  intros c w s H. destruct (GC_assign_next c w s (FC_GC _ _ _ H)) as [A [B _]].
  split; [exact A|]. split; [exact B|]. split; [unfold assign_next_queued_task; pose proof (proj1 (proj2 (proj2 H))); sp_go|].
  destruct H as [[_ [Hex [_ [Hkw _]]]] [_ [_ D]]]. apply NX_assign_next_queued_task; assumption.
Qed.

Ltac f_sync H lem :=
  apply FI_intro; [apply lem; exact (FC_GC _ _ _ H)| |];
  [ pose proof (proj1 (proj2 (proj2 H))) as HSp0; unfold sync_return_exec, sync_return_idle, sync_return_err, finish_sync; sp_go
  | pose proof (proj2 (proj2 (proj2 H))) as HNX0; unfold sync_return_exec, sync_return_idle, sync_return_err, finish_sync; nx_go1 ].

Lemma F_sync_return_exec : forall c w s, FC c w s -> FI (sync_return_exec c w s).
Proof. intros c w s H. f_sync H G_sync_return_exec. Qed.
Lemma F_sync_return_idle : forall c w s, FC c w s -> FI (sync_return_idle c w s).
Proof. intros c w s H. f_sync H G_sync_return_idle. Qed.
Lemma F_sync_return_err : forall c w code s, FC c w s -> FI (sync_return_err c w code s).
Proof. intros c w code s H. f_sync H G_sync_return_err. Qed.

Lemma F_sync_loop : forall c w s, FC c w s -> FI (sync_loop c w s).
Proof.
  intros c w s H. apply FI_intro; [apply G_sync_loop; exact (FC_GC _ _ _ H)| |].
  - pose proof (proj1 (proj2 (proj2 H))) as HSp0. unfold sync_loop, assign_next_queued_task, sync_return_exec, finish_sync. sp_go.
  - unfold sync_loop. destruct (is_drained s w); [pose proof (proj2 (proj2 (proj2 H))) as HNX0; nx_go1|].
    pose proof (FC_assign_next c w s H) as H1.
    rewrite (surjective_pairing (assign_next_queued_task w s)). destruct (snd (assign_next_queued_task w s)).
    + exact (FI_NX _ (F_sync_return_exec c w _ H1)).
    + pose proof (proj2 (proj2 (proj2 H))) as HNX0. nx_go1.
Qed.

Lemma F_get_next_task : forall c w b pr s, FC c w s -> FI (get_next_task c w b pr s).
Proof.
  intros c w b pr s H. unfold get_next_task.
  destruct pr; [apply F_sync_return_idle; exact H|]. cbv zeta.
  destruct (is_drained s w).
  - cbn [negb]. destruct (negb b); [apply F_sync_return_idle; exact H|apply F_sync_loop; exact H].
  - rewrite (surjective_pairing (assign_next_queued_task w s)). destruct (snd (assign_next_queued_task w s)).
    + apply F_sync_return_exec. apply FC_assign_next. exact H.
    + destruct (negb b); [apply F_sync_return_idle; exact H|apply F_sync_loop; exact H].
Qed.

Lemma F_get_current_or_next : forall c w b pr s, FC c w s -> FI (get_current_or_next c w b pr s).
Proof.
  intros c w b pr s H. unfold get_current_or_next.
  destruct (k_task (get_worker s w)) as [t|] eqn:Ek; [|apply F_get_next_task; exact H].
  pose proof (W_pick_worker _ _ _ (proj1 (proj2 H)) Ek) as Ht.
  destruct (Nat.ltb _ _).
  - apply F_sync_return_exec. destruct H as [HC [HW [HSp HNX]]]. split; [ctx_go|]. split; [|split; [sp_go|nx_go1]].
    apply (W_of_WL_step t s _ HW Ht). intro HWL. w_go2.
  - apply F_get_next_task. apply FC_complete_task_nb; [reflexivity|exact Ht|exact H].
Qed.

(* ---- Synchronize: first section ---------------------------------------------------------------------------------------- *)
(* the background-learning index of the task a worker reports as completed successfully is in range *)
Definition BG (w : wref) (r : resp) (s : state) : Prop :=
  resp_success r = true ->
  forall tk l bidx bdur btm bl p, k_task (get_worker s w) = Some tk -> t_learner (get_task s tk) = Some l ->
    l_succ l = Some (bidx, bdur, btm, bl) -> get_pq s (sk_pk (task_scq s tk)) = Some p -> (bidx < List.length (p_scs p))%nat.

Lemma BG_frame : forall w r s s', k_task (get_worker s' w) = k_task (get_worker s w) -> s_tasks s' = s_tasks s -> s_pqs s' = s_pqs s -> BG w r s -> BG w r s'.
Proof.
  unfold BG. intros w r s s' E1 E2 E3 H Hr tk l bidx bdur btm bl p Hk Hl Hs Hp.
  rewrite E1 in Hk. rewrite (get_task_frame _ _ _ E2) in Hl. unfold task_scq, get_pq in Hp. rewrite (get_task_frame _ _ _ E2), E3 in Hp.
  eapply H; eassumption.
Qed.
Lemma BG_none : forall w r s, k_task (get_worker s w) = None -> BG w r s.
Proof. unfold BG. intros. congruence. Qed.

Lemma NX_add_scq : forall k b s,
  scq_exists s k = false -> (exists p, In p (s_pqs s) /\ p_key p = sk_pk k) -> NX [] s -> NX [] (add_scq k b s).
Proof.
  intros k b s Hne Hp [A [B C]]. split; [apply XS_add_scq; assumption|]. unfold add_scq. cbv zeta. split.
  - eapply TK_frame; [|exact B]. reflexivity.
  - destruct C as [Hpan|[HC HM]]; [left; destruct Hpan as [what Hw]; exists what; exact Hw|right]. split.
    + apply CQ_newscq. eapply CQ_frame; [ | | |exact HC]; reflexivity.
    + apply MI_newscq. eapply MI_frame; [ | |exact HM]; [reflexivity|intro; reflexivity].
Qed.

Lemma NX_add_pq : forall k l m b s, NX [] s -> NX [] (add_pq k l m b s).
Proof.
  intros k l m b s [A [B C]]. split; [apply XS_add_pq; exact A|]. unfold add_pq. split; [eapply TK_frame; [|exact B]; reflexivity|].
  destruct C as [Hpan|[HC HM]]; [left; destruct Hpan as [what Hw]; exists what; exact Hw|right].
  split; [eapply CQ_frame; [ | | |exact HC]; reflexivity|eapply MI_frame; [ | |exact HM]; [reflexivity|intro; reflexivity]].
Qed.

Lemma FI_ret : forall c code s, FI s -> FI (ret c code s).
Proof.
  intros c code s H. apply FI_intro; [apply G_ret; exact (FI_G _ H)| |]; unfold ret.
  - pose proof (FI_Sp _ H). sp_go.
  - pose proof (FI_NX _ H). nx_go1.
Qed.

Lemma F_sync_start : forall c a s,
  is_phantom (y_worker a) = false ->
  (forall d r, y_state a = WCompleted d r -> BG (y_worker a) r s) ->
  FI s -> FI (sync_start c a s).
Proof.
  intros c a s Hph Hbg H. unfold sync_start. cbv zeta. set (w := y_worker a) in *. set (k := w_sk w).
  match goal with |- FI (match ?R with _ => _ end) => destruct R as [s1|code1] eqn:ER end; [|apply FI_ret; exact H].
  assert (H1 : FI s1 /\ scq_exists s1 k = true /\ q_cleanup (get_scq s1 k) = None /\ (forall d r, y_state a = WCompleted d r -> BG w r s1)).
  { destruct (scq_exists s k) eqn:Ee.
    - injection ER as <-. split; [fi_prim H|]. split; [rewrite scq_exists_upd_scq; exact Ee|].
      split; [rewrite get_scq_upd_scq, skey_eqb_refl, Ee; reflexivity|].
      intros d r E. eapply BG_frame; [ | | |exact (Hbg d r E)].
      + rewrite get_worker_upd_scq_keep by reflexivity. reflexivity.
      + rewrite upd_scq_eq. reflexivity.
      + rewrite upd_scq_eq. reflexivity.
    - assert (Hnone : forall s', (forall k', get_scq s' k' = if skey_eqb k' k then mkScq true None [] 0 [] else get_scq s' k') -> True) by auto.
      assert (Hwn : forall b s0, scq_exists s0 k = false -> k_task (get_worker (add_scq k b s0) w) = None).
      { intros b s0 He0. unfold get_worker. fold k. rewrite get_scq_add_scq_new by exact He0. reflexivity. }
      destruct H as [HSW [HW [HSp HNX]]]. destruct (get_pq s (sk_pk k)) as [p|] eqn:Ep.
      + sum_cases ER. injection ER as <-. apply get_pq_some_in in Ep. destruct Ep as [Ep1 Ep2].
        split; [|split; [rewrite scq_exists_add_scq, skey_eqb_refl; apply orb_true_r|split; [rewrite get_scq_add_scq_new by exact Ee; reflexivity|intros d r _; apply BG_none; apply Hwn; exact Ee]]].
        split; [apply SW_add_scq; [exact Ee|exists p; auto|exact HSW]|].
        split; [w_of_wl HW; unfold add_scq; w_go2|]. split; [apply Sp_add_scq; assumption|apply NX_add_scq; [exact Ee|exists p; auto|exact HNX]].
      + injection ER as <-.
        assert (Hp : SW (add_pq (sk_pk k) [] 0 0 s)) by (unfold add_pq; destruct HSW as [HS HWP]; split; [t_St|eapply WP_frame; [ | | |exact HWP]; reflexivity]).
        assert (Hpq : exists p, In p (s_pqs (add_pq (sk_pk k) [] 0 0 s)) /\ p_key p = sk_pk k).
        { unfold add_pq. cbn. eexists. split; [apply in_or_app; right; left; reflexivity|reflexivity]. }
        split; [|split; [rewrite scq_exists_add_scq, skey_eqb_refl; apply orb_true_r|split; [rewrite get_scq_add_scq_new by exact Ee; reflexivity|intros d r _; apply BG_none; apply Hwn; exact Ee]]].
        split; [apply SW_add_scq; [exact Ee|exact Hpq|exact Hp]|].
        split; [w_of_wl HW; unfold add_scq, add_pq; w_go2|].
        split; [apply Sp_add_scq; [exact Ee|apply Sp_add_pq; assumption]|apply NX_add_scq; [exact Ee|exact Hpq|apply NX_add_pq; exact HNX]]. }
  clear ER H Hbg. destruct H1 as [H [Hse [Hqc Hbg]]]. revert H Hse Hqc Hbg. generalize s1. clear s. intros s H Hse Hqc Hbg.
  match goal with |- FI (match ?R with _ => _ end) => destruct R as [s2|code2] eqn:ER end; [|apply FI_ret; exact H].
  assert (H2 : FC c w s2 /\ (forall d r, y_state a = WCompleted d r -> BG w r s2)).
  { destruct H as [HSW [HW [HSp HNX]]]. destruct (worker_exists s w) eqn:Ee.
    - destruct (k_cleanup (get_worker s w)) eqn:Ec; [|discriminate]. injection ER as <-.
      pose proof (SW_WP _ HSW) as [A2 [_ [B1 _]]].
      split.
      + split; [|split; [w_of_wl HW; w_go2|split; [sp_go|nx_go1]]].
        unfold Ctx. split; [sw_go2|]. split; [rewrite worker_exists_upd_worker; exact Ee|].
        rewrite get_worker_upd_worker, wref_eqb_refl, Ee. cbn. split; [reflexivity|]. split; [apply B1; congruence|].
        intros c' p Hc Hs. exfalso. rewrite calls_upd_worker in Hc. destruct (A2 _ _ _ Hc Hs) as [_ E]. congruence.
      + intros d r E. eapply BG_frame; [ | | |exact (Hbg d r E)].
        * rewrite get_worker_upd_worker, wref_eqb_refl, Ee. reflexivity.
        * rewrite upd_worker_eq. reflexivity.
        * rewrite upd_worker_eq. reflexivity.
    - injection ER as <-. pose proof (SW_WP _ HSW) as [A2 _].
      set (s2 := upd_scq k _ s).
      assert (Hs2 : SW s2).
      { destruct HSW as [HS HWP]. split; [apply St_newworker; assumption|apply WP_newworker; assumption]. }
      assert (HX2 : XS [] s2) by (apply XS_newworker; [exact Ee|exact Hph|exact (NX_XS _ _ HNX)]).
      assert (HN2 : NX [] s2) by (split; [exact HX2|]; destruct HNX as [_ [B C]]; unfold s2; split; [t_TK|t_CM]).
      assert (HW2 : W s2) by (w_of_wl HW; unfold s2; w_go2).
      assert (HSp2 : Sp s2) by (unfold s2; sp_go).
      assert (Hex2 : worker_exists s2 w = true) by (apply worker_exists_newworker; exact Hse).
      assert (Hg2 : get_worker s2 w = mkWorker None None false (Some []) false (repeat 0 (List.length (limits_of s k)))).
      { apply get_worker_newworker_aux; assumption. }
      clear HNX HW HSp. split.
      + split; [|split; [w_of_wl HW2; w_go2|split; [clearbody s2; sp_go|clearbody s2; nx_go1]]].
        unfold Ctx. split; [sw_go2|]. split; [rewrite (worker_exists_frame s2) by apply scqs_upd_inv; exact Hex2|].
        rewrite (get_worker_frame' s2) by apply scqs_upd_inv. rewrite Hg2. cbn. split; [reflexivity|]. split; [reflexivity|].
        intros c' p Hc Hs. exfalso. rewrite calls_upd_inv in Hc. unfold s2 in Hc. rewrite calls_upd_scq in Hc.
        destruct (A2 _ _ _ Hc Hs) as [E _]. congruence.
      + intros d r _. apply BG_none. rewrite (get_worker_frame' s2) by apply scqs_upd_inv. rewrite Hg2. reflexivity. }
  clear ER H Hse Hqc Hbg. destruct H2 as [H Hbg]. revert H Hbg. generalize s2. clear s. intros s H Hbg. unfold k in *. clear k.
  destruct (y_state a) as [|d|d r|] eqn:Ey.
  - apply F_get_current_or_next. exact H.
  - destruct (running_correct s w d); [|apply F_get_current_or_next; exact H].
    destruct H as [HC [HW [HSp HNX]]]. apply FI_intro; [| |].
    + split; [apply (H_sync_none c w); exact HC|]. split; [w_of_wl HW; unfold finish_sync; w_go2|unfold finish_sync; pose proof (NX_XS _ _ HNX) as HXS; xs_go1].
    + unfold finish_sync. sp_go.
    + unfold finish_sync. nx_go1.
  - destruct (running_correct s w d); [|apply F_get_current_or_next; exact H].
    destruct (k_task (get_worker s w)) as [t|] eqn:Ek; [|exact (FC_FI _ _ _ H)].
    apply F_get_next_task.
    pose proof (W_pick_worker _ _ _ (proj1 (proj2 H)) Ek) as Ht.
    pose proof (FC_FI _ _ _ H) as HFI.
    assert (HFI' : FI (complete_task t r true s)).
    { apply FI_complete_task; [exact Ht| | |exact HFI].
      - intros _. pose proof (XS_X _ _ (NX_XS _ _ (FI_NX _ HFI))) as HX.
        rewrite (XB _ _ HX w t (ktask_exists _ _ _ Ek) Ek (fun F => F)). discriminate.
      - intros l bidx bdur btm bl p Hl Hs Hr Hp. eapply (Hbg d r eq_refl Hr); eassumption. }
    destruct HFI' as [_ [B [C D]]]. split; [apply Ctx_complete_task; exact (proj1 H)|]. split; [exact B|]. split; assumption.
  - apply F_sync_return_err. exact H.
Qed.

(* ---- Execute ------------------------------------------------------------------------------------------------------------- *)
Lemma NX_new_operation : forall ext t prio i m s,
  In t ext -> (t < s_ntasks s)%nat -> (forall j o, In (j, o) (t_ops (get_task s t)) -> op_alive s o = true) ->
  (forall i' o', In (i', o') (t_ops (get_task s t)) -> i_sk i' = i_sk i) -> (forall w, t_worker (get_task s t) = Some w -> i_sk i = w_sk w) ->
  NX ext s -> NX ext (fst (new_operation t prio i m s)).
Proof.
  intros ext t prio i m s Hin Hlt Hal Hk1 Hk2 [A [B C]]. split; [apply XS_new_operation; assumption|].
  unfold new_operation. cbn [fst]. split.
  - apply TK_upd_task; [|t_TK]. rewrite (get_task_frame s) by reflexivity. apply tk_addop; [exact Hk1|exact Hk2|apply B].
  - destruct C as [Hp|[HC HM]]; [left; inv_go fail t_pan|right]. split.
    + apply CQ_upd_task; [left; exact Hin|]. apply CQ_newop; [exact Hin|apply ON_fresh; exact (XS_ON _ _ A)|exact HC].
    + eapply MI_frame; [ | |exact HM]; [reflexivity|intro; reflexivity].
Qed.

Lemma NX_wait_execution_begin : forall ext c o s, NX ext s -> NX ext (wait_execution_begin c o s).
Proof. intros. unfold wait_execution_begin, stream_iter. nx_go1. Qed.

Lemma F_exec_new : forall c a p s,
  (fst (fst (fst (x_sel a))) < List.length (p_scs p))%nat -> In p (s_pqs s) ->
  FI s ->
  let s1 := emit (OGhost GSelect) s in
  NX [] (let '(idx, dur, timeout, l) := x_sel a in
      let k := mkSK (p_key p) (nth idx (p_scs p) 0%N) in
      let t := s_ntasks s1 in
      let s := s1 <| s_ntasks ::= S |>
                 <| s_tasks ::= fun ts => ts ++ [(t, mkTask [] (x_instance a) (x_digest a) (Some (x_dnc a)) timeout (s_now s1)
                                                        (drop_prefix (pk_prefix (p_key p)) (x_instance a))
                                                        None 0 dur (Some l) None 0)] |> in
      let s := if x_dnc a then s else s <| s_inflight ::= aset dkey_eqb (x_instance a, x_digest a) t |> in
      let s := get_or_create_invocation k (x_keys a) s in
      let '(s, o) := new_operation t (x_prio a) (mkI k (x_keys a)) false s in
      wait_execution_begin c o (schedule t s)).
Proof.
  intros c a p s Hidx Hp H s1. destruct (x_sel a) as [[[idx dur] timeout] l]. cbn [fst] in Hidx. cbv zeta.
  assert (Hk : scq_exists s1 (mkSK (p_key p) (nth idx (p_scs p) 0%N)) = true).
  { destruct (FI_Sp _ H) as [_ [_ S3]]. apply (S3 p); [exact Hp|apply nth_In; exact Hidx]. }
  assert (H1 : FI s1) by (unfold s1; fi_prim H). clearbody s1. clear H.
  set (k := mkSK (p_key p) (nth idx (p_scs p) 0%N)) in *.
  set (t := s_ntasks s1).
  set (x := mkTask [] (x_instance a) (x_digest a) (Some (x_dnc a)) timeout (s_now s1) (drop_prefix (pk_prefix (p_key p)) (x_instance a)) None 0 dur (Some l) None 0).
  set (s2 := s1 <| s_ntasks ::= S |> <| s_tasks ::= fun ts => ts ++ [(t, x)] |>).
  assert (Hx : get_task s2 t = x).
  { unfold s2, t. rewrite get_task_newtask, (W_task_fresh s1 (FI_W _ H1)), Nat.eqb_refl. reflexivity. }
  assert (H2 : SW s2 /\ NX [t] s2 /\ Lc t None None true s2 /\ scq_exists s2 k = true).
  { destruct H1 as [HSW [HW [_ [HXS [B C]]]]]. split; [unfold s2; sw_go2|]. split; [|split; [apply Lc_fresh; try reflexivity; exact HW|exact Hk]].
    split; [apply XS_newtask; [reflexivity|exact HXS]|]. split.
    - apply TK_newtask; [|exact B]. unfold tk_ok, x. cbn. repeat split; intros; try contradiction; discriminate.
    - destruct C as [Hpan|[HC HM]]; [left; unfold s2; t_pan|right]. split; [apply CQ_newtask; exact HC|eapply MI_frame; [ | |exact HM]; [reflexivity|intro; reflexivity]]. }
  clearbody s2. clear H1 Hk.
  set (s3 := if x_dnc a then s2 else s2 <| s_inflight ::= aset dkey_eqb (x_instance a, x_digest a) t |>).
  assert (H3 : SW s3 /\ NX [t] s3 /\ Lc t None None true s3 /\ scq_exists s3 k = true /\ get_task s3 t = x).
  { destruct H2 as [HSW [HNX [HLc He]]]. unfold s3. destruct (x_dnc a); [auto 6|]. split; [sw_go2|].
    split; [destruct HNX as [A [B C]]; split; [t_XS|split; [t_TK|t_CM]]|]. split; [lc_go1|]. split; [exact He|exact Hx]. }
  clearbody s3. clear H2 Hx.
  set (s4 := get_or_create_invocation k (x_keys a) s3).
  assert (H4 : SW s4 /\ NX [t] s4 /\ Lc t None None true s4 /\ inv_exists s4 (mkI k (x_keys a)) = true /\ get_task s4 t = x).
  { destruct H3 as [HSW [HNX [HLc [He Hx]]]]. unfold s4. split; [sw_go2|]. split; [apply NX_get_or_create_invocation; assumption|]. split; [lc_go1|].
    split; [|rewrite (get_task_frame s3); [exact Hx|apply goc_frames]].
    destruct (x_keys a) eqn:Ekeys; [|apply (proj2 (goc_exists k _ s3)); discriminate].
    apply (proj1 (goc_exists k [] s3)). apply root_exists; [exact (XS_St _ _ (NX_XS _ _ HNX))|exact He]. }
  clearbody s4. clear H3. destruct H4 as [HSW [HNX [HLc [Hie Hx]]]].
  unfold new_operation. cbv iota beta.
  match goal with |- NX [] (wait_execution_begin c ?o (schedule t ?e)) => set (s5 := e); generalize o; intro o5 end.
  assert (H5 : SW s5 /\ NX [t] s5 /\ Lc t None None true s5 /\ t_ops (get_task s5 t) = [(mkI k (x_keys a), s_nops s4)] /\ inv_exists s5 (mkI k (x_keys a)) = true).
  { split; [unfold s5; sw_go2|]. split.
    - apply (NX_new_operation [t] t (x_prio a) (mkI k (x_keys a)) false s4 (or_introl eq_refl) (LcN _ _ _ _ _ HLc)); [| | |exact HNX].
      + intros j o Hin. destruct (LcO2 _ _ _ _ _ HLc j o Hin) as [Ha _]. exact Ha.
      + rewrite Hx. intros i' o' [].
      + rewrite Hx. intros w E. discriminate.
    - split; [exact (Lc_new_operation_own [t] t None None true (x_prio a) _ false s4 (NX_XS _ _ HNX) HLc)|]. split; [|exact Hie].
      unfold s5. rewrite get_task_upd_task, Nat.eqb_refl. cbn. rewrite (get_task_frame s4) by reflexivity. rewrite Hx. reflexivity. }
  clearbody s5. clear HSW HNX HLc Hie Hx. destruct H5 as [HSW [HNX [HLc [Eops Hie]]]].
  apply NX_wait_execution_begin. apply NX_schedule_clean; [exact HSW|exact HNX|exact HLc|].
  intros i o Hin. rewrite Eops in Hin. destruct Hin as [E|[]]. inversion E; subst. exact Hie.
Qed.

Lemma enqueue_keeps_alive_tsk : forall o s o', op_alive (enqueue o s) o' = op_alive s o' /\ get_op (enqueue o s) o' = get_op s o'.
Proof. intros o s o'. destruct (enqueue_reads o s) as [E _]. split; [apply op_alive_frame; exact E|apply get_op_frame; exact E]. Qed.

Lemma web_reads : forall c o s,
  let s' := wait_execution_begin c o s in
  s_tasks s' = s_tasks s /\ s_invs s' = s_invs s /\
  (forall o', op_alive s' o' = op_alive s o' /\ o_task (get_op s' o') = o_task (get_op s o') /\ o_inv (get_op s' o') = o_inv (get_op s o')) /\
  (Pan s -> Pan s').
Proof.
  intros c o s s'. unfold s', wait_execution_begin, stream_iter. cbv zeta.
  set (s1 := upd_op o _ s).
  assert (E1 : s_tasks s1 = s_tasks s /\ s_invs s1 = s_invs s) by (unfold s1; rewrite upd_op_eq; auto).
  assert (E2 : forall o', op_alive s1 o' = op_alive s o' /\ o_task (get_op s1 o') = o_task (get_op s o') /\ o_inv (get_op s1 o') = o_inv (get_op s o')).
  { intro o'. unfold s1. rewrite op_alive_upd_op, get_op_upd_op. destruct (Nat.eqb o' o && op_alive s o) eqn:E; [|auto].
    apply andb_true_iff in E. destruct E as [E _]. apply Nat.eqb_eq in E. subst. auto. }
  assert (E3 : Pan s -> Pan s1) by (intro Hp; unfold s1; t_pan).
  clearbody s1. destruct E1 as [Ea Eb].
  destruct (t_resp (get_task s1 (o_task (get_op s1 o)))); (split; [exact Ea|]; split; [exact Eb|]; split; [exact E2|]);
    intro Hp; apply E3 in Hp; apply Pan_setcall; t_pan.
Qed.

(* attaching to a task in flight *)
Lemma F_exec_dedup : forall c a t0 s,
  aget dkey_eqb (x_instance a, x_digest a) (s_inflight s) = Some t0 ->
  FI s -> TNP [] s -> Inf s -> NX [] (exec_start c a s).
Proof.
  intros c a t0 s Ei H HT HI.
  pose proof (XS_exec_start c a s (FI_G _ H)) as HXfinal.
  unfold exec_start in *. rewrite Ei in *. cbv zeta in *.
  pose proof (W_pick_inflight s _ t0 (FI_W _ H) Ei) as Hlt.
  set (s1 := emit (OGhost GSelAbandoned) s) in *.
  change (task_scq s1 t0) with (task_scq s t0) in *. set (k := task_scq s t0) in *.
  (* the queue of the task exists (or a panic was reported) *)
  assert (Hk : Pan s1 \/ scq_exists s1 k = true).
  { destruct (FI_NX _ H) as [HXS [HTK HCM]]. destruct HCM as [Hp|[HC HM]]; [left; unfold s1; t_pan|]. destruct HT as [Hp|HTN]; [left; unfold s1; t_pan|right].
    change (scq_exists s1 k) with (scq_exists s k).
    destruct HI as [_ [I2 _]]. destruct (I2 _ _ Ei) as [x [Ex [[Hr Hd] _]]].
    assert (Eg : get_task s t0 = x) by (unfold get_task; rewrite Ex; reflexivity).
    pose proof (XS_X _ _ HXS) as HX.
    assert (Hne : t_ops (get_task s t0) <> []) by (apply (proj2 (HTN t0)); [intros []|rewrite Eg, Hd; discriminate]).
    destruct (t_ops (get_task s t0)) as [|[i0 o0] l0] eqn:Eo; [congruence|].
    assert (Hin : In (i0, o0) (t_ops (get_task s t0))) by (rewrite Eo; left; reflexivity).
    assert (Ek : k = i_sk i0) by (unfold k; eapply task_scq_first; [exact HTK|exact Hin]).
    destruct (XO2 _ _ HX t0 i0 o0 (fun F => F) Hin) as [Ha [Ht Hi]].
    destruct (t_worker (get_task s t0)) as [w|] eqn:Ew.
    - destruct (XA _ _ HX t0 w (fun F => F) Ew) as [_ [He _]]. destruct (HTK t0) as [_ [K2 _]]. rewrite Ek, (K2 w i0 o0 Ew Hin).
      unfold worker_exists, scq_exists, get_scq in *. destruct (aget skey_eqb (w_sk w) (s_scqs s)); [reflexivity|discriminate].
    - assert (Hq : queued s o0) by (apply HC; [exact Ha|intros []|unfold idle_live; rewrite Ht, Ew, Eg; auto]).
      unfold queued in Hq. rewrite Hi in Hq. unfold get_inv in Hq. destruct (aget iref_eqb i0 (s_invs s)) as [v|] eqn:Ev; [|destruct Hq].
      apply (aget_In iref_eqb iref_eqb_eq) in Ev. rewrite Ek. exact (HM _ _ Ev). }
  set (s2 := get_or_create_invocation k (x_keys a) s1) in *.
  assert (H2 : NX [] s2 /\ (t0 < s_ntasks s2)%nat /\ get_task s2 t0 = get_task s t0 /\ (Pan s2 \/ inv_exists s2 (mkI k (x_keys a)) = true)).
  { assert (H1 : FI s1) by (unfold s1; fi_prim H).
    split; [unfold s2; apply NX_get_or_create_invocation'; [exact Hk|exact (FI_NX _ H1)]|].
    split; [unfold s2; destruct (get_or_create_invocation_tasks k (x_keys a) s1) as [_ [_ E]]; rewrite E; exact Hlt|].
    split; [unfold s2; rewrite (get_task_frame s1); [reflexivity|apply goc_frames]|].
    destruct Hk as [Hp|Hk]; [left; unfold s2; assert (Hg : Pan s1) by exact Hp; apply (fr_get_or_create_invocation Pan); [intros; t_pan|exact Hg]|right].
    unfold s2. destruct (x_keys a) eqn:Ekeys; [|apply (proj2 (goc_exists k _ s1)); discriminate].
    apply (proj1 (goc_exists k [] s1)). apply root_exists; [exact (XS_St _ _ (NX_XS _ _ (FI_NX _ H1)))|exact Hk]. }
  clearbody s2. clear Hk. destruct H2 as [HNX [Hlt2 [Et2 Hie]]].
  destruct (aget iref_eqb (mkI k (x_keys a)) (t_ops (get_task s2 t0))) as [o|]; [apply NX_wait_execution_begin; exact HNX|].
  pose proof (NX_XS _ _ HNX) as HXS. pose proof (XS_St _ _ HXS) as [_ [_ [Hnd _]]]. pose proof (XS_X _ _ HXS) as HX.
  pose proof (Lc_intro [] t0 s2 Hnd (fun F => F) Hlt2 HX) as HL.
  assert (Hsk1 : forall i' o', In (i', o') (t_ops (get_task s2 t0)) -> i_sk i' = k).
  { intros i' o' Hin. unfold k. symmetry. rewrite Et2 in Hin. unfold task_scq.
    destruct (t_ops (get_task s t0)) as [|[i0 o0] l0] eqn:Eo; [destruct Hin|].
    destruct (NX_TK _ _ HNX t0) as [K1 _]. rewrite Et2, Eo in K1. apply (K1 i0 o0 i' o'); [left; reflexivity|exact Hin]. }
  assert (Hsk2 : forall w, t_worker (get_task s2 t0) = Some w -> k = w_sk w).
  { intros w Ew. destruct (NX_TK _ _ HNX t0) as [_ [K2 K3]].
    destruct (XA _ _ HX t0 w (fun F => F) Ew) as [Hph _]. specialize (K3 w Ew Hph).
    destruct (t_ops (get_task s2 t0)) as [|[i0 o0] l0] eqn:Eo; [congruence|].
    rewrite <- (Hsk1 i0 o0 (or_introl eq_refl)). apply (K2 w i0 o0 Ew). left. reflexivity. }
  set (o := s_nops s2) in *.
  assert (Hfr : op_alive s2 o = false) by (apply ON_fresh; exact (XS_ON _ _ HXS)).
  unfold new_operation in *. cbv iota beta in *.
  match goal with |- NX [] (wait_execution_begin c _ (match task_stage (get_task ?e t0) with _ => _ end)) => set (s3 := e) in * end.
  assert (H3 : NX [t0] s3).
  { apply (NX_new_operation [t0] t0 (x_prio a) (mkI k (x_keys a)) false s2 (or_introl eq_refl) Hlt2); [| | |apply NX_weaken; exact HNX].
    - intros j o' Hin. destruct (LcO2 _ _ _ _ _ HL j o' Hin) as [Ha _]. exact Ha.
    - intros i' o' Hin. cbn. apply (Hsk1 i' o' Hin).
    - intros w Ew. cbn. apply Hsk2. exact Ew. }
  (* reading the state with the new operation *)
  assert (R3 : t_worker (get_task s3 t0) = t_worker (get_task s2 t0) /\ t_resp (get_task s3 t0) = t_resp (get_task s2 t0) /\
               s_invs s3 = s_invs s2 /\ op_alive s3 o = true /\ get_op s3 o = mkOper t0 (x_prio a) (mkI k (x_keys a)) 0 false None /\
               (forall o', op_alive s2 o' = true -> op_alive s3 o' = true /\ get_op s3 o' = get_op s2 o') /\
               (forall o', op_alive s3 o' = true -> o' = o \/ op_alive s2 o' = true) /\
               (forall t', t' <> t0 -> get_task s3 t' = get_task s2 t')).
  { set (sn := s2 <| s_nops ::= S |> <| s_ops ::= fun l0 => l0 ++ [(o, mkOper t0 (x_prio a) (mkI k (x_keys a)) 0 false None)] |>).
    assert (Eg : forall o', get_op s3 o' = get_op sn o') by (intro; apply get_op_frame; reflexivity).
    assert (Ea : forall o', op_alive s3 o' = op_alive sn o') by (intro; apply op_alive_frame; reflexivity).
    split; [unfold s3; rewrite get_task_upd_task, Nat.eqb_refl; reflexivity|]. split; [unfold s3; rewrite get_task_upd_task, Nat.eqb_refl; reflexivity|].
    split; [reflexivity|]. split; [rewrite Ea; unfold sn, o; rewrite op_alive_newop, Nat.eqb_refl; apply orb_true_r|].
    split; [rewrite Eg; unfold sn, o; rewrite get_op_newop, Nat.eqb_refl; unfold o, op_alive in Hfr; destruct (aget Nat.eqb (s_nops s2) (s_ops s2)); [discriminate|reflexivity]|].
    split; [intros o' Ha'; rewrite Ea, Eg; unfold sn, o; rewrite op_alive_newop, get_op_newop, Ha'; split; [reflexivity|]; unfold op_alive, get_op in *; destruct (aget Nat.eqb o' (s_ops s2)); [reflexivity|discriminate]|].
    split; [intros o' Ha'; rewrite Ea in Ha'; unfold sn, o in Ha'; rewrite op_alive_newop in Ha'; apply orb_true_iff in Ha'; destruct Ha' as [Ha'|Ha']; [right; exact Ha'|left; apply Nat.eqb_eq; exact Ha']|].
    intros t' Hne. unfold s3. rewrite get_task_upd_task. destruct (Nat.eqb t' t0) eqn:E; [apply Nat.eqb_eq in E; contradiction|reflexivity]. }
  destruct R3 as [Rw [Rr [Ri [Rao [Rgo [Rold [Rcases Rtask]]]]]]].
  (* the state before the reply *)
  fold o in HXfinal |- *.
  match goal with |- NX [] (wait_execution_begin c o ?e) => set (s4 := e) in * end.
  assert (H4 : NX [t0] s4 /\
               (Pan s4 \/ (idle_live s4 t0 -> forall o', op_alive s4 o' = true -> tsk s4 o' = t0 -> queued s4 o'))).
  { unfold s4. unfold task_stage. rewrite Rw, Rr.
    destruct (t_resp (get_task s2 t0)) as [r0|] eqn:Er.
    { assert (Hp : NX [t0] (panic "Task in unexpected stage" s3) /\ Pan (panic "Task in unexpected stage" s3)) by (split; [t_NX|apply Pan_panic]).
      destruct (t_worker (get_task s2 t0)); cbv iota; (split; [exact (proj1 Hp)|left; exact (proj2 Hp)]). }
    destruct (t_worker (get_task s2 t0)) as [w|] eqn:Ew; cbv iota.
    - split; [apply NX_increment_executing; exact H3|right]. intros [E _]. exfalso.
      assert (Ht : TWk t0 (Some w) (increment_executing (mkI k (x_keys a)) w s3)).
      { assert (H0 : TWk t0 (Some w) s3) by (unfold TWk; exact Rw). fr_go (TWk t0 (Some w)) t_twk. }
      unfold TWk in Ht. congruence.
    - assert (Hnq : ~ In o (v_qops (get_inv s3 (o_inv (get_op s3 o))))).
      { rewrite (get_inv_frame s2) by exact Ri. intro Hin. destruct (XQ _ _ HX _ _ Hin) as [E _]. congruence. }
      split; [apply NX_enqueue; [exact Rao|unfold tsk; rewrite Rgo; left; reflexivity|exact Hnq|exact H3]|].
      destruct Hie as [Hp|Hie]; [left; assert (Hp3 : Pan s3) by (unfold s3; inv_go fail t_pan); unfold enqueue; inv_go fail t_pan|].
      destruct (NX_CM _ _ HNX) as [Hp|[HC _]]; [left; assert (Hp3 : Pan s3) by (unfold s3; inv_go fail t_pan); unfold enqueue; inv_go fail t_pan|right].
      intros _ o' Ha' Ht'. destruct (enqueue_keeps_alive_tsk o s3 o') as [Ea' Eg']. rewrite Ea' in Ha'. unfold tsk in Ht'. rewrite Eg' in Ht'.
      destruct (enqueue_reads2 o s3) as [M1 [M2 _]]. unfold queued. rewrite Eg'.
      destruct (Rcases o' Ha') as [->|Ha2].
      + apply M2. rewrite Rgo. cbn. rewrite (inv_exists_frame s2) by exact Ri. exact Hie.
      + destruct (Rold o' Ha2) as [_ Eg2]. rewrite Eg2 in *. apply M1. rewrite (get_inv_frame s2) by exact Ri.
        apply (HC o' Ha2 (fun F => F)). unfold idle_live, tsk. rewrite Ht'. auto. }
  clearbody s4. destruct H4 as [H4 Hd4].
  destruct (web_reads c o s4) as [W1 [W2 [W3 W4]]]. cbv zeta in *.
  apply (NX_drop [] t0); [exact HXfinal| |apply NX_wait_execution_begin; exact H4].
  destruct Hd4 as [Hp|Hd4]; [left; apply W4; exact Hp|right].
  intros Hi o' Ha' Ht'. destruct (W3 o') as [A1 [A2 A3]]. rewrite A1 in Ha'. unfold tsk in Ht'. rewrite A2 in Ht'.
  unfold idle_live in Hi. rewrite (get_task_frame _ _ _ W1) in Hi.
  unfold queued. rewrite A3, (get_inv_frame _ _ _ W2). apply Hd4; assumption.
Qed.

Lemma F_exec_start : forall c a s,
  (forall p, longest_prefix_pq s (x_plat a) (x_instance a) = Some p -> (fst (fst (fst (x_sel a))) < List.length (p_scs p))%nat) ->
  FI s -> TNP [] s -> Inf s -> FI (exec_start c a s).
Proof.
  intros c a s Hsel H HT HI.
  assert (HG' : G (exec_start c a s)).
  { destruct (FI_G _ H) as [HSW [HW HXS]]. split; [unfold exec_start, new_operation; sw_go3|].
    split; [apply (WL_W []); apply WL_exec_start; apply WL_of_W; exact HW|apply XS_exec_start; exact (FI_G _ H)]. }
  apply FI_intro; [exact HG'|unfold exec_start, new_operation; pose proof (FI_Sp _ H); sp_go|].
  destruct (aget dkey_eqb (x_instance a, x_digest a) (s_inflight s)) as [t0|] eqn:Ei; [apply (F_exec_dedup c a t0); assumption|].
  unfold exec_start. rewrite Ei.
  destruct (longest_prefix_pq s (x_plat a) (x_instance a)) as [p|] eqn:Ep.
  - apply F_exec_new; [apply Hsel; reflexivity| |exact H]. destruct (longest_prefix_pq_sound _ _ _ _ Ep) as [Hp _]. exact Hp.
  - unfold ret. pose proof (FI_NX _ H). nx_go1.
Qed.
