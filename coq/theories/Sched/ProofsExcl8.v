(* C01, exclusivity layer: the sections of the RPCs, events, runs. *)
From Coq Require Import Lia.
From VF Require Export Sched.ProofsExcl7.
From VF Require Import Sched.ProofsPolicy Sched.ProofsEnabled.
Open Scope Z_scope.

(* ---- assignNextQueuedTask ------------------------------------------------------------------------------------------ *)
Lemma policy_queued : forall s i lk lim st r res, policy s i lk lim st r res ->
  exists j o, In o (v_qops (get_inv s j)) /\ o_task (get_op s o) = fst res.
Proof. intros s i lk lim st r res H. induction H; [exists i, o; auto|assumption]. Qed.

Lemma XS_assign_next_queued_task : forall w s,
  worker_exists s w = true -> k_wait (get_worker s w) = false -> XS [] s -> XS [] (fst (assign_next_queued_task w s)).
Proof.
  intros w s Hex Hkw HXS. unfold assign_next_queued_task. cbv zeta.
  destruct (pick_next s w _) as [[t r]|] eqn:Ep; cbn [fst]; [|exact HXS].
  apply pick_next_in in Ep. apply next_candidates_policy in Ep. apply policy_queued in Ep. destruct Ep as [j [o [Hq Ht]]]. cbn [fst] in Ht.
  pose proof (XS_X _ _ HXS) as HX.
  destruct (XQ _ _ HX _ _ Hq) as [Ha Hi].
  assert (Hqd : queued s o) by (unfold queued; rewrite Hi; exact Hq).
  destruct (XL _ _ HX o Ha (fun H => H) Hqd) as [Ew Er]. unfold tsk in Ew, Er. rewrite Ht in Ew, Er.
  pose proof (OT_alive s o (XS_OT _ _ HXS) Ha) as Hlt. unfold tsk in Hlt. rewrite Ht in Hlt.
  pose proof (XS_St _ _ HXS) as [_ [_ [Hnd _]]].
  pose proof (Lc_intro [] t s Hnd (fun H => H) Hlt HX) as HL. rewrite Ew, Er in HL.
  apply (XS_assign_queued_clean [] t false w r s); [apply XS_weaken; exact HXS|exact HL|exact Hex|exact Hkw].
Qed.

(* ---- the sections of a Synchronize call ---------------------------------------------------------------------------- *)
Definition GC (c : nat) (w : wref) (s : state) : Prop := Ctx c w s /\ W s /\ XS [] s.

Lemma GC_G : forall c w s, GC c w s -> G s.
Proof. intros c w s [H1 [H2 H3]]. split; [exact (Ctx_SW _ _ _ H1)|auto]. Qed.

Lemma GC_complete_task : forall c w t r b s, (t < s_ntasks s)%nat -> GC c w s -> GC c w (complete_task t r b s).
Proof.
  intros c w t r b s Ht H. pose proof (G_complete_task t r b s Ht (GC_G _ _ _ H)) as [_ [HW HXS]].
  destruct H as [HC _]. split; [apply Ctx_complete_task; exact HC|auto].
Qed.

Lemma GC_assign_next : forall c w s, GC c w s -> GC c w (fst (assign_next_queued_task w s)).
Proof.
  intros c w s [HC [HW HXS]]. split; [apply Ctx_assign_next; exact HC|].
  split; [apply (WL_W []); apply WL_assign_next_queued_task; apply WL_of_W; exact HW|].
  destruct HC as [_ [Hex [_ [Hkw _]]]]. apply XS_assign_next_queued_task; assumption.
Qed.

Ltac w_of_wl HW := apply (WL_W []); apply WL_of_W in HW.

Lemma G_sync_return_exec : forall c w s, GC c w s -> G (sync_return_exec c w s).
Proof.
  intros c w s [HC [HW HXS]]. split; [apply (H_sync_return_exec c w); exact HC|].
  split; [w_of_wl HW; apply WL_sync_return_exec; exact HW|unfold sync_return_exec, finish_sync; xs_go1].
Qed.
Lemma G_sync_return_idle : forall c w s, GC c w s -> G (sync_return_idle c w s).
Proof.
  intros c w s [HC [HW HXS]]. split; [apply (H_sync_return_idle c w); exact HC|].
  split; [w_of_wl HW; apply WL_sync_return_idle; exact HW|unfold sync_return_idle, finish_sync; xs_go1].
Qed.
Lemma G_sync_return_err : forall c w code s, GC c w s -> G (sync_return_err c w code s).
Proof.
  intros c w code s [HC [HW HXS]]. split; [apply (H_sync_return_err c w); exact HC|].
  split; [w_of_wl HW; apply WL_sync_return_err; exact HW|unfold sync_return_err, finish_sync; xs_go1].
Qed.

Lemma G_sync_loop : forall c w s, GC c w s -> G (sync_loop c w s).
Proof.
  intros c w s H. split; [apply H_sync_loop; exact (proj1 H)|].
  split; [destruct H as [_ [HW _]]; w_of_wl HW; apply WL_sync_loop; exact HW|].
  unfold sync_loop. destruct (is_drained s w); [destruct H as [_ [_ HXS]]; xs_go1|].
  pose proof (GC_assign_next c w s H) as H1.
  rewrite (surjective_pairing (assign_next_queued_task w s)). destruct (snd (assign_next_queued_task w s)).
  - exact (G_XS _ (G_sync_return_exec c w _ H1)).
  - destruct H as [_ [_ HXS]]. xs_go1.
Qed.

Lemma G_get_next_task : forall c w b pr s, GC c w s -> G (get_next_task c w b pr s).
Proof.
  intros c w b pr s H. unfold get_next_task.
  destruct pr; [apply G_sync_return_idle; exact H|]. cbv zeta.
  destruct (is_drained s w).
  - cbn [negb]. destruct (negb b); [apply G_sync_return_idle; exact H|apply G_sync_loop; exact H].
  - rewrite (surjective_pairing (assign_next_queued_task w s)). destruct (snd (assign_next_queued_task w s)).
    + apply G_sync_return_exec. apply GC_assign_next. exact H.
    + destruct (negb b); [apply G_sync_return_idle; exact H|apply G_sync_loop; exact H].
Qed.

Lemma G_get_current_or_next : forall c w b pr s, GC c w s -> G (get_current_or_next c w b pr s).
Proof.
  intros c w b pr s H. unfold get_current_or_next.
  destruct (k_task (get_worker s w)) as [t|] eqn:Ek; [|apply G_get_next_task; exact H].
  pose proof (W_pick_worker _ _ _ (proj1 (proj2 H)) Ek) as Ht.
  destruct (Nat.ltb _ _).
  - apply G_sync_return_exec. destruct H as [HC [HW HXS]]. split; [ctx_go|]. split; [|xs_go1].
    apply (W_of_WL_step t s _ HW Ht). intro HWL. w_go2.
  - apply G_get_next_task. apply GC_complete_task; assumption.
Qed.

(* ---- registering queues and workers ---------------------------------------------------------------------------------- *)
Lemma XS_add_pq : forall ext k l m b s, XS ext s -> XS ext (add_pq k l m b s).
Proof. intros. unfold add_pq. t_XS. Qed.

Lemma XS_add_scq : forall ext k b s,
  scq_exists s k = false -> (exists p, In p (s_pqs s) /\ p_key p = sk_pk k) -> XS ext s -> XS ext (add_scq k b s).
Proof.
  intros ext k b s Hne Hp [A [B [C [N [T D]]]]]. split; [apply St_add_scq; assumption|]. unfold add_scq. cbv zeta.
  set (s1 := upd_pq _ _ s).
  split; [eapply ON_frame; [ | |exact B]; reflexivity|].
  split; [apply NPh_newscq; eapply NPh_frame; [|exact C]; reflexivity|].
  split; [eapply XN_frame; [|exact N]; reflexivity|]. split; [eapply OT_frame; [ | |exact T]; reflexivity|].
  apply X_newscq. eapply X_frame; [ | | | |exact D]; reflexivity.
Qed.

Lemma worker_exists_newworker_inv : forall s w v w',
  worker_exists (upd_scq (w_sk w) (fun q => q <| q_workers ::= fun l => l ++ [(w, v)] |>) s) w' = true ->
  w' = w \/ worker_exists s w' = true.
Proof.
  intros s w v w' H. unfold worker_exists in *. rewrite get_scq_upd_scq in H.
  destruct (skey_eqb (w_sk w') (w_sk w) && scq_exists s (w_sk w)) eqn:E; [|right; exact H].
  apply andb_true_iff in E. destruct E as [E _]. apply skey_eqb_eq in E. cbn in H. rewrite (aget_app wref_eqb) in H. rewrite <- E in H.
  destruct (aget wref_eqb w' (q_workers (get_scq s (w_sk w')))); [right; reflexivity|]. cbn in H.
  destruct (wref_eqb w' w) eqn:Ew; [left; apply wref_eqb_eq; exact Ew|discriminate].
Qed.

Lemma XS_newworker : forall ext s w n,
  worker_exists s w = false -> is_phantom w = false -> XS ext s ->
  XS ext (upd_scq (w_sk w) (fun q => q <| q_workers ::= fun l => l ++ [(w, mkWorker None None false (Some []) false (repeat 0 n))] |>) s).
Proof.
  intros ext s w n Hne Hp [A [B [C [N [T D]]]]]. split; [apply St_newworker; assumption|].
  split; [eapply ON_frame; [ | |exact B]; rewrite upd_scq_eq; reflexivity|].
  split; [|split; [eapply XN_frame; [|exact N]; rewrite upd_scq_eq; reflexivity|split; [eapply OT_frame; [ | |exact T]; rewrite upd_scq_eq; reflexivity|apply X_newworker; assumption]]].
  intros w' He. apply worker_exists_newworker_inv in He. destruct He as [->|He]; [exact Hp|apply C; exact He].
Qed.

Lemma G_ret : forall c code s, G s -> G (ret c code s).
Proof.
  intros c code s [HSW [HW HXS]]. split; [unfold ret; apply SW_setcall_plain; [reflexivity|sw_go2]|].
  split; [w_of_wl HW; apply WL_ret; exact HW|unfold ret; xs_go1].
Qed.

Lemma G_sync_start : forall c a s, is_phantom (y_worker a) = false -> G s -> G (sync_start c a s).
Proof.
  intros c a s Hph H. unfold sync_start. cbv zeta. set (w := y_worker a) in *. set (k := w_sk w).
  match goal with |- G (match ?R with _ => _ end) => destruct R as [s1|code1] eqn:ER end; [|apply G_ret; exact H].
  assert (H1 : G s1 /\ scq_exists s1 k = true /\ q_cleanup (get_scq s1 k) = None).
  { destruct (scq_exists s k) eqn:Ee.
    - injection ER as <-. split; [g_prim H|]. split; [rewrite scq_exists_upd_scq; exact Ee|].
      rewrite get_scq_upd_scq, skey_eqb_refl, Ee. reflexivity.
    - destruct H as [HSW [HW HXS]]. destruct (get_pq s (sk_pk k)) as [p|] eqn:Ep.
      + sum_cases ER. injection ER as <-. apply get_pq_some_in in Ep. destruct Ep as [Ep1 Ep2].
        split; [|split; [rewrite scq_exists_add_scq, skey_eqb_refl; apply orb_true_r|rewrite get_scq_add_scq_new by exact Ee; reflexivity]].
        split; [apply SW_add_scq; [exact Ee|exists p; auto|exact HSW]|].
        split; [w_of_wl HW; unfold add_scq; w_go2|apply XS_add_scq; [exact Ee|exists p; auto|exact HXS]].
      + injection ER as <-.
        assert (Hp : SW (add_pq (sk_pk k) [] 0 0 s)) by (unfold add_pq; destruct HSW as [HS HWP]; split; [t_St|eapply WP_frame; [ | | |exact HWP]; reflexivity]).
        assert (Hpq : exists p, In p (s_pqs (add_pq (sk_pk k) [] 0 0 s)) /\ p_key p = sk_pk k).
        { unfold add_pq. cbn. eexists. split; [apply in_or_app; right; left; reflexivity|reflexivity]. }
        split; [|split; [rewrite scq_exists_add_scq, skey_eqb_refl; apply orb_true_r|rewrite get_scq_add_scq_new by exact Ee; reflexivity]].
        split; [apply SW_add_scq; [exact Ee|exact Hpq|exact Hp]|].
        split; [w_of_wl HW; unfold add_scq, add_pq; w_go2|apply XS_add_scq; [exact Ee|exact Hpq|apply XS_add_pq; exact HXS]]. }
  clear ER H. destruct H1 as [H [Hse Hqc]]. revert H Hse Hqc. generalize s1. clear s. intros s H Hse Hqc.
  match goal with |- G (match ?R with _ => _ end) => destruct R as [s2|code2] eqn:ER end; [|apply G_ret; exact H].
  assert (H2 : GC c w s2).
  { destruct H as [HSW [HW HXS]]. destruct (worker_exists s w) eqn:Ee.
    - destruct (k_cleanup (get_worker s w)) eqn:Ec; [|discriminate]. injection ER as <-.
      pose proof (SW_WP _ HSW) as [A2 [_ [B1 _]]].
      split; [|split; [w_of_wl HW; w_go2|xs_go1]].
      unfold Ctx. split; [sw_go2|]. split; [rewrite worker_exists_upd_worker; exact Ee|].
      rewrite get_worker_upd_worker, wref_eqb_refl, Ee. cbn. split; [reflexivity|]. split; [apply B1; congruence|].
      intros c' p Hc Hs. exfalso. rewrite calls_upd_worker in Hc. destruct (A2 _ _ _ Hc Hs) as [_ E]. congruence.
    - injection ER as <-. pose proof (SW_WP _ HSW) as [A2 _].
      set (s2 := upd_scq k _ s).
      assert (Hs2 : SW s2).
      { destruct HSW as [HS HWP]. split; [apply St_newworker; assumption|apply WP_newworker; assumption]. }
      assert (HX2 : XS [] s2) by (apply XS_newworker; assumption).
      assert (HW2 : W s2) by (w_of_wl HW; unfold s2; w_go2).
      assert (Hex2 : worker_exists s2 w = true) by (apply worker_exists_newworker; exact Hse).
      assert (Hg2 : get_worker s2 w = mkWorker None None false (Some []) false (repeat 0 (List.length (limits_of s k)))).
      { apply get_worker_newworker_aux; assumption. }
      clear HXS HW. split; [|split; [w_of_wl HW2; w_go2|clearbody s2; xs_go1]].
      unfold Ctx. split; [sw_go2|]. split; [rewrite (worker_exists_frame s2) by apply scqs_upd_inv; exact Hex2|].
      rewrite (get_worker_frame' s2) by apply scqs_upd_inv. rewrite Hg2. cbn. split; [reflexivity|]. split; [reflexivity|].
      intros c' p Hc Hs. exfalso. rewrite calls_upd_inv in Hc. unfold s2 in Hc. rewrite calls_upd_scq in Hc.
      destruct (A2 _ _ _ Hc Hs) as [E _]. congruence. }
  clear ER H Hse Hqc. revert H2. generalize s2. clear s. intros s H. unfold k, w in *. clear k w.
  destruct (y_state a) as [|d|d r|].
  - apply G_get_current_or_next. exact H.
  - destruct (running_correct s (y_worker a) d); [|apply G_get_current_or_next; exact H].
    destruct H as [HC [HW HXS]]. split; [apply (H_sync_none c (y_worker a)); exact HC|].
    split; [w_of_wl HW; unfold finish_sync; w_go2|unfold finish_sync; xs_go1].
  - destruct (running_correct s (y_worker a) d); [|apply G_get_current_or_next; exact H].
    destruct (k_task (get_worker s (y_worker a))) as [t|] eqn:Ek; [|exact (GC_G _ _ _ H)].
    apply G_get_next_task. apply GC_complete_task; [|exact H]. exact (W_pick_worker _ _ _ (proj1 (proj2 H)) Ek).
  - apply G_sync_return_err. exact H.
Qed.

(* ---- Execute ------------------------------------------------------------------------------------------------------------ *)
Lemma XS_wait_execution_begin : forall ext c o s, XS ext s -> XS ext (wait_execution_begin c o s).
Proof. intros. unfold wait_execution_begin, stream_iter. xs_go1. Qed.

Lemma XS_exec_new : forall c a p s,
  G s ->
  let s1 := emit (OGhost GSelect) s in
  XS [] (let '(idx, dur, timeout, l) := x_sel a in
      let k := mkSK (p_key p) (nth idx (p_scs p) 0%N) in
      let t := s_ntasks s1 in
      let s := s1 <| s_ntasks ::= S |>
                 <| s_tasks ::= fun ts => ts ++ [(t, mkTask [] (x_instance a) (x_digest a) (Some (x_dnc a)) timeout (s_now s1)
                                                        (drop_prefix (pk_prefix (p_key p)) (x_instance a))
                                                        None 0 dur (Some l) None 0)] |> in
      let s := if x_dnc a then s else s <| s_inflight ::= aset dkey_eqb (x_instance a, x_digest a) t |> in
      let s := get_or_create_invocation k (x_keys a) s in
      let '(s, o) := new_operation t (x_prio a) (mkI k (x_keys a)) false s in
      wait_execution_begin c o (schedule t s)).
Proof.
  intros c a p s H s1. destruct (x_sel a) as [[[idx dur] timeout] l]. cbv zeta.
  assert (H1 : G s1) by (unfold s1; g_prim H). clearbody s1. clear H.
  set (t := s_ntasks s1).
  set (x := mkTask [] (x_instance a) (x_digest a) (Some (x_dnc a)) timeout (s_now s1) (drop_prefix (pk_prefix (p_key p)) (x_instance a)) None 0 dur (Some l) None 0).
  set (s2 := s1 <| s_ntasks ::= S |> <| s_tasks ::= fun ts => ts ++ [(t, x)] |>).
  assert (H2 : SW s2 /\ XS [t] s2 /\ Lc t None None true s2).
  { destruct H1 as [HSW [HW HXS]]. split; [unfold s2; sw_go2|]. split; [apply XS_newtask; [reflexivity|exact HXS]|apply Lc_fresh; try reflexivity; exact HW]. }
  clearbody s2. clear H1.
  set (s3 := if x_dnc a then s2 else s2 <| s_inflight ::= aset dkey_eqb (x_instance a, x_digest a) t |>).
  assert (H3 : SW s3 /\ XS [t] s3 /\ Lc t None None true s3).
  { destruct H2 as [HSW [HXS HLc]]. unfold s3. destruct (x_dnc a); [auto|]. split; [sw_go2|]. split; [xs_go1|lc_go1]. }
  clearbody s3. clear H2.
  set (s4 := get_or_create_invocation (mkSK (p_key p) (nth idx (p_scs p) 0%N)) (x_keys a) s3).
  assert (H4 : SW s4 /\ XS [t] s4 /\ Lc t None None true s4).
  { destruct H3 as [HSW [HXS HLc]]. unfold s4. split; [sw_go2|]. split; [xs_go1|lc_go1]. }
  clearbody s4. clear H3. destruct H4 as [HSW [HXS HLc]].
  unfold new_operation. cbv iota beta.
  match goal with |- XS [] (wait_execution_begin c ?o (schedule t ?e)) => set (s5 := e); generalize o; intro o5 end.
  assert (H5 : SW s5 /\ XS [t] s5 /\ Lc t None None true s5).
  { split; [unfold s5; sw_go2|]. split.
    - apply (XS_new_operation [t] t (x_prio a) _ false s4 (or_introl eq_refl) (LcN _ _ _ _ _ HLc)); [|exact HXS].
      intros j o Hin. destruct (LcO2 _ _ _ _ _ HLc j o Hin) as [Ha _]. exact Ha.
    - exact (Lc_new_operation_own [t] t None None true (x_prio a) _ false s4 HXS HLc). }
  clearbody s5. clear HSW HXS HLc. destruct H5 as [HSW [HXS HLc]].
  apply XS_wait_execution_begin. apply XS_schedule_clean; [apply SW_Parked; exact HSW|exact HXS|exact HLc].
Qed.

Lemma XS_exec_start : forall c a s, G s -> XS [] (exec_start c a s).
Proof.
  intros c a s H. unfold exec_start.
  destruct (aget dkey_eqb (x_instance a, x_digest a) (s_inflight s)) as [t0|] eqn:Ei.
  - (* a task for this action is in flight: attach to it *)
    pose proof (W_pick_inflight s _ t0 (G_W _ H) Ei) as Hlt. cbv zeta.
    set (s1 := emit (OGhost GSelAbandoned) s).
    set (k := task_scq s1 t0).
    set (s2 := get_or_create_invocation k (x_keys a) s1).
    assert (H2 : XS [] s2 /\ (t0 < s_ntasks s2)%nat).
    { destruct H as [HSW [HW HXS]]. split; [unfold s2, s1; xs_go1|]. unfold s2. destruct (get_or_create_invocation_tasks k (x_keys a) s1) as [_ [_ E]]. rewrite E. exact Hlt. }
    clearbody s2. clear H Hlt. destruct H2 as [HXS Hlt].
    destruct (aget iref_eqb (mkI k (x_keys a)) (t_ops (get_task s2 t0))) as [o|]; [apply XS_wait_execution_begin; exact HXS|].
    pose proof (XS_St _ _ HXS) as [_ [_ [Hnd _]]]. pose proof (XS_X _ _ HXS) as HX.
    pose proof (Lc_intro [] t0 s2 Hnd (fun H => H) Hlt HX) as HL.
    assert (Hd1 : forall w, t_worker (get_task s2 t0) = Some w -> is_phantom w = false /\ t_resp (get_task s2 t0) = None).
    { intros w Ew. destruct (XA _ _ HX t0 w (fun H => H) Ew) as [P1 [_ [_ P4]]]. auto. }
    assert (Hnq : forall j, ~ In (s_nops s2) (v_qops (get_inv s2 j))).
    { intros j Hin. destruct (XQ _ _ HX _ _ Hin) as [E _]. rewrite (ON_fresh s2 (XS_ON _ _ HXS)) in E. discriminate. }
    apply (XS_weaken [] t0) in HXS.
    assert (Hmain : forall wo ro uq, Lc t0 wo ro uq s2 ->
              (forall w, wo = Some w -> is_phantom w = false /\ ro = None) ->
              uq = match wo, ro with None, None => false | _, _ => true end ->
              XS [] (let '(s0, o) := new_operation t0 (x_prio a) (mkI k (x_keys a)) false s2 in
                     wait_execution_begin c o
                       match task_stage (get_task s0 t0) with
                       | 2%N => enqueue o s0
                       | 3%N => match t_worker (get_task s0 t0) with Some w => increment_executing (mkI k (x_keys a)) w s0 | None => s0 end
                       | _ => panic "Task in unexpected stage" s0
                       end)).
    { intros wo ro uq HL' Hd1' Euq. clear HL Hd1.
      unfold new_operation. cbv iota beta.
      match goal with |- XS [] (wait_execution_begin c ?o (match task_stage (get_task ?e t0) with _ => _ end)) => set (s3 := e) end.
      assert (H3 : XS [t0] s3 /\ Lc t0 wo ro uq s3).
      { split.
        - apply (XS_new_operation [t0] t0 (x_prio a) _ false s2 (or_introl eq_refl) Hlt); [|exact HXS].
          intros j o Hin. destruct (LcO2 _ _ _ _ _ HL' j o Hin) as [Ha _]. exact Ha.
        - exact (Lc_new_operation_own [t0] t0 wo ro uq (x_prio a) _ false s2 HXS HL'). }
      assert (Ho : op_alive s3 (s_nops s2) = true /\ tsk s3 (s_nops s2) = t0 /\ o_inv (get_op s3 (s_nops s2)) = mkI k (x_keys a)
                   /\ forall j, v_qops (get_inv s3 j) = v_qops (get_inv s2 j)).
      { pose proof (ON_fresh s2 (XS_ON _ _ HXS)) as Hfr.
        assert (Eg : get_op s3 (s_nops s2) = mkOper t0 (x_prio a) (mkI k (x_keys a)) 0 false None).
        { unfold s3. rewrite (get_op_frame (s2 <| s_nops ::= S |> <| s_ops ::= fun l => l ++ [(s_nops s2, mkOper t0 (x_prio a) (mkI k (x_keys a)) 0 false None)] |>)) by reflexivity.
          rewrite get_op_newop, Nat.eqb_refl. unfold op_alive in Hfr. destruct (aget Nat.eqb (s_nops s2) (s_ops s2)); [discriminate|reflexivity]. }
        split; [|unfold tsk; rewrite Eg; auto].
        unfold s3. rewrite (op_alive_frame (s2 <| s_nops ::= S |> <| s_ops ::= fun l => l ++ [(s_nops s2, mkOper t0 (x_prio a) (mkI k (x_keys a)) 0 false None)] |>)) by reflexivity.
        rewrite op_alive_newop, Nat.eqb_refl. apply orb_true_r. }
      clearbody s3. destruct H3 as [HXS3 HL3]. destruct Ho as [Ha3 [Ht3 [Hi3 Hq3]]]. clear HXS HL'.
      apply XS_wait_execution_begin.
      rewrite (LcW _ _ _ _ _ HL3). unfold task_stage. rewrite (LcR _ _ _ _ _ HL3), (LcW _ _ _ _ _ HL3).
      destruct ro as [r0|].
      { assert (Ewo : wo = None) by (destruct wo as [w|]; [destruct (Hd1' w eq_refl); discriminate|reflexivity]).
        subst wo. cbv iota in *.
        assert (HXp : XS [t0] (panic "Task in unexpected stage" s3)) by xs_go1.
        destruct HXp as [A' [B' [C' [N' [T' D']]]]]. repeat (split; [assumption|]).
        eapply (Lc_drop [] t0 None (Some r0) uq); [intros w Ew; discriminate|left; exact Euq| |exact D']. t_Lc. }
      destruct wo as [w|]; cbv iota in *.
      + assert (HXi : XS [t0] (increment_executing (mkI k (x_keys a)) w s3)) by (apply XS_increment_executing; exact HXS3).
        destruct HXi as [A' [B' [C' [N' [T' D']]]]]. repeat (split; [assumption|]).
        eapply (Lc_drop [] t0 (Some w) None uq); [exact Hd1'|left; exact Euq| |exact D'].
        apply Lc_increment_executing. exact HL3.
      + assert (HXe : XS [t0] (enqueue (s_nops s2) s3)).
        { apply XS_enqueue; [exact Ha3|rewrite Ht3; left; reflexivity| |exact HXS3]. rewrite Hq3. apply Hnq. }
        destruct HXe as [A' [B' [C' [N' [T' D']]]]]. repeat (split; [assumption|]).
        eapply (Lc_drop [] t0 None None uq); [intros w' Ew'; discriminate|right; auto| |exact D'].
        subst uq. unfold enqueue. cbv zeta. lc_go1. }
    exact (Hmain _ _ _ HL Hd1 eq_refl).
  - destruct (longest_prefix_pq s (x_plat a) (x_instance a)) as [p|]; [exact (XS_exec_new c a p s H)|].
    destruct H as [HSW [HW HXS]]. unfold ret. xs_go1.
Qed.

(* ---- events -------------------------------------------------------------------------------------------------------------- *)
Definition ev_ok (e : event) : Prop :=
  match e with EStartSync _ a _ => is_phantom (y_worker a) = false | _ => True end.

Lemma XS_register_fold : forall k scs s,
  sorted_strict scs = true -> XS [] s -> (exists p, In p (s_pqs s) /\ p_key p = k) ->
  (forall sc, In sc scs -> scq_exists s (mkSK k sc) = false) ->
  XS [] (fold_left (fun s sc => add_scq (mkSK k sc) false s) scs s).
Proof.
  intros k scs s Hs [A [B [C [N [T D]]]]] Hp Hn. split; [apply St_register_fold; assumption|].
  assert (H : ON s /\ NPh s /\ XN s /\ OT s /\ X [] s) by auto. clear A B C N T D Hp Hn Hs.
  revert s H. induction scs as [|sc scs IH]; intros s H; cbn [fold_left]; [exact H|]. apply IH.
  destruct H as [B [C [N [T D]]]]. unfold add_scq. cbv zeta.
  split; [eapply ON_frame; [ | |exact B]; reflexivity|].
  split; [apply NPh_newscq; eapply NPh_frame; [|exact C]; reflexivity|].
  split; [eapply XN_frame; [|exact N]; reflexivity|]. split; [eapply OT_frame; [ | |exact T]; reflexivity|].
  apply X_newscq. eapply X_frame; [ | | | |exact D]; reflexivity.
Qed.

Ltac xs_leaf2 :=
  first [ xs_leaf1
        | lazymatch goal with
          | |- XS _ (wait_execution_begin _ _ _) => apply XS_wait_execution_begin
          end ].
Ltac xs_go2 := inv_go xs_leaf2 t_XS.

Lemma XS_terminate_fold : forall p l s waits,
  XS [] s -> XS [] (fst (fold_left (fun (acc : state * list (nat * nat)) w =>
        let '(s, waits) := acc in
        if matches w p then
          let s := mark_terminating w s in
          match k_task (get_worker s w) with
          | Some tk => (s, waits ++ [(tk, t_gen (get_task s tk))])
          | None => (if k_wait (get_worker s w) then wake_up w s else s, waits)
          end
        else (s, waits)) l (s, waits))).
Proof.
  intros p l s waits H.
  match goal with |- XS [] (fst (fold_left ?g ?l ?a)) => apply (fold_left_pres (fun acc => XS [] (fst acc)) g l) end;
    [|exact H].
  intros [s1 w1] w H1. cbn [fst] in *. unfold mark_terminating, wake_up. xs_go2.
Qed.

Lemma XS_step_core : forall e s, ev_ok e -> G s -> XS [] (step_core e s).
Proof.
  intros e s Hev H. destruct e; unfold step_core.
  - apply XS_exec_start. apply G_enter. exact H.
  - apply (G_enter t) in H. set (s1 := enter t s) in *. clearbody s1. destruct H as [_ [_ HXS]]. unfold ret. xs_go2.
  - apply G_XS. apply G_sync_start; [exact Hev|apply G_enter; exact H].
  - apply (G_enter t) in H. set (s1 := enter t s) in *. clearbody s1. destruct H as [_ [_ HXS]]. unfold kill_lookup, ret. xs_go2.
  - apply (G_enter t) in H. set (s1 := enter t s) in *. clearbody s1. cbv zeta.
    destruct (negb (scq_exists s1 k)); [apply G_XS; apply G_ret; exact H|].
    destruct (negb _); apply G_XS; apply G_ret; [exact H|apply G_cancel_all_queued; exact H].
  - apply (G_enter t) in H. set (s1 := enter t s) in *. clearbody s1. destruct H as [_ [_ HXS]]. unfold ret, wake_up. xs_go2.
  - apply (G_enter t) in H. set (s1 := enter t s) in *. clearbody s1. destruct H as [_ [_ HXS]]. unfold ret. xs_go2.
  - cbv zeta. match goal with |- XS [] (match ?x with _ => _ end) => rewrite (surjective_pairing x) end.
    cbv beta iota. apply (G_enter t) in H.
    match goal with |- XS [] (set_call _ _ (fst ?e)) => assert (H2 : XS [] (fst e)) by (apply XS_terminate_fold; exact (G_XS _ H)); set (s2 := fst e) in * end.
    clearbody s2. xs_go2.
  - (* Register *)
    destruct (_ || _) eqn:Ev; [destruct H as [_ [_ HXS]]; unfold ret; xs_go2|]. cbv zeta.
    apply (G_enter t) in H. set (s1 := enter t s) in *. clearbody s1.
    destruct (get_pq s1 k) as [p|] eqn:Ep; [destruct H as [_ [_ HXS]]; unfold ret; xs_go2|].
    unfold ret.
    match goal with |- XS [] (set_call _ _ (emit _ ?S2)) => assert (H2 : XS [] S2); [|set (s2 := S2) in *; clearbody s2; xs_go2] end.
    apply orb_false_iff in Ev. destruct Ev as [Ev _]. apply orb_false_iff in Ev. destruct Ev as [_ Ev].
    apply negb_false_iff in Ev.
    apply XS_register_fold; [exact Ev|apply XS_add_pq; exact (G_XS _ H)| |].
    + unfold add_pq. cbn. eexists. split; [apply in_or_app; right; left; reflexivity|reflexivity].
    + intros sc Hsc. rewrite (scq_exists_frame s1) by reflexivity.
      destruct (scq_exists s1 (mkSK k sc)) eqn:Ee; [|reflexivity]. exfalso.
      destruct H as [[[_ [_ [_ [_ H4]]]] _] _]. destruct (H4 _ Ee) as [p [Hp [Hk _]]]. cbn in Hk.
      unfold get_pq in Ep. apply (find_none _ _ Ep) in Hp. rewrite (proj2 (pkey_eqb_eq _ _) Hk) in Hp. discriminate.
  - apply (G_enter t) in H. apply G_XS. apply G_ret. exact H.
  - (* EEnter *)
    cbv zeta. destruct (negb (at_gate s (get_call s c))) eqn:Eg; [exact (G_XS _ H)|]. apply negb_false_iff in Eg.
    pose proof (G_enter t s H) as He.
    rewrite get_call_aget in *. destruct (aget Nat.eqb c (s_calls s)) as [p|] eqn:Ep; [|exact (G_XS _ He)].
    assert (Hpe : aget Nat.eqb c (s_calls (enter t s)) = Some p) by (rewrite calls_enter; exact Ep).
    destruct p; try exact (G_XS _ He);
      try (set (s1 := enter t s) in *; clearbody s1; destruct He as [_ [_ HXS]]; unfold stream_iter, stream_return, kill_lookup, ret; xs_go2; fail).
    + (* PSyncDrained *)
      apply G_XS. apply G_sync_loop. split; [|exact (proj2 He)].
      eapply Ctx_of_named; [exact (G_SW _ He)|exact Hpe|reflexivity|].
      destruct (G_SW _ He) as [_ [_ [_ [_ [_ [B3 _]]]]]]. eapply B3; [exact Hpe|reflexivity].
    + (* PSyncQueued *)
      cbn [at_gate] in Eg. apply negb_true_iff in Eg.
      assert (Hc : GC c w (enter t s)).
      { split; [|exact (proj2 He)]. eapply Ctx_of_named; [exact (G_SW _ He)|exact Hpe|reflexivity|]. apply SWK_enter; [exact (G_SW _ H)|exact Eg]. }
      apply G_XS. destruct (k_task (get_worker (enter t s) w)); [apply G_sync_return_exec|apply G_sync_loop]; exact Hc.
    + (* PKillRecheck *)
      set (s1 := enter t s) in *. clearbody s1.
      match goal with |- XS [] (if op_alive s1 ?n then _ else _) => destruct (op_alive s1 n) eqn:Ea end; [|destruct He as [_ [_ HXS]]; xs_go2].
      apply G_XS. apply G_ret. apply G_complete_task; [|exact He]. exact (W_pick_op _ _ (G_W _ He) Ea).
  - (* ETimer *)
    cbv zeta. destruct (at_gate s (get_call s c)) eqn:Eg; [exact (G_XS _ H)|].
    pose proof (G_enter t s H) as He.
    rewrite get_call_aget in *. destruct (aget Nat.eqb c (s_calls s)) as [p|] eqn:Ep; [|exact (G_XS _ H)].
    assert (Hpe : aget Nat.eqb c (s_calls (enter t s)) = Some p) by (rewrite calls_enter; exact Ep).
    destruct p; try exact (G_XS _ H);
      try (set (s1 := enter t s) in *; clearbody s1; destruct He as [_ [_ HXS]]; unfold stream_iter; xs_go2; fail).
  - (* ECancel *)
    cbv zeta. destruct (at_gate s (get_call s c)) eqn:Eg; [exact (G_XS _ H)|].
    destruct H as [_ [_ HXS]]. destruct (get_call s c); unfold ret; xs_go2.
Qed.

Lemma G_step_core : forall e s, ev_ok e -> G s -> G (step_core e s).
Proof.
  intros e s Hev H. split; [apply SW_step_core; exact (G_SW _ H)|].
  split; [apply (WL_W []); apply WL_step_core; apply WL_of_W; exact (G_W _ H)|apply XS_step_core; assumption].
Qed.

Lemma G_eq : forall s s',
  s_tasks s' = s_tasks s -> s_ntasks s' = s_ntasks s -> s_ops s' = s_ops s -> s_nops s' = s_nops s -> s_inflight s' = s_inflight s ->
  s_scqs s' = s_scqs s -> s_invs s' = s_invs s -> s_pqs s' = s_pqs s -> s_calls s' = s_calls s -> G s -> G s'.
Proof.
  intros s s' E1 E2 E3 E4 E5 E6 E7 E8 E9 [HSW [HW [A [B [C [N [T D]]]]]]].
  split; [eapply SW_eq; eassumption|]. split; [apply (WL_W []); eapply WL_frame; [ | | | | | | |apply WL_of_W; exact HW]; assumption|].
  split; [eapply St_frame; eassumption|]. split; [eapply ON_frame; eassumption|]. split; [eapply NPh_frame; eassumption|].
  split; [eapply XN_frame; eassumption|]. split; [eapply OT_frame; eassumption|eapply X_frame; eassumption].
Qed.

Lemma G_step : forall s eh, ev_ok (fst eh) -> G s -> G (fst (step s eh)).
Proof.
  intros s eh Hev H. unfold step. cbn [fst].
  set (s0 := s <| s_hints := snd eh |> <| s_out := [] |>).
  assert (H0 : G s0) by (eapply G_eq; [..|exact H]; reflexivity).
  assert (H1 : G (auto_returns (step_core (fst eh) s0))).
  { apply (fr_auto_returns G); [intros; apply G_ret; assumption|]. apply G_step_core; assumption. }
  eapply G_eq; [..|exact H1]; reflexivity.
Qed.

Lemma XS_init : forall cfg t0, XS [] (init cfg t0).
Proof.
  intros cfg t0. split; [apply St_init|]. unfold init.
  split; [split; [constructor|intros o []]|]. split; [intros w Hw; discriminate Hw|]. split; [intros t; constructor|].
  split; [intros o x []|].
  constructor; unfold get_task, get_worker, worker_exists, get_scq, get_inv, op_alive, queued, idle_live, tsk, get_op; cbn;
    intros; try discriminate; try contradiction; try constructor; auto.
Qed.

Lemma G_init : forall cfg t0, G (init cfg t0).
Proof. intros. split; [apply SW_init|]. split; [apply W_init|apply XS_init]. Qed.

Definition evs_ok (evs : list (event * list (nat * wref))) : Prop := forall eh, In eh evs -> ev_ok (fst eh).

Lemma G_run_from : forall evs s, evs_ok evs -> G s -> G (fst (run s evs)).
Proof.
  induction evs as [|eh evs IH]; intros s Hok H; [exact H|]. cbn [run].
  pose proof (G_step s eh (Hok eh (or_introl eq_refl)) H) as H1.
  destruct (step s eh) as [s1 o]. cbn [fst] in H1.
  specialize (IH s1 (fun e He => Hok e (or_intror He)) H1). destruct (run s1 evs) as [s2 os]. exact IH.
Qed.

Lemma G_run : forall cfg t0 evs, evs_ok evs -> G (fst (run (init cfg t0) evs)).
Proof. intros. apply G_run_from; [assumption|apply G_init]. Qed.
