(* C02 — the property theorems about the scheduler model, and nothing else.

   [run (init cfg t0) evs] is the model run over an arbitrary list of events
   (one event = one critical section of one RPC goroutine, plus hints that
   only select among admissible tie-breaks); its second component lists the
   observations of every event.  [call_trace c] keeps the observations tagged
   with call id c (stream messages OMsg, returns ORet, Synchronize responses
   OSync).  [fresh_calls [] evs]: every event that starts an RPC uses a call
   id no earlier event started (the harness numbers calls consecutively).
   [kind_of evs c]: c was started by Execute or WaitExecution.
   nonfinal c o :  o = OMsg c _ st None with st <> COMPLETED
   final c o    :  o = OMsg c _ COMPLETED (Some r)          (the done message)
   is_end c o   :  o = ORet c code  or  o = OSync c _ _ *)
From VF Require Import Sched.Proofs.
Open Scope Z_scope.

(* Overall shape of what one call observes over a whole run: non-final
   messages, then one of: nothing yet | the done message | (not a stream) its
   single response | (stream) an error return | (stream) done then return. *)
Theorem call_trace_shape : forall cfg t0 evs c,
  fresh_calls [] evs ->
  exists msgs suf, call_trace c (snd (run (init cfg t0) evs)) = msgs ++ suf /\
    Forall (nonfinal c) msgs /\
    (suf = [] \/
     (exists d, suf = [d] /\ final c d) \/
     (kind_of evs c = false /\ exists o, suf = [o] /\ is_end c o) \/
     (kind_of evs c = true /\ exists code, suf = [ORet c code] /\ code <> cOK) \/
     (kind_of evs c = true /\ exists d code, suf = [d; ORet c code] /\ final c d)).
Proof. exact call_trace_shape. Qed.
Print Assumptions call_trace_shape.

(* stream_done_once: at most one done message per stream; everything before it
   is a non-final message and the only thing that may follow is the return. *)
Theorem stream_done_once : forall cfg t0 evs c,
  fresh_calls [] evs ->
  forall pre d post, call_trace c (snd (run (init cfg t0) evs)) = pre ++ d :: post -> final c d ->
    Forall (nonfinal c) pre /\ (post = [] \/ exists code, post = [ORet c code]).
Proof. exact stream_done_once_all. Qed.
Print Assumptions stream_done_once.

(* nothing_after_done / nothing after the return: once a call returned (or a
   Synchronize call got its response) it observes nothing more. *)
Theorem nothing_after_end : forall cfg t0 evs c,
  fresh_calls [] evs ->
  forall pre o post, call_trace c (snd (run (init cfg t0) evs)) = pre ++ o :: post -> is_end c o -> post = [].
Proof. exact nothing_after_end_all. Qed.
Print Assumptions nothing_after_end.

(* return_follows_done: an Execute / WaitExecution stream returns OK only
   immediately after its done message. *)
Theorem return_follows_done : forall cfg t0 evs c,
  fresh_calls [] evs -> kind_of evs c = true ->
  forall pre post, call_trace c (snd (run (init cfg t0) evs)) = pre ++ ORet c cOK :: post ->
    exists pre' d, pre = pre' ++ [d] /\ final c d.
Proof. exact return_follows_done_all. Qed.
Print Assumptions return_follows_done.

(* done_faithful: every message of every event (in particular the done
   message) carries the recorded response and the stage of the operation's
   task in the state the event leaves behind. *)
Theorem done_faithful : forall s eh c o st d,
  In (OMsg c o st d) (snd (step s eh)) ->
  let s' := fst (step s eh) in
  d = t_resp (get_task s' (o_task (get_op s' o))) /\ st = task_stage (get_task s' (o_task (get_op s' o))).
Proof. exact step_done_faithful. Qed.
Print Assumptions done_faithful.

(* done_enabled (liveness as enabledness + progress; what remains is that the
   Go runtime runs the woken goroutine): in every reachable state, a stream
   parked on an operation whose task is completed is at the clock gate, and
   the event that lets it run (any clock reading t, any hints) sends the done
   message with the recorded response and moves the call to its return
   section.  The operation cannot have been collected meanwhile: it has a
   waiter, hence no removal is scheduled (ProofsWaiters.v). *)
Theorem done_enabled : forall cfg t0 evs c o g r t h,
  fresh_calls [] evs ->
  let s := fst (run (init cfg t0) evs) in
  get_call s c = PStream o g ->
  t_resp (get_task s (o_task (get_op s o))) = Some r ->
  at_gate s (PStream o g) = true /\
  In (OMsg c o 4 (Some r)) (snd (step s (EEnter c t, h))) /\
  get_call (fst (step s (EEnter c t, h))) c = PStreamReturn o cOK.
Proof. exact done_enabled_all. Qed.
Print Assumptions done_enabled.

(* stages_monotone: between two consecutive messages of a stream the stage
   (QUEUED = 2, EXECUTING = 3, COMPLETED = 4) goes backwards only from
   EXECUTING to QUEUED -- the documented fall-back when a failed action is
   retried on the largest size class. *)
Theorem stages_monotone : forall cfg t0 evs c,
  fresh_calls [] evs ->
  forall pre n1 s1 d1 n2 s2 d2 post,
    call_trace c (snd (run (init cfg t0) evs)) = pre ++ OMsg c n1 s1 d1 :: OMsg c n2 s2 d2 :: post ->
    (s2 < s1)%N -> s1 = 3%N /\ s2 = 2%N.
Proof. exact stages_monotone_all. Qed.
Print Assumptions stages_monotone.

(* One iteration of operation.waitExecution: if the task has a response the
   message sent is the done message carrying exactly that response and the
   stream moves to its return section with code OK ... *)
Theorem stream_iter_done : forall c o s r,
  t_resp (get_task s (o_task (get_op s o))) = Some r ->
  stream_iter c o s = set_call c (PStreamReturn o cOK) (emit (OMsg c o 4 (Some r)) s).
Proof. exact stream_iter_done. Qed.
Print Assumptions stream_iter_done.

(* ... otherwise a non-final message with a stage other than COMPLETED is
   sent and the stream parks on the current stage-change generation. *)
Theorem stream_iter_not_done : forall c o s,
  t_resp (get_task s (o_task (get_op s o))) = None ->
  let x := get_task s (o_task (get_op s o)) in
  stream_iter c o s = set_call c (PStream o (t_gen x)) (emit (OMsg c o (task_stage x) None) s)
  /\ task_stage x <> 4%N.
Proof. exact stream_iter_not_done. Qed.
Print Assumptions stream_iter_not_done.

(* Non-vacuity: a platform queue is registered, a worker parks, an Execute
   request is handed to it directly, the worker reports completion, the
   stream is woken twice: the hypotheses hold and the stream sees
   EXECUTING, done, return OK. *)
Definition ex_cfg := mkConfig 5 10 30 10 60 3 20.
Definition ex_w := mkW (mkSK (mkPK [] 0) 1) 7 8.
Definition ex_evs : list hevent :=
  [ (ERegister 0 (mkPK [] 0) [] 0 0 [1%N] 1, []);
    (EStartSync 1 (mkSync ex_w WIdle false) 2, []);
    (EStartExecute 2 (mkExec [] 0 5 false 0 [] (0%nat, 10, 100, Learner 1 None None)) 3, []);
    (EEnter 1 4, []);
    (EStartSync 3 (mkSync ex_w (WCompleted 5 (mkResp 0 0 9)) false) 5, []);
    (EEnter 2 6, []);
    (EEnter 2 7, []) ].
Example ex_fresh : fresh_calls [] ex_evs.
Proof. cbn. intuition congruence. Qed.
Example ex_stream : kind_of ex_evs 2 = true /\
  call_trace 2 (snd (run (init ex_cfg 0) ex_evs))
  = [OMsg 2 0 3 None; OMsg 2 0 4 (Some (mkResp 0 0 9)); ORet 2 0].
Proof. split; vm_compute; reflexivity. Qed.

(* ---- the monitor's stream checks (e_stream) on the model's own traces ----
   hypotheses on histories (boolean checker below): worker-supplied responses carry a non-zero tag, operator kill
   codes are CANCELLED, RESOURCE_EXHAUSTED or ABORTED *)
Theorem causes_okb_sound : forall evs, causes_okb evs = true -> causes_ok evs.
Proof. exact causes_okb_sound. Qed.
Print Assumptions causes_okb_sound.
Example generated_history_causes_ok : causes_ok gen_evs.
Proof. apply causes_okb_sound. vm_compute. reflexivity. Qed.

(* the response of a completed task is made by the scheduler with a stated cause of the allowed list, or was
   supplied by a worker for the digest of the task (Sp: the responses supplied so far) *)
Theorem responses_have_a_cause : forall Sp s eh,
  ev_resp_ok (fst eh) = true -> KC s -> W s -> RC Sp s -> RC (ev_supplied (fst eh) ++ Sp) (fst (step s eh)).
Proof. exact RC_step. Qed.
Print Assumptions responses_have_a_cause.

(* what one event shows a stream call, and where it leaves it *)
Theorem stream_step_spec : forall c p0 tr0 e s,
  ev_call e = c -> J c true p0 tr0 -> At c p0 [] s ->
  (is_start e = true -> p0 = None /\ stream_start e = true) ->
  PostS c e p0 (step_core e s).
Proof. exact stream_step_spec. Qed.
Print Assumptions stream_step_spec.

(* position 3 of p_components: every message and every return of the model's trace passes c02_obs *)
Theorem monitor_stream_on_model : forall cfg t0 evs,
  selectors_in_range (init cfg t0) evs -> fresh_calls [] evs -> bg_scripts_ok evs -> causes_ok evs ->
  panicked (snd (run (init cfg t0) evs)) \/ trace_sub [3%nat] cfg t0 (model_trace cfg t0 evs) = true.
Proof. exact monitor_stream_on_model. Qed.
Print Assumptions monitor_stream_on_model.

(* position 5 of p_components (e_cancel): unless the event is an operator's kill, an operation that was registered
   before the event and still is afterwards does not belong to a task the event completed with the scheduler's own
   CANCELLED ("no waiting clients"): that cause completes a task only together with the removal of its last operation *)
Theorem monitor_cancel_on_model : forall cfg t0 evs,
  selectors_in_range (init cfg t0) evs -> fresh_calls [] evs -> bg_scripts_ok evs -> causes_ok evs ->
  panicked (snd (run (init cfg t0) evs)) \/ trace_sub [5%nat] cfg t0 (model_trace cfg t0 evs) = true.
Proof. exact monitor_cancel_on_model. Qed.
Print Assumptions monitor_cancel_on_model.

(* position 19 of p_components (e_gone): a done message names an operation that is still registered in the post-state
   (the stream stays parked on it: parked_on_registered), so no done message of a model trace is about a collected operation *)
Theorem monitor_gone_on_model : forall cfg t0 evs,
  selectors_in_range (init cfg t0) evs -> fresh_calls [] evs -> bg_scripts_ok evs -> causes_ok evs ->
  panicked (snd (run (init cfg t0) evs)) \/ trace_sub [19%nat] cfg t0 (model_trace cfg t0 evs) = true.
Proof. exact monitor_gone_on_model. Qed.
Print Assumptions monitor_gone_on_model.
