(* C02 — the property theorems about the scheduler model, and nothing else. *)
From VF Require Import Sched.Proofs.
Open Scope Z_scope.

(* One iteration of operation.waitExecution: if the task has a response the
   message sent is the done message carrying exactly that response and the
   stream moves to its return section with code OK ... *)
Theorem stream_iter_done : forall c o s r,
  t_resp (get_task s (o_task (get_op s o))) = Some r ->
  stream_iter c o s = set_call c (PStreamReturn o cOK) (emit (OMsg c o 4 (Some r)) s).
Proof. exact stream_iter_done. Qed.
Print Assumptions stream_iter_done.

(* ... otherwise a non-final message with a stage other than COMPLETED is
   sent and the stream parks on the current stage-change generation. *)
Theorem stream_iter_not_done : forall c o s,
  t_resp (get_task s (o_task (get_op s o))) = None ->
  let x := get_task s (o_task (get_op s o)) in
  stream_iter c o s = set_call c (PStream o (t_gen x)) (emit (OMsg c o (task_stage x) None) s)
  /\ task_stage x <> 4%N.
Proof. exact stream_iter_not_done. Qed.
Print Assumptions stream_iter_not_done.
