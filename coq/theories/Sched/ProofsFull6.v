(* C01, completeness layer: the clean-up functions. *)
From Coq Require Import Lia.
From VF Require Export Sched.ProofsFull5.
From VF Require Import Sched.ProofsLearner Sched.ProofsEnabled Sched.ProofsObsC01.
Open Scope Z_scope.

(* everything, between critical sections *)
Definition FI (s : state) : Prop := SW s /\ W s /\ Sp s /\ NX [] s.

Lemma FI_G : forall s, FI s -> G s.
Proof. intros s [A [B [_ D]]]. split; [exact A|]. split; [exact B|exact (NX_XS _ _ D)]. Qed.
Lemma FI_NX : forall s, FI s -> NX [] s. Proof. unfold FI. tauto. Qed.
Lemma FI_Sp : forall s, FI s -> Sp s. Proof. unfold FI. tauto. Qed.
Lemma FI_SW : forall s, FI s -> SW s. Proof. unfold FI. tauto. Qed.
Lemma FI_W : forall s, FI s -> W s. Proof. unfold FI. tauto. Qed.

Lemma FI_intro : forall s, G s -> Sp s -> NX [] s -> FI s.
Proof. intros s [A [B _]] C D. split; [exact A|]. split; [exact B|]. split; assumption. Qed.

Lemma FI_complete_task : forall t r b s,
  (t < s_ntasks s)%nat ->
  (b = true -> t_worker (get_task s t) <> None) ->
  (forall l bidx bdur btm bl p, t_learner (get_task s t) = Some l -> l_succ l = Some (bidx, bdur, btm, bl) -> resp_success r = true ->
     get_pq s (sk_pk (task_scq s t)) = Some p -> (bidx < List.length (p_scs p))%nat) ->
  FI s -> FI (complete_task t r b s).
Proof.
  intros t r b s Ht Hb Hbg H. apply FI_intro; [apply G_complete_task; [exact Ht|exact (FI_G _ H)]|apply Sp_complete_task; exact (FI_Sp _ H)|].
  destruct H as [A [B [C D]]]. apply NX_complete_task; assumption.
Qed.

Lemma FI_complete_task_nb : forall t r s,
  resp_success r = false -> (t < s_ntasks s)%nat -> FI s -> FI (complete_task t r false s).
Proof.
  intros t r s Hr Ht H. apply FI_complete_task; [exact Ht|discriminate| |exact H]. intros. congruence.
Qed.

Lemma FI_cancel_all_queued : forall i r s, resp_success r = false -> FI s -> FI (cancel_all_queued i r s).
Proof.
  intros i r s Hr H. rewrite cancel_all_queued_eq. apply cancel_go_closed; [|exact H].
  intros s1 d v o tl H1 Hin Hq. apply FI_complete_task_nb; [exact Hr| |exact H1].
  exact (W_pick_qop _ _ _ _ _ (FI_W _ H1) Hin Hq).
Qed.

(* ---- the cancel loop of sizeClassQueue.remove empties the queue ---------------------------------------------------------- *)
Definition QSubL (s0 s : state) : Prop :=
  forall i v x, In (i, v) (s_invs s) -> In x (v_qops v) -> exists v0, In (i, v0) (s_invs s0) /\ In x (v_qops v0).

Lemma QSubL_refl : forall s, QSubL s s. Proof. intros s i v x H1 H2. exists v. auto. Qed.
Lemma QSubL_frame : forall s0 s s', s_invs s' = s_invs s -> QSubL s0 s -> QSubL s0 s'.
Proof. unfold QSubL. intros s0 s s' ->. auto. Qed.
Lemma QSubL_upd_inv : forall s0 s i f, (forall v x, In x (v_qops (f v)) -> In x (v_qops v)) -> QSubL s0 s -> QSubL s0 (upd_inv i f s).
Proof.
  unfold QSubL, upd_inv. intros s0 s i f Hf H j v x. destruct (aget iref_eqb i (s_invs s)) as [y|] eqn:E; [|apply H]. cbn.
  intros Hin Hx. apply In_aset in Hin. destruct Hin as [[-> ->]|Hin]; [|eapply H; eassumption].
  apply Hf in Hx. apply (aget_In iref_eqb iref_eqb_eq) in E. eapply H; eassumption.
Qed.
Lemma QSubL_invs_new : forall s0 s i z, QSubL s0 s -> QSubL s0 (s <| s_invs ::= fun l => l ++ [(i, new_inv z)] |>).
Proof.
  unfold QSubL. intros s0 s i z H j v x. cbn. intros Hin Hx. apply in_app_or in Hin. destruct Hin as [Hin|[Heq|[]]]; [eapply H; eassumption|].
  inversion Heq; subst. destruct Hx.
Qed.
Lemma QSubL_invs_del : forall s0 s i, QSubL s0 s -> QSubL s0 (s <| s_invs := adel iref_eqb i (s_invs s) |>).
Proof. unfold QSubL. intros s0 s i H j v x. cbn. intros Hin Hx. apply In_adel in Hin. eapply H; eassumption. Qed.

Ltac t_qsub :=
  intros;
  lazymatch goal with
  | |- QSubL _ (upd_inv _ _ _) =>
    (try match goal with Hf : inv_upd _ |- _ => destruct Hf end);
    apply QSubL_upd_inv; [ let v := fresh in let x := fresh in let Hx := fresh in intros v x Hx; cbn in Hx;
                           first [exact Hx | (unfold remove_nat in Hx; apply filter_In in Hx; destruct Hx as [Hx _]; exact Hx)] | assumption ]
  | |- QSubL _ (set s_invs (fun l => l ++ [(_, new_inv _)]) _) => apply QSubL_invs_new; assumption
  | |- QSubL _ (set s_invs (fun _ => adel iref_eqb _ _) _) => apply QSubL_invs_del; assumption
  | |- _ => (eapply QSubL_frame; [|eassumption]); frame_eq
  end.

Lemma QSubL_complete_task_nb : forall t r s, resp_success r = false -> QSubL s (complete_task t r false s).
Proof.
  intros t r s Hr. pose proof (QSubL_refl s) as H0. rewrite complete_task_eq2. destruct (t_resp (get_task s t)); [exact H0|]. cbv zeta.
  assert (H4 : QSubL s (ct_prefix t false s)) by (unfold ct_prefix; inv_go fail t_qsub).
  set (s4 := ct_prefix t false s) in *. clearbody s4.
  destruct (get_pq s4 _) as [p|]; [|t_qsub].
  unfold ct_learner. rewrite Hr. destruct (t_learner (get_task s t)); unfold ct_tail; inv_go fail t_qsub.
Qed.

Definition scq_qops (k : skey) (s : state) : list nat :=
  flat_map (fun iv : iref * inv => if skey_eqb (i_sk (fst iv)) k then v_qops (snd iv) else []) (s_invs s).

Lemma in_scq_qops : forall k s o, In o (scq_qops k s) <-> exists i v, In (i, v) (s_invs s) /\ i_sk i = k /\ In o (v_qops v).
Proof.
  intros k s o. unfold scq_qops. rewrite in_flat_map. split.
  - intros [[i v] [Hiv H]]. cbn in H. destruct (skey_eqb (i_sk i) k) eqn:E; [|destruct H]. apply skey_eqb_eq in E. exists i, v. auto.
  - intros [i [v [Hiv [E H]]]]. exists (i, v). split; [exact Hiv|]. cbn. rewrite (proj2 (skey_eqb_eq _ _) E). exact H.
Qed.

Lemma scq_qops_nodup : forall k s, G s -> NoDup (scq_qops k s).
Proof.
  intros k s HG. pose proof (G_XS _ HG) as HXS. pose proof (XS_X _ _ HXS) as HX. destruct (XS_St _ _ HXS) as [_ [_ [Hnd _]]].
  assert (Hent : forall i v, In (i, v) (s_invs s) -> get_inv s i = v).
  { intros i v H. unfold get_inv. rewrite (In_aget_NoDup iref_eqb iref_eqb_eq _ _ _ Hnd H). reflexivity. }
  unfold scq_qops. apply NoDup_flat_map'.
  - apply NoDup_of_keys. exact Hnd.
  - intros [i v] Hiv. cbn. destruct (skey_eqb (i_sk i) k); [|constructor]. rewrite <- (Hent i v Hiv). apply (XQn _ _ HX).
  - intros [i v] [i' v'] o Hiv Hiv' Ho Ho'. cbn in Ho, Ho'.
    destruct (skey_eqb (i_sk i) k); [|destruct Ho]. destruct (skey_eqb (i_sk i') k); [|destruct Ho'].
    rewrite <- (Hent i v Hiv) in Ho. rewrite <- (Hent i' v' Hiv') in Ho'.
    destruct (XQ _ _ HX _ _ Ho) as [_ E1]. destruct (XQ _ _ HX _ _ Ho') as [_ E2].
    apply (NoDup_keys_inj fst (s_invs s)); [exact Hnd|exact Hiv|exact Hiv'|cbn; congruence].
Qed.

Lemma scq_qops_bound : forall k s, G s -> (List.length (scq_qops k s) <= List.length (s_ops s))%nat.
Proof.
  intros k s HG. pose proof (G_XS _ HG) as HXS. pose proof (XS_X _ _ HXS) as HX. destruct (XS_St _ _ HXS) as [_ [_ [Hnd _]]].
  rewrite <- (map_length fst (s_ops s)). apply NoDup_incl_length; [apply scq_qops_nodup; exact HG|].
  intros o Ho. apply in_scq_qops in Ho. destruct Ho as [i [v [Hiv [_ Ho]]]].
  assert (Ev : get_inv s i = v) by (unfold get_inv; rewrite (In_aget_NoDup iref_eqb iref_eqb_eq _ _ _ Hnd Hiv); reflexivity).
  rewrite <- Ev in Ho. destruct (XQ _ _ HX _ _ Ho) as [Ha _]. unfold op_alive in Ha.
  destruct (aget Nat.eqb o (s_ops s)) eqn:E; [|discriminate]. apply (aget_In Nat.eqb nat_eqb_eq) in E. apply (in_map fst) in E. exact E.
Qed.

Lemma cancel_step_decreases : forall k r s d v o tl,
  resp_success r = false -> G s -> In (d, v) (s_invs s) -> i_sk d = k -> v_qops v = o :: tl ->
  (List.length (scq_qops k (complete_task (o_task (get_op s o)) r false s)) < List.length (scq_qops k s))%nat.
Proof.
  intros k r s d v o tl Hr HG Hdv Hk Hq.
  pose proof (G_XS _ HG) as HXS. pose proof (XS_X _ _ HXS) as HX. destruct (XS_St _ _ HXS) as [_ [_ [Hnd _]]].
  assert (Ev : get_inv s d = v) by (unfold get_inv; rewrite (In_aget_NoDup iref_eqb iref_eqb_eq _ _ _ Hnd Hdv); reflexivity).
  assert (Hoq : In o (v_qops (get_inv s d))) by (rewrite Ev, Hq; left; reflexivity).
  destruct (XQ _ _ HX _ _ Hoq) as [Ha Hi].
  set (t := o_task (get_op s o)).
  pose proof (OT_alive s o (XS_OT _ _ HXS) Ha) as Hlt. change (tsk s o) with t in Hlt.
  pose proof (G_complete_task t r false s Hlt HG) as HG'.
  destruct HG as [HSW [HW HXS0]].
  destruct (complete_task_post t r s HSW HW Hlt HXS0 Hr) as [[wo [ro HL]] _].
  pose proof (QSubL_complete_task_nb t r s Hr) as Hsub.
  assert (HQ : Qo o t (o_waiters (get_op s o)) s).
  { unfold op_alive, get_op, t in *. destruct (aget Nat.eqb o (s_ops s)) as [y|] eqn:E; [|discriminate]. exists y. unfold get_op. rewrite E. auto. }
  assert (HQ' : Qo o t (o_waiters (get_op s o)) (complete_task t r false s)) by q_go.
  set (s' := complete_task t r false s) in *. clearbody s'.
  destruct (Qo_alive_tsk _ _ _ _ HQ') as [Ha' Ht'].
  assert (Hnot : ~ In o (scq_qops k s')).
  { intro Hin. apply in_scq_qops in Hin. destruct Hin as [i [v' [Hiv [_ Ho]]]]. exact (LcU _ _ _ _ _ HL eq_refl o i v' Ha' Ht' Hiv Ho). }
  assert (Hin0 : In o (scq_qops k s)) by (apply in_scq_qops; exists d, v; split; [exact Hdv|]; split; [exact Hk|rewrite Hq; left; reflexivity]).
  assert (Hincl : incl (o :: scq_qops k s') (scq_qops k s)).
  { intros x [<-|Hx]; [exact Hin0|]. apply in_scq_qops in Hx. destruct Hx as [i [v' [Hiv [Hik Hx]]]].
    destruct (Hsub i v' x Hiv Hx) as [v0 [Hiv0 Hx0]]. apply in_scq_qops. exists i, v0. auto. }
  assert (Hnd' : NoDup (o :: scq_qops k s')) by (constructor; [exact Hnot|apply scq_qops_nodup; exact HG']).
  pose proof (NoDup_incl_length Hnd' Hincl) as Hlen. cbn in Hlen. lia.
Qed.

Lemma cancel_go_empties : forall k r n s,
  resp_success r = false -> FI s -> (List.length (scq_qops k s) < n)%nat ->
  forall i, i_sk i = k -> v_qops (get_inv (cancel_go (mkI k []) r n s) i) = [].
Proof.
  intros k r n. induction n as [|n IH]; intros s Hr H Hn i Hi; [lia|]. cbn [cancel_go].
  destruct (find _ (s_invs s)) as [[d v]|] eqn:Ef.
  - apply find_some in Ef. destruct Ef as [Hin Hm]. apply andb_true_iff in Hm. destruct Hm as [Hd Hne].
    unfold descendant_or_self in Hd. apply andb_true_iff in Hd. destruct Hd as [Hd _]. apply skey_eqb_eq in Hd. cbn in Hd.
    destruct (v_qops v) as [|o tl] eqn:Eq; [discriminate|].
    apply IH; [exact Hr| | |exact Hi].
    + apply FI_complete_task_nb; [exact Hr| |exact H]. exact (W_pick_qop _ _ _ _ _ (FI_W _ H) Hin Eq).
    + pose proof (cancel_step_decreases k r s d v o tl Hr (FI_G _ H) Hin (eq_sym Hd) Eq). lia.
  - unfold get_inv. destruct (aget iref_eqb i (s_invs s)) as [v|] eqn:E; [|reflexivity].
    apply (aget_In iref_eqb iref_eqb_eq) in E. pose proof (find_none _ _ Ef _ E) as Hn'. cbv beta iota in Hn'.
    unfold descendant_or_self in Hn'. cbn in Hn'. rewrite Hi, (proj2 (skey_eqb_eq _ _) eq_refl) in Hn'. cbn in Hn'.
    destruct (v_qops v); [reflexivity|discriminate].
Qed.

Lemma cancel_all_queued_empties : forall k r s,
  resp_success r = false -> FI s -> forall i, i_sk i = k -> v_qops (get_inv (cancel_all_queued (mkI k []) r s) i) = [].
Proof.
  intros k r s Hr H. rewrite cancel_all_queued_eq. apply cancel_go_empties; [exact Hr|exact H|].
  pose proof (scq_qops_bound k s (FI_G _ H)). lia.
Qed.

Lemma FI_scq_remove : forall k s, q_workers (get_scq s k) = [] -> FI s -> FI (scq_remove k s).
Proof.
  intros k s Hnw H.
  pose proof (G_scq_remove k s Hnw (FI_G _ H)) as HG'.
  apply FI_intro; [exact HG'|exact (proj2 (SSp_scq_remove k s Hnw (conj (FI_SW _ H) (FI_Sp _ H))))|].
  split; [exact (G_XS _ HG')|]. unfold scq_remove. cbv zeta.
  pose proof (cancel_all_queued_empties k (mkResp cUNAVAILABLE 0 0) s eq_refl H) as Hemp.
  pose proof (FI_cancel_all_queued (mkI k []) (mkResp cUNAVAILABLE 0 0) s eq_refl H) as H1.
  set (s1 := cancel_all_queued (mkI k []) (mkResp cUNAVAILABLE 0 0) s) in *. clearbody s1.
  destruct H1 as [HSW1 [_ [_ [HX1 [B C]]]]]. destruct HSW1 as [[Hnd _] _].
  split.
  - eapply TK_frame; [|exact B]. reflexivity.
  - destruct C as [Hp|[HC HM]]; [left; destruct Hp as [what Hw]; exists what; exact Hw|right]. split.
    + eapply CQ_frame; [reflexivity|reflexivity|reflexivity|]. eapply CQ_frame; [reflexivity|reflexivity|reflexivity|]. apply CQ_delscq; assumption.
    + eapply MI_frame; [reflexivity|intro; reflexivity|]. eapply MI_frame; [reflexivity|intro; reflexivity|]. apply MI_delscq; assumption.
Qed.

Ltac fi_prim H :=
  let HSW := fresh "HSW" in let HW := fresh "HW" in let HSp := fresh "HSp" in let HNX := fresh "HNX" in
  destruct H as [HSW [HW [HSp HNX]]];
  split; [sw_go2 | split; [apply (WL_W []); apply WL_of_W in HW; w_go2 | split; [sp_go | nx_go1]]].

Lemma FI_remove_stale_worker : forall w z s,
  unnamed s w -> k_wait (get_worker s w) = false -> FI s -> FI (remove_stale_worker w z s).
Proof.
  intros w z s Hun Hkw H.
  pose proof (G_remove_stale_worker w z s Hun Hkw (FI_G _ H)) as HG'.
  apply FI_intro; [exact HG'|unfold remove_stale_worker, mark_terminating; pose proof (FI_Sp _ H); sp_go|].
  split; [exact (G_XS _ HG')|]. unfold remove_stale_worker. cbv zeta.
  set (s1 := mark_terminating w s).
  assert (H1 : FI s1) by (unfold s1, mark_terminating; fi_prim H).
  clearbody s1. clear H.
  set (s2 := match k_task (get_worker s1 w) with None => s1 | Some t => complete_task t (mkResp cUNAVAILABLE 0 0) false s1 end).
  assert (H2 : FI s2).
  { unfold s2. destruct (k_task (get_worker s1 w)) as [t|] eqn:Ek; [|exact H1].
    apply FI_complete_task_nb; [reflexivity|exact (W_pick_worker _ _ _ (FI_W _ H1) Ek)|exact H1]. }
  clearbody s2. clear H1.
  set (s3 := clear_last_invocation w s2).
  assert (H3 : NX [] s3) by (unfold s3; apply NX_clear_last_invocation; exact (FI_NX _ H2)).
  clearbody s3. clear H2. destruct H3 as [_ [B C]].
  set (s4 := upd_scq (w_sk w) (fun q => q <| q_workers ::= adel wref_eqb w |>) s3).
  assert (H4 : TK s4 /\ CM [] s4) by (unfold s4; split; [t_TK|t_CM]).
  clearbody s4. destruct H4 as [B4 C4]. destruct (Nat.eqb _ 0 && _); [|split; assumption]. split; [t_TK|t_CM].
Qed.

(* ---- operation.remove ------------------------------------------------------------------------------------------------------ *)
Lemma rq_keeps_others : forall o s i x, In x (v_qops (get_inv s i)) -> x <> o -> In x (v_qops (get_inv (remove_queued_from_invocation o s) i)).
Proof.
  intros o s i x Hin Hne. unfold remove_queued_from_invocation. cbv zeta.
  set (s1 := upd_inv (o_inv (get_op s o)) _ s).
  destruct (QSame_ufp_fold s1 (nonroot_chain (o_inv (get_op s o))) s1 (QSame_refl s1)) as [_ [_ [_ E4]]].
  rewrite E4. unfold s1. rewrite get_inv_upd_inv. destruct (iref_eqb i (o_inv (get_op s o)) && inv_exists s (o_inv (get_op s o))) eqn:E; [|exact Hin].
  apply andb_true_iff in E. destruct E as [E _]. apply iref_eqb_eq in E. subst i. cbn. unfold remove_nat. apply filter_In. split; [exact Hin|].
  apply negb_true_iff. apply Nat.eqb_neq. auto.
Qed.

Lemma rie_keeps_queued : forall j s i x, NoDup (map fst (s_invs s)) -> In x (v_qops (get_inv s i)) -> In x (v_qops (get_inv (fst (remove_if_empty j s)) i)).
Proof.
  intros j s i x Hnd Hin. unfold remove_if_empty.
  destruct (negb (is_root j) && inv_exists s j && negb (is_active s j) && (v_idle (get_inv s j) =? 0)%N) eqn:Eg; cbn [fst]; [|exact Hin].
  apply andb_true_iff in Eg. destruct Eg as [Eg _]. apply andb_true_iff in Eg. destruct Eg as [Eg Ha]. apply andb_true_iff in Eg. destruct Eg as [_ He].
  apply negb_true_iff in Ha. rewrite get_inv_adel by exact Hnd. destruct (iref_eqb i j) eqn:E; [|exact Hin].
  apply iref_eqb_eq in E. subst i. rewrite (inactive_no_qops s j He Ha) in Hin. destruct Hin.
Qed.

Lemma Pan_prune_chain : forall l a go, Pan a ->
  Pan (fst (fold_left (fun (acc : state * bool) j => let '(s, go) := acc in if go then remove_if_empty j s else (s, false)) l (a, go))).
Proof.
  induction l as [|j l IH]; intros a go H; cbn [fold_left fst]; [exact H|]. destruct go; [|apply IH; exact H].
  rewrite (surjective_pairing (remove_if_empty j a)). apply IH. unfold remove_if_empty. destruct (_ && _); cbn [fst]; [t_pan|exact H].
Qed.

Lemma Pan_operation_remove : forall o s, Pan s -> Pan (operation_remove o s).
Proof. intros o s H. apply fr_operation_remove with (P := Pan); try (intros; t_pan; fail); assumption. Qed.

Lemma complete_task_post_worker : forall t r s,
  SW s -> W s -> (t < s_ntasks s)%nat -> XS [] s -> resp_success r = false ->
  t_worker (get_task (complete_task t r false s) t) = None.
Proof.
  intros t r s HSW HW Hlt HXS Hrs. rewrite complete_task_eq. cbv zeta.
  pose proof (XS_St _ _ HXS) as [_ [_ [Hnd _]]].
  pose proof (Lc_intro [] t s Hnd (fun H => H) Hlt (XS_X _ _ HXS)) as HL.
  destruct (t_resp (get_task s t)) eqn:Er.
  { destruct (t_worker (get_task s t)) as [w|] eqn:Ew; [|reflexivity].
    destruct (XA _ _ (XS_X _ _ HXS) t w (fun F => F) Ew) as [_ [_ [_ E]]]. congruence. }
  assert (H0 : CT [] [t] t (t_worker (get_task s t)) None (match t_worker (get_task s t) with Some _ => true | None => false end) s).
  { split; [exact HSW|]. split; [apply WL_cons; [apply WL_of_W; exact HW|exact Hlt]|]. split; [exact HXS|].
    destruct (t_worker (get_task s t)); exact HL. }
  pose proof (CT_detach t false s Er H0) as [H4 _]. cbv zeta in H4.
  match type of H4 with CT _ _ _ _ _ _ ?e => set (s4 := e) in * end. clearbody s4. clear H0.
  destruct (get_pq s4 (sk_pk (task_scq s t))) as [p|].
  - unfold ct_learner. rewrite Hrs.
    assert (H5 : forall s5, CT [t] [t] t None None true s5 -> t_worker (get_task (ct_tail t r (get_task s t) p (task_scq s t) s5 None) t) = None).
    { intros s5 H5. destruct (CT_final' t r (get_task s t) p (task_scq s t) s5 H5) as [_ [_ [_ HLc]]]. exact (LcW _ _ _ _ _ HLc). }
    destruct (t_learner (get_task s t)); apply H5.
    + destruct H4 as [HSW4 [HWL4 [HXS4 HLc4]]]. clear HXS. ct_go.
    + destruct H4 as [HSW4 [HWL4 [HXS4 HLc4]]]. clear HXS. ct_go.
  - destruct H4 as [_ [_ [_ HLc4]]]. exact (LcW _ _ _ _ _ HLc4).
Qed.

Lemma FI_operation_remove : forall o s, op_alive s o = true -> FI s -> FI (operation_remove o s).
Proof.
  intros o s Ha H.
  pose proof (G_operation_remove o s Ha (FI_G _ H)) as HG'.
  apply FI_intro; [exact HG'|apply Sp_operation_remove; exact (FI_Sp _ H)|].
  split; [exact (G_XS _ HG')|].
  (* TK and CM *)
  pose proof (FI_G _ H) as HG. pose proof (G_XS _ HG) as HXS. pose proof (XS_X _ _ HXS) as HX.
  destruct (XS_St _ _ HXS) as [_ [_ [Hnd _]]]. destruct (XS_ON _ _ HXS) as [Hndo _].
  set (t := o_task (get_op s o)).
  pose proof (OT_alive s o (XS_OT _ _ HXS) Ha) as Hlt. change (tsk s o) with t in Hlt.
  pose proof (XO1 _ _ HX o Ha (fun F => F)) as Hlisted. change (tsk s o) with t in Hlisted.
  assert (HQ : Qo o t (o_waiters (get_op s o)) s).
  { unfold op_alive, get_op, t in *. destruct (aget Nat.eqb o (s_ops s)) as [y|] eqn:E; [|discriminate]. exists y. unfold get_op. rewrite E. auto. }
  unfold operation_remove. cbv zeta. fold t.
  match goal with |- TK (upd_task t _ (set s_ops _ ?e)) /\ _ => set (s' := e) end.
  (* the last two steps, given what holds before them *)
  assert (Hpair : forall a, TK a -> (forall w, t_worker (get_task a t) = Some w -> is_phantom w = false ->
                               filter (fun '(_, o') => negb (Nat.eqb o o')) (t_ops (get_task a t)) <> []) ->
             TK (upd_task t (fun y => y <| t_ops := filter (fun '(_, o') => negb (Nat.eqb o o')) (t_ops y) |>) (a <| s_ops := adel Nat.eqb o (s_ops a) |>))).
  { intros a Ba Hc. apply TK_upd_task; [|eapply TK_frame; [|exact Ba]; reflexivity].
    rewrite (get_task_frame a) by reflexivity. apply tk_delop; [exact Hc|apply Ba]. }
  assert (HpairC : forall a, NoDup (map fst (s_ops a)) -> CQ [] a /\ MI a ->
             CQ [] (upd_task t (fun y => y <| t_ops := filter (fun '(_, o') => negb (Nat.eqb o o')) (t_ops y) |>) (a <| s_ops := adel Nat.eqb o (s_ops a) |>)) /\
             MI (upd_task t (fun y => y <| t_ops := filter (fun '(_, o') => negb (Nat.eqb o o')) (t_ops y) |>) (a <| s_ops := adel Nat.eqb o (s_ops a) |>))).
  { intros a Hn [Ca Ma]. split; [|eapply MI_frame; [ | |exact Ma]; [reflexivity|intro; reflexivity]].
    apply CQ_upd_task; [right; cbn; auto|]. apply CQ_delop; assumption. }
  destruct H as [HSW [HW [HSp [_ [B C]]]]].
  unfold s' in *. clear s'.
  destruct (Nat.eqb (List.length (t_ops (get_task s t))) 1) eqn:El.
  - (* last operation: the task is completed first *)
    assert (HFI : FI s) by (split; [exact HSW|split; [exact HW|split; [exact HSp|split; [exact HXS|split; assumption]]]]).
    pose proof (FI_complete_task_nb t (mkResp cCANCELLED 0 0) s eq_refl Hlt HFI) as H1.
    destruct (complete_task_post t (mkResp cCANCELLED 0 0) s HSW HW Hlt HXS eq_refl) as [[wo [ro HL]] _].
    pose proof (complete_task_post_worker t (mkResp cCANCELLED 0 0) s HSW HW Hlt HXS eq_refl) as Hw1.
    set (s1 := complete_task t (mkResp cCANCELLED 0 0) false s) in *. clearbody s1.
    destruct H1 as [_ [_ [_ [HXS1 [B1 C1]]]]].
    split; [apply Hpair; [exact B1|intros w Ew; congruence]|].
    destruct C1 as [Hp|HC1]; [left; inv_go fail t_pan|right]. apply HpairC; [destruct (XS_ON _ _ HXS1); assumption|exact HC1].
  - unfold task_stage. destruct (t_resp (get_task s t)) as [r0|] eqn:Er.
    { (* completed *)
      assert (Hs' : forall e, e = s -> TK (upd_task t (fun y => y <| t_ops := filter (fun '(_, o') => negb (Nat.eqb o o')) (t_ops y) |>) (e <| s_ops := adel Nat.eqb o (s_ops e) |>)) /\
                CM [] (upd_task t (fun y => y <| t_ops := filter (fun '(_, o') => negb (Nat.eqb o o')) (t_ops y) |>) (e <| s_ops := adel Nat.eqb o (s_ops e) |>))).
      { intros e ->. split.
        - apply Hpair; [exact B|]. intros w Ew. destruct (XA _ _ HX t w (fun F => F) Ew) as [_ [_ [_ E]]]. congruence.
        - destruct C as [Hp|HC]; [left; inv_go fail t_pan|right]. apply HpairC; assumption. }
      destruct (t_worker (get_task s t)); cbv iota; apply Hs'; reflexivity. }
    destruct (t_worker (get_task s t)) as [w|] eqn:Ew; cbv iota.
    + (* executing *)
      set (s1 := decrement_executing (o_inv (get_op s o)) w s).
      assert (H1 : NX [] s1) by (unfold s1; apply NX_decrement_executing; split; [exact HXS|split; assumption]).
      assert (Et1 : get_task s1 t = get_task s t).
      { apply get_task_frame. assert (Hk : keeps_tasks (s_tasks s) s1); [|exact Hk]. assert (H0 : keeps_tasks (s_tasks s) s) by reflexivity.
        unfold s1. fr_go (keeps_tasks (s_tasks s)) t_tasks. }
      clearbody s1. destruct H1 as [HXS1 [B1 C1]].
      split.
      * apply Hpair; [exact B1|]. rewrite Et1. intros w' _ _.
        (* at least two operations, of which one is removed *)
        pose proof (XS_XN _ _ HXS t) as Hndt.
        destruct (t_ops (get_task s t)) as [|[i1 o1] [|[i2 o2] l]] eqn:Eo; [destruct Hlisted|cbn in El; discriminate|].
        cbn in Hndt. inversion Hndt as [|? ? Hni _]; subst. cbn [filter].
        destruct (Nat.eqb o o1) eqn:E1; cbn [negb]; [|discriminate].
        destruct (Nat.eqb o o2) eqn:E2; cbn [negb]; [|discriminate].
        apply Nat.eqb_eq in E1. apply Nat.eqb_eq in E2. subst. exfalso. apply Hni. left. reflexivity.
      * destruct C1 as [Hp|HC1]; [left; inv_go fail t_pan|right]. apply HpairC; [destruct (XS_ON _ _ HXS1); assumption|exact HC1].
    + (* queued: leave the queue, prune empty invocations *)
      split.
      * (* TK: tasks are untouched before the last step, and the task has no worker *)
        match goal with |- TK (upd_task t _ (set s_ops _ ?e)) => set (s' := e) end.
        assert (Hs' : TK s' /\ get_task s' t = get_task s t).
        { assert (Hk : keeps_tasks (s_tasks s) s').
          { assert (H0 : keeps_tasks (s_tasks s) s) by reflexivity. unfold s'.
            match goal with |- keeps_tasks _ (fst (fold_left ?g ?l ?a)) => apply (fold_left_pres (fun acc => keeps_tasks (s_tasks s) (fst acc)) g l) end.
            - intros [a go] j Hacc. cbn [fst] in *. destruct go; [|exact Hacc]. unfold remove_if_empty. destruct (_ && _); cbn [fst]; [exact Hacc|exact Hacc].
            - cbn [fst]. fr_go (keeps_tasks (s_tasks s)) t_tasks. }
          split; [eapply TK_frame; [exact Hk|exact B]|apply get_task_frame; exact Hk]. }
        destruct Hs' as [Bs' Et']. apply Hpair; [exact Bs'|]. rewrite Et'. intros w' Ew'. congruence.
      * destruct C as [Hp|[HC HM]].
        { left. assert (Hp1 : Pan (remove_queued_from_invocation o s)) by (unfold remove_queued_from_invocation; inv_go fail t_pan).
          pose proof (Pan_prune_chain (chain (o_inv (get_op s o))) _ true Hp1) as Hp2.
          match goal with |- Pan (upd_task t _ (set s_ops _ ?e)) => set (s' := e) in * end. clearbody s'. inv_go fail t_pan. }
        right.
        match goal with |- CQ [] (upd_task t _ (set s_ops _ ?e)) /\ _ => set (s' := e) end.
        (* what the pruned state keeps *)
        assert (Hs' : MI s' /\ s_ops s' = s_ops s /\ s_tasks s' = s_tasks s /\
                      (forall i x, In x (v_qops (get_inv s i)) -> x <> o -> In x (v_qops (get_inv s' i)))).
        { unfold s'. set (s1 := remove_queued_from_invocation o s).
          assert (H1 : XS [] s1 /\ MI s1 /\ s_ops s1 = s_ops s /\ s_tasks s1 = s_tasks s /\ (forall i x, In x (v_qops (get_inv s i)) -> x <> o -> In x (v_qops (get_inv s1 i)))).
          { split; [unfold s1; xs_go1|]. split; [unfold s1, remove_queued_from_invocation; inv_go fail t_MI|].
            destruct (rq_reads o s) as [E1 [E2 _]]. split; [exact E1|]. split; [exact E2|]. intros i x Hx Hne. apply rq_keeps_others; assumption. }
          clearbody s1.
          match goal with |- MI (fst (fold_left ?g ?l ?a)) /\ _ =>
            apply (fold_left_pres (fun acc => XS [] (fst acc) /\ MI (fst acc) /\ s_ops (fst acc) = s_ops s /\ s_tasks (fst acc) = s_tasks s /\
                                              (forall i x, In x (v_qops (get_inv s i)) -> x <> o -> In x (v_qops (get_inv (fst acc) i)))) g l) end.
          - intros [a go] j [P1 [P2 [P3 [P4 P5]]]]. cbn [fst] in *. destruct go; [|auto].
            destruct (XS_St _ _ P1) as [_ [_ [Hnda _]]].
            split; [apply XS_remove_if_empty; exact P1|]. split; [unfold remove_if_empty; destruct (_ && _); cbn [fst]; [apply MI_invs_del; exact P2|exact P2]|].
            split; [unfold remove_if_empty; destruct (_ && _); exact P3|]. split; [unfold remove_if_empty; destruct (_ && _); exact P4|].
            intros i x Hx Hne. apply rie_keeps_queued; [exact Hnda|apply P5; assumption].
          - cbn [fst]. tauto. }
        destruct Hs' as [M' [Eo' [Et' Hq']]]. clearbody s'.
        split; [|eapply MI_frame; [ | |exact M']; [reflexivity|intro; reflexivity]].
        (* completeness, directly from the state before *)
        set (s'' := upd_task t _ (s' <| s_ops := adel Nat.eqb o (s_ops s') |>)).
        intros o' Ha' _ Hi'.
        assert (Hne : o' <> o).
        { intros ->. unfold op_alive, s'' in Ha'. cbn in Ha'. rewrite Eo', (aget_adel_same Nat.eqb nat_eqb_eq) in Ha' by exact Hndo. discriminate. }
        assert (Eg : get_op s'' o' = get_op s o' /\ op_alive s'' o' = op_alive s o').
        { unfold s'', get_op, op_alive. cbn. rewrite Eo', (aget_adel_other Nat.eqb nat_eqb_eq) by exact Hne. auto. }
        destruct Eg as [Eg Eal]. rewrite Eal in Ha'.
        assert (Hidle : idle_live s (tsk s o')).
        { assert (Etk : forall y, get_task (s' <| s_ops := adel Nat.eqb o (s_ops s') |>) y = get_task s y) by (intro y; apply get_task_frame; exact Et').
          unfold idle_live, tsk in *. rewrite Eg in Hi'. unfold s'' in Hi'. rewrite get_task_upd_task in Hi'.
          destruct (Nat.eqb (o_task (get_op s o')) t) eqn:E; [|rewrite Etk in Hi'; exact Hi']. apply Nat.eqb_eq in E. rewrite E. rewrite Etk in Hi'. cbn in Hi'. exact Hi'. }
        pose proof (HC o' Ha' (fun F => F) Hidle) as Hq. unfold queued in *. rewrite Eg.
        change (get_inv s'' (o_inv (get_op s o'))) with (get_inv s' (o_inv (get_op s o'))). apply Hq'; assumption.
Qed.

(* ---- the clean-up queue -------------------------------------------------------------------------------------------------- *)
Lemma FI_run_entry : forall e s, In e (cleanup_entries s) -> FI s -> FI (run_entry e s).
Proof.
  intros [z ce] s Hin H. unfold run_entry. cbn [fst snd]. destruct ce as [o|w|k].
  - apply FI_operation_remove.
    + rewrite op_alive_upd_op. eapply cleanup_entry_op_alive. exact Hin.
    + fi_prim H.
  - pose proof (cleanup_entry_worker s z w (SW_St _ (FI_SW _ H)) Hin) as Hc.
    pose proof (SW_WP _ (FI_SW _ H)) as [A2 [_ [B1 _]]].
    apply FI_remove_stale_worker.
    + eapply unnamed_frame; [apply calls_upd_worker|]. intros c p Hcp Hs. destruct (A2 _ _ _ Hcp Hs) as [_ E]. congruence.
    + rewrite get_worker_upd_worker. destruct (wref_eqb w w && worker_exists s w); cbn; apply B1; congruence.
    + fi_prim H.
  - pose proof (cleanup_entry_scq s z k (SW_St _ (FI_SW _ H)) Hin) as Hc.
    pose proof (SW_WP _ (FI_SW _ H)) as [_ [_ [_ [_ [_ [_ [_ E7]]]]]]].
    apply FI_scq_remove; [|fi_prim H].
    assert (Hn : NWf k s) by (apply E7; congruence). change (NWf k (upd_scq k (fun q => q <| q_cleanup := None |>) s)). t_nw.
Qed.

Lemma FI_enter : forall t s, FI s -> FI (enter t s).
Proof.
  intros t s H. unfold enter. destruct (s_now s <? t); [|exact H]. cbv zeta.
  apply cleanup_run_closed; [intros s1 w H1; fi_prim H1 | intros; apply FI_run_entry; assumption | fi_prim H].
Qed.
