(* C07 (scheduler part), background learning: which tasks have an operation in the background-learning invocation. *)
From Coq Require Import Lia.
From VF Require Export Sched.ProofsFull8.
From VF Require Import Sched.ProofsLearner.
Open Scope Z_scope.

Definition bgp : path := [4294967295%N].   (* invocation.BackgroundLearningKeys *)

(* what the scripts of the learners must satisfy: a learner handed out for a background run asks for no retry *)
Fixpoint lrn_ok (l : learner) : Prop :=
  match l with
  | Learner _ succ fail =>
    match succ with Some (_, _, _, bl) => l_fail bl = None /\ lrn_ok bl | None => True end /\
    match fail with Some (_, _, nl) => lrn_ok nl | None => True end
  end.
Definition olrn_ok (ol : option learner) : Prop := match ol with Some l => lrn_ok l | None => True end.
Definition onofail (ol : option learner) : Prop := match ol with Some l => l_fail l = None | None => True end.
Definition has_bg (ops : list (iref * nat)) : Prop := exists i o, In (i, o) ops /\ i_path i = bgp.
Definition bt_ok (x : task) : Prop := olrn_ok (t_learner x) /\ (has_bg (t_ops x) -> onofail (t_learner x)).
Definition BT (s : state) : Prop := forall t, bt_ok (get_task s t).

Lemma bt_dummy : bt_ok dummy_task.
Proof. split; [exact I|intros _; exact I]. Qed.

Lemma BT_frame : forall s s', s_tasks s' = s_tasks s -> BT s -> BT s'.
Proof. unfold BT. intros s s' E H t. rewrite (get_task_frame _ _ _ E). apply H. Qed.
Lemma BT_upd_task : forall s t f, bt_ok (f (get_task s t)) -> BT s -> BT (upd_task t f s).
Proof. unfold BT. intros s t f Hf H t'. rewrite get_task_upd_task. destruct (Nat.eqb t' t); [exact Hf|apply H]. Qed.
Lemma BT_newtask : forall s x, bt_ok x -> BT s -> BT (s <| s_ntasks ::= S |> <| s_tasks ::= fun l => l ++ [(s_ntasks s, x)] |>).
Proof.
  unfold BT. intros s x Hx H t. rewrite get_task_newtask. specialize (H t). unfold get_task in H.
  destruct (aget Nat.eqb t (s_tasks s)); [exact H|]. destruct (Nat.eqb t (s_ntasks s)); [exact Hx|exact bt_dummy].
Qed.

Lemma has_bg_filter : forall f l, has_bg (filter f l) -> has_bg l.
Proof. intros f l [i [o [Hin Hp]]]. apply filter_In in Hin. exists i, o. tauto. Qed.
Lemma has_bg_app : forall l i o, i_path i <> bgp -> has_bg (l ++ [(i, o)]) -> has_bg l.
Proof.
  intros l i o Hne [i' [o' [Hin Hp]]]. apply in_app_or in Hin. destruct Hin as [Hin|[E|[]]]; [exists i', o'; auto|].
  inversion E; subst. contradiction.
Qed.
Lemma has_bg_retarget : forall lk l, has_bg (map (fun '(i, o) => (mkI lk (i_path i), o)) l) -> has_bg l.
Proof.
  intros lk l [i [o [Hin Hp]]]. apply in_map_iff in Hin. destruct Hin as [[i0 o0] [E Hin]]. inversion E; subst.
  exists i0, o0. auto.
Qed.

Ltac t_BT :=
  lazymatch goal with
  | |- BT (upd_task ?t _ _) =>
    match goal with H : BT _ |- _ =>
      apply BT_upd_task;
      [ first [ exact (H t)
              | (destruct (H t) as [? ?]; split; cbn; [first [assumption | exact I] | first [assumption | (intros; exact I)]])
              | (destruct (H t) as [? ?]; split; cbn; [assumption | let Hb := fresh in intro Hb; apply has_bg_filter in Hb; auto]) ]
      | assumption ] end
  | |- _ => (eapply BT_frame; [|eassumption]); frame_eq
  end.
Ltac bt_go0 := inv_go fail t_BT.

Lemma BT_ct_prefix : forall t b s, BT s -> BT (ct_prefix t b s).
Proof. intros t b s H. unfold ct_prefix. bt_go0. Qed.
