(* C07 (scheduler part), background learning: which tasks have an operation in the background-learning invocation. *)
From Coq Require Import Lia.
From VF Require Export Sched.ProofsFull8.
From VF Require Import Sched.ProofsLearner.
Open Scope Z_scope.

Definition bgp : path := [4294967295%N].   (* invocation.BackgroundLearningKeys *)

(* what the scripts of the learners must satisfy: a learner handed out for a background run asks for no retry *)
Fixpoint lrn_ok (l : learner) : Prop :=
  match l with
  | Learner _ succ fail =>
    match succ with Some (_, _, _, bl) => l_fail bl = None /\ lrn_ok bl | None => True end /\
    match fail with Some (_, _, nl) => lrn_ok nl | None => True end
  end.
Definition olrn_ok (ol : option learner) : Prop := match ol with Some l => lrn_ok l | None => True end.
Definition onofail (ol : option learner) : Prop := match ol with Some l => l_fail l = None | None => True end.
Definition has_bg (ops : list (iref * nat)) : Prop := exists i o, In (i, o) ops /\ i_path i = bgp.
Definition bt_ok (x : task) : Prop := olrn_ok (t_learner x) /\ (has_bg (t_ops x) -> onofail (t_learner x)).
Definition BT (s : state) : Prop := forall t, bt_ok (get_task s t).

Lemma bt_dummy : bt_ok dummy_task.
Proof. split; [exact I|intros _; exact I]. Qed.

Lemma BT_frame : forall s s', s_tasks s' = s_tasks s -> BT s -> BT s'.
Proof. unfold BT. intros s s' E H t. rewrite (get_task_frame _ _ _ E). apply H. Qed.
Lemma BT_upd_task : forall s t f, bt_ok (f (get_task s t)) -> BT s -> BT (upd_task t f s).
Proof. unfold BT. intros s t f Hf H t'. rewrite get_task_upd_task. destruct (Nat.eqb t' t); [exact Hf|apply H]. Qed.
Lemma BT_newtask : forall s x, bt_ok x -> BT s -> BT (s <| s_ntasks ::= S |> <| s_tasks ::= fun l => l ++ [(s_ntasks s, x)] |>).
Proof.
  unfold BT. intros s x Hx H t. rewrite get_task_newtask. specialize (H t). unfold get_task in H.
  destruct (aget Nat.eqb t (s_tasks s)); [exact H|]. destruct (Nat.eqb t (s_ntasks s)); [exact Hx|exact bt_dummy].
Qed.

Lemma has_bg_filter : forall f l, has_bg (filter f l) -> has_bg l.
Proof. intros f l [i [o [Hin Hp]]]. apply filter_In in Hin. exists i, o. tauto. Qed.
Lemma has_bg_app : forall l i o, i_path i <> bgp -> has_bg (l ++ [(i, o)]) -> has_bg l.
Proof.
  intros l i o Hne [i' [o' [Hin Hp]]]. apply in_app_or in Hin. destruct Hin as [Hin|[E|[]]]; [exists i', o'; auto|].
  inversion E; subst. contradiction.
Qed.
Lemma has_bg_retarget : forall lk l, has_bg (map (fun '(i, o) => (mkI lk (i_path i), o)) l) -> has_bg l.
Proof.
  intros lk l [i [o [Hin Hp]]]. apply in_map_iff in Hin. destruct Hin as [[i0 o0] [E Hin]]. injection E as E1 E2. subst i.
  exists i0, o0. split; [exact Hin|exact Hp].
Qed.

Ltac t_BT :=
  intros;
  lazymatch goal with
  | |- BT (upd_task ?t _ _) =>
    match goal with H : BT _ |- _ =>
      apply BT_upd_task;
      [ first [ exact (H t)
              | (destruct (H t) as [? ?]; split; cbn; [first [assumption | exact I] | first [assumption | (intros; exact I)]])
              | (destruct (H t) as [? ?]; split; cbn; [assumption | let Hb := fresh in intro Hb; apply has_bg_filter in Hb; auto]) ]
      | assumption ] end
  | |- _ => (eapply BT_frame; [|eassumption]); frame_eq
  end.
Ltac bt_go0 := inv_go fail t_BT.

Lemma BT_ct_prefix : forall t b s, BT s -> BT (ct_prefix t b s).
Proof. intros t b s H. unfold ct_prefix. bt_go0. Qed.

(* a new task with its first operation *)
Lemma BT_new_task_op : forall s x prio i m,
  aget Nat.eqb (s_ntasks s) (s_tasks s) = None ->
  olrn_ok (t_learner x) -> t_ops x = [] -> (i_path i = bgp -> onofail (t_learner x)) -> BT s ->
  BT (fst (new_operation (s_ntasks s) prio i m (s <| s_ntasks ::= S |> <| s_tasks ::= fun l => l ++ [(s_ntasks s, x)] |>))).
Proof.
  intros s x prio i m Hfresh Hl Ho Hb H. unfold new_operation. cbn [fst]. set (bt := s_ntasks s).
  set (sN := s <| s_ntasks ::= S |> <| s_tasks ::= fun l => l ++ [(bt, x)] |>).
  assert (HN : BT sN) by (apply BT_newtask; [split; [exact Hl|intros [i' [o' [Hin _]]]; rewrite Ho in Hin; destruct Hin]|exact H]).
  assert (Eg : get_task sN bt = x) by (unfold sN, bt; rewrite get_task_newtask, Hfresh, Nat.eqb_refl; reflexivity).
  apply BT_upd_task; [|eapply BT_frame; [|exact HN]; reflexivity].
  rewrite (get_task_frame sN) by reflexivity. rewrite Eg. split; [exact Hl|]. cbn [t_ops t_learner set]. rewrite Ho.
  intros [i' [o' [Hin Hp]]]. destruct Hin as [E|[]]. inversion E; subst i' o'. exact (Hb Hp).
Qed.

Lemma lrn_ok_succ : forall l bidx bdur btm bl, lrn_ok l -> l_succ l = Some (bidx, bdur, btm, bl) -> l_fail bl = None /\ lrn_ok bl.
Proof. intros [id succ fail] bidx bdur btm bl H E. cbn in *. subst succ. exact (proj1 H). Qed.
Lemma lrn_ok_fail : forall l d tm nl, lrn_ok l -> l_fail l = Some (d, tm, nl) -> lrn_ok nl.
Proof. intros [id succ fail] d tm nl H E. cbn in *. subst fail. exact (proj2 H). Qed.

Lemma BT_schedule : forall t s, BT s -> BT (schedule t s).
Proof. intros. bt_go0. Qed.

Lemma BT_ct_learner : forall t r b x p k s,
  (t < s_ntasks s)%nat -> aget Nat.eqb (s_ntasks s) (s_tasks s) = None ->
  olrn_ok (t_learner x) -> (has_bg (t_ops (get_task s t)) -> onofail (t_learner x)) ->
  BT s -> BT (fst (ct_learner t r b x p k s)).
Proof.
  intros t r b x p k s Ht Hfresh Hlx Hbx H. unfold ct_learner.
  destruct (t_learner x) as [l|] eqn:El; [|cbn [fst]; bt_go0]. cbn in Hlx, Hbx.
  assert (Hset : forall s0 lr, BT s0 -> t_ops (get_task s0 t) = t_ops (get_task s t) -> olrn_ok lr -> (has_bg (t_ops (get_task s t)) -> onofail lr) ->
            BT (upd_task t (fun x => x <| t_learner := lr |>) s0)).
  { intros s0 lr H0 Eo A B. apply BT_upd_task; [|exact H0]. split; [exact A|]. cbn [t_ops t_learner set]. rewrite Eo. exact B. }
  destruct (resp_success r).
  - cbv zeta. set (s1 := upd_task t _ (emit _ s)).
    assert (H1 : BT s1) by (unfold s1; apply Hset; [bt_go0|reflexivity|exact I|intros _; exact I]).
    destruct (l_succ l) as [[[[bidx bdur] btimeout] bl]|] eqn:Es; [|exact H1].
    destruct (lrn_ok_succ _ _ _ _ _ Hlx Es) as [Hnf Hbl].
    destruct (Nat.eqb (p_maxbg p) 0); [cbn [fst]; bt_go0|].
    set (s2 := get_or_create_invocation _ _ s1). assert (H2 : BT s2) by (unfold s2; bt_go0).
    destruct (goc_frames (mkSK (sk_pk k) (nth bidx (p_scs p) 0%N)) [4294967295%N] s1) as [G1 _].
    destruct (get_or_create_invocation_tasks (mkSK (sk_pk k) (nth bidx (p_scs p) 0%N)) [4294967295%N] s1) as [_ [_ G4]]. fold s2 in G1, G4.
    assert (Hf2 : aget Nat.eqb (s_ntasks s2) (s_tasks s2) = None).
    { rewrite G4, G1. unfold s1. cbn. rewrite (aget_aset_other Nat.eqb nat_eqb_eq); [exact Hfresh|]. lia. }
    clearbody s2. destruct (Nat.leb _ _); [cbn [fst]; bt_go0|]. cbv zeta.
    match goal with |- BT (fst (let '(s, _) := new_operation ?bt ?prio ?bi true ?sN in _)) =>
      pose proof (BT_new_task_op s2 (mkTask [] (t_instance x) (t_digest x) (Some true) btimeout (t_qts x) (t_suffix x) None 0 bdur (Some bl) None 0) prio bi true Hf2 Hbl eq_refl (fun _ => Hnf) H2) as H3 end.
    destruct (new_operation (s_ntasks s2) _ _ true _) as [s3 o3]. cbn [fst] in *. apply BT_schedule. exact H3.
  - destruct b; cbv zeta.
    + destruct (l_fail l) as [[[d tm] nl]|] eqn:Ef; cbn [fst].
      * apply Hset; [bt_go0|reflexivity|exact (lrn_ok_fail _ _ _ _ Hlx Ef)|]. intro Hb. specialize (Hbx Hb). congruence.
      * apply Hset; [bt_go0|reflexivity|exact I|intros _; exact I].
    + cbn [fst]. apply Hset; [bt_go0|reflexivity|exact I|intros _; exact I].
Qed.

Lemma BT_ct_tail : forall t r x p k s retry, BT s -> BT (ct_tail t r x p k s retry).
Proof.
  intros t r x p k s retry H. unfold ct_tail. destruct retry as [[d tm]|]; [|bt_go0]. cbv zeta.
  set (lk := mkSK (sk_pk k) (largest_sc p)). set (old := t_ops (get_task s t)).
  destruct (goc_fold_frames lk old s) as [G1 _]. set (s6 := fold_left _ old s) in *.
  assert (H6 : BT s6) by (unfold s6; bt_go0).
  assert (Eold : old = t_ops (get_task s6 t)) by (unfold old; symmetry; f_equal; apply get_task_frame; exact G1).
  clearbody s6. clear H. clearbody old. subst old.
  set (s7 := upd_task t _ s6).
  assert (H7 : BT s7).
  { unfold s7. apply BT_upd_task; [|exact H6]. destruct (H6 t) as [A B]. split; [exact A|]. cbn [t_ops t_learner set].
    intro Hb. apply B. eapply has_bg_retarget. exact Hb. }
  clearbody s7. fold (retarget_fold lk (t_ops (get_task s6 t)) s7).
  assert (H8 : BT (retarget_fold lk (t_ops (get_task s6 t)) s7)).
  { generalize (t_ops (get_task s6 t)). intro l. revert H7. generalize s7. induction l as [|[i o] l IH]; intros a Ha; cbn [retarget_fold fold_left]; [exact Ha|].
    apply IH. t_BT. }
  set (s8 := retarget_fold _ _ s7) in *. clearbody s8. unfold report_non_final_stage_change. bt_go0.
Qed.

Lemma BT_complete_task : forall t r b s, W s -> (t < s_ntasks s)%nat -> BT s -> BT (complete_task t r b s).
Proof.
  intros t r b s HW Ht H. rewrite complete_task_eq2. destruct (t_resp (get_task s t)); [exact H|]. cbv zeta.
  pose proof (BT_ct_prefix t b s H) as H4. destruct (ct_prefix_frames t b s) as [[K1 [K2 _]] _].
  assert (HW4 : W (ct_prefix t b s)) by (apply (W_of_WL_step t s _ HW Ht); intro HWL; unfold ct_prefix; w_go2).
  assert (Hn4 : s_ntasks (ct_prefix t b s) = s_ntasks s).
  { assert (Hk : keeps_counts (s_ntasks s) (s_nops s) (ct_prefix t b s)); [|exact (proj1 Hk)].
    assert (H0 : keeps_counts (s_ntasks s) (s_nops s) s) by (split; reflexivity). unfold ct_prefix. fr_go (keeps_counts (s_ntasks s) (s_nops s)) t_counts. }
  set (s4 := ct_prefix t b s) in *. clearbody s4.
  destruct (get_pq s4 _) as [p|]; [|t_BT].
  destruct (H t) as [A B].
  pose proof (BT_ct_learner t r b (get_task s t) p (task_scq s t) s4 ltac:(lia) (W_task_fresh _ HW4) A) as H5.
  unfold TKeep in *. rewrite K1 in H5. specialize (H5 B H4).
  destruct (ct_learner t r b (get_task s t) p (task_scq s t) s4) as [s5 retry]. cbn [fst] in H5. apply BT_ct_tail. exact H5.
Qed.

(* ---- with valid indices at hand -------------------------------------------------------------------------------------------------------------- *)
Definition WB (s : state) : Prop := W s /\ BT s.

Lemma W_step1 : forall s s', W s -> (WL [] s -> WL [] s') -> W s'.
Proof. intros s s' H Hf. apply (WL_W []). apply Hf. apply WL_of_W. exact H. Qed.

Lemma WB_complete_task : forall t r b s, (t < s_ntasks s)%nat -> WB s -> WB (complete_task t r b s).
Proof.
  intros t r b s Ht [A B]. split; [apply (W_of_WL_step t s _ A Ht); apply WL_complete_task; left; reflexivity|apply BT_complete_task; assumption].
Qed.

Lemma WB_cancel_all_queued : forall i r s, WB s -> WB (cancel_all_queued i r s).
Proof.
  intros i r s H. rewrite cancel_all_queued_eq. apply cancel_go_closed; [|exact H].
  intros s1 d v o tl H1 Hin Hq. apply WB_complete_task; [|exact H1]. exact (W_pick_qop _ _ _ _ _ (proj1 H1) Hin Hq).
Qed.

Lemma BT_operation_remove : forall o s, W s -> op_alive s o = true -> BT s -> BT (operation_remove o s).
Proof.
  intros o s HW Ha H. pose proof (W_pick_op _ _ HW Ha) as Hlt.
  unfold operation_remove. cbv zeta.
  match goal with |- BT (upd_task ?t _ (set s_ops _ ?e)) => assert (H1 : BT e) end.
  { destruct (Nat.eqb _ 1); [apply BT_complete_task; [exact HW|exact Hlt|exact H]|].
    unfold task_stage. destruct (t_resp (get_task s (o_task (get_op s o)))); [destruct (t_worker (get_task s (o_task (get_op s o)))); exact H|].
    destruct (t_worker (get_task s (o_task (get_op s o)))) as [w|]; cbv iota; [bt_go0|].
    match goal with |- BT (fst (fold_left ?g ?l ?a)) => apply (fold_left_pres (fun acc => BT (fst acc)) g l) end; [|cbn [fst]; bt_go0].
    intros [s1 go] j Hs1. cbn [fst] in *. destruct go; [bt_go0|exact Hs1]. }
  match goal with |- BT (upd_task ?t _ (set s_ops _ ?e)) => set (s1 := e) in * end. clearbody s1. t_BT.
Qed.

Lemma WB_run_entry : forall e s, In e (cleanup_entries s) -> WB s -> WB (run_entry e s).
Proof.
  intros e s Hin [HW H]. split; [apply (W_step1 s); [exact HW|apply WL_run_entry; exact Hin]|].
  destruct e as [z ce]. unfold run_entry. cbn [fst snd]. destruct ce as [o|w|k].
  - apply BT_operation_remove; [apply (W_step1 s); [exact HW|intro HWL; w_go2]|rewrite op_alive_upd_op; eapply cleanup_entry_op_alive; exact Hin|bt_go0].
  - unfold remove_stale_worker, mark_terminating. cbv zeta.
    set (s1 := upd_worker w (fun k => k <| k_term := true |>) (upd_worker w (fun k => k <| k_cleanup := None |>) s)).
    assert (H1 : WB s1) by (unfold s1; split; [apply (W_step1 s); [exact HW|intro HWL; w_go2]|bt_go0]). clearbody s1.
    set (s2 := match k_task (get_worker s1 w) with None => s1 | Some t => complete_task t (mkResp cUNAVAILABLE 0 0) false s1 end).
    assert (H2 : BT s2).
    { unfold s2. destruct (k_task (get_worker s1 w)) as [t|] eqn:Ek; [|exact (proj2 H1)].
      apply BT_complete_task; [exact (proj1 H1)|exact (W_pick_worker _ _ _ (proj1 H1) Ek)|exact (proj2 H1)]. }
    clearbody s2. bt_go0.
  - unfold scq_remove. cbv zeta. set (s0 := upd_scq k (fun q => q <| q_cleanup := None |>) s).
    assert (H0 : WB s0) by (unfold s0; split; [apply (W_step1 s); [exact HW|intro HWL; w_go2]|bt_go0]). clearbody s0.
    pose proof (proj2 (WB_cancel_all_queued (mkI k []) (mkResp cUNAVAILABLE 0 0) s0 H0)) as H1.
    set (s1 := cancel_all_queued _ _ s0) in *. clearbody s1. bt_go0.
Qed.

Lemma WB_enter : forall t s, WB s -> WB (enter t s).
Proof.
  intros t s H. split; [apply (W_step1 s); [exact (proj1 H)|apply WL_enter]|]. unfold enter. destruct (s_now s <? t); [|exact (proj2 H)]. cbv zeta.
  assert (Hc : WB (cleanup_run (S (List.length (s_ops (s <| s_now := t |>)) + List.length (s_scqs (s <| s_now := t |>)) + List.length (flat_map (fun '(_, q) => q_workers q) (s_scqs (s <| s_now := t |>))))) (s <| s_now := t |>))); [|exact (proj2 Hc)].
  apply cleanup_run_closed; [intros s1 w [A B]; split; [apply (W_step1 s1); [exact A|intro HWL; w_go2]|bt_go0] | intros; apply WB_run_entry; assumption | destruct H as [A B]; split; [apply (W_step1 s); [exact A|intro HWL; w_go2]|bt_go0]].
Qed.

(* ---- Synchronize ---------------------------------------------------------------------------------------------------------------------------------- *)
Lemma BT_get_next_task : forall c w b pr s, BT s -> BT (get_next_task c w b pr s).
Proof. intros. unfold get_next_task, sync_loop, assign_next_queued_task, sync_return_exec, sync_return_idle, finish_sync. bt_go0. Qed.

Lemma WB_get_current_or_next : forall c w b pr s, WB s -> WB (get_current_or_next c w b pr s).
Proof.
  intros c w b pr s [HW H]. split; [apply (W_step1 s); [exact HW|apply WL_get_current_or_next]|]. unfold get_current_or_next.
  destruct (k_task (get_worker s w)) as [t|] eqn:Ek; [|apply BT_get_next_task; exact H].
  destruct (Nat.ltb _ _); [unfold sync_return_exec, finish_sync; bt_go0|].
  apply BT_get_next_task. apply BT_complete_task; [exact HW|exact (W_pick_worker _ _ _ HW Ek)|exact H].
Qed.

Ltac wb_prim H := destruct H as [HWx HBx]; split; [match type of HWx with W ?s0 => apply (W_step1 s0); [exact HWx|let HWL := fresh "HWL" in intro HWL; w_go2] end|bt_go0].

Lemma WB_sync_start : forall c a s, WB s -> WB (sync_start c a s).
Proof.
  intros c a s H. apply sync_start_closed; try exact H.
  - intros s0 code H0. unfold ret. wb_prim H0.
  - intros s0 k H0. wb_prim H0.
  - intros s0 k b H0. unfold add_scq. wb_prim H0.
  - intros s0 k l m b H0. unfold add_pq. wb_prim H0.
  - intros s0 w H0. wb_prim H0.
  - intros s0 k w n H0. wb_prim H0.
  - intros s0 i H0. wb_prim H0.
  - intros s0 w code H0. unfold sync_return_err, finish_sync. wb_prim H0.
  - intros s0 w b pr H0. apply WB_get_current_or_next. exact H0.
  - intros s0 w b pr [A B]. split; [apply (W_step1 s0); [exact A|apply WL_get_next_task]|apply BT_get_next_task; exact B].
  - intros s0 w d z H0. unfold finish_sync. wb_prim H0.
  - intros s0 w t r H0 Hk. apply WB_complete_task; [exact (W_pick_worker _ _ _ (proj1 H0) Hk)|exact H0].
Qed.

(* ---- Execute: the hypotheses on the request --------------------------------------------------------------------------------------------------- *)
Definition exec_bg_ok (a : exec_args) : Prop := x_keys a <> bgp /\ lrn_ok (snd (x_sel a)).

Lemma BT_exec_start : forall c a s, exec_bg_ok a -> W s -> BT s -> BT (exec_start c a s).
Proof.
  intros c a s [Hk Hl] HW H. unfold exec_start.
  destruct (aget dkey_eqb _ _) as [t0|].
  - cbv zeta. set (s1 := get_or_create_invocation _ _ (emit _ s)). assert (H1 : BT s1) by (unfold s1; bt_go0). clearbody s1.
    destruct (aget iref_eqb _ _); [unfold wait_execution_begin, stream_iter; bt_go0|].
    unfold new_operation. cbv iota beta.
    match goal with |- BT (wait_execution_begin _ _ (match task_stage (get_task ?e t0) with _ => _ end)) => assert (H2 : BT e) end.
    { apply BT_upd_task; [|eapply BT_frame; [|exact H1]; reflexivity]. rewrite (get_task_frame s1) by reflexivity.
      destruct (H1 t0) as [A B]. split; [exact A|]. cbn [t_ops t_learner set]. intro Hb. apply B. eapply has_bg_app; [|exact Hb]. exact Hk. }
    match goal with |- BT (wait_execution_begin _ _ (match task_stage (get_task ?e t0) with _ => _ end)) => set (s2 := e) in * end. clearbody s2.
    unfold wait_execution_begin, stream_iter. bt_go0.
  - destruct (longest_prefix_pq s _ _) as [p|]; [|unfold ret; bt_go0].
    destruct (x_sel a) as [[[idx dur] timeout] l]. cbn [snd] in Hl. cbv zeta.
    set (s1 := emit (OGhost GSelect) s).
    set (x := mkTask [] (x_instance a) (x_digest a) (Some (x_dnc a)) timeout (s_now s1) (drop_prefix (pk_prefix (p_key p)) (x_instance a)) None 0 dur (Some l) None 0).
    set (t := s_ntasks s1).
    set (sN := s1 <| s_ntasks ::= S |> <| s_tasks ::= fun ts => ts ++ [(t, x)] |>).
    assert (HN : BT sN) by (unfold sN, t; apply BT_newtask; [split; [exact Hl|intros [i' [o' [[] _]]]]|unfold s1; bt_go0]).
    assert (Eg : get_task sN t = x) by (unfold sN, t; rewrite get_task_newtask; change (s_tasks s1) with (s_tasks s); change (s_ntasks s1) with (s_ntasks s); rewrite (W_task_fresh s HW), Nat.eqb_refl; reflexivity).
    set (s3 := if x_dnc a then sN else sN <| s_inflight ::= aset dkey_eqb (x_instance a, x_digest a) t |>).
    assert (H3 : BT s3 /\ get_task s3 t = x) by (unfold s3; destruct (x_dnc a); [split; assumption|split; [eapply BT_frame; [|exact HN]; reflexivity|exact Eg]]).
    destruct H3 as [H3 Eg3]. clearbody s3.
    set (s4 := get_or_create_invocation (mkSK (p_key p) (nth idx (p_scs p) 0%N)) (x_keys a) s3).
    assert (H4 : BT s4) by (unfold s4; bt_go0).
    assert (Eg4 : get_task s4 t = x) by (unfold s4; rewrite (get_task_frame s3); [exact Eg3|apply goc_frames]).
    clearbody s4. unfold new_operation. cbv iota beta.
    match goal with |- BT (wait_execution_begin _ _ (schedule t ?e)) => assert (H5 : BT e) end.
    { apply BT_upd_task; [|eapply BT_frame; [|exact H4]; reflexivity]. rewrite (get_task_frame s4) by reflexivity. rewrite Eg4.
      split; [exact Hl|]. cbn [t_ops t_learner set x]. intros [i' [o' [[E|[]] Hp]]]. inversion E; subst i'. cbn in Hp. contradiction. }
    match goal with |- BT (wait_execution_begin _ _ (schedule t ?e)) => set (s5 := e) in * end. clearbody s5.
    unfold wait_execution_begin, stream_iter. bt_go0.
Qed.

(* ---- events and runs ---------------------------------------------------------------------------------------------------------------------------------- *)
Definition ev_bg_ok (e : event) : Prop := match e with EStartExecute _ a _ => exec_bg_ok a | _ => True end.
Definition bg_scripts_ok (evs : list (event * list (nat * wref))) : Prop := forall eh, In eh evs -> ev_bg_ok (fst eh).

Lemma BT_terminate_fold : forall p l s waits,
  BT s -> BT (fst (fold_left (fun (acc : state * list (nat * nat)) w =>
        let '(s, waits) := acc in
        if matches w p then
          let s := mark_terminating w s in
          match k_task (get_worker s w) with
          | Some tk => (s, waits ++ [(tk, t_gen (get_task s tk))])
          | None => (if k_wait (get_worker s w) then wake_up w s else s, waits)
          end
        else (s, waits)) l (s, waits))).
Proof. intros p l s waits H. apply (fr_terminate_fold BT); try (intros; t_BT); try exact H. Qed.

Lemma WB_step_core : forall e s, ev_bg_ok e -> WB s -> WB (step_core e s).
Proof.
  intros e s Hev H. split; [apply (W_step1 s); [exact (proj1 H)|apply WL_step_core]|].
  assert (He : forall t, WB (enter t s)) by (intro t; apply WB_enter; exact H).
  destruct e; cbn [ev_bg_ok] in Hev; unfold step_core.
  - (* Execute *) destruct (He t) as [A B]. apply BT_exec_start; assumption.
  - destruct (He t) as [_ B]. set (s1 := enter t s) in *. clearbody s1. cbv zeta. unfold ret. bt_go0.
  - (* Synchronize *) exact (proj2 (WB_sync_start c a _ (He t))).
  - destruct (He t) as [_ B]. set (s1 := enter t s) in *. clearbody s1. unfold kill_lookup, ret. bt_go0.
  - destruct (He t) as [A B]. set (s1 := enter t s) in *. clearbody s1. cbv zeta.
    destruct (negb (scq_exists s1 k)); [unfold ret; bt_go0|]. destruct (negb _); [unfold ret; bt_go0|].
    pose proof (proj2 (WB_cancel_all_queued (mkI k []) (mkResp code 0 0) s1 (conj A B))) as Hc. set (s2 := cancel_all_queued _ _ s1) in *. clearbody s2. unfold ret. bt_go0.
  - destruct (He t) as [_ B]. set (s1 := enter t s) in *. clearbody s1. cbv zeta. unfold ret, wake_up. bt_go0.
  - destruct (He t) as [_ B]. set (s1 := enter t s) in *. clearbody s1. cbv zeta. unfold ret. bt_go0.
  - (* terminate *)
    cbv zeta. destruct (He t) as [_ B]. set (s1 := enter t s) in *. clearbody s1.
    match goal with |- BT (match ?x with _ => _ end) => rewrite (surjective_pairing x) end. cbv beta iota.
    match goal with |- BT (set_call _ _ (fst (fold_left ?g ?l ?a))) => assert (H2 : BT (fst (fold_left g l a))) by (apply BT_terminate_fold; exact B) end.
    t_BT.
  - destruct (_ || _); [destruct H as [_ B]; unfold ret; bt_go0|]. cbv zeta. destruct (He t) as [_ B]. set (s1 := enter t s) in *. clearbody s1.
    destruct (get_pq s1 k); unfold ret, add_pq; [bt_go0|].
    match goal with |- BT (set_call _ _ (emit _ (fold_left ?g ?l ?a))) => assert (H2 : BT (fold_left g l a)) end.
    { apply fold_left_pres; [intros a0 sc Ha0; unfold add_scq; bt_go0|bt_go0]. }
    bt_go0.
  - destruct (He t) as [_ B]. unfold ret. bt_go0.
  - (* EEnter *)
    cbv zeta. destruct (negb (at_gate s (get_call s c))); [exact (proj2 H)|]. destruct (He t) as [A B]. set (s1 := enter t s) in *. clearbody s1.
    destruct (get_call s c); try exact B;
      try (unfold stream_iter, stream_return, kill_lookup, wait_execution_begin, stream_iter, ret, sync_loop, assign_next_queued_task, sync_return_exec, sync_return_err, sync_return_idle, finish_sync, maybe_dequeue; bt_go0; fail).
    destruct (op_alive s1 name) eqn:Ea; [|bt_go0].
    pose proof (BT_complete_task (o_task (get_op s1 name)) (mkResp code 0 0) false s1 A (W_pick_op _ _ A Ea) B) as Hc.
    set (s2 := complete_task _ _ false s1) in *. clearbody s2. unfold ret. bt_go0.
  - (* ETimer *)
    cbv zeta. destruct (at_gate s (get_call s c)); [exact (proj2 H)|]. destruct (He t) as [_ B]. destruct H as [_ B0]. set (s1 := enter t s) in *. clearbody s1.
    destruct (get_call s c); unfold stream_iter, sync_return_exec, sync_return_idle, finish_sync, maybe_dequeue; bt_go0.
  - (* ECancel *)
    cbv zeta. destruct (at_gate s (get_call s c)); [exact (proj2 H)|]. destruct H as [_ B]. destruct (get_call s c); unfold ret; bt_go0.
Qed.

Lemma WB_step : forall s eh, ev_bg_ok (fst eh) -> WB s -> WB (fst (step s eh)).
Proof.
  intros s eh Hev [HW H]. split; [apply W_step; exact HW|]. unfold step. cbn [fst].
  set (s0 := s <| s_hints := snd eh |> <| s_out := [] |>).
  assert (H0 : WB s0) by (split; [apply (W_step1 s); [exact HW|intro HWL; eapply WL_frame; [..|exact HWL]; reflexivity]|eapply BT_frame; [|exact H]; reflexivity]).
  pose proof (proj2 (WB_step_core (fst eh) s0 Hev H0)) as H1. set (s1 := step_core (fst eh) s0) in *. clearbody s1.
  assert (H2 : BT (auto_returns s1)) by (apply (fr_auto_returns BT); try (intros; t_BT); try (intros; unfold ret; bt_go0); try exact H1).
  eapply BT_frame; [|exact H2]. reflexivity.
Qed.

Lemma BT_init : forall cfg t0, BT (init cfg t0).
Proof. intros cfg t0 t. unfold init, get_task. cbn. exact bt_dummy. Qed.

Lemma BT_run_from : forall evs s, bg_scripts_ok evs -> WB s -> WB (fst (run s evs)).
Proof.
  induction evs as [|eh evs IH]; intros s Hok H; [exact H|]. cbn [run].
  pose proof (WB_step s eh (Hok eh (or_introl eq_refl)) H) as H1.
  destruct (step s eh) as [s1 o]. cbn [fst] in H1.
  specialize (IH s1 (fun e He => Hok e (or_intror He)) H1). destruct (run s1 evs) as [s2 os]. exact IH.
Qed.

Lemma BT_run : forall cfg t0 evs, bg_scripts_ok evs -> BT (fst (run (init cfg t0) evs)).
Proof. intros cfg t0 evs H. apply (BT_run_from evs (init cfg t0) H). split; [apply W_init|apply BT_init]. Qed.
