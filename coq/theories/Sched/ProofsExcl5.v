(* C01, exclusivity layer: completing a task. *)
From Coq Require Import Lia.
From VF Require Export Sched.ProofsExcl4.
Open Scope Z_scope.

(* re-targeting an operation of a task in its critical section that is in no queue *)
Lemma X_upd_op_inv_ext : forall ext s o i',
  In (tsk s o) ext -> (forall i, ~ In o (v_qops (get_inv s i))) ->
  X ext s -> X ext (upd_op o (fun y => y <| o_inv := i' |>) s).
Proof.
  intros ext s o i' Hin Hnq HX. pose proof HX as [A B C Q Qn L O1 O2].
  set (s' := upd_op o _ s).
  assert (Hgo : forall o', get_op s' o' = if Nat.eqb o' o && op_alive s o then (get_op s o) <| o_inv := i' |> else get_op s o') by (intro; apply get_op_upd_op).
  assert (Hal : forall o', op_alive s' o' = op_alive s o') by (intro; apply op_alive_upd_op).
  assert (Et : s_tasks s' = s_tasks s) by (unfold s'; rewrite upd_op_eq; reflexivity).
  assert (Ei : s_invs s' = s_invs s) by (unfold s'; rewrite upd_op_eq; reflexivity).
  assert (Es : s_scqs s' = s_scqs s) by (unfold s'; rewrite upd_op_eq; reflexivity).
  assert (Hne : forall o', o' <> o -> get_op s' o' = get_op s o').
  { intros o' Hn. rewrite Hgo. destruct (Nat.eqb o' o) eqn:E; [apply Nat.eqb_eq in E; contradiction|reflexivity]. }
  assert (Htk : forall o', tsk s' o' = tsk s o').
  { intro o'. unfold tsk. rewrite Hgo. destruct (Nat.eqb o' o && op_alive s o) eqn:E; [|reflexivity].
    apply andb_true_iff in E. destruct E as [E _]. apply Nat.eqb_eq in E. subst. reflexivity. }
  apply (X_transfer ext s s'); try exact HX.
  - intros t _. rewrite (get_task_frame _ _ _ Et). repeat split; reflexivity.
  - intros o' Ha. left. rewrite Hal in Ha. split; [exact Ha|]. split.
    + intros Hn. apply Hne. intros ->. contradiction.
    + intros _. apply Htk.
  - intros o' Ha _. rewrite Hal. exact Ha.
  - intros i o' Hq. rewrite (get_inv_frame _ _ _ Ei) in Hq. left. split; [exact Hq|]. destruct (Q _ _ Hq) as [E _]. split; [rewrite Hal; exact E|].
    rewrite Hne; [reflexivity|]. intros ->. exact (Hnq _ Hq).
  - intros i. rewrite (get_inv_frame _ _ _ Ei). apply Qn.
  - intros w He _ _. rewrite (worker_exists_frame _ _ _ Es), (get_worker_frame' _ _ _ Es). auto.
  - intros w t He Hk _. rewrite (worker_exists_frame _ _ _ Es) in He. rewrite (get_worker_frame' _ _ _ Es) in Hk. auto.
  - intros w. rewrite (get_worker_frame' _ _ _ Es). apply C.
Qed.

Lemma XS_unassign_prim : forall ext w s,
  (forall t0, k_task (get_worker s w) = Some t0 -> In t0 ext) ->
  XS ext s -> XS ext (upd_worker w (fun k => k <| k_task := None |>) s).
Proof.
  intros ext w s Hk [A [B [C [N [T D]]]]]. split; [apply St_upd_worker; exact A|].
  split; [eapply ON_frame; [ | |exact B]; rewrite upd_worker_eq; reflexivity|].
  split; [apply NPh_upd_worker; exact C|]. split; [eapply XN_frame; [|exact N]; rewrite upd_worker_eq; reflexivity|].
  split; [eapply OT_frame; [ | |exact T]; rewrite upd_worker_eq; reflexivity|]. apply X_upd_worker; [| | |exact D]; cbn.
  - intros t' Ht'. discriminate.
  - intros t0 Ht0. right. apply Hk. exact Ht0.
  - intros _. exact I.
Qed.

(* ---- a new task ---------------------------------------------------------------------------------------------- *)
Lemma Lc_fresh : forall s x, t_worker x = None -> t_resp x = None -> t_ops x = [] -> W s ->
  Lc (s_ntasks s) None None true (s <| s_ntasks ::= S |> <| s_tasks ::= fun l => l ++ [(s_ntasks s, x)] |>).
Proof.
  intros s x Hw Hr Ho HW. set (s' := s <| s_ntasks ::= S |> <| s_tasks ::= _ |>).
  assert (Ht : get_task s' (s_ntasks s) = x).
  { unfold s'. rewrite get_task_newtask, (W_task_fresh s HW), Nat.eqb_refl. reflexivity. }
  assert (Hop : forall o, op_alive s' o = true -> tsk s' o <> s_ntasks s).
  { intros o Ha. change (op_alive s' o) with (op_alive s o) in Ha. change (tsk s' o) with (tsk s o).
    pose proof (W_pick_op s o HW Ha). unfold tsk. lia. }
  constructor; [unfold s'; cbn; lia|rewrite Ht; exact Hw|rewrite Ht; exact Hr| | | | | ].
  - intros w He Hk. exfalso. change (get_worker s' w) with (get_worker s w) in Hk. pose proof (W_pick_worker s w _ HW Hk). lia.
  - intros w Ew. discriminate.
  - intros _ o i v Ha Hto. exfalso. exact (Hop o Ha Hto).
  - intros o Ha Hto. exfalso. exact (Hop o Ha Hto).
  - intros i o Hin. rewrite Ht, Ho in Hin. destruct Hin.
Qed.

Lemma XS_newtask : forall ext s x, t_ops x = [] -> XS ext s ->
  XS (s_ntasks s :: ext) (s <| s_ntasks ::= S |> <| s_tasks ::= fun l => l ++ [(s_ntasks s, x)] |>).
Proof.
  intros ext s x Hx [A [B [C [N [T D]]]]]. split; [eapply St_frame; [ | | |exact A]; reflexivity|].
  split; [eapply ON_frame; [ | |exact B]; reflexivity|]. split; [eapply NPh_frame; [|exact C]; reflexivity|].
  split; [apply XN_newtask; assumption|]. split; [apply OT_newtask; exact T|apply X_newtask; exact D].
Qed.

Lemma NoDup_snoc : forall (l : list nat) x, ~ In x l -> NoDup l -> NoDup (l ++ [x]).
Proof.
  intros l x Hn Hd. rewrite <- (rev_involutive (l ++ [x])). apply NoDup_rev. rewrite rev_app_distr. cbn.
  constructor; [rewrite <- in_rev; exact Hn|apply NoDup_rev; exact Hd].
Qed.

Lemma ON_fresh : forall s, ON s -> op_alive s (s_nops s) = false.
Proof.
  intros s [_ H]. unfold op_alive. destruct (aget Nat.eqb (s_nops s) (s_ops s)) eqn:E; [|reflexivity].
  apply (aget_In Nat.eqb nat_eqb_eq) in E. apply (in_map fst) in E. apply H in E. cbn in E. lia.
Qed.

Lemma XS_new_operation : forall ext t prio i m s,
  In t ext -> (t < s_ntasks s)%nat -> (forall j o, In (j, o) (t_ops (get_task s t)) -> op_alive s o = true) ->
  XS ext s -> XS ext (fst (new_operation t prio i m s)).
Proof.
  intros ext t prio i m s Hin Hlt Hal HXS. unfold new_operation. cbn [fst].
  pose proof (ON_fresh s (XS_ON _ _ HXS)) as Hfr.
  assert (Hni : ~ In (s_nops s) (map snd (t_ops (get_task s t)))).
  { intro H. apply in_map_iff in H. destruct H as [[j o] [E H]]. cbn in E. subst. rewrite (Hal _ _ H) in Hfr. discriminate. }
  pose proof (XS_XN _ _ HXS t) as Hnd.
  assert (H1 : XS ext (s <| s_nops ::= S |> <| s_ops ::= fun l => l ++ [(s_nops s, mkOper t prio i 0 m None)] |>)) by t_XS.
  set (s1 := s <| s_nops ::= S |> <| s_ops ::= _ |>) in *.
  change (get_task s t) with (get_task s1 t) in Hni, Hnd. clearbody s1.
  destruct H1 as [A [B [C [N [T D]]]]]. split; [t_St|]. split; [t_ON|]. split; [t_NPh|].
  split; [|split; [t_OT|apply X_upd_task_ext; assumption]].
  apply XN_upd_task; [|exact N]. cbn. rewrite map_app. cbn. apply NoDup_snoc; assumption.
Qed.

Lemma Lc_new_operation_own : forall ext t wo ro uq prio i m s,
  XS ext s -> Lc t wo ro uq s -> Lc t wo ro uq (fst (new_operation t prio i m s)).
Proof.
  intros ext t wo ro uq prio i m s HXS [N W R B A U O1 O2]. unfold new_operation. cbn [fst].
  pose proof (ON_fresh s (XS_ON _ _ HXS)) as Hfr.
  set (o := s_nops s) in *. set (x := mkOper t prio i 0 m None).
  set (s1 := s <| s_nops ::= S |> <| s_ops ::= fun l => l ++ [(o, x)] |>).
  set (s2 := upd_task t _ s1).
  assert (Et : get_task s2 t = (get_task s t) <| t_ops ::= fun l => l ++ [(i, o)] |>).
  { unfold s2. rewrite get_task_upd_task, Nat.eqb_refl. reflexivity. }
  assert (Hgo : forall o', get_op s2 o' = match aget Nat.eqb o' (s_ops s) with Some y => y | None => if Nat.eqb o' o then x else dummy_oper end).
  { intro o'. unfold s2. rewrite (get_op_frame s1) by reflexivity. unfold s1, o. apply get_op_newop. }
  assert (Hal : forall o', op_alive s2 o' = op_alive s o' || Nat.eqb o' o).
  { intro o'. unfold s2. rewrite (op_alive_frame s1) by reflexivity. unfold s1, o. apply op_alive_newop. }
  assert (Hold : forall o', op_alive s o' = true -> get_op s2 o' = get_op s o' /\ op_alive s2 o' = true).
  { intros o' Ha. rewrite Hgo, Hal, Ha. unfold op_alive, get_op in *. destruct (aget Nat.eqb o' (s_ops s)); [auto|discriminate]. }
  assert (Hnew : get_op s2 o = x /\ op_alive s2 o = true).
  { rewrite Hgo, Hal, Nat.eqb_refl, orb_true_r. unfold op_alive in Hfr. destruct (aget Nat.eqb o (s_ops s)); [discriminate|auto]. }
  assert (Hcases : forall o', op_alive s2 o' = true -> op_alive s o' = true \/ o' = o).
  { intros o' Ha. rewrite Hal in Ha. apply orb_true_iff in Ha. destruct Ha as [Ha|Ha]; [auto|right; apply Nat.eqb_eq; exact Ha]. }
  constructor.
  - exact N.
  - rewrite Et. exact W.
  - rewrite Et. exact R.
  - intros w He Hk. apply B; assumption.
  - exact A.
  - intros Huq o' j v Ha Hto Hjv Hin. change (s_invs s2) with (s_invs s) in Hjv.
    destruct (Hcases o' Ha) as [Ha0| ->].
    + destruct (Hold o' Ha0) as [E _]. unfold tsk in Hto. rewrite E in Hto. exact (U Huq o' j v Ha0 Hto Hjv Hin).
    + pose proof (XS_St _ _ HXS) as [_ [_ [Hnd _]]].
      assert (Ev : get_inv s j = v) by (unfold get_inv; rewrite (In_aget_NoDup iref_eqb iref_eqb_eq _ _ _ Hnd Hjv); reflexivity).
      rewrite <- Ev in Hin. destruct (XQ _ _ (XS_X _ _ HXS) _ _ Hin) as [E _]. congruence.
  - intros o' Ha Hto. rewrite Et. cbn. apply in_or_app. destruct (Hcases o' Ha) as [Ha0| ->].
    + left. destruct (Hold o' Ha0) as [E _]. unfold tsk in Hto. rewrite E in *. apply O1; assumption.
    + right. left. destruct Hnew as [E _]. rewrite E. reflexivity.
  - intros j o' Hin. rewrite Et in Hin. cbn in Hin. apply in_app_or in Hin. destruct Hin as [Hin|[Heq|[]]].
    + destruct (O2 j o' Hin) as [Ha0 [Ht0 Ei]]. destruct (Hold o' Ha0) as [E Ha2]. unfold tsk. rewrite E. auto.
    + inversion Heq; subst j o'. destruct Hnew as [E Ha2]. unfold tsk. rewrite E. auto.
Qed.

(* ---- scheduling another task ---------------------------------------------------------------------------------- *)
Lemma Lc_none_nobody : forall t ro uq s w, Lc t None ro uq s -> k_task (get_worker s w) <> Some t.
Proof.
  intros t ro uq s w H Hk. destruct (worker_exists s w) eqn:E.
  - pose proof (LcB _ _ _ _ _ H w E Hk). discriminate.
  - unfold get_worker, worker_exists in *. destruct (aget wref_eqb w (q_workers (get_scq s (w_sk w)))); discriminate.
Qed.

Lemma Lc_assign_unqueued_other : forall t ro uq w bt r s,
  bt <> t -> Lc t None ro uq s -> Lc t None ro uq (assign_unqueued w bt r s).
Proof.
  intros t ro uq w bt r s Hne H. unfold assign_unqueued. cbv zeta.
  destruct (negb (is_phantom w) && _); [t_Lc|]. destruct (t_worker (get_task s bt)); [t_Lc|].
  assert (H1 : Lc t None ro uq (upd_worker w (fun k => k <| k_task := Some bt |>) s)).
  { apply Lc_upd_worker; [|exact H]. cbn. split; intro H0; [congruence|exfalso; exact (Lc_none_nobody _ _ _ _ _ H H0)]. }
  set (s1 := upd_worker w _ s) in *. clearbody s1. lc_go1.
Qed.

Lemma Lc_enqueue_other : forall t wo ro uq o s,
  (op_alive s o = true -> tsk s o <> t) -> Lc t wo ro uq s -> Lc t wo ro uq (enqueue o s).
Proof.
  intros t wo ro uq o s Ho H. unfold enqueue. cbv zeta.
  assert (H1 : Lc t wo ro uq (upd_inv (o_inv (get_op s o)) (fun v => v <| v_qops ::= fun l => l ++ [o] |>) s)).
  { apply Lc_upd_inv; [|exact H]. intros _ v o' Hin. cbn in Hin. apply in_app_or in Hin. destruct Hin as [Hin|[<-|[]]]; auto. }
  set (s1 := upd_inv _ _ s) in *. clearbody s1. lc_go1.
Qed.

Lemma Lc_enqueue_fold_other : forall t wo ro uq l s,
  (forall o, In o l -> op_alive s o = true -> tsk s o <> t) -> Lc t wo ro uq s ->
  Lc t wo ro uq (fold_left (fun s o => enqueue o s) l s).
Proof.
  intros t wo ro uq l. induction l as [|o l IH]; intros s Ho H; cbn [fold_left]; [exact H|].
  destruct (enqueue_reads o s) as [E1 _]. apply IH.
  - intros o' Hin. unfold tsk. rewrite (op_alive_frame _ _ _ E1), (get_op_frame _ _ _ E1). apply Ho. right. exact Hin.
  - apply Lc_enqueue_other; [apply Ho; left; reflexivity|exact H].
Qed.

Lemma Lc_schedule_other : forall t ro uq bt s,
  bt <> t -> (forall o, In o (task_opids s bt) -> op_alive s o = true -> tsk s o <> t) ->
  Lc t None ro uq s -> Lc t None ro uq (schedule bt s).
Proof.
  intros t ro uq bt s Hne Ho H. unfold schedule. cbv zeta.
  destruct (pick_worker s bt _).
  - apply Lc_assign_unqueued_other; [exact Hne|]. unfold wake_up. apply Lc_dequeue_worker. exact H.
  - apply Lc_enqueue_fold_other; assumption.
Qed.

(* ---- the retry block: all operations of the task move to the largest size class ------------------------------ *)
Definition retarget_fold (lk : skey) (l : list (iref * nat)) (s : state) : state :=
  fold_left (fun s '(i, o) => upd_op o (fun y => y <| o_inv := mkI lk (i_path i) |>) s) l s.

Lemma retarget_reads : forall lk l s,
  NoDup (map snd l) ->
  let s' := retarget_fold lk l s in
  s_tasks s' = s_tasks s /\ s_ntasks s' = s_ntasks s /\ s_invs s' = s_invs s /\ s_scqs s' = s_scqs s /\
  (forall o, op_alive s' o = op_alive s o) /\ (forall o, o_task (get_op s' o) = o_task (get_op s o)) /\
  (forall i o, In (i, o) l -> op_alive s o = true -> o_inv (get_op s' o) = mkI lk (i_path i)) /\
  (forall o, ~ In o (map snd l) -> get_op s' o = get_op s o).
Proof.
  intros lk l. induction l as [|[i o] l IH]; intros s Hnd; cbn [retarget_fold fold_left].
  - repeat split; auto. intros i o [].
  - cbn in Hnd. inversion Hnd as [|? ? Hno Hnd']; subst.
    set (s1 := upd_op o _ s). destruct (IH s1 Hnd') as [E1 [E2 [E3 [E4 [E5 [E6 [E7 E8]]]]]]]. fold (retarget_fold lk l s1).
    assert (F1 : s_tasks s1 = s_tasks s) by (unfold s1; rewrite upd_op_eq; reflexivity).
    assert (F2 : s_ntasks s1 = s_ntasks s) by (unfold s1; rewrite upd_op_eq; reflexivity).
    assert (F3 : s_invs s1 = s_invs s) by (unfold s1; rewrite upd_op_eq; reflexivity).
    assert (F4 : s_scqs s1 = s_scqs s) by (unfold s1; rewrite upd_op_eq; reflexivity).
    assert (F5 : forall o', op_alive s1 o' = op_alive s o') by (intro; apply op_alive_upd_op).
    assert (F6 : forall o', get_op s1 o' = if Nat.eqb o' o && op_alive s o then (get_op s o) <| o_inv := mkI lk (i_path i) |> else get_op s o')
      by (intro; apply get_op_upd_op).
    split; [congruence|]. split; [congruence|]. split; [congruence|]. split; [congruence|].
    split; [intro o'; rewrite E5; apply F5|].
    split.
    { intro o'. rewrite E6, F6. destruct (Nat.eqb o' o && op_alive s o) eqn:E; [|reflexivity].
      apply andb_true_iff in E. destruct E as [E _]. apply Nat.eqb_eq in E. subst. reflexivity. }
    split.
    { intros i' o' [Heq|Hin] Ha.
      - inversion Heq; subst i' o'. rewrite (E8 o Hno), F6, Nat.eqb_refl, Ha. reflexivity.
      - apply E7; [exact Hin|rewrite F5; exact Ha]. }
    intros o' Hn. cbn in Hn. rewrite E8 by tauto. rewrite F6. destruct (Nat.eqb o' o) eqn:E; [|reflexivity].
    apply Nat.eqb_eq in E. subst. tauto.
Qed.

Lemma XS_retarget_fold : forall ext lk l s,
  (forall i o, In (i, o) l -> In (tsk s o) ext /\ forall j, ~ In o (v_qops (get_inv s j))) ->
  XS ext s -> XS ext (retarget_fold lk l s).
Proof.
  intros ext lk l. induction l as [|[i o] l IH]; intros s Hl HXS; cbn [retarget_fold fold_left]; [exact HXS|].
  fold (retarget_fold lk l (upd_op o (fun y => y <| o_inv := mkI lk (i_path i) |>) s)).
  destruct (Hl i o (or_introl eq_refl)) as [Hin Hnq].
  apply IH.
  - intros i' o' Hin'. destruct (Hl i' o' (or_intror Hin')) as [H1 H2]. split.
    + unfold tsk. rewrite get_op_upd_op. destruct (Nat.eqb o' o && op_alive s o) eqn:E; [|exact H1].
      apply andb_true_iff in E. destruct E as [E _]. apply Nat.eqb_eq in E. subst. exact H1.
    + intros j. rewrite (get_inv_frame s) by (rewrite upd_op_eq; reflexivity). apply H2.
  - destruct HXS as [A [B [C [N [T D]]]]]. split; [t_St|]. split; [t_ON|]. split; [t_NPh|]. split; [t_XN|]. split; [t_OT|].
    apply X_upd_op_inv_ext; assumption.
Qed.

Lemma Lc_retry_block : forall t lk d tm s,
  XN s -> Lc t None None true s ->
  let old := t_ops (get_task s t) in
  Lc t None None true
    (retarget_fold lk old
       (upd_task t (fun x => x <| t_expdur := d |> <| t_timeout := tm |> <| t_ops := map (fun '(i, o) => (mkI lk (i_path i), o)) old |>) s)).
Proof.
  intros t lk d tm s HN [N W R B A U O1 O2] old.
  set (s1 := upd_task t _ s).
  assert (Hnd : NoDup (map snd old)) by apply HN.
  destruct (retarget_reads lk old s1 Hnd) as [E1 [E2 [E3 [E4 [E5 [E6 [E7 E8]]]]]]].
  set (s2 := retarget_fold lk old s1) in *.
  assert (Et : get_task s2 t = (get_task s t) <| t_expdur := d |> <| t_timeout := tm |> <| t_ops := map (fun '(i, o) => (mkI lk (i_path i), o)) old |>).
  { rewrite (get_task_frame _ _ _ E1). unfold s1. rewrite get_task_upd_task, Nat.eqb_refl. reflexivity. }
  assert (Ha : forall o, op_alive s2 o = op_alive s o) by (intro o; rewrite E5; reflexivity).
  assert (Hk : forall o, tsk s2 o = tsk s o) by (intro o; unfold tsk; rewrite E6; reflexivity).
  assert (Hw : forall w, get_worker s2 w = get_worker s w) by (intro w; apply get_worker_frame'; rewrite E4; reflexivity).
  assert (Hx : forall w, worker_exists s2 w = worker_exists s w) by (intro w; apply worker_exists_frame; rewrite E4; reflexivity).
  constructor.
  - rewrite E2. exact N.
  - rewrite Et. exact W.
  - rewrite Et. exact R.
  - intros w. rewrite Hx, Hw. apply B.
  - intros w Ew. discriminate.
  - intros _ o i v. rewrite Ha, Hk, E3. apply U. reflexivity.
  - intros o Hal Hto. rewrite Ha in Hal. rewrite Hk in Hto. pose proof (O1 o Hal Hto) as Hin. fold old in Hin.
    rewrite (E7 _ _ Hin) by (change (op_alive s1 o) with (op_alive s o); exact Hal). rewrite Et. cbn.
    apply in_map_iff. exists (o_inv (get_op s o), o). split; [reflexivity|exact Hin].
  - intros i o Hin. rewrite Et in Hin. cbn in Hin. apply in_map_iff in Hin. destruct Hin as [[i0 o0] [Heq Hin]]. inversion Heq; subst.
    destruct (O2 i0 o Hin) as [Hal [Hto _]]. rewrite Ha, Hk. split; [exact Hal|]. split; [exact Hto|].
    apply (E7 _ _ Hin). exact Hal.
Qed.
