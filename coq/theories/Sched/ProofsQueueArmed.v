(* C06: a removable size class queue without workers has its removal time-out armed. *)
From Coq Require Import Lia.
From VF Require Export Sched.ProofsAttended.
Open Scope Z_scope.

Definition qa_ok (q : scq) : Prop := q_removable q = true -> q_workers q = [] -> q_cleanup q <> None.
(* [exq]: the queue a Synchronize section (or its removal) is working on *)
Definition QA (exq : option skey) (s : state) : Prop := forall k, Some k <> exq -> scq_exists s k = true -> qa_ok (get_scq s k).

Lemma QA_frame : forall exq s s', s_scqs s' = s_scqs s -> QA exq s -> QA exq s'.
Proof. unfold QA. intros exq s s' E H k. rewrite (scq_exists_frame _ _ _ E), (get_scq_frame _ _ _ E). apply H. Qed.
Lemma QA_weaken : forall k s, QA None s -> QA (Some k) s.
Proof. unfold QA. intros k s H k' _. apply H. discriminate. Qed.

Lemma QA_upd_scq : forall exq s k f,
  (Some k = exq \/ forall q, qa_ok q -> qa_ok (f q)) -> QA exq s -> QA exq (upd_scq k f s).
Proof.
  unfold QA. intros exq s k f Hf H k' Hne. rewrite scq_exists_upd_scq, get_scq_upd_scq. intro He.
  destruct (skey_eqb k' k && scq_exists s k) eqn:E; [|apply H; assumption].
  apply andb_true_iff in E. destruct E as [E _]. apply skey_eqb_eq in E. subst k'.
  destruct Hf as [Hf|Hf]; [congruence|]. apply Hf. apply H; assumption.
Qed.

Lemma QA_upd_worker : forall exq s w f, QA exq s -> QA exq (upd_worker w f s).
Proof.
  intros exq s w f H. unfold upd_worker. destruct (worker_exists s w) eqn:Ee; [|exact H].
  apply QA_upd_scq; [|exact H]. right. intros q Hq. unfold qa_ok in *. cbn. intros Hr Hw. exfalso.
  destruct (q_workers q) as [|[w0 k0] l]; cbn in Hw; [discriminate|destruct (wref_eqb w w0); discriminate].
Qed.

Lemma QA_newscq : forall exq s k b, (b = false \/ Some k = exq) -> QA exq s ->
  QA exq (s <| s_scqs ::= fun l => l ++ [(k, mkScq b None [] 0 [])] |> <| s_invs ::= fun l => l ++ [(mkI k [], new_inv 0)] |>).
Proof.
  unfold QA. intros exq s k b Hb H k' Hne. rewrite get_scq_app.
  assert (Hex : scq_exists (s <| s_scqs ::= fun l => l ++ [(k, mkScq b None [] 0 [])] |> <| s_invs ::= fun l => l ++ [(mkI k [], new_inv 0)] |>) k'
                = scq_exists s k' || skey_eqb k' k).
  { unfold scq_exists. cbn. rewrite (aget_app skey_eqb). destruct (aget skey_eqb k' (s_scqs s)); [reflexivity|]. cbn. destruct (skey_eqb k' k); reflexivity. }
  rewrite Hex. destruct (scq_exists s k') eqn:E; [intros _; apply H; assumption|]. cbn.
  destruct (skey_eqb k' k) eqn:Ek; [|discriminate]. intros _. apply skey_eqb_eq in Ek. subst k'.
  destruct Hb as [->|Hb]; [|congruence]. unfold qa_ok. cbn. discriminate.
Qed.

Lemma QA_delscq : forall s k, NoDup (map fst (s_scqs s)) -> QA (Some k) s ->
  QA None (s <| s_scqs := adel skey_eqb k (s_scqs s) |> <| s_invs := filter (fun '(i, _) => negb (skey_eqb (i_sk i) k)) (s_invs s) |>).
Proof.
  unfold QA. intros s k Hnd H k' _.
  rewrite (scq_exists_adel s k k' (fun _ => filter (fun '(i, _) => negb (skey_eqb (i_sk i) k)) (s_invs s)) Hnd).
  destruct (skey_eqb k' k) eqn:E; [discriminate|]. intro He.
  assert (Eg : get_scq (s <| s_scqs := adel skey_eqb k (s_scqs s) |> <| s_invs := filter (fun '(i, _) => negb (skey_eqb (i_sk i) k)) (s_invs s) |>) k' = get_scq s k').
  { unfold get_scq. cbn. rewrite (aget_adel_other skey_eqb skey_eqb_eq); [reflexivity|]. intros ->. rewrite (proj2 (skey_eqb_eq _ _) eq_refl) in E. discriminate. }
  rewrite Eg. apply H; [|exact He]. intro Heq. inversion Heq; subst. rewrite (proj2 (skey_eqb_eq _ _) eq_refl) in E. discriminate.
Qed.

Ltac t_QA :=
  intros;
  lazymatch goal with
  | |- QA _ (upd_worker _ _ _) => apply QA_upd_worker; assumption
  | |- QA _ (upd_scq _ _ _) =>
    apply QA_upd_scq; [ first [ (left; reflexivity)
                              | (right; let q := fresh "q" in let Hq := fresh "Hq" in intros q Hq; unfold qa_ok in *; cbn;
                                 first [ exact Hq | (intros; discriminate) | (destruct (existsb _ (q_drains q)); exact Hq) ]) ]
                      | assumption ]
  | |- QA _ (set s_invs _ (set s_scqs (fun l => l ++ _) _)) => apply QA_newscq; [first [left; reflexivity | right; reflexivity] | assumption]
  | |- _ => (eapply QA_frame; [|eassumption]); frame_eq
  end.

Ltac qa_go := inv_go fail t_QA.

Lemma QA_complete_task : forall exq t r b s, QA exq s -> QA exq (complete_task t r b s).
Proof. intros. unfold complete_task, new_operation. qa_go. Qed.
Lemma QA_cancel_all_queued : forall exq i r s, QA exq s -> QA exq (cancel_all_queued i r s).
Proof. intros exq i r s H. rewrite cancel_all_queued_eq. apply cancel_go_closed; [|exact H]. intros. apply QA_complete_task. assumption. Qed.

Ltac qa_leaf :=
  idtac;
  lazymatch goal with
  | |- QA _ (complete_task _ _ _ _) => apply QA_complete_task
  | |- QA _ (cancel_all_queued _ _ _) => apply QA_cancel_all_queued
  end.
Ltac qa_go1 := inv_go qa_leaf t_QA.

Lemma QA_operation_remove : forall exq o s, QA exq s -> QA exq (operation_remove o s).
Proof.
  intros exq o s H. unfold operation_remove. qa_go1.
  all: match goal with |- QA _ (fst (fold_left ?g ?l ?a)) => apply (fold_left_pres (fun acc => QA exq (fst acc)) g l) end;
    [ intros [s1 go] j H1; cbn [fst] in *; destruct go; [qa_go1 | assumption] | cbn [fst]; qa_go1 ].
Qed.

Definition SQ (exq : option skey) (s : state) : Prop := SW s /\ QA exq s.

Lemma SQ_scq_remove : forall k s, q_workers (get_scq s k) = [] -> SQ (Some k) s -> SQ None (scq_remove k s).
Proof.
  intros k s Hnw [HSW H]. split; [apply SW_scq_remove; assumption|]. unfold scq_remove. cbv zeta.
  set (s1 := cancel_all_queued (mkI k []) (mkResp cUNAVAILABLE 0 0) s).
  assert (H1 : SW s1 /\ QA (Some k) s1) by (split; [apply SW_cancel_all_queued; exact HSW|apply QA_cancel_all_queued; exact H]).
  clearbody s1. destruct H1 as [[[Hnd _] _] H1].
  eapply QA_frame; [reflexivity|]. eapply QA_frame; [reflexivity|]. apply QA_delscq; assumption.
Qed.

Lemma QA_remove_stale_worker : forall w z s, QA None s -> QA None (remove_stale_worker w z s).
Proof.
  intros w z s H. unfold remove_stale_worker. cbv zeta.
  set (s3 := clear_last_invocation w _).
  assert (A3 : QA None s3) by (unfold s3, mark_terminating; qa_go1).
  clearbody s3.
  set (s4 := upd_scq (w_sk w) (fun q => q <| q_workers ::= adel wref_eqb w |>) s3).
  (* after the worker is gone the queue may be empty: it is armed right away *)
  assert (A4 : QA (Some (w_sk w)) s4) by (unfold s4; apply QA_upd_scq; [left; reflexivity|apply QA_weaken; exact A3]).
  destruct (Nat.eqb (List.length (q_workers (get_scq s4 (w_sk w)))) 0 && q_removable (get_scq s4 (w_sk w))) eqn:Ec.
  - intros k _. rewrite scq_exists_upd_scq, get_scq_upd_scq. intro He.
    destruct (skey_eqb k (w_sk w) && scq_exists s4 (w_sk w)) eqn:E; [unfold qa_ok; cbn; intros; discriminate|].
    apply A4; [|exact He]. intro Heq. inversion Heq; subst. rewrite (proj2 (skey_eqb_eq _ _) eq_refl), He in E. discriminate.
  - intros k _ He. destruct (skey_eqb k (w_sk w)) eqn:Ek.
    + apply skey_eqb_eq in Ek. subst k. unfold qa_ok. intros Hr Hw. rewrite Hr, Hw in Ec. discriminate.
    + apply A4; [|exact He]. intro Heq. inversion Heq; subst. rewrite (proj2 (skey_eqb_eq _ _) eq_refl) in Ek. discriminate.
Qed.

Lemma SQ_run_entry : forall e s, In e (cleanup_entries s) -> SQ None s -> SQ None (run_entry e s).
Proof.
  intros [z ce] s Hin [HSW H]. pose proof (SW_run_entry (z, ce) s Hin HSW) as HSW'. unfold run_entry in *. cbn [fst snd] in *. destruct ce as [o|w|k].
  - split; [exact HSW'|]. apply QA_operation_remove. qa_go1.
  - split; [exact HSW'|]. apply QA_remove_stale_worker. qa_go1.
  - pose proof (cleanup_entry_scq s z k (SW_St _ HSW) Hin) as Hc.
    pose proof (SW_WP _ HSW) as [_ [_ [_ [_ [_ [_ [_ E7]]]]]]].
    apply SQ_scq_remove.
    + assert (Hn : NWf k s) by (apply E7; congruence). change (NWf k (upd_scq k (fun q => q <| q_cleanup := None |>) s)). t_nw.
    + split; [sw_go2|]. apply QA_upd_scq; [left; reflexivity|apply QA_weaken; exact H].
Qed.

Lemma SQ_enter : forall t s, SQ None s -> SQ None (enter t s).
Proof.
  intros t s H. unfold enter. destruct (s_now s <? t); [|exact H]. cbv zeta.
  apply cleanup_run_closed; [intros s1 w [A B]; split; [t_SW|qa_go1] | intros; apply SQ_run_entry; assumption | destruct H as [A B]; split; [sw_go2|qa_go1]].
Qed.

(* ---- Synchronize ----------------------------------------------------------------------------------------------------------- *)
Lemma worker_exists_nonempty : forall s w, worker_exists s w = true -> q_workers (get_scq s (w_sk w)) <> [].
Proof. intros s w H E. unfold worker_exists in H. rewrite E in H. discriminate. Qed.

Lemma QA_drop_nonempty : forall k s, (scq_exists s k = true -> q_workers (get_scq s k) <> []) -> QA (Some k) s -> QA None s.
Proof.
  unfold QA. intros k s Hne H k' _ He. destruct (skey_eqb k' k) eqn:E.
  - apply skey_eqb_eq in E. subst k'. unfold qa_ok. intros _ Hw. exfalso. exact (Hne He Hw).
  - apply H; [|exact He]. intro Heq. inversion Heq; subst. rewrite (proj2 (skey_eqb_eq _ _) eq_refl) in E. discriminate.
Qed.

Ltac qa_leaf2 :=
  first [ qa_leaf
        | lazymatch goal with
          | |- QA _ (operation_remove _ _) => apply QA_operation_remove
          | |- QA _ (remove_stale_worker _ _ _) => apply QA_remove_stale_worker
          end ].
Ltac qa_go2 := inv_go qa_leaf2 t_QA.

Lemma QA_get_current_or_next : forall exq c w b pr s, QA exq s -> QA exq (get_current_or_next c w b pr s).
Proof. intros. unfold get_current_or_next. qa_go2. Qed.

Lemma QA_sync_start : forall c a s, QA None s -> QA None (sync_start c a s).
Proof.
  intros c a s H. unfold sync_start. cbv zeta. set (w := y_worker a). set (k := w_sk w).
  match goal with |- QA None (match ?R with _ => _ end) => destruct R as [s1|code1] eqn:ER end; [|unfold ret; qa_go2].
  assert (H1 : QA (Some k) s1 /\ scq_exists s1 k = true).
  { destruct (scq_exists s k) eqn:Ee.
    - injection ER as <-. split; [apply QA_upd_scq; [left; reflexivity|apply QA_weaken; exact H]|rewrite scq_exists_upd_scq; exact Ee].
    - destruct (get_pq s (sk_pk k)) as [p|] eqn:Ep.
      + sum_cases ER. injection ER as <-. split; [|rewrite scq_exists_add_scq, skey_eqb_refl; apply orb_true_r].
        unfold add_scq. apply QA_newscq; [right; reflexivity|]. eapply QA_frame; [|apply QA_weaken; exact H]. reflexivity.
      + injection ER as <-. split; [|rewrite scq_exists_add_scq, skey_eqb_refl; apply orb_true_r].
        unfold add_scq, add_pq. apply QA_newscq; [right; reflexivity|]. eapply QA_frame; [|apply QA_weaken; exact H]. reflexivity. }
  clear ER H. destruct H1 as [H Hse]. revert H Hse. generalize s1. clear s. intros s H Hse.
  match goal with |- QA None (match ?R with _ => _ end) => destruct R as [s2|code2] eqn:ER end.
  - assert (H2 : QA None s2).
    { destruct (worker_exists s w) eqn:Ee.
      - destruct (k_cleanup (get_worker s w)) eqn:Ec; [|discriminate]. injection ER as <-.
        apply (QA_drop_nonempty k); [|apply QA_upd_worker; exact H].
        intros _. apply worker_exists_nonempty. rewrite worker_exists_upd_worker. exact Ee.
      - injection ER as <-. eapply QA_frame; [apply scqs_upd_inv|].
        apply (QA_drop_nonempty k).
        + intros _. rewrite get_scq_upd_scq, skey_eqb_refl, Hse. cbn. intro E. apply app_eq_nil in E. destruct E; discriminate.
        + apply QA_upd_scq; [left; reflexivity|exact H]. }
    clear ER H Hse. revert H2. generalize s2. clear s. intros s H.
    destruct (y_state a); unfold sync_return_err, finish_sync, get_next_task, sync_loop, sync_return_exec, sync_return_idle, finish_sync; qa_go2.
  - (* the worker is registered and attended: the queue is not empty *)
    destruct (worker_exists s w) eqn:Ee; [|discriminate].
    assert (H2 : QA None s) by (apply (QA_drop_nonempty k); [intros _; apply worker_exists_nonempty; exact Ee|exact H]).
    unfold ret. qa_go2.
Qed.

Lemma QA_step_core : forall e s, SW s -> QA None s -> QA None (step_core e s).
Proof.
  intros e s HSW H.
  assert (He : forall t, QA None (enter t s)) by (intro t; exact (proj2 (SQ_enter t s (conj HSW H)))).
  destruct e; unfold step_core;
    try (match goal with tt : Z |- _ => specialize (He tt); set (s1 := enter tt s) in *; clearbody s1 end;
         cbv zeta; try (destruct (negb (at_gate s (get_call s c))); [exact H|]); try (destruct (at_gate s (get_call s c)); [exact H|]);
         try (destruct (get_call s c));
         try apply QA_sync_start;
         unfold exec_start, new_operation, kill_lookup, ret, wake_up, mark_terminating, add_scq, add_pq, stream_iter, stream_return, wait_execution_begin, stream_iter, sync_loop, sync_return_exec, sync_return_err, sync_return_idle, finish_sync, maybe_dequeue;
         qa_go2; fail).
  - (* ECancel *)
    cbv zeta. destruct (at_gate s (get_call s c)); [exact H|]. destruct (get_call s c); unfold ret; qa_go2.
Qed.

Lemma QA_run : forall cfg t0 evs, QA None (fst (run (init cfg t0) evs)).
Proof.
  intros cfg t0 evs.
  assert (H : SW (fst (run (init cfg t0) evs)) /\ QA None (fst (run (init cfg t0) evs))).
  { apply (run_fst_snoc evs (init cfg t0) (fun s => SW s /\ QA None s)).
    - intros s eh [A B]. split; [apply SW_step; exact A|]. unfold step. cbn [fst].
      eapply QA_frame; [reflexivity|]. apply (fr_auto_returns (QA None)); [intros; unfold ret; qa_go2|].
      apply QA_step_core; [eapply SW_eq; [ | | | |exact A]; reflexivity|eapply QA_frame; [|exact B]; reflexivity].
    - split; [apply SW_init|]. intros k _ He. unfold scq_exists, init in He. cbn in He. discriminate. }
  exact (proj2 H).
Qed.

(* workerless_queue_armed: in every reachable state (all event lists, no hypothesis) a removable size class queue
   that has no workers has its removal time-out armed *)
Lemma workerless_queue_armed : forall cfg t0 evs k,
  let s := fst (run (init cfg t0) evs) in
  scq_exists s k = true -> q_removable (get_scq s k) = true -> q_workers (get_scq s k) = [] -> q_cleanup (get_scq s k) <> None.
Proof. intros cfg t0 evs k s He. apply (QA_run cfg t0 evs k); [discriminate|exact He]. Qed.

(* ---- gc_complete ------------------------------------------------------------------------------------------------------------ *)
From VF Require Import Sched.ProofsWaiters Sched.ProofsArmed.

(* After everybody left (every call has returned) and with no time-out pending, nothing created on their behalf
   remains: no operation that was handed to a client, no worker, no dynamically created size class queue --
   unless a scheduler panic was observed on the way. *)
Lemma gc_complete : forall cfg t0 evs, fresh_calls [] evs ->
  let s := fst (run (init cfg t0) evs) in
  panicked (snd (run (init cfg t0) evs)) \/
  ((forall c p, aget Nat.eqb c (s_calls s) = Some p -> p = PDone) ->
   (forall o x, aget Nat.eqb o (s_ops s) = Some x -> o_cleanup x = None) ->
   (forall w, worker_exists s w = true -> k_cleanup (get_worker s w) = None) ->
   (forall k, scq_exists s k = true -> q_cleanup (get_scq s k) = None) ->
   (forall o x, aget Nat.eqb o (s_ops s) = Some x -> o_mayexist x = true) /\
   (forall w, worker_exists s w = false) /\
   (forall k, scq_exists s k = true -> q_removable (get_scq s k) = false)).
Proof.
  intros cfg t0 evs Hf s. destruct (worker_attended cfg t0 evs Hf) as [Hp|HA]; [left; exact Hp|right]. fold s in HA.
  intros Hdone Hops Hwk Hq.
  assert (Hnow : forall w, worker_exists s w = false).
  { intro w. destruct (worker_exists s w) eqn:E; [|reflexivity]. exfalso. destruct (HA w E) as [Hc|[c [p [Hcp Hs]]]].
    - apply Hc. apply Hwk. exact E.
    - rewrite (Hdone c p Hcp) in Hs. discriminate. }
  split; [|split; [exact Hnow|]].
  - intros o x Ex. destruct (o_mayexist x) eqn:Em; [reflexivity|]. exfalso.
    destruct (waiters_all cfg t0 evs Hf) as [_ [_ [_ [_ [Hcnt _]]]]]. fold s in Hcnt.
    assert (Hw : o_waiters x = O).
    { rewrite (Hcnt o x Ex). unfold cnt. destruct (filter (parks o) (s_calls s)) as [|[c p] l] eqn:Efl; [reflexivity|]. exfalso.
      assert (Hin : In (c, p) (filter (parks o) (s_calls s))) by (rewrite Efl; left; reflexivity).
      apply filter_In in Hin. destruct Hin as [Hin Hpk].
      destruct (waiters_all cfg t0 evs Hf) as [Hndc _]. fold s in Hndc.
      rewrite (Hdone c p (In_aget_NoDup Nat.eqb nat_eqb_eq _ _ _ Hndc Hin)) in Hpk. discriminate. }
    exact (armed_when_unwaited_all cfg t0 evs o x Hf Ex Hw Em (Hops o x Ex)).
  - intros k He. destruct (q_removable (get_scq s k)) eqn:Er; [|reflexivity]. exfalso.
    assert (Hnw : q_workers (get_scq s k) = []).
    { destruct (q_workers (get_scq s k)) as [|[w kw] l] eqn:Eq; [reflexivity|]. exfalso.
      pose proof (SW_St _ (SW_run cfg t0 evs)) as [_ [Hwk' _]]. fold s in Hwk'.
      unfold get_scq in Eq. destruct (aget skey_eqb k (s_scqs s)) as [q|] eqn:E; [|discriminate].
      destruct (Hwk' k q (aget_In skey_eqb skey_eqb_eq _ _ _ E)) as [_ Hsk].
      assert (Hk : w_sk w = k) by (apply Hsk; rewrite Eq; left; reflexivity).
      specialize (Hnow w). unfold worker_exists, get_scq in Hnow. rewrite Hk, E, Eq in Hnow. cbn in Hnow. rewrite wref_eqb_refl in Hnow. discriminate. }
    exact (workerless_queue_armed cfg t0 evs k He Er Hnw (Hq k He)).
Qed.
