(* C02 done_faithful: every stream message reports the recorded stage and
   response of the operation's task in the state the event leaves behind. *)
From Coq Require Import Lia.
From VF Require Export Sched.ProofsStreams.
Open Scope Z_scope.

(* ---- done_faithful: a message reports the task's recorded stage and response ------------------------------ *)
Definition is_msg (o : obs) : bool := match o with OMsg _ _ _ _ => true | _ => false end.
Definition NoMsg (s : state) : Prop := forall o, In o (s_out s) -> is_msg o = false.
Definition Faithful (s : state) : Prop :=
  forall c o st d, In (OMsg c o st d) (s_out s) ->
    d = t_resp (get_task s (o_task (get_op s o))) /\ st = task_stage (get_task s (o_task (get_op s o))).

Lemma NoMsg_frame : forall s s', s_out s' = s_out s -> NoMsg s -> NoMsg s'.
Proof. unfold NoMsg. intros s s' ->. auto. Qed.
Lemma NoMsg_emit : forall s o, is_msg o = false -> NoMsg s -> NoMsg (emit o s).
Proof. unfold NoMsg, emit. intros s o Ho H x. cbn. intros [<-|Hx]; auto. Qed.
Ltac t_nomsg :=
  intros;
  first [ (eapply NoMsg_frame; [ | eassumption]; t_frame)
        | (apply NoMsg_emit; [reflexivity | assumption]) ].
Ltac nomsg_go := fr_go NoMsg t_nomsg.

Lemma F_stay : forall s, NoMsg s -> Faithful s.
Proof. intros s H c o st d Hin. specialize (H _ Hin). discriminate. Qed.

Lemma F_stream_iter : forall c o s, NoMsg s -> Faithful (stream_iter c o s).
Proof.
  intros c o s H. unfold stream_iter. cbv zeta.
  assert (Hm : Faithful (emit (OMsg c o (task_stage (get_task s (o_task (get_op s o))))
                                   (t_resp (get_task s (o_task (get_op s o))))) s)).
  { intros c' o' st d. unfold emit. cbn. intros [Heq|Hin]; [inversion Heq; subst; auto|].
    specialize (H _ Hin). discriminate. }
  destruct (t_resp (get_task s (o_task (get_op s o)))); exact Hm.
Qed.

Lemma F_wait_execution_begin : forall c o s, NoMsg s -> Faithful (wait_execution_begin c o s).
Proof. intros c o s H. unfold wait_execution_begin. apply F_stream_iter. nomsg_go. Qed.

Lemma F_exec_start : forall c a s, NoMsg s -> Faithful (exec_start c a s).
Proof.
  intros c a s H. unfold exec_start, new_operation.
  hoare ltac:(apply F_wait_execution_begin; nomsg_go).
  all: apply F_stay; nomsg_go.
Qed.

Lemma step_core_faithful : forall e s, NoMsg s -> Faithful (step_core e s).
Proof.
  intros e s H. destruct e; unfold step_core.
  all: try (apply F_stay; nomsg_go; fail).
  - apply F_exec_start. nomsg_go.
  - hoare ltac:(first [apply F_stream_iter | apply F_wait_execution_begin]; nomsg_go).
    all: apply F_stay; nomsg_go.
  - hoare ltac:(apply F_stream_iter; nomsg_go).
    all: apply F_stay; nomsg_go.
Qed.

Lemma Faithful_ret : forall s c code, Faithful s -> Faithful (ret c code s).
Proof.
  intros s c code H c' o st d. unfold ret, set_call, emit. cbn. intros [Heq|Hin]; [discriminate|].
  exact (H _ _ _ _ Hin).
Qed.

Lemma step_done_faithful : forall s eh c o st d,
  In (OMsg c o st d) (snd (step s eh)) ->
  let s' := fst (step s eh) in
  d = t_resp (get_task s' (o_task (get_op s' o))) /\ st = task_stage (get_task s' (o_task (get_op s' o))).
Proof.
  intros s eh c o st d Hin. unfold step in *. cbn [fst snd] in *. apply in_rev in Hin.
  set (sa := s <| s_hints := snd eh |> <| s_out := [] |>) in *.
  assert (Ha : NoMsg sa) by (intros x []).
  pose proof (step_core_faithful (fst eh) sa Ha) as H1.
  assert (H2 : Faithful (auto_returns (step_core (fst eh) sa))).
  { apply fr_auto_returns with (P := Faithful); [apply Faithful_ret|exact H1]. }
  exact (H2 _ _ _ _ Hin).
Qed.
