(* C01, exclusivity layer: functions that end the critical section of a task. *)
From Coq Require Import Lia.
From VF Require Export Sched.ProofsExcl3.
Open Scope Z_scope.

(* ---- reading the queues after enqueue / dequeue --------------------------------------------------------- *)
Definition QSame (s0 s : state) : Prop :=
  s_ops s = s_ops s0 /\ s_tasks s = s_tasks s0 /\ s_scqs s = s_scqs s0 /\ forall i, v_qops (get_inv s i) = v_qops (get_inv s0 i).

Lemma QSame_refl : forall s, QSame s s.
Proof. intro s. repeat split; reflexivity. Qed.

Lemma QSame_upd_inv_keep : forall s0 s i f, (forall v, v_qops (f v) = v_qops v) -> QSame s0 s -> QSame s0 (upd_inv i f s).
Proof.
  intros s0 s i f Hf [E1 [E2 [E3 E4]]]. split; [rewrite upd_inv_eq; exact E1|]. split; [rewrite upd_inv_eq; exact E2|].
  split; [rewrite scqs_upd_inv; exact E3|]. intro j. rewrite get_inv_upd_inv. destruct (iref_eqb j i && inv_exists s i) eqn:E; [|apply E4].
  apply andb_true_iff in E. destruct E as [E _]. apply iref_eqb_eq in E. subst. rewrite Hf. apply E4.
Qed.

Lemma QSame_update_first_priority : forall s0 j s, QSame s0 s -> QSame s0 (update_first_priority j s).
Proof.
  intros s0 j s H. unfold update_first_priority. cbv zeta.
  destruct (min_op s (v_qops (get_inv s j))); [apply QSame_upd_inv_keep; [reflexivity|exact H]|].
  destruct (minimal _ _); [exact H|apply QSame_upd_inv_keep; [reflexivity|exact H]].
Qed.

Lemma QSame_ufp_fold : forall s0 l s, QSame s0 s -> QSame s0 (fold_left (fun s j => update_first_priority j s) l s).
Proof. intros s0 l s H. apply fold_left_pres; [intros; apply QSame_update_first_priority; assumption|exact H]. Qed.

Lemma enqueue_reads : forall o s,
  let s' := enqueue o s in
  s_ops s' = s_ops s /\ s_tasks s' = s_tasks s /\
  forall i x, In x (v_qops (get_inv s' i)) -> In x (v_qops (get_inv s i)) \/ x = o.
Proof.
  intros o s s'. unfold s', enqueue. cbv zeta.
  set (s1 := upd_inv (o_inv (get_op s o)) _ s).
  destruct (QSame_ufp_fold s1 (nonroot_chain (o_inv (get_op s o))) s1 (QSame_refl s1)) as [E1 [E2 [_ E4]]].
  split; [rewrite E1; unfold s1; rewrite upd_inv_eq; reflexivity|]. split; [rewrite E2; unfold s1; rewrite upd_inv_eq; reflexivity|].
  intros i x Hin. rewrite E4 in Hin. unfold s1 in Hin. rewrite get_inv_upd_inv in Hin.
  destruct (iref_eqb i (o_inv (get_op s o)) && inv_exists s (o_inv (get_op s o))) eqn:E; [|left; exact Hin].
  apply andb_true_iff in E. destruct E as [E _]. apply iref_eqb_eq in E. subst. cbn in Hin.
  apply in_app_or in Hin. destruct Hin as [Hin|[<-|[]]]; auto.
Qed.

Lemma rq_reads : forall o s,
  let s' := remove_queued_from_invocation o s in
  s_ops s' = s_ops s /\ s_tasks s' = s_tasks s /\
  (forall i x, In x (v_qops (get_inv s' i)) -> In x (v_qops (get_inv s i))) /\
  ~ In o (v_qops (get_inv s' (o_inv (get_op s o)))).
Proof.
  intros o s s'. unfold s', remove_queued_from_invocation. cbv zeta.
  set (s1 := upd_inv (o_inv (get_op s o)) _ s).
  destruct (QSame_ufp_fold s1 (nonroot_chain (o_inv (get_op s o))) s1 (QSame_refl s1)) as [E1 [E2 [_ E4]]].
  split; [rewrite E1; unfold s1; rewrite upd_inv_eq; reflexivity|]. split; [rewrite E2; unfold s1; rewrite upd_inv_eq; reflexivity|].
  split.
  - intros i x Hin. rewrite E4 in Hin. unfold s1 in Hin. rewrite get_inv_upd_inv in Hin.
    destruct (iref_eqb i (o_inv (get_op s o)) && inv_exists s (o_inv (get_op s o))) eqn:E; [|exact Hin].
    apply andb_true_iff in E. destruct E as [E _]. apply iref_eqb_eq in E. subst. cbn in Hin.
    unfold remove_nat in Hin. apply filter_In in Hin. tauto.
  - rewrite E4. unfold s1. rewrite get_inv_upd_inv, iref_eqb_refl. cbn.
    destruct (inv_exists s (o_inv (get_op s o))) eqn:E; cbn.
    + unfold remove_nat. intro Hin. apply filter_In in Hin. destruct Hin as [_ Hin]. rewrite Nat.eqb_refl in Hin. discriminate.
    + unfold get_inv, inv_exists in *. destruct (aget iref_eqb (o_inv (get_op s o)) (s_invs s)); [discriminate|]. intros [].
Qed.

Lemma rq_fold_unqueued : forall l s,
  let s' := fold_left (fun s o => remove_queued_from_invocation o s) l s in
  s_ops s' = s_ops s /\ s_tasks s' = s_tasks s /\
  (forall i x, In x (v_qops (get_inv s' i)) -> In x (v_qops (get_inv s i))) /\
  (forall o, In o l -> ~ queued s' o).
Proof.
  induction l as [|o l IH]; intros s; cbn [fold_left].
  - split; [reflexivity|]. split; [reflexivity|]. split; [auto|intros o []].
  - destruct (rq_reads o s) as [E1 [E2 [E3 E4]]]. specialize (IH (remove_queued_from_invocation o s)). cbv zeta in IH.
    destruct IH as [F1 [F2 [F3 F4]]]. split; [congruence|]. split; [congruence|]. split; [intros i x Hin; apply E3; apply F3; exact Hin|].
    intros o' [<-|Hin]; [|apply F4; exact Hin]. unfold queued. intro Hq. apply F3 in Hq.
    rewrite (get_op_frame s _ o) in Hq by congruence. exact (E4 Hq).
Qed.

Ltac lc_leaf1 :=
  idtac;
  lazymatch goal with
  | |- Lc _ _ _ _ (get_or_create_invocation _ _ _) => apply Lc_get_or_create_invocation
  | |- Lc _ _ _ _ (fst (remove_if_empty _ _)) => apply Lc_remove_if_empty
  | |- Lc _ _ _ _ (increment_executing _ _ _) => apply Lc_increment_executing
  | |- Lc _ _ _ _ (decrement_executing _ _ _) => apply Lc_decrement_executing
  | |- Lc _ _ _ _ (update_first_priority _ _) => apply Lc_update_first_priority
  | |- Lc _ _ _ _ (remove_queued_from_invocation _ _) => apply Lc_remove_queued_from_invocation
  | |- Lc _ _ _ _ (clear_last_invocation _ _) => apply Lc_clear_last_invocation
  | |- Lc _ _ _ _ (set_last_invocation _ _ _) => apply Lc_set_last_invocation
  | |- Lc _ _ _ _ (dequeue_worker _ _) => apply Lc_dequeue_worker
  | |- Lc _ _ _ _ (maybe_start_cleanup _ _) => apply Lc_maybe_start_cleanup
  end.
Ltac lc_go1 := inv_go lc_leaf1 t_Lc.

(* ---- assigning ---------------------------------------------------------------------------------------------- *)
Lemma Lc_assign_unqueued : forall t uq w r s,
  NPh s -> (is_phantom w = false -> worker_exists s w = true) ->
  Lc t None None uq s ->
  Lc t (Some w) None uq (assign_unqueued w t r s) \/ (is_phantom w = false /\ Lc t None None uq (assign_unqueued w t r s)).
Proof.
  intros t uq w r s Hnp Hex H. unfold assign_unqueued. cbv zeta.
  destruct (negb (is_phantom w) && match k_task (get_worker s w) with Some _ => true | None => false end) eqn:Eg.
  - right. apply andb_true_iff in Eg. destruct Eg as [Eg _]. apply negb_true_iff in Eg. split; [exact Eg|t_Lc].
  - rewrite (LcW _ _ _ _ _ H). left.
    pose proof (Lc_assign_pair t uq s w Hnp Hex H) as H1.
    set (s1 := upd_task t _ (upd_worker w _ s)) in *. clearbody s1. lc_go1.
Qed.

Lemma XS_Lc_assign_queued : forall ext t uq w r s,
  In t ext -> XS ext s -> Lc t None None uq s ->
  (is_phantom w = false -> worker_exists s w = true) -> k_wait (get_worker s w) = false ->
  XS ext (assign_queued w t r s) /\
  (Lc t (Some w) None true (assign_queued w t r s) \/ (is_phantom w = false /\ Lc t None None true (assign_queued w t r s))).
Proof.
  intros ext t uq w r s Hin HXS HL Hex Hkw. split; [apply XS_assign_queued; assumption|].
  unfold assign_queued. cbv zeta.
  pose proof (XS_assign_unqueued ext w t r s Hin Hkw HXS) as HXS1.
  pose proof (Lc_assign_unqueued t uq w r s (XS_NPh _ _ HXS) Hex HL) as HL1.
  set (s1 := assign_unqueued w t r s) in *. clearbody s1.
  destruct (rq_fold_unqueued (task_opids s1 t) s1) as [E1 [E2 [_ E4]]].
  set (s2 := fold_left _ (task_opids s1 t) s1) in *.
  assert (HXS2 : XS ext s2) by (unfold s2; xs_go1).
  assert (Hop : task_opids s2 t = task_opids s1 t) by (unfold task_opids; rewrite (get_task_frame _ _ _ E2); reflexivity).
  assert (Hup : forall wo, Lc t wo None uq s1 -> Lc t wo None true (report_non_final_stage_change t s2)).
  { intros wo H1. assert (H2 : Lc t wo None uq s2) by (unfold s2; lc_go1).
    assert (H3 : Lc t wo None true s2).
    { apply (Lc_upgrade ext); [exact HXS2|rewrite Hop; exact E4|]. destruct uq; [apply Lc_weaken_uq|]; exact H2. }
    unfold report_non_final_stage_change. t_Lc. }
  destruct HL1 as [H1|[Hp H1]]; [left|right; split; [exact Hp|]]; apply Hup; exact H1.
Qed.

Lemma XS_assign_queued_clean : forall ext t uq w r s,
  XS (t :: ext) s -> Lc t None None uq s -> worker_exists s w = true -> k_wait (get_worker s w) = false ->
  XS ext (assign_queued w t r s).
Proof.
  intros ext t uq w r s HXS HL Hex Hkw.
  destruct (XS_Lc_assign_queued (t :: ext) t uq w r s (or_introl eq_refl) HXS HL (fun _ => Hex) Hkw) as [[A [B [C [N [T D]]]]] HL2].
  repeat (split; [assumption|]).
  assert (Hnp : is_phantom w = false).
  { destruct (is_phantom w) eqn:E; [|reflexivity]. pose proof (XS_NPh _ _ HXS w Hex). congruence. }
  destruct HL2 as [H|[_ H]]; (eapply Lc_drop; [| |exact H|exact D]); auto.
  - intros w' Ew. inversion Ew; subst. auto.
  - intros w' Ew. discriminate.
Qed.

(* ---- schedule --------------------------------------------------------------------------------------------- *)
Lemma descend_idle_in : forall f s i w, In w (descend_idle f s i) -> exists j, In w (v_isync (get_inv s j)).
Proof.
  induction f as [|f IH]; intros s i w Hin; cbn [descend_idle] in Hin; [destruct Hin|].
  destruct (v_isync (get_inv s i)) as [|w0 tl] eqn:E.
  - apply in_flat_map in Hin. destruct Hin as [j [_ Hin]]. eapply IH. exact Hin.
  - destruct Hin as [<-|[]]. exists i. rewrite E. left. reflexivity.
Qed.

Lemma schedule_candidates_in : forall f s invs w, In w (schedule_candidates f s invs) -> exists j, In w (v_isync (get_inv s j)).
Proof.
  induction f as [|f IH]; intros s invs w Hin; cbn [schedule_candidates] in Hin; [destruct Hin|].
  destruct (filter (has_idle_sync s) invs) as [|h tl].
  - destruct (existsb is_root invs); [destruct Hin|]. eapply IH. exact Hin.
  - apply in_flat_map in Hin. destruct Hin as [j [_ Hin]]. eapply descend_idle_in. exact Hin.
Qed.

Lemma pick_worker_in : forall s t cands w, pick_worker s t cands = Some w -> In w cands.
Proof.
  intros s t cands w H. unfold pick_worker in H.
  destruct (find _ (s_hints s)) as [[o w']|] eqn:Ef.
  - inversion H; subst. apply find_some in Ef. destruct Ef as [_ Ef]. apply andb_true_iff in Ef. destruct Ef as [_ Ef].
    apply existsb_exists in Ef. destruct Ef as [x [Hx Ex]]. apply wref_eqb_eq in Ex. subst. exact Hx.
  - destruct cands; [discriminate|]. inversion H; subst. left. reflexivity.
Qed.

(* parked workers, as far as scheduling needs them (from the worker protocol invariant) *)
Definition Parked (s : state) : Prop :=
  forall i w, In w (v_isync (get_inv s i)) ->
    worker_exists s w = true /\ k_wait (get_worker s w) = true /\ k_last (get_worker s w) <> None.

Lemma SW_Parked : forall s, SW s -> Parked s.
Proof.
  intros s [_ [_ [_ [_ [_ [_ [X8 _]]]]]]] i w Hin. destruct (X8 i w Hin) as [He [Hw [Hl _]]]. rewrite Hl. repeat split; auto. discriminate.
Qed.

Lemma wake_up_reads : forall s w, worker_exists s w = true -> k_last (get_worker s w) <> None ->
  worker_exists (wake_up w s) w = true /\ k_wait (get_worker (wake_up w s) w) = false.
Proof.
  intros s w He Hl. unfold wake_up, dequeue_worker. destruct (k_last (get_worker s w)) as [p|] eqn:E; [|congruence].
  set (s1 := upd_inv _ _ s).
  assert (He1 : worker_exists s1 w = true) by (unfold s1; rewrite (worker_exists_frame s); [exact He|apply scqs_upd_inv]).
  rewrite worker_exists_upd_worker, get_worker_upd_worker, wref_eqb_refl, He1. cbn. auto.
Qed.

Lemma XS_enqueue_fold : forall ext t l s,
  In t ext -> NoDup l -> (forall o, In o l -> In o (task_opids s t)) -> (forall o, In o l -> ~ queued s o) ->
  XS ext s -> Lc t None None false s ->
  XS ext (fold_left (fun s o => enqueue o s) l s) /\ Lc t None None false (fold_left (fun s o => enqueue o s) l s).
Proof.
  intros ext t l. induction l as [|o l IH]; intros s Hin Hnd Hsub Hnq HXS HL; cbn [fold_left]; [auto|].
  inversion Hnd as [|? ? Hno Hnd']; subst.
  destruct (enqueue_reads o s) as [E1 [E2 E3]].
  assert (Ho : In o (task_opids s t)) by (apply Hsub; left; reflexivity).
  unfold task_opids in Ho. apply in_map_iff in Ho. destruct Ho as [[i o'] [Eo Ho]]. cbn in Eo. subst o'.
  destruct (LcO2 _ _ _ _ _ HL i o Ho) as [Ha [Ht Hi]].
  apply IH; auto.
  - intros o' Hin'. unfold task_opids. rewrite (get_task_frame _ _ _ E2). apply Hsub. right. exact Hin'.
  - intros o' Hin' Hq. unfold queued in Hq. rewrite (get_op_frame _ _ _ E1) in Hq. apply E3 in Hq. destruct Hq as [Hq | ->]; [|contradiction].
    apply (Hnq o'); [right; exact Hin'|exact Hq].
  - apply XS_enqueue; [exact Ha|rewrite Ht; exact Hin| |exact HXS]. apply (Hnq o). left. reflexivity.
  - unfold enqueue. cbv zeta. lc_go1.
Qed.

Lemma XS_schedule_clean : forall ext t s,
  Parked s -> XS (t :: ext) s -> Lc t None None true s -> XS ext (schedule t s).
Proof.
  intros ext t s Hpk HXS HL. unfold schedule. cbv zeta.
  destruct (pick_worker s t _) as [w|] eqn:Ep.
  - apply pick_worker_in in Ep. apply schedule_candidates_in in Ep. destruct Ep as [j Hj].
    destruct (Hpk j w Hj) as [He [_ Hl]]. destruct (wake_up_reads s w He Hl) as [He1 Hw1].
    assert (HXS1 : XS (t :: ext) (wake_up w s)) by (unfold wake_up; apply XS_dequeue_worker; exact HXS).
    assert (HL1 : Lc t None None true (wake_up w s)) by (unfold wake_up; apply Lc_dequeue_worker; exact HL).
    set (s1 := wake_up w s) in *. clearbody s1.
    assert (Hnp : is_phantom w = false).
    { destruct (is_phantom w) eqn:E; [|reflexivity]. pose proof (XS_NPh _ _ HXS1 w He1). congruence. }
    pose proof (XS_assign_unqueued (t :: ext) w t 0 s1 (or_introl eq_refl) Hw1 HXS1) as [A [B [C [N [T D]]]]].
    repeat (split; [assumption|]).
    destruct (Lc_assign_unqueued t true w 0 s1 (XS_NPh _ _ HXS1) (fun _ => He1) HL1) as [H|[_ H]];
      (eapply Lc_drop; [| |exact H|exact D]); auto.
    + intros w' Ew. inversion Ew; subst. auto.
    + intros w' Ew. discriminate.
  - pose proof (XS_XN _ _ HXS t) as Hnd.
    destruct (XS_enqueue_fold (t :: ext) t (task_opids s t) s (or_introl eq_refl) Hnd (fun _ H => H)) as [[A [B [C [N [T D]]]]] HL2]; auto.
    + intros o Ho Hq. unfold task_opids in Ho. apply in_map_iff in Ho. destruct Ho as [[i o'] [Eo Ho]]. cbn in Eo. subst o'.
      destruct (LcO2 _ _ _ _ _ HL i o Ho) as [Ha [Ht Hi]].
      unfold queued, get_inv in Hq. destruct (aget iref_eqb (o_inv (get_op s o)) (s_invs s)) as [v|] eqn:E; [|destruct Hq].
      apply (aget_In iref_eqb iref_eqb_eq) in E. exact (LcU _ _ _ _ _ HL eq_refl o _ v Ha Ht E Hq).
    + apply Lc_weaken_uq. exact HL.
    + repeat (split; [assumption|]). eapply Lc_drop; [| |exact HL2|exact D]; auto. intros w' Ew. discriminate.
Qed.
