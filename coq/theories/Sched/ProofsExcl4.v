(* C01, exclusivity layer: functions that end the critical section of a task. *)
From Coq Require Import Lia.
From VF Require Export Sched.ProofsExcl3.
Open Scope Z_scope.

(* ---- reading the queues after enqueue / dequeue --------------------------------------------------------- *)
Definition QSame (s0 s : state) : Prop :=
  s_ops s = s_ops s0 /\ s_tasks s = s_tasks s0 /\ s_scqs s = s_scqs s0 /\ forall i, v_qops (get_inv s i) = v_qops (get_inv s0 i).

Lemma QSame_refl : forall s, QSame s s.
Proof. intro s. repeat split; reflexivity. Qed.

Lemma QSame_upd_inv_keep : forall s0 s i f, (forall v, v_qops (f v) = v_qops v) -> QSame s0 s -> QSame s0 (upd_inv i f s).
Proof.
  intros s0 s i f Hf [E1 [E2 [E3 E4]]]. split; [rewrite upd_inv_eq; exact E1|]. split; [rewrite upd_inv_eq; exact E2|].
  split; [rewrite scqs_upd_inv; exact E3|]. intro j. rewrite get_inv_upd_inv. destruct (iref_eqb j i && inv_exists s i) eqn:E; [|apply E4].
  apply andb_true_iff in E. destruct E as [E _]. apply iref_eqb_eq in E. subst. rewrite Hf. apply E4.
Qed.

Lemma QSame_update_first_priority : forall s0 j s, QSame s0 s -> QSame s0 (update_first_priority j s).
Proof.
  intros s0 j s H. unfold update_first_priority. cbv zeta.
  destruct (min_op s (v_qops (get_inv s j))); [apply QSame_upd_inv_keep; [reflexivity|exact H]|].
  destruct (minimal _ _); [exact H|apply QSame_upd_inv_keep; [reflexivity|exact H]].
Qed.

Lemma QSame_ufp_fold : forall s0 l s, QSame s0 s -> QSame s0 (fold_left (fun s j => update_first_priority j s) l s).
Proof. intros s0 l s H. apply fold_left_pres; [intros; apply QSame_update_first_priority; assumption|exact H]. Qed.

Lemma enqueue_reads : forall o s,
  let s' := enqueue o s in
  s_ops s' = s_ops s /\ s_tasks s' = s_tasks s /\
  forall i x, In x (v_qops (get_inv s' i)) -> In x (v_qops (get_inv s i)) \/ x = o.
Proof.
  intros o s s'. unfold s', enqueue. cbv zeta.
  set (s1 := upd_inv (o_inv (get_op s o)) _ s).
  destruct (QSame_ufp_fold s1 (nonroot_chain (o_inv (get_op s o))) s1 (QSame_refl s1)) as [E1 [E2 [_ E4]]].
  split; [rewrite E1; unfold s1; rewrite upd_inv_eq; reflexivity|]. split; [rewrite E2; unfold s1; rewrite upd_inv_eq; reflexivity|].
  intros i x Hin. rewrite E4 in Hin. unfold s1 in Hin. rewrite get_inv_upd_inv in Hin.
  destruct (iref_eqb i (o_inv (get_op s o)) && inv_exists s (o_inv (get_op s o))) eqn:E; [|left; exact Hin].
  apply andb_true_iff in E. destruct E as [E _]. apply iref_eqb_eq in E. subst. cbn in Hin.
  apply in_app_or in Hin. destruct Hin as [Hin|[<-|[]]]; auto.
Qed.

Lemma rq_reads : forall o s,
  let s' := remove_queued_from_invocation o s in
  s_ops s' = s_ops s /\ s_tasks s' = s_tasks s /\
  (forall i x, In x (v_qops (get_inv s' i)) -> In x (v_qops (get_inv s i))) /\
  ~ In o (v_qops (get_inv s' (o_inv (get_op s o)))).
Proof.
  intros o s s'. unfold s', remove_queued_from_invocation. cbv zeta.
  set (s1 := upd_inv (o_inv (get_op s o)) _ s).
  destruct (QSame_ufp_fold s1 (nonroot_chain (o_inv (get_op s o))) s1 (QSame_refl s1)) as [E1 [E2 [_ E4]]].
  split; [rewrite E1; unfold s1; rewrite upd_inv_eq; reflexivity|]. split; [rewrite E2; unfold s1; rewrite upd_inv_eq; reflexivity|].
  split.
  - intros i x Hin. rewrite E4 in Hin. unfold s1 in Hin. rewrite get_inv_upd_inv in Hin.
    destruct (iref_eqb i (o_inv (get_op s o)) && inv_exists s (o_inv (get_op s o))) eqn:E; [|exact Hin].
    apply andb_true_iff in E. destruct E as [E _]. apply iref_eqb_eq in E. subst. cbn in Hin.
    unfold remove_nat in Hin. apply filter_In in Hin. tauto.
  - rewrite E4. unfold s1. rewrite get_inv_upd_inv, iref_eqb_refl. cbn.
    destruct (inv_exists s (o_inv (get_op s o))) eqn:E; cbn.
    + unfold remove_nat. intro Hin. apply filter_In in Hin. destruct Hin as [_ Hin]. rewrite Nat.eqb_refl in Hin. discriminate.
    + unfold get_inv, inv_exists in *. destruct (aget iref_eqb (o_inv (get_op s o)) (s_invs s)); [discriminate|]. intros [].
Qed.

Lemma rq_fold_unqueued : forall l s,
  let s' := fold_left (fun s o => remove_queued_from_invocation o s) l s in
  s_ops s' = s_ops s /\ s_tasks s' = s_tasks s /\
  (forall i x, In x (v_qops (get_inv s' i)) -> In x (v_qops (get_inv s i))) /\
  (forall o, In o l -> ~ queued s' o).
Proof.
  induction l as [|o l IH]; intros s; cbn [fold_left].
  - repeat split; auto. intros o [].
  - destruct (rq_reads o s) as [E1 [E2 [E3 E4]]]. specialize (IH (remove_queued_from_invocation o s)). cbv zeta in IH.
    destruct IH as [F1 [F2 [F3 F4]]]. split; [congruence|]. split; [congruence|]. split; [intros i x Hin; apply E3; apply F3; exact Hin|].
    intros o' [<-|Hin]; [|apply F4; exact Hin]. unfold queued. intro Hq. apply F3 in Hq.
    rewrite (get_op_frame _ s) in Hq by congruence. exact (E4 Hq).
Qed.
