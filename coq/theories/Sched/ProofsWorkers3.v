(* C01, worker protocol layer: events and runs. *)
From Coq Require Import Lia.
From VF Require Export Sched.ProofsWorkers2.
Open Scope Z_scope.

Ltac t_SW' :=
  intros;
  lazymatch goal with
  | |- SW (set_call _ _ _) => apply SW_setcall_plain; [reflexivity | assumption]
  | |- _ => t_SW
  end.

Lemma SW_enter' : forall t s, SW s -> SW (enter t s). Proof. exact SW_enter. Qed.

Ltac sw_leaf3 :=
  first [ sw_leaf2
        | lazymatch goal with
          | |- SW (enter _ _) => apply SW_enter
          | |- SW (sync_start _ _ _) => apply H_sync_start
          end ].
Ltac sw_go3 := inv_go sw_leaf3 t_SW'.

(* the waiting flag of a worker stays off through the clean-up loop *)
Lemma KWf_delworker : forall w s w', NoDup (map fst (q_workers (get_scq s (w_sk w')))) ->
  KWf w s -> KWf w (upd_scq (w_sk w') (fun q => q <| q_workers ::= adel wref_eqb w' |>) s).
Proof.
  unfold KWf. intros w s w' Hn H. rewrite get_worker_delworker by exact Hn. destruct (wref_eqb w w'); [reflexivity|exact H].
Qed.

Lemma KWf_delscq : forall w s k, NoDup (map fst (s_scqs s)) -> KWf w s ->
  KWf w (s <| s_scqs := adel skey_eqb k (s_scqs s) |> <| s_invs := filter (fun '(i, _) => negb (skey_eqb (i_sk i) k)) (s_invs s) |>).
Proof.
  unfold KWf, get_worker, get_scq. intros w s k Hn H. cbn. destruct (skey_eqb (w_sk w) k) eqn:E.
  - apply skey_eqb_eq in E. subst k. rewrite (aget_adel_same skey_eqb skey_eqb_eq) by exact Hn. reflexivity.
  - rewrite (aget_adel_other skey_eqb skey_eqb_eq); [exact H|]. intros Heq. rewrite Heq, skey_eqb_refl in E. discriminate.
Qed.

Definition SWK (w : wref) (s : state) : Prop := SW s /\ KWf w s.

Lemma SWK_intro : forall w s, SW s -> KWf w s -> SWK w s. Proof. unfold SWK. auto. Qed.

Lemma KWf_complete_task : forall w t r b s, KWf w s -> KWf w (complete_task t r b s).
Proof. intros. inv_go fail t_kw. Qed.

Lemma KWf_cancel_all_queued : forall w i r s, KWf w s -> KWf w (cancel_all_queued i r s).
Proof.
  intros w i r s H. rewrite cancel_all_queued_eq. apply cancel_go_closed; [|exact H]. intros. apply KWf_complete_task. assumption.
Qed.

Ltac kw_leaf :=
  idtac;
  lazymatch goal with
  | |- KWf _ (complete_task _ _ _ _) => apply KWf_complete_task
  | |- KWf _ (cancel_all_queued _ _ _) => apply KWf_cancel_all_queued
  end.
Ltac kw_go := inv_go kw_leaf t_kw.

Lemma KWf_operation_remove : forall w o s, KWf w s -> KWf w (operation_remove o s).
Proof.
  intros w o s H. unfold operation_remove. kw_go.
  all: match goal with |- KWf _ (fst (fold_left ?g ?l ?a)) => apply (fold_left_pres (fun acc => KWf w (fst acc)) g l) end;
    [ intros [s1 go] j H1; cbn [fst] in *; destruct go; [kw_go | assumption] | cbn [fst]; kw_go ].
Qed.

Lemma SWK_run_entry : forall w e s, In e (cleanup_entries s) -> SWK w s -> SWK w (run_entry e s).
Proof.
  intros w [z ce] s Hin [HSW HK]. split; [apply SW_run_entry; assumption|].
  unfold run_entry. cbn [fst snd]. destruct ce as [o|w'|k].
  - apply KWf_operation_remove. kw_go.
  - unfold remove_stale_worker. cbv zeta.
    set (s0 := upd_worker w' (fun k => k <| k_cleanup := None |>) s).
    set (s3 := clear_last_invocation w' _).
    assert (H3 : St s3 /\ KWf w s3).
    { split.
      - unfold s3, s0, mark_terminating. assert (HS : St s) by (apply SW_St; exact HSW). st_go2.
      - unfold s3, s0, mark_terminating. kw_go. }
    clearbody s3. destruct H3 as [HS3 HK3].
    assert (Hnd : NoDup (map fst (q_workers (get_scq s3 (w_sk w'))))).
    { unfold get_scq. destruct (aget skey_eqb (w_sk w') (s_scqs s3)) as [q|] eqn:E; [|constructor].
      destruct HS3 as [_ [H1 _]]. apply (aget_In skey_eqb skey_eqb_eq) in E. apply (H1 _ _ E). }
    pose proof (KWf_delworker w s3 w' Hnd HK3) as H4.
    match goal with |- KWf w (if ?b then _ else _) => destruct b end; [|exact H4]. t_kw.
  - unfold scq_remove. cbv zeta.
    set (s1 := cancel_all_queued _ _ _).
    assert (H1 : St s1 /\ KWf w s1).
    { split.
      - unfold s1. apply St_cancel_all_queued. assert (HS : St s) by (apply SW_St; exact HSW). t_St.
      - unfold s1. kw_go. }
    clearbody s1. destruct H1 as [HS1 HK1]. destruct HS1 as [Hn _].
    pose proof (KWf_delscq w s1 k Hn HK1) as H2.
    eapply KWf_frame; [reflexivity|]. eapply KWf_frame; [|exact H2]. reflexivity.
Qed.

Lemma SWK_enter : forall w t s, SW s -> KWf w s -> KWf w (enter t s).
Proof.
  intros w t s H HK. unfold enter. destruct (s_now s <? t); [|exact HK]. cbv zeta.
  apply (cleanup_run_closed (SWK w)).
  - intros s1 m [A B]. split; [t_SW'|t_kw].
  - intros s1 e [A B] Hin. apply SWK_run_entry; [exact Hin|split; assumption].
  - split; [t_SW'|t_kw].
Qed.

(* a call that names worker w: the parts of the section context that follow from the invariant *)
Lemma named_parts : forall c p w s, SW s -> aget Nat.eqb c (s_calls s) = Some p -> sync_of p = Some w ->
  worker_exists s w = true /\ k_cleanup (get_worker s w) = None /\ only_names c w s.
Proof.
  intros c p w s [_ [A2 [A3 _]]] Hc Hs. destruct (A2 _ _ _ Hc Hs) as [E1 E2]. split; [exact E1|]. split; [exact E2|].
  intros c' p' Hc' Hs'. eapply A3; eassumption.
Qed.

Lemma Ctx_of_named : forall c p w s, SW s -> aget Nat.eqb c (s_calls s) = Some p -> sync_of p = Some w ->
  k_wait (get_worker s w) = false -> Ctx c w s.
Proof.
  intros c p w s H Hc Hs Hk. destruct (named_parts _ _ _ _ H Hc Hs) as [A [B C]]. unfold Ctx. auto.
Qed.

Lemma Ctx_maybe_dequeue : forall c p w s, SW s -> aget Nat.eqb c (s_calls s) = Some p -> sync_of p = Some w ->
  Ctx c w (maybe_dequeue w s).
Proof.
  intros c p w s H Hc Hs. destruct (named_parts _ _ _ _ H Hc Hs) as [A [B C]].
  unfold maybe_dequeue. destruct (k_wait (get_worker s w)) eqn:Ek; [|unfold Ctx; auto].
  pose proof (SW_WP _ H) as [_ [_ [_ [B5 _]]]]. specialize (B5 w Ek).
  unfold dequeue_worker. destruct (k_last (get_worker s w)) as [pl|] eqn:El; [|congruence].
  set (s1 := upd_inv (last_iref w pl) _ s).
  assert (H' : SW (upd_worker w (fun k => k <| k_wait := false |>) s1)).
  { pose proof (SW_dequeue_worker w s H) as Hd. unfold dequeue_worker in Hd. rewrite El in Hd. exact Hd. }
  unfold Ctx. split; [exact H'|].
  assert (Hex1 : worker_exists s1 w = true) by (unfold s1; rewrite (worker_exists_frame s) by apply scqs_upd_inv; exact A).
  assert (Hg1 : get_worker s1 w = get_worker s w) by (unfold s1; apply get_worker_frame'; apply scqs_upd_inv).
  rewrite worker_exists_upd_worker, get_worker_upd_worker, wref_eqb_refl, Hex1, Hg1. cbn.
  split; [reflexivity|]. split; [exact B|]. split; [reflexivity|].
  eapply only_names_frame; [|exact C]. rewrite calls_upd_worker. unfold s1. apply calls_upd_inv.
Qed.

Lemma SW_register_fold : forall k scs s,
  sorted_strict scs = true -> SW s -> (exists p, In p (s_pqs s) /\ p_key p = k) ->
  (forall sc, In sc scs -> scq_exists s (mkSK k sc) = false) ->
  SW (fold_left (fun s sc => add_scq (mkSK k sc) false s) scs s).
Proof.
  intros k scs s Hs [HS HW] Hp Hn. split; [apply St_register_fold; assumption|].
  apply fold_left_pres; [|exact HW]. intros a sc Ha. unfold add_scq. apply WP_newscq.
  eapply WP_frame; [ | | |exact Ha]; reflexivity.
Qed.

Lemma SW_terminate_fold : forall p l s waits,
  SW s -> SW (fst (fold_left (fun (acc : state * list (nat * nat)) w =>
        let '(s, waits) := acc in
        if matches w p then
          let s := mark_terminating w s in
          match k_task (get_worker s w) with
          | Some tk => (s, waits ++ [(tk, t_gen (get_task s tk))])
          | None => (if k_wait (get_worker s w) then wake_up w s else s, waits)
          end
        else (s, waits)) l (s, waits))).
Proof.
  intros p l s waits H.
  match goal with |- SW (fst (fold_left ?g ?l ?a)) => apply (fold_left_pres (fun acc => SW (fst acc)) g l) end;
    [|exact H].
  intros [s1 w1] w H1. cbn [fst] in *. sw_go3.
Qed.

Lemma SW_step_core : forall e s, SW s -> SW (step_core e s).
Proof.
  intros e s H. destruct e; unfold step_core.
  - unfold exec_start, new_operation. sw_go3.
  - sw_go3.
  - sw_go3.
  - sw_go3.
  - sw_go3.
  - sw_go3.
  - sw_go3.
  - cbv zeta. match goal with |- SW (match ?x with _ => _ end) => rewrite (surjective_pairing x) end.
    cbv beta iota. apply SW_setcall_plain; [reflexivity|]. apply SW_terminate_fold. apply SW_enter. exact H.
  - (* Register *)
    destruct (_ || _) eqn:Ev; [sw_go3|]. cbv zeta.
    assert (He : SW (enter t s)) by (apply SW_enter; exact H). set (s1 := enter t s) in *. clearbody s1.
    destruct (get_pq s1 k) as [p|] eqn:Ep; [sw_go3|].
    unfold ret. apply SW_setcall_plain; [reflexivity|].
    match goal with |- SW (emit _ ?S2) => assert (H2 : SW S2); [|sw_go3] end.
    apply orb_false_iff in Ev. destruct Ev as [Ev _]. apply orb_false_iff in Ev. destruct Ev as [_ Ev].
    apply negb_false_iff in Ev.
    apply SW_register_fold; [exact Ev|unfold add_pq; sw_go3| |].
    + unfold add_pq. cbn. eexists. split; [apply in_or_app; right; left; reflexivity|reflexivity].
    + intros sc Hsc. rewrite (scq_exists_frame s1) by reflexivity.
      destruct (scq_exists s1 (mkSK k sc)) eqn:Ee; [|reflexivity]. exfalso.
      destruct He as [[_ [_ [_ [_ H4]]]] _]. destruct (H4 _ Ee) as [p [Hp [Hk _]]]. cbn in Hk.
      unfold get_pq in Ep. apply (find_none _ _ Ep) in Hp. rewrite (proj2 (pkey_eqb_eq _ _) Hk) in Hp. discriminate.
  - sw_go3.
  - (* EEnter *)
    cbv zeta. destruct (negb (at_gate s (get_call s c))) eqn:Eg; [exact H|]. apply negb_false_iff in Eg.
    assert (He : SW (enter t s)) by (apply SW_enter; exact H).
    rewrite get_call_aget in *. destruct (aget Nat.eqb c (s_calls s)) as [p|] eqn:Ep; [|exact He].
    assert (Hpe : aget Nat.eqb c (s_calls (enter t s)) = Some p) by (rewrite calls_enter; exact Ep).
    destruct p; try exact He; try (set (s1 := enter t s) in *; clearbody s1; sw_go3; fail).
    + (* PSyncDrained *)
      apply H_sync_loop. eapply Ctx_of_named; [exact He|exact Hpe|reflexivity|].
      destruct He as [_ [_ [_ [_ [_ [B3 _]]]]]]. eapply B3; [exact Hpe|reflexivity].
    + (* PSyncQueued: at the gate the worker is not waiting *)
      cbn [at_gate] in Eg. apply negb_true_iff in Eg.
      assert (Hc : Ctx c w (enter t s)).
      { eapply Ctx_of_named; [exact He|exact Hpe|reflexivity|]. apply SWK_enter; [exact H|exact Eg]. }
      destruct (k_task (get_worker (enter t s) w)); [apply (H_sync_return_exec c w)|apply H_sync_loop]; exact Hc.
    + (* PSyncCancelled *)
      apply (H_sync_return_err c w). destruct queued.
      * eapply Ctx_maybe_dequeue; [exact He|exact Hpe|reflexivity].
      * eapply Ctx_of_named; [exact He|exact Hpe|reflexivity|].
        destruct He as [_ [_ [_ [_ [_ [B3 _]]]]]]. eapply B3; [exact Hpe|reflexivity].
  - (* ETimer *)
    cbv zeta. destruct (at_gate s (get_call s c)) eqn:Eg; [exact H|].
    assert (He : SW (enter t s)) by (apply SW_enter; exact H).
    rewrite get_call_aget in *. destruct (aget Nat.eqb c (s_calls s)) as [p|] eqn:Ep; [|exact H].
    assert (Hpe : aget Nat.eqb c (s_calls (enter t s)) = Some p) by (rewrite calls_enter; exact Ep).
    destruct p; try exact H; try (set (s1 := enter t s) in *; clearbody s1; sw_go3; fail).
    + apply (H_sync_return_idle c w). eapply Ctx_of_named; [exact He|exact Hpe|reflexivity|].
      destruct He as [_ [_ [_ [_ [_ [B3 _]]]]]]. eapply B3; [exact Hpe|reflexivity].
    + assert (Hc : Ctx c w (maybe_dequeue w (enter t s))) by (eapply Ctx_maybe_dequeue; [exact He|exact Hpe|reflexivity]).
      destruct (k_task (get_worker (maybe_dequeue w (enter t s)) w)); [apply (H_sync_return_exec c w)|apply (H_sync_return_idle c w)]; exact Hc.
  - (* ECancel *)
    cbv zeta. destruct (at_gate s (get_call s c)) eqn:Eg; [exact H|].
    rewrite get_call_aget in *. destruct (aget Nat.eqb c (s_calls s)) as [p|] eqn:Ep; [|exact H].
    destruct p; try exact H; try (sw_go3; fail).
    + destruct (named_parts _ _ _ _ H Ep eq_refl) as [A [B C]].
      apply (SW_setcall_sync s c _ w); auto. intros _. destruct H as [_ [_ [_ [_ [_ [B3 _]]]]]]. eapply B3; [exact Ep|reflexivity].
    + destruct (named_parts _ _ _ _ H Ep eq_refl) as [A [B C]].
      apply (SW_setcall_sync s c _ w); auto. discriminate.
Qed.

Lemma SW_step : forall s eh, SW s -> SW (fst (step s eh)).
Proof.
  intros s eh H. unfold step. cbn [fst]. eapply SW_eq; [reflexivity|reflexivity|reflexivity|reflexivity|].
  apply fr_auto_returns with (P := SW); [intros; unfold ret; apply SW_setcall_plain; [reflexivity|sw_go3]|].
  apply SW_step_core. eapply SW_eq; [ | | | |exact H]; reflexivity.
Qed.

Lemma SW_init : forall cfg t0, SW (init cfg t0).
Proof.
  intros. split; [apply St_init|]. unfold WP, init, worker_exists, get_worker, get_scq, get_inv. cbn.
  wp_split; intros; try discriminate; try contradiction; try reflexivity; try constructor; congruence.
Qed.

Lemma SW_run : forall cfg t0 evs, SW (fst (run (init cfg t0) evs)).
Proof. intros. apply (run_inv evs (init cfg t0) SW); [intros; apply SW_step; assumption|apply SW_init]. Qed.
