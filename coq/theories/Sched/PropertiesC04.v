(* C04 — the property theorems about the scheduler model, and nothing else. *)
From VF Require Import Sched.Proofs.
Open Scope Z_scope.

(* [minimal less l] are exactly the elements of l no element of l is Less than
   (the admissible heap roots). *)
Theorem minimal_sound : forall {A} (less : A -> A -> bool) (l : list A) (x : A),
  In x (minimal less l) -> In x l /\ forall y, In y l -> less y x = false.
Proof. exact @minimal_sound. Qed.
Print Assumptions minimal_sound.

Theorem minimal_complete : forall {A} (less : A -> A -> bool) (l : list A) (x : A),
  In x l -> (forall y, In y l -> less y x = false) -> In x (minimal less l).
Proof. exact @minimal_complete. Qed.
Print Assumptions minimal_complete.

(* For a strict partial order a non-empty heap has a root. *)
Theorem minimal_nonempty : forall {A} (less : A -> A -> bool) (l : list A),
  (forall x, In x l -> less x x = false) ->
  (forall x y z, In x l -> In y l -> In z l -> less x y = true -> less y z = true -> less x z = true) ->
  l <> [] -> minimal less l <> [].
Proof. exact @minimal_nonempty. Qed.
Print Assumptions minimal_nonempty.
