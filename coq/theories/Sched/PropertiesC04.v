(* C04 — the property theorems about the scheduler model, and nothing else. *)
From VF Require Import Sched.Proofs.
Open Scope Z_scope.

(* [minimal less l] are exactly the elements of l no element of l is Less than
   (the admissible heap roots). *)
Theorem minimal_sound : forall {A} (less : A -> A -> bool) (l : list A) (x : A),
  In x (minimal less l) -> In x l /\ forall y, In y l -> less y x = false.
Proof. exact @minimal_sound. Qed.
Print Assumptions minimal_sound.

Theorem minimal_complete : forall {A} (less : A -> A -> bool) (l : list A) (x : A),
  In x l -> (forall y, In y l -> less y x = false) -> In x (minimal less l).
Proof. exact @minimal_complete. Qed.
Print Assumptions minimal_complete.

(* For a strict partial order a non-empty heap has a root. *)
Theorem minimal_nonempty : forall {A} (less : A -> A -> bool) (l : list A),
  (forall x, In x l -> less x x = false) ->
  (forall x y z, In x l -> In y l -> In z l -> less x y = true -> less y z = true -> less x z = true) ->
  l <> [] -> minimal less l <> [].
Proof. exact @minimal_nonempty. Qed.
Print Assumptions minimal_nonempty.

(* The order on queued operations (priority ascending, expected duration
   descending, queued time ascending) is a strict partial order, so every
   non-empty operation queue has a root and the root is minimal. *)
Theorem ops_less_irrefl : forall s a, ops_less s a a = false.
Proof. exact ops_less_irrefl. Qed.
Print Assumptions ops_less_irrefl.

Theorem ops_less_trans : forall s a b c, ops_less s a b = true -> ops_less s b c = true -> ops_less s a c = true.
Proof. exact ops_less_trans. Qed.
Print Assumptions ops_less_trans.

Theorem min_op_some : forall s l, l <> [] -> exists o, min_op s l = Some o.
Proof. exact min_op_some. Qed.
Print Assumptions min_op_some.

Theorem min_op_minimal : forall s l o, min_op s l = Some o ->
  In o l /\ forall o', In o' l -> ops_less s o' o = false.
Proof. exact min_op_minimal. Qed.
Print Assumptions min_op_minimal.

(* pick_minimal.  [policy s i lastkeys limits sticky retained (t, retained')]
   (ProofsPolicy.v) is the documented policy as a relation over sets: at
   invocation i, if operations are queued directly in i the outcome is the task
   of an ops_less-minimal one; otherwise pick a qchildren_less-minimal queued
   child [best], let [descend] decide between [best] and the worker's sticky
   child at this level, and continue there.  Every outcome the model's search
   allows lies in the policy ... *)
Theorem pick_minimal : forall fuel s i lk lim st r res,
  In res (next_candidates fuel s i lk lim st r) -> policy s i lk lim st r res.
Proof. exact next_candidates_policy. Qed.
Print Assumptions pick_minimal.

(* ... and so does what assignNextQueuedTask hands to the worker (hints only
   select among admissible candidates). *)
Theorem assign_next_in_policy : forall w s,
  snd (assign_next_queued_task w s) = true ->
  exists t retained,
    policy s (mkI (w_sk w) []) (k_last (get_worker s w)) (limits_of s (w_sk w)) (k_sticky (get_worker s w)) 0 (t, retained)
    /\ assign_next_queued_task w s = (assign_queued w t retained s, true).
Proof. exact assign_next_in_policy. Qed.
Print Assumptions assign_next_in_policy.

(* What [descend] does: it continues in the minimal child, unless the worker's
   last invocation at this level is queued and preferred over it with the
   stickiness window (now < start + limit of this level) as tie-break ... *)
Theorem descend_cases : forall s i lk lim st r best next lk' lim' st' r',
  descend s i lk lim st r best = (next, lk', lim', st', r') ->
  (next = best /\ ((lk' = lk /\ lim' = lim /\ st' = st /\ r' = r) \/ (lk' = None /\ lim' = lim /\ st' = st /\ r' = r)
                   \/ (exists k0 krest lim0, lk = Some (k0 :: krest) /\ lim = lim0 :: lim' /\ lk' = Some krest /\ st' = tl st /\ r' = S r
                       /\ best = mkI (i_sk i) (i_path i ++ [k0]))))
  \/ (exists k0 krest lim0, lk = Some (k0 :: krest) /\ lim = lim0 :: lim' /\
        next = mkI (i_sk i) (i_path i ++ [k0]) /\ lk' = Some krest /\ st' = tl st /\ r' = S r /\
        is_queued s next = true /\ is_preferred s next best (s_now s <? hd 0 st + lim0) = true).
Proof. exact descend_cases. Qed.
Print Assumptions descend_cases.

(* ... and being preferred over a minimal child means: equal scores and an open
   window (stickiness can only turn a tie). *)
Theorem sticky_only_breaks_ties : forall s i best isticky tie,
  (forall c, In c (queued_children s i) -> qchildren_less s c best = false) ->
  In isticky (queued_children s i) ->
  is_preferred s isticky best tie = true ->
  tie = true /\
  score_cmp (Z.of_nat (List.length (v_exec (get_inv s isticky))) + 1) (v_first (get_inv s isticky))
            (Z.of_nat (List.length (v_exec (get_inv s best))) + 1) (v_first (get_inv s best)) = Eq.
Proof. exact sticky_only_breaks_ties. Qed.
Print Assumptions sticky_only_breaks_ties.

(* ---- the order on children holding idle workers is not a strict weak order ------------------------------------------
   [c04w_pre] (ProofsC04W.v) is a 16-event run (four workers, four Execute calls, three completions) after which the
   three children a, b, z of the root invocation that hold idle workers precede each other cyclically under
   [ichildren_less] (the code's idleSynchronizingWorkersChildrenHeap.Less): an invocation without executing and without
   idle-synchronizing workers of its own (it is in the heap because of a descendant) ties with every sibling on the
   utilisation products and is compared by completion time only.  No arrangement of that heap satisfies the heap order,
   and [minimal] (the admissible heap roots) is empty; [descend_idle] then accepts every child, as the code takes
   whatever element 0 of the heap is. *)
Example ichildren_less_cyclic :
  let s := fst (run (init c04w_cfg 1000) c04w_pre) in
  let a := mkI c04w_K [1%N] in let b := mkI c04w_K [2%N] in let z := mkI c04w_K [3%N] in
  idle_sync_children s (mkI c04w_K []) = [b; z; a] /\
  ichildren_less s a b = true /\ ichildren_less s b z = true /\ ichildren_less s z a = true /\
  minimal (ichildren_less s) (idle_sync_children s (mkI c04w_K [])) = [].
Proof. exact c04w_cycle. Qed.

(* ---- the order on queued children is a strict partial order ---------------------------------------------------------------
   isPreferred compares e_i * 2^(p_i/100) exactly ([score_cmp]); together with the tie-break on the time the
   invocation last started an operation it is irreflexive and transitive, so a non-empty heap of queued children has a
   root (unlike the heap of children holding idle workers, above). *)
Theorem qchildren_less_irrefl : forall s i, qchildren_less s i i = false.
Proof. exact qchildren_less_irrefl. Qed.
Print Assumptions qchildren_less_irrefl.

Theorem qchildren_less_trans : forall s i j k,
  qchildren_less s i j = true -> qchildren_less s j k = true -> qchildren_less s i k = true.
Proof. exact qchildren_less_trans. Qed.
Print Assumptions qchildren_less_trans.

(* ---- the searches find somebody ---------------------------------------------------------------------------------------------
   [QPs s] / [IPs s] (ProofsFind.v): every invocation with queued operations / with parked workers exists together
   with all its ancestors; both hold of every reachable state ([tree_consistent] below). *)
(* assignNextQueuedTask hands the worker a task whenever something is queued in its size class queue ... *)
Theorem assign_next_finds_queued : forall w s, NoDup (map fst (s_invs s)) -> QPs s ->
  is_queued s (mkI (w_sk w) []) = true -> snd (assign_next_queued_task w s) = true.
Proof. exact assign_next_finds_queued. Qed.
Print Assumptions assign_next_finds_queued.

(* ... and task.schedule finds a parked worker whenever one is parked anywhere in the size class queue of the task. *)
Theorem schedule_finds_parked : forall fuel s invs k,
  NoDup (map fst (s_invs s)) -> IPs s -> invs <> [] -> (forall i, In i invs -> i_sk i = k) ->
  has_idle_sync s (mkI k []) = true -> (max_depth invs < fuel)%nat ->
  schedule_candidates fuel s invs <> [].
Proof. exact schedule_candidates_nonempty. Qed.
Print Assumptions schedule_finds_parked.

(* ---- tree consistency on every reachable state ---------------------------------------------------------------------------
   (ProofsTC1.v) KW: a waiting worker is in the list of idle-synchronizing workers of its last invocation;
   ID: idleWorkersCount of an invocation is at least the number of registered workers whose last invocation lies at or
   below it; EC: the executing-workers count an invocation keeps for a worker is at least the number of operations of
   the task assigned to that worker that lie at or below it; QPs / IPs as above; NQ: nothing is queued in the size class
   queue of a waiting worker.  Hypothesis and escape are those of [sched_exclusive] (PropertiesC01.v). *)
Theorem tree_consistent : forall cfg t0 evs, selectors_in_range (init cfg t0) evs ->
  let s := fst (run (init cfg t0) evs) in
  panicked (snd (run (init cfg t0) evs)) \/ (KW s /\ ID s /\ EC [] s /\ QPs s /\ IPs s /\ NQ s).
Proof. exact tree_consistent. Qed.
Print Assumptions tree_consistent.

(* ---- no_queued_while_parked: the state predicate of C04 on every reachable state ----------------------------------- *)
Theorem no_queued_while_parked : forall cfg t0 evs, selectors_in_range (init cfg t0) evs ->
  panicked (snd (run (init cfg t0) evs)) \/ c04_dump (observe (fst (run (init cfg t0) evs))) = ""%string.
Proof. exact no_queued_while_parked. Qed.
Print Assumptions no_queued_while_parked.

(* non-vacuity: the history of [ichildren_less_cyclic] with one more Execute, and a generated history *)
Example cyclic_history_in_range : selectors_in_range (init c04w_cfg 1000) c04w_evs.
Proof. exact c04w_in_range. Qed.
Example cyclic_history_served : c04_dump (observe (fst (run (init c04w_cfg 1000) c04w_evs))) = ""%string.
Proof.
  destruct (no_queued_while_parked c04w_cfg 1000 c04w_evs c04w_in_range) as [[o [what [Ho Hp]]]|H]; [|exact H].
  exfalso. exact (c04w_no_panic o what Ho Hp).
Qed.
Example generated_history_served : c04_dump (observe (fst (run (init gen_cfg gen_t0) gen_evs))) = ""%string.
Proof.
  destruct (no_queued_while_parked gen_cfg gen_t0 gen_evs gen_selectors_in_range) as [[o [what [Ho Hp]]]|H]; [|exact H].
  exfalso. exact (gen_no_panic o what Ho Hp).
Qed.

(* ---- direct_assign_closest --------------------------------------------------------------------------------------------------------
   task.schedule looks for a parked worker bottom up: with [anc_n n i] the n-th ancestor of invocation i, every worker
   it may hand the task to is parked at or below some h = anc_n n i (i one of the task's invocations) that has parked
   workers below it, and no invocation reached in fewer steps up from any of the task's invocations has a parked worker
   below it: the nearest level with a hit is taken. *)
Theorem direct_assign_closest : forall fuel s invs w, In w (schedule_candidates fuel s invs) ->
  exists n h j, (n < fuel)%nat /\ In h (map (anc_n n) invs) /\ has_idle_sync s h = true /\
    In w (v_isync (get_inv s j)) /\ In h (chain j) /\
    forall m h', (m < n)%nat -> In h' (map (anc_n m) invs) -> has_idle_sync s h' = false.
Proof. exact direct_assign_closest. Qed.
Print Assumptions direct_assign_closest.
