(* Bounded evidence (NOT a theorem about all histories) for the candidate repair of the monitor's retry bookkeeping, see
   ProofsRetry1.v.  All move sequences of a given length after the prefix "register, worker w parks, Execute with a learner
   that asks for two retries, the parked call is told to run the task"; moves: w asks again idle / reports a failure of the
   task / reports Executing / the latest call is released from the clock gate / a second Execute of the same digest
   (deduplicated, another invocation) / a read-only call 100 time units later (every time-out lapses) / w reports success /
   a second worker asks for work.  Call ids are consecutive, learner ids distinct, so the hypotheses of
   monitor_components_on_model hold by construction; histories that report a panic are skipped.
   Length 4 is checked here (3 x 4096 histories, retry counts 0, 1, 2).  Length 5 (3 x 32768 histories) was run once by hand
   (2026-09-23, 2 x 140 s): the current bookkeeping rejects 0 / 253 / 48 histories for retry counts 0 / 1 / 2, the repaired
   one none. *)
From VF Require Export Sched.ProofsRetry1.
From VF Require Import Sched.Spec Sched.Corr.
Open Scope Z_scope.

Definition rs_w2 : wref := mkW (mkSK (mkPK [] 0) 1) 7 9.
Definition rs_lrn : learner := Learner 1 None (Some (10, 100, Learner 2 None (Some (10, 100, Learner 3 None None)))).
Definition rs_pfx : list (event * list (nat * wref)) :=
  [ (ERegister 0 (mkPK [] 0) [] 0 0 [1%N] 1, []);
    (EStartSync 1 (mkSync rw_w WIdle false) 2, []);
    (EStartExecute 2 (mkExec [] 0 5 false 0 [] (0%nat, 10, 100, rs_lrn)) 3, []);
    (EEnter 1 4, []) ].
(* move -> event, given the next call id c and the time t *)
Definition rs_mv (k : nat) (c : nat) (t : Z) : event * Z :=
  match k with
  | 0%nat => (EStartSync c (mkSync rw_w WIdle false) t, t + 1)
  | 1%nat => (EStartSync c (mkSync rw_w (WCompleted 5 (mkResp 2 0 9)) false) t, t + 1)
  | 2%nat => (EStartSync c (mkSync rw_w (WExecuting 5) false) t, t + 1)
  | 3%nat => (EEnter (c - 1) t, t + 1)
  | 4%nat => (EStartExecute c (mkExec [] 0 5 false 0 [9%N] (0%nat, 10, 100, Learner (N.of_nat (100 + c)) None None)) t, t + 1)
  | 5%nat => (ETick c (t + 100), t + 101)
  | 6%nat => (EStartSync c (mkSync rw_w (WCompleted 5 (mkResp 0 0 9)) false) t, t + 1)
  | _ => (EStartSync c (mkSync rs_w2 WIdle false) t, t + 1)
  end.
Fixpoint rs_build (ks : list nat) (c : nat) (t : Z) : list (event * list (nat * wref)) :=
  match ks with
  | [] => []
  | k :: tl => let '(e, t') := rs_mv k c t in (e, []) :: rs_build tl (S c) t'
  end.
Fixpoint rs_seqs (n : nat) : list (list nat) :=
  match n with
  | O => [[]]
  | S n' => flat_map (fun s => map (fun k => k :: s) (seq 0 8)) (rs_seqs n')
  end.
Definition rs_nopanic (os : list (list obs)) : bool := forallb (forallb (fun x => match x with OPanic _ => false | _ => true end)) os.
Definition rs_cfg (r : nat) : config := mkConfig 5 10 30 10 60 r 20.
Definition rs_evs (ks : list nat) := rs_pfx ++ rs_build ks 3 5.
(* a panic-free history the bookkeeping (with / without the repair) rejects *)
Definition rs_bad (clear : bool) (r : nat) (ks : list nat) : bool :=
  rs_nopanic (snd (run (init (rs_cfg r) 0) (rs_evs ks))) && negb (rb_accepts clear (rs_cfg r) 0 (rs_evs ks)).

(* the witness of ProofsRetry1.v (with a learner that asks for two retries) is one of these histories *)
Lemma rs_witness : rs_bad false 1 [0%nat; 1%nat; 0%nat] = true /\ rs_bad true 1 [0%nat; 1%nat; 0%nat] = false.
Proof. vm_compute. split; reflexivity. Qed.

Lemma rs_search_4 :
  map (fun r => List.length (filter (rs_bad false r) (rs_seqs 4))) [0%nat; 1%nat; 2%nat] = [0%nat; 20%nat; 2%nat] /\
  map (fun r => filter (rs_bad true r) (rs_seqs 4)) [0%nat; 1%nat; 2%nat] = [[]; []; []].
Proof. vm_compute. split; reflexivity. Qed.
