(* Bounded evidence (NOT a theorem about all histories) about the monitor's retry bookkeeping, positions 14 / 15 of
   Spec.p_step, and the candidate rule rt_track of ProofsRetry3.v.  Depends only on Spec.v / Corr.v (through ProofsRetry3.v:
   rt_step false is a copy of the bookkeeping of the current p_step, rt_step true adds the rule).

   Histories: the prefix "register, worker w parks, Execute with a learner that asks for two retries, the parked call is
   told to run the task", then a fixed middle part, then every sequence of n moves out of ten (rt_mv: w asks again idle / w
   reports a failure / w reports Executing / the latest call is released / Execute of the same digest in another invocation /
   a read-only call 12 time units later / w reports success / a second worker asks / the first client is cancelled / the
   first client's call is released).  Call ids are consecutive and learner ids distinct, so the hypotheses of
   monitor_components_on_model hold by construction; histories that report a panic are skipped.  Retry counts 0, 1, 2.

   In the build (3 x 1000 histories each): see rt_search_3.
   Run by hand on 2026-09-23 with n = 4 (3 x 10000 histories each, about 100 s per line):
     middle []            current p_step rejects 0 / 0 / 0,     with rt_track 0 / 0 / 0
     middle [4; 8; 9]     current p_step rejects 0 / 0 / 0,     with rt_track 0 / 0 / 0
     middle [0; 4; 8; 9]  current p_step rejects 0 / 329 / 29,  with rt_track 0 / 0 / 0
   (middle [0; 4; 8; 9]: one counted re-request, then a second operation is attached and the first client leaves -- the
   mechanism of rw7_evs needs the entry to be stored before the operation list starts to change.)
   First round (p_step before the accepted-completion rule was restored; alphabet without moves 8 / 9, time jump 100):
   n = 4: 0 / 20 / 2 rejected, n = 5: 0 / 253 / 48 rejected, none with that rule. *)
From VF Require Export Sched.ProofsRetry3.
From VF Require Import Sched.Spec Sched.Corr.
Open Scope Z_scope.

Definition rt_count (track : bool) (mid : list nat) (n : nat) : list nat :=
  map (fun r => List.length (filter (rt_bad track r mid) (rt_seqs 10 n))) [0%nat; 1%nat; 2%nat].

Lemma rt_search_3 :
  rt_count false [] 3 = [0; 0; 0]%nat /\ rt_count true [] 3 = [0; 0; 0]%nat /\
  rt_count false [0; 4; 8; 9]%nat 3 = [0; 22; 1]%nat /\ rt_count true [0; 4; 8; 9]%nat 3 = [0; 0; 0]%nat.
Proof. vm_compute. repeat split; reflexivity. Qed.

(* the same histories against the real thing: positions 14 and 15 of Spec.p_step_all *)
Definition rt_bad_real (r : nat) (mid ks : list nat) : bool :=
  rt_nopanic (snd (run (init (rt_cfg r) 0) (rt_evs mid ks)))
  && negb (forallb (fun x => String.eqb (fst x) "" && String.eqb (snd x) "")
                   (rt_positions (rt_cfg r) 0 mon0 empty_dump (rt_trace (init (rt_cfg r) 0) (rt_evs mid ks)))).
Definition rt_count_real (mid : list nat) (n : nat) : list nat :=
  map (fun r => List.length (filter (rt_bad_real r mid) (rt_seqs 10 n))) [0%nat; 1%nat; 2%nat].

Lemma rt_search_real_3 : rt_count_real [] 3 = [0; 0; 0]%nat /\ rt_count_real [0; 4; 8; 9]%nat 3 = [0; 0; 0]%nat.
Proof. vm_compute. split; reflexivity. Qed.
