(* C01: the statements exported to PropertiesC01.v, in terms of the model only. *)
From Coq Require Import Lia.
From VF Require Export Sched.ProofsExcl8.
From VF Require Import Sched.ProofsSyncOut.
Open Scope Z_scope.

(* the hypothesis on event lists: no Synchronize call comes from a worker whose id hash is the
   value the model reserves for "no worker" (task.complete of a queued task) *)
Definition no_phantom_sync (evs : list (event * list (nat * wref))) : Prop :=
  forall c a t h, In (EStartSync c a t, h) evs -> is_phantom (y_worker a) = false.

Lemma no_phantom_evs_ok : forall evs, no_phantom_sync evs -> evs_ok evs.
Proof. intros evs H [e h] Hin. destruct e; cbn; auto. eapply H. exact Hin. Qed.

Lemma reach_G : forall cfg t0 evs, no_phantom_sync evs -> G (fst (run (init cfg t0) evs)).
Proof. intros. apply G_run. apply no_phantom_evs_ok. assumption. Qed.

Lemma reach_X : forall cfg t0 evs, no_phantom_sync evs -> X [] (fst (run (init cfg t0) evs)).
Proof. intros. apply XS_X. apply G_XS. apply reach_G. assumption. Qed.

(* worker and task pointers are mutually inverse; an assigned task has no response *)
Lemma workers_tasks_inverse : forall cfg t0 evs, no_phantom_sync evs ->
  let s := fst (run (init cfg t0) evs) in
  (forall t w, t_worker (get_task s t) = Some w ->
     is_phantom w = false /\ worker_exists s w = true /\ k_task (get_worker s w) = Some t /\ t_resp (get_task s t) = None) /\
  (forall w t, worker_exists s w = true -> k_task (get_worker s w) = Some t -> t_worker (get_task s t) = Some w).
Proof.
  intros cfg t0 evs H s. pose proof (reach_X cfg t0 evs H) as HX. fold s in HX. split.
  - intros t w. apply (XA _ _ HX). intros [].
  - intros w t He Hk. apply (XB _ _ HX); auto.
Qed.

(* queue entries are registered operations of that invocation whose task has neither worker nor response; nothing is queued twice *)
Lemma queued_ops_sane : forall cfg t0 evs, no_phantom_sync evs ->
  let s := fst (run (init cfg t0) evs) in
  (forall i o, In o (v_qops (get_inv s i)) ->
     op_alive s o = true /\ o_inv (get_op s o) = i /\
     t_worker (get_task s (o_task (get_op s o))) = None /\ t_resp (get_task s (o_task (get_op s o))) = None) /\
  (forall i, NoDup (v_qops (get_inv s i))) /\
  NoDup (map fst (s_invs s)).
Proof.
  intros cfg t0 evs H s. pose proof (reach_G cfg t0 evs H) as HG. fold s in HG. pose proof (XS_X _ _ (G_XS _ HG)) as HX. split; [|split].
  - intros i o Hin. destruct (XQ _ _ HX _ _ Hin) as [Ha Hi]. split; [exact Ha|]. split; [exact Hi|].
    apply (XL _ _ HX o Ha (fun F => F)). unfold queued. rewrite Hi. exact Hin.
  - apply (XQn _ _ HX).
  - destruct (XS_St _ _ (G_XS _ HG)) as [_ [_ [Hn _]]]. exact Hn.
Qed.

(* operations and tasks refer to each other; a task lists no operation twice *)
Lemma ops_tasks_inverse : forall cfg t0 evs, no_phantom_sync evs ->
  let s := fst (run (init cfg t0) evs) in
  (forall o, op_alive s o = true -> In (o_inv (get_op s o), o) (t_ops (get_task s (o_task (get_op s o))))) /\
  (forall t i o, In (i, o) (t_ops (get_task s t)) -> op_alive s o = true /\ o_task (get_op s o) = t /\ o_inv (get_op s o) = i) /\
  (forall t, NoDup (map snd (t_ops (get_task s t)))).
Proof.
  intros cfg t0 evs H s. pose proof (reach_G cfg t0 evs H) as HG. fold s in HG. pose proof (XS_X _ _ (G_XS _ HG)) as HX. split; [|split].
  - intros o Ha. apply (XO1 _ _ HX o Ha). intros [].
  - intros t i o Hin. apply (XO2 _ _ HX t i o (fun F => F) Hin).
  - apply (XS_XN _ _ (G_XS _ HG)).
Qed.

(* a completed task is held by nobody: no worker, none of its operations queued *)
Lemma completed_task_released : forall cfg t0 evs, no_phantom_sync evs ->
  let s := fst (run (init cfg t0) evs) in
  forall t r, t_resp (get_task s t) = Some r ->
    t_worker (get_task s t) = None /\
    (forall w, worker_exists s w = true -> k_task (get_worker s w) <> Some t) /\
    (forall i o, In o (v_qops (get_inv s i)) -> o_task (get_op s o) <> t).
Proof.
  intros cfg t0 evs H s t r Hr.
  destruct (workers_tasks_inverse cfg t0 evs H) as [HA HB]. destruct (queued_ops_sane cfg t0 evs H) as [HQ _]. fold s in HA, HB, HQ.
  assert (Hw : t_worker (get_task s t) = None).
  { destruct (t_worker (get_task s t)) as [w|] eqn:E; [|reflexivity]. destruct (HA t w E) as [_ [_ [_ E2]]]. congruence. }
  split; [exact Hw|]. split.
  - intros w He Hk. specialize (HB w t He Hk). congruence.
  - intros i o Hin Ht. destruct (HQ i o Hin) as [_ [_ [_ E]]]. rewrite Ht in E. congruence.
Qed.

(* no_start_after_complete: a Synchronize answer "execute" names a task that is assigned to a
   registered worker and has no response *)
Lemma no_start_after_complete : forall cfg t0 evs eh c dg dnc tm qts sfx z,
  no_phantom_sync (evs ++ [eh]) ->
  let s := fst (run (init cfg t0) evs) in
  In (OSync c (DExec dg dnc tm qts sfx) z) (snd (step s eh)) ->
  let s' := fst (step s eh) in
  exists w t, worker_exists s' w = true /\ k_task (get_worker s' w) = Some t /\ t_worker (get_task s' t) = Some w /\
              exec_desired s' t = DExec dg dnc tm qts sfx /\ t_resp (get_task s' t) = None.
Proof.
  intros cfg t0 evs eh c dg dnc tm qts sfx z H s Hin s'.
  destruct (sync_tells_assigned_step s eh c dg dnc tm qts sfx z Hin) as [w [t [Hk Hd]]]. fold s' in Hk, Hd.
  assert (HG : G s').
  { unfold s', s. apply G_step.
    - apply (no_phantom_evs_ok _ H). apply in_or_app. right. left. reflexivity.
    - apply reach_G. intros c' a' t' h' Hin'. eapply H. apply in_or_app. left. exact Hin'. }
  pose proof (XS_X _ _ (G_XS _ HG)) as HX.
  pose proof (ktask_exists _ _ _ Hk) as He.
  pose proof (XB _ _ HX w t He Hk (fun F => F)) as Hw.
  destruct (XA _ _ HX t w (fun F => F) Hw) as [_ [_ [_ Hr]]].
  exists w, t. auto.
Qed.

(* the structure of the tables *)
Lemma tables_structure : forall cfg t0 evs,
  let s := fst (run (init cfg t0) evs) in
  NoDup (map fst (s_scqs s)) /\
  (forall k q, In (k, q) (s_scqs s) -> NoDup (map fst (q_workers q)) /\ forall w, In w (map fst (q_workers q)) -> w_sk w = k) /\
  NoDup (map fst (s_invs s)) /\
  (forall k, inv_exists s (mkI k []) = scq_exists s k) /\
  (forall k, scq_exists s k = true -> exists p, In p (s_pqs s) /\ p_key p = sk_pk k /\ In (sk_sc k) (p_scs p)).
Proof. intros cfg t0 evs s. exact (SW_St _ (SW_run cfg t0 evs)). Qed.

(* the worker protocol: parked Synchronize calls and idle lists *)
Lemma parked_workers : forall cfg t0 evs,
  let s := fst (run (init cfg t0) evs) in
  (forall c p w, aget Nat.eqb c (s_calls s) = Some p -> sync_of p = Some w -> worker_exists s w = true /\ k_cleanup (get_worker s w) = None) /\
  (forall c c' p p' w, aget Nat.eqb c (s_calls s) = Some p -> aget Nat.eqb c' (s_calls s) = Some p' -> sync_of p = Some w -> sync_of p' = Some w -> c = c') /\
  (forall i w, In w (v_isync (get_inv s i)) ->
     worker_exists s w = true /\ k_wait (get_worker s w) = true /\ k_last (get_worker s w) = Some (i_path i) /\ w_sk w = i_sk i) /\
  (forall i, NoDup (v_isync (get_inv s i))) /\
  (forall k, q_cleanup (get_scq s k) <> None -> q_workers (get_scq s k) = []).
Proof.
  intros cfg t0 evs s. destruct (SW_WP _ (SW_run cfg t0 evs)) as [A2 [A3 [_ [_ [_ [X8 [X8n E7]]]]]]]. fold s in A2, A3, X8, X8n, E7. auto.
Qed.
