(* Correspondence evaluator for the suspendable clock: the model against
   the outputs recorded from the Go code, and the property predicate
   [p_step] folded over the implementation's own trace. *)
From VF Require Import Common.Verdict Clock.Model Clock.Spec.
Open Scope Z_scope.

Record case := mkCase {
  c_cfg : cfg;
  c_evs : list event;
  c_outs : list out }.   (* implementation outputs, one per event *)

Definition out_eqb (a b : out) : bool :=
  match a, b with
  | ONone, ONone | OPanic, OPanic | OTGone, OTGone => true
  | ONew a1 a2, ONew b1 b2 => (a1 =? b1) && (a2 =? b2)
  | ORearm a1, ORearm b1 => a1 =? b1
  | ODone e1 d1, ODone e2 d2 => berr_eqb e1 e2 && (d1 =? d2)
  | OStor a1 a2 a3 a4, OStor b1 b2 b3 b4 =>
    (a1 =? b1)%N && (a2 =? b2)%N && (a3 =? b3)%N && (a4 =? b4)%N
  | ODeliver v1 m1 s1, ODeliver v2 m2 s2 => (v1 =? v2) && Bool.eqb m1 m2 && Bool.eqb s1 s2
  | OTStop r1 g1, OTStop r2 g2 => Bool.eqb r1 r2 && Bool.eqb g1 g2
  | _, _ => false
  end.

Fixpoint viol_from (c : cfg) (i : nat) (mo : mon) (evs : list event) (outs : list out) : verdict :=
  match evs, outs with
  | e :: evs', o :: outs' =>
    let k := p_step c mo e o in
    if String.eqb k "" then viol_from c (S i) (mon_step c mo e o) evs' outs'
    else VViolation i k
  | [], [] => VOk
  | _, _ => VMismatch i "malformed case"
  end.

Fixpoint mism_from (c : cfg) (i : nat) (s : state) (evs : list event) (outs : list out) : verdict :=
  match evs, outs with
  | e :: evs', o :: outs' =>
    let '(s', y) := step c s e in
    if out_eqb o y then mism_from c (S i) s' evs' outs'
    else VMismatch i "output"
  | _, _ => VOk
  end.

Definition check_case (c : case) : verdict :=
  vcombine (viol_from (c_cfg c) 0 mon0 (c_evs c) (c_outs c))
           (mism_from (c_cfg c) 0 init (c_evs c) (c_outs c)).
