(* C11 - the property theorems, and nothing else. *)
From VF Require Import Clock.Model Clock.Spec Clock.Proofs.
Open Scope Z_scope.

(* The clock's bookkeeping (totalUnsuspended, unsuspensionStart,
   suspensionCount) always equals the true unsuspended time of the
   timeline, for every history. *)
Theorem accounting_exact : forall c evs,
  let s := run c evs in let t := timeline evs in
  s_now s = tl_now t /\ s_cnt s = tl_cnt t /\
  s_total s + (if Nat.eqb (s_cnt s) 0 then s_now s - s_ustart s else 0) = tl_uns t.
Proof. exact accounting_exact_lemma. Qed.
Print Assumptions accounting_exact.
