(* C11 - the property theorems, and nothing else.

   Vocabulary (Model.v / Spec.v): [run c evs] is the state of the model of
   SuspendableClock after the history [evs] (configuration c =
   maximumSuspension, timeoutThreshold); [step] produces the observable
   output of one more event.  [timeline evs] is the specification's own
   account of time: wall-clock time [tl_now] and true unsuspended time
   [tl_uns] (time during which no storage call was in flight), computed
   from the events alone.  [births evs] lists, per context in creation
   order, the creation instant T0, the unsuspended time U0 at creation and
   the timeout d.  Events about a context are Arm (the loop goroutine's
   next step), Fire tf (base timer value tf, at or after its deadline and
   not in the future), Cancel, BaseExpire (the base context, created with
   d + maximumSuspension, expires). *)
From VF Require Import Clock.Model Clock.Spec Clock.Proofs Clock.ProofsThm.
Open Scope list_scope.
Open Scope Z_scope.

(* The clock's bookkeeping (totalUnsuspended, unsuspensionStart,
   suspensionCount) equals the true unsuspended time, for every history. *)
Theorem accounting_exact : forall c evs,
  let s := run c evs in let t := timeline evs in
  s_now s = tl_now t /\ s_cnt s = tl_cnt t /\
  s_total s + (if Nat.eqb (s_cnt s) 0 then s_now s - s_ustart s else 0) = tl_uns t.
Proof. exact accounting_exact_lemma. Qed.
Print Assumptions accounting_exact.

(* The property predicate that Corr.v evaluates on the traces recorded from
   the Go code accepts every trace of the model. *)
Theorem monitor_accepts_model : forall c evs, trace_ok c (trace c evs) = true.
Proof. exact monitor_accepts_model_lemma. Qed.
Print Assumptions monitor_accepts_model.

(* A context reports DeadlineExceeded only if it has really run for more
   than d - threshold of unsuspended time, or the wall-clock cap
   T0 + d + maximumSuspension has been reached. *)
Theorem deadline_sound : forall c evs e id dur T0 U0 d,
  target e = Some id ->
  snd (step c (run c evs) e) = ODone EDeadline dur ->
  nth_error (births evs) id = Some (mkBirth T0 U0 d) ->
  d - thr c < tl_uns (timeline evs) - U0 \/ T0 + d + maxSusp c <= tl_now (timeline evs).
Proof. exact deadline_sound_lemma. Qed.
Print Assumptions deadline_sound.

(* A context that is still within its unsuspended budget and within the
   wall-clock cap, and that nobody cancelled, is not done. *)
Theorem within_budget_not_cancelled : forall c evs id T0 U0 d x,
  nth_error (births evs) id = Some (mkBirth T0 U0 d) ->
  nth_error (s_ctxs (run c evs)) id = Some x ->
  tl_uns (timeline evs) - U0 <= d - thr c ->
  tl_now (timeline evs) < T0 + d + maxSusp c ->
  ~ In (Cancel id) evs ->
  x_phase x <> PDone.
Proof. exact within_budget_not_cancelled_lemma. Qed.
Print Assumptions within_budget_not_cancelled.

(* Canceled is only ever reported after a Cancel of that context. *)
Theorem canceled_only_on_request : forall c evs e id dur,
  target e = Some id ->
  snd (step c (run c evs) e) = ODone ECanceled dur ->
  In (Cancel id) (evs ++ [e]).
Proof. exact canceled_only_on_request_lemma. Qed.
Print Assumptions canceled_only_on_request.

(* The duration reported through UnsuspendedDurationKey is the true
   unsuspended time since creation: exactly on the cancellation / expiry
   path; on the timer path it is exact up to the time by which the
   goroutine processes the timer value late (now - tf), hence exact when
   the value is processed at once, and always more than d - threshold. *)
Theorem reported_duration_exact : forall c evs e id er dur T0 U0 d,
  target e = Some id ->
  snd (step c (run c evs) e) = ODone er dur ->
  nth_error (births evs) id = Some (mkBirth T0 U0 d) ->
  let U := tl_uns (timeline evs) - U0 in
  match e with
  | Fire _ tf => U - (tl_now (timeline evs) - tf) <= dur <= U /\ d - thr c < dur
  | _ => dur = U
  end.
Proof. exact reported_duration_exact_lemma. Qed.
Print Assumptions reported_duration_exact.

(* Wall-clock bound, progress half: from T0 + d + maximumSuspension on, the
   expiry of the base context is enabled; it ends a sleeping loop at once
   with DeadlineExceeded, and a loop that is between two critical sections
   at its next step. *)
Theorem deadline_wall_bound_progress : forall c evs id T0 U0 d x,
  nth_error (births evs) id = Some (mkBirth T0 U0 d) ->
  nth_error (s_ctxs (run c evs)) id = Some x ->
  T0 + d + maxSusp c <= tl_now (timeline evs) ->
  match x_phase x with
  | PArmed _ => snd (step c (run c evs) (BaseExpire id)) = ODone EDeadline (tl_uns (timeline evs) - U0)
  | PArming _ =>
    exists er, er <> ENone /\
    snd (step c (fst (step c (run c evs) (BaseExpire id))) (Arm id)) = ODone er (tl_uns (timeline evs) - U0)
  | PDone => True
  end.
Proof. exact expiry_progress_lemma. Qed.
Print Assumptions deadline_wall_bound_progress.

(* Wall-clock bound, safety half: after the expiry has been delivered at or
   after T0 + d + maximumSuspension, whatever happens next, the loop never
   again waits for a timer. *)
Theorem deadline_wall_bound : forall c evs evs2 id T0 U0 d x,
  nth_error (births evs) id = Some (mkBirth T0 U0 d) ->
  T0 + d + maxSusp c <= tl_now (timeline evs) ->
  nth_error (s_ctxs (run c (evs ++ BaseExpire id :: evs2))) id = Some x ->
  forall dl, x_phase x <> PArmed dl.
Proof. exact wall_bound_safety_lemma. Qed.
Print Assumptions deadline_wall_bound.

(* The timeout does fire: a base timer value processed without delay once
   more than d - threshold of unsuspended time has been used ends the
   context with DeadlineExceeded and the exact duration. *)
Theorem deadline_complete : forall c evs id T0 U0 d x dl,
  nth_error (births evs) id = Some (mkBirth T0 U0 d) ->
  nth_error (s_ctxs (run c evs)) id = Some x ->
  x_phase x = PArmed dl -> dl <= tl_now (timeline evs) ->
  d - thr c < tl_uns (timeline evs) - U0 ->
  snd (step c (run c evs) (Fire id (tl_now (timeline evs)))) = ODone EDeadline (tl_uns (timeline evs) - U0).
Proof. exact deadline_complete_lemma. Qed.
Print Assumptions deadline_complete.

(* Termination of the re-arm loop: with a positive threshold the k-th
   iteration happens no earlier than T0 + d + (k-1)*threshold. *)
Theorem rearm_bounded : forall c evs id T0 U0 d,
  0 < thr c ->
  nth_error (births evs) id = Some (mkBirth T0 U0 d) ->
  let k := rearms id (trace c evs) in
  k <> 0%nat -> Z.of_nat k - 1 <= (tl_now (timeline evs) - T0 - d) / thr c.
Proof. exact rearm_bounded_lemma. Qed.
Print Assumptions rearm_bounded.

(* The hypothesis 0 < threshold is needed: with threshold 0 the loop can
   iterate any number of times while no time passes at all.  (Replayed on
   the Go code: corpus/C11/spin-at-zero-threshold.json.) *)
Theorem rearm_unbounded_at_zero_threshold : forall ms n,
  exists evs, tl_now (timeline evs) = 0 /\ rearms 0 (trace (mkCfg ms 0) evs) = n.
Proof. exact rearm_unbounded_at_zero_threshold_lemma. Qed.
Print Assumptions rearm_unbounded_at_zero_threshold.

(* Timers created by SuspendableClock.NewTimer.  [mon_run c (trace c evs)] is
   the specification-side record of what has been observed so far (Spec.v):
   per timer its creation instant / unsuspended time / duration (set from
   the timeline when TNew is issued), whether Stop() has returned true and
   whether a value has been delivered.  A value is delivered at most once,
   never after a successful Stop(), it is the base timer's value, and it
   comes either after more than d - threshold of unsuspended time or at the
   cap T0 + d + maximumSuspension. *)
Theorem timer_delivery : forall c evs e id m v ms bs,
  ttarget e = Some id ->
  nth_error (mo_tmrs (mon_run c (trace c evs))) id = Some m ->
  snd (step c (run c evs) e) = ODeliver v ms bs ->
  mt_stopped m = false /\ mt_delivered m = false /\
  match e with
  | TFire _ tf => v = tf /\ mt_d m - thr c < tl_uns (timeline evs) - mt_U0 m
  | TMaxFire _ tf => v = tf /\ mt_T0 m + mt_d m + maxSusp c <= tl_now (timeline evs)
  | _ => False
  end.
Proof. exact timer_delivery_lemma. Qed.
Print Assumptions timer_delivery.

(* Stop() reports true exactly if it prevented the delivery, and then a
   sleeping loop goroutine is gone with both base timers stopped. *)
Theorem timer_stop_result : forall c evs id m ret gone,
  nth_error (mo_tmrs (mon_run c (trace c evs))) id = Some m ->
  snd (step c (run c evs) (TStop id)) = OTStop ret gone ->
  ret = negb (mt_stopped m || mt_delivered m) /\ (ret = true -> mt_parked m = false -> gone = true).
Proof. exact timer_stop_result_lemma. Qed.
Print Assumptions timer_stop_result.

(* ---- non-vacuity ------------------------------------------------------------------------ *)

Definition sec : Z := 1000000000.
Definition cfg1 : cfg := mkCfg (3600 * sec) (sec / 10).

(* 5 s timeout, stalled on storage for 1 s: the first base timer (5 s) is
   answered by a re-arm of 1 s, the second by DeadlineExceeded with a
   reported duration of exactly 5 s, at wall-clock time 6 s. *)
Definition h1 : list event :=
  [NewCtx (5 * sec); Arm 0; Advance 2000000000; Suspend; Advance 1000000000; Resume;
   Advance 2000000000; Fire 0 (5 * sec); Arm 0; Advance 1000000000; Fire 0 (6 * sec)].

Example compensated_deadline :
  map snd (trace cfg1 h1) =
  [ONew (3605 * sec) (5 * sec); ONone; ONone; ONone; ONone; ONone; ONone; ORearm sec; ONone; ONone;
   ODone EDeadline (5 * sec)]
  /\ tl_now (timeline h1) = 6 * sec /\ tl_uns (timeline h1) = 5 * sec
  /\ births h1 = [mkBirth 0 0 (5 * sec)].
Proof. vm_compute. repeat split; reflexivity. Qed.

(* the cap: stalled for longer than maximumSuspension *)
Example capped_deadline :
  map snd (trace (mkCfg (sec / 2) (sec / 10))
    [NewCtx sec; Arm 0; Suspend; Advance 1500000000; BaseExpire 0]) =
  [ONew (sec + sec / 2) sec; ONone; ONone; ONone; ODone EDeadline 0].
Proof. vm_compute. reflexivity. Qed.

(* cancellation by the executor after the command finished in 3 s, 1 s of
   which stalled *)
Example cancelled_within_budget :
  map snd (trace cfg1
    [NewCtx (5 * sec); Arm 0; Advance 1000000000; Storage KGet false true 1000000000;
     Advance 1000000000; Cancel 0]) =
  [ONew (3605 * sec) (5 * sec); ONone; ONone; OStor 1 0 1 1; ONone; ODone ECanceled (2 * sec)].
Proof. vm_compute. reflexivity. Qed.

(* a timer of 1 s, stalled 0.4 s: re-armed for 0.4 s, delivered at 1.4 s;
   a second one stopped while armed *)
Example timer_compensated :
  map snd (trace cfg1
    [TNew sec; TArm 0; Storage KFindMissing false false 400000000; Advance 600000000; TFire 0 sec;
     TArm 0; Advance 400000000; TFire 0 (sec + 400000000); TStop 0;
     TNew sec; TArm 1; TStop 1; TStop 1]) =
  [ONew (3601 * sec) sec; ONone; OStor 1 0 1 1; ONone; ORearm 400000000; ONone; ONone;
   ODeliver (sec + 400000000) true false; OTStop false false;
   ONew (3601 * sec) sec; ONone; OTStop true true; OTStop false false].
Proof. vm_compute. reflexivity. Qed.

(* the hypotheses of within_budget_not_cancelled are satisfiable *)
Example within_budget_reachable :
  let evs := [NewCtx (5 * sec); Arm 0; Advance 2000000000; Suspend; Advance 9000000000] in
  nth_error (births evs) 0 = Some (mkBirth 0 0 (5 * sec)) /\
  tl_uns (timeline evs) - 0 <= 5 * sec - thr cfg1 /\
  tl_now (timeline evs) < 0 + 5 * sec + maxSusp cfg1 /\
  ~ In (Cancel 0) evs /\
  exists x, nth_error (s_ctxs (run cfg1 evs)) 0 = Some x /\ x_phase x = PArmed (5 * sec).
Proof.
  cbv zeta. split; [reflexivity|]. split; [vm_compute; discriminate|]. split; [vm_compute; reflexivity|].
  split.
  - intros H. repeat (destruct H as [H|H]; [discriminate|]). exact H.
  - eexists. split; vm_compute; reflexivity.
Qed.
