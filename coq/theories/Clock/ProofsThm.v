(* From the simulation of Proofs.v to the theorems stated in Properties.v:
   what the monitor knows (time, births, cancellations, iteration counts) is
   a function of the event list, and each clause of p_step, read on the
   model's own step, is one of the C11 statements. *)
From Coq Require Import Lia ZifyBool ZifyN ZifyNat.
From VF Require Import Clock.Model Clock.Spec Clock.Proofs.
Open Scope list_scope.
Open Scope Z_scope.

(* ---- histories grow at the end ----------------------------------------------------- *)

Lemma run_from_snoc c evs : forall s e,
  run_from c s (evs ++ [e]) = fst (step c (run_from c s evs) e).
Proof. induction evs as [|a r IH]; intros s e; cbn [app run_from]; [reflexivity|apply IH]. Qed.

Lemma trace_from_snoc c evs : forall s e,
  trace_from c s (evs ++ [e]) = trace_from c s evs ++ [(e, snd (step c (run_from c s evs) e))].
Proof.
  induction evs as [|a r IH]; intros s e; cbn [app run_from trace_from]; [reflexivity|].
  rewrite IH. reflexivity.
Qed.

Lemma mon_run_from_snoc c tr : forall mo e o,
  mon_run_from c mo (tr ++ [(e, o)]) = mon_step c (mon_run_from c mo tr) e o.
Proof.
  induction tr as [|[a b] r IH]; intros mo e o; cbn [app mon_run_from]; [reflexivity|apply IH].
Qed.

Lemma run_snoc c evs e : run c (evs ++ [e]) = fst (step c (run c evs) e).
Proof. apply run_from_snoc. Qed.

Lemma trace_snoc c evs e : trace c (evs ++ [e]) = trace c evs ++ [(e, snd (step c (run c evs) e))].
Proof. apply trace_from_snoc. Qed.

Lemma mon_run_snoc c tr e o : mon_run c (tr ++ [(e, o)]) = mon_step c (mon_run c tr) e o.
Proof. apply mon_run_from_snoc. Qed.

Lemma timeline_snoc evs e : timeline (evs ++ [e]) = tl_step (timeline evs) e.
Proof. unfold timeline, timeline_from. rewrite fold_left_app. reflexivity. Qed.

Lemma births_from_snoc evs : forall t e,
  births_from t (evs ++ [e]) =
  births_from t evs ++
  match e with
  | NewCtx d => [mkBirth (tl_now (timeline_from t evs)) (tl_uns (timeline_from t evs)) d]
  | _ => []
  end.
Proof.
  induction evs as [|a r IH]; intros t e.
  - cbn [app births_from timeline_from fold_left]. destruct e; reflexivity.
  - cbn [app births_from]. rewrite IH. cbn [timeline_from fold_left].
    destruct a; reflexivity.
Qed.

Lemma births_snoc evs e :
  births (evs ++ [e]) =
  births evs ++
  match e with
  | NewCtx d => [mkBirth (tl_now (timeline evs)) (tl_uns (timeline evs)) d]
  | _ => []
  end.
Proof. apply births_from_snoc. Qed.

Lemma rearms_snoc id tr e o :
  rearms id (tr ++ [(e, o)]) =
  (rearms id tr +
   match e, o with
   | Fire i _, ORearm _ => if Nat.eqb i id then 1 else 0
   | _, _ => 0
   end)%nat.
Proof.
  induction tr as [|[a b] r IH].
  - cbn [app rearms]. destruct e; try reflexivity; destruct o; try reflexivity;
      destruct (Nat.eqb _ id); reflexivity.
  - cbn [app rearms]. rewrite IH.
    destruct a; try reflexivity; destruct b; try reflexivity;
      destruct (Nat.eqb _ id); reflexivity.
Qed.

(* ---- the relation holds along every history ------------------------------------------ *)

Definition view (c : cfg) (evs : list event) : mon := mon_run c (trace c evs).

Lemma view_snoc c evs e :
  view c (evs ++ [e]) = mon_step c (view c evs) e (snd (step c (run c evs) e)).
Proof. unfold view. rewrite trace_snoc, mon_run_snoc. reflexivity. Qed.

Lemma R_run_full c evs : R c (run c evs) (view c evs).
Proof.
  induction evs as [|e evs IH] using rev_ind.
  - apply R_init.
  - rewrite run_snoc, view_snoc. apply (step_ok c _ _ e IH).
Qed.

Lemma R_run c evs : Rc c (run c evs) (view c evs).
Proof. apply R_run_full. Qed.

Lemma p_step_run c evs e : p_step c (view c evs) e (snd (step c (run c evs) e)) = "".
Proof. apply (step_ok c _ _ e (R_run_full c evs)). Qed.

(* ---- what the monitor knows is determined by the events -------------------------------- *)

Lemma nth_error_set_nth_eq {A} (l : list A) id x y :
  nth_error l id = Some y -> nth_error (set_nth id x l) id = Some x.
Proof.
  revert id. induction l as [|a l IH]; intros [|id] H; cbn in *; try discriminate; auto.
Qed.

Lemma nth_error_set_nth_neq {A} (l : list A) id id' x :
  id <> id' -> nth_error (set_nth id x l) id' = nth_error l id'.
Proof.
  revert id id'. induction l as [|a l IH]; intros [|id] [|id'] H; cbn; auto; try congruence.
Qed.

Lemma map_set_nth {A B} (f : A -> B) (l : list A) id x y :
  nth_error l id = Some y -> f x = f y -> map f (set_nth id x l) = map f l.
Proof.
  revert id. induction l as [|a l IH]; intros [|id] H Hf; cbn in *; try discriminate.
  - injection H as ->. now rewrite Hf.
  - now rewrite (IH id).
Qed.

Lemma note_birth c t m e o : m_birth (note_out (note_event c t m e) o) = m_birth m.
Proof. destruct e, o; reflexivity. Qed.

Lemma view_tl c evs : mo_tl (view c evs) = timeline evs.
Proof.
  induction evs as [|e evs IH] using rev_ind; [reflexivity|].
  rewrite view_snoc, timeline_snoc, <- IH. unfold mon_step. reflexivity.
Qed.

Lemma view_births c evs : map m_birth (mo_ctxs (view c evs)) = births evs.
Proof.
  induction evs as [|e evs IH] using rev_ind; [reflexivity|].
  rewrite view_snoc, births_snoc, <- IH. unfold mon_step, ctxs_step. cbn [mo_ctxs].
  rewrite <- (view_tl c evs).
  destruct e; cbn [target]; try (rewrite app_nil_r; reflexivity);
    try (rewrite map_app; reflexivity);
    (destruct (nth_error (mo_ctxs (view c evs)) id) as [m|] eqn:Hm;
     [rewrite app_nil_r; apply (map_set_nth _ _ _ _ m Hm), note_birth | rewrite app_nil_r; reflexivity]).
Qed.

Lemma view_birth c evs id m :
  nth_error (mo_ctxs (view c evs)) id = Some m -> nth_error (births evs) id = Some (m_birth m).
Proof. intros H. rewrite <- (view_births c). apply map_nth_error. exact H. Qed.

Lemma view_of_birth c evs id b :
  nth_error (births evs) id = Some b ->
  exists m, nth_error (mo_ctxs (view c evs)) id = Some m /\ m_birth m = b.
Proof.
  rewrite <- (view_births c). intros H.
  destruct (nth_error (mo_ctxs (view c evs)) id) as [m|] eqn:Hm.
  - exists m. split; [reflexivity|]. rewrite (map_nth_error _ _ _ Hm) in H. congruence.
  - apply nth_error_None in Hm. assert (nth_error (map m_birth (mo_ctxs (view c evs))) id = None) as Hn.
    { apply nth_error_None. rewrite map_length. exact Hm. }
    congruence.
Qed.

(* a re-arm is only ever the answer to a base timer value, for an existing context *)
Lemma out_rearm c s e id d' :
  target e = Some id -> snd (step c s e) = ORearm d' ->
  (exists tf, e = Fire id tf) /\ exists x, nth_error (s_ctxs s) id = Some x.
Proof.
  destruct e; cbn [target]; try discriminate; intros [= ->]; cbn [step].
  - unfold do_arm, base_done. destruct (nth_error (s_ctxs s) id) as [x|]; [|discriminate].
    destruct (x_phase x); [|discriminate..]. destruct (x_berr x); discriminate.
  - intros H. split; [eexists; reflexivity|].
    revert H. unfold do_fire. destruct (nth_error (s_ctxs s) id) as [x|]; [eexists; reflexivity|discriminate].
  - unfold do_cancel, base_stop, base_done. destruct (nth_error (s_ctxs s) id) as [x|]; [|discriminate].
    destruct (x_phase x); discriminate.
  - unfold do_expire, base_stop, base_done. destruct (nth_error (s_ctxs s) id) as [x|]; [|discriminate].
    destruct (x_basedl x <=? s_now s); [|discriminate]. destruct (x_phase x); discriminate.
Qed.

Definition flags_ok (c : cfg) (evs : list event) (id : nat) : Prop :=
  match nth_error (mo_ctxs (view c evs)) id with
  | Some m => (m_cancel m = true -> In (Cancel id) evs) /\ m_rearms m = rearms id (trace c evs)
  | None => rearms id (trace c evs) = 0%nat
  end.

Lemma view_flags c evs : forall id, flags_ok c evs id.
Proof.
  induction evs as [|e evs IH] using rev_ind; intros id.
  { unfold flags_ok. cbn. destruct id; reflexivity. }
  unfold flags_ok. rewrite view_snoc, trace_snoc, rearms_snoc.
  set (o := snd (step c (run c evs) e)).
  pose proof (IH id) as Hid. unfold flags_ok in Hid.
  pose proof (R_run c evs) as [_ Hf].
  destruct (target e) as [id0|] eqn:Ht.
  - (* an event about context id0 *)
    assert (Hnn : forall d, e <> NewCtx d) by (intros d ->; discriminate).
    destruct (nth_error (mo_ctxs (view c evs)) id0) as [m0|] eqn:Hm0.
    + rewrite (mon_step_target c _ e o id0 m0 Ht Hm0). cbn [mo_ctxs].
      destruct (Nat.eq_dec id0 id) as [->|Hne].
      * rewrite (nth_error_set_nth_eq _ _ _ _ Hm0). rewrite Hm0 in Hid. destruct Hid as [Hc Hr].
        split.
        -- intros Hcn. apply in_or_app.
           destruct e; cbn [target] in Ht; try discriminate; injection Ht as ->;
             try (left; apply Hc; revert Hcn; destruct o; cbn; auto; fail).
           right. left. reflexivity.
        -- destruct o eqn:Ho; try (destruct e; cbn [note_out note_event m_rearms]; rewrite Hr; lia).
           destruct (out_rearm c (run c evs) e id d Ht Ho) as [[tf ->] _].
           cbn [note_out note_event m_rearms]. rewrite Hr, Nat.eqb_refl. lia.
      * rewrite (nth_error_set_nth_neq _ _ _ _ Hne).
        assert (Hz : match e, o with Fire i _, ORearm _ => if Nat.eqb i id then 1%nat else 0%nat | _, _ => 0%nat end = 0%nat).
        { destruct e; try reflexivity. cbn [target] in Ht. injection Ht as ->.
          destruct o; try reflexivity. apply Nat.eqb_neq in Hne. rewrite Hne. reflexivity. }
        rewrite Hz, Nat.add_0_r.
        destruct (nth_error (mo_ctxs (view c evs)) id) as [m|].
        -- destruct Hid as [Hc Hr]. split; [|exact Hr]. intros Hcn. apply in_or_app. left. auto.
        -- exact Hid.
    + rewrite (mon_step_target_none c _ e o id0 Ht Hm0).
      assert (Hz : match e, o with Fire i _, ORearm _ => if Nat.eqb i id then 1%nat else 0%nat | _, _ => 0%nat end = 0%nat).
      { destruct e; try reflexivity. destruct o eqn:Ho; try reflexivity.
        destruct (out_rearm c (run c evs) (Fire id1 tf) id0 d Ht Ho) as [_ [x Hx]].
        destruct (Forall2_nth _ _ _ _ _ Hf Hx) as (m & Hm & _). congruence. }
      rewrite Hz, Nat.add_0_r.
      destruct (nth_error (mo_ctxs (view c evs)) id) as [m|].
      * destruct Hid as [Hc Hr]. split; [|exact Hr]. intros Hcn. apply in_or_app. left. auto.
      * exact Hid.
  - (* other events *)
    assert (Hz : match e, o with Fire i _, ORearm _ => if Nat.eqb i id then 1%nat else 0%nat | _, _ => 0%nat end = 0%nat).
    { destruct e; try reflexivity. discriminate. }
    rewrite Hz, Nat.add_0_r.
    destruct e; cbn [target] in Ht; try discriminate; unfold mon_step, ctxs_step; cbn [target mo_ctxs];
      try (destruct (nth_error (mo_ctxs (view c evs)) id) as [m|];
           [destruct Hid as [Hc Hr]; split; [intros Hcn; apply in_or_app; left; auto|exact Hr] | exact Hid]).
    (* NewCtx: one more context, born with clean flags *)
    destruct (nth_error (mo_ctxs (view c evs)) id) as [m|] eqn:Hm.
    + rewrite nth_error_app1 by (apply nth_error_Some; congruence). rewrite Hm.
      destruct Hid as [Hc Hr]. split; [intros Hcn; apply in_or_app; left; auto|exact Hr].
    + rewrite nth_error_app2 by (apply nth_error_None; exact Hm).
      destruct (id - length (mo_ctxs (view c evs)))%nat as [|k]; cbn [nth_error].
      * split; [discriminate|]. cbn [m_rearms]. symmetry. exact Hid.
      * destruct k; exact Hid.
Qed.

(* ---- reading p_done ---------------------------------------------------------------------- *)

Lemma p_done_inv c t m tf er dur : p_done c t m tf er dur = "" ->
  m_done m = false /\ er <> ENone /\
  (er = EDeadline -> m_d m - thr c < tl_uns t - m_U0 m \/ wall_bound c m <= tl_now t) /\
  (er = ECanceled -> m_cancel m = true /\ tf = None) /\
  match tf with
  | Some f => tl_uns t - m_U0 m - (tl_now t - f) <= dur <= tl_uns t - m_U0 m /\ m_d m - thr c < dur
  | None => dur = tl_uns t - m_U0 m
  end.
Proof.
  unfold p_done. destruct (m_done m); [discriminate|].
  destruct er; [discriminate| |].
  - destruct (m_cancel m); cbn [negb]; [|discriminate].
    destruct tf as [f|]; [discriminate|].
    destruct (dur =? tl_uns t - m_U0 m) eqn:E; [|discriminate]. intros _.
    repeat split; try discriminate; try lia.
  - destruct ((m_d m - thr c <? tl_uns t - m_U0 m) || (wall_bound c m <=? tl_now t)) eqn:E1;
      cbn [negb]; [|discriminate].
    destruct tf as [f|].
    + destruct ((tl_uns t - m_U0 m - (tl_now t - f) <=? dur) && (dur <=? tl_uns t - m_U0 m)
                && (m_d m - thr c <? dur)) eqn:E2; [|discriminate]. intros _.
      repeat split; try discriminate; try lia.
    + destruct (dur =? tl_uns t - m_U0 m) eqn:E; [|discriminate]. intros _.
      repeat split; try discriminate; try lia.
Qed.

Definition timer_value (e : event) : option Z := match e with Fire _ tf => Some tf | _ => None end.

Lemma done_step c evs e id er dur b :
  target e = Some id -> snd (step c (run c evs) e) = ODone er dur ->
  nth_error (births evs) id = Some b ->
  exists m, nth_error (mo_ctxs (view c evs)) id = Some m /\ m_birth m = b /\
    p_done c (timeline evs) (note_event c (timeline evs) m e) (timer_value e) er dur = "".
Proof.
  intros Ht Ho Hb. destruct (view_of_birth c evs id b Hb) as (m & Hm & Hmb).
  exists m. split; [exact Hm|]. split; [exact Hmb|].
  pose proof (p_step_run c evs e) as Hp. rewrite Ho in Hp. rewrite <- (view_tl c evs).
  destruct e; cbn [target] in Ht; try discriminate; injection Ht as ->;
    cbn [p_step target] in Hp; rewrite Hm in Hp; exact Hp.
Qed.

Lemma note_event_birth c t m e : m_birth (note_event c t m e) = m_birth m.
Proof. destruct e; reflexivity. Qed.

Lemma deadline_sound_lemma : forall c evs e id dur T0 U0 d,
  target e = Some id ->
  snd (step c (run c evs) e) = ODone EDeadline dur ->
  nth_error (births evs) id = Some (mkBirth T0 U0 d) ->
  d - thr c < tl_uns (timeline evs) - U0 \/ T0 + d + maxSusp c <= tl_now (timeline evs).
Proof.
  intros c evs e id dur T0 U0 d Ht Ho Hb.
  destruct (done_step c evs e id _ _ _ Ht Ho Hb) as (m & Hm & Hmb & Hp).
  apply p_done_inv in Hp as (_ & _ & Hdl & _).
  specialize (Hdl eq_refl). unfold m_d, m_U0, wall_bound, m_T0, m_d in Hdl.
  rewrite note_event_birth, Hmb in Hdl. exact Hdl.
Qed.

Lemma reported_duration_exact_lemma : forall c evs e id er dur T0 U0 d,
  target e = Some id ->
  snd (step c (run c evs) e) = ODone er dur ->
  nth_error (births evs) id = Some (mkBirth T0 U0 d) ->
  let U := tl_uns (timeline evs) - U0 in
  match e with
  | Fire _ tf => U - (tl_now (timeline evs) - tf) <= dur <= U /\ d - thr c < dur
  | _ => dur = U
  end.
Proof.
  intros c evs e id er dur T0 U0 d Ht Ho Hb.
  destruct (done_step c evs e id _ _ _ Ht Ho Hb) as (m & Hm & Hmb & Hp).
  apply p_done_inv in Hp as (_ & _ & _ & _ & Hdur).
  unfold m_d, m_U0 in Hdur. rewrite note_event_birth, Hmb in Hdur.
  destruct e; exact Hdur.
Qed.

Lemma canceled_only_on_request_lemma : forall c evs e id dur,
  target e = Some id ->
  snd (step c (run c evs) e) = ODone ECanceled dur ->
  In (Cancel id) (evs ++ [e]).
Proof.
  intros c evs e id dur Ht Ho.
  destruct (nth_error (births evs) id) as [b|] eqn:Hb.
  - destruct (done_step c evs e id _ _ _ Ht Ho Hb) as (m & Hm & Hmb & Hp).
    apply p_done_inv in Hp as (_ & _ & _ & Hc & _). destruct (Hc eq_refl) as [Hcn _].
    apply in_or_app.
    pose proof (view_flags c evs id) as Hfl. unfold flags_ok in Hfl. rewrite Hm in Hfl.
    destruct e; cbn [target] in Ht; try discriminate; injection Ht as ->;
      cbn [note_event m_cancel] in Hcn; try (left; apply Hfl; exact Hcn).
    right. left. reflexivity.
  - (* no such context: nothing can come out *)
    exfalso. pose proof (R_run c evs) as [_ Hf].
    assert (Hnone : nth_error (s_ctxs (run c evs)) id = None).
    { destruct (nth_error (s_ctxs (run c evs)) id) as [x|] eqn:Hx; [|reflexivity].
      destruct (Forall2_nth _ _ _ _ _ Hf Hx) as (m & Hm & _).
      apply view_birth in Hm. congruence. }
    destruct e; cbn [target] in Ht; try discriminate; injection Ht as ->; cbn [step] in Ho;
      unfold do_arm, do_fire, do_cancel, do_expire in Ho; rewrite Hnone in Ho; discriminate.
Qed.

Lemma within_budget_not_cancelled_lemma : forall c evs id T0 U0 d x,
  nth_error (births evs) id = Some (mkBirth T0 U0 d) ->
  nth_error (s_ctxs (run c evs)) id = Some x ->
  tl_uns (timeline evs) - U0 <= d - thr c ->
  tl_now (timeline evs) < T0 + d + maxSusp c ->
  ~ In (Cancel id) evs ->
  x_phase x <> PDone.
Proof.
  intros c evs id T0 U0 d x Hb Hx Hu Hn Hnc Hph.
  pose proof (R_run c evs) as [Ha Hf].
  destruct (Forall2_nth _ _ _ _ _ Hf Hx) as (m & Hm & Hr).
  pose proof (view_birth c evs id m Hm) as Hb'. rewrite Hb in Hb'. injection Hb' as Hb'.
  destruct Hr as (_ & _ & _ & _ & _ & _ & _ & _ & _ & H9). rewrite Hph in H9.
  destruct H9 as (_ & Hov).
  destruct Ha as (Ha1 & _). rewrite (view_tl c evs) in *.
  unfold m_d, m_U0, wall_bound, m_T0, m_d in Hov. rewrite <- Hb' in Hov. cbn [b_T0 b_U0 b_d] in Hov.
  destruct Hov as [Hc|[Hov|Hov]]; [|lia|lia].
  apply Hnc. pose proof (view_flags c evs id) as Hfl. unfold flags_ok in Hfl. rewrite Hm in Hfl.
  apply Hfl. exact Hc.
Qed.

(* ---- the wall-clock bound ------------------------------------------------------------------ *)

Lemma ctx_of_birth c evs id x :
  nth_error (s_ctxs (run c evs)) id = Some x ->
  exists m, nth_error (mo_ctxs (view c evs)) id = Some m /\
            ctx_rel c (s_now (run c evs)) (tl_uns (timeline evs)) x m /\
            nth_error (births evs) id = Some (m_birth m) /\
            s_now (run c evs) = tl_now (timeline evs) /\
            total_now (run c evs) = tl_uns (timeline evs).
Proof.
  intros Hx. pose proof (R_run c evs) as [Ha Hf].
  destruct (Forall2_nth _ _ _ _ _ Hf Hx) as (m & Hm & Hr).
  rewrite (view_tl c evs) in *. destruct Ha as (Ha1 & _ & _ & Ha4).
  exists m. split; [exact Hm|]. split; [exact Hr|]. split; [apply (view_birth c); exact Hm|].
  split; assumption.
Qed.

(* enabledness + progress of the expiry of the base context *)
Lemma expiry_progress_lemma : forall c evs id T0 U0 d x,
  nth_error (births evs) id = Some (mkBirth T0 U0 d) ->
  nth_error (s_ctxs (run c evs)) id = Some x ->
  T0 + d + maxSusp c <= tl_now (timeline evs) ->
  match x_phase x with
  | PArmed _ => snd (step c (run c evs) (BaseExpire id)) = ODone EDeadline (tl_uns (timeline evs) - U0)
  | PArming _ =>
    exists er, er <> ENone /\
    snd (step c (fst (step c (run c evs) (BaseExpire id))) (Arm id)) = ODone er (tl_uns (timeline evs) - U0)
  | PDone => True
  end.
Proof.
  intros c evs id T0 U0 d x Hb Hx Hle.
  destruct (ctx_of_birth c evs id x Hx) as (m & Hm & Hr & Hb' & Hnow & Htot).
  rewrite Hb in Hb'. injection Hb' as Hb'.
  destruct Hr as (H1 & H2 & H3 & _ & _ & _ & _ & _ & _ & H9).
  unfold wall_bound, m_T0, m_d, m_U0 in *. rewrite <- Hb' in *. cbn [b_T0 b_U0 b_d] in *.
  assert (Hen : (x_basedl x <=? s_now (run c evs)) = true) by lia.
  destruct (x_phase x) as [d'|dl|] eqn:Hp; [| |exact I].
  - cbn [step]. unfold do_expire. rewrite Hx, Hen. unfold base_stop. rewrite Hp. cbn [fst].
    set (x' := with_berr x match x_berr x with ENone => EDeadline | e0 => e0 end).
    unfold do_arm. cbn [set_ctxs s_ctxs]. rewrite (nth_error_set_nth_eq _ _ _ _ Hx).
    assert (Hp' : x_phase x' = PArming d') by exact Hp. rewrite Hp'.
    exists (x_berr x'). split.
    + unfold x'. cbn [with_berr x_berr]. destruct (x_berr x); discriminate.
    + assert (Hne : x_berr x' <> ENone).
      { unfold x'. cbn [with_berr x_berr]. destruct (x_berr x); discriminate. }
      destruct (x_berr x') eqn:He; [congruence| |];
        unfold base_done; cbn [snd]; unfold total_now in *; cbn [s_cnt s_total s_now s_ustart set_ctxs];
        (replace (x_initial x') with (x_initial x) by reflexivity); rewrite Htot, H1, ?He; reflexivity.
  - destruct H9 as (_ & _ & He & _).
    cbn [step]. unfold do_expire. rewrite Hx, Hen. unfold base_stop. rewrite Hp, He.
    unfold base_done. cbn [snd with_berr x_berr x_initial]. rewrite Htot, H1. reflexivity.
Qed.

(* once expiry has been delivered at or after T0 + d + maxSusp, the goroutine
   never sleeps in its select again *)
Lemma expire_sticks c evs id m :
  nth_error (mo_ctxs (view c evs)) id = Some m -> m_expire m = true ->
  forall evs2, exists m', nth_error (mo_ctxs (view c (evs ++ evs2))) id = Some m' /\ m_expire m' = true.
Proof.
  intros Hm He evs2. induction evs2 as [|e evs2 IH] using rev_ind.
  - rewrite app_nil_r. exists m. split; assumption.
  - destruct IH as (m1 & Hm1 & He1). rewrite app_assoc, view_snoc.
    set (o := snd (step c (run c (evs ++ evs2)) e)).
    destruct (target e) as [id0|] eqn:Ht.
    + destruct (nth_error (mo_ctxs (view c (evs ++ evs2))) id0) as [m0|] eqn:Hm0.
      * rewrite (mon_step_target c _ e o id0 m0 Ht Hm0). cbn [mo_ctxs].
        destruct (Nat.eq_dec id0 id) as [->|Hne].
        -- rewrite (nth_error_set_nth_eq _ _ _ _ Hm0). eexists. split; [reflexivity|].
           assert (m0 = m1) as -> by congruence.
           destruct e, o; cbn [note_out note_event m_expire]; rewrite ?He1; reflexivity.
        -- rewrite (nth_error_set_nth_neq _ _ _ _ Hne). exists m1. split; assumption.
      * rewrite (mon_step_target_none c _ e o id0 Ht Hm0). exists m1. split; assumption.
    + exists m1. split; [|exact He1]. unfold mon_step, ctxs_step. rewrite Ht. cbn [mo_ctxs].
      destruct e; try exact Hm1.
      rewrite nth_error_app1 by (apply nth_error_Some; congruence). exact Hm1.
Qed.

Lemma wall_bound_safety_lemma : forall c evs evs2 id T0 U0 d x,
  nth_error (births evs) id = Some (mkBirth T0 U0 d) ->
  T0 + d + maxSusp c <= tl_now (timeline evs) ->
  nth_error (s_ctxs (run c (evs ++ BaseExpire id :: evs2))) id = Some x ->
  forall dl, x_phase x <> PArmed dl.
Proof.
  intros c evs evs2 id T0 U0 d x Hb Hle Hx dl Hp.
  destruct (view_of_birth c evs id _ Hb) as (m & Hm & Hmb).
  (* the expiry event sets the monitor's flag *)
  assert (H1 : exists m1, nth_error (mo_ctxs (view c (evs ++ [BaseExpire id]))) id = Some m1 /\ m_expire m1 = true).
  { rewrite view_snoc. rewrite (mon_step_target c _ (BaseExpire id) _ id m eq_refl Hm). cbn [mo_ctxs].
    rewrite (nth_error_set_nth_eq _ _ _ _ Hm). eexists. split; [reflexivity|].
    assert (Hw : (wall_bound c m <=? tl_now (mo_tl (view c evs))) = true).
    { rewrite view_tl. unfold wall_bound, m_T0, m_d. rewrite Hmb. cbn [b_T0 b_d]. lia. }
    destruct (snd (step c (run c evs) (BaseExpire id))); cbn [note_out note_event m_expire];
      rewrite Hw; apply Bool.orb_true_r. }
  destruct H1 as (m1 & Hm1 & He1).
  destruct (expire_sticks c _ id m1 Hm1 He1 evs2) as (m2 & Hm2 & He2).
  rewrite <- app_assoc in Hm2. cbn [app] in Hm2.
  destruct (ctx_of_birth c _ id x Hx) as (m3 & Hm3 & Hr & _).
  assert (m3 = m2) as -> by congruence.
  destruct Hr as (_ & _ & _ & _ & H5 & _ & _ & _ & _ & H9). rewrite Hp in H9.
  destruct H9 as (_ & _ & Hen & _). destruct (H5 Hen) as [_ Hx2]. congruence.
Qed.

(* ---- the timeout fires once the budget is used ------------------------------------------- *)

Lemma deadline_complete_lemma : forall c evs id T0 U0 d x dl,
  nth_error (births evs) id = Some (mkBirth T0 U0 d) ->
  nth_error (s_ctxs (run c evs)) id = Some x ->
  x_phase x = PArmed dl -> dl <= tl_now (timeline evs) ->
  d - thr c < tl_uns (timeline evs) - U0 ->
  snd (step c (run c evs) (Fire id (tl_now (timeline evs)))) = ODone EDeadline (tl_uns (timeline evs) - U0).
Proof.
  intros c evs id T0 U0 d x dl Hb Hx Hp Hdl Hu.
  destruct (ctx_of_birth c evs id x Hx) as (m & Hm & Hr & Hb' & Hnow & Htot).
  rewrite Hb in Hb'. injection Hb' as Hb'.
  destruct Hr as (H1 & H2 & _). unfold m_U0, m_d in *. rewrite <- Hb' in *. cbn [b_U0 b_d] in *.
  pose proof (R_run c evs) as [(_ & _ & Hus & _) _].
  assert (Hcur : total_at (run c evs) (tl_now (timeline evs)) = tl_uns (timeline evs)).
  { rewrite <- Htot, <- Hnow. unfold total_at, total_now.
    destruct (Nat.eqb (s_cnt (run c evs)) 0); cbn [andb]; [|reflexivity].
    destruct (s_ustart (run c evs) <? s_now (run c evs)) eqn:E; lia. }
  cbn [step]. unfold do_fire. rewrite Hx, Hp, <- Hnow.
  assert (Hen : (dl <=? s_now (run c evs)) && (s_now (run c evs) <=? s_now (run c evs)) = true) by lia.
  rewrite Hen. rewrite Hnow, Hcur.
  assert (Hlt : (x_final x - tl_uns (timeline evs) <? thr c) = true) by lia.
  rewrite Hlt. cbn [snd]. rewrite H1. reflexivity.
Qed.

(* ---- the re-arm loop ---------------------------------------------------------------------------- *)

Lemma rearm_bounded_lemma : forall c evs id T0 U0 d,
  0 < thr c ->
  nth_error (births evs) id = Some (mkBirth T0 U0 d) ->
  let k := rearms id (trace c evs) in
  k <> 0%nat -> Z.of_nat k - 1 <= (tl_now (timeline evs) - T0 - d) / thr c.
Proof.
  intros c evs id T0 U0 d Hthr Hb k Hk.
  destruct (view_of_birth c evs id _ Hb) as (m & Hm & Hmb).
  pose proof (R_run c evs) as [Ha Hf].
  pose proof (view_flags c evs id) as Hfl. unfold flags_ok in Hfl. rewrite Hm in Hfl.
  destruct Hfl as [_ Hre]. fold k in Hre.
  (* the model's context related to m *)
  assert (Hx : exists x, nth_error (s_ctxs (run c evs)) id = Some x).
  { destruct (nth_error (s_ctxs (run c evs)) id) as [x|] eqn:Hx; [eexists; reflexivity|].
    pose proof (Forall2_nth_none _ _ _ _ Hf Hx). congruence. }
  destruct Hx as [x Hx]. destruct (Forall2_nth _ _ _ _ _ Hf Hx) as (m' & Hm' & Hr).
  assert (m' = m) as -> by congruence.
  destruct Hr as (_ & _ & _ & _ & _ & _ & _ & _ & Hrk & _).
  rewrite Hre in Hrk. specialize (Hrk Hk).
  destruct Ha as (Ha1 & _). rewrite (view_tl c evs) in Ha1.
  unfold m_T0, m_d in Hrk. rewrite Hmb in Hrk. cbn [b_T0 b_d] in Hrk.
  apply Z.div_le_lower_bound; [exact Hthr|]. lia.
Qed.

(* with threshold 0 the loop can iterate any number of times without time passing *)
Fixpoint spin (n : nat) : list event :=
  match n with O => [] | S k => Arm 0 :: Fire 0 0 :: spin k end.

Definition spin_state (ms : Z) : state :=
  mkSt 0 0 0 0 [mkCtx 0 0 (0 + (0 + ms)) ENone (PArming 0)] [].

Lemma spin_run ms n : run_from (mkCfg ms 0) (spin_state ms) (spin n) = spin_state ms.
Proof. induction n as [|n IH]; [reflexivity|]. cbn [spin run_from]. exact IH. Qed.

Lemma spin_rearms ms n : rearms 0 (trace_from (mkCfg ms 0) (spin_state ms) (spin n)) = n.
Proof.
  induction n as [|n IH]; [reflexivity|]. cbn [spin trace_from].
  change (fst (step (mkCfg ms 0) (fst (step (mkCfg ms 0) (spin_state ms) (Arm 0))) (Fire 0 0)))
    with (spin_state ms).
  cbn [rearms]. rewrite IH. reflexivity.
Qed.

Lemma spin_timeline n : forall t, timeline_from t (spin n) = t.
Proof. induction n as [|n IH]; intros t; [reflexivity|]. cbn [spin timeline_from fold_left tl_step]. apply IH. Qed.

Lemma rearm_unbounded_at_zero_threshold_lemma : forall ms n,
  exists evs, tl_now (timeline evs) = 0 /\ rearms 0 (trace (mkCfg ms 0) evs) = n.
Proof.
  intros ms n. exists (NewCtx 0 :: spin n). split.
  - unfold timeline. cbn [timeline_from fold_left tl_step]. fold (timeline_from tl0 (spin n)).
    rewrite spin_timeline. reflexivity.
  - unfold trace. cbn [trace_from].
    change (fst (step (mkCfg ms 0) init (NewCtx 0))) with (spin_state ms).
    cbn [rearms]. apply spin_rearms.
Qed.

(* ---- timers (SuspendableClock.NewTimer) ------------------------------------------------------- *)

Lemma timer_delivery_lemma : forall c evs e id m v ms bs,
  ttarget e = Some id ->
  nth_error (mo_tmrs (mon_run c (trace c evs))) id = Some m ->
  snd (step c (run c evs) e) = ODeliver v ms bs ->
  mt_stopped m = false /\ mt_delivered m = false /\
  match e with
  | TFire _ tf => v = tf /\ mt_d m - thr c < tl_uns (timeline evs) - mt_U0 m
  | TMaxFire _ tf => v = tf /\ mt_T0 m + mt_d m + maxSusp c <= tl_now (timeline evs)
  | _ => False
  end.
Proof.
  intros c evs e id m v ms bs Ht Hm Ho.
  pose proof (p_step_run c evs e) as Hp. rewrite Ho in Hp. fold (view c evs) in Hm.
  rewrite <- (view_tl c evs).
  destruct e; cbn [ttarget] in Ht; try discriminate; injection Ht as ->;
    cbn [p_step] in Hp; rewrite Hm in Hp; cbn [p_tstep] in Hp; try discriminate;
    unfold p_tdeliver in Hp;
    (destruct (mt_delivered m); [discriminate|]); (destruct (mt_stopped m); [discriminate|]);
    (destruct (v =? tf) eqn:Ev; cbn [negb] in Hp; [|discriminate]).
  - destruct (mt_d m - thr c <? tl_uns (mo_tl (view c evs)) - mt_U0 m) eqn:E; cbn [negb] in Hp; [|discriminate].
    repeat split; lia.
  - destruct (mt_T0 m + mt_d m + maxSusp c <=? tl_now (mo_tl (view c evs))) eqn:E; cbn [negb] in Hp; [|discriminate].
    repeat split; lia.
Qed.

Lemma timer_stop_result_lemma : forall c evs id m ret gone,
  nth_error (mo_tmrs (mon_run c (trace c evs))) id = Some m ->
  snd (step c (run c evs) (TStop id)) = OTStop ret gone ->
  ret = negb (mt_stopped m || mt_delivered m) /\ (ret = true -> mt_parked m = false -> gone = true).
Proof.
  intros c evs id m ret gone Hm Ho.
  pose proof (p_step_run c evs (TStop id)) as Hp. rewrite Ho in Hp. fold (view c evs) in Hm.
  cbn [p_step] in Hp. rewrite Hm in Hp. cbn [p_tstep] in Hp.
  destruct (Bool.eqb ret (negb (mt_stopped m || mt_delivered m))) eqn:E; cbn [negb] in Hp; [|discriminate].
  apply Bool.eqb_prop in E. split; [exact E|].
  intros -> Hpk. rewrite Hpk in Hp. cbn [negb andb] in Hp. destruct gone; [reflexivity|discriminate].
Qed.
