(* C11 as decidable predicates.

   [timeline] is the specification-side notion of time: computed from the
   event list alone, with its own nesting counter, it gives the wall-clock
   time and the *true unsuspended time* (the integral of "nobody is stalled
   on storage" over the Advance events).  It never looks at the clock's
   fields or at any output of the implementation.

   [p_step] is the per-step property predicate: given the monitor's view
   (timeline + what it has been told about each context so far), an event
   and the output the implementation (or the model) produced for it, it
   returns "" or the kind of violation.  It is (a) proved to accept every
   trace of the model (Proofs.v, Properties.v) and (b) evaluated on the
   traces recorded from the Go code (Corr.v). *)
From Coq Require Export String.
From VF Require Export Clock.Model.
Open Scope string_scope.
Open Scope Z_scope.

(* ---- true time ------------------------------------------------------------- *)

Record tl := mkTl { tl_now : Z; tl_cnt : nat; tl_uns : Z }.

Definition tl0 : tl := mkTl 0 0 0.

Definition tl_step (t : tl) (e : event) : tl :=
  match e with
  | Advance dt =>
    mkTl (tl_now t + Z.of_N dt) (tl_cnt t)
         (if Nat.eqb (tl_cnt t) 0 then tl_uns t + Z.of_N dt else tl_uns t)
  | Suspend => mkTl (tl_now t) (S (tl_cnt t)) (tl_uns t)
  | Resume => mkTl (tl_now t) (Nat.pred (tl_cnt t)) (tl_uns t)
  (* the worker is stalled on storage for the whole call *)
  | Storage _ _ _ dt => mkTl (tl_now t + Z.of_N dt) (tl_cnt t) (tl_uns t)
  | _ => t
  end.

Definition timeline_from (t : tl) (evs : list event) : tl := fold_left tl_step evs t.
Definition timeline (evs : list event) : tl := timeline_from tl0 evs.

(* Creation instant, unsuspended time at creation and timeout of the
   contexts created by a history, in creation order: events only. *)
Record birth := mkBirth { b_T0 : Z; b_U0 : Z; b_d : Z }.

Fixpoint births_from (t : tl) (evs : list event) : list birth :=
  match evs with
  | [] => []
  | e :: r =>
    match e with
    | NewCtx d => mkBirth (tl_now t) (tl_uns t) d :: births_from (tl_step t e) r
    | _ => births_from (tl_step t e) r
    end
  end.

Definition births (evs : list event) : list birth := births_from tl0 evs.

(* ---- the monitor -------------------------------------------------------------- *)

Record mctx := mkM {
  m_birth : birth;
  m_cancel : bool;     (* a Cancel event was issued *)
  m_expire : bool;     (* BaseExpire was issued at or after T0 + d + maxSusp *)
  m_parked : bool;     (* goroutine between two critical sections (about to call base.NewTimer) *)
  m_done : bool;       (* Done() observed closed *)
  m_rearms : nat }.    (* loop iterations observed *)

(* what the monitor has been told about a timer (SuspendableClock.NewTimer) *)
Record mtmr := mkMT {
  mt_birth : birth;
  mt_parked : bool;     (* goroutine between two critical sections *)
  mt_stopped : bool;    (* Stop() returned true *)
  mt_delivered : bool;  (* a value was published on the result channel *)
  mt_rearms : nat }.

Record mon := mkMon { mo_tl : tl; mo_ctxs : list mctx; mo_tmrs : list mtmr }.

Definition mon0 : mon := mkMon tl0 [] [].

Definition m_T0 (m : mctx) := b_T0 (m_birth m).
Definition m_U0 (m : mctx) := b_U0 (m_birth m).
Definition m_d (m : mctx) := b_d (m_birth m).

Definition wall_bound (c : cfg) (m : mctx) : Z := m_T0 m + m_d m + maxSusp c.

(* which context an event is about *)
Definition target (e : event) : option nat :=
  match e with
  | Arm id | Fire id _ | Cancel id | BaseExpire id => Some id
  | _ => None
  end.

(* the monitor's flags after it has seen event [e] being issued (before
   looking at the output) *)
Definition note_event (c : cfg) (t : tl) (m : mctx) (e : event) : mctx :=
  match e with
  | Cancel _ => mkM (m_birth m) true (m_expire m) (m_parked m) (m_done m) (m_rearms m)
  | BaseExpire _ =>
    mkM (m_birth m) (m_cancel m) (m_expire m || (wall_bound c m <=? tl_now t))
        (m_parked m) (m_done m) (m_rearms m)
  | Arm _ => mkM (m_birth m) (m_cancel m) (m_expire m) false (m_done m) (m_rearms m)
  | _ => m
  end.

Definition note_out (m : mctx) (o : out) : mctx :=
  match o with
  | ODone _ _ => mkM (m_birth m) (m_cancel m) (m_expire m) false true (m_rearms m)
  | ORearm _ => mkM (m_birth m) (m_cancel m) (m_expire m) true (m_done m) (S (m_rearms m))
  | _ => m
  end.

Definition ctxs_step (c : cfg) (t : tl) (l : list mctx) (e : event) (o : out) : list mctx :=
  match e with
  | NewCtx d => (l ++ [mkM (mkBirth (tl_now t) (tl_uns t) d) false false true false 0%nat])%list
  | _ =>
    match target e with
    | Some id =>
      match nth_error l id with
      | Some m => set_nth id (note_out (note_event c t m e) o) l
      | None => l
      end
    | None => l
    end
  end.

(* which timer an event is about *)
Definition ttarget (e : event) : option nat :=
  match e with
  | TArm id | TFire id _ | TMaxFire id _ | TStop id => Some id
  | _ => None
  end.

Definition tnote (m : mtmr) (e : event) (o : out) : mtmr :=
  let parked := match e with TArm _ => false | _ => mt_parked m end in
  match o with
  | ORearm _ => mkMT (mt_birth m) true (mt_stopped m) (mt_delivered m) (S (mt_rearms m))
  | ODeliver _ _ _ => mkMT (mt_birth m) parked (mt_stopped m) true (mt_rearms m)
  | OTStop true _ => mkMT (mt_birth m) parked true (mt_delivered m) (mt_rearms m)
  | _ => mkMT (mt_birth m) parked (mt_stopped m) (mt_delivered m) (mt_rearms m)
  end.

Definition tmrs_step (t : tl) (l : list mtmr) (e : event) (o : out) : list mtmr :=
  match e with
  | TNew d => (l ++ [mkMT (mkBirth (tl_now t) (tl_uns t) d) true false false 0%nat])%list
  | _ =>
    match ttarget e with
    | Some id =>
      match nth_error l id with
      | Some m => set_nth id (tnote m e o) l
      | None => l
      end
    | None => l
    end
  end.

Definition mon_step (c : cfg) (mo : mon) (e : event) (o : out) : mon :=
  let t := mo_tl mo in
  mkMon (tl_step t e) (ctxs_step c t (mo_ctxs mo) e o) (tmrs_step t (mo_tmrs mo) e o).

(* ---- the property, one step ------------------------------------------------------ *)

(* [m] already carries the flags of the current event.  [tf] is the value
   delivered by the base timer if the context ends through its timer. *)
Definition p_done (c : cfg) (t : tl) (m : mctx) (tf : option Z) (e : berr) (dur : Z) : string :=
  let U := tl_uns t - m_U0 m in      (* true unsuspended time since creation *)
  let over := (m_d m - thr c <? U) || (wall_bound c m <=? tl_now t) in
  if m_done m then "done-twice"
  else match e with
  | ENone => "done-without-error"
  | EDeadline =>
    if negb over then "deadline-too-early"
    else match tf with
    | Some f =>
      if (U - (tl_now t - f) <=? dur) && (dur <=? U) && (m_d m - thr c <? dur) then ""
      else "duration-not-exact"
    | None => if dur =? U then "" else "duration-not-exact"
    end
  | ECanceled =>
    if negb (m_cancel m) then "canceled-without-cancel"
    else match tf with
    | Some _ => "canceled-by-timer"
    | None => if dur =? U then "" else "duration-not-exact"
    end
  end.

Definition p_rearm (c : cfg) (t : tl) (m : mctx) (tf d' : Z) : string :=
  let U := tl_uns t - m_U0 m in
  if m_done m then "rearm-after-done"
  else if d' <? thr c then "rearm-below-threshold"
  else if negb ((m_d m - U <=? d') && (d' <=? m_d m - U + (tl_now t - tf))) then "rearm-wrong-remaining"
  else if negb (Z.of_nat (m_rearms m) * thr c <=? tl_now t - m_T0 m - m_d m) then "rearm-too-many"
  else "".

(* nothing came out although a stop was requested and the goroutine is in
   its select *)
Definition p_quiet (m : mctx) : string :=
  if m_done m || m_parked m then ""
  else if m_expire m then "deadline-past-wall-bound"
  else if m_cancel m then "cancel-ignored"
  else "".

Definition skind_name (k : skind) : string :=
  match k with
  | KGet => "Get" | KGetFromComposite => "GetFromComposite" | KPut => "Put"
  | KFindMissing => "FindMissing" | KGetCapabilities => "GetCapabilities"
  | KGetDirectory => "GetDirectory" | KGetTreeRootDirectory => "GetTreeRootDirectory"
  | KGetTreeChildDirectory => "GetTreeChildDirectory"
  end.

Definition p_storage (k : skind) (o : out) : string :=
  match o with
  | OStor sb rb st rt =>
    if negb (N.eqb st rt) then String.append "unbalanced-suspend-" (skind_name k)
    else if negb ((sb =? 1)%N && (rb =? 0)%N && (st =? 1)%N) then String.append "storage-not-suspended-" (skind_name k)
    else ""
  | _ => "storage-no-observation"
  end.

(* ---- timers ---- *)

Definition mt_T0 (m : mtmr) := b_T0 (mt_birth m).
Definition mt_U0 (m : mtmr) := b_U0 (mt_birth m).
Definition mt_d (m : mtmr) := b_d (mt_birth m).

Definition p_trearm (c : cfg) (t : tl) (m : mtmr) (tf d' : Z) : string :=
  let U := tl_uns t - mt_U0 m in
  if mt_delivered m || mt_stopped m then "timer-rearm-after-end"
  else if d' <? thr c then "timer-rearm-below-threshold"
  else if negb ((mt_d m - U <=? d') && (d' <=? mt_d m - U + (tl_now t - tf))) then "timer-rearm-wrong-remaining"
  else if negb (Z.of_nat (mt_rearms m) * thr c <=? tl_now t - mt_T0 m - mt_d m) then "timer-rearm-too-many"
  else "".

Definition p_tdeliver (c : cfg) (t : tl) (m : mtmr) (viaMax : bool) (tf v : Z) (ms bs : bool) : string :=
  let U := tl_uns t - mt_U0 m in
  if mt_delivered m then "timer-delivered-twice"
  else if mt_stopped m then "timer-delivered-after-stop"
  else if negb (v =? tf) then "timer-value-wrong"
  else if viaMax then
    if negb (mt_T0 m + mt_d m + maxSusp c <=? tl_now t) then "timer-cap-too-early"
    else if negb bs then "base-timer-not-stopped" else ""
  else
    if negb (mt_d m - thr c <? U) then "timer-too-early"
    else if negb ms then "max-timer-not-stopped" else "".

Definition p_tstep (c : cfg) (t : tl) (m : mtmr) (e : event) (o : out) : string :=
  match e, o with
  | TFire _ tf, ODeliver v ms bs => p_tdeliver c t m false tf v ms bs
  | TMaxFire _ tf, ODeliver v ms bs => p_tdeliver c t m true tf v ms bs
  | _, ODeliver _ _ _ => "timer-delivered-unexpectedly"
  | TFire _ tf, ORearm d' => p_trearm c t m tf d'
  | _, ORearm _ => "timer-rearm-without-fire"
  | TStop _, OTStop ret gone =>
    if negb (Bool.eqb ret (negb (mt_stopped m || mt_delivered m))) then "stop-result-wrong"
    else if ret && negb (mt_parked m) && negb gone then "stop-ignored"
    else ""
  | TArm _, OTGone => if mt_stopped m then "" else "timer-gone-without-stop"
  | TArm _, ONone => if mt_stopped m && mt_parked m then "stop-ignored" else ""
  | _, _ => ""
  end.

Definition p_step (c : cfg) (mo : mon) (e : event) (o : out) : string :=
  let t := mo_tl mo in
  match e with
  | NewCtx d =>
    match o with
    | ONew rb rt =>
      if negb (rb =? d + maxSusp c) then "base-timeout-wrong"
      else if negb (rt =? d) then "first-timer-wrong"
      else ""
    | _ => "new-without-requests"
    end
  | Storage k _ _ _ => p_storage k o
  | TNew d =>
    match o with
    | ONew rm rt =>
      if negb (rm =? d + maxSusp c) then "max-timer-wrong"
      else if negb (rt =? d) then "first-timer-wrong"
      else ""
    | _ => "new-without-requests"
    end
  | TArm id | TFire id _ | TMaxFire id _ | TStop id =>
    match nth_error (mo_tmrs mo) id with
    | Some m => p_tstep c t m e o
    | None => ""
    end
  | _ =>
    match target e with
    | Some id =>
      match nth_error (mo_ctxs mo) id with
      | Some m0 =>
        let m := note_event c t m0 e in
        match o with
        | ODone er dur =>
          p_done c t m (match e with Fire _ tf => Some tf | _ => None end) er dur
        | ORearm d' =>
          match e with
          | Fire _ tf => p_rearm c t m tf d'
          | _ => "rearm-without-fire"
          end
        | _ => p_quiet m
        end
      | None => ""
      end
    | None => ""
    end
  end.

Fixpoint trace_ok_from (c : cfg) (mo : mon) (tr : list (event * out)) : bool :=
  match tr with
  | [] => true
  | (e, o) :: r => String.eqb (p_step c mo e o) "" && trace_ok_from c (mon_step c mo e o) r
  end.

Definition trace_ok (c : cfg) (tr : list (event * out)) : bool := trace_ok_from c mon0 tr.

Fixpoint mon_run_from (c : cfg) (mo : mon) (tr : list (event * out)) : mon :=
  match tr with
  | [] => mo
  | (e, o) :: r => mon_run_from c (mon_step c mo e o) r
  end.

Definition mon_run (c : cfg) (tr : list (event * out)) : mon := mon_run_from c mon0 tr.

(* number of loop iterations (re-arms) of context [id] in a trace *)
Fixpoint rearms (id : nat) (tr : list (event * out)) : nat :=
  match tr with
  | [] => 0
  | (Fire i _, ORearm _) :: r => if Nat.eqb i id then S (rearms id r) else rearms id r
  | _ :: r => rearms id r
  end.
