(* C11 as decidable predicates.

   [timeline] is the specification-side notion of time: computed from the
   event list alone, with its own nesting counter, it gives the wall-clock
   time and the *true unsuspended time* (the integral of "nobody is stalled
   on storage" over the Advance events).  It never looks at the clock's
   fields or at any output of the implementation.

   [p_step] is the per-step property predicate: given the monitor's view
   (timeline + what it has been told about each context so far), an event
   and the output the implementation (or the model) produced for it, it
   returns "" or the kind of violation.  It is (a) proved to accept every
   trace of the model (Proofs.v, Properties.v) and (b) evaluated on the
   traces recorded from the Go code (Corr.v). *)
From Coq Require Export String.
From VF Require Export Clock.Model.
Open Scope string_scope.
Open Scope Z_scope.

(* ---- true time ------------------------------------------------------------- *)

Record tl := mkTl { tl_now : Z; tl_cnt : nat; tl_uns : Z }.

Definition tl0 : tl := mkTl 0 0 0.

Definition tl_step (t : tl) (e : event) : tl :=
  match e with
  | Advance dt =>
    mkTl (tl_now t + Z.of_N dt) (tl_cnt t)
         (if Nat.eqb (tl_cnt t) 0 then tl_uns t + Z.of_N dt else tl_uns t)
  | Suspend => mkTl (tl_now t) (S (tl_cnt t)) (tl_uns t)
  | Resume => mkTl (tl_now t) (Nat.pred (tl_cnt t)) (tl_uns t)
  (* the worker is stalled on storage for the whole call *)
  | Storage _ _ _ dt => mkTl (tl_now t + Z.of_N dt) (tl_cnt t) (tl_uns t)
  | _ => t
  end.

Definition timeline_from (t : tl) (evs : list event) : tl := fold_left tl_step evs t.
Definition timeline (evs : list event) : tl := timeline_from tl0 evs.

(* Creation instant, unsuspended time at creation and timeout of the
   contexts created by a history, in creation order: events only. *)
Record birth := mkBirth { b_T0 : Z; b_U0 : Z; b_d : Z }.

Fixpoint births_from (t : tl) (evs : list event) : list birth :=
  match evs with
  | [] => []
  | e :: r =>
    match e with
    | NewCtx d => mkBirth (tl_now t) (tl_uns t) d :: births_from (tl_step t e) r
    | _ => births_from (tl_step t e) r
    end
  end.

Definition births (evs : list event) : list birth := births_from tl0 evs.

(* ---- the monitor -------------------------------------------------------------- *)

Record mctx := mkM {
  m_birth : birth;
  m_cancel : bool;     (* a Cancel event was issued *)
  m_expire : bool;     (* BaseExpire was issued at or after T0 + d + maxSusp *)
  m_parked : bool;     (* goroutine between two critical sections (about to call base.NewTimer) *)
  m_done : bool;       (* Done() observed closed *)
  m_rearms : nat }.    (* loop iterations observed *)

Record mon := mkMon { mo_tl : tl; mo_ctxs : list mctx }.

Definition mon0 : mon := mkMon tl0 [].

Definition m_T0 (m : mctx) := b_T0 (m_birth m).
Definition m_U0 (m : mctx) := b_U0 (m_birth m).
Definition m_d (m : mctx) := b_d (m_birth m).

Definition wall_bound (c : cfg) (m : mctx) : Z := m_T0 m + m_d m + maxSusp c.

(* which context an event is about *)
Definition target (e : event) : option nat :=
  match e with
  | Arm id | Fire id _ | Cancel id | BaseExpire id => Some id
  | _ => None
  end.

(* the monitor's flags after it has seen event [e] being issued (before
   looking at the output) *)
Definition note_event (c : cfg) (t : tl) (m : mctx) (e : event) : mctx :=
  match e with
  | Cancel _ => mkM (m_birth m) true (m_expire m) (m_parked m) (m_done m) (m_rearms m)
  | BaseExpire _ =>
    mkM (m_birth m) (m_cancel m) (m_expire m || (wall_bound c m <=? tl_now t))
        (m_parked m) (m_done m) (m_rearms m)
  | Arm _ => mkM (m_birth m) (m_cancel m) (m_expire m) false (m_done m) (m_rearms m)
  | _ => m
  end.

Definition note_out (m : mctx) (o : out) : mctx :=
  match o with
  | ODone _ _ => mkM (m_birth m) (m_cancel m) (m_expire m) false true (m_rearms m)
  | ORearm _ => mkM (m_birth m) (m_cancel m) (m_expire m) true (m_done m) (S (m_rearms m))
  | _ => m
  end.

Definition mon_step (c : cfg) (mo : mon) (e : event) (o : out) : mon :=
  let t := mo_tl mo in
  let ctxs :=
    match e with
    | NewCtx d => (mo_ctxs mo ++ [mkM (mkBirth (tl_now t) (tl_uns t) d) false false true false 0%nat])%list
    | _ =>
      match target e with
      | Some id =>
        match nth_error (mo_ctxs mo) id with
        | Some m => set_nth id (note_out (note_event c t m e) o) (mo_ctxs mo)
        | None => mo_ctxs mo
        end
      | None => mo_ctxs mo
      end
    end in
  mkMon (tl_step t e) ctxs.

(* ---- the property, one step ------------------------------------------------------ *)

(* [m] already carries the flags of the current event.  [tf] is the value
   delivered by the base timer if the context ends through its timer. *)
Definition p_done (c : cfg) (t : tl) (m : mctx) (tf : option Z) (e : berr) (dur : Z) : string :=
  let U := tl_uns t - m_U0 m in      (* true unsuspended time since creation *)
  let over := (m_d m - thr c <? U) || (wall_bound c m <=? tl_now t) in
  if m_done m then "done-twice"
  else match e with
  | ENone => "done-without-error"
  | EDeadline =>
    if negb over then "deadline-too-early"
    else match tf with
    | Some f =>
      if (U - (tl_now t - f) <=? dur) && (dur <=? U) && (m_d m - thr c <? dur) then ""
      else "duration-not-exact"
    | None => if dur =? U then "" else "duration-not-exact"
    end
  | ECanceled =>
    if negb (m_cancel m) then "canceled-without-cancel"
    else match tf with
    | Some _ => "canceled-by-timer"
    | None => if dur =? U then "" else "duration-not-exact"
    end
  end.

Definition p_rearm (c : cfg) (t : tl) (m : mctx) (tf d' : Z) : string :=
  let U := tl_uns t - m_U0 m in
  if m_done m then "rearm-after-done"
  else if d' <? thr c then "rearm-below-threshold"
  else if negb ((m_d m - U <=? d') && (d' <=? m_d m - U + (tl_now t - tf))) then "rearm-wrong-remaining"
  else if negb (Z.of_nat (m_rearms m) * thr c <=? tl_now t - m_T0 m - m_d m) then "rearm-too-many"
  else "".

(* nothing came out although a stop was requested and the goroutine is in
   its select *)
Definition p_quiet (m : mctx) : string :=
  if m_done m || m_parked m then ""
  else if m_expire m then "deadline-past-wall-bound"
  else if m_cancel m then "cancel-ignored"
  else "".

Definition skind_name (k : skind) : string :=
  match k with
  | KGet => "Get" | KGetFromComposite => "GetFromComposite" | KPut => "Put"
  | KFindMissing => "FindMissing" | KGetCapabilities => "GetCapabilities"
  | KGetDirectory => "GetDirectory" | KGetTreeRootDirectory => "GetTreeRootDirectory"
  | KGetTreeChildDirectory => "GetTreeChildDirectory"
  end.

Definition p_storage (k : skind) (o : out) : string :=
  match o with
  | OStor sb rb st rt =>
    if negb (N.eqb st rt) then String.append "unbalanced-suspend-" (skind_name k)
    else if negb ((sb =? 1)%N && (rb =? 0)%N && (st =? 1)%N) then String.append "storage-not-suspended-" (skind_name k)
    else ""
  | _ => "storage-no-observation"
  end.

Definition p_step (c : cfg) (mo : mon) (e : event) (o : out) : string :=
  let t := mo_tl mo in
  match e with
  | NewCtx d =>
    match o with
    | ONew rb rt =>
      if negb (rb =? d + maxSusp c) then "base-timeout-wrong"
      else if negb (rt =? d) then "first-timer-wrong"
      else ""
    | _ => "new-without-requests"
    end
  | Storage k _ _ _ => p_storage k o
  | _ =>
    match target e with
    | Some id =>
      match nth_error (mo_ctxs mo) id with
      | Some m0 =>
        let m := note_event c t m0 e in
        match o with
        | ODone er dur =>
          p_done c t m (match e with Fire _ tf => Some tf | _ => None end) er dur
        | ORearm d' =>
          match e with
          | Fire _ tf => p_rearm c t m tf d'
          | _ => "rearm-without-fire"
          end
        | _ => p_quiet m
        end
      | None => ""
      end
    | None => ""
    end
  end.

Fixpoint trace_ok_from (c : cfg) (mo : mon) (tr : list (event * out)) : bool :=
  match tr with
  | [] => true
  | (e, o) :: r => String.eqb (p_step c mo e o) "" && trace_ok_from c (mon_step c mo e o) r
  end.

Definition trace_ok (c : cfg) (tr : list (event * out)) : bool := trace_ok_from c mon0 tr.

Fixpoint mon_run_from (c : cfg) (mo : mon) (tr : list (event * out)) : mon :=
  match tr with
  | [] => mo
  | (e, o) :: r => mon_run_from c (mon_step c mo e o) r
  end.

Definition mon_run (c : cfg) (tr : list (event * out)) : mon := mon_run_from c mon0 tr.

(* number of loop iterations (re-arms) of context [id] in a trace *)
Fixpoint rearms (id : nat) (tr : list (event * out)) : nat :=
  match tr with
  | [] => 0
  | (Fire i _, ORearm _) :: r => if Nat.eqb i id then S (rearms id r) else rearms id r
  | _ :: r => rearms id r
  end.
