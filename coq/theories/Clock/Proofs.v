(* Proofs about the suspendable clock model: accounting, and the simulation
   between the model and the specification-side monitor (Spec.v), from
   which [monitor_accepts_model_lemma] follows. *)
From Coq Require Import Lia ZifyBool ZifyN ZifyNat.
From VF Require Import Clock.Model Clock.Spec.
Open Scope Z_scope.


(* ---- accounting: the clock's fields against true unsuspended time ---------- *)

Definition acct (s : state) (t : tl) : Prop :=
  s_now s = tl_now t /\ s_cnt s = tl_cnt t /\ s_ustart s <= s_now s /\ total_now s = tl_uns t.

(* step leaves the clock fields alone except for the four clock events *)
Definition clock_of (s : state) := (s_now s, s_cnt s, s_ustart s, s_total s).

Lemma acct_clock_of s s' t : clock_of s = clock_of s' -> acct s t -> acct s' t.
Proof.
  unfold clock_of, acct, total_now. intros [= H1 H2 H3 H4]. rewrite H1, H2, H3, H4. auto.
Qed.

Lemma do_arm_clock s id : clock_of (fst (do_arm s id)) = clock_of s.
Proof.
  unfold do_arm, base_done. destruct (nth_error (s_ctxs s) id) as [x|]; [|reflexivity].
  destruct (x_phase x); [|reflexivity..]. destruct (x_berr x); reflexivity.
Qed.

Lemma do_fire_clock c s id tf : clock_of (fst (do_fire c s id tf)) = clock_of s.
Proof.
  unfold do_fire. destruct (nth_error (s_ctxs s) id) as [x|]; [|reflexivity].
  destruct (x_phase x) as [d|dl|]; [reflexivity| |reflexivity].
  destruct ((dl <=? tf) && (tf <=? s_now s)); [|reflexivity].
  destruct (x_final x - total_at s tf <? thr c); reflexivity.
Qed.

Lemma base_stop_clock s id x e : clock_of (fst (base_stop s id x e)) = clock_of s.
Proof. unfold base_stop, base_done. cbn [x_phase with_berr]. destruct (x_phase x); reflexivity. Qed.

Lemma do_cancel_clock s id : clock_of (fst (do_cancel s id)) = clock_of s.
Proof.
  unfold do_cancel. destruct (nth_error (s_ctxs s) id) as [x|]; [|reflexivity]. apply base_stop_clock.
Qed.

Lemma do_expire_clock s id : clock_of (fst (do_expire s id)) = clock_of s.
Proof.
  unfold do_expire. destruct (nth_error (s_ctxs s) id) as [x|]; [|reflexivity].
  destruct (x_basedl x <=? s_now s); [apply base_stop_clock|reflexivity].
Qed.

Lemma do_tarm_clock s id : clock_of (fst (do_tarm s id)) = clock_of s.
Proof.
  unfold do_tarm. destruct (nth_error (s_tmrs s) id) as [x|]; [|reflexivity].
  destruct (t_phase x); [|reflexivity..]. destruct (t_stopreq x); reflexivity.
Qed.

Lemma do_tfire_clock c s id tf : clock_of (fst (do_tfire c s id tf)) = clock_of s.
Proof.
  unfold do_tfire. destruct (nth_error (s_tmrs s) id) as [x|]; [|reflexivity].
  destruct (t_phase x) as [d|dl|]; [reflexivity| |reflexivity].
  destruct ((dl <=? tf) && (tf <=? s_now s)); [|reflexivity].
  destruct (t_final x - total_at s tf <? thr c); reflexivity.
Qed.

Lemma do_tmaxfire_clock s id tf : clock_of (fst (do_tmaxfire s id tf)) = clock_of s.
Proof.
  unfold do_tmaxfire. destruct (nth_error (s_tmrs s) id) as [x|]; [|reflexivity].
  destruct (t_phase x) as [d|dl|]; [reflexivity| |reflexivity].
  destruct ((t_maxdl x <=? tf) && (tf <=? s_now s)); reflexivity.
Qed.

Lemma do_tstop_clock s id : clock_of (fst (do_tstop s id)) = clock_of s.
Proof.
  unfold do_tstop. destruct (nth_error (s_tmrs s) id) as [x|]; [|reflexivity].
  destruct (t_open x); [|reflexivity]. destruct (t_phase x); reflexivity.
Qed.

Lemma acct_suspend s t : acct s t -> acct (do_suspend s) (tl_step t Suspend).
Proof.
  unfold acct, do_suspend, total_now. cbn [s_now s_cnt s_ustart s_total tl_step tl_now tl_cnt tl_uns].
  intros (H1 & H2 & H3 & H4). rewrite <- H2. cbn [Nat.eqb]. auto.
Qed.

Lemma acct_advance s t dt : acct s t -> acct (do_advance s dt) (tl_step t (Advance dt)).
Proof.
  unfold acct, do_advance, total_now. cbn [s_now s_cnt s_ustart s_total tl_step tl_now tl_cnt tl_uns].
  intros (H1 & H2 & H3 & H4). rewrite <- H2.
  destruct (Nat.eqb (s_cnt s) 0) eqn:E; lia.
Qed.

Lemma acct_resume s t : acct s t -> acct (fst (do_resume s)) (tl_step t Resume).
Proof.
  unfold acct, do_resume, total_now. intros (H1 & H2 & H3 & H4).
  cbn [tl_step tl_now tl_cnt tl_uns]. rewrite <- H2.
  destruct (s_cnt s) as [|n] eqn:E; cbn [fst s_now s_cnt s_ustart s_total Nat.pred].
  - rewrite E. cbn [Nat.eqb] in *. auto.
  - cbn [Nat.eqb] in H4. destruct (Nat.eqb n 0) eqn:E2; lia.
Qed.

Lemma acct_step c s t e : acct s t -> acct (fst (step c s e)) (tl_step t e).
Proof.
  intros H. destruct e; cbn [step fst].
  - now apply acct_advance.
  - now apply acct_suspend.
  - now apply acct_resume.
  - cbn [tl_step]. eapply acct_clock_of; [|exact H]. reflexivity.
  - cbn [tl_step]. eapply acct_clock_of; [|exact H]. symmetry. apply do_arm_clock.
  - cbn [tl_step]. eapply acct_clock_of; [|exact H]. symmetry. apply do_fire_clock.
  - cbn [tl_step]. eapply acct_clock_of; [|exact H]. symmetry. apply do_cancel_clock.
  - cbn [tl_step]. eapply acct_clock_of; [|exact H]. symmetry. apply do_expire_clock.
  - (* Storage = Suspend; Advance; Resume *)
    unfold do_storage. cbn [fst].
    pose proof (acct_resume _ _ (acct_advance _ _ dt (acct_suspend _ _ H))) as H'.
    revert H'. unfold acct. cbn [tl_step tl_now tl_cnt tl_uns Nat.pred Nat.eqb]. auto.
  - cbn [tl_step]. eapply acct_clock_of; [|exact H]. reflexivity.
  - cbn [tl_step]. eapply acct_clock_of; [|exact H]. symmetry. apply do_tarm_clock.
  - cbn [tl_step]. eapply acct_clock_of; [|exact H]. symmetry. apply do_tfire_clock.
  - cbn [tl_step]. eapply acct_clock_of; [|exact H]. symmetry. apply do_tmaxfire_clock.
  - cbn [tl_step]. eapply acct_clock_of; [|exact H]. symmetry. apply do_tstop_clock.
Qed.

Lemma acct_run_from c evs : forall s t, acct s t -> acct (run_from c s evs) (timeline_from t evs).
Proof.
  induction evs as [|e r IH]; intros s t H; cbn [run_from timeline_from fold_left]; [exact H|].
  apply IH. now apply acct_step.
Qed.

Lemma acct_init : acct init tl0.
Proof. unfold acct, init, tl0, total_now. cbn. lia. Qed.

Lemma accounting_exact_lemma : forall c evs,
  let s := run c evs in let t := timeline evs in
  s_now s = tl_now t /\ s_cnt s = tl_cnt t /\
  s_total s + (if Nat.eqb (s_cnt s) 0 then s_now s - s_ustart s else 0) = tl_uns t.
Proof.
  intros c evs s t. destruct (acct_run_from c evs init tl0 acct_init) as (H1 & H2 & H3 & H4).
  fold (run c evs) in *. fold (timeline evs) in *. fold s in H1, H2, H3, H4. fold t in H1, H2, H3, H4.
  split; [exact H1|]. split; [exact H2|]. unfold total_now in H4.
  destruct (Nat.eqb (s_cnt s) 0); lia.
Qed.

(* ---- list plumbing ---------------------------------------------------------------- *)

Lemma Forall2_nth {A B} (P : A -> B -> Prop) l1 l2 id x :
  Forall2 P l1 l2 -> nth_error l1 id = Some x -> exists m, nth_error l2 id = Some m /\ P x m.
Proof.
  intros H. revert id. induction H as [|a b l1 l2 Hab H IH]; intros [|id] Hn; cbn in Hn; try discriminate.
  - injection Hn as <-. exists b. split; [reflexivity|exact Hab].
  - apply IH in Hn as (m & Hm & HP). exists m. split; [exact Hm|exact HP].
Qed.

Lemma Forall2_nth_none {A B} (P : A -> B -> Prop) l1 l2 id :
  Forall2 P l1 l2 -> nth_error l1 id = None -> nth_error l2 id = None.
Proof.
  intros H. revert id. induction H as [|a b l1 l2 Hab H IH]; intros [|id] Hn; cbn in *; try discriminate; auto.
Qed.

Lemma Forall2_set_nth {A B} (P : A -> B -> Prop) l1 l2 id x m :
  Forall2 P l1 l2 -> P x m -> Forall2 P (set_nth id x l1) (set_nth id m l2).
Proof.
  intros H Hx. revert id. induction H as [|a b l1 l2 Hab H IH]; intros [|id]; cbn [set_nth]; constructor; auto.
Qed.

Lemma Forall2_impl {A B} (P Q : A -> B -> Prop) l1 l2 :
  (forall a b, P a b -> Q a b) -> Forall2 P l1 l2 -> Forall2 Q l1 l2.
Proof. intros HPQ H. induction H; constructor; auto. Qed.

(* ---- the simulation relation between model state and monitor state ------------------ *)

Definition ctx_rel (c : cfg) (now uns : Z) (x : ctxo) (m : mctx) : Prop :=
  x_initial x = m_U0 m /\ x_final x = m_U0 m + m_d m /\ x_basedl x = wall_bound c m /\
  m_T0 m <= now /\
  (x_berr x = ENone -> m_cancel m = false /\ m_expire m = false) /\
  (x_berr x = ECanceled -> m_cancel m = true) /\
  (x_berr x = EDeadline -> m_expire m = true) /\
  (m_expire m = true -> wall_bound c m <= now) /\
  (m_rearms m <> 0%nat -> (Z.of_nat (m_rearms m) - 1) * thr c <= now - m_T0 m - m_d m) /\
  match x_phase x with
  | PArming d' =>
    m_parked m = true /\ m_done m = false /\
    m_T0 m + m_d m + Z.of_nat (m_rearms m) * thr c <= now + d'
  | PArmed dl =>
    m_parked m = false /\ m_done m = false /\ x_berr x = ENone /\
    m_T0 m + m_d m + Z.of_nat (m_rearms m) * thr c <= dl
  | PDone =>
    m_done m = true /\
    (m_cancel m = true \/ m_d m - thr c < uns - m_U0 m \/ wall_bound c m <= now)
  end.

Definition Rc (c : cfg) (s : state) (mo : mon) : Prop :=
  acct s (mo_tl mo) /\ Forall2 (ctx_rel c (s_now s) (tl_uns (mo_tl mo))) (s_ctxs s) (mo_ctxs mo).

Lemma ctx_rel_mono c now now' uns uns' x m :
  now <= now' -> uns <= uns' -> ctx_rel c now uns x m -> ctx_rel c now' uns' x m.
Proof.
  unfold ctx_rel. intros Hle Hle' (H1 & H2 & H3 & H4 & H5 & H6 & H7 & H8 & Hk & H9).
  repeat (split; [first [assumption | lia | (intros He; specialize (H8 He); lia)
                         | (intros He; specialize (Hk He); lia)]|]).
  destruct (x_phase x).
  - destruct H9 as (Ha & Hb & Hc). repeat split; auto. lia.
  - exact H9.
  - destruct H9 as (Ha & [Hb|[Hb|Hb]]); (split; [exact Ha|]).
    + left. exact Hb.
    + right. left. lia.
    + right. right. lia.
Qed.

Lemma Rc_init c : Rc c init mon0.
Proof. split; [exact acct_init|constructor]. Qed.

(* total_at against the true unsuspended time *)
Lemma total_at_bounds s t tf : acct s t -> tf <= s_now s ->
  tl_uns t - (s_now s - tf) <= total_at s tf <= tl_uns t.
Proof.
  unfold acct, total_now, total_at. intros (H1 & H2 & H3 & H4) Hle.
  destruct (Nat.eqb (s_cnt s) 0); cbn [andb]; [|lia].
  destruct (s_ustart s <? tf) eqn:E; lia.
Qed.

(* ---- p_done / p_rearm / p_quiet are satisfied under the relation ------------------- *)

Lemma p_done_base c t m e dur :
  m_done m = false -> e <> ENone ->
  (e = EDeadline -> wall_bound c m <= tl_now t) ->
  (e = ECanceled -> m_cancel m = true) ->
  dur = tl_uns t - m_U0 m -> p_done c t m None e dur = "".
Proof.
  intros Hd Hne He Hc Hdur. unfold p_done. rewrite Hd.
  destruct e; [congruence| |].
  - rewrite (Hc eq_refl). cbn [negb].
    destruct (dur =? tl_uns t - m_U0 m) eqn:E; [reflexivity|lia].
  - specialize (He eq_refl).
    destruct ((m_d m - thr c <? tl_uns t - m_U0 m) || (wall_bound c m <=? tl_now t)) eqn:E1; [|lia].
    cbn [negb]. destruct (dur =? tl_uns t - m_U0 m) eqn:E; [reflexivity|lia].
Qed.

Lemma p_done_timer c t m tf dur :
  m_done m = false ->
  tl_uns t - m_U0 m - (tl_now t - tf) <= dur -> dur <= tl_uns t - m_U0 m -> m_d m - thr c < dur ->
  p_done c t m (Some tf) EDeadline dur = "".
Proof.
  intros Hd Hlo Hhi Hthr. unfold p_done. rewrite Hd.
  destruct ((m_d m - thr c <? tl_uns t - m_U0 m) || (wall_bound c m <=? tl_now t)) eqn:E1; [|lia].
  cbn [negb].
  destruct ((tl_uns t - m_U0 m - (tl_now t - tf) <=? dur) && (dur <=? tl_uns t - m_U0 m) && (m_d m - thr c <? dur)) eqn:E2;
    [reflexivity|lia].
Qed.

Lemma p_rearm_ok c t m tf d' :
  m_done m = false -> thr c <= d' ->
  m_d m - (tl_uns t - m_U0 m) <= d' -> d' <= m_d m - (tl_uns t - m_U0 m) + (tl_now t - tf) ->
  Z.of_nat (m_rearms m) * thr c <= tl_now t - m_T0 m - m_d m ->
  p_rearm c t m tf d' = "".
Proof.
  intros Hd H1 H2 H3 H4. unfold p_rearm. rewrite Hd.
  destruct (d' <? thr c) eqn:E1; [lia|].
  destruct ((m_d m - (tl_uns t - m_U0 m) <=? d') && (d' <=? m_d m - (tl_uns t - m_U0 m) + (tl_now t - tf))) eqn:E2; [|lia].
  cbn [negb].
  destruct (Z.of_nat (m_rearms m) * thr c <=? tl_now t - m_T0 m - m_d m) eqn:E3; [reflexivity|lia].
Qed.

Definition step_good c s mo e :=
  p_step c mo e (snd (step c s e)) = "" /\
  Rc c (fst (step c s e)) (mon_step c mo e (snd (step c s e))).

Lemma mon_step_target c mo e o id m :
  target e = Some id -> nth_error (mo_ctxs mo) id = Some m ->
  mon_step c mo e o =
  mkMon (mo_tl mo) (set_nth id (note_out (note_event c (mo_tl mo) m e) o) (mo_ctxs mo)) (mo_tmrs mo).
Proof.
  destruct e; cbn [target]; try discriminate; intros [= ->] Hm; unfold mon_step, ctxs_step, tmrs_step;
    cbn [target ttarget tl_step]; rewrite Hm; destruct mo; reflexivity.
Qed.

Lemma mon_step_target_none c mo e o id :
  target e = Some id -> nth_error (mo_ctxs mo) id = None -> mon_step c mo e o = mo.
Proof.
  destruct e; cbn [target]; try discriminate; intros [= ->] Hm; unfold mon_step, ctxs_step, tmrs_step;
    cbn [target ttarget tl_step]; rewrite Hm; destruct mo; reflexivity.
Qed.

Lemma R_update c s mo id x' m' :
  Rc c s mo -> ctx_rel c (s_now s) (tl_uns (mo_tl mo)) x' m' ->
  Rc c (set_ctxs s (set_nth id x' (s_ctxs s))) (mkMon (mo_tl mo) (set_nth id m' (mo_ctxs mo)) (mo_tmrs mo)).
Proof.
  intros [Ha Hf] Hr. split.
  - cbn [mo_tl]. eapply acct_clock_of; [|exact Ha]. reflexivity.
  - cbn [set_ctxs s_now s_ctxs mo_ctxs mo_tl]. apply Forall2_set_nth; assumption.
Qed.

Lemma set_nth_same {A} (l : list A) id x : nth_error l id = Some x -> set_nth id x l = l.
Proof.
  revert id. induction l as [|a l IH]; intros [|id] H; cbn in *; try discriminate.
  - now injection H as ->.
  - now rewrite IH.
Qed.

Lemma R_update_mon c s mo id x m' :
  Rc c s mo -> nth_error (s_ctxs s) id = Some x -> ctx_rel c (s_now s) (tl_uns (mo_tl mo)) x m' ->
  Rc c s (mkMon (mo_tl mo) (set_nth id m' (mo_ctxs mo)) (mo_tmrs mo)).
Proof.
  intros [Ha Hf] Hx Hr. split; [exact Ha|]. cbn [mo_ctxs mo_tl].
  rewrite <- (set_nth_same _ _ _ Hx). apply Forall2_set_nth; assumption.
Qed.

Ltac rel_cbn :=
  cbn [note_out note_event with_phase with_berr x_initial x_final x_basedl x_berr x_phase
       m_birth m_cancel m_expire m_parked m_done m_rearms].
Ltac rel_fields :=
  rel_cbn; unfold wall_bound, m_T0, m_U0, m_d in *; rel_cbn.

Ltac disj := solve [lia | congruence | assumption | left; disj | right; disj].
Ltac fin := repeat split; auto; try congruence; try lia; try disj.

Lemma step_arm c s mo id : Rc c s mo -> step_good c s mo (Arm id).
Proof.
  intros HR. pose proof HR as [Ha Hf]. unfold step_good. cbn [step]. unfold do_arm.
  destruct (nth_error (s_ctxs s) id) as [x|] eqn:Hx.
  - destruct (Forall2_nth _ _ _ _ _ Hf Hx) as (m & Hm & Hr).
    cbn [p_step target]. rewrite Hm.
    rewrite (mon_step_target c mo (Arm id) _ id m eq_refl Hm).
    destruct Hr as (H1 & H2 & H3 & H4 & H5 & H6 & H7 & H8 & Hrk & H9).
    destruct Ha as (Ha1 & Ha2 & Ha3 & Ha4).
    destruct (x_phase x) as [d'|dl|] eqn:Hp.
    + destruct H9 as (Hpk & Hdn & Hk).
      destruct (x_berr x) eqn:He.
      * (* no stop requested: the timer is armed *)
        destruct (H5 eq_refl) as [Hc Hxp]. cbn [fst snd]. split.
        -- unfold p_quiet. rel_fields. rewrite Hdn, Hxp, Hc. reflexivity.
        -- apply R_update; [exact HR|].
           unfold ctx_rel. rel_fields. rewrite ?He, ?Hp. fin.
      * (* cancelled while parked *)
        unfold base_done. cbn [fst snd]. split.
        -- apply p_done_base; rel_fields; fin.
        -- apply R_update; [exact HR|].
           unfold ctx_rel. rel_fields. rewrite ?He, ?Hp. fin.
      * (* base context expired while parked *)
        unfold base_done. cbn [fst snd]. split.
        -- apply p_done_base; rel_fields; fin.
        -- apply R_update; [exact HR|].
           unfold ctx_rel. rel_fields. rewrite ?He, ?Hp. fin.
    + destruct H9 as (Hpk & Hdn & He & Hk). destruct (H5 He) as [Hc Hxp]. cbn [fst snd]. split.
      * unfold p_quiet. rel_fields. rewrite Hdn, Hxp, Hc. reflexivity.
      * apply (R_update_mon _ _ _ _ x); [exact HR|exact Hx|].
        unfold ctx_rel. rel_fields. rewrite ?He, ?Hp. fin.
    + cbn [fst snd]. split.
      * unfold p_quiet. rel_fields. rewrite (proj1 H9). reflexivity.
      * apply (R_update_mon _ _ _ _ x); [exact HR|exact Hx|].
        unfold ctx_rel. rel_fields. rewrite ?Hp. fin.
  - pose proof (Forall2_nth_none _ _ _ _ Hf Hx) as Hm. cbn [p_step target fst snd]. rewrite Hm.
    rewrite (mon_step_target_none c mo (Arm id) _ id eq_refl Hm). split; [reflexivity|exact HR].
Qed.

Lemma step_fire c s mo id tf : Rc c s mo -> step_good c s mo (Fire id tf).
Proof.
  intros HR. pose proof HR as [Ha Hf]. unfold step_good. cbn [step]. unfold do_fire.
  destruct (nth_error (s_ctxs s) id) as [x|] eqn:Hx.
  - destruct (Forall2_nth _ _ _ _ _ Hf Hx) as (m & Hm & Hr).
    cbn [p_step target]. rewrite Hm.
    rewrite (mon_step_target c mo (Fire id tf) _ id m eq_refl Hm).
    destruct Hr as (H1 & H2 & H3 & H4 & H5 & H6 & H7 & H8 & Hrk & H9).
    assert (Hquiet : p_quiet (note_event c (mo_tl mo) m (Fire id tf)) = "" /\
                     Rc c s (mkMon (mo_tl mo) (set_nth id (note_out (note_event c (mo_tl mo) m (Fire id tf)) ONone) (mo_ctxs mo)) (mo_tmrs mo))).
    { split.
      - unfold p_quiet. rel_fields. destruct (x_phase x) as [d'|dl|].
        + destruct H9 as (-> & -> & _). reflexivity.
        + destruct H9 as (Hpk & Hdn & He & _). destruct (H5 He) as [-> ->]. rewrite Hpk, Hdn. reflexivity.
        + rewrite (proj1 H9). reflexivity.
      - apply (R_update_mon _ _ _ _ x); [exact HR|exact Hx|]. rel_fields.
        unfold ctx_rel. fin. }
    destruct (x_phase x) as [d'|dl|] eqn:Hp; [exact Hquiet| |exact Hquiet].
    destruct ((dl <=? tf) && (tf <=? s_now s)) eqn:Een; [|exact Hquiet].
    clear Hquiet. destruct H9 as (Hpk & Hdn & He & Hk).
    pose proof (total_at_bounds s (mo_tl mo) tf Ha ltac:(lia)) as Hb.
    destruct Ha as (Ha1 & Ha2 & Ha3 & Ha4).
    destruct (x_final x - total_at s tf <? thr c) eqn:Ethr; cbn [fst snd].
    + split.
      * apply p_done_timer; rel_fields; fin.
      * apply R_update; [exact HR|]. unfold ctx_rel. rel_fields. rewrite ?He, ?Hp. fin.
    + split.
      * apply p_rearm_ok; rel_fields; fin.
      * apply R_update; [exact HR|]. unfold ctx_rel. rel_fields. rewrite ?He, ?Hp. fin.
  - pose proof (Forall2_nth_none _ _ _ _ Hf Hx) as Hm. cbn [p_step target fst snd]. rewrite Hm.
    rewrite (mon_step_target_none c mo (Fire id tf) _ id eq_refl Hm). split; [reflexivity|exact HR].
Qed.

(* Cancel and BaseExpire share base_stop *)
Lemma step_base_stop c s mo id x m e ev :
  Rc c s mo -> nth_error (s_ctxs s) id = Some x -> nth_error (mo_ctxs mo) id = Some m ->
  ctx_rel c (s_now s) (tl_uns (mo_tl mo)) x m ->
  (ev = Cancel id /\ e = ECanceled \/ ev = BaseExpire id /\ e = EDeadline /\ x_basedl x <= s_now s) ->
  let r := base_stop s id x e in
  ((exists er dur, snd r = ODone er dur /\
      p_done c (mo_tl mo) (note_event c (mo_tl mo) m ev) None er dur = "") \/
   (snd r = ONone /\ p_quiet (note_event c (mo_tl mo) m ev) = "")) /\
  Rc c (fst r) (mkMon (mo_tl mo) (set_nth id (note_out (note_event c (mo_tl mo) m ev) (snd r)) (mo_ctxs mo)) (mo_tmrs mo)).
Proof.
  intros HR Hx Hm Hr Hev. pose proof HR as [Ha Hf].
  destruct Hr as (H1 & H2 & H3 & H4 & H5 & H6 & H7 & H8 & Hrk & H9).
  destruct Ha as (Ha1 & Ha2 & Ha3 & Ha4).
  unfold base_stop. cbn zeta.
  assert (Hexp : ev = BaseExpire id -> (wall_bound c m <=? tl_now (mo_tl mo)) = true).
  { intros ->. destruct Hev as [[Hev _]|(_ & _ & Hle)]; [discriminate|]. unfold wall_bound in *. lia. }
  destruct (x_phase x) as [d'|dl|] eqn:Hp.
  - (* parked: only the base context changes *)
    destruct H9 as (Hpk & Hdn & Hk). cbn [fst snd]. split.
    + right. split; [reflexivity|].
      unfold p_quiet. destruct Hev as [[-> ->]|(-> & -> & Hle)]; rel_fields; rewrite Hdn, Hpk; reflexivity.
    + apply R_update; [exact HR|]. unfold ctx_rel.
      destruct Hev as [[-> ->]|(-> & -> & Hle)]; rel_fields; rewrite ?Hp.
      * destruct (x_berr x) eqn:He; fin.
      * specialize (Hexp eq_refl). rel_fields.
        destruct (x_berr x) eqn:He; fin; rewrite ?Hexp, ?Bool.orb_true_r; fin.
  - (* in the select: the goroutine finishes at once *)
    destruct H9 as (Hpk & Hdn & He & Hk). destruct (H5 He) as [Hc Hxp].
    unfold base_done. rewrite He. cbn [fst snd x_berr with_berr x_initial].
    destruct Hev as [[-> ->]|(-> & -> & Hle)].
    + split.
      * left. eexists _, _. split; [reflexivity|]. apply p_done_base; rel_fields; fin.
      * apply R_update; [exact HR|]. unfold ctx_rel. rel_fields. fin.
    + specialize (Hexp eq_refl). split.
      * left. eexists _, _. split; [reflexivity|]. apply p_done_base; rel_fields; fin.
      * apply R_update; [exact HR|]. unfold ctx_rel. rel_fields. rewrite Hexp, Bool.orb_true_r. fin.
  - cbn [fst snd]. split.
    + right. split; [reflexivity|].
      unfold p_quiet. destruct Hev as [[-> ->]|(-> & -> & Hle)]; rel_fields; rewrite (proj1 H9); reflexivity.
    + apply R_update; [exact HR|]. unfold ctx_rel.
      destruct Hev as [[-> ->]|(-> & -> & Hle)]; rel_fields; rewrite ?Hp.
      * destruct (x_berr x) eqn:He; fin.
      * specialize (Hexp eq_refl). rel_fields.
        destruct (x_berr x) eqn:He; fin; rewrite ?Hexp, ?Bool.orb_true_r; fin.
Qed.

Lemma step_cancel c s mo id : Rc c s mo -> step_good c s mo (Cancel id).
Proof.
  intros HR. pose proof HR as [Ha Hf]. unfold step_good. cbn [step]. unfold do_cancel.
  destruct (nth_error (s_ctxs s) id) as [x|] eqn:Hx.
  - destruct (Forall2_nth _ _ _ _ _ Hf Hx) as (m & Hm & Hr).
    cbn [p_step target]. rewrite Hm.
    rewrite (mon_step_target c mo (Cancel id) _ id m eq_refl Hm).
    destruct (step_base_stop c s mo id x m ECanceled (Cancel id) HR Hx Hm Hr ltac:(left; split; reflexivity)) as [Hp HR'].
    split; [|exact HR'].
    destruct Hp as [(er & dur & -> & Hp)|[-> Hp]]; exact Hp.
  - pose proof (Forall2_nth_none _ _ _ _ Hf Hx) as Hm. cbn [p_step target fst snd]. rewrite Hm.
    rewrite (mon_step_target_none c mo (Cancel id) _ id eq_refl Hm). split; [reflexivity|exact HR].
Qed.

Lemma step_expire c s mo id : Rc c s mo -> step_good c s mo (BaseExpire id).
Proof.
  intros HR. pose proof HR as [Ha Hf]. unfold step_good. cbn [step]. unfold do_expire.
  destruct (nth_error (s_ctxs s) id) as [x|] eqn:Hx.
  - destruct (Forall2_nth _ _ _ _ _ Hf Hx) as (m & Hm & Hr).
    cbn [p_step target]. rewrite Hm.
    rewrite (mon_step_target c mo (BaseExpire id) _ id m eq_refl Hm).
    destruct (x_basedl x <=? s_now s) eqn:Een.
    + destruct (step_base_stop c s mo id x m EDeadline (BaseExpire id) HR Hx Hm Hr
                  ltac:(right; split; [reflexivity|split; [reflexivity|lia]])) as [Hp HR'].
      split; [|exact HR'].
      destruct Hp as [(er & dur & -> & Hp)|[-> Hp]]; exact Hp.
    + (* not yet due: nothing happens, and the monitor agrees it is not due *)
      destruct Hr as (H1 & H2 & H3 & H4 & H5 & H6 & H7 & H8 & Hrk & H9).
      destruct Ha as (Ha1 & Ha2 & Ha3 & Ha4).
      assert (Hno : (wall_bound c m <=? tl_now (mo_tl mo)) = false) by lia.
      cbn [fst snd]. split.
      * unfold p_quiet. rel_fields. unfold wall_bound in Hno. rewrite Hno, Bool.orb_false_r.
        destruct (x_phase x) as [d'|dl|].
        -- destruct H9 as (-> & -> & _). reflexivity.
        -- destruct H9 as (Hpk & Hdn & He & _). destruct (H5 He) as [-> ->]. rewrite Hpk, Hdn. reflexivity.
        -- rewrite (proj1 H9). reflexivity.
      * apply (R_update_mon _ _ _ _ x); [exact HR|exact Hx|].
        unfold ctx_rel. rel_fields. unfold wall_bound in Hno. rewrite Hno, Bool.orb_false_r. fin.
  - pose proof (Forall2_nth_none _ _ _ _ Hf Hx) as Hm. cbn [p_step target fst snd]. rewrite Hm.
    rewrite (mon_step_target_none c mo (BaseExpire id) _ id eq_refl Hm). split; [reflexivity|exact HR].
Qed.

Lemma Forall2_snoc {A B} (P : A -> B -> Prop) l1 l2 a b :
  Forall2 P l1 l2 -> P a b -> Forall2 P (l1 ++ [a]) (l2 ++ [b]).
Proof. intros H Hab. apply Forall2_app; [exact H|]. constructor; [exact Hab|constructor]. Qed.

Lemma step_newctx c s mo d : Rc c s mo -> step_good c s mo (NewCtx d).
Proof.
  intros [Ha Hf]. unfold step_good. cbn [step]. unfold do_newctx. cbn [fst snd]. split.
  - cbn [p_step]. rewrite !Z.eqb_refl. reflexivity.
  - unfold mon_step. cbn [tl_step]. split.
    + cbn [mo_tl]. eapply acct_clock_of; [|exact Ha]. reflexivity.
    + cbn [set_ctxs s_now s_ctxs mo_ctxs]. apply Forall2_snoc; [exact Hf|].
      destruct Ha as (Ha1 & Ha2 & Ha3 & Ha4).
      unfold ctx_rel. rel_fields. cbn [b_T0 b_U0 b_d]. fin.
Qed.

Lemma step_other_frame c s e :
  target e = None -> (forall d, e <> NewCtx d) ->
  s_ctxs (fst (step c s e)) = s_ctxs s /\ s_now s <= s_now (fst (step c s e)).
Proof.
  assert (Hrefl : s_ctxs s = s_ctxs s /\ s_now s <= s_now s) by (split; [reflexivity|lia]).
  intros Ht Hn. destruct e; try discriminate; cbn [step fst].
  - split; [reflexivity|]. cbn [do_advance s_now]. lia.
  - exact Hrefl.
  - unfold do_resume. destruct (s_cnt s); exact Hrefl.
  - exfalso. eapply Hn. reflexivity.
  - unfold do_storage, do_resume, do_advance, do_suspend. cbn [s_cnt fst s_ctxs s_now]. split; [reflexivity|lia].
  - exact Hrefl.
  - unfold do_tarm. destruct (nth_error (s_tmrs s) id) as [t|]; [|exact Hrefl].
    destruct (t_phase t); [|exact Hrefl..]. destruct (t_stopreq t); exact Hrefl.
  - unfold do_tfire. destruct (nth_error (s_tmrs s) id) as [t|]; [|exact Hrefl].
    destruct (t_phase t) as [d|dl|]; [exact Hrefl| |exact Hrefl].
    destruct ((dl <=? tf) && (tf <=? s_now s)); [|exact Hrefl].
    destruct (t_final t - total_at s tf <? thr c); exact Hrefl.
  - unfold do_tmaxfire. destruct (nth_error (s_tmrs s) id) as [t|]; [|exact Hrefl].
    destruct (t_phase t) as [d|dl|]; [exact Hrefl| |exact Hrefl].
    destruct ((t_maxdl t <=? tf) && (tf <=? s_now s)); exact Hrefl.
  - unfold do_tstop. destruct (nth_error (s_tmrs s) id) as [t|]; [|exact Hrefl].
    destruct (t_open t); [|exact Hrefl]. destruct (t_phase t); exact Hrefl.
Qed.

Lemma tl_uns_mono t e : tl_uns t <= tl_uns (tl_step t e).
Proof.
  destruct e; cbn [tl_step tl_uns]; try lia. destruct (Nat.eqb (tl_cnt t) 0); lia.
Qed.

(* events that are not about a context leave the context part of the relation alone *)
Lemma other_Rc c s mo e o :
  target e = None -> (forall d, e <> NewCtx d) -> Rc c s mo ->
  Rc c (fst (step c s e)) (mon_step c mo e o).
Proof.
  intros Ht Hn [Ha Hf].
  destruct (step_other_frame c s e Ht Hn) as [Hc Hnow].
  unfold mon_step, Rc. cbn [mo_tl mo_ctxs]. split.
  - apply acct_step. exact Ha.
  - assert (Hcs : ctxs_step c (mo_tl mo) (mo_ctxs mo) e o = mo_ctxs mo).
    { unfold ctxs_step. rewrite Ht. destruct e; try reflexivity. exfalso. eapply Hn. reflexivity. }
    rewrite Hcs, Hc. eapply Forall2_impl; [|exact Hf].
    intros a b. apply ctx_rel_mono; [exact Hnow|apply tl_uns_mono].
Qed.

Lemma ctx_step_Rc c s mo e : Rc c s mo -> Rc c (fst (step c s e)) (mon_step c mo e (snd (step c s e))).
Proof.
  intros HR. destruct e;
    try (apply other_Rc; [reflexivity|discriminate|exact HR]).
  - apply step_newctx, HR.
  - apply step_arm, HR.
  - apply step_fire, HR.
  - apply step_cancel, HR.
  - apply step_expire, HR.
Qed.

Lemma ctx_step_p c s mo e :
  Rc c s mo -> (exists id, target e = Some id) \/ (exists d, e = NewCtx d) ->
  p_step c mo e (snd (step c s e)) = "".
Proof.
  intros HR [[id Ht]|[d ->]].
  - destruct e; try discriminate.
    + apply step_arm, HR.
    + apply step_fire, HR.
    + apply step_cancel, HR.
    + apply step_expire, HR.
  - apply step_newctx, HR.
Qed.

(* ---- timers: the same simulation ---------------------------------------------------------------- *)

Definition tmr_rel (c : cfg) (now : Z) (t : tmro) (m : mtmr) : Prop :=
  t_final t = mt_U0 m + mt_d m /\ t_maxdl t = mt_T0 m + mt_d m + maxSusp c /\
  mt_T0 m <= now /\
  t_open t = negb (mt_stopped m || mt_delivered m) /\ t_stopreq t = mt_stopped m /\
  match t_phase t with
  | TArming d' =>
    mt_parked m = true /\ mt_delivered m = false /\
    mt_T0 m + mt_d m + Z.of_nat (mt_rearms m) * thr c <= now + d'
  | TArmed dl =>
    mt_parked m = false /\ mt_delivered m = false /\ mt_stopped m = false /\
    mt_T0 m + mt_d m + Z.of_nat (mt_rearms m) * thr c <= dl
  | TFinished => mt_parked m = false /\ (mt_stopped m = true \/ mt_delivered m = true)
  end.

Definition Rt (c : cfg) (s : state) (mo : mon) : Prop :=
  Forall2 (tmr_rel c (s_now s)) (s_tmrs s) (mo_tmrs mo).

Definition R (c : cfg) (s : state) (mo : mon) : Prop := Rc c s mo /\ Rt c s mo.

Lemma tmr_rel_mono c now now' t m : now <= now' -> tmr_rel c now t m -> tmr_rel c now' t m.
Proof.
  unfold tmr_rel. intros Hle (H1 & H2 & H3 & H4 & H5 & H9).
  repeat (split; [first [assumption | lia]|]).
  destruct (t_phase t); [|exact H9|exact H9].
  destruct H9 as (Ha & Hb & Hc). repeat split; auto. lia.
Qed.

Lemma R_init c : R c init mon0.
Proof. split; [apply Rc_init|constructor]. Qed.

Definition is_timer_event (e : event) : bool :=
  match e with TNew _ | TArm _ | TFire _ _ | TMaxFire _ _ | TStop _ => true | _ => false end.

Lemma tmrs_frame c s e :
  is_timer_event e = false ->
  s_tmrs (fst (step c s e)) = s_tmrs s /\ s_now s <= s_now (fst (step c s e)).
Proof.
  assert (Hrefl : s_tmrs s = s_tmrs s /\ s_now s <= s_now s) by (split; [reflexivity|lia]).
  intros Ht. destruct e; try discriminate; cbn [step fst].
  - split; [reflexivity|]. cbn [do_advance s_now]. lia.
  - exact Hrefl.
  - unfold do_resume. destruct (s_cnt s); exact Hrefl.
  - exact Hrefl.
  - unfold do_arm, base_done. destruct (nth_error (s_ctxs s) id) as [x|]; [|exact Hrefl].
    destruct (x_phase x); [|exact Hrefl..]. destruct (x_berr x); exact Hrefl.
  - unfold do_fire. destruct (nth_error (s_ctxs s) id) as [x|]; [|exact Hrefl].
    destruct (x_phase x) as [d|dl|]; [exact Hrefl| |exact Hrefl].
    destruct ((dl <=? tf) && (tf <=? s_now s)); [|exact Hrefl].
    destruct (x_final x - total_at s tf <? thr c); exact Hrefl.
  - unfold do_cancel, base_stop, base_done. destruct (nth_error (s_ctxs s) id) as [x|]; [|exact Hrefl].
    destruct (x_phase x); exact Hrefl.
  - unfold do_expire, base_stop, base_done. destruct (nth_error (s_ctxs s) id) as [x|]; [|exact Hrefl].
    destruct (x_basedl x <=? s_now s); [|exact Hrefl]. destruct (x_phase x); exact Hrefl.
  - unfold do_storage, do_resume, do_advance, do_suspend. cbn [s_cnt fst s_tmrs s_now]. split; [reflexivity|lia].
Qed.

Lemma other_Rt c s mo e o :
  is_timer_event e = false -> Rt c s mo -> Rt c (fst (step c s e)) (mon_step c mo e o).
Proof.
  intros Ht Hf. destruct (tmrs_frame c s e Ht) as [Hc Hnow].
  unfold Rt, mon_step. cbn [mo_tmrs].
  assert (Hts : tmrs_step (mo_tl mo) (mo_tmrs mo) e o = mo_tmrs mo).
  { unfold tmrs_step. destruct e; try discriminate; reflexivity. }
  rewrite Hts, Hc. eapply Forall2_impl; [|exact Hf]. intros a b. apply tmr_rel_mono. exact Hnow.
Qed.

Definition tstep_good c s mo e :=
  p_step c mo e (snd (step c s e)) = "" /\
  Rt c (fst (step c s e)) (mon_step c mo e (snd (step c s e))).

Ltac trel_cbn :=
  cbn [tnote with_tphase finished_closed t_final t_maxdl t_open t_stopreq t_phase
       mt_birth mt_parked mt_stopped mt_delivered mt_rearms].
Ltac trel_fields := trel_cbn; unfold mt_T0, mt_U0, mt_d in *; trel_cbn.

Lemma Rt_set c s mo id t' m' :
  Rt c s mo -> tmr_rel c (s_now s) t' m' ->
  Rt c (set_tmrs s (set_nth id t' (s_tmrs s)))
       (mkMon (mo_tl mo) (mo_ctxs mo) (set_nth id m' (mo_tmrs mo))).
Proof.
  intros Hf Hr. unfold Rt. cbn [set_tmrs s_now s_tmrs mo_tmrs]. apply Forall2_set_nth; assumption.
Qed.

Lemma Rt_same c s mo id t m' :
  Rt c s mo -> nth_error (s_tmrs s) id = Some t -> tmr_rel c (s_now s) t m' ->
  Rt c s (mkMon (mo_tl mo) (mo_ctxs mo) (set_nth id m' (mo_tmrs mo))).
Proof.
  intros Hf Hx Hr. unfold Rt. cbn [mo_tmrs].
  rewrite <- (set_nth_same _ _ _ Hx). apply Forall2_set_nth; assumption.
Qed.

Lemma mon_step_ttarget c mo e o id m :
  ttarget e = Some id -> nth_error (mo_tmrs mo) id = Some m ->
  mon_step c mo e o = mkMon (mo_tl mo) (mo_ctxs mo) (set_nth id (tnote m e o) (mo_tmrs mo)).
Proof.
  destruct e; cbn [ttarget]; try discriminate; intros [= ->] Hm; unfold mon_step, ctxs_step, tmrs_step;
    cbn [target ttarget tl_step]; rewrite Hm; destruct mo; reflexivity.
Qed.

Lemma mon_step_ttarget_none c mo e o id :
  ttarget e = Some id -> nth_error (mo_tmrs mo) id = None -> mon_step c mo e o = mo.
Proof.
  destruct e; cbn [ttarget]; try discriminate; intros [= ->] Hm; unfold mon_step, ctxs_step, tmrs_step;
    cbn [target ttarget tl_step]; rewrite Hm; destruct mo; reflexivity.
Qed.

Lemma step_tarm c s mo id : acct s (mo_tl mo) -> Rt c s mo -> tstep_good c s mo (TArm id).
Proof.
  intros Ha Hf. unfold tstep_good. cbn [step]. unfold do_tarm.
  destruct (nth_error (s_tmrs s) id) as [t|] eqn:Hx.
  - destruct (Forall2_nth _ _ _ _ _ Hf Hx) as (m & Hm & Hr).
    cbn [p_step]. rewrite Hm.
    rewrite (mon_step_ttarget c mo (TArm id) _ id m eq_refl Hm).
    destruct Hr as (H1 & H2 & H3 & H4 & H5 & H9).
    destruct (t_phase t) as [d'|dl|] eqn:Hp.
    + destruct H9 as (Hpk & Hdl & Hk).
      destruct (t_stopreq t) eqn:Hs; cbn [fst snd].
      * split.
        -- cbn [p_tstep]. rewrite <- H5. reflexivity.
        -- apply Rt_set; [exact Hf|]. unfold tmr_rel. trel_fields. rewrite ?Hp. fin.
      * split.
        -- cbn [p_tstep]. rewrite <- H5. reflexivity.
        -- apply Rt_set; [exact Hf|]. unfold tmr_rel. trel_fields. rewrite ?Hp. fin.
    + destruct H9 as (Hpk & Hdl & Hst & Hk). cbn [fst snd]. split.
      * cbn [p_tstep]. rewrite Hst. reflexivity.
      * apply (Rt_same _ _ _ _ t); [exact Hf|exact Hx|]. unfold tmr_rel. trel_fields. rewrite ?Hp. fin.
    + destruct H9 as (Hpk & Hend). cbn [fst snd]. split.
      * cbn [p_tstep]. rewrite Hpk, Bool.andb_false_r. reflexivity.
      * apply (Rt_same _ _ _ _ t); [exact Hf|exact Hx|]. unfold tmr_rel. trel_fields. rewrite ?Hp. fin.
  - pose proof (Forall2_nth_none _ _ _ _ Hf Hx) as Hm. cbn [p_step fst snd]. rewrite Hm.
    rewrite (mon_step_ttarget_none c mo (TArm id) _ id eq_refl Hm). split; [reflexivity|exact Hf].
Qed.

Lemma p_trearm_ok c t m tf d' :
  mt_delivered m = false -> mt_stopped m = false -> thr c <= d' ->
  mt_d m - (tl_uns t - mt_U0 m) <= d' -> d' <= mt_d m - (tl_uns t - mt_U0 m) + (tl_now t - tf) ->
  Z.of_nat (mt_rearms m) * thr c <= tl_now t - mt_T0 m - mt_d m ->
  p_trearm c t m tf d' = "".
Proof.
  intros Hd Hs H1 H2 H3 H4. unfold p_trearm. rewrite Hd, Hs. cbn [orb].
  destruct (d' <? thr c) eqn:E1; [lia|].
  destruct ((mt_d m - (tl_uns t - mt_U0 m) <=? d') && (d' <=? mt_d m - (tl_uns t - mt_U0 m) + (tl_now t - tf))) eqn:E2; [|lia].
  cbn [negb].
  destruct (Z.of_nat (mt_rearms m) * thr c <=? tl_now t - mt_T0 m - mt_d m) eqn:E3; [reflexivity|lia].
Qed.

Lemma step_tfire c s mo id tf : acct s (mo_tl mo) -> Rt c s mo -> tstep_good c s mo (TFire id tf).
Proof.
  intros Ha Hf. unfold tstep_good. cbn [step]. unfold do_tfire.
  destruct (nth_error (s_tmrs s) id) as [t|] eqn:Hx.
  - destruct (Forall2_nth _ _ _ _ _ Hf Hx) as (m & Hm & Hr).
    cbn [p_step]. rewrite Hm.
    rewrite (mon_step_ttarget c mo (TFire id tf) _ id m eq_refl Hm).
    assert (Hquiet : p_tstep c (mo_tl mo) m (TFire id tf) ONone = "" /\
                     Rt c s (mkMon (mo_tl mo) (mo_ctxs mo) (set_nth id (tnote m (TFire id tf) ONone) (mo_tmrs mo)))).
    { split; [reflexivity|]. apply (Rt_same _ _ _ _ t); [exact Hf|exact Hx|].
      destruct m. exact Hr. }
    destruct Hr as (H1 & H2 & H3 & H4 & H5 & H9).
    destruct (t_phase t) as [d'|dl|] eqn:Hp; [exact Hquiet| |exact Hquiet].
    destruct ((dl <=? tf) && (tf <=? s_now s)) eqn:Een; [|exact Hquiet].
    clear Hquiet. destruct H9 as (Hpk & Hdl & Hst & Hk).
    pose proof (total_at_bounds s (mo_tl mo) tf Ha ltac:(lia)) as Hb.
    destruct Ha as (Ha1 & Ha2 & Ha3 & Ha4).
    destruct (t_final t - total_at s tf <? thr c) eqn:Ethr; cbn [fst snd].
    + split.
      * cbn [p_tstep]. unfold p_tdeliver. rewrite Hdl, Hst, Z.eqb_refl. cbn [negb].
        unfold mt_U0, mt_d in *.
        destruct (b_d (mt_birth m) - thr c <? tl_uns (mo_tl mo) - b_U0 (mt_birth m)) eqn:E; [reflexivity|lia].
      * apply Rt_set; [exact Hf|]. unfold tmr_rel. trel_fields. rewrite ?Hst, ?Hdl. fin.
    + split.
      * cbn [p_tstep]. apply p_trearm_ok; trel_fields; fin.
      * apply Rt_set; [exact Hf|]. unfold tmr_rel. trel_fields. rewrite ?Hp. fin.
  - pose proof (Forall2_nth_none _ _ _ _ Hf Hx) as Hm. cbn [p_step fst snd]. rewrite Hm.
    rewrite (mon_step_ttarget_none c mo (TFire id tf) _ id eq_refl Hm). split; [reflexivity|exact Hf].
Qed.

Lemma step_tmaxfire c s mo id tf : acct s (mo_tl mo) -> Rt c s mo -> tstep_good c s mo (TMaxFire id tf).
Proof.
  intros Ha Hf. unfold tstep_good. cbn [step]. unfold do_tmaxfire.
  destruct (nth_error (s_tmrs s) id) as [t|] eqn:Hx.
  - destruct (Forall2_nth _ _ _ _ _ Hf Hx) as (m & Hm & Hr).
    cbn [p_step]. rewrite Hm.
    rewrite (mon_step_ttarget c mo (TMaxFire id tf) _ id m eq_refl Hm).
    assert (Hquiet : p_tstep c (mo_tl mo) m (TMaxFire id tf) ONone = "" /\
                     Rt c s (mkMon (mo_tl mo) (mo_ctxs mo) (set_nth id (tnote m (TMaxFire id tf) ONone) (mo_tmrs mo)))).
    { split; [reflexivity|]. apply (Rt_same _ _ _ _ t); [exact Hf|exact Hx|].
      destruct m. exact Hr. }
    destruct Hr as (H1 & H2 & H3 & H4 & H5 & H9).
    destruct (t_phase t) as [d'|dl|] eqn:Hp; [exact Hquiet| |exact Hquiet].
    destruct ((t_maxdl t <=? tf) && (tf <=? s_now s)) eqn:Een; [|exact Hquiet].
    clear Hquiet. destruct H9 as (Hpk & Hdl & Hst & Hk).
    destruct Ha as (Ha1 & Ha2 & Ha3 & Ha4). cbn [fst snd]. split.
    + cbn [p_tstep]. unfold p_tdeliver. rewrite Hdl, Hst, Z.eqb_refl. cbn [negb].
      unfold mt_T0, mt_d in *.
      destruct (b_T0 (mt_birth m) + b_d (mt_birth m) + maxSusp c <=? tl_now (mo_tl mo)) eqn:E; [reflexivity|lia].
    + apply Rt_set; [exact Hf|]. unfold tmr_rel. trel_fields. rewrite ?Hst, ?Hdl. fin.
  - pose proof (Forall2_nth_none _ _ _ _ Hf Hx) as Hm. cbn [p_step fst snd]. rewrite Hm.
    rewrite (mon_step_ttarget_none c mo (TMaxFire id tf) _ id eq_refl Hm). split; [reflexivity|exact Hf].
Qed.

Lemma step_tstop c s mo id : acct s (mo_tl mo) -> Rt c s mo -> tstep_good c s mo (TStop id).
Proof.
  intros Ha Hf. unfold tstep_good. cbn [step]. unfold do_tstop.
  destruct (nth_error (s_tmrs s) id) as [t|] eqn:Hx.
  - destruct (Forall2_nth _ _ _ _ _ Hf Hx) as (m & Hm & Hr).
    cbn [p_step]. rewrite Hm.
    rewrite (mon_step_ttarget c mo (TStop id) _ id m eq_refl Hm).
    pose proof Hr as (H1 & H2 & H3 & H4 & H5 & H9).
    destruct (t_open t) eqn:Hop.
    + assert (Hsd : mt_stopped m = false /\ mt_delivered m = false) by (destruct (mt_stopped m), (mt_delivered m); cbn in H4; auto; discriminate).
      destruct Hsd as [Hst Hdl].
      destruct (t_phase t) as [d'|dl|] eqn:Hp; cbn [fst snd].
      * destruct H9 as (Hpk & _ & Hk). split.
        -- cbn [p_tstep]. rewrite Hst, Hdl, Hpk. reflexivity.
        -- apply Rt_set; [exact Hf|]. unfold tmr_rel. trel_fields. rewrite ?Hdl. fin.
      * destruct H9 as (Hpk & _ & _ & Hk). split.
        -- cbn [p_tstep]. rewrite Hst, Hdl, Hpk. reflexivity.
        -- apply Rt_set; [exact Hf|]. unfold tmr_rel. trel_fields. rewrite ?Hdl. fin.
      * destruct H9 as (_ & [Hc|Hc]); congruence.
    + cbn [fst snd].
      assert (Hsd : mt_stopped m || mt_delivered m = true) by (destruct (mt_stopped m || mt_delivered m); cbn in H4; congruence).
      split.
      * cbn [p_tstep]. rewrite Hsd. reflexivity.
      * apply (Rt_same _ _ _ _ t); [exact Hf|exact Hx|]. destruct m. exact Hr.
  - pose proof (Forall2_nth_none _ _ _ _ Hf Hx) as Hm. cbn [p_step fst snd]. rewrite Hm.
    rewrite (mon_step_ttarget_none c mo (TStop id) _ id eq_refl Hm). split; [reflexivity|exact Hf].
Qed.

Lemma step_tnew c s mo d : acct s (mo_tl mo) -> Rt c s mo -> tstep_good c s mo (TNew d).
Proof.
  intros Ha Hf. unfold tstep_good. cbn [step]. unfold do_tnew. cbn [fst snd]. split.
  - cbn [p_step]. rewrite !Z.eqb_refl. reflexivity.
  - unfold Rt, mon_step, tmrs_step. cbn [set_tmrs s_now s_tmrs mo_tmrs].
    apply Forall2_snoc; [exact Hf|].
    destruct Ha as (Ha1 & Ha2 & Ha3 & Ha4).
    unfold tmr_rel. trel_fields. cbn [b_T0 b_U0 b_d]. fin.
Qed.

Lemma step_ok c s mo e : R c s mo -> p_step c mo e (snd (step c s e)) = "" /\ R c (fst (step c s e)) (mon_step c mo e (snd (step c s e))).
Proof.
  intros [HRc HRt]. pose proof HRc as [Ha _].
  pose proof (ctx_step_Rc c s mo e HRc) as HRc'.
  destruct e.
  - split; [reflexivity|]. split; [exact HRc'|]. apply other_Rt; [reflexivity|exact HRt].
  - split; [reflexivity|]. split; [exact HRc'|]. apply other_Rt; [reflexivity|exact HRt].
  - split; [reflexivity|]. split; [exact HRc'|]. apply other_Rt; [reflexivity|exact HRt].
  - split; [apply ctx_step_p; [exact HRc|right; eexists; reflexivity]|]. split; [exact HRc'|]. apply other_Rt; [reflexivity|exact HRt].
  - split; [apply ctx_step_p; [exact HRc|left; eexists; reflexivity]|]. split; [exact HRc'|]. apply other_Rt; [reflexivity|exact HRt].
  - split; [apply ctx_step_p; [exact HRc|left; eexists; reflexivity]|]. split; [exact HRc'|]. apply other_Rt; [reflexivity|exact HRt].
  - split; [apply ctx_step_p; [exact HRc|left; eexists; reflexivity]|]. split; [exact HRc'|]. apply other_Rt; [reflexivity|exact HRt].
  - split; [apply ctx_step_p; [exact HRc|left; eexists; reflexivity]|]. split; [exact HRc'|]. apply other_Rt; [reflexivity|exact HRt].
  - split; [cbn [step snd do_storage p_step]; destruct k; reflexivity|]. split; [exact HRc'|]. apply other_Rt; [reflexivity|exact HRt].
  - destruct (step_tnew c s mo d Ha HRt) as [Hp Ht]. split; [exact Hp|]. split; assumption.
  - destruct (step_tarm c s mo id Ha HRt) as [Hp Ht]. split; [exact Hp|]. split; assumption.
  - destruct (step_tfire c s mo id tf Ha HRt) as [Hp Ht]. split; [exact Hp|]. split; assumption.
  - destruct (step_tmaxfire c s mo id tf Ha HRt) as [Hp Ht]. split; [exact Hp|]. split; assumption.
  - destruct (step_tstop c s mo id Ha HRt) as [Hp Ht]. split; [exact Hp|]. split; assumption.
Qed.

Lemma trace_ok_from_R c evs : forall s mo, R c s mo -> trace_ok_from c mo (trace_from c s evs) = true.
Proof.
  induction evs as [|e r IH]; intros s mo HR; cbn [trace_from trace_ok_from]; [reflexivity|].
  destruct (step_ok c s mo e HR) as [Hp HR']. rewrite Hp. cbn [String.eqb andb].
  apply IH. exact HR'.
Qed.

Lemma monitor_accepts_model_lemma : forall c evs, trace_ok c (trace c evs) = true.
Proof. intros c evs. apply trace_ok_from_R. apply R_init. Qed.
