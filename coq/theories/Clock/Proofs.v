(* Proofs about the suspendable clock model. *)
From Coq Require Import Lia ZifyBool ZifyN ZifyNat.
From VF Require Import Clock.Model Clock.Spec.
Open Scope Z_scope.

(* ---- accounting: the clock's fields against true unsuspended time ---------- *)

Definition acct (s : state) (t : tl) : Prop :=
  s_now s = tl_now t /\ s_cnt s = tl_cnt t /\ s_ustart s <= s_now s /\ total_now s = tl_uns t.

(* step leaves the clock fields alone except for the four clock events *)
Definition clock_of (s : state) := (s_now s, s_cnt s, s_ustart s, s_total s).

Lemma acct_clock_of s s' t : clock_of s = clock_of s' -> acct s t -> acct s' t.
Proof.
  unfold clock_of, acct, total_now. intros [= H1 H2 H3 H4]. rewrite H1, H2, H3, H4. auto.
Qed.

Lemma do_arm_clock s id : clock_of (fst (do_arm s id)) = clock_of s.
Proof.
  unfold do_arm, base_done. destruct (nth_error (s_ctxs s) id) as [x|]; [|reflexivity].
  destruct (x_phase x); [|reflexivity..]. destruct (x_berr x); reflexivity.
Qed.

Lemma do_fire_clock c s id tf : clock_of (fst (do_fire c s id tf)) = clock_of s.
Proof.
  unfold do_fire. destruct (nth_error (s_ctxs s) id) as [x|]; [|reflexivity].
  destruct (x_phase x) as [d|dl|]; [reflexivity| |reflexivity].
  destruct ((dl <=? tf) && (tf <=? s_now s)); [|reflexivity].
  destruct (x_final x - total_at s tf <? thr c); reflexivity.
Qed.

Lemma base_stop_clock s id x e : clock_of (fst (base_stop s id x e)) = clock_of s.
Proof. unfold base_stop, base_done. cbn [x_phase with_berr]. destruct (x_phase x); reflexivity. Qed.

Lemma do_cancel_clock s id : clock_of (fst (do_cancel s id)) = clock_of s.
Proof.
  unfold do_cancel. destruct (nth_error (s_ctxs s) id) as [x|]; [|reflexivity]. apply base_stop_clock.
Qed.

Lemma do_expire_clock s id : clock_of (fst (do_expire s id)) = clock_of s.
Proof.
  unfold do_expire. destruct (nth_error (s_ctxs s) id) as [x|]; [|reflexivity].
  destruct (x_basedl x <=? s_now s); [apply base_stop_clock|reflexivity].
Qed.

Lemma do_tarm_clock s id : clock_of (fst (do_tarm s id)) = clock_of s.
Proof.
  unfold do_tarm. destruct (nth_error (s_tmrs s) id) as [x|]; [|reflexivity].
  destruct (t_phase x); [|reflexivity..]. destruct (t_stopreq x); reflexivity.
Qed.

Lemma do_tfire_clock c s id tf : clock_of (fst (do_tfire c s id tf)) = clock_of s.
Proof.
  unfold do_tfire. destruct (nth_error (s_tmrs s) id) as [x|]; [|reflexivity].
  destruct (t_phase x) as [d|dl|]; [reflexivity| |reflexivity].
  destruct ((dl <=? tf) && (tf <=? s_now s)); [|reflexivity].
  destruct (t_final x - total_at s tf <? thr c); reflexivity.
Qed.

Lemma do_tmaxfire_clock s id tf : clock_of (fst (do_tmaxfire s id tf)) = clock_of s.
Proof.
  unfold do_tmaxfire. destruct (nth_error (s_tmrs s) id) as [x|]; [|reflexivity].
  destruct (t_phase x) as [d|dl|]; [reflexivity| |reflexivity].
  destruct ((t_maxdl x <=? tf) && (tf <=? s_now s)); reflexivity.
Qed.

Lemma do_tstop_clock s id : clock_of (fst (do_tstop s id)) = clock_of s.
Proof.
  unfold do_tstop. destruct (nth_error (s_tmrs s) id) as [x|]; [|reflexivity].
  destruct (t_open x); [|reflexivity]. destruct (t_phase x); reflexivity.
Qed.

Lemma acct_suspend s t : acct s t -> acct (do_suspend s) (tl_step t Suspend).
Proof.
  unfold acct, do_suspend, total_now. cbn [s_now s_cnt s_ustart s_total tl_step tl_now tl_cnt tl_uns].
  intros (H1 & H2 & H3 & H4). rewrite <- H2. cbn [Nat.eqb]. auto.
Qed.

Lemma acct_advance s t dt : acct s t -> acct (do_advance s dt) (tl_step t (Advance dt)).
Proof.
  unfold acct, do_advance, total_now. cbn [s_now s_cnt s_ustart s_total tl_step tl_now tl_cnt tl_uns].
  intros (H1 & H2 & H3 & H4). rewrite <- H2.
  destruct (Nat.eqb (s_cnt s) 0) eqn:E; lia.
Qed.

Lemma acct_resume s t : acct s t -> acct (fst (do_resume s)) (tl_step t Resume).
Proof.
  unfold acct, do_resume, total_now. intros (H1 & H2 & H3 & H4).
  cbn [tl_step tl_now tl_cnt tl_uns]. rewrite <- H2.
  destruct (s_cnt s) as [|n] eqn:E; cbn [fst s_now s_cnt s_ustart s_total Nat.pred].
  - rewrite E. cbn [Nat.eqb] in *. auto.
  - cbn [Nat.eqb] in H4. destruct (Nat.eqb n 0) eqn:E2; lia.
Qed.

Lemma acct_step c s t e : acct s t -> acct (fst (step c s e)) (tl_step t e).
Proof.
  intros H. destruct e; cbn [step fst].
  - now apply acct_advance.
  - now apply acct_suspend.
  - now apply acct_resume.
  - cbn [tl_step]. eapply acct_clock_of; [|exact H]. reflexivity.
  - cbn [tl_step]. eapply acct_clock_of; [|exact H]. symmetry. apply do_arm_clock.
  - cbn [tl_step]. eapply acct_clock_of; [|exact H]. symmetry. apply do_fire_clock.
  - cbn [tl_step]. eapply acct_clock_of; [|exact H]. symmetry. apply do_cancel_clock.
  - cbn [tl_step]. eapply acct_clock_of; [|exact H]. symmetry. apply do_expire_clock.
  - (* Storage = Suspend; Advance; Resume *)
    unfold do_storage. cbn [fst].
    pose proof (acct_resume _ _ (acct_advance _ _ dt (acct_suspend _ _ H))) as H'.
    revert H'. unfold acct. cbn [tl_step tl_now tl_cnt tl_uns Nat.pred Nat.eqb]. auto.
  - cbn [tl_step]. eapply acct_clock_of; [|exact H]. reflexivity.
  - cbn [tl_step]. eapply acct_clock_of; [|exact H]. symmetry. apply do_tarm_clock.
  - cbn [tl_step]. eapply acct_clock_of; [|exact H]. symmetry. apply do_tfire_clock.
  - cbn [tl_step]. eapply acct_clock_of; [|exact H]. symmetry. apply do_tmaxfire_clock.
  - cbn [tl_step]. eapply acct_clock_of; [|exact H]. symmetry. apply do_tstop_clock.
Qed.

Lemma acct_run_from c evs : forall s t, acct s t -> acct (run_from c s evs) (timeline_from t evs).
Proof.
  induction evs as [|e r IH]; intros s t H; cbn [run_from timeline_from fold_left]; [exact H|].
  apply IH. now apply acct_step.
Qed.

Lemma acct_init : acct init tl0.
Proof. unfold acct, init, tl0, total_now. cbn. lia. Qed.

Lemma accounting_exact_lemma : forall c evs,
  let s := run c evs in let t := timeline evs in
  s_now s = tl_now t /\ s_cnt s = tl_cnt t /\
  s_total s + (if Nat.eqb (s_cnt s) 0 then s_now s - s_ustart s else 0) = tl_uns t.
Proof.
  intros c evs s t. destruct (acct_run_from c evs init tl0 acct_init) as (H1 & H2 & H3 & H4).
  fold (run c evs) in *. fold (timeline evs) in *. fold s in H1, H2, H3, H4. fold t in H1, H2, H3, H4.
  split; [exact H1|]. split; [exact H2|]. unfold total_now in H4.
  destruct (Nat.eqb (s_cnt s) 0); lia.
Qed.
