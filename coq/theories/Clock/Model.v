(* Model of pkg/clock/suspendable_clock.go (SuspendableClock: Suspend,
   Resume, NewContextWithTimeout, NewTimer) and of the Suspend/Resume
   bracketing done by pkg/blobstore/suspending_blob_access.go and
   pkg/cas/suspending_directory_fetcher.go.

   All times and durations are integer nanoseconds (Z); the base clock is
   the field [s_now], which only moves through [Advance], so every event
   list is a monotone timeline.  One event is one critical section of the
   real code (the statements executed between acquiring and releasing
   SuspendableClock.lock) or one action of the environment (base timer
   fires, base context is cancelled / expires, a storage call runs).

   A context created by NewContextWithTimeout owns one goroutine.  Its
   continuation is the [phase]:
     PArming d  - it has released the lock and is about to call
                  base.NewTimer(d) (in the harness: parked inside the fake);
     PArmed dl  - it sleeps in the select; the base timer's deadline is dl;
     PDone      - it closed the Done() channel and returned.
   The base context (created with timeout d + maximumSuspension) is the
   pair (x_basedl, x_berr). *)
From Coq Require Export List NArith ZArith Bool.
Export ListNotations.
Open Scope Z_scope.

Record cfg := mkCfg { maxSusp : Z; thr : Z }.

Inductive berr := ENone | ECanceled | EDeadline.

Definition berr_eqb (a b : berr) : bool :=
  match a, b with
  | ENone, ENone | ECanceled, ECanceled | EDeadline, EDeadline => true
  | _, _ => false
  end.

Inductive phase := PArming (d : Z) | PArmed (dl : Z) | PDone.

Record ctxo := mkCtx {
  x_initial : Z;      (* initialTotalUnsuspended *)
  x_final : Z;        (* finalTotalUnsuspended *)
  x_basedl : Z;       (* deadline of the base context *)
  x_berr : berr;      (* baseContext.Err() *)
  x_phase : phase }.

(* SuspendableClock.NewTimer: same loop plus the maximum suspension timer
   and the stop channel. *)
Inductive tphase := TArming (d : Z) | TArmed (dl : Z) | TFinished.

Record tmro := mkTmr {
  t_final : Z;        (* finalTotalUnsuspended *)
  t_maxdl : Z;        (* deadline of maximumSuspensionTimer *)
  t_open : bool;      (* t.stopChannel != nil *)
  t_stopreq : bool;   (* stop channel closed by Stop() *)
  t_phase : tphase }.

(* Storage methods wrapped by the suspending decorators. *)
Inductive skind :=
| KGet | KGetFromComposite | KPut | KFindMissing | KGetCapabilities
| KGetDirectory | KGetTreeRootDirectory | KGetTreeChildDirectory.

Inductive event :=
| Advance (dt : N)
| Suspend
| Resume
| NewCtx (d : Z)
| Arm (id : nat)
| Fire (id : nat) (tf : Z)
| Cancel (id : nat)
| BaseExpire (id : nat)
| Storage (k : skind) (fail lzy : bool) (dt : N)
| TNew (d : Z)
| TArm (id : nat)
| TFire (id : nat) (tf : Z)
| TMaxFire (id : nat) (tf : Z)
| TStop (id : nat).

Inductive out :=
| ONone
| OPanic                               (* Resume without Suspend *)
| ONew (reqBase reqTimer : Z)          (* timeouts requested from the base clock *)
| ORearm (d : Z)                       (* loop iterates: base.NewTimer(d) requested *)
| ODone (e : berr) (dur : Z)           (* Done() closed; Err() and Value(UnsuspendedDurationKey) *)
| OStor (sb rb st rt : N)              (* Suspend/Resume calls seen around one storage call *)
| ODeliver (v : Z) (maxStopped baseStopped : bool)   (* value on the timer's result channel *)
| OTStop (ret gone : bool)             (* Stop() result; goroutine exited, both base timers stopped *)
| OTGone.                              (* goroutine exited through the stop branch *)

Record state := mkSt {
  s_now : Z;
  s_cnt : nat;        (* suspensionCount *)
  s_ustart : Z;       (* unsuspensionStart *)
  s_total : Z;        (* totalUnsuspended *)
  s_ctxs : list ctxo;
  s_tmrs : list tmro }.

Definition init : state := mkSt 0 0 0 0 [] [].

(* getTotalUnsuspendedNow / getTotalUnsuspendedWithTime *)
Definition total_now (s : state) : Z :=
  if Nat.eqb (s_cnt s) 0 then s_total s + (s_now s - s_ustart s) else s_total s.

Definition total_at (s : state) (t : Z) : Z :=
  if Nat.eqb (s_cnt s) 0 && (s_ustart s <? t) then s_total s + (t - s_ustart s) else s_total s.

Definition set_ctxs (s : state) (l : list ctxo) : state :=
  mkSt (s_now s) (s_cnt s) (s_ustart s) (s_total s) l (s_tmrs s).

Definition set_tmrs (s : state) (l : list tmro) : state :=
  mkSt (s_now s) (s_cnt s) (s_ustart s) (s_total s) (s_ctxs s) l.

Fixpoint set_nth {A} (n : nat) (x : A) (l : list A) : list A :=
  match l, n with
  | [], _ => []
  | _ :: tl, O => x :: tl
  | y :: tl, S n' => y :: set_nth n' x tl
  end.

Definition do_advance (s : state) (dt : N) : state :=
  mkSt (s_now s + Z.of_N dt) (s_cnt s) (s_ustart s) (s_total s) (s_ctxs s) (s_tmrs s).

Definition do_suspend (s : state) : state :=
  mkSt (s_now s) (S (s_cnt s)) (s_ustart s) (total_now s) (s_ctxs s) (s_tmrs s).

Definition do_resume (s : state) : state * out :=
  match s_cnt s with
  | O => (s, OPanic)
  | S n => (mkSt (s_now s) n (if Nat.eqb n 0 then s_now s else s_ustart s) (s_total s)
                 (s_ctxs s) (s_tmrs s), ONone)
  end.

(* ---- contexts ------------------------------------------------------------ *)

Definition with_phase (x : ctxo) (p : phase) : ctxo :=
  mkCtx (x_initial x) (x_final x) (x_basedl x) (x_berr x) p.

Definition with_berr (x : ctxo) (e : berr) : ctxo :=
  mkCtx (x_initial x) (x_final x) (x_basedl x) e (x_phase x).

Definition do_newctx (c : cfg) (s : state) (d : Z) : state * out :=
  let i := total_now s in
  (set_ctxs s (s_ctxs s ++ [mkCtx i (i + d) (s_now s + (d + maxSusp c)) ENone (PArming d)]),
   ONew (d + maxSusp c) d).

(* the goroutine takes the baseDoneChannel branch *)
Definition base_done (s : state) (id : nat) (x : ctxo) : state * out :=
  (set_ctxs s (set_nth id (with_phase x PDone) (s_ctxs s)),
   ODone (x_berr x) (total_now s - x_initial x)).

Definition do_arm (s : state) (id : nat) : state * out :=
  match nth_error (s_ctxs s) id with
  | Some x =>
    match x_phase x with
    | PArming d =>
      match x_berr x with
      | ENone => (set_ctxs s (set_nth id (with_phase x (PArmed (s_now s + d))) (s_ctxs s)), ONone)
      | _ => base_done s id x
      end
    | _ => (s, ONone)
    end
  | None => (s, ONone)
  end.

Definition do_fire (c : cfg) (s : state) (id : nat) (tf : Z) : state * out :=
  match nth_error (s_ctxs s) id with
  | Some x =>
    match x_phase x with
    | PArmed dl =>
      if (dl <=? tf) && (tf <=? s_now s) then
        let cur := total_at s tf in
        let d := x_final x - cur in
        if d <? thr c
        then (set_ctxs s (set_nth id (with_phase x PDone) (s_ctxs s)),
              ODone EDeadline (cur - x_initial x))
        else (set_ctxs s (set_nth id (with_phase x (PArming d)) (s_ctxs s)), ORearm d)
      else (s, ONone)
    | _ => (s, ONone)
    end
  | None => (s, ONone)
  end.

(* the base context becomes done with error [e] unless it already is *)
Definition base_stop (s : state) (id : nat) (x : ctxo) (e : berr) : state * out :=
  let x' := with_berr x (match x_berr x with ENone => e | e0 => e0 end) in
  match x_phase x with
  | PArmed _ => base_done s id x'
  | _ => (set_ctxs s (set_nth id x' (s_ctxs s)), ONone)
  end.

Definition do_cancel (s : state) (id : nat) : state * out :=
  match nth_error (s_ctxs s) id with
  | Some x => base_stop s id x ECanceled
  | None => (s, ONone)
  end.

Definition do_expire (s : state) (id : nat) : state * out :=
  match nth_error (s_ctxs s) id with
  | Some x => if x_basedl x <=? s_now s then base_stop s id x EDeadline else (s, ONone)
  | None => (s, ONone)
  end.

(* ---- storage calls --------------------------------------------------------- *)

Definition do_storage (s : state) (dt : N) : state * out :=
  (fst (do_resume (do_advance (do_suspend s) dt)), OStor 1 0 1 1).

(* ---- timers ------------------------------------------------------------------ *)

Definition with_tphase (t : tmro) (p : tphase) : tmro :=
  mkTmr (t_final t) (t_maxdl t) (t_open t) (t_stopreq t) p.

Definition do_tnew (c : cfg) (s : state) (d : Z) : state * out :=
  (set_tmrs s (s_tmrs s ++ [mkTmr (total_now s + d) (s_now s + (d + maxSusp c)) true false (TArming d)]),
   ONew (d + maxSusp c) d).

Definition do_tarm (s : state) (id : nat) : state * out :=
  match nth_error (s_tmrs s) id with
  | Some t =>
    match t_phase t with
    | TArming d =>
      if t_stopreq t
      then (set_tmrs s (set_nth id (with_tphase t TFinished) (s_tmrs s)), OTGone)
      else (set_tmrs s (set_nth id (with_tphase t (TArmed (s_now s + d))) (s_tmrs s)), ONone)
    | _ => (s, ONone)
    end
  | None => (s, ONone)
  end.

Definition finished_closed (t : tmro) : tmro :=
  mkTmr (t_final t) (t_maxdl t) false (t_stopreq t) TFinished.

Definition do_tfire (c : cfg) (s : state) (id : nat) (tf : Z) : state * out :=
  match nth_error (s_tmrs s) id with
  | Some t =>
    match t_phase t with
    | TArmed dl =>
      if (dl <=? tf) && (tf <=? s_now s) then
        let d := t_final t - total_at s tf in
        if d <? thr c
        then (set_tmrs s (set_nth id (finished_closed t) (s_tmrs s)), ODeliver tf true false)
        else (set_tmrs s (set_nth id (with_tphase t (TArming d)) (s_tmrs s)), ORearm d)
      else (s, ONone)
    | _ => (s, ONone)
    end
  | None => (s, ONone)
  end.

Definition do_tmaxfire (s : state) (id : nat) (tf : Z) : state * out :=
  match nth_error (s_tmrs s) id with
  | Some t =>
    match t_phase t with
    | TArmed _ =>
      if (t_maxdl t <=? tf) && (tf <=? s_now s)
      then (set_tmrs s (set_nth id (finished_closed t) (s_tmrs s)), ODeliver tf false true)
      else (s, ONone)
    | _ => (s, ONone)
    end
  | None => (s, ONone)
  end.

Definition do_tstop (s : state) (id : nat) : state * out :=
  match nth_error (s_tmrs s) id with
  | Some t =>
    if t_open t then
      match t_phase t with
      | TArmed _ =>
        (set_tmrs s (set_nth id (mkTmr (t_final t) (t_maxdl t) false true TFinished) (s_tmrs s)),
         OTStop true true)
      | p =>
        (set_tmrs s (set_nth id (mkTmr (t_final t) (t_maxdl t) false true p) (s_tmrs s)),
         OTStop true false)
      end
    else (s, OTStop false false)
  | None => (s, ONone)
  end.

(* ---- step ------------------------------------------------------------------------ *)

Definition step (c : cfg) (s : state) (e : event) : state * out :=
  match e with
  | Advance dt => (do_advance s dt, ONone)
  | Suspend => (do_suspend s, ONone)
  | Resume => do_resume s
  | NewCtx d => do_newctx c s d
  | Arm id => do_arm s id
  | Fire id tf => do_fire c s id tf
  | Cancel id => do_cancel s id
  | BaseExpire id => do_expire s id
  | Storage _ _ _ dt => do_storage s dt
  | TNew d => do_tnew c s d
  | TArm id => do_tarm s id
  | TFire id tf => do_tfire c s id tf
  | TMaxFire id tf => do_tmaxfire s id tf
  | TStop id => do_tstop s id
  end.

Fixpoint run_from (c : cfg) (s : state) (evs : list event) : state :=
  match evs with
  | [] => s
  | e :: r => run_from c (fst (step c s e)) r
  end.

Fixpoint trace_from (c : cfg) (s : state) (evs : list event) : list (event * out) :=
  match evs with
  | [] => []
  | e :: r => (e, snd (step c s e)) :: trace_from c (fst (step c s e)) r
  end.

Definition run (c : cfg) (evs : list event) : state := run_from c init evs.
Definition trace (c : cfg) (evs : list event) : list (event * out) := trace_from c init evs.
