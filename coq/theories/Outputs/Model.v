(* Executable model of pkg/builder/output_hierarchy.go (C10).

   Transcribed from the code, not from the intended behaviour:

   - [resolve]: bb-storage path.Resolve over UNIXFormat.NewParser with
     NewRelativeScopeWalker(&outputNodePath{...}): NUL byte => error,
     leading '/' => error, components "" and "." are no-ops, ".." pops the
     component stack and fails on the empty stack (outputNodePath.OnUp),
     every other component is pushed (OnDirectory and OnTerminal both
     append; symlinks are never followed, the resolution is lexical).
   - [norm_target]: what path.Resolve of a symlink target against
     EmptyBuilder.Join(VoidScopeWalker) followed by GetUNIXString yields.
   - [new_hierarchy]: NewOutputHierarchy: only Command.output_paths are
     registered (this snapshot has no code for the legacy output_files /
     output_directories fields; they are ignored).  Go maps whose keys are
     sorted before iteration are association lists kept sorted by key
     ([alter]).
   - [mk_parents]: outputNode.createParentDirectories.
   - [upload]: OutputHierarchy.UploadOutputs; directories are collected in
     post order without repetition ([up_dir], directoriesSeen) and the
     Tree lists them in reverse, the first one tagged as root.

   Digests: the model is parametric in a digest type [D] and a function
   [hash : blob -> D]; the theorems assume it injective (trusted base:
   SHA-256 is collision free).  The correspondence check instantiates it
   with the digest graph observed on the implementation. *)
From Coq Require Export List String Ascii Bool NArith.
Export ListNotations.
Open Scope string_scope.
Open Scope list_scope.   (* ++ is list append; strings use String.append *)

Definition comp := string.

(* ---- strings ------------------------------------------------------------ *)

(* Go's < on strings: byte-wise lexicographic. *)
Fixpoint str_ltb (a b : string) : bool :=
  match a, b with
  | _, EmptyString => false
  | EmptyString, String _ _ => true
  | String x a', String y b' =>
    if N.ltb (N_of_ascii x) (N_of_ascii y) then true
    else if N.ltb (N_of_ascii y) (N_of_ascii x) then false
    else str_ltb a' b'
  end.

Fixpoint has_nul (s : string) : bool :=
  match s with
  | EmptyString => false
  | String c s' => Ascii.eqb c Ascii.zero || has_nul s'
  end.

Definition is_absolute (s : string) : bool :=
  match s with
  | String c _ => Ascii.eqb c "/"
  | EmptyString => false
  end.

(* strings.Split(s, "/"): never empty. *)
Fixpoint split_slash (s : string) : list string :=
  match s with
  | EmptyString => [EmptyString]
  | String c s' =>
    if Ascii.eqb c "/" then EmptyString :: split_slash s'
    else match split_slash s' with
         | x :: r => String c x :: r
         | [] => [String c EmptyString]
         end
  end.

(* ---- path resolution (outputNodePath) ----------------------------------- *)

(* [stk] is the component stack, last component first. *)
Fixpoint walk (stk : list comp) (cs : list string) : option (list comp) :=
  match cs with
  | [] => Some stk
  | c :: cs' =>
    if String.eqb c "" || String.eqb c "." then walk stk cs'
    else if String.eqb c ".." then
      match stk with
      | [] => None
      | _ :: stk' => walk stk' cs'
      end
    else walk (c :: stk) cs'
  end.

Definition resolve (wd : list comp) (s : string) : option (list comp) :=
  if has_nul s then None
  else if is_absolute s then None
  else option_map (@rev comp) (walk (rev wd) (split_slash s)).

(* ---- symlink targets (path.Builder over VoidScopeWalker) ---------------- *)

(* Builder state: components in reverse, suffix. With the void walker no
   component is ever reversible, so ".." is always appended, except
   directly under an absolute root. *)
Fixpoint build (absolute : bool) (rcomps : list string) (suffix : string)
    (cs : list string) : list string * string :=
  match cs with
  | [] => (rcomps, suffix)
  | c :: cs' =>
    if String.eqb c "" || String.eqb c "." then build absolute rcomps suffix cs'
    else if String.eqb c ".." then
      match absolute, rcomps with
      | true, [] => build absolute rcomps suffix cs'
      | _, _ => build absolute (".." :: rcomps) "" cs'
      end
    else match cs' with
         | [] => build absolute (c :: rcomps) "" cs'        (* OnTerminal *)
         | _ => build absolute (c :: rcomps) "/" cs'         (* OnDirectory *)
         end
  end.

Fixpoint join_slash (first : bool) (absolute : bool) (cs : list string) : string :=
  match cs with
  | [] => ""
  | c :: r => String.append (if first && negb absolute then "" else "/")
                            (String.append c (join_slash false absolute r))
  end.

Fixpoint strip_slashes (s : string) : string :=
  match s with
  | String c s' => if Ascii.eqb c "/" then strip_slashes s' else s
  | EmptyString => s
  end.

(* None: path.Resolve returns an error (the target has a NUL byte). *)
Definition norm_target (t : string) : option string :=
  if has_nul t then None
  else
    let absolute := is_absolute t in
    let '(rc, suffix) :=
      if absolute then build true [] "/" (split_slash (strip_slashes t))
      else build false [] "." (split_slash t) in
    Some (String.append (join_slash true absolute (rev rc)) suffix).

(* ---- the file hierarchy the action leaves behind ------------------------ *)

Inductive node :=
| File (exec : bool) (data : string)
| Dir (es : list (string * node))
| Symlink (target : string)
| Special.                            (* socket, FIFO, device: FileTypeOther *)

Definition entries := list (string * node).

Fixpoint lookup {V} (k : string) (l : list (string * V)) : option V :=
  match l with
  | [] => None
  | (k', v) :: r => if String.eqb k k' then Some v else lookup k r
  end.

Fixpoint replace {V} (k : string) (v : V) (l : list (string * V)) : list (string * V) :=
  match l with
  | [] => []
  | (k', v') :: r => if String.eqb k k' then (k', v) :: r else (k', v') :: replace k v r
  end.

(* ---- the output hierarchy (trie of outputNode) -------------------------- *)

Inductive onode :=
| ONode (paths : list (comp * list string)) (subs : list (comp * onode)).

Definition o_paths (t : onode) := match t with ONode p _ => p end.
Definition o_subs (t : onode) := match t with ONode _ s => s end.
Definition empty_onode := ONode [] [].

(* m[k] = f(m[k]) on a map whose keys are iterated in sorted order. *)
Fixpoint alter {V} (dflt : V) (f : V -> V) (k : comp) (l : list (comp * V)) : list (comp * V) :=
  match l with
  | [] => [(k, f dflt)]
  | (k', v) :: r =>
    if String.eqb k k' then (k', f v) :: r
    else if str_ltb k k' then (k, f dflt) :: l
    else (k', v) :: alter dflt f k r
  end.

(* OutputHierarchy.lookup + registration, for a non-empty location. *)
Fixpoint add_path (loc : list comp) (orig : string) (t : onode) : onode :=
  match loc with
  | [] => t
  | [name] => ONode (alter [] (fun l => l ++ [orig]) name (o_paths t)) (o_subs t)
  | c :: rest => ONode (o_paths t) (alter empty_onode (add_path rest orig) c (o_subs t))
  end.

Record command := mkCmd {
  c_wd : string;
  c_paths : list string;         (* Command.output_paths *)
  c_tad : bool }.                (* output_directory_format is DIRECTORY_ONLY or TREE_AND_DIRECTORY *)

Record hierarchy := mkH {
  h_root : onode;
  h_roots : list string;         (* rootsToUpload *)
  h_tad : bool }.

Fixpoint register (wd : list comp) (ps : list string) (root : onode) (roots : list string)
    : option (onode * list string) :=
  match ps with
  | [] => Some (root, roots)
  | p :: ps' =>
    match resolve wd p with
    | None => None
    | Some [] => register wd ps' root (roots ++ [p])
    | Some loc => register wd ps' (add_path loc p root) roots
    end
  end.

Definition new_hierarchy (c : command) : option hierarchy :=
  match resolve [] (c_wd c) with
  | None => None
  | Some wd =>
    match register wd (c_paths c) empty_onode [] with
    | None => None
    | Some (root, roots) => Some (mkH root roots (c_tad c))
    end
  end.

(* ---- CreateParentDirectories -------------------------------------------- *)

(* Mkdir of the in-memory directory: EEXIST if the name is taken (by
   anything), else a new empty directory appended. EEXIST is ignored by
   the caller. *)
Definition mkdir (name : comp) (es : entries) : entries :=
  match lookup name es with
  | Some _ => es
  | None => es ++ [(name, Dir [])]
  end.

(* (ok, resulting directory).  The first error stops the walk; what was
   created until then stays. *)
Fixpoint mk_parents (t : onode) (es : entries) {struct t} : bool * entries :=
  match t with
  | ONode _ subs =>
    (fix go (l : list (comp * onode)) (es : entries) {struct l} : bool * entries :=
       match l with
       | [] => (true, es)
       | (name, child) :: r =>
         let es1 := mkdir name es in
         match o_subs child with
         | [] => go r es1
         | _ :: _ =>
           match lookup name es1 with
           | Some (Dir ces) =>
             let '(ok, ces') := mk_parents child ces in
             let es2 := replace name (Dir ces') es1 in
             if ok then go r es2 else (false, es2)
           | _ => (false, es1)          (* ENOTDIR from EnterParentPopulatableDirectory *)
           end
         end
       end) subs es
  end.

(* ---- UploadOutputs ------------------------------------------------------- *)

Section WithDigest.
Variable D : Type.
Variable D_eqb : D -> D -> bool.

Record file_node := mkFN { fn_name : string; fn_digest : D; fn_exec : bool }.
Record dir_node := mkDN { dn_name : string; dn_digest : D }.
Record sym_node := mkSN { sn_name : string; sn_target : string }.

(* remoteexecution.Directory *)
Record dirmsg := mkDM {
  dm_files : list file_node;
  dm_dirs : list dir_node;
  dm_syms : list sym_node }.

Definition empty_msg := mkDM [] [] [].

(* What gets hashed / stored.  A Tree is the list of its (tag, message)
   records in wire order; tag true = field 1 (root), false = field 2
   (children). *)
Inductive blob :=
| BFile (data : string)
| BDirectory (m : dirmsg)
| BTree (ms : list (bool * dirmsg)).

Variable hash : blob -> D.

Definition hash_msg (m : dirmsg) : D := hash (BDirectory m).

Record out_file := mkOF { of_path : string; of_digest : D; of_exec : bool }.
Record out_dir := mkOD { od_path : string; od_tree : D; od_sorted : bool; od_root : option D }.
Record out_sym := mkOS { os_path : string; os_target : string }.

Record result := mkRes {
  r_files : list out_file;
  r_dirs : list out_dir;
  r_syms : list out_sym;
  r_err : bool;                   (* UploadOutputs returned an error *)
  r_puts : list blob;             (* Tree and Directory objects written to the CAS *)
  r_uploads : list D }.           (* UploadFile calls, in order (digest of the content) *)

Definition empty_result := mkRes [] [] [] false [] [].

(* State of uploadOutputDirectoryState plus what threads through. *)
Record dstate := mkDS {
  ds_dirs : list dirmsg;          (* directories, in append (post) order *)
  ds_uploads : list D;
  ds_err : bool }.

Definition seen (d : D) (dirs : list dirmsg) : bool :=
  existsb (fun m => D_eqb (hash_msg m) d) dirs.

(* Tail of uploadDirectory: marshal, digest, remember unless seen. *)
Definition finish (m : dirmsg) (st : dstate) : D * dstate :=
  let d := hash_msg m in
  (d, if seen d (ds_dirs st) then st
      else mkDS (ds_dirs st ++ [m]) (ds_uploads st) (ds_err st)).

(* Symlink target as reported; None = error to be saved (the target does
   not parse).  Before repo commit 7a7d1a7 the error of path.Resolve was
   dropped and such a symlink was reported with target ".". *)
Definition report_target (t : string) : option string := norm_target t.

(* One directory entry inside uploadDirectory. *)
Fixpoint up_child (name : string) (c : node) (m : dirmsg) (st : dstate) {struct c}
    : dirmsg * dstate :=
  match c with
  | File x data =>
    let d := hash (BFile data) in
    (mkDM (dm_files m ++ [mkFN name d x]) (dm_dirs m) (dm_syms m),
     mkDS (ds_dirs st) (ds_uploads st ++ [d]) (ds_err st))
  | Dir ces =>
    let '(cm, st1) :=
      (fix go (l : entries) (cm : dirmsg) (st : dstate) {struct l} : dirmsg * dstate :=
         match l with
         | [] => (cm, st)
         | (n', c') :: r => let '(cm', st') := up_child n' c' cm st in go r cm' st'
         end) ces empty_msg st in
    let '(d, st2) := finish cm st1 in
    (mkDM (dm_files m) (dm_dirs m ++ [mkDN name d]) (dm_syms m), st2)
  | Symlink t =>
    match report_target t with
    | Some s => (mkDM (dm_files m) (dm_dirs m) (dm_syms m ++ [mkSN name s]), st)
    | None => (m, mkDS (ds_dirs st) (ds_uploads st) true)
    end
  | Special => (m, st)
  end.

Fixpoint up_entries (l : entries) (cm : dirmsg) (st : dstate) : dirmsg * dstate :=
  match l with
  | [] => (cm, st)
  | (n', c') :: r => let '(cm', st') := up_child n' c' cm st in up_entries r cm' st'
  end.

(* uploadDirectory *)
Definition up_dir (es : entries) (st : dstate) : D * dstate :=
  let '(cm, st1) := up_entries es empty_msg st in finish cm st1.

Definition tag_root (ms : list dirmsg) : list (bool * dirmsg) :=
  match ms with
  | [] => []
  | m :: r => (true, m) :: map (pair false) r
  end.

(* uploadOutputDirectoryEntered *)
Definition up_output_dir (tad : bool) (ces : entries) (origs : list string) (r : result) : result :=
  let '(d, st) := up_dir ces (mkDS [] (r_uploads r) (r_err r)) in
  let tree := BTree (tag_root (rev (ds_dirs st))) in
  let td := hash tree in
  mkRes (r_files r)
        (r_dirs r ++ map (fun p => mkOD p td true (if tad then Some d else None)) origs)
        (r_syms r)
        (ds_err st)
        (r_puts r ++ tree :: (if tad then map BDirectory (ds_dirs st) else []))
        (ds_uploads st).

Definition set_err (r : result) : result :=
  mkRes (r_files r) (r_dirs r) (r_syms r) true (r_puts r) (r_uploads r).

(* One (component, declared strings) entry of pathsToUpload. *)
Definition up_path (tad : bool) (es : entries) (name : comp) (origs : list string) (r : result) : result :=
  match lookup name es with
  | None => r                                            (* ENOENT: output absent *)
  | Some (Dir ces) => up_output_dir tad ces origs r
  | Some (File x data) =>
    let d := hash (BFile data) in
    mkRes (r_files r ++ map (fun p => mkOF p d x) origs) (r_dirs r) (r_syms r) (r_err r)
          (r_puts r) (r_uploads r ++ [d])
  | Some (Symlink t) =>
    match report_target t with
    | Some s => mkRes (r_files r) (r_dirs r) (r_syms r ++ map (fun p => mkOS p s) origs) (r_err r)
                      (r_puts r) (r_uploads r)
    | None => set_err r
    end
  | Some Special => set_err r
  end.

Fixpoint up_paths (tad : bool) (es : entries) (l : list (comp * list string)) (r : result) : result :=
  match l with
  | [] => r
  | (name, origs) :: l' => up_paths tad es l' (up_path tad es name origs r)
  end.

(* outputNode.uploadOutputs *)
Fixpoint up_out (tad : bool) (t : onode) (es : entries) (r : result) {struct t} : result :=
  match t with
  | ONode paths subs =>
    let r1 := up_paths tad es paths r in
    (fix go (l : list (comp * onode)) (r : result) {struct l} : result :=
       match l with
       | [] => r
       | (name, child) :: l' =>
         go l' (match lookup name es with
                | Some (Dir ces) => up_out tad child ces r
                | Some _ => set_err r                    (* ENOTDIR is not IsNotExist *)
                | None => r
                end)
       end) subs r1
  end.

(* OutputHierarchy.UploadOutputs on the input root directory [es]. *)
Definition upload (h : hierarchy) (force : bool) (es : entries) : result :=
  let tad := h_tad h || force in
  let r0 := match h_roots h with
            | [] => empty_result
            | _ :: _ => up_output_dir tad es (h_roots h) empty_result
            end in
  up_out tad (h_root h) es r0.

End WithDigest.

Arguments mkFN {D}. Arguments mkDN {D}. Arguments mkDM {D}.
Arguments BFile {D}. Arguments BDirectory {D}. Arguments BTree {D}.
Arguments mkOF {D}. Arguments mkOD {D}. Arguments mkRes {D}.
Arguments fn_name {D}. Arguments fn_digest {D}. Arguments fn_exec {D}.
Arguments dn_name {D}. Arguments dn_digest {D}.
Arguments dm_files {D}. Arguments dm_dirs {D}. Arguments dm_syms {D}.
Arguments of_path {D}. Arguments of_digest {D}. Arguments of_exec {D}.
Arguments od_path {D}. Arguments od_tree {D}. Arguments od_sorted {D}. Arguments od_root {D}.
Arguments r_files {D}. Arguments r_dirs {D}. Arguments r_syms {D}. Arguments r_err {D}.
Arguments r_puts {D}. Arguments r_uploads {D}.
Arguments empty_msg {D}. Arguments empty_result {D}.
Arguments hash_msg {D}. Arguments tag_root {D}.

(* ---- the whole action, as local_build_executor.go sequences it ---------- *)

(* NewOutputHierarchy fails => nothing else happens.  Otherwise parent
   directories are created in the input root [pre]; if that fails the
   action is not run.  Otherwise the action turns the directory into
   [post] (an arbitrary function of what it finds) and the outputs are
   uploaded from there. *)
Inductive run_outcome (D : Type) :=
| Rejected                                         (* invalid working directory / output path *)
| ParentsFailed (mid : entries)
| Ran (mid : entries) (res : result D).
Arguments Rejected {D}. Arguments ParentsFailed {D}. Arguments Ran {D}.

Definition run_action {D} (D_eqb : D -> D -> bool) (hash : blob D -> D)
    (c : command) (force : bool) (pre : entries) (action : entries -> entries) : run_outcome D :=
  match new_hierarchy c with
  | None => Rejected
  | Some h =>
    let '(ok, mid) := mk_parents (h_root h) pre in
    if ok then Ran mid (upload D D_eqb hash h force (action mid))
    else ParentsFailed mid
  end.
