(* The statements of C10 in the vocabulary of Model.v and Spec.v only. *)
From Coq Require Import Lia Permutation.
From VF Require Import Outputs.Model Outputs.Spec Outputs.Proofs Outputs.ProofsTree
  Outputs.ProofsOutputs Outputs.ProofsParents.
Open Scope string_scope.
Open Scope list_scope.

Section Main.
Variable D : Type.
Variable D_eqb : D -> D -> bool.
Variable hash : blob D -> D.
Hypothesis D_eqb_spec : forall a b, D_eqb a b = true <-> a = b.
Hypothesis hash_msg_inj : forall m1 m2 : dirmsg D, hash (BDirectory m1) = hash (BDirectory m2) -> m1 = m2.

(* What a well-described output directory is: the Tree [tms] is well
   formed, its first record is the root, and it describes directory [ces]. *)
Definition tree_describes (tms : list (bool * dirmsg D)) (ces : entries) (root : dirmsg D) : Prop :=
  (exists rest, tms = (true, root) :: rest) /\
  wf_tree D_eqb hash tms = true /\
  denotes D_eqb hash (map snd tms) (Dir ces) (hash_msg hash root) = true.

Lemma tree_wellformed_lemma es uploads err :
  let '(d, st) := up_dir D D_eqb hash es (mkDS D [] uploads err) in
  exists root, d = hash_msg hash root /\ tree_describes (tag_root (rev (ds_dirs D st))) es root.
Proof.
  pose proof (output_tree D D_eqb hash D_eqb_spec hash_msg_inj es uploads err) as H.
  destruct (up_dir D D_eqb hash es (mkDS D [] uploads err)) as [d st].
  destruct H as [Hd [Hr [Hw [Hden _]]]]. exists (msg_of D hash es). split; [exact Hd|].
  split; [exact Hr|]. split; [exact Hw|exact Hden].
Qed.

Lemma tree_msgs_ok ces :
  tree_describes (tree_msgs D D_eqb hash ces) ces (msg_of D hash ces).
Proof.
  pose proof (output_tree D D_eqb hash D_eqb_spec hash_msg_inj ces [] false) as H.
  rewrite (up_dir_pure D D_eqb hash) in H. unfold walk_state in H. cbn [ds_dirs] in H.
  destruct H as [_ [Hr [Hw [Hden _]]]]. split; [exact Hr|]. split; [exact Hw|exact Hden].
Qed.

Lemma c_dir_paths tad es decls :
  map od_path (flat_map (c_dir D D_eqb hash tad es) decls) = exp_dir_paths decls es.
Proof.
  unfold exp_dir_paths. induction decls as [|pl r IH]; [reflexivity|].
  cbn [flat_map]. rewrite map_app, IH. f_equal. unfold c_dir.
  destruct (probe es (snd pl)) as [[| ces | |]| |]; reflexivity.
Qed.

Lemma outputs_exact_full c h decls force es :
  new_hierarchy c = Some h -> declared c = Some decls ->
  let r := upload D D_eqb hash h force es in
  let tad := c_tad c || force in
  Permutation (r_files r) (exp_files hash decls es) /\
  Permutation (r_syms r) (exp_syms decls es) /\
  Permutation (map od_path (r_dirs r)) (exp_dir_paths decls es) /\
  (forall o, In o (r_dirs r) ->
     exists loc ces tms root,
       In (od_path o, loc) decls /\ probe es loc = Found (Dir ces) /\
       od_tree o = hash (BTree tms) /\ tree_describes tms ces root /\
       od_sorted o = true /\
       od_root o = (if tad then Some (hash_msg hash root) else None)) /\
  r_err r = exp_err decls es.
Proof.
  intros Hn Hd.
  destruct (outputs_exact_lemma D D_eqb hash c h decls force es Hn Hd) as [Hf [Hs [Hdirs He]]].
  cbn zeta. repeat split; try assumption.
  - rewrite <- c_dir_paths with (tad := c_tad c || force). now apply Permutation_map.
  - intros o Ho. apply (Permutation_in _ Hdirs) in Ho. apply in_flat_map in Ho as [[p loc] [Hpl Ho]].
    unfold c_dir in Ho. cbn [fst snd] in Ho.
    destruct (probe es loc) as [[| ces | |]| |] eqn:Ep; cbn [In] in Ho; try contradiction.
    destruct Ho as [<-|[]]. cbn [od_path od_tree od_sorted od_root].
    exists loc, ces, (tree_msgs D D_eqb hash ces), (msg_of D hash ces).
    repeat split; try assumption; try reflexivity; apply tree_msgs_ok.
Qed.

End Main.
