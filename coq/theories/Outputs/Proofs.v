(* Proofs about path resolution and rejection (C10). *)
From Coq Require Import Lia.
From VF Require Import Outputs.Model Outputs.Spec.
Open Scope string_scope.
Open Scope list_scope.

(* ---- resolution fails exactly when the running depth goes negative ------- *)

Lemma walk_depth stk cs :
  match walk stk cs with
  | None => depth_ok (List.length stk) cs = false
  | Some l => depth_ok (List.length stk) cs = true /\ List.length l = final_depth (List.length stk) cs
  end.
Proof.
  revert stk. induction cs as [|c cs IH]; intros stk; cbn [walk depth_ok final_depth].
  - split; reflexivity.
  - destruct (String.eqb c "" || String.eqb c ".") eqn:E1; [apply IH|].
    destruct (String.eqb c "..") eqn:E2.
    + destruct stk as [|x stk']; cbn [List.length]; [reflexivity|]. apply IH.
    + specialize (IH (c :: stk)). cbn [List.length] in IH. exact IH.
Qed.

Lemma resolve_some_iff wd s :
  (exists l, resolve wd s = Some l) <-> path_ok (List.length wd) s = true.
Proof.
  unfold resolve, path_ok.
  destruct (has_nul s); cbn [negb andb].
  { split; [intros [l H]; discriminate|discriminate]. }
  destruct (is_absolute s); cbn [negb andb].
  { split; [intros [l H]; discriminate|discriminate]. }
  pose proof (walk_depth (rev wd) (split_slash s)) as H. rewrite rev_length in H.
  destruct (walk (rev wd) (split_slash s)) as [l|]; cbn [option_map].
  - split; [intros _; apply H|intros _; eauto].
  - split; [intros [l Hl]; discriminate|intros H'; congruence].
Qed.

Lemma resolve_length wd s l :
  resolve wd s = Some l -> List.length l = final_depth (List.length wd) (split_slash s).
Proof.
  unfold resolve. destruct (has_nul s); [discriminate|]. destruct (is_absolute s); [discriminate|].
  pose proof (walk_depth (rev wd) (split_slash s)) as H. rewrite rev_length in H.
  destruct (walk (rev wd) (split_slash s)) as [l'|]; cbn [option_map]; [|discriminate].
  intros [= <-]. rewrite rev_length. apply H.
Qed.

Lemma locate_all_some_iff wd ps :
  (exists r, locate_all wd ps = Some r) <-> forallb (path_ok (List.length wd)) ps = true.
Proof.
  induction ps as [|p ps IH]; cbn [locate_all forallb].
  - split; eauto.
  - rewrite andb_true_iff, <- IH, <- resolve_some_iff.
    destruct (resolve wd p) as [l|]; destruct (locate_all wd ps) as [r|]; split;
      try (intros [? H]; discriminate); try (intros [[? H1] [? H2]]; discriminate); eauto.
Qed.

Lemma declared_iff c : (exists d, declared c = Some d) <-> acceptable c = true.
Proof.
  unfold declared, acceptable. rewrite andb_true_iff.
  pose proof (resolve_some_iff [] (c_wd c)) as Hwd. cbn [List.length] in Hwd.
  destruct (resolve [] (c_wd c)) as [wd|] eqn:E.
  - rewrite locate_all_some_iff. rewrite (resolve_length _ _ _ E). cbn [List.length].
    split; [intros H; split; [apply Hwd; eauto|exact H]|intros [_ H]; exact H].
  - split; [intros [d H]; discriminate|]. intros [H _]. apply Hwd in H as [l H]. discriminate.
Qed.

(* The trie registration succeeds exactly when every path resolves. *)
Lemma register_some_iff wd ps root roots :
  (exists r, register wd ps root roots = Some r) <-> (exists d, locate_all wd ps = Some d).
Proof.
  revert root roots. induction ps as [|p ps IH]; intros root roots; cbn [register locate_all].
  - split; eauto.
  - destruct (resolve wd p) as [[|c l]|].
    + rewrite IH. destruct (locate_all wd ps); split; intros [? H]; try discriminate; eauto.
    + rewrite IH. destruct (locate_all wd ps); split; intros [? H]; try discriminate; eauto.
    + split; intros [? H]; discriminate.
Qed.

Lemma new_hierarchy_iff c : (exists h, new_hierarchy c = Some h) <-> acceptable c = true.
Proof.
  rewrite <- declared_iff. unfold new_hierarchy, declared.
  destruct (resolve [] (c_wd c)) as [wd|]; [|split; intros [? H]; discriminate].
  rewrite <- register_some_iff with (root := empty_onode) (roots := []).
  destruct (register wd (c_paths c) empty_onode []) as [[r rs]|]; split; intros [? H]; try discriminate; eauto.
Qed.

(* A command whose working directory or one of whose output paths is
   absolute, has a NUL byte or leaves the input root is rejected, and the
   run does nothing: no directory is created, nothing is read or uploaded. *)
Lemma escape_rejected_lemma D (D_eqb : D -> D -> bool) hash c force pre action :
  acceptable c = false -> run_action D_eqb hash c force pre action = Rejected.
Proof.
  intros H. unfold run_action. destruct (new_hierarchy c) as [h|] eqn:E; [|reflexivity].
  assert (acceptable c = true) by (apply new_hierarchy_iff; eauto). congruence.
Qed.

Lemma accepted_not_rejected D (D_eqb : D -> D -> bool) hash c force pre action :
  acceptable c = true -> run_action D_eqb hash c force pre action <> Rejected.
Proof.
  intros H. apply new_hierarchy_iff in H as [h H]. unfold run_action. rewrite H.
  destruct (mk_parents (h_root h) pre) as [[] mid]; discriminate.
Qed.
