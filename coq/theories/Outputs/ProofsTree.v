(* The Tree built by uploadDirectory / uploadOutputDirectoryEntered:
   the stateful walk [up_dir] is the first-occurrence filter of a pure
   post-order listing; the reversed list is a well-formed Tree that
   describes the directory. *)
From Coq Require Import Lia.
From VF Require Import Outputs.Model Outputs.Spec.
Open Scope string_scope.
Open Scope list_scope.

(* ---- induction over the nested file tree --------------------------------- *)

Section NodeInd.
  Variable P : node -> Prop.
  Hypothesis Hfile : forall x d, P (File x d).
  Hypothesis Hdir : forall es, Forall (fun p => P (snd p)) es -> P (Dir es).
  Hypothesis Hsym : forall t, P (Symlink t).
  Hypothesis Hspec : P Special.
  Fixpoint node_ind' (n : node) : P n :=
    match n with
    | File x d => Hfile x d
    | Dir es =>
      Hdir es ((fix go (l : entries) : Forall (fun p => P (snd p)) l :=
                  match l with
                  | [] => Forall_nil _
                  | p :: r => Forall_cons p (node_ind' (snd p)) (go r)
                  end) es)
    | Symlink t => Hsym t
    | Special => Hspec
    end.
End NodeInd.

Section Tree.
Variable D : Type.
Variable D_eqb : D -> D -> bool.
Variable hash : blob D -> D.
Hypothesis D_eqb_spec : forall a b, D_eqb a b = true <-> a = b.
(* SHA-256 is collision free and marshalling of Directory messages is
   injective. *)
Hypothesis hash_msg_inj : forall m1 m2 : dirmsg D, hash (BDirectory m1) = hash (BDirectory m2) -> m1 = m2.

Notation hmsg := (hash_msg hash).
Notation dirmsg := (dirmsg D).
Notation dstate := (dstate D).

Lemma mem_In d l : mem D_eqb d l = true <-> In d l.
Proof.
  unfold mem. rewrite existsb_exists. split.
  - intros [x [Hin Hx]]. apply D_eqb_spec in Hx. now subst.
  - intros Hin. exists d. split; [exact Hin|]. now apply D_eqb_spec.
Qed.

Lemma seen_In d (dl : list dirmsg) : seen D D_eqb hash d dl = true <-> In d (map hmsg dl).
Proof.
  unfold seen. rewrite existsb_exists, in_map_iff. split.
  - intros [m [Hin Hm]]. apply D_eqb_spec in Hm. eauto.
  - intros [m [Hm Hin]]. exists m. split; [exact Hin|]. now apply D_eqb_spec.
Qed.

(* ---- the pure content of the walk ----------------------------------------- *)

(* The Directory message of a directory, and the post-order listing of
   the messages of all directories below it (itself last). *)
Fixpoint msg_of_node (c : node) : dirmsg :=
  match c with
  | Dir es =>
    mkDM
      (flat_map (fun p => match snd p with
                          | File x data => [mkFN (fst p) (hash (BFile data)) x] | _ => [] end) es)
      ((fix go (l : entries) : list (dir_node D) :=
          match l with
          | [] => []
          | p :: r => match snd p with
                      | Dir _ => mkDN (fst p) (hmsg (msg_of_node (snd p))) :: go r
                      | _ => go r
                      end
          end) es)
      (flat_map (fun p => match snd p with
                          | Symlink t => match report_target t with
                                         | Some s => [mkSN (fst p) s] | None => [] end
                          | _ => [] end) es)
  | _ => empty_msg
  end.

Definition msg_of (es : entries) : dirmsg := msg_of_node (Dir es).

Definition file_part (p : string * node) : list (file_node D) :=
  match snd p with File x data => [mkFN (fst p) (hash (BFile data)) x] | _ => [] end.
Definition dir_part (p : string * node) : list (dir_node D) :=
  match snd p with Dir ces => [mkDN (fst p) (hmsg (msg_of ces))] | _ => [] end.
Definition sym_part (p : string * node) : list sym_node :=
  match snd p with
  | Symlink t => match report_target t with Some s => [mkSN (fst p) s] | None => [] end
  | _ => [] end.

Lemma msg_of_eq es :
  msg_of es = mkDM (flat_map file_part es) (flat_map dir_part es) (flat_map sym_part es).
Proof.
  unfold msg_of. cbn [msg_of_node]. f_equal.
  induction es as [|[n c] r IH]; [reflexivity|].
  cbn [flat_map fst snd]. destruct c; unfold dir_part at 1; cbn [fst snd app]; try exact IH.
  unfold msg_of. f_equal. exact IH.
Qed.

Fixpoint post_order_node (c : node) : list dirmsg :=
  match c with
  | Dir es =>
    (fix go (l : entries) : list dirmsg :=
       match l with
       | [] => []
       | p :: r => post_order_node (snd p) ++ go r
       end) es ++ [msg_of_node c]
  | _ => []
  end.

Definition post_order (es : entries) : list dirmsg := post_order_node (Dir es).

Lemma post_order_eq es :
  post_order es = flat_map (fun p => post_order_node (snd p)) es ++ [msg_of es].
Proof.
  reflexivity.
Qed.

Lemma post_order_node_dir ces : post_order_node (Dir ces) = post_order ces.
Proof. reflexivity. Qed.

(* Files uploaded by the walk (pre-order) and whether it saves an error. *)
Fixpoint files_in (c : node) : list D :=
  match c with
  | File _ data => [hash (BFile data)]
  | Dir es => (fix go (l : entries) : list D :=
                 match l with [] => [] | p :: r => files_in (snd p) ++ go r end) es
  | _ => []
  end.

Lemma files_in_dir es : files_in (Dir es) = flat_map (fun p => files_in (snd p)) es.
Proof. reflexivity. Qed.

Lemma bad_sym_inside_dir es :
  bad_sym_inside (Dir es) = existsb (fun p => bad_sym_inside (snd p)) es.
Proof.
  cbn [bad_sym_inside]. induction es as [|[n c] r IH]; [reflexivity|].
  cbn [existsb snd]. now rewrite IH.
Qed.

(* ---- remembering first occurrences ---------------------------------------- *)

Definition push (dl : list dirmsg) (m : dirmsg) : list dirmsg :=
  if seen D D_eqb hash (hmsg m) dl then dl else dl ++ [m].

Definition pushes (dl : list dirmsg) (ms : list dirmsg) : list dirmsg := fold_left push ms dl.

Lemma pushes_app dl a b : pushes dl (a ++ b) = pushes (pushes dl a) b.
Proof. unfold pushes. apply fold_left_app. Qed.

Lemma finish_eq (m : dirmsg) (st : dstate) :
  finish D D_eqb hash m st =
  (hmsg m, mkDS D (push (ds_dirs D st) m) (ds_uploads D st) (ds_err D st)).
Proof.
  unfold finish, push. destruct (seen D D_eqb hash (hmsg m) (ds_dirs D st)); [|reflexivity].
  now destruct st.
Qed.

(* ---- the stateful walk is the pure one ------------------------------------- *)

Definition msg_app (m a : dirmsg) : dirmsg :=
  mkDM (dm_files m ++ dm_files a) (dm_dirs m ++ dm_dirs a) (dm_syms m ++ dm_syms a).

Definition part_msg (p : string * node) : dirmsg := mkDM (file_part p) (dir_part p) (sym_part p).

Definition walk_state (c : node) (st : dstate) : dstate :=
  mkDS D (pushes (ds_dirs D st) (post_order_node c))
         (ds_uploads D st ++ files_in c)
         (ds_err D st || bad_sym_inside c).

Lemma up_child_dir_unfold name ces (m : dirmsg) (st : dstate) :
  up_child D D_eqb hash name (Dir ces) m st =
  let '(cm, st1) := up_entries D D_eqb hash ces empty_msg st in
  let '(d, st2) := finish D D_eqb hash cm st1 in
  (mkDM (dm_files m) (dm_dirs m ++ [mkDN name d]) (dm_syms m), st2).
Proof.
  cbn [up_child].
  assert (forall l cm s,
    (fix go (l : entries) (cm : dirmsg) (st : dstate) {struct l} : dirmsg * dstate :=
       match l with
       | [] => (cm, st)
       | (n', c') :: r => let '(cm', st') := up_child D D_eqb hash n' c' cm st in go r cm' st'
       end) l cm s = up_entries D D_eqb hash l cm s) as ->; [|reflexivity].
  induction l as [|[n' c'] r IH]; intros cm s; [reflexivity|].
  cbn [up_entries]. destruct (up_child D D_eqb hash n' c' cm s). apply IH.
Qed.

Lemma msg_app_assoc a b c : msg_app (msg_app a b) c = msg_app a (msg_app b c).
Proof. unfold msg_app. cbn. now rewrite !app_assoc. Qed.

Lemma msg_app_empty_l a : msg_app empty_msg a = a.
Proof. now destruct a. Qed.

Lemma msg_app_empty_r a : msg_app a empty_msg = a.
Proof. destruct a. unfold msg_app. cbn. now rewrite !app_nil_r. Qed.

Lemma msg_of_parts es :
  msg_of es = fold_right (fun p a => msg_app (part_msg p) a) empty_msg es.
Proof.
  rewrite msg_of_eq. induction es as [|p r IH]; [reflexivity|].
  cbn [flat_map fold_right]. rewrite <- IH. reflexivity.
Qed.

Lemma walk_fold ces (st : dstate) :
  fold_left (fun s (p : string * node) => walk_state (snd p) s) ces st =
  mkDS D (pushes (ds_dirs D st) (flat_map (fun p : string * node => post_order_node (snd p)) ces))
         (ds_uploads D st ++ flat_map (fun p : string * node => files_in (snd p)) ces)
         (ds_err D st || existsb (fun p : string * node => bad_sym_inside (snd p)) ces).
Proof.
  revert st. induction ces as [|p r IH]; intros st.
  - cbn. rewrite app_nil_r, orb_false_r. now destruct st.
  - cbn [fold_left flat_map existsb]. rewrite IH. unfold walk_state. cbn [ds_dirs ds_uploads ds_err].
    now rewrite pushes_app, app_assoc, orb_assoc.
Qed.

Lemma walk_state_dir ces st :
  walk_state (Dir ces) st =
  let s1 := fold_left (fun s p => walk_state (snd p) s) ces st in
  mkDS D (push (ds_dirs D s1) (msg_of ces)) (ds_uploads D s1) (ds_err D s1).
Proof.
  rewrite walk_fold. cbn zeta. cbn [ds_dirs ds_uploads ds_err].
  unfold walk_state. rewrite post_order_node_dir, post_order_eq, files_in_dir, bad_sym_inside_dir.
  now rewrite pushes_app.
Qed.

Lemma up_child_pure c : forall name (m : dirmsg) (st : dstate),
  up_child D D_eqb hash name c m st = (msg_app m (part_msg (name, c)), walk_state c st).
Proof.
  induction c as [x data|ces IH|t|] using node_ind'; intros name m st.
  - cbn [up_child]. unfold msg_app, part_msg, file_part, dir_part, sym_part, walk_state. cbn.
    now rewrite !app_nil_r, orb_false_r.
  - rewrite up_child_dir_unfold.
    assert (forall cm s, up_entries D D_eqb hash ces cm s =
              (msg_app cm (fold_right (fun p a => msg_app (part_msg p) a) empty_msg ces),
               fold_left (fun s p => walk_state (snd p) s) ces s)) as Hent.
    { induction IH as [|[n' c'] r Hc Hr IHr]; intros cm s.
      - cbn. now rewrite msg_app_empty_r.
      - cbn [up_entries fold_right fold_left snd]. cbn [snd] in Hc. rewrite Hc, IHr.
        now rewrite msg_app_assoc. }
    rewrite Hent, msg_app_empty_l, <- msg_of_parts, finish_eq.
    rewrite walk_state_dir. cbn zeta.
    unfold msg_app, part_msg, file_part, dir_part, sym_part. cbn. now rewrite !app_nil_r.
  - cbn [up_child]. unfold msg_app, part_msg, file_part, dir_part, sym_part, walk_state. cbn [fst snd].
    cbn [post_order_node pushes fold_left files_in bad_sym_inside].
    unfold good_target, report_target. destruct (norm_target t); cbn.
    + rewrite !app_nil_r, orb_false_r. now destruct st.
    + rewrite !app_nil_r, orb_true_r. now destruct m.
  - cbn [up_child]. unfold msg_app, part_msg, file_part, dir_part, sym_part, walk_state. cbn.
    rewrite !app_nil_r, orb_false_r. destruct m, st. reflexivity.
Qed.

(* uploadDirectory: the digest of the directory's message; the
   directories list is extended by the first occurrences of the post-order
   listing. *)
Lemma up_dir_pure es (st : dstate) :
  up_dir D D_eqb hash es st = (hmsg (msg_of es), walk_state (Dir es) st).
Proof.
  pose proof (up_child_pure (Dir es) "" empty_msg st) as H.
  rewrite up_child_dir_unfold in H. unfold up_dir.
  destruct (up_entries D D_eqb hash es empty_msg st) as [cm st1].
  rewrite finish_eq in *. cbn zeta in H.
  pose proof (f_equal (fun p => map dn_digest (dm_dirs (fst p))) H) as H1.
  pose proof (f_equal snd H) as H2. cbn in H1, H2. injection H1 as H1.
  now rewrite H1, H2.
Qed.

(* ---- the directories list: post order, no repetition ----------------------- *)

(* Built by appending; every directory's children are already there, and
   no digest is there twice. *)
Inductive ok_post : list dirmsg -> Prop :=
| ok_nil : ok_post []
| ok_snoc dl m : ok_post dl ->
    (forall c, In c (child_digests m) -> In c (map hmsg dl)) ->
    ~ In (hmsg m) (map hmsg dl) -> ok_post (dl ++ [m]).

Lemma ok_post_down dl : ok_post dl ->
  forall m, In m dl -> forall c, In c (child_digests m) -> In c (map hmsg dl).
Proof.
  induction 1 as [|dl m Hok IH Hch Hnew]; intros m' Hin c Hc; [destruct Hin|].
  rewrite map_app, in_app_iff. left.
  apply in_app_iff in Hin as [Hin|[<-|[]]]; eauto.
Qed.

Lemma in_hmsg m dl : In (hmsg m) (map hmsg dl) -> In m dl.
Proof.
  rewrite in_map_iff. intros [m' [Heq Hin]]. apply hash_msg_inj in Heq. now subst.
Qed.

Lemma push_cases dl m :
  (In m dl /\ push dl m = dl) \/ (~ In (hmsg m) (map hmsg dl) /\ push dl m = dl ++ [m]).
Proof.
  unfold push. destruct (seen D D_eqb hash (hmsg m) dl) eqn:E.
  - left. apply seen_In in E. split; [now apply in_hmsg|reflexivity].
  - right. split; [|reflexivity]. intros H. apply seen_In in H. congruence.
Qed.

Lemma pushes_cons dl m L : pushes dl (m :: L) = pushes (push dl m) L.
Proof. reflexivity. Qed.

Lemma pushes_ext dl L : exists ext, pushes dl L = dl ++ ext /\ incl ext L.
Proof.
  revert dl. induction L as [|x r IH]; intros dl.
  - exists []. split; [now rewrite app_nil_r|intros ? []].
  - rewrite pushes_cons. destruct (IH (push dl x)) as [ext [He Hi]]. rewrite He.
    destruct (push_cases dl x) as [[_ ->]|[_ ->]].
    + exists ext. split; [reflexivity|]. intros y Hy. right. now apply Hi.
    + exists (x :: ext). split; [now rewrite <- app_assoc|].
      intros y [<-|Hy]; [now left|right; now apply Hi].
Qed.

Lemma pushes_has dl L m : In m (dl ++ L) -> In m (pushes dl L).
Proof.
  revert dl. induction L as [|x r IH]; intros dl Hin.
  - now rewrite app_nil_r in Hin.
  - rewrite pushes_cons. apply IH. apply in_app_iff.
    apply in_app_iff in Hin as [Hin|[<-|Hin]]; [| |now right]; left;
      destruct (push_cases dl x) as [[Hx ->]|[_ ->]]; auto; apply in_app_iff; auto.
    right. now left.
Qed.

Fixpoint closed (known : list dirmsg) (L : list dirmsg) : Prop :=
  match L with
  | [] => True
  | m :: r => (forall c, In c (child_digests m) -> In c (map hmsg known)) /\ closed (known ++ [m]) r
  end.

Lemma closed_incl L : forall k1 k2, incl k1 k2 -> closed k1 L -> closed k2 L.
Proof.
  induction L as [|m r IH]; intros k1 k2 Hi; cbn [closed]; [auto|].
  intros [H1 H2]. split.
  - intros c Hc. specialize (H1 c Hc). apply in_map_iff in H1 as [x [<- Hx]]. apply in_map. now apply Hi.
  - apply (IH (k1 ++ [m])); [|exact H2]. intros y Hy. apply in_app_iff in Hy as [Hy|Hy]; apply in_app_iff; auto.
Qed.

Lemma closed_app A : forall k B, closed k (A ++ B) <-> closed k A /\ closed (k ++ A) B.
Proof.
  induction A as [|m r IH]; intros k B; cbn [closed app].
  - rewrite app_nil_r. tauto.
  - rewrite IH, <- app_assoc. cbn [app]. tauto.
Qed.

Lemma pushes_ok L : forall dl, ok_post dl -> closed dl L -> ok_post (pushes dl L).
Proof.
  induction L as [|x r IH]; intros dl Hok Hcl; [exact Hok|].
  rewrite pushes_cons. destruct Hcl as [Hch Hcl].
  destruct (push_cases dl x) as [[Hx ->]|[Hnew ->]].
  - apply IH; [exact Hok|]. apply (closed_incl r (dl ++ [x])); [|exact Hcl].
    intros y Hy. apply in_app_iff in Hy as [Hy|[<-|[]]]; auto.
  - apply IH; [|exact Hcl]. now constructor.
Qed.

Lemma child_digests_msg_of es c :
  In c (child_digests (msg_of es)) <-> exists n ces, In (n, Dir ces) es /\ c = hmsg (msg_of ces).
Proof.
  rewrite msg_of_eq. unfold child_digests. cbn [dm_dirs]. rewrite in_map_iff. split.
  - intros [dn [<- Hin]]. apply in_flat_map in Hin as [[n c'] [Hin Hp]].
    unfold dir_part in Hp. cbn [fst snd] in Hp. destruct c' as [| ces | |]; cbn [In] in Hp; try contradiction.
    destruct Hp as [<-|[]]. eauto.
  - intros [n [ces [Hin ->]]]. exists (mkDN n (hmsg (msg_of ces))). split; [reflexivity|].
    apply in_flat_map. exists (n, Dir ces). split; [exact Hin|now left].
Qed.

Lemma post_order_last ces : In (msg_of ces) (post_order ces).
Proof. rewrite post_order_eq. apply in_app_iff. right. now left. Qed.

Lemma child_in_flat n ces (es : entries) :
  In (n, Dir ces) es -> In (msg_of ces) (flat_map (fun p : string * node => post_order_node (snd p)) es).
Proof.
  intros Hin. apply in_flat_map. exists (n, Dir ces). split; [exact Hin|]. apply post_order_last.
Qed.

Lemma post_closed c : forall k, closed k (post_order_node c).
Proof.
  induction c as [x data|es IH|t|] using node_ind'; intros k; try exact I.
  rewrite post_order_node_dir, post_order_eq. apply closed_app. split.
  - revert k. induction IH as [|p r Hp Hr IHr]; intros k; [exact I|].
    cbn [flat_map]. apply closed_app. split; [apply Hp|apply IHr].
  - cbn [closed]. split; [|exact I]. intros c Hc.
    apply child_digests_msg_of in Hc as [n [ces [Hin ->]]].
    apply in_map. apply in_app_iff. right. eapply child_in_flat; eauto.
Qed.

Lemma walk_ok c dl : ok_post dl -> ok_post (pushes dl (post_order_node c)).
Proof. intros H. apply pushes_ok; [exact H|apply post_closed]. Qed.

(* ---- parents before children, nothing twice -------------------------------- *)

Lemma D_eqb_refl d : D_eqb d d = true.
Proof. now apply D_eqb_spec. Qed.

Lemma wf_rev dl : ok_post dl -> wf_msgs D_eqb hash (rev dl) = true.
Proof.
  induction 1 as [|dl m Hok IH Hch Hnew]; [reflexivity|].
  rewrite rev_app_distr. cbn [rev app wf_msgs]. rewrite IH, andb_true_r.
  apply andb_true_iff. split.
  - apply forallb_forall. intros c Hc. apply mem_In. rewrite map_rev, <- in_rev. now apply Hch.
  - apply negb_true_iff. destruct (mem D_eqb (hmsg m) (map hmsg (rev dl))) eqn:E; [|reflexivity].
    apply mem_In in E. rewrite map_rev, <- in_rev in E. contradiction.
Qed.

(* ---- the root comes last in post order: heights ----------------------------- *)

Fixpoint height (c : node) : nat :=
  match c with
  | Dir es => S ((fix go (l : entries) : nat :=
                    match l with [] => 0 | p :: r => Nat.max (height (snd p)) (go r) end) es)
  | _ => 0
  end.

Definition dir_children (es : entries) : list entries :=
  flat_map (fun p : string * node => match snd p with Dir ces => [ces] | _ => [] end) es.

Lemma height_dir es :
  height (Dir es) = S (list_max (map (fun ces => height (Dir ces)) (dir_children es))).
Proof.
  cbn [height]. f_equal. induction es as [|[n c] r IH]; [reflexivity|].
  cbn [snd dir_children flat_map]. fold (dir_children r). rewrite IH.
  destruct c; cbn [app map list_max fold_right height]; try reflexivity.
Qed.

Lemma child_height p es : In p es -> height (snd p) < height (Dir es).
Proof.
  intros Hin. cbn [height]. apply PeanoNat.Nat.lt_succ_r.
  induction es as [|q r IH]; [destruct Hin|].
  destruct Hin as [->|Hin]; [apply PeanoNat.Nat.le_max_l|].
  etransitivity; [apply IH, Hin|apply PeanoNat.Nat.le_max_r].
Qed.

Lemma dir_part_digests es :
  map dn_digest (flat_map dir_part es) = map (fun ces => hmsg (msg_of ces)) (dir_children es).
Proof.
  induction es as [|[n c] r IH]; [reflexivity|].
  cbn [flat_map dir_children]. fold (dir_children r). rewrite !map_app, IH.
  unfold dir_part. cbn [fst snd]. now destruct c.
Qed.

Lemma dir_children_in ces es : In ces (dir_children es) -> exists n, In (n, Dir ces) es.
Proof.
  unfold dir_children. rewrite in_flat_map. intros [[n c] [Hin Hc]]. cbn [snd] in Hc.
  destruct c; cbn [In] in Hc; try contradiction. destruct Hc as [<-|[]]. eauto.
Qed.

Lemma map_transfer {A B C} (f : A -> B) (g : A -> C) l1 : forall l2,
  map f l1 = map f l2 ->
  (forall a, In a l1 -> forall b, f a = f b -> g a = g b) ->
  map g l1 = map g l2.
Proof.
  induction l1 as [|a r IH]; intros [|b r2] Heq Hp; try discriminate; [reflexivity|].
  cbn [map] in *. injection Heq as H1 H2. f_equal.
  - apply Hp; [now left|exact H1].
  - apply IH; [exact H2|]. intros a' Ha'. apply Hp. now right.
Qed.

Lemma height_inj c : forall es',
  match c with Dir es => msg_of es = msg_of es' -> height (Dir es) = height (Dir es') | _ => True end.
Proof.
  induction c as [x data|es IH|t|] using node_ind'; intros es'; try exact I.
  intros Heq. rewrite !height_dir. f_equal. f_equal.
  apply (map_transfer (fun ces => hmsg (msg_of ces))).
  - rewrite <- !dir_part_digests. rewrite !msg_of_eq in Heq. now injection Heq as _ -> _.
  - intros ces Hin ces' Hh. apply dir_children_in in Hin as [n Hin].
    rewrite Forall_forall in IH. specialize (IH _ Hin ces'). cbn [snd] in IH.
    apply IH. now apply hash_msg_inj.
Qed.

Lemma post_heights c :
  Forall (fun m => exists es', m = msg_of es' /\ height (Dir es') <= height c) (post_order_node c).
Proof.
  induction c as [x data|es IH|t|] using node_ind'; try constructor.
  rewrite post_order_node_dir, post_order_eq. apply Forall_app. split.
  - rewrite Forall_forall in *. intros m Hm. apply in_flat_map in Hm as [p [Hp Hm]].
    pose proof (IH p Hp) as Hf. rewrite Forall_forall in Hf.
    destruct (Hf m Hm) as [es' [-> Hh]]. exists es'. split; [reflexivity|].
    pose proof (child_height p es Hp). lia.
  - constructor; [|constructor]. exists es. split; [reflexivity|lia].
Qed.

Lemma root_not_below es :
  ~ In (msg_of es) (flat_map (fun p : string * node => post_order_node (snd p)) es).
Proof.
  intros Hin. apply in_flat_map in Hin as [p [Hp Hm]].
  pose proof (post_heights (snd p)) as Hf. rewrite Forall_forall in Hf.
  destruct (Hf _ Hm) as [es' [Heq Hh]].
  pose proof (height_inj (Dir es) es' Heq). pose proof (child_height p es Hp). lia.
Qed.

(* A directory that is already listed adds nothing. *)
Lemma walk_nothing c : forall dl, ok_post dl ->
  match c with Dir es => In (msg_of es) dl | _ => True end ->
  pushes dl (post_order_node c) = dl.
Proof.
  induction c as [x data|es IH|t|] using node_ind'; intros dl Hok Hin; try reflexivity.
  rewrite post_order_node_dir, post_order_eq, pushes_app.
  assert (pushes dl (flat_map (fun p : string * node => post_order_node (snd p)) es) = dl) as ->.
  { assert (forall n ces, In (n, Dir ces) es -> In (msg_of ces) dl) as Hch.
    { intros n ces Hc. apply in_hmsg. eapply ok_post_down; eauto.
      apply child_digests_msg_of. eauto. }
    clear Hin. induction IH as [|[n c] r Hp Hr IHr]; [reflexivity|].
    cbn [flat_map]. rewrite pushes_app. cbn [snd] in *. rewrite Hp; [apply IHr| exact Hok |].
    - intros n' ces' Hc. eapply Hch. right. exact Hc.
    - destruct c; try exact I. eapply Hch. left. reflexivity. }
  cbn [pushes fold_left]. destruct (push_cases dl (msg_of es)) as [[_ ->]|[Hnew _]]; [reflexivity|].
  exfalso. apply Hnew. now apply in_map.
Qed.

(* ---- every directory but the root is referred to by a later one ----------- *)

Definition refd (ext : list dirmsg) (top : dirmsg -> Prop) : Prop :=
  forall a x b, ext = a ++ x :: b ->
    (exists y, In y b /\ In (hmsg x) (child_digests y)) \/ top x.

Lemma refd_nil top : refd [] top.
Proof. intros [|? ?] x b H; discriminate. Qed.

Lemma refd_app e1 e2 top : refd e1 top -> refd e2 top -> refd (e1 ++ e2) top.
Proof.
  intros H1 H2 a x b Heq.
  destruct (app_eq_app _ _ _ _ Heq) as [l [[Ha Hb]|[Ha Hb]]].
  - (* e1 = a ++ l, x :: b = l ++ e2 *)
    destruct l as [|x' l']; cbn [app] in Hb.
    + rewrite app_nil_r in Ha. subst a. destruct (H2 [] x b) as [[y [Hy Hc]]|Ht]; auto. left. eauto.
    + injection Hb as <- ->. destruct (H1 a x l' Ha) as [[y [Hy Hc]]|Ht]; auto.
      left. exists y. split; [apply in_app_iff; auto|exact Hc].
  - (* a = e1 ++ l, e2 = l ++ x :: b *)
    destruct (H2 l x b Hb) as [[y [Hy Hc]]|Ht]; auto. left. eauto.
Qed.

Lemma refd_weaken ext (t1 t2 : dirmsg -> Prop) : (forall x, In x ext -> t1 x -> t2 x) -> refd ext t1 -> refd ext t2.
Proof.
  intros Ht H a x b Heq. destruct (H a x b Heq) as [Hl|Hr]; [now left|right].
  apply Ht; [|exact Hr]. rewrite Heq. apply in_app_iff. right. now left.
Qed.

Lemma walk_refd c : forall dl, ok_post dl ->
  exists ext, pushes dl (post_order_node c) = dl ++ ext /\
              refd ext (fun x => match c with Dir es => x = msg_of es | _ => False end).
Proof.
  induction c as [x data|es IH|t|] using node_ind'; intros dl Hok;
    try (exists []; split; [now rewrite app_nil_r|apply refd_nil]).
  set (flat := flat_map (fun p : string * node => post_order_node (snd p)) es).
  (* the children, in sequence *)
  assert (exists ext1, pushes dl flat = dl ++ ext1 /\
            refd ext1 (fun x => In (hmsg x) (child_digests (msg_of es)))) as [ext1 [He1 Hr1]].
  { remember (child_digests (msg_of es)) as top eqn:Htop.
    assert (forall n ces, In (n, Dir ces) es -> In (hmsg (msg_of ces)) top) as Hch.
    { intros n ces Hc. subst top. apply child_digests_msg_of. eauto. }
    subst flat. revert dl Hok. clear Htop.
    induction IH as [|[n c] r Hp Hr IHr]; intros dl Hok.
    - exists []. split; [now rewrite app_nil_r|apply refd_nil].
    - cbn [flat_map snd]. rewrite pushes_app. cbn [snd] in Hp.
      destruct (Hp dl Hok) as [e1 [He1 Hr1]]. rewrite He1.
      destruct (IHr (fun n' ces' Hc => Hch n' ces' (or_intror Hc)) (dl ++ e1)) as [e2 [He2 Hr2]].
      { rewrite <- He1. now apply walk_ok. }
      rewrite He2. exists (e1 ++ e2). split; [now rewrite app_assoc|].
      apply refd_app; [|exact Hr2].
      eapply refd_weaken; [|exact Hr1]. intros x _ Hx. destruct c; try contradiction.
      subst x. eapply Hch. left. reflexivity. }
  rewrite post_order_node_dir, post_order_eq. fold flat. rewrite pushes_app, He1.
  cbn [pushes fold_left].
  destruct (push_cases (dl ++ ext1) (msg_of es)) as [[Hin Hp]|[Hnew Hp]]; rewrite Hp.
  - (* already listed: then nothing was added at all *)
    apply in_app_iff in Hin as [Hin|Hin].
    + pose proof (walk_nothing (Dir es) dl Hok Hin) as Hn.
      rewrite post_order_node_dir, post_order_eq in Hn. fold flat in Hn.
      rewrite pushes_app, He1 in Hn. cbn [pushes fold_left] in Hn. rewrite Hp in Hn.
      assert (ext1 = []) as ->.
      { apply (f_equal (@List.length _)) in Hn. rewrite app_length in Hn. destruct ext1; [reflexivity|cbn in Hn; lia]. }
      exists []. split; [reflexivity|apply refd_nil].
    + exfalso. destruct (pushes_ext dl flat) as [e [He Hi]]. rewrite He1 in He.
      apply app_inv_head in He. subst e. apply (root_not_below es). apply Hi, Hin.
  - exists (ext1 ++ [msg_of es]). split; [now rewrite app_assoc|].
    intros a x b Heq.
    destruct (app_eq_app _ _ _ _ Heq) as [l [[Ha Hb]|[Ha Hb]]].
    + destruct l as [|x' l']; cbn [app] in Hb.
      * injection Hb as Hx Hb'. right. now subst.
      * injection Hb as Hx Hb'. subst x' b. left.
        destruct (Hr1 a x l' Ha) as [[y [Hy Hc]]|Ht].
        -- exists y. split; [apply in_app_iff; auto|exact Hc].
        -- exists (msg_of es). split; [apply in_app_iff; right; now left|exact Ht].
    + destruct l as [|x' l']; cbn [app] in Hb.
      * injection Hb as Hx Hb'. right. now subst.
      * injection Hb as _ Hb'. destruct l'; discriminate.
Qed.

Lemma all_referenced_rev l : forall acc,
  (forall a x b, l = a ++ x :: b ->
     In (hmsg x) acc \/ exists y, In y b /\ In (hmsg x) (child_digests y)) ->
  all_referenced D_eqb hash acc (rev l) = true.
Proof.
  induction l as [|x l IH] using rev_ind; intros acc H; [reflexivity|].
  rewrite rev_app_distr. cbn [rev app all_referenced]. apply andb_true_iff. split.
  - apply mem_In. destruct (H l x [] eq_refl) as [Hin|[y [[] _]]]. exact Hin.
  - apply IH. intros a z b Heq.
    destruct (H a z (b ++ [x])) as [Hin|[y [Hy Hc]]].
    + rewrite Heq, <- app_assoc. reflexivity.
    + left. apply in_app_iff. now left.
    + apply in_app_iff in Hy as [Hy|[<-|[]]]; [right; eauto|left; apply in_app_iff; now right].
Qed.

(* ---- the Tree describes the directory ---------------------------------------- *)

Lemma files_match es :
  all2 (file_matches D_eqb hash) (files_of es) (flat_map file_part es) = true.
Proof.
  induction es as [|[n c] r IH]; [reflexivity|].
  unfold files_of in *. cbn [flat_map]. unfold file_part at 1. cbn [fst snd].
  destruct c; cbn [app all2]; try exact IH.
  rewrite IH, andb_true_r. unfold file_matches. cbn [fn_name fn_exec fn_digest].
  now rewrite String.eqb_refl, Bool.eqb_reflx, D_eqb_refl.
Qed.

Lemma syms_match es : all2 sym_matches (syms_of es) (flat_map sym_part es) = true.
Proof.
  induction es as [|[n c] r IH]; [reflexivity|].
  unfold syms_of in *. cbn [flat_map]. unfold sym_part at 1. cbn [fst snd].
  destruct c; cbn [app all2]; try exact IH.
  unfold good_target, report_target in *. destruct (norm_target target); cbn [app all2]; [|exact IH].
  rewrite IH, andb_true_r. unfold sym_matches. cbn [fst snd sn_name sn_target].
  now rewrite !String.eqb_refl.
Qed.

Lemma denotes_ok c : forall msgs,
  match c with
  | Dir es => incl (post_order es) msgs -> denotes D_eqb hash msgs c (hmsg (msg_of es)) = true
  | _ => True
  end.
Proof.
  induction c as [x data|es IH|t|] using node_ind'; intros msgs; try exact I.
  intros Hincl. cbn [denotes].
  destruct (find (fun m => D_eqb (hmsg m) (hmsg (msg_of es))) msgs) as [m|] eqn:Ef.
  - apply find_some in Ef as [_ Hm]. apply D_eqb_spec, hash_msg_inj in Hm. subst m.
    rewrite msg_of_eq. cbn [dm_files dm_dirs dm_syms].
    rewrite files_match, syms_match. cbn [andb].
    assert (incl (flat_map (fun p : string * node => post_order_node (snd p)) es) msgs) as Hsub.
    { intros y Hy. apply Hincl. rewrite post_order_eq. apply in_app_iff. now left. }
    clear Hincl. induction IH as [|[n c] r Hp Hr IHr]; [reflexivity|].
    cbn [flat_map] in *. unfold dir_part at 1. cbn [fst snd] in *.
    assert (incl (flat_map (fun p : string * node => post_order_node (snd p)) r) msgs) as Hsub2.
    { intros y Hy. apply Hsub. apply in_app_iff. now right. }
    destruct c as [| ces | |]; cbn [app]; try (apply IHr; exact Hsub2).
    unfold dir_part at 1. cbn [fst snd app]. rewrite String.eqb_refl. cbn [dn_name dn_digest andb].
    specialize (Hp msgs). cbn beta iota in Hp. rewrite Hp.
    + cbn [andb]. apply IHr. exact Hsub2.
    + intros y Hy. apply Hsub. apply in_app_iff. now left.
  - pose proof (find_none _ _ Ef (msg_of es) (Hincl _ (post_order_last es))) as Hf.
    cbn beta in Hf. rewrite D_eqb_refl in Hf. discriminate.
Qed.

(* ---- uploadOutputDirectoryEntered -------------------------------------------- *)

(* The Tree of an output directory: the root's message first, well formed,
   and describing the directory. *)
Lemma output_tree es (uploads : list D) (err : bool) :
  let '(d, st) := up_dir D D_eqb hash es (mkDS D [] uploads err) in
  let tms := tag_root (rev (ds_dirs D st)) in
  d = hmsg (msg_of es) /\
  (exists rest, tms = (true, msg_of es) :: rest) /\
  wf_tree D_eqb hash tms = true /\
  denotes D_eqb hash (map snd tms) (Dir es) (hmsg (msg_of es)) = true /\
  ds_uploads D st = uploads ++ files_in (Dir es) /\
  ds_err D st = err || bad_sym_inside (Dir es).
Proof.
  rewrite up_dir_pure. unfold walk_state. cbn [ds_dirs ds_uploads ds_err].
  set (dl := pushes [] (post_order_node (Dir es))).
  assert (ok_post dl) as Hok by (apply walk_ok; constructor).
  destruct (walk_refd (Dir es) [] ok_nil) as [ext [He Hr]]. cbn [app] in He. fold dl in He.
  (* the root is last *)
  assert (exists dl0, dl = dl0 ++ [msg_of es] /\ ~ In (msg_of es) dl0) as [dl0 [Hd Hn0]].
  { subst dl. rewrite post_order_node_dir, post_order_eq, pushes_app. cbn [pushes fold_left].
    set (flat := flat_map (fun p : string * node => post_order_node (snd p)) es).
    destruct (pushes_ext [] flat) as [e [He' Hi]]. cbn [app] in He'.
    assert (~ In (msg_of es) (pushes [] flat)) as Hn.
    { rewrite He'. intros Hin. apply (root_not_below es), Hi, Hin. }
    destruct (push_cases (pushes [] flat) (msg_of es)) as [[Hin _]|[_ ->]]; [contradiction|].
    eauto. }
  assert (tag_root (rev dl) = (true, msg_of es) :: map (pair false) (rev dl0)) as Ht.
  { rewrite Hd, rev_app_distr. reflexivity. }
  rewrite Ht. repeat split; eauto.
  - (* well formed *)
    unfold wf_tree. cbn [andb]. rewrite map_map. cbn [snd]. rewrite map_id.
    assert (forallb (fun p : bool * dirmsg => negb (fst p)) (map (pair false) (rev dl0)) = true) as ->.
    { apply forallb_forall. intros p Hp. apply in_map_iff in Hp as [? [<- _]]. reflexivity. }
    cbn [andb]. apply andb_true_iff. split.
    + pose proof (wf_rev dl Hok) as Hw. rewrite Hd, rev_app_distr in Hw. exact Hw.
    + apply all_referenced_rev. intros a x b Heq.
      assert (ext = a ++ x :: (b ++ [msg_of es])) as Hext.
      { rewrite <- He, Hd, Heq, <- app_assoc. reflexivity. }
      destruct (Hr a x (b ++ [msg_of es]) Hext) as [[y [Hy Hc]]|Hx].
      * apply in_app_iff in Hy as [Hy|[<-|[]]]; [right; eauto|now left].
      * exfalso. apply Hn0. rewrite Heq, <- Hx. apply in_app_iff. right. now left.
  - (* describes the directory *)
    cbn [map snd]. rewrite map_map. cbn [snd]. rewrite map_id.
    apply (denotes_ok (Dir es)). intros m Hm.
    change (msg_of es :: rev dl0) with (rev [msg_of es] ++ rev dl0).
    rewrite <- rev_app_distr, <- Hd, <- in_rev. subst dl. apply pushes_has. exact Hm.
Qed.

End Tree.
