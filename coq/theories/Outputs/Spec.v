(* The property C10 as decidable predicates over what an observer sees:
   the command, the directory before the parents were created, after, and
   as the action left it, the ActionResult and the blobs named by its
   digests.  [p_run] is (a) proved of the model for every command, every
   input root and every action in Proofs*.v and (b) evaluated on
   implementation traces by Corr.v.  It never refers to the output trie or
   to the upload walk of Model.v: the expected outputs are computed path by
   path, in the order the client declared them. *)
From VF Require Export Outputs.Model.
Open Scope string_scope.
Open Scope list_scope.

(* ---- equality tests ------------------------------------------------------ *)

Fixpoint list_eqb {A} (eqb : A -> A -> bool) (a b : list A) : bool :=
  match a, b with
  | [], [] => true
  | x :: a', y :: b' => eqb x y && list_eqb eqb a' b'
  | _, _ => false
  end.

Definition option_eqb {A} (eqb : A -> A -> bool) (a b : option A) : bool :=
  match a, b with
  | None, None => true
  | Some x, Some y => eqb x y
  | _, _ => false
  end.

Fixpoint node_eqb (a b : node) {struct a} : bool :=
  match a, b with
  | File x d, File y e => Bool.eqb x y && String.eqb d e
  | Dir es, Dir fs =>
    (fix go (l m : entries) {struct l} : bool :=
       match l, m with
       | [], [] => true
       | (n1, c1) :: l', (n2, c2) :: m' => String.eqb n1 n2 && node_eqb c1 c2 && go l' m'
       | _, _ => false
       end) es fs
  | Symlink s, Symlink t => String.eqb s t
  | Special, Special => true
  | _, _ => false
  end.

Definition entries_eqb (a b : entries) : bool := node_eqb (Dir a) (Dir b).

(* Number of occurrences, and equality as multisets. *)
Fixpoint count {A} (eqb : A -> A -> bool) (x : A) (l : list A) : nat :=
  match l with
  | [] => 0
  | y :: r => (if eqb x y then 1 else 0) + count eqb x r
  end.

Definition perm_eqb {A} (eqb : A -> A -> bool) (a b : list A) : bool :=
  Nat.eqb (List.length a) (List.length b) &&
  forallb (fun x => Nat.eqb (count eqb x a) (count eqb x b)) a.

(* ---- where a location leads --------------------------------------------- *)

Inductive probe_result :=
| Found (n : node)
| Absent
| Blocked.                     (* a proper prefix exists and is not a directory *)

Fixpoint probe (es : entries) (loc : list comp) : probe_result :=
  match loc with
  | [] => Found (Dir es)
  | c :: rest =>
    match lookup c es with
    | None => Absent
    | Some (Dir ces) => probe ces rest
    | Some n => match rest with [] => Found n | _ :: _ => Blocked end
    end
  end.

(* Walking [loc] never meets a non-directory. *)
Fixpoint clear (es : entries) (loc : list comp) : bool :=
  match loc with
  | [] => true
  | c :: rest =>
    match lookup c es with
    | None => true
    | Some (Dir ces) => clear ces rest
    | Some _ => false
    end
  end.

Fixpoint is_prefix (a b : list comp) : bool :=
  match a, b with
  | [], _ => true
  | x :: a', y :: b' => String.eqb x y && is_prefix a' b'
  | _ :: _, [] => false
  end.

(* ---- which paths are declared, and where --------------------------------- *)

Fixpoint locate_all (wd : list comp) (ps : list string) : option (list (string * list comp)) :=
  match ps with
  | [] => Some []
  | p :: ps' =>
    match resolve wd p, locate_all wd ps' with
    | Some loc, Some r => Some ((p, loc) :: r)
    | _, _ => None
    end
  end.

(* None: the command must be rejected. *)
Definition declared (c : command) : option (list (string * list comp)) :=
  match resolve [] (c_wd c) with
  | None => None
  | Some wd => locate_all wd (c_paths c)
  end.

(* Escaping, stated without the component stack: the running depth (number
   of ordinary components minus number of "..") becomes negative. *)
Fixpoint depth_ok (d : nat) (cs : list string) : bool :=
  match cs with
  | [] => true
  | c :: cs' =>
    if String.eqb c "" || String.eqb c "." then depth_ok d cs'
    else if String.eqb c ".." then
      match d with O => false | S d' => depth_ok d' cs' end
    else depth_ok (S d) cs'
  end.

Fixpoint final_depth (d : nat) (cs : list string) : nat :=
  match cs with
  | [] => d
  | c :: cs' =>
    if String.eqb c "" || String.eqb c "." then final_depth d cs'
    else if String.eqb c ".." then final_depth (pred d) cs'
    else final_depth (S d) cs'
  end.

Definition path_ok (depth : nat) (s : string) : bool :=
  negb (has_nul s) && negb (is_absolute s) && depth_ok depth (split_slash s).

(* The commands that must be accepted. *)
Definition acceptable (c : command) : bool :=
  path_ok 0 (c_wd c) &&
  forallb (path_ok (final_depth 0 (split_slash (c_wd c)))) (c_paths c).

(* ---- symlink targets ------------------------------------------------------ *)

(* A reported target must be the actual one up to the normal form of
   path.Builder; a target that cannot be parsed must not be reported. *)
Definition good_target (t : string) : option string := norm_target t.

Fixpoint bad_sym_inside (c : node) : bool :=
  match c with
  | Dir es =>
    (fix go (l : entries) : bool :=
       match l with
       | [] => false
       | (_, c') :: r => bad_sym_inside c' || go r
       end) es
  | Symlink t => match good_target t with None => true | Some _ => false end
  | _ => false
  end.

Section WithDigest.
Variable D : Type.
Variable D_eqb : D -> D -> bool.
Variable hash : blob D -> D.

Definition file_node_eqb (a b : file_node D) : bool :=
  String.eqb (fn_name a) (fn_name b) && D_eqb (fn_digest a) (fn_digest b) && Bool.eqb (fn_exec a) (fn_exec b).
Definition dir_node_eqb (a b : dir_node D) : bool :=
  String.eqb (dn_name a) (dn_name b) && D_eqb (dn_digest a) (dn_digest b).
Definition sym_node_eqb (a b : sym_node) : bool :=
  String.eqb (sn_name a) (sn_name b) && String.eqb (sn_target a) (sn_target b).
Definition dirmsg_eqb (a b : dirmsg D) : bool :=
  list_eqb file_node_eqb (dm_files a) (dm_files b) &&
  list_eqb dir_node_eqb (dm_dirs a) (dm_dirs b) &&
  list_eqb sym_node_eqb (dm_syms a) (dm_syms b).
Definition blob_eqb (a b : blob D) : bool :=
  match a, b with
  | BFile x, BFile y => String.eqb x y
  | BDirectory m, BDirectory n => dirmsg_eqb m n
  | BTree l, BTree k => list_eqb (fun p q => Bool.eqb (fst p) (fst q) && dirmsg_eqb (snd p) (snd q)) l k
  | _, _ => false
  end.

Definition out_file_eqb (a b : out_file D) : bool :=
  String.eqb (of_path a) (of_path b) && D_eqb (of_digest a) (of_digest b) && Bool.eqb (of_exec a) (of_exec b).
Definition out_dir_eqb (a b : out_dir D) : bool :=
  String.eqb (od_path a) (od_path b) && D_eqb (od_tree a) (od_tree b) &&
  Bool.eqb (od_sorted a) (od_sorted b) && option_eqb D_eqb (od_root a) (od_root b).
Definition out_sym_eqb (a b : out_sym) : bool :=
  String.eqb (os_path a) (os_path b) && String.eqb (os_target a) (os_target b).

Definition mem (d : D) (l : list D) : bool := existsb (D_eqb d) l.

(* ---- well-formed Tree ------------------------------------------------------ *)

Definition child_digests (m : dirmsg D) : list D := map dn_digest (dm_dirs m).

(* Every child a directory refers to occurs later in the list, and no
   directory occurs twice. *)
Fixpoint wf_msgs (l : list (dirmsg D)) : bool :=
  match l with
  | [] => true
  | m :: r =>
    let ds := map (hash_msg hash) r in
    forallb (fun c => mem c ds) (child_digests m) && negb (mem (hash_msg hash m) ds) && wf_msgs r
  end.

(* Every directory but the first is referred to by an earlier one. *)
Fixpoint all_referenced (acc : list D) (l : list (dirmsg D)) : bool :=
  match l with
  | [] => true
  | m :: r => mem (hash_msg hash m) acc && all_referenced (acc ++ child_digests m) r
  end.

Definition wf_tree (tms : list (bool * dirmsg D)) : bool :=
  match tms with
  | [] => false
  | (tag, root) :: rest =>
    tag && forallb (fun p => negb (fst p)) rest &&
    wf_msgs (root :: map snd rest) &&
    all_referenced (child_digests root) (map snd rest)
  end.

(* ---- a Tree describes a directory ----------------------------------------- *)

Definition files_of (es : entries) : list (string * bool * string) :=
  flat_map (fun p => match snd p with File x data => [(fst p, x, data)] | _ => [] end) es.

Definition syms_of (es : entries) : list (string * string) :=
  flat_map (fun p => match snd p with
                     | Symlink t => match good_target t with Some s => [(fst p, s)] | None => [] end
                     | _ => [] end) es.

Definition file_matches (f : string * bool * string) (n : file_node D) : bool :=
  let '(name, x, data) := f in
  String.eqb name (fn_name n) && Bool.eqb x (fn_exec n) && D_eqb (hash (BFile data)) (fn_digest n).

Definition sym_matches (s : string * string) (n : sym_node) : bool :=
  String.eqb (fst s) (sn_name n) && String.eqb (snd s) (sn_target n).

Fixpoint all2 {A B} (f : A -> B -> bool) (a : list A) (b : list B) : bool :=
  match a, b with
  | [], [] => true
  | x :: a', y :: b' => f x y && all2 f a' b'
  | _, _ => false
  end.

(* Digest [d] names, among [msgs], a Directory message that lists exactly
   the files (name, executable bit, content digest), symlinks (name,
   target) and sub-directories (name, recursively) of directory [c], each
   kind in the order of the directory listing; special files are left out. *)
Fixpoint denotes (msgs : list (dirmsg D)) (c : node) (d : D) {struct c} : bool :=
  match c with
  | Dir ces =>
    match find (fun m => D_eqb (hash_msg hash m) d) msgs with
    | None => false
    | Some m =>
      all2 file_matches (files_of ces) (dm_files m) &&
      all2 sym_matches (syms_of ces) (dm_syms m) &&
      (fix go (l : entries) (dns : list (dir_node D)) {struct l} : bool :=
         match l with
         | [] => match dns with [] => true | _ :: _ => false end
         | (n, c') :: r =>
           match c' with
           | Dir _ =>
             match dns with
             | dn :: dns' => String.eqb n (dn_name dn) && denotes msgs c' (dn_digest dn) && go r dns'
             | [] => false
             end
           | _ => go r dns
           end
         end) ces (dm_dirs m)
    end
  | _ => false
  end.

(* ---- expected ActionResult ------------------------------------------------- *)

Definition exp_files (decls : list (string * list comp)) (es : entries) : list (out_file D) :=
  flat_map (fun pl => match probe es (snd pl) with
                      | Found (File x data) => [mkOF (fst pl) (hash (BFile data)) x]
                      | _ => [] end) decls.

Definition exp_syms (decls : list (string * list comp)) (es : entries) : list out_sym :=
  flat_map (fun pl => match probe es (snd pl) with
                      | Found (Symlink t) =>
                        match good_target t with Some s => [mkOS (fst pl) s] | None => [] end
                      | _ => [] end) decls.

Definition exp_dir_paths (decls : list (string * list comp)) (es : entries) : list string :=
  flat_map (fun pl => match probe es (snd pl) with
                      | Found (Dir _) => [fst pl]
                      | _ => [] end) decls.

(* UploadOutputs must fail iff some declared location is something that
   cannot be reported. *)
Definition exp_err (decls : list (string * list comp)) (es : entries) : bool :=
  existsb (fun pl => match probe es (snd pl) with
                     | Found Special => true
                     | Found (Symlink t) => match good_target t with None => true | Some _ => false end
                     | Found (Dir ces) => bad_sym_inside (Dir ces)
                     | Blocked => true
                     | _ => false end) decls.

(* One reported output directory: declared, resolves to a directory, and
   its Tree is well formed and describes that directory. *)
Definition dir_entry_ok (table : list (D * blob D)) (tad : bool)
    (decls : list (string * list comp)) (es : entries) (o : out_dir D) : string :=
  match find (fun pl => String.eqb (fst pl) (od_path o)) decls with
  | None => "dir-not-declared"
  | Some pl =>
    match probe es (snd pl) with
    | Found (Dir ces) =>
      match find (fun e => D_eqb (fst e) (od_tree o) &&
                            match snd e with BTree _ => true | _ => false end) table with
      | Some (_, BTree tms) =>
        if negb (wf_tree tms) then "tree-malformed"
        else match tms with
             | (_, root) :: _ =>
               if negb (denotes (map snd tms) (Dir ces) (hash_msg hash root)) then "tree-wrong-contents"
               else if negb (od_sorted o) then "tree-not-marked-sorted"
               else if negb (option_eqb D_eqb (od_root o) (if tad then Some (hash_msg hash root) else None))
                    then "root-directory-digest"
               else ""
             | [] => "tree-malformed"
             end
      | _ => "tree-not-in-cas"
      end
    | _ => "dir-kind"
    end
  end.

Fixpoint first_nonempty (l : list string) : string :=
  match l with
  | [] => ""
  | s :: r => if String.eqb s "" then first_nonempty r else s
  end.

(* P for the upload: "" or the kind of violation. *)
Definition p_upload (table : list (D * blob D)) (c : command) (force : bool) (post : entries)
    (files : list (out_file D)) (dirs : list (out_dir D)) (syms : list out_sym) (err : bool) : string :=
  match declared c with
  | None => ""
  | Some decls =>
    if negb (perm_eqb out_file_eqb files (exp_files decls post)) then "output-files"
    else if negb (perm_eqb out_sym_eqb syms (exp_syms decls post)) then "output-symlinks"
    else if negb (perm_eqb String.eqb (map od_path dirs) (exp_dir_paths decls post)) then "output-directories"
    else match first_nonempty (map (dir_entry_ok table (c_tad c || force) decls post) dirs) with
         | "" => if Bool.eqb err (exp_err decls post) then "" else "upload-error-flag"
         | k => k
         end
  end.

End WithDigest.

Arguments blob_eqb {D}. Arguments dirmsg_eqb {D}.
Arguments out_file_eqb {D}. Arguments out_dir_eqb {D}.
Arguments child_digests {D}. Arguments wf_msgs {D}. Arguments all_referenced {D}. Arguments wf_tree {D}.
Arguments denotes {D}. Arguments exp_files {D}.
Arguments dir_entry_ok {D}. Arguments p_upload {D}. Arguments mem {D}.
Arguments file_matches {D}.

(* ---- parents ---------------------------------------------------------------- *)

(* [b] has everything [a] has, unchanged except that directories may have
   gained entries. *)
Fixpoint extends (a b : node) {struct a} : bool :=
  match a, b with
  | Dir es, Dir fs =>
    (fix go (l : entries) : bool :=
       match l with
       | [] => true
       | (n, c) :: l' =>
         match lookup n fs with
         | Some c' => extends c c' && go l'
         | None => false
         end
       end) es
  | _, _ => node_eqb a b
  end.

(* Locations of all nodes below [c] (at [here], reversed), with "is an
   empty-or-directories-only directory" flag. *)
Fixpoint locs_below (c : node) (here : list comp) {struct c} : list (list comp * bool) :=
  match c with
  | Dir es =>
    (rev here, true) ::
    (fix go (l : entries) : list (list comp * bool) :=
       match l with
       | [] => []
       | (n, c') :: r => locs_below c' (n :: here) ++ go r
       end) es
  | _ => [(rev here, false)]
  end.

(* Locations present in [b] but not in [a]. *)
Fixpoint added (a b : node) (here : list comp) {struct b} : list (list comp * bool) :=
  match b with
  | Dir fs =>
    (fix go (l : entries) : list (list comp * bool) :=
       match l with
       | [] => []
       | (n, c') :: r =>
         (match a with
          | Dir es => match lookup n es with
                      | Some c => added c c' (n :: here)
                      | None => locs_below c' (n :: here)
                      end
          | _ => []
          end) ++ go r
       end) fs
  | _ => []
  end.

(* What a directory is: within each listing (hereditarily) the names are
   distinct.  [lookup]/[extends] identify an entry by its name, so the frame
   predicate below is only meaningful for such input roots; Corr.v checks it
   of every recorded input root. *)
Fixpoint names_distinct (n : node) {struct n} : bool :=
  match n with
  | Dir es =>
    (fix go (l : entries) : bool :=
       match l with
       | [] => true
       | (k, c) :: r => negb (existsb (String.eqb k) (map fst r)) && names_distinct c && go r
       end) es
  | _ => true
  end.

Definition parent_locs (decls : list (string * list comp)) : list (list comp) :=
  flat_map (fun pl => match snd pl with [] => [] | _ :: _ => [removelast (snd pl)] end) decls.

(* P for CreateParentDirectories, part 1 (frame): the input root is not
   damaged and nothing but ancestors of declared outputs is created. *)
Definition p_parents_frame (c : command) (pre : entries) (mid : entries) : string :=
  match declared c with
  | None => ""
  | Some decls =>
    let plocs := parent_locs decls in
    if negb (extends (Dir pre) (Dir mid)) then "input-root-damaged"
    else if negb (forallb (fun a => snd a && existsb (is_prefix (fst a)) plocs) (added (Dir pre) (Dir mid) []))
         then "created-something-else"
    else ""
  end.

(* Part 2 (existence): unless the input root has a non-directory on the way,
   there is no error and every declared output's parent is a directory. *)
Definition p_parents_exist (c : command) (pre : entries) (ok : bool) (mid : entries) : string :=
  match declared c with
  | None => ""
  | Some decls =>
    let plocs := parent_locs decls in
    if forallb (clear pre) plocs then
      if negb ok then "parents-error"
      else if negb (forallb (fun pl => match probe mid pl with Found (Dir _) => true | _ => false end) plocs)
           then "parent-missing"
      else ""
    else ""
  end.

Definition p_parents (c : command) (pre : entries) (ok : bool) (mid : entries) : string :=
  match p_parents_frame c pre mid with
  | "" => p_parents_exist c pre ok mid
  | k => k
  end.

(* P for rejection: a command is rejected exactly if its working
   directory or one of its output paths is absolute, has a NUL byte or
   escapes the input root; a rejected command leaves everything untouched. *)
Definition p_reject (c : command) (accepted touched : bool) : string :=
  if acceptable c then (if accepted then "" else "valid-command-rejected")
  else if accepted then "escape-accepted"
  else if touched then "rejected-but-touched" else "".
