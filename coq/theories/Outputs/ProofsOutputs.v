(* The ActionResult: what the walk over the output trie reports is, path by
   path, what the declared paths lead to. *)
From Coq Require Import Lia Permutation.
From VF Require Import Outputs.Model Outputs.Spec Outputs.Proofs Outputs.ProofsTree.
Open Scope string_scope.
Open Scope list_scope.

(* ---- induction over the output trie ------------------------------------------ *)

Section OnodeInd.
  Variable P : onode -> Prop.
  Hypothesis H : forall paths subs, Forall (fun p => P (snd p)) subs -> P (ONode paths subs).
  Fixpoint onode_ind' (t : onode) : P t :=
    match t with
    | ONode paths subs =>
      H paths subs ((fix go (l : list (comp * onode)) : Forall (fun p => P (snd p)) l :=
                       match l with
                       | [] => Forall_nil _
                       | p :: r => Forall_cons p (onode_ind' (snd p)) (go r)
                       end) subs)
    end.
End OnodeInd.

(* ---- the declarations a trie stands for, in walk order ---------------------- *)

Definition group_decls (g : comp * list string) : list (string * list comp) :=
  map (fun o => (o, [fst g])) (snd g).

Definition under (name : comp) (d : string * list comp) : string * list comp :=
  (fst d, name :: snd d).

Fixpoint tdecls (t : onode) : list (string * list comp) :=
  match t with
  | ONode paths subs =>
    flat_map group_decls paths ++
    (fix go (l : list (comp * onode)) : list (string * list comp) :=
       match l with
       | [] => []
       | p :: r => map (under (fst p)) (tdecls (snd p)) ++ go r
       end) subs
  end.

Lemma tdecls_eq paths subs :
  tdecls (ONode paths subs) =
  flat_map group_decls paths ++ flat_map (fun p => map (under (fst p)) (tdecls (snd p))) subs.
Proof. reflexivity. Qed.

(* Every group has a declared string and every sub-trie a declaration. *)
Fixpoint trie_ok (t : onode) : Prop :=
  match t with
  | ONode paths subs =>
    Forall (fun g : comp * list string => snd g <> []) paths /\
    (fix go (l : list (comp * onode)) : Prop :=
       match l with
       | [] => True
       | p :: r => (tdecls (snd p) <> [] /\ trie_ok (snd p)) /\ go r
       end) subs
  end.

Lemma trie_ok_eq paths subs :
  trie_ok (ONode paths subs) <->
  Forall (fun g : comp * list string => snd g <> []) paths /\
  Forall (fun p : comp * onode => tdecls (snd p) <> [] /\ trie_ok (snd p)) subs.
Proof.
  cbn [trie_ok]. apply and_iff_compat_l.
  induction subs as [|p r IH]; [split; auto|].
  rewrite Forall_cons_iff, IH. reflexivity.
Qed.

(* ---- alter ---------------------------------------------------------------------- *)

Lemma alter_perm {V B} (g : comp * V -> list B) (dflt : V) (f : V -> V) k x l :
  (forall v, Permutation (g (k, f v)) (x :: g (k, v))) -> g (k, dflt) = [] ->
  Permutation (flat_map g (alter dflt f k l)) (x :: flat_map g l).
Proof.
  intros Hf Hd. induction l as [|[k' v] r IH]; cbn [alter flat_map].
  - rewrite app_nil_r. rewrite (Hf dflt), Hd. reflexivity.
  - destruct (String.eqb k k') eqn:E.
    + apply String.eqb_eq in E. subst k'. cbn [flat_map]. rewrite (Hf v). reflexivity.
    + destruct (str_ltb k k'); cbn [flat_map].
      * rewrite (Hf dflt), Hd. reflexivity.
      * rewrite IH. symmetry. apply Permutation_middle.
Qed.

Lemma alter_Forall {V} (Q : comp * V -> Prop) (dflt : V) (f : V -> V) k l :
  (forall v, (v = dflt \/ In (k, v) l) -> Q (k, f v)) -> Forall Q l -> Forall Q (alter dflt f k l).
Proof.
  intros Hf Hl. induction l as [|[k' v] r IH]; cbn [alter].
  - constructor; [apply Hf; now left|constructor].
  - inversion Hl as [|? ? Hq Hr]; subst. destruct (String.eqb k k') eqn:E.
    + apply String.eqb_eq in E. subst k'. constructor; [apply Hf; right; now left|exact Hr].
    + destruct (str_ltb k k').
      * constructor; [apply Hf; now left|exact Hl].
      * constructor; [exact Hq|]. apply IH; [|exact Hr]. intros v' [->|Hin]; apply Hf; [now left|right; now right].
Qed.

(* ---- registering a path ------------------------------------------------------- *)

Lemma add_path_cons2 c c' rest orig paths subs :
  add_path (c :: c' :: rest) orig (ONode paths subs) =
  ONode paths (alter empty_onode (add_path (c' :: rest) orig) c subs).
Proof. reflexivity. Qed.

Lemma add_path_perm loc : forall orig t, loc <> [] ->
  Permutation (tdecls (add_path loc orig t)) ((orig, loc) :: tdecls t).
Proof.
  induction loc as [|c rest IH]; intros orig [paths subs] Hne; [contradiction|].
  destruct rest as [|c' rest'].
  - cbn [add_path o_paths o_subs]. rewrite !tdecls_eq. rewrite app_comm_cons.
    apply Permutation_app_tail. apply alter_perm; [|reflexivity].
    intros v. unfold group_decls. cbn [fst snd]. rewrite map_app. cbn [map].
    symmetry. apply Permutation_cons_append.
  - rewrite add_path_cons2, !tdecls_eq.
    rewrite (alter_perm (fun p : comp * onode => map (under (fst p)) (tdecls (snd p)))
                        empty_onode (add_path (c' :: rest') orig) c (orig, c :: c' :: rest')).
    + symmetry. apply Permutation_middle.
    + intros v. cbn [fst snd]. rewrite (IH orig v ltac:(discriminate)). reflexivity.
    + reflexivity.
Qed.

Lemma add_path_ok loc : forall orig t, loc <> [] -> trie_ok t -> trie_ok (add_path loc orig t).
Proof.
  induction loc as [|c rest IH]; intros orig [paths subs] Hne Hok; [contradiction|].
  apply trie_ok_eq in Hok as [Hp Hs].
  destruct rest as [|c' rest'].
  - cbn [add_path o_paths o_subs]. apply trie_ok_eq. split; [|exact Hs].
    apply alter_Forall; [|exact Hp]. intros v _. cbn [snd]. now destruct v.
  - rewrite add_path_cons2. apply trie_ok_eq. split; [exact Hp|].
    apply alter_Forall; [|exact Hs]. intros v Hv. cbn [snd].
    assert (trie_ok v) as Hv'.
    { destruct Hv as [->|Hin]; [apply trie_ok_eq; split; constructor|].
      rewrite Forall_forall in Hs. apply (Hs _ Hin). }
    split; [|apply IH; [discriminate|exact Hv']].
    intros Hnil. pose proof (add_path_perm (c' :: rest') orig v ltac:(discriminate)) as H2.
    rewrite Hnil in H2. now apply Permutation_nil in H2.
Qed.

Lemma add_path_spec loc orig t : loc <> [] -> trie_ok t ->
  trie_ok (add_path loc orig t) /\ Permutation (tdecls (add_path loc orig t)) ((orig, loc) :: tdecls t).
Proof. intros H1 H2. split; [now apply add_path_ok|now apply add_path_perm]. Qed.

Lemma empty_trie_ok : trie_ok empty_onode.
Proof. apply trie_ok_eq. split; constructor. Qed.

Definition root_decls (roots : list string) : list (string * list comp) :=
  map (fun o => (o, @nil comp)) roots.

Lemma register_spec wd ps : forall root roots root' roots' decls,
  trie_ok root ->
  register wd ps root roots = Some (root', roots') ->
  locate_all wd ps = Some decls ->
  trie_ok root' /\
  Permutation (root_decls roots' ++ tdecls root') (root_decls roots ++ tdecls root ++ decls).
Proof.
  induction ps as [|p ps IH]; intros root roots root' roots' decls Hok Hreg Hloc; cbn [register locate_all] in *.
  - injection Hreg as <- <-. injection Hloc as <-. rewrite app_nil_r. auto.
  - destruct (resolve wd p) as [loc|]; [|discriminate].
    destruct (locate_all wd ps) as [ds|] eqn:El; [|discriminate]. injection Hloc as <-.
    destruct loc as [|c l].
    + destruct (IH _ _ _ _ ds Hok Hreg eq_refl) as [H1 H2]. split; [exact H1|].
      rewrite H2. unfold root_decls. rewrite map_app. cbn [map]. rewrite <- !app_assoc. cbn [app].
      apply Permutation_app_head. first [apply Permutation_middle | symmetry; apply Permutation_middle].
    + destruct (add_path_spec (c :: l) p root ltac:(discriminate) Hok) as [Hok' Hp].
      destruct (IH _ _ _ _ ds Hok' Hreg eq_refl) as [H1 H2]. split; [exact H1|].
      rewrite H2, Hp. apply Permutation_app_head. cbn [app].
      apply perm_trans with ((p, c :: l) :: (tdecls root ++ ds)); [reflexivity|].
      first [apply Permutation_middle | symmetry; apply Permutation_middle].
Qed.

Definition hdecls (h : hierarchy) : list (string * list comp) :=
  root_decls (h_roots h) ++ tdecls (h_root h).

(* The hierarchy stands for exactly the declared paths (as a multiset of
   (declared string, location) pairs). *)
Lemma new_hierarchy_decls c h decls :
  new_hierarchy c = Some h -> declared c = Some decls ->
  trie_ok (h_root h) /\ Permutation (hdecls h) decls /\ h_tad h = c_tad c.
Proof.
  unfold new_hierarchy, declared. destruct (resolve [] (c_wd c)) as [wd|]; [|discriminate].
  destruct (register wd (c_paths c) empty_onode []) as [[root roots]|] eqn:E; [|discriminate].
  intros [= <-] Hl. destruct (register_spec _ _ _ _ _ _ _ empty_trie_ok E Hl) as [H1 H2].
  cbn [h_root h_roots h_tad]. auto.
Qed.

(* ---- what one declaration contributes --------------------------------------- *)

Section Upload.
Variable D : Type.
Variable D_eqb : D -> D -> bool.
Variable hash : blob D -> D.
Hypothesis D_eqb_spec : forall a b, D_eqb a b = true <-> a = b.
Hypothesis hash_msg_inj : forall m1 m2 : dirmsg D, hash (BDirectory m1) = hash (BDirectory m2) -> m1 = m2.

Notation hmsg := (hash_msg hash).
Notation msg_of := (msg_of D hash).

(* The Tree of a directory, as uploadOutputDirectoryEntered assembles it. *)
Definition tree_msgs (ces : entries) : list (bool * dirmsg D) :=
  tag_root (rev (pushes D D_eqb hash [] (post_order D hash ces))).

Definition c_file (es : entries) (pl : string * list comp) : list (out_file D) :=
  match probe es (snd pl) with
  | Found (File x data) => [mkOF (fst pl) (hash (BFile data)) x]
  | _ => []
  end.

Definition c_sym (es : entries) (pl : string * list comp) : list out_sym :=
  match probe es (snd pl) with
  | Found (Symlink t) => match good_target t with Some s => [mkOS (fst pl) s] | None => [] end
  | _ => []
  end.

Definition c_dir (tad : bool) (es : entries) (pl : string * list comp) : list (out_dir D) :=
  match probe es (snd pl) with
  | Found (Dir ces) =>
    [mkOD (fst pl) (hash (BTree (tree_msgs ces))) true (if tad then Some (hmsg (msg_of ces)) else None)]
  | _ => []
  end.

Definition c_err (es : entries) (pl : string * list comp) : bool :=
  match probe es (snd pl) with
  | Found Special => true
  | Found (Symlink t) => match good_target t with None => true | Some _ => false end
  | Found (Dir ces) => bad_sym_inside (Dir ces)
  | Blocked => true
  | _ => false
  end.

(* The part of the result the property speaks about. *)
Definition view := (list (out_file D) * list (out_dir D) * list out_sym * bool)%type.

Definition view_of (r : result D) : view := (r_files r, r_dirs r, r_syms r, r_err r).

Definition contrib (tad : bool) (es : entries) (l : list (string * list comp)) : view :=
  (flat_map (c_file es) l, flat_map (c_dir tad es) l, flat_map (c_sym es) l, existsb (c_err es) l).

Definition acc (v a : view) : view :=
  let '(f, d, s, e) := v in let '(f', d', s', e') := a in (f ++ f', d ++ d', s ++ s', e || e').

Lemma acc_assoc v a b : acc (acc v a) b = acc v (acc a b).
Proof.
  destruct v as [[[f d] s] e], a as [[[f1 d1] s1] e1], b as [[[f2 d2] s2] e2]. cbn.
  now rewrite !app_assoc, orb_assoc.
Qed.

Lemma contrib_app tad es l1 l2 : contrib tad es (l1 ++ l2) = acc (contrib tad es l1) (contrib tad es l2).
Proof. unfold contrib, acc. now rewrite !flat_map_app, existsb_app. Qed.

Lemma contrib_nil tad es : contrib tad es [] = ([], [], [], false).
Proof. reflexivity. Qed.

Lemma acc_nil v : acc v ([], [], [], false) = v.
Proof. destruct v as [[[f d] s] e]. cbn. now rewrite !app_nil_r, orb_false_r. Qed.

(* A group of declared strings for one name: all lead to the same place. *)
Opaque bad_sym_inside.
Lemma contrib_group tad es name origs :
  contrib tad es (group_decls (name, origs)) =
  match lookup name es with
  | None => ([], [], [], false)
  | Some (File x data) => (map (fun p => mkOF p (hash (BFile data)) x) origs, [], [], false)
  | Some (Dir ces) =>
    ([], map (fun p => mkOD p (hash (BTree (tree_msgs ces))) true
                            (if tad then Some (hmsg (msg_of ces)) else None)) origs, [],
     match origs with [] => false | _ => bad_sym_inside (Dir ces) end)
  | Some (Symlink t) =>
    match good_target t with
    | Some s => ([], [], map (fun p => mkOS p s) origs, false)
    | None => ([], [], [], match origs with [] => false | _ => true end)
    end
  | Some Special => ([], [], [], match origs with [] => false | _ => true end)
  end.
Proof.
  unfold group_decls. cbn [fst snd].
  assert (forall o : string, probe es (snd (o, [name])) =
            match lookup name es with None => Absent | Some n => Found n end) as Hpr.
  { intros o. cbn [snd probe]. destruct (lookup name es) as [[| ces | |]|]; reflexivity. }
  unfold contrib, c_file, c_dir, c_sym, c_err.
  destruct (lookup name es) as [[x data| ces | t |]|]; [| |destruct (good_target t) eqn:Eg| |];
    (induction origs as [|o r IH]; [reflexivity|]; cbn [map flat_map existsb]; rewrite !Hpr; cbn [fst];
     injection IH as IH1 IH2 IH3 IH4; rewrite IH1, IH2, IH3, IH4; try rewrite Eg; cbn [app orb]; try reflexivity).
  destruct r; [now rewrite orb_false_r|now rewrite orb_diag].
Qed.

Lemma up_output_dir_view tad ces origs (r : result D) :
  view_of (up_output_dir D D_eqb hash tad ces origs r) =
  acc (view_of r)
      ([], map (fun p => mkOD p (hash (BTree (tree_msgs ces))) true
                              (if tad then Some (hmsg (msg_of ces)) else None)) origs, [],
       bad_sym_inside (Dir ces)).
Proof.
  unfold up_output_dir. rewrite (up_dir_pure D D_eqb hash). unfold walk_state, view_of, acc.
  cbn [ds_dirs ds_uploads ds_err r_files r_dirs r_syms r_err]. unfold tree_msgs.
  now rewrite !app_nil_r.
Qed.

Lemma up_path_view tad es name origs (r : result D) : origs <> [] ->
  view_of (up_path D D_eqb hash tad es name origs r) =
  acc (view_of r) (contrib tad es (group_decls (name, origs))).
Proof.
  intros Hne. rewrite contrib_group. unfold up_path.
  destruct (lookup name es) as [[x data| ces | t |]|].
  - unfold view_of, acc. cbn. now rewrite !app_nil_r, orb_false_r.
  - rewrite up_output_dir_view. now destruct origs.
  - unfold report_target, good_target. destruct (norm_target t); unfold view_of, acc, set_err; cbn.
    + now rewrite !app_nil_r, orb_false_r.
    + destruct origs; [contradiction|]. now rewrite !app_nil_r, orb_true_r.
  - unfold view_of, acc, set_err. cbn. destruct origs; [contradiction|]. now rewrite !app_nil_r, orb_true_r.
  - now rewrite acc_nil.
Qed.

Lemma up_paths_view tad es paths : forall (r : result D),
  Forall (fun g : comp * list string => snd g <> []) paths ->
  view_of (up_paths D D_eqb hash tad es paths r) =
  acc (view_of r) (contrib tad es (flat_map group_decls paths)).
Proof.
  induction paths as [|[name origs] l IH]; intros r Hf; cbn [up_paths flat_map].
  - now rewrite contrib_nil, acc_nil.
  - inversion Hf as [|? ? Hg Hl]; subst. rewrite IH by exact Hl.
    rewrite up_path_view by exact Hg. now rewrite contrib_app, acc_assoc.
Qed.

(* Declarations below a name that is absent, or not a directory. *)
Lemma contrib_under_absent tad es name l :
  lookup name es = None -> contrib tad es (map (under name) l) = ([], [], [], false).
Proof.
  intros Hl. unfold contrib, c_file, c_dir, c_sym, c_err.
  induction l as [|d r IH]; [reflexivity|]. cbn [map flat_map existsb under snd probe]. rewrite Hl.
  injection IH as -> -> -> ->. reflexivity.
Qed.

Lemma contrib_under_dir tad es name ces l :
  lookup name es = Some (Dir ces) -> contrib tad es (map (under name) l) = contrib tad ces l.
Proof.
  intros Hl. unfold contrib, c_file, c_dir, c_sym, c_err.
  induction l as [|d r IH]; [reflexivity|]. cbn [map flat_map existsb under fst snd probe]. rewrite Hl.
  injection IH as -> -> -> ->. reflexivity.
Qed.

Lemma contrib_under_blocked tad es name n l :
  lookup name es = Some n -> (forall ces, n <> Dir ces) ->
  Forall (fun d : string * list comp => snd d <> []) l -> l <> [] ->
  contrib tad es (map (under name) l) = ([], [], [], true).
Proof.
  intros Hl Hn Hf Hne.
  assert (forall d : string * list comp, snd d <> [] -> probe es (snd (under name d)) = Blocked) as Hb.
  { intros [o loc] Hd. cbn [under fst snd probe] in *. rewrite Hl.
    destruct n as [| ces | |]; try (destruct loc; [contradiction|reflexivity]). now destruct (Hn ces). }
  assert (contrib tad es (map (under name) l) = ([], [], [], match l with [] => false | _ => true end)) as ->.
  { clear Hne. unfold contrib, c_file, c_dir, c_sym, c_err.
    induction l as [|d r IH]; [reflexivity|]. cbn [map flat_map existsb].
    inversion Hf as [|? ? Hd Hr]; subst. rewrite (Hb d Hd). cbn [app orb].
    specialize (IH Hr). injection IH as -> -> -> _. reflexivity. }
  now destruct l.
Qed.

Lemma tdecls_nonempty_locs t : Forall (fun d : string * list comp => snd d <> []) (tdecls t).
Proof.
  destruct t as [paths subs]. rewrite tdecls_eq. apply Forall_app. split; apply Forall_forall; intros d Hd.
  - apply in_flat_map in Hd as [g [_ Hd]]. unfold group_decls in Hd. apply in_map_iff in Hd as [o [<- _]]. discriminate.
  - apply in_flat_map in Hd as [p [_ Hd]]. apply in_map_iff in Hd as [d' [<- _]]. discriminate.
Qed.

(* outputNode.uploadOutputs reports, in walk order, what each declaration
   of the trie leads to. *)
Lemma up_out_view tad t : forall es (r : result D), trie_ok t ->
  view_of (up_out D D_eqb hash tad t es r) = acc (view_of r) (contrib tad es (tdecls t)).
Proof.
  induction t as [paths subs IH] using onode_ind'; intros es r Hok.
  apply trie_ok_eq in Hok as [Hp Hs]. rewrite tdecls_eq, contrib_app, <- acc_assoc.
  cbn [up_out]. rewrite <- (up_paths_view tad es paths r Hp).
  generalize (up_paths D D_eqb hash tad es paths r) as r1. clear r.
  induction IH as [|[name child] l Hc Hl IHl]; intros r1; cbn [flat_map].
  - now rewrite contrib_nil, acc_nil.
  - inversion Hs as [|? ? [Hne Hcok] Hs']; subst. cbn [fst snd] in *.
    rewrite contrib_app, <- acc_assoc.
    match goal with |- view_of (?go l ?r2) = _ => rewrite (IHl Hs' r2) end. f_equal.
    destruct (lookup name es) as [n|] eqn:El.
    + destruct n as [x data| ces | t' |];
        try (rewrite (contrib_under_blocked tad es name _ _ El) by
               (try discriminate; auto using tdecls_nonempty_locs);
             unfold view_of, acc, set_err; cbn; now rewrite !app_nil_r, orb_true_r).
      rewrite (contrib_under_dir tad es name ces _ El). apply Hc. exact Hcok.
    + rewrite (contrib_under_absent tad es name _ El). now rewrite acc_nil.
Qed.

Lemma contrib_roots tad es roots :
  contrib tad es (root_decls roots) =
  ([], map (fun p => mkOD p (hash (BTree (tree_msgs es))) true
                          (if tad then Some (hmsg (msg_of es)) else None)) roots, [],
   match roots with [] => false | _ => bad_sym_inside (Dir es) end).
Proof.
  unfold contrib, c_file, c_dir, c_sym, c_err, root_decls.
  induction roots as [|o r IH]; [reflexivity|]. cbn [map flat_map existsb snd fst probe].
  injection IH as -> -> -> ->. cbn [app]. destruct r; [now rewrite orb_false_r|now rewrite orb_diag].
Qed.

(* OutputHierarchy.UploadOutputs, in terms of the declarations of the
   hierarchy. *)
Lemma upload_view h force es : trie_ok (h_root h) ->
  view_of (upload D D_eqb hash h force es) = contrib (h_tad h || force) es (hdecls h).
Proof.
  intros Hok. unfold upload, hdecls. rewrite up_out_view by exact Hok. rewrite contrib_app. f_equal.
  rewrite contrib_roots. destruct (h_roots h) as [|o r]; [reflexivity|].
  rewrite up_output_dir_view. reflexivity.
Qed.

(* ---- permutations ------------------------------------------------------------ *)

Lemma existsb_perm {A} (f : A -> bool) l1 l2 : Permutation l1 l2 -> existsb f l1 = existsb f l2.
Proof.
  induction 1; cbn [existsb]; try congruence.
  rewrite !orb_assoc. f_equal. apply orb_comm.
Qed.

(* The ActionResult lists exactly what the declared paths lead to: every
   declared string whose location holds a regular file, directory or
   symlink, once per declaration, with the executable bit, the content
   digest, the normalised target; and UploadOutputs fails exactly if some
   declared location cannot be reported. *)
Lemma outputs_exact_lemma c h decls force es :
  new_hierarchy c = Some h -> declared c = Some decls ->
  let r := upload D D_eqb hash h force es in
  let tad := c_tad c || force in
  Permutation (r_files r) (exp_files hash decls es) /\
  Permutation (r_syms r) (exp_syms decls es) /\
  Permutation (r_dirs r) (flat_map (c_dir tad es) decls) /\
  r_err r = exp_err decls es.
Proof.
  intros Hn Hd. destruct (new_hierarchy_decls c h decls Hn Hd) as [Hok [Hperm Htad]].
  pose proof (upload_view h force es Hok) as Hv. rewrite Htad in Hv.
  unfold view_of, contrib in Hv. injection Hv as H1 H2 H3 H4. cbn zeta.
  rewrite H1, H2, H3, H4. repeat split.
  - apply Permutation_flat_map. exact Hperm.
  - apply Permutation_flat_map. exact Hperm.
  - apply Permutation_flat_map. exact Hperm.
  - apply existsb_perm. exact Hperm.
Qed.

End Upload.
