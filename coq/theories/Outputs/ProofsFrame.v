(* CreateParentDirectories, the frame half of the monitor: the input root is
   not damaged ([extends]) and nothing but directories on the way to a
   declared output's parent is created ([added]).

   Both boolean walks are related to a semantic view of a tree, [get n q] =
   the node at relative location q: [le a b] (everything of a is still in b,
   non-directories unchanged, directories still directories) implies
   [extends a b]; an element of [added a b] is a location present in b and
   absent in a.  mk_parents is then followed entry by entry (mkdir, replace)
   in terms of [le] and "what is new is a directory at a node of the trie". *)
From Coq Require Import Lia Permutation.
From VF Require Import Outputs.Model Outputs.Spec Outputs.Proofs Outputs.ProofsTree Outputs.ProofsOutputs
  Outputs.ProofsParents Outputs.ProofsMain Outputs.ProofsP.
Open Scope string_scope.
Open Scope list_scope.

(* ---- distinct names --------------------------------------------------------------- *)

Lemma nd_cons k c r :
  names_distinct (Dir ((k, c) :: r)) =
  negb (existsb (String.eqb k) (map fst r)) && names_distinct c && names_distinct (Dir r).
Proof. reflexivity. Qed.

Lemma existsb_name_lookup {V} k (l : list (string * V)) :
  existsb (String.eqb k) (map fst l) = match lookup k l with Some _ => true | None => false end.
Proof.
  induction l as [|[a b] r IH]; [reflexivity|]. cbn [map fst existsb lookup].
  destruct (String.eqb k a); [reflexivity|exact IH].
Qed.

Lemma nd_In_lookup es n c : names_distinct (Dir es) = true -> In (n, c) es -> lookup n es = Some c.
Proof.
  induction es as [|[k c0] r IH]; intros Hnd Hin; [destruct Hin|].
  rewrite nd_cons in Hnd. apply andb_true_iff in Hnd as [Hnd Hr]. apply andb_true_iff in Hnd as [Hk Hc0].
  cbn [lookup]. destruct Hin as [[= -> ->]|Hin]; [now rewrite String.eqb_refl|].
  destruct (String.eqb n k) eqn:E; [|now apply IH].
  apply String.eqb_eq in E. subst k. rewrite existsb_name_lookup, (IH Hr Hin) in Hk. discriminate.
Qed.

Lemma nd_lookup es n c : names_distinct (Dir es) = true -> lookup n es = Some c -> names_distinct c = true.
Proof.
  induction es as [|[k c0] r IH]; intros Hnd Hl; [discriminate|].
  rewrite nd_cons in Hnd. apply andb_true_iff in Hnd as [Hnd Hr]. apply andb_true_iff in Hnd as [Hk Hc0].
  cbn [lookup] in Hl. destruct (String.eqb n k); [now injection Hl as <-|now apply IH].
Qed.

Lemma lookup_In {V} n (es : list (string * V)) c : lookup n es = Some c -> In (n, c) es.
Proof.
  induction es as [|[k c0] r IH]; [discriminate|]. cbn [lookup].
  destruct (String.eqb n k) eqn:E; [apply String.eqb_eq in E; intros [= ->]; subst; now left|right; now apply IH].
Qed.

Lemma nd_snoc es k c :
  names_distinct (Dir es) = true -> lookup k es = None -> names_distinct c = true ->
  names_distinct (Dir (es ++ [(k, c)])) = true.
Proof.
  induction es as [|[a b] r IH]; intros Hnd Hl Hc.
  - cbn. now rewrite Hc.
  - cbn [app]. rewrite nd_cons in *. apply andb_true_iff in Hnd as [Hnd Hr]. apply andb_true_iff in Hnd as [Ha Hb].
    cbn [lookup] in Hl. destruct (String.eqb k a) eqn:E; [discriminate|].
    rewrite Hb, (IH Hr Hl Hc), map_app, existsb_app. cbn [map fst existsb].
    rewrite Bool.negb_orb, Ha, String.eqb_sym, E. reflexivity.
Qed.

Lemma map_fst_replace {V} k (v : V) l : map fst (replace k v l) = map fst l.
Proof.
  induction l as [|[a b] r IH]; [reflexivity|]. cbn [replace].
  destruct (String.eqb k a); cbn [map fst]; [reflexivity|now rewrite IH].
Qed.

Lemma nd_replace es k c :
  names_distinct (Dir es) = true -> names_distinct c = true -> names_distinct (Dir (replace k c es)) = true.
Proof.
  induction es as [|[a b] r IH]; intros Hnd Hc; [reflexivity|].
  rewrite nd_cons in Hnd. apply andb_true_iff in Hnd as [Hnd Hr]. apply andb_true_iff in Hnd as [Ha Hb].
  cbn [replace]. destruct (String.eqb k a); rewrite nd_cons.
  - now rewrite Ha, Hc, Hr.
  - now rewrite map_fst_replace, Ha, Hb, (IH Hr Hc).
Qed.

(* ---- the node at a location --------------------------------------------------------- *)

Fixpoint get (n : node) (q : list comp) : option node :=
  match q with
  | [] => Some n
  | c :: r =>
    match n with
    | Dir es => match lookup c es with Some n' => get n' r | None => None end
    | _ => None
    end
  end.

Definition isdir (n : node) : bool := match n with Dir _ => true | _ => false end.

Definition same_head (n n' : node) : Prop :=
  match n with Dir _ => isdir n' = true | _ => n' = n end.

Lemma same_head_trans a b c : same_head a b -> same_head b c -> same_head a c.
Proof.
  destruct a; cbn; intros H1 H2; subst; try exact H2.
  destruct b; try discriminate. exact H2.
Qed.

Lemma same_head_refl a : same_head a a.
Proof. destruct a; reflexivity. Qed.

(* everything of [a] is still in [b] *)
Definition le (a b : node) : Prop :=
  forall q n, get a q = Some n -> exists n', get b q = Some n' /\ same_head n n'.

Lemma le_refl a : le a a.
Proof. intros q n H. exists n. split; [exact H|apply same_head_refl]. Qed.

Lemma le_trans a b c : le a b -> le b c -> le a c.
Proof.
  intros H1 H2 q n H. destruct (H1 q n H) as [n1 [G1 S1]]. destruct (H2 q n1 G1) as [n2 [G2 S2]].
  exists n2. split; [exact G2|eapply same_head_trans; eauto].
Qed.

(* ---- the boolean walks, unfolded one level ------------------------------------------- *)

Lemma extends_dir es fs :
  extends (Dir es) (Dir fs) =
  forallb (fun p => match lookup (fst p) fs with Some c' => extends (snd p) c' | None => false end) es.
Proof.
  induction es as [|[n c] r IH]; [reflexivity|]. cbn [forallb fst snd]. rewrite <- IH.
  change (extends (Dir ((n, c) :: r)) (Dir fs))
    with (match lookup n fs with Some c' => extends c c' && extends (Dir r) (Dir fs) | None => false end).
  destruct (lookup n fs); reflexivity.
Qed.

Lemma locs_below_dir es here :
  locs_below (Dir es) here =
  (rev here, true) :: flat_map (fun p => locs_below (snd p) (fst p :: here)) es.
Proof.
  change (locs_below (Dir es) here) with
    ((rev here, true) ::
     (fix go (l : entries) : list (list comp * bool) :=
        match l with [] => [] | (n, c') :: r => locs_below c' (n :: here) ++ go r end) es).
  f_equal. induction es as [|[n c] r IH]; [reflexivity|]. cbn [flat_map fst snd]. now rewrite IH.
Qed.

Definition added_entry (a : node) (here : list comp) (p : string * node) : list (list comp * bool) :=
  match a with
  | Dir es => match lookup (fst p) es with
              | Some c => added c (snd p) (fst p :: here)
              | None => locs_below (snd p) (fst p :: here)
              end
  | _ => []
  end.

Lemma added_dir a fs here : added a (Dir fs) here = flat_map (added_entry a here) fs.
Proof.
  change (added a (Dir fs) here) with
    ((fix go (l : entries) : list (list comp * bool) :=
        match l with
        | [] => []
        | (n, c') :: r =>
          (match a with
           | Dir es => match lookup n es with
                       | Some c => added c c' (n :: here)
                       | None => locs_below c' (n :: here)
                       end
           | _ => []
           end) ++ go r
        end) fs).
  induction fs as [|[n c] r IH]; [reflexivity|]. cbn [flat_map]. rewrite IH. reflexivity.
Qed.

(* ---- le implies extends ----------------------------------------------------------------- *)

Lemma extends_complete a : forall b, names_distinct a = true -> le a b -> extends a b = true.
Proof.
  induction a as [x d|es IH|t|] using node_ind'; intros b Hnd Hle.
  - destruct (Hle [] _ eq_refl) as [n' [[= <-] Hs]]. cbn in Hs. subst b. cbn.
    now rewrite Bool.eqb_reflx, String.eqb_refl.
  - destruct (Hle [] _ eq_refl) as [n' [[= <-] Hs]]. cbn in Hs. destruct b as [|fs| |]; try discriminate.
    rewrite extends_dir. apply forallb_forall. intros [n c] Hin. cbn [fst snd].
    pose proof (nd_In_lookup es n c Hnd Hin) as Hl.
    destruct (Hle [n] c) as [c' [Hg _]]; [cbn [get]; now rewrite Hl|].
    cbn [get] in Hg. destruct (lookup n fs) as [c1|] eqn:El; [|discriminate]. injection Hg as ->.
    rewrite Forall_forall in IH. apply (IH (n, c) Hin c').
    + apply (nd_lookup es n c Hnd Hl).
    + intros q x Hq. destruct (Hle (n :: q) x) as [x' [Hg' Hs']]; [cbn [get]; now rewrite Hl|].
      cbn [get] in Hg'. rewrite El in Hg'. eauto.
  - destruct (Hle [] _ eq_refl) as [n' [[= <-] Hs]]. cbn in Hs. subst b. cbn. apply String.eqb_refl.
  - destruct (Hle [] _ eq_refl) as [n' [[= <-] Hs]]. cbn in Hs. subst b. reflexivity.
Qed.

(* ---- what [added] lists is present after and absent before ------------------------------ *)

Lemma locs_below_sound c : forall here loc flag,
  names_distinct c = true -> In (loc, flag) (locs_below c here) ->
  exists q n', loc = rev here ++ q /\ get c q = Some n' /\ flag = isdir n'.
Proof.
  induction c as [x d|es IH|t|] using node_ind'; intros here loc flag Hnd Hin;
    try (destruct Hin as [[= <- <-]|[]]; exists []; eexists; rewrite app_nil_r; repeat split; reflexivity).
  rewrite locs_below_dir in Hin. destruct Hin as [[= <- <-]|Hin].
  - exists [], (Dir es). rewrite app_nil_r. repeat split.
  - apply in_flat_map in Hin as [[n c] [Hp Hin]]. cbn [fst snd] in Hin.
    pose proof (nd_In_lookup es n c Hnd Hp) as Hl.
    rewrite Forall_forall in IH. destruct (IH (n, c) Hp (n :: here) loc flag (nd_lookup es n c Hnd Hl) Hin) as [q [n' [E1 [E2 E3]]]].
    exists (n :: q), n'. split; [|split; [|exact E3]].
    + rewrite E1. cbn [rev]. now rewrite <- app_assoc.
    + cbn [get]. now rewrite Hl.
Qed.

Lemma added_sound b : forall a here loc flag,
  names_distinct b = true -> In (loc, flag) (added a b here) ->
  exists q n', loc = rev here ++ q /\ get b q = Some n' /\ get a q = None /\ flag = isdir n'.
Proof.
  induction b as [x d|fs IH|t|] using node_ind'; intros a here loc flag Hnd Hin; try (destruct Hin).
  rewrite added_dir in Hin. apply in_flat_map in Hin as [[n c'] [Hp Hin]].
  pose proof (nd_In_lookup fs n c' Hnd Hp) as Hl. pose proof (nd_lookup fs n c' Hnd Hl) as Hnd'.
  unfold added_entry in Hin. cbn [fst snd] in Hin.
  destruct a as [|es| |]; try (destruct Hin).
  destruct (lookup n es) as [c|] eqn:Ea.
  - rewrite Forall_forall in IH. destruct (IH (n, c') Hp c (n :: here) loc flag Hnd' Hin) as [q [n' [E1 [E2 [E3 E4]]]]].
    exists (n :: q), n'. split; [|split; [|split; [|exact E4]]].
    + rewrite E1. cbn [rev]. now rewrite <- app_assoc.
    + cbn [get]. now rewrite Hl.
    + cbn [get]. now rewrite Ea.
  - destruct (locs_below_sound c' (n :: here) loc flag Hnd' Hin) as [q [n' [E1 [E2 E3]]]].
    exists (n :: q), n'. split; [|split; [|split; [|exact E3]]].
    + rewrite E1. cbn [rev]. now rewrite <- app_assoc.
    + cbn [get]. now rewrite Hl.
    + cbn [get]. now rewrite Ea.
Qed.

(* ---- mk_parents, semantically --------------------------------------------------------------- *)

(* whatever is in es' and was not in es is a directory at a location of S *)
Definition news (es es' : entries) (S : list (list comp)) : Prop :=
  forall q n', get (Dir es') q = Some n' -> get (Dir es) q = None -> isdir n' = true /\ In q S.

Lemma news_refl es S : news es es S.
Proof. intros q n' H1 H2. congruence. Qed.

Lemma news_trans es es' es'' S1 S2 :
  news es es' S1 -> news es' es'' S2 -> le (Dir es') (Dir es'') -> news es es'' (S1 ++ S2).
Proof.
  intros N1 N2 L q n'' H2 H0. destruct (get (Dir es') q) as [n'|] eqn:H1.
  - destruct (N1 q n' H1 H0) as [Hd Hin]. destruct (L q n' H1) as [n2 [G2 Hs]].
    rewrite H2 in G2. injection G2 as <-. split; [|apply in_app_iff; now left].
    destruct n'; try discriminate. exact Hs.
  - destruct (N2 q n'' H2 H1) as [Hd Hin]. split; [exact Hd|apply in_app_iff; now right].
Qed.

Lemma news_incl es es' S S' : news es es' S -> incl S S' -> news es es' S'.
Proof. intros N Hi q n' H1 H2. destruct (N q n' H1 H2). split; auto. Qed.

Lemma get_nil_dir q n : get (Dir []) q = Some n -> q = [] /\ n = Dir [].
Proof. destruct q; cbn; [intros [= <-]; auto|discriminate]. Qed.

Lemma mkdir_sem name es : names_distinct (Dir es) = true ->
  names_distinct (Dir (mkdir name es)) = true /\ le (Dir es) (Dir (mkdir name es)) /\
  news es (mkdir name es) [[name]].
Proof.
  intros Hnd. unfold mkdir. destruct (lookup name es) eqn:El.
  - split; [exact Hnd|]. split; [apply le_refl|apply news_refl].
  - split; [now apply nd_snoc|]. split.
    + intros [|c r] n H.
      * injection H as <-. eexists. split; reflexivity.
      * cbn [get] in *. rewrite lookup_app_r. destruct (lookup c es) as [x|]; [|discriminate].
        exists n. split; [exact H|apply same_head_refl].
    + intros [|c r] n' H1 H0; [discriminate|]. cbn [get] in *. rewrite lookup_app_r in H1.
      destruct (lookup c es) as [x|]; [congruence|].
      destruct (String.eqb c name) eqn:E; [|discriminate]. apply String.eqb_eq in E. subst c.
      apply get_nil_dir in H1 as [-> ->]. split; [reflexivity|now left].
Qed.

Lemma replace_sem name ces ces' es S :
  names_distinct (Dir es) = true -> lookup name es = Some (Dir ces) ->
  names_distinct (Dir ces') = true -> le (Dir ces) (Dir ces') -> news ces ces' S ->
  names_distinct (Dir (replace name (Dir ces') es)) = true /\
  le (Dir es) (Dir (replace name (Dir ces') es)) /\
  news es (replace name (Dir ces') es) (map (cons name) S).
Proof.
  intros Hnd Hl Hnd' Hle Hn. split; [now apply nd_replace|]. split.
  - intros [|c r] n H.
    + injection H as <-. eexists. split; reflexivity.
    + cbn [get] in *. rewrite lookup_replace. destruct (String.eqb c name) eqn:E.
      * apply String.eqb_eq in E. subst c. rewrite Hl in *. apply Hle. exact H.
      * destruct (lookup c es); [|discriminate]. exists n. split; [exact H|apply same_head_refl].
  - intros [|c r] n' H1 H0; [discriminate|]. cbn [get] in *. rewrite lookup_replace in H1.
    destruct (String.eqb c name) eqn:E; [|congruence].
    apply String.eqb_eq in E. subst c. rewrite Hl in *.
    destruct (Hn r n' H1 H0) as [Hd Hin]. split; [exact Hd|now apply in_map].
Qed.

Lemma mk_sem t : forall es, names_distinct (Dir es) = true ->
  let es' := snd (mk_parents t es) in
  names_distinct (Dir es') = true /\ le (Dir es) (Dir es') /\ news es es' (npaths t).
Proof.
  induction t as [paths subs IH] using onode_ind'; intros es.
  revert es. induction IH as [|[name child] r Hc Hr IHr]; intros es Hnd.
  - cbn. split; [exact Hnd|]. split; [apply le_refl|apply news_refl].
  - cbn zeta. rewrite mk_parents_cons.
    (* the step for this entry *)
    assert (let es2 := snd (mk_step name child es) in
            names_distinct (Dir es2) = true /\ le (Dir es) (Dir es2) /\
            news es es2 ([name] :: map (cons name) (npaths child))) as Hstep.
    { cbn zeta. unfold mk_step. destruct (mkdir_sem name es Hnd) as [M1 [M2 M3]].
      assert (names_distinct (Dir (mkdir name es)) = true /\ le (Dir es) (Dir (mkdir name es)) /\
              news es (mkdir name es) ([name] :: map (cons name) (npaths child))) as Hm.
      { split; [exact M1|]. split; [exact M2|]. eapply news_incl; [exact M3|]. intros q [<-|[]]. now left. }
      destruct (o_subs child); [exact Hm|].
      destruct (lookup name (mkdir name es)) as [[| ces | |]|] eqn:El; try exact Hm.
      cbn [snd] in Hc. pose proof (nd_lookup _ _ _ M1 El) as Hndc. specialize (Hc ces Hndc). cbn zeta in Hc.
      destruct (mk_parents child ces) as [ok ces']. cbn [snd] in *. destruct Hc as [C1 [C2 C3]].
      destruct (replace_sem name ces ces' (mkdir name es) (npaths child) M1 El C1 C2 C3) as [R1 [R2 R3]].
      split; [exact R1|]. split; [eapply le_trans; eauto|].
      eapply news_incl; [eapply news_trans; [exact M3|exact R3|exact R2]|].
      intros q Hq. apply in_app_iff in Hq as [[<-|[]]|Hq]; [now left|now right]. }
    cbn zeta in Hstep. rewrite npaths_eq. cbn [flat_map fst snd].
    destruct (mk_step name child es) as [ok es2]. cbn [snd] in Hstep. destruct Hstep as [S1 [S2 S3]].
    destruct ok.
    + specialize (IHr es2 S1). cbn zeta in IHr. destruct IHr as [I1 [I2 I3]].
      split; [exact I1|]. split; [eapply le_trans; eauto|].
      rewrite <- npaths_eq with (paths := paths). change ([name] :: map (cons name) (npaths child) ++ npaths (ONode paths r))
        with (([name] :: map (cons name) (npaths child)) ++ npaths (ONode paths r)).
      eapply news_trans; eauto.
    + cbn [snd]. split; [exact S1|]. split; [exact S2|].
      eapply news_incl; [exact S3|]. intros q Hq. change (In q (([name] :: map (cons name) (npaths child)) ++
        flat_map (fun p : comp * onode => [fst p] :: map (cons (fst p)) (npaths (snd p))) r)).
      apply in_app_iff. now left.
Qed.

(* ---- the frame predicate on the model ----------------------------------------------------- *)

Lemma p_parents_frame_model c h pre :
  new_hierarchy c = Some h -> names_distinct (Dir pre) = true ->
  p_parents_frame c pre (snd (mk_parents (h_root h) pre)) = "".
Proof.
  intros Hn Hnd. unfold p_parents_frame. destruct (declared c) as [decls|] eqn:Hd; [|reflexivity].
  destruct (new_hierarchy_decls c h decls Hn Hd) as [Hok [Hperm _]].
  destruct (mk_sem (h_root h) pre Hnd) as [M1 [M2 M3]]. set (mid := snd (mk_parents (h_root h) pre)) in *.
  rewrite (extends_complete (Dir pre) (Dir mid) Hnd M2). cbn [negb].
  assert (forallb (fun a => snd a && existsb (is_prefix (fst a)) (parent_locs decls))
                  (added (Dir pre) (Dir mid) []) = true) as ->; [|reflexivity].
  apply forallb_forall. intros [loc flag] Hin. cbn [fst snd].
  destruct (added_sound (Dir mid) (Dir pre) [] loc flag M1 Hin) as [q [n' [E1 [E2 [E3 E4]]]]].
  cbn [rev app] in E1. subst loc. destruct (M3 q n' E2 E3) as [Hdir Hq]. rewrite E4, Hdir. cbn [andb].
  destruct (npaths_needed _ Hok q Hq) as [pl [Hpl Hpre]].
  apply existsb_exists. exists pl. split; [|exact Hpre].
  apply (parent_locs_perm (hdecls h)); [exact Hperm|]. unfold hdecls, parent_locs.
  rewrite flat_map_app. apply in_app_iff. now right.
Qed.

(* ---- every run of the model satisfies the whole monitor ------------------------------------- *)

Section PFull.
Variable D : Type.
Variable D_eqb : D -> D -> bool.
Variable hash : blob D -> D.
Hypothesis D_eqb_spec : forall a b, D_eqb a b = true <-> a = b.
Hypothesis hash_msg_inj : forall m1 m2 : dirmsg D, hash (BDirectory m1) = hash (BDirectory m2) -> m1 = m2.
Hypothesis hash_tree_inj : forall t1 t2 : list (bool * dirmsg D), hash (BTree t1) = hash (BTree t2) -> t1 = t2.

Lemma model_satisfies_P_full_lemma c force pre action :
  names_distinct (Dir pre) = true ->
  match run_action D_eqb hash c force pre action with
  | Rejected => p_reject c false false = ""
  | ParentsFailed mid => p_reject c true false = "" /\ p_parents c pre false mid = ""
  | Ran mid r =>
    p_reject c true false = "" /\ p_parents c pre true mid = "" /\
    p_upload D_eqb hash (table_of D hash r) c force (action mid) (r_files r) (r_dirs r) (r_syms r) (r_err r) = ""
  end.
Proof.
  intros Hnd.
  pose proof (model_satisfies_P_lemma D D_eqb hash D_eqb_spec hash_msg_inj hash_tree_inj c force pre action) as H.
  unfold run_action in *. destruct (new_hierarchy c) as [h|] eqn:Hn; [|exact H].
  pose proof (p_parents_frame_model c h pre Hn Hnd) as Hf.
  destruct (mk_parents (h_root h) pre) as [[] mid]; cbn [snd] in Hf; unfold p_parents; rewrite Hf; exact H.
Qed.

End PFull.
