(* C10 — the property theorems, and nothing else. *)
From VF Require Import Outputs.Model Outputs.Spec Outputs.Proofs.

(* A command is accepted exactly if its working directory and all of its
   output paths are relative, free of NUL bytes and never leave the input
   root (the running depth of the working directory followed by the path
   stays non-negative). *)
Theorem accepted_iff_inside : forall c,
  (exists h, new_hierarchy c = Some h) <-> acceptable c = true.
Proof. exact new_hierarchy_iff. Qed.
Print Assumptions accepted_iff_inside.

(* An escaping working directory or output path makes the whole run stop
   before anything is created, read or uploaded. *)
Theorem escape_rejected : forall D (D_eqb : D -> D -> bool) hash c force pre action,
  acceptable c = false -> run_action D_eqb hash c force pre action = Rejected.
Proof. exact escape_rejected_lemma. Qed.
Print Assumptions escape_rejected.
