(* C10 — the property theorems, and nothing else.

   Digests: [hash : blob D -> D] is an arbitrary function into an arbitrary
   type with decidable equality, assumed injective on Directory messages
   (SHA-256 collision free, proto.Marshal injective).  Nothing is assumed
   across kinds of blobs.  Directory listings are arbitrary lists (the order
   ReadDir returns is kept; a name listed twice is looked up at its first
   occurrence). *)
From Coq Require Import Permutation.
From VF Require Import Common.Verdict Outputs.Model Outputs.Spec Outputs.Corr Outputs.Proofs
  Outputs.ProofsMain Outputs.ProofsP Outputs.ProofsFrame Outputs.Examples.

(* A command is accepted exactly if its working directory and all of its
   output paths are relative, free of NUL bytes and never leave the input
   root: the running depth (ordinary components minus "..") of the working
   directory followed by the path never becomes negative. *)
Theorem accepted_iff_inside : forall c,
  (exists h, new_hierarchy c = Some h) <-> acceptable c = true.
Proof. exact new_hierarchy_iff. Qed.
Print Assumptions accepted_iff_inside.

(* An escaping (or absolute, or NUL-containing) working directory or output
   path makes the whole run stop before anything happens: no directory is
   created, the action is not run, nothing is read or uploaded. *)
Theorem escape_rejected : forall D (D_eqb : D -> D -> bool) hash c force pre action,
  acceptable c = false -> run_action D_eqb hash c force pre action = Rejected.
Proof. exact escape_rejected_lemma. Qed.
Print Assumptions escape_rejected.

(* After CreateParentDirectories the parent of every declared output is a
   directory and no error is raised, provided the input root has nothing
   but directories on the way to those parents.
   (Without the proviso the statement is false of the code: with a regular
   file "a" in the input root and output path "a/b", Mkdir("a") fails with
   EEXIST, which is ignored, and no error is raised; see docs/areas/Outputs.md.) *)
Theorem parents_exist : forall c h decls pre,
  new_hierarchy c = Some h -> declared c = Some decls ->
  (forall pl, In pl (parent_locs decls) -> clear pre pl = true) ->
  exists mid, mk_parents (h_root h) pre = (true, mid) /\
              forall pl, In pl (parent_locs decls) -> exists ces, probe mid pl = Found (Dir ces).
Proof. exact ProofsParents.parents_exist_lemma. Qed.
Print Assumptions parents_exist.

(* uploadDirectory on a fresh state yields a Tree whose first record is the
   root (tagged as such, the only one), in which every child digest that a
   directory refers to occurs later, no digest occurs twice (identical
   sub-directories are shared), every record but the root is referred to by
   an earlier one, and which describes the directory: files with executable
   bit and content digest, symlinks with target, sub-directories
   recursively, special files left out. *)
Theorem tree_wellformed : forall D (D_eqb : D -> D -> bool) (hash : blob D -> D),
  (forall a b, D_eqb a b = true <-> a = b) ->
  (forall m1 m2 : dirmsg D, hash (BDirectory m1) = hash (BDirectory m2) -> m1 = m2) ->
  forall es uploads err,
  let '(d, st) := up_dir D D_eqb hash es (mkDS D [] uploads err) in
  exists root, d = hash_msg hash root /\
               tree_describes D D_eqb hash (tag_root (rev (ds_dirs D st))) es root.
Proof. exact tree_wellformed_lemma. Qed.
Print Assumptions tree_wellformed.

(* The ActionResult lists exactly the declared paths that exist with kind
   file / directory / symlink — as multisets, under the declared strings,
   once per declaration (duplicates and aliases included) — with executable
   bit, content digest and symlink target; every reported directory has a
   well-formed Tree that describes it; and UploadOutputs fails exactly if
   some declared location is a special file, lies below a non-directory, or
   is / contains a symlink whose target does not parse. *)
Theorem outputs_exact : forall D (D_eqb : D -> D -> bool) (hash : blob D -> D),
  (forall a b, D_eqb a b = true <-> a = b) ->
  (forall m1 m2 : dirmsg D, hash (BDirectory m1) = hash (BDirectory m2) -> m1 = m2) ->
  forall c h decls force es,
  new_hierarchy c = Some h -> declared c = Some decls ->
  let r := upload D D_eqb hash h force es in
  let tad := c_tad c || force in
  Permutation (r_files r) (exp_files hash decls es) /\
  Permutation (r_syms r) (exp_syms decls es) /\
  Permutation (map od_path (r_dirs r)) (exp_dir_paths decls es) /\
  (forall o, In o (r_dirs r) ->
     exists loc ces tms root,
       In (od_path o, loc) decls /\ probe es loc = Found (Dir ces) /\
       od_tree o = hash (BTree tms) /\ tree_describes D D_eqb hash tms ces root /\
       od_sorted o = true /\
       od_root o = (if tad then Some (hash_msg hash root) else None)) /\
  r_err r = exp_err decls es.
Proof. exact outputs_exact_full. Qed.
Print Assumptions outputs_exact.

(* CreateParentDirectories, frame: for an input root that is a directory
   tree (names within a listing distinct, hereditarily), whether or not an
   error is raised, every node of the input root is still there unchanged
   (directories may have gained entries) and everything added is a directory
   on the way to a declared output's parent: p_parents_frame, the predicate
   Corr.v evaluates, is "". *)
Theorem parents_frame : forall c h pre,
  new_hierarchy c = Some h -> names_distinct (Dir pre) = true ->
  p_parents_frame c pre (snd (mk_parents (h_root h) pre)) = ""%string.
Proof. exact p_parents_frame_model. Qed.
Print Assumptions parents_frame.

(* The monitor that Corr.v evaluates on implementation traces (p_reject,
   p_parents = p_parents_frame then p_parents_exist, p_upload of Spec.v)
   holds of every run of the model: every command, every input root that is
   a directory tree, every action.  The table the monitor looks Trees up in
   is what the run wrote to the CAS.  [names_distinct] is checked by Corr.v
   of every recorded input root; it is needed because [extends] finds an
   entry by its name (Example frame_needs_distinct_names). *)
Theorem model_satisfies_P : forall D (D_eqb : D -> D -> bool) (hash : blob D -> D),
  (forall a b, D_eqb a b = true <-> a = b) ->
  (forall m1 m2 : dirmsg D, hash (BDirectory m1) = hash (BDirectory m2) -> m1 = m2) ->
  (forall t1 t2 : list (bool * dirmsg D), hash (BTree t1) = hash (BTree t2) -> t1 = t2) ->
  forall c force pre action,
  names_distinct (Dir pre) = true ->
  match run_action D_eqb hash c force pre action with
  | Rejected => p_reject c false false = ""%string
  | ParentsFailed mid => p_reject c true false = ""%string /\ p_parents c pre false mid = ""%string
  | Ran mid r =>
    p_reject c true false = ""%string /\ p_parents c pre true mid = ""%string /\
    p_upload D_eqb hash (table_of D hash r) c force (action mid)
             (r_files r) (r_dirs r) (r_syms r) (r_err r) = ""%string
  end.
Proof. exact model_satisfies_P_full_lemma. Qed.
Print Assumptions model_satisfies_P.

(* Non-vacuity.  A recorded run of the implementation with aliased output
   files, an output directory declared twice whose Tree shares two identical
   sub-directories, a symlink, a missing output and parents to create: the
   model agrees with it and the monitor accepts it. *)
Example recorded_case_ok :
  check_case ex_case = VOk /\
  List.length (k_files ex_case) = 3 /\ List.length (k_dirs ex_case) = 2 /\
  List.length (k_syms ex_case) = 1 /\ k_err ex_case = false.
Proof. vm_compute. repeat split. Qed.

(* parents_exist needs its proviso: with a regular file "a" in the input root
   and output path "a/b", CreateParentDirectories reports success and the
   parent of the output is that file. *)
Example parents_exist_unconditional_refuted :
  exists c h decls pre mid pl,
    new_hierarchy c = Some h /\ declared c = Some decls /\
    mk_parents (h_root h) pre = (true, mid) /\
    In pl (parent_locs decls) /\ probe mid pl = Found (File false "").
Proof.
  exists (mkCmd "" ["a/b"%string] false). eexists. eexists.
  exists [("a"%string, File false "")]. eexists. exists ["a"%string].
  vm_compute. repeat split. now left.
Qed.

(* Rejection is not vacuous either. *)
Example escaping_command : acceptable (mkCmd "a" ["../../x"%string] false) = false /\
                           acceptable (mkCmd "a/.." ["b/../c"%string; "."%string] false) = true.
Proof. vm_compute. split; reflexivity. Qed.

(* The frame predicate identifies entries by name: on a listing with a name
   twice (not a directory) it reports damage although nothing was touched.
   Hence the hypothesis of parents_frame / model_satisfies_P. *)
Example frame_needs_distinct_names :
  let c := mkCmd "" [] false in
  let pre := [("a"%string, File false ""); ("a"%string, Dir [])] in
  exists h, new_hierarchy c = Some h /\ mk_parents (h_root h) pre = (true, pre) /\
            p_parents_frame c pre pre = "input-root-damaged"%string.
Proof. eexists. vm_compute. repeat split. Qed.

(* ... and is not vacuous: directories are created next to existing content,
   below an existing directory, and the monitor accepts. *)
Example parents_frame_nontrivial :
  let c := mkCmd "w" ["x/y/out"%string; "../z/o2"%string] false in
  let pre := [("w"%string, Dir [("keep"%string, File true "data"); ("x"%string, Dir [("old"%string, Symlink "t")])])] in
  exists h mid, new_hierarchy c = Some h /\ names_distinct (Dir pre) = true /\
    mk_parents (h_root h) pre = (true, mid) /\ entries_eqb mid pre = false /\
    p_parents c pre true mid = ""%string.
Proof. eexists. eexists. vm_compute. repeat split. Qed.
