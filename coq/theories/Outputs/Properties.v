(* C10 — the property theorems, and nothing else.

   Digests: [hash : blob D -> D] is an arbitrary function into an arbitrary
   type with decidable equality, assumed injective on Directory messages
   (SHA-256 collision free, proto.Marshal injective).  Nothing is assumed
   across kinds of blobs.  Directory listings are arbitrary lists (the order
   ReadDir returns is kept; a name listed twice is looked up at its first
   occurrence). *)
From Coq Require Import Permutation.
From VF Require Import Outputs.Model Outputs.Spec Outputs.Proofs Outputs.ProofsMain.

(* A command is accepted exactly if its working directory and all of its
   output paths are relative, free of NUL bytes and never leave the input
   root: the running depth (ordinary components minus "..") of the working
   directory followed by the path never becomes negative. *)
Theorem accepted_iff_inside : forall c,
  (exists h, new_hierarchy c = Some h) <-> acceptable c = true.
Proof. exact new_hierarchy_iff. Qed.
Print Assumptions accepted_iff_inside.

(* An escaping (or absolute, or NUL-containing) working directory or output
   path makes the whole run stop before anything happens: no directory is
   created, the action is not run, nothing is read or uploaded. *)
Theorem escape_rejected : forall D (D_eqb : D -> D -> bool) hash c force pre action,
  acceptable c = false -> run_action D_eqb hash c force pre action = Rejected.
Proof. exact escape_rejected_lemma. Qed.
Print Assumptions escape_rejected.

(* After CreateParentDirectories the parent of every declared output is a
   directory and no error is raised, provided the input root has nothing
   but directories on the way to those parents.
   (Without the proviso the statement is false of the code: with a regular
   file "a" in the input root and output path "a/b", Mkdir("a") fails with
   EEXIST, which is ignored, and no error is raised; see docs/areas/Outputs.md.) *)
Theorem parents_exist : forall c h decls pre,
  new_hierarchy c = Some h -> declared c = Some decls ->
  (forall pl, In pl (parent_locs decls) -> clear pre pl = true) ->
  exists mid, mk_parents (h_root h) pre = (true, mid) /\
              forall pl, In pl (parent_locs decls) -> exists ces, probe mid pl = Found (Dir ces).
Proof. exact ProofsParents.parents_exist_lemma. Qed.
Print Assumptions parents_exist.

(* uploadDirectory on a fresh state yields a Tree whose first record is the
   root (tagged as such, the only one), in which every child digest that a
   directory refers to occurs later, no digest occurs twice (identical
   sub-directories are shared), every record but the root is referred to by
   an earlier one, and which describes the directory: files with executable
   bit and content digest, symlinks with target, sub-directories
   recursively, special files left out. *)
Theorem tree_wellformed : forall D (D_eqb : D -> D -> bool) (hash : blob D -> D),
  (forall a b, D_eqb a b = true <-> a = b) ->
  (forall m1 m2 : dirmsg D, hash (BDirectory m1) = hash (BDirectory m2) -> m1 = m2) ->
  forall es uploads err,
  let '(d, st) := up_dir D D_eqb hash es (mkDS D [] uploads err) in
  exists root, d = hash_msg hash root /\
               tree_describes D D_eqb hash (tag_root (rev (ds_dirs D st))) es root.
Proof. exact tree_wellformed_lemma. Qed.
Print Assumptions tree_wellformed.

(* The ActionResult lists exactly the declared paths that exist with kind
   file / directory / symlink — as multisets, under the declared strings,
   once per declaration (duplicates and aliases included) — with executable
   bit, content digest and symlink target; every reported directory has a
   well-formed Tree that describes it; and UploadOutputs fails exactly if
   some declared location is a special file, lies below a non-directory, or
   is / contains a symlink whose target does not parse. *)
Theorem outputs_exact : forall D (D_eqb : D -> D -> bool) (hash : blob D -> D),
  (forall a b, D_eqb a b = true <-> a = b) ->
  (forall m1 m2 : dirmsg D, hash (BDirectory m1) = hash (BDirectory m2) -> m1 = m2) ->
  forall c h decls force es,
  new_hierarchy c = Some h -> declared c = Some decls ->
  let r := upload D D_eqb hash h force es in
  let tad := c_tad c || force in
  Permutation (r_files r) (exp_files hash decls es) /\
  Permutation (r_syms r) (exp_syms decls es) /\
  Permutation (map od_path (r_dirs r)) (exp_dir_paths decls es) /\
  (forall o, In o (r_dirs r) ->
     exists loc ces tms root,
       In (od_path o, loc) decls /\ probe es loc = Found (Dir ces) /\
       od_tree o = hash (BTree tms) /\ tree_describes D D_eqb hash tms ces root /\
       od_sorted o = true /\
       od_root o = (if tad then Some (hash_msg hash root) else None)) /\
  r_err r = exp_err decls es.
Proof. exact outputs_exact_full. Qed.
Print Assumptions outputs_exact.
