(* The monitor P of Spec.v, as evaluated by Corr.v on implementation
   traces, holds of the model's own runs. *)
From Coq Require Import Lia Permutation.
From VF Require Import Outputs.Model Outputs.Spec Outputs.Proofs Outputs.ProofsTree
  Outputs.ProofsOutputs Outputs.ProofsParents Outputs.ProofsMain.
Open Scope string_scope.
Open Scope list_scope.

(* ---- multiset equality test ----------------------------------------------------- *)

Lemma count_perm {A} (eqb : A -> A -> bool) x l1 l2 :
  Permutation l1 l2 -> count eqb x l1 = count eqb x l2.
Proof. induction 1; cbn [count]; lia. Qed.

Lemma perm_eqb_complete {A} (eqb : A -> A -> bool) l1 l2 :
  Permutation l1 l2 -> perm_eqb eqb l1 l2 = true.
Proof.
  intros Hp. unfold perm_eqb. apply andb_true_iff. split.
  - apply PeanoNat.Nat.eqb_eq. now apply Permutation_length.
  - apply forallb_forall. intros x _. apply PeanoNat.Nat.eqb_eq. now apply count_perm.
Qed.

(* ---- declarations are a function of the declared string ------------------------ *)

Lemma locate_all_fun wd ps decls : locate_all wd ps = Some decls ->
  forall p loc, In (p, loc) decls -> resolve wd p = Some loc.
Proof.
  revert decls. induction ps as [|q ps IH]; intros decls H p loc Hin; cbn [locate_all] in H.
  - injection H as <-. destruct Hin.
  - destruct (resolve wd q) as [l|] eqn:E; [|discriminate].
    destruct (locate_all wd ps) as [r|]; [|discriminate]. injection H as <-.
    destruct Hin as [[= <- <-]|Hin]; [exact E|]. eapply IH; eauto.
Qed.

Lemma declared_fun c decls : declared c = Some decls ->
  forall p l1 l2, In (p, l1) decls -> In (p, l2) decls -> l1 = l2.
Proof.
  unfold declared. destruct (resolve [] (c_wd c)) as [wd|]; [|discriminate].
  intros H p l1 l2 H1 H2.
  pose proof (locate_all_fun _ _ _ H p l1 H1). pose proof (locate_all_fun _ _ _ H p l2 H2). congruence.
Qed.

Section P.
Variable D : Type.
Variable D_eqb : D -> D -> bool.
Variable hash : blob D -> D.
Hypothesis D_eqb_spec : forall a b, D_eqb a b = true <-> a = b.
Hypothesis hash_msg_inj : forall m1 m2 : dirmsg D, hash (BDirectory m1) = hash (BDirectory m2) -> m1 = m2.
(* ... and serialising a Tree is injective too. *)
Hypothesis hash_tree_inj : forall t1 t2 : list (bool * dirmsg D), hash (BTree t1) = hash (BTree t2) -> t1 = t2.

(* ---- the Tree of every reported directory is written to the CAS ---------------- *)

Definition dirs_in_puts (r : result D) : Prop :=
  forall o, In o (r_dirs r) -> exists tms, od_tree o = hash (BTree tms) /\ In (BTree tms) (r_puts r).

Definition puts_grow (r r' : result D) : Prop := incl (r_puts r) (r_puts r').

Lemma up_output_dir_puts tad ces origs r :
  dirs_in_puts r -> dirs_in_puts (up_output_dir D D_eqb hash tad ces origs r).
Proof.
  intros H o. unfold up_output_dir. destruct (up_dir D D_eqb hash ces _) as [d st].
  cbn [r_dirs r_puts]. rewrite in_app_iff. intros [Ho|Ho].
  - destruct (H o Ho) as [tms [H1 H2]]. exists tms. split; [exact H1|]. apply in_app_iff. now left.
  - apply in_map_iff in Ho as [p [<- _]]. cbn [od_tree]. eexists. split; [reflexivity|].
    apply in_app_iff. right. now left.
Qed.

Lemma up_path_puts tad es name origs r :
  dirs_in_puts r -> dirs_in_puts (up_path D D_eqb hash tad es name origs r).
Proof.
  intros H. unfold up_path. destruct (lookup name es) as [[x data| ces | t |]|]; try exact H.
  - now apply up_output_dir_puts.
  - destruct (report_target t); exact H.
Qed.

Lemma up_paths_puts tad es paths : forall r,
  dirs_in_puts r -> dirs_in_puts (up_paths D D_eqb hash tad es paths r).
Proof.
  induction paths as [|[name origs] l IH]; intros r H; [exact H|].
  cbn [up_paths]. apply IH. now apply up_path_puts.
Qed.

Lemma up_out_puts tad t : forall es r,
  dirs_in_puts r -> dirs_in_puts (up_out D D_eqb hash tad t es r).
Proof.
  induction t as [paths subs IH] using onode_ind'; intros es r H. cbn [up_out].
  pose proof (up_paths_puts tad es paths r H) as H1.
  generalize dependent (up_paths D D_eqb hash tad es paths r). clear r H.
  induction IH as [|[name child] l Hc Hl IHl]; intros r1 H1; [exact H1|].
  apply IHl. cbn [snd] in Hc.
  destruct (lookup name es) as [[x data| ces | t' |]|]; try exact H1. now apply Hc.
Qed.

Lemma upload_puts h force es : dirs_in_puts (upload D D_eqb hash h force es).
Proof.
  unfold upload. apply up_out_puts. destruct (h_roots h).
  - intros o [].
  - apply up_output_dir_puts. intros o [].
Qed.

(* ---- P of the upload ------------------------------------------------------------- *)

Definition table_of (r : result D) : list (D * blob D) := map (fun b => (hash b, b)) (r_puts r).

Lemma D_eqb_refl' d : D_eqb d d = true.
Proof. now apply D_eqb_spec. Qed.

Lemma first_nonempty_all l : (forall s, In s l -> s = "") -> first_nonempty l = "".
Proof.
  induction l as [|s r IH]; intros H; [reflexivity|]. cbn [first_nonempty].
  rewrite (H s (or_introl eq_refl)). cbn. apply IH. intros s' Hs'. apply H. now right.
Qed.

Lemma p_upload_model c h decls force es :
  new_hierarchy c = Some h -> declared c = Some decls ->
  let r := upload D D_eqb hash h force es in
  p_upload D_eqb hash (table_of r) c force es (r_files r) (r_dirs r) (r_syms r) (r_err r) = "".
Proof.
  intros Hn Hd. cbn zeta.
  destruct (outputs_exact_full D D_eqb hash D_eqb_spec hash_msg_inj c h decls force es Hn Hd)
    as [Hf [Hs [Hp [Hdirs He]]]].
  unfold p_upload. rewrite Hd.
  rewrite (perm_eqb_complete _ _ _ Hf), (perm_eqb_complete _ _ _ Hs), (perm_eqb_complete _ _ _ Hp).
  cbn [negb].
  rewrite first_nonempty_all.
  - rewrite He. now rewrite Bool.eqb_reflx.
  - intros s Hin. apply in_map_iff in Hin as [o [<- Ho]].
    destruct (Hdirs o Ho) as [loc [ces [tms [root [Hin [Hpr [Htd [[[rest Hroot] [Hwf Hden]] [Hsorted Hrd]]]]]]]]].
    unfold dir_entry_ok.
    destruct (find (fun pl : string * list comp => String.eqb (fst pl) (od_path o)) decls) as [[p l0]|] eqn:Ef.
    + apply find_some in Ef as [Hin0 Hp0]. cbn [fst] in Hp0. apply String.eqb_eq in Hp0. subst p.
      rewrite (declared_fun c decls Hd _ _ _ Hin0 Hin). cbn [snd]. rewrite Hpr.
      destruct (upload_puts h force es o Ho) as [tms' [Htd' Hput]].
      assert (tms' = tms) as -> by (apply hash_tree_inj; congruence).
      destruct (find _ (table_of (upload D D_eqb hash h force es))) as [[i b]|] eqn:Et.
      * apply find_some in Et as [Hint Hb]. cbn [fst snd] in Hb. apply andb_true_iff in Hb as [Hi Hk].
        destruct b as [| |tms2]; try discriminate.
        unfold table_of in Hint. apply in_map_iff in Hint as [b' [Hb' _]].
        injection Hb' as Hi' Hb'. subst b' i.
        apply D_eqb_spec in Hi. assert (tms2 = tms) as -> by (apply hash_tree_inj; congruence).
        rewrite Hwf. cbn [negb]. rewrite Hroot in *. rewrite Hden, Hsorted. cbn [negb].
        rewrite Hrd. destruct (c_tad c || force); cbn [option_eqb]; [now rewrite D_eqb_refl'|reflexivity].
      * exfalso. assert (In (hash (BTree tms), BTree tms) (table_of (upload D D_eqb hash h force es))) as Hint.
        { unfold table_of. apply in_map_iff. eauto. }
        pose proof (find_none _ _ Et _ Hint) as Hfn. cbn [fst snd] in Hfn.
        rewrite Htd, D_eqb_refl' in Hfn. discriminate.
    + exfalso. pose proof (find_none _ _ Ef (od_path o, loc) Hin) as Hfn. cbn [fst] in Hfn.
      rewrite String.eqb_refl in Hfn. discriminate.
Qed.

(* ---- P of the rejection and of the parents --------------------------------------- *)

Lemma p_reject_model c :
  p_reject c (match new_hierarchy c with Some _ => true | None => false end) false = "".
Proof.
  unfold p_reject. destruct (acceptable c) eqn:Ea.
  - apply new_hierarchy_iff in Ea as [h ->]. reflexivity.
  - destruct (new_hierarchy c) as [h|] eqn:En; [|reflexivity].
    assert (acceptable c = true) by (apply new_hierarchy_iff; eauto). congruence.
Qed.

Lemma p_parents_exist_model c h pre :
  new_hierarchy c = Some h ->
  let '(ok, mid) := mk_parents (h_root h) pre in p_parents_exist c pre ok mid = "".
Proof.
  intros Hn. destruct (mk_parents (h_root h) pre) as [ok mid] eqn:Em. unfold p_parents_exist.
  destruct (declared c) as [decls|] eqn:Hd; [|reflexivity].
  destruct (forallb (clear pre) (parent_locs decls)) eqn:Hc; [|reflexivity].
  rewrite forallb_forall in Hc.
  destruct (parents_exist_lemma c h decls pre Hn Hd Hc) as [mid' [Hmk Hq]].
  rewrite Em in Hmk. injection Hmk as -> <-. cbn [negb].
  assert (forallb (fun pl => match probe mid pl with Found (Dir _) => true | _ => false end)
                  (parent_locs decls) = true) as ->; [|reflexivity].
  apply forallb_forall. intros pl Hpl. destruct (Hq pl Hpl) as [ces ->]. reflexivity.
Qed.

(* Every run of the model satisfies the monitor. *)
Lemma model_satisfies_P_lemma c force pre action :
  match run_action D_eqb hash c force pre action with
  | Rejected => p_reject c false false = ""
  | ParentsFailed mid => p_reject c true false = "" /\ p_parents_exist c pre false mid = ""
  | Ran mid r =>
    p_reject c true false = "" /\ p_parents_exist c pre true mid = "" /\
    p_upload D_eqb hash (table_of r) c force (action mid) (r_files r) (r_dirs r) (r_syms r) (r_err r) = ""
  end.
Proof.
  unfold run_action. pose proof (p_reject_model c) as Hr.
  destruct (new_hierarchy c) as [h|] eqn:Hn; [|exact Hr].
  pose proof (p_parents_exist_model c h pre Hn) as Hp.
  destruct (mk_parents (h_root h) pre) as [[] mid]; [|auto].
  split; [exact Hr|]. split; [exact Hp|].
  assert (exists decls, declared c = Some decls) as [decls Hd].
  { apply declared_iff. apply new_hierarchy_iff. eauto. }
  exact (p_upload_model c h decls force (action mid) Hn Hd).
Qed.

End P.
