(* Correspondence evaluator for the output hierarchy: model vs
   implementation, and the property predicate P evaluated on
   implementation traces.

   Digests: the harness numbers every distinct digest it saw (1, 2, ...) and
   lists, for each one whose blob it knows, the decoded blob.  The model's
   abstract [hash] is instantiated with that observed graph of SHA-256
   ([hash_obs]; a blob nobody hashed gets 0, which no observed digest has). *)
From VF Require Import Common.Verdict Outputs.Model Outputs.Spec.
Open Scope string_scope.
Open Scope list_scope.

(* What LocalBuildExecutor.Execute did with the same command, input root
   and action. *)
Record exec_obs := mkExec {
  x_ran : bool;                           (* the runner was invoked *)
  x_touched : bool;                       (* not run, yet the input root or the CAS was used after the root was installed *)
  x_mid : entries;                        (* input root when the runner was invoked *)
  x_files : list (out_file N);
  x_dirs : list (out_dir N);
  x_syms : list out_sym;
  x_ok : bool }.                          (* ExecuteResponse.status is OK *)

Record case := mkCase {
  k_cmd : command;
  k_force : bool;                         (* forceUploadTreesAndDirectories *)
  k_pre : entries;                        (* input root *)
  k_new_ok : bool;                        (* NewOutputHierarchy returned no error *)
  k_touched : bool;                       (* rejected, yet the directory or the CAS was used *)
  k_mk_ok : bool;                         (* CreateParentDirectories returned no error *)
  k_mid : entries;                        (* directory when the action starts *)
  k_post : entries;                       (* directory as the action left it *)
  k_table : list (N * blob N);            (* observed digest graph *)
  k_files : list (out_file N);
  k_dirs : list (out_dir N);
  k_syms : list out_sym;
  k_err : bool;                           (* UploadOutputs returned an error *)
  k_other : nat;                          (* other ActionResult fields that were set *)
  k_puts : list N;                        (* CAS Put calls, in order *)
  k_uploads : list N;                     (* UploadFile calls, in order *)
  k_visits : list (N * bool);             (* tree digest, accepted by bb-storage's VisitTopologicallySortedTree *)
  k_exec : exec_obs }.

Definition hash_obs (table : list (N * blob N)) (b : blob N) : N :=
  match find (fun e => blob_eqb N.eqb (snd e) b) table with
  | Some e => fst e
  | None => 0%N
  end.

(* The table must be a function from blobs to digests, injective on the
   blobs of one kind (it is, unless SHA-256 collides or the harness is
   broken).  One digest may name blobs of different kinds: digests are
   taken over the serialised bytes, and e.g. the empty file and the empty
   Directory message have the same serialisation. *)
Definition same_kind (a b : blob N) : bool :=
  match a, b with
  | BFile _, BFile _ | BDirectory _, BDirectory _ | BTree _, BTree _ => true
  | _, _ => false
  end.

Fixpoint table_ok (t : list (N * blob N)) : bool :=
  match t with
  | [] => true
  | (i, b) :: r =>
    negb (N.eqb i 0) &&
    forallb (fun e => negb (N.eqb (fst e) i && same_kind (snd e) b) && negb (blob_eqb N.eqb (snd e) b)) r &&
    table_ok r
  end.

Definition str_nonempty (s : string) : bool := negb (String.eqb s "").

(* P for the sequencing in local_build_executor.go, in terms of what the
   three calls did when made directly: a rejected command, or one whose
   parent directories cannot be created, is not run and leaves everything
   untouched; otherwise the runner finds the directory CreateParentDirectories
   left, and the response carries what UploadOutputs reports afterwards. *)
Definition p_exec (c : case) : string :=
  let x := k_exec c in
  if negb (k_new_ok c) then
    if x_ran x then "executor-ran-rejected-command"
    else if x_touched x then "executor-touched-after-reject"
    else if x_ok x then "executor-no-error-on-reject"
    else if negb (match x_files x, x_dirs x, x_syms x with [], [], [] => true | _, _, _ => false end)
         then "executor-outputs-on-reject" else ""
  else if negb (k_mk_ok c) then
    if x_ran x then "executor-ran-without-parents"
    else if x_ok x then "executor-no-error-without-parents" else ""
  else if negb (x_ran x) then "executor-did-not-run"
  else if negb (entries_eqb (x_mid x) (k_mid c)) then "executor-parents-not-before-run"
  else if negb (list_eqb (out_file_eqb N.eqb) (x_files x) (k_files c) &&
                list_eqb (out_dir_eqb N.eqb) (x_dirs x) (k_dirs c) &&
                list_eqb out_sym_eqb (x_syms x) (k_syms c)) then "executor-result-differs"
  else if negb (Bool.eqb (x_ok x) (negb (k_err c))) then "executor-error-flag"
  else "".

Definition viol (c : case) : verdict :=
  let k0 := p_reject (k_cmd c) (k_new_ok c) (k_touched c) in
  let kx := p_exec c in
  if str_nonempty k0 then VViolation 0 k0
  else if str_nonempty kx then VViolation 3 kx
  else if negb (k_new_ok c) then VOk
  else
    let k1 := p_parents (k_cmd c) (k_pre c) (k_mk_ok c) (k_mid c) in
    if str_nonempty k1 then VViolation 1 k1
    else if negb (table_ok (k_table c)) then VMismatch 2 "digest table is not injective"
    else
      let k2 := p_upload N.eqb (hash_obs (k_table c)) (k_table c) (k_cmd c) (k_force c) (k_post c)
                         (k_files c) (k_dirs c) (k_syms c) (k_err c) in
      if str_nonempty k2 then VViolation 2 k2
      else if negb (Nat.eqb (k_other c) 0) then VViolation 2 "unrelated-actionresult-field"
      else if negb (forallb (fun v => snd v) (k_visits c)) then VViolation 2 "tree-rejected-by-consumer"
      else VOk.

Definition mism (c : case) : verdict :=
  match new_hierarchy (k_cmd c) with
  | None => if k_new_ok c then VMismatch 0 "model rejects, implementation accepts" else VOk
  | Some h =>
    if negb (k_new_ok c) then VMismatch 0 "model accepts, implementation rejects"
    else if negb (names_distinct (Dir (k_pre c))) then VMismatch 1 "input root has duplicate names"
    else
      let '(ok, mid) := mk_parents (h_root h) (k_pre c) in
      if negb (Bool.eqb ok (k_mk_ok c)) then VMismatch 1 "CreateParentDirectories error"
      else if negb (entries_eqb mid (k_mid c)) then VMismatch 1 "directory after CreateParentDirectories"
      else
        let hs := hash_obs (k_table c) in
        let r := upload N N.eqb hs h (k_force c) (k_post c) in
        if negb (list_eqb (out_file_eqb N.eqb) (r_files r) (k_files c)) then VMismatch 2 "output_files"
        else if negb (list_eqb (out_dir_eqb N.eqb) (r_dirs r) (k_dirs c)) then VMismatch 2 "output_directories"
        else if negb (list_eqb out_sym_eqb (r_syms r) (k_syms c)) then VMismatch 2 "output_symlinks"
        else if negb (Bool.eqb (r_err r) (k_err c)) then VMismatch 2 "UploadOutputs error"
        else if negb (list_eqb N.eqb (r_uploads r) (k_uploads c)) then VMismatch 2 "UploadFile calls"
        else if negb (perm_eqb N.eqb (map hs (r_puts r)) (k_puts c)) then VMismatch 2 "CAS Put calls"
        else VOk
  end.

Definition check_case (c : case) : verdict := vcombine (viol c) (mism c).
