(* CreateParentDirectories: afterwards the parent directory of every
   declared output exists. *)
From Coq Require Import Lia Permutation.
From VF Require Import Outputs.Model Outputs.Spec Outputs.Proofs Outputs.ProofsTree Outputs.ProofsOutputs.
Open Scope string_scope.
Open Scope list_scope.

(* ---- association lists --------------------------------------------------------- *)

Lemma lookup_app_r {V} k (l : list (string * V)) k' v :
  lookup k (l ++ [(k', v)]) =
  match lookup k l with Some x => Some x | None => if String.eqb k k' then Some v else None end.
Proof.
  induction l as [|[a b] r IH]; cbn [app lookup]; [reflexivity|].
  destruct (String.eqb k a); [reflexivity|exact IH].
Qed.

Lemma lookup_replace {V} k k' (v : V) l :
  lookup k (replace k' v l) =
  if String.eqb k k' then match lookup k l with Some _ => Some v | None => None end else lookup k l.
Proof.
  induction l as [|[a b] r IH]; cbn [replace lookup].
  - now destruct (String.eqb k k').
  - destruct (String.eqb k' a) eqn:E1; cbn [lookup].
    + apply String.eqb_eq in E1. subst a. destruct (String.eqb k k') eqn:E2; reflexivity.
    + destruct (String.eqb k a) eqn:E2.
      * destruct (String.eqb k k') eqn:E3; [|reflexivity].
        apply String.eqb_eq in E2, E3. subst. rewrite String.eqb_refl in E1. discriminate.
      * exact IH.
Qed.

(* ---- one entry at a time --------------------------------------------------------- *)

Lemma mk_parents_nil paths es : mk_parents (ONode paths []) es = (true, es).
Proof. reflexivity. Qed.

(* createParentDirectories for one entry of subdirectories. *)
Definition mk_step (name : comp) (child : onode) (es : entries) : bool * entries :=
  let es1 := mkdir name es in
  match o_subs child with
  | [] => (true, es1)
  | _ :: _ =>
    match lookup name es1 with
    | Some (Dir ces) =>
      let '(ok, ces') := mk_parents child ces in (ok, replace name (Dir ces') es1)
    | _ => (false, es1)
    end
  end.

Lemma mk_parents_cons paths name child subs es :
  mk_parents (ONode paths ((name, child) :: subs)) es =
  let '(ok, es2) := mk_step name child es in
  if ok then mk_parents (ONode paths subs) es2 else (false, es2).
Proof.
  cbn [mk_parents]. unfold mk_step.
  destruct (o_subs child) as [|s ss]; [reflexivity|].
  destruct (lookup name (mkdir name es)) as [[| ces | |]|]; try reflexivity.
  destruct (mk_parents child ces) as [[] ces']; reflexivity.
Qed.

(* ---- directories only ever appear ------------------------------------------------ *)

Definition mono (es es' : entries) : Prop :=
  forall q, (clear es q = true -> clear es' q = true) /\
            (forall ces, probe es q = Found (Dir ces) -> exists ces', probe es' q = Found (Dir ces')).

Lemma mono_refl es : mono es es.
Proof. intros q. split; eauto. Qed.

Lemma mono_trans a b c : mono a b -> mono b c -> mono a c.
Proof.
  intros H1 H2 q. destruct (H1 q) as [A1 B1], (H2 q) as [A2 B2]. split; [auto|].
  intros ces Hp. destruct (B1 _ Hp) as [ces' Hp']. eauto.
Qed.

Lemma clear_nil q : clear [] q = true.
Proof. now destruct q. Qed.

Lemma mono_mkdir name es : mono es (mkdir name es).
Proof.
  unfold mkdir. destruct (lookup name es) eqn:El; [apply mono_refl|].
  intros [|c rest]; [split; [auto|intros ces [= <-]; cbn; eauto]|].
  cbn [clear probe]. rewrite lookup_app_r.
  destruct (lookup c es) as [n|] eqn:Ec; [split; eauto|].
  destruct (String.eqb c name); split; auto using clear_nil; discriminate.
Qed.

Lemma mono_replace name ces ces' es :
  lookup name es = Some (Dir ces) -> mono ces ces' -> mono es (replace name (Dir ces') es).
Proof.
  intros Hl Hm [|c rest]; [split; [auto|intros ? [= <-]; cbn; eauto]|].
  cbn [clear probe]. rewrite lookup_replace.
  destruct (String.eqb c name) eqn:E; [|split; eauto].
  apply String.eqb_eq in E. subst c. rewrite Hl. apply Hm.
Qed.

Lemma mk_mono t : forall es, mono es (snd (mk_parents t es)).
Proof.
  induction t as [paths subs IH] using onode_ind'; intros es.
  revert es. induction IH as [|[name child] r Hc Hr IHr]; intros es; [apply mono_refl|].
  rewrite mk_parents_cons.
  assert (mono es (snd (mk_step name child es))) as Hs.
  { unfold mk_step. pose proof (mono_mkdir name es) as Hm.
    destruct (o_subs child); [exact Hm|].
    destruct (lookup name (mkdir name es)) as [[| ces | |]|] eqn:El; try exact Hm.
    specialize (Hc ces). cbn [snd] in Hc. destruct (mk_parents child ces) as [ok ces']. cbn [snd] in *.
    eapply mono_trans; [exact Hm|]. now apply mono_replace with ces. }
  destruct (mk_step name child es) as [[] es2]; cbn [snd] in *; [|exact Hs].
  eapply mono_trans; [exact Hs|apply IHr].
Qed.

(* ---- the locations of the trie's nodes ------------------------------------------ *)

Fixpoint npaths (t : onode) : list (list comp) :=
  match t with
  | ONode _ subs =>
    (fix go (l : list (comp * onode)) : list (list comp) :=
       match l with
       | [] => []
       | p :: r => ([fst p] :: map (cons (fst p)) (npaths (snd p))) ++ go r
       end) subs
  end.

Lemma npaths_eq paths subs :
  npaths (ONode paths subs) =
  flat_map (fun p : comp * onode => [fst p] :: map (cons (fst p)) (npaths (snd p))) subs.
Proof. reflexivity. Qed.

Lemma npaths_nil_subs t : o_subs t = [] -> npaths t = [].
Proof. destruct t as [p [|? ?]]; [reflexivity|discriminate]. Qed.

(* If nothing but directories is in the way, every node of the trie
   becomes a directory, and no error is raised. *)
Lemma mk_exists t : forall es,
  (forall q, In q (npaths t) -> clear es q = true) ->
  exists es', mk_parents t es = (true, es') /\
              forall q, In q (npaths t) -> exists ces, probe es' q = Found (Dir ces).
Proof.
  induction t as [paths subs IH] using onode_ind'; intros es.
  revert es. induction IH as [|[name child] r Hc Hr IHr]; intros es Hclear.
  - exists es. split; [reflexivity|]. intros q [].
  - rewrite npaths_eq in Hclear. cbn [flat_map fst snd] in Hclear.
    rewrite mk_parents_cons.
    (* the step *)
    assert (exists es2, mk_step name child es = (true, es2) /\
              forall q, In q ([name] :: map (cons name) (npaths child)) ->
                        exists ces, probe es2 q = Found (Dir ces)) as [es2 [Hstep Hq]].
    { unfold mk_step.
      assert (exists ces, lookup name (mkdir name es) = Some (Dir ces) /\
                forall q, clear es (name :: q) = true -> clear ces q = true) as [ces [Hl Hcl]].
      { pose proof (Hclear [name] (or_introl eq_refl)) as H0. cbn [clear] in H0.
        unfold mkdir. destruct (lookup name es) as [[| ces | |]|] eqn:El; try discriminate.
        - exists ces. split; [exact El|]. intros q. cbn [clear]. now rewrite El.
        - exists []. split; [rewrite lookup_app_r, El, String.eqb_refl; reflexivity|].
          intros q _. apply clear_nil. }
      destruct (o_subs child) as [|s ss] eqn:Es.
      - exists (mkdir name es). split; [reflexivity|]. rewrite (npaths_nil_subs child Es). cbn [map].
        intros q [<-|[]]. cbn [probe]. rewrite Hl. eauto.
      - rewrite Hl. cbn [snd] in Hc.
        destruct (Hc ces) as [ces' [Hmk Hces']].
        { intros q Hin. apply Hcl. apply Hclear. right. apply in_app_iff. left. now apply in_map. }
        rewrite Hmk. eexists. split; [reflexivity|].
        intros q [<-|Hin].
        + cbn [probe]. rewrite lookup_replace, String.eqb_refl, Hl. eauto.
        + apply in_map_iff in Hin as [q' [<- Hin]]. cbn [probe]. rewrite lookup_replace, String.eqb_refl, Hl.
          destruct (Hces' q' Hin) as [c Hc']. eauto. }
    rewrite Hstep.
    assert (mono es es2) as Hm.
    { pose proof (mk_mono (ONode [] [(name, child)]) es) as H0.
      rewrite mk_parents_cons, Hstep in H0. exact H0. }
    destruct (IHr es2) as [es' [Hmk' Hq']].
    { intros q Hin. apply Hm. apply Hclear. right. apply in_app_iff. now right. }
    rewrite Hmk'. exists es'. split; [reflexivity|].
    rewrite npaths_eq. cbn [flat_map fst snd]. intros q [<-|Hin].
    + destruct (Hq [name] (or_introl eq_refl)) as [c Hc'].
      pose proof (mk_mono (ONode paths r) es2) as H1. rewrite Hmk' in H1. apply (H1 [name]) in Hc'. exact Hc'.
    + apply in_app_iff in Hin as [Hin|Hin].
      * destruct (Hq q (or_intror Hin)) as [c Hc'].
        pose proof (mk_mono (ONode paths r) es2) as H1. rewrite Hmk' in H1. apply (H1 q) in Hc'. exact Hc'.
      * apply Hq'. exact Hin.
Qed.

(* ---- parents of the declared outputs are nodes of the trie ----------------------- *)

Lemma parent_locs_perm l1 l2 : Permutation l1 l2 -> forall q, In q (parent_locs l1) -> In q (parent_locs l2).
Proof.
  intros Hp q. unfold parent_locs. rewrite !in_flat_map. intros [d [Hd Hq]].
  exists d. split; [|exact Hq]. eapply Permutation_in; eauto.
Qed.

Lemma removelast_cons {A} (a : A) l : l <> [] -> removelast (a :: l) = a :: removelast l.
Proof. destruct l; [contradiction|reflexivity]. Qed.

Lemma tparents t : forall q, In q (parent_locs (tdecls t)) -> q = [] \/ In q (npaths t).
Proof.
  induction t as [paths subs IH] using onode_ind'; intros q.
  unfold parent_locs. rewrite tdecls_eq, flat_map_app, in_app_iff. intros [Hin|Hin].
  - left. apply in_flat_map in Hin as [d [Hd Hq]]. apply in_flat_map in Hd as [g [_ Hd]].
    unfold group_decls in Hd. apply in_map_iff in Hd as [o [<- _]]. cbn in Hq. destruct Hq as [<-|[]]. reflexivity.
  - right. apply in_flat_map in Hin as [d [Hd Hq]]. apply in_flat_map in Hd as [p [Hp Hd]].
    apply in_map_iff in Hd as [d' [<- Hd']]. rewrite npaths_eq. apply in_flat_map. exists p. split; [exact Hp|].
    pose proof (tdecls_nonempty_locs (snd p)) as Hne. rewrite Forall_forall in Hne. specialize (Hne d' Hd').
    unfold under in Hq. cbn [snd] in Hq. rewrite removelast_cons in Hq by exact Hne. destruct Hq as [<-|[]].
    rewrite Forall_forall in IH. destruct (IH p Hp (removelast (snd d'))) as [H0|H0].
    + unfold parent_locs. apply in_flat_map. exists d'. split; [exact Hd'|]. destruct (snd d'); [contradiction|now left].
    + rewrite H0. now left.
    + right. now apply in_map.
Qed.

(* Conversely every node of the trie is an ancestor of a declared output. *)
Lemma npaths_needed t : trie_ok t -> forall q, In q (npaths t) ->
  exists pl, In pl (parent_locs (tdecls t)) /\ is_prefix q pl = true.
Proof.
  induction t as [paths subs IH] using onode_ind'; intros Hok q Hq.
  apply trie_ok_eq in Hok as [_ Hs]. rewrite npaths_eq in Hq. apply in_flat_map in Hq as [p [Hp Hq]].
  rewrite Forall_forall in IH, Hs. destruct (Hs p Hp) as [Hne Hok'].
  assert (forall pl, In pl (parent_locs (tdecls (snd p))) ->
            In (fst p :: pl) (parent_locs (tdecls (ONode paths subs)))) as Hlift.
  { intros pl Hpl. unfold parent_locs in *. apply in_flat_map in Hpl as [d [Hd Hpl]].
    apply in_flat_map. exists (under (fst p) d). split.
    - rewrite tdecls_eq. apply in_app_iff. right. apply in_flat_map. exists p. split; [exact Hp|now apply in_map].
    - pose proof (tdecls_nonempty_locs (snd p)) as Hn. rewrite Forall_forall in Hn. specialize (Hn d Hd).
      unfold under. cbn [snd]. destruct (snd d) as [|a l] eqn:E; [contradiction|].
      rewrite removelast_cons by discriminate. destruct Hpl as [<-|[]]. now left. }
  destruct Hq as [<-|Hq].
  - (* the node itself: some declaration lies below it *)
    destruct (tdecls (snd p)) as [|d ds] eqn:Ed; [contradiction|].
    pose proof (tdecls_nonempty_locs (snd p)) as Hn. rewrite Ed, Forall_forall in Hn. specialize (Hn d (or_introl eq_refl)).
    exists (fst p :: removelast (snd d)). split.
    + apply Hlift. unfold parent_locs. apply in_flat_map. exists d. split; [first [now left | rewrite Ed; now left]|].
      destruct (snd d); [contradiction|now left].
    + cbn [is_prefix]. now rewrite String.eqb_refl.
  - apply in_map_iff in Hq as [q' [<- Hq']]. destruct (IH p Hp Hok' q' Hq') as [pl [Hpl Hpre]].
    exists (fst p :: pl). split; [now apply Hlift|]. cbn [is_prefix]. now rewrite String.eqb_refl.
Qed.

(* After CreateParentDirectories the parent directory of every declared
   output exists (and is a directory), provided the input root does not have
   a non-directory on the way to it; and then no error is raised. *)
Lemma parents_exist_lemma c h decls pre :
  new_hierarchy c = Some h -> declared c = Some decls ->
  (forall pl, In pl (parent_locs decls) -> clear pre pl = true) ->
  exists mid, mk_parents (h_root h) pre = (true, mid) /\
              forall pl, In pl (parent_locs decls) -> exists ces, probe mid pl = Found (Dir ces).
Proof.
  intros Hn Hd Hclear. destruct (new_hierarchy_decls c h decls Hn Hd) as [Hok [Hperm _]].
  assert (forall q, In q (npaths (h_root h)) -> clear pre q = true) as Hcl.
  { intros q Hq. destruct (npaths_needed _ Hok q Hq) as [pl [Hpl Hpre]].
    assert (In pl (parent_locs decls)) as Hin.
    { apply (parent_locs_perm (hdecls h)); [exact Hperm|]. unfold hdecls, parent_locs.
      rewrite flat_map_app. apply in_app_iff. now right. }
    specialize (Hclear pl Hin). clear -Hclear Hpre. revert pl pre Hclear Hpre.
    induction q as [|a q IH]; intros pl pre Hclear Hpre; [reflexivity|].
    destruct pl as [|b pl]; [discriminate|]. cbn [is_prefix] in Hpre. apply andb_true_iff in Hpre as [Hab Hpre].
    apply String.eqb_eq in Hab. subst b. cbn [clear] in *.
    destruct (lookup a pre) as [[| ces | |]|]; try discriminate; try reflexivity. eapply IH; eauto. }
  destruct (mk_exists (h_root h) pre Hcl) as [mid [Hmk Hq]]. exists mid. split; [exact Hmk|].
  intros pl Hpl. apply (parent_locs_perm decls (hdecls h)) in Hpl; [|now symmetry].
  unfold hdecls, parent_locs in Hpl. rewrite flat_map_app, in_app_iff in Hpl. destruct Hpl as [Hpl|Hpl].
  - apply in_flat_map in Hpl as [d [Hd' Hq']]. unfold root_decls in Hd'. apply in_map_iff in Hd' as [o [<- _]]. destruct Hq'.
  - destruct (tparents _ pl Hpl) as [->|Hin]; [cbn; eauto|]. now apply Hq.
Qed.
