(* Proofs for the directory-creator part of C12: the model of
   Shared(Clean(Root)) refines the monitor [dmon_step] for every operation
   sequence and failure script; direct statements about removal, release
   and name uniqueness. *)
From Coq Require Import Lia DecimalN.
From VF Require Import Idle.Model Idle.Spec.
Open Scope string_scope.

Ltac dsimp := cbn [d_slots d_root d_users d_counter dm_open dm_listing dm_issued ob_out ob_listing ob_cleans].

Lemma has_app : forall n a b, has n (a ++ b)%list = has n a || has n b.
Proof. intros. unfold has. apply existsb_app. Qed.

Lemma has_rm_same : forall n r, has n (rm n r) = false.
Proof.
  induction r as [|[x fs] tl IH]; [reflexivity|]. cbn [rm filter fst].
  destruct (String.eqb x n) eqn:E; cbn [negb]; [exact IH|].
  cbn [has existsb fst]. rewrite E. exact IH.
Qed.

Lemma has_rm_other : forall x n r, x <> n -> has x (rm n r) = has x r.
Proof.
  intros x n r Hne. induction r as [|[y fs] tl IH]; [reflexivity|]. cbn [rm filter fst].
  destruct (String.eqb y n) eqn:E; cbn [negb].
  - apply String.eqb_eq in E. subst y. cbn [has existsb fst].
    assert (String.eqb n x = false) by (apply String.eqb_neq; congruence).
    rewrite H. exact IH.
  - cbn [has existsb fst]. f_equal. exact IH.
Qed.

Lemma rm_not_in : forall n r, has n r = false -> rm n r = r.
Proof.
  induction r as [|[y fs] tl IH]; [reflexivity|]. cbn [has existsb fst rm filter].
  intro H. apply orb_false_iff in H. destruct H as (H1 & H2). rewrite H1. cbn [negb].
  f_equal. apply IH. exact H2.
Qed.

Lemma rm_app_new : forall n r, has n r = false -> rm n (r ++ [(n, [])])%list = r.
Proof.
  intros n r H. unfold rm. rewrite filter_app. cbn [filter fst]. rewrite String.eqb_refl. cbn [negb].
  rewrite app_nil_r. apply rm_not_in. exact H.
Qed.

Lemma empty_dir_in_app : forall n r, empty_dir_in n (r ++ [(n, [])])%list = true.
Proof.
  intros. unfold empty_dir_in. rewrite existsb_app. cbn. rewrite String.eqb_refl. apply orb_true_r.
Qed.

Lemma add_file_has : forall x n f r, has x (fst (add_file n f r)) = has x r.
Proof.
  induction r as [|[y fs] tl IH]; [reflexivity|]. cbn [add_file].
  destruct (String.eqb y n).
  - destruct (existsb (String.eqb f) fs); reflexivity.
  - destruct (add_file n f tl) as [tl' ok]. cbn [fst] in *. cbn [has existsb fst]. f_equal. exact IH.
Qed.

Lemma subset_refl : forall r, subset_names r r = true.
Proof.
  intro r. unfold subset_names. apply forallb_forall. intros [x fs] Hin.
  unfold has. apply existsb_exists. exists (x, fs). split; [exact Hin|]. cbn. apply String.eqb_refl.
Qed.

Lemma dec_inj : forall a b, dec a = dec b -> a = b.
Proof.
  intros a b H. unfold dec in H.
  assert (Hu : N.to_uint a = N.to_uint b).
  { apply (f_equal NilEmpty.uint_of_string) in H. rewrite !NilEmpty.usu in H. congruence. }
  apply (f_equal N.of_uint) in Hu. rewrite !Unsigned.of_to in Hu. exact Hu.
Qed.

Lemma slot_name_in : forall sl k n, slot_name sl k = Some n -> In (k, n) sl.
Proof.
  induction sl as [|[k' n'] tl IH]; cbn [slot_name]; intros k n H; [discriminate|].
  destruct (Nat.eqb k' k) eqn:E.
  - apply Nat.eqb_eq in E. inversion H. subst. left. reflexivity.
  - right. apply IH. exact H.
Qed.

Lemma slot_name_none : forall sl k, slot_name sl k = None -> ~ In k (map fst sl).
Proof.
  induction sl as [|[k' n'] tl IH]; cbn [slot_name map fst]; intros k H; [intros []|].
  destruct (Nat.eqb k' k) eqn:E; [discriminate|]. apply Nat.eqb_neq in E.
  intros [Hx | Hx]; [contradiction | exact (IH k H Hx)].
Qed.

Lemma NoDup_map_filter : forall {A B} (f : A -> B) (p : A -> bool) l,
  NoDup (map f l) -> NoDup (map f (filter p l)).
Proof.
  induction l as [|x tl IH]; cbn [map filter]; intro H; [constructor|].
  inversion H as [|y l' Hnin Hnd]; subst.
  destruct (p x); [|apply IH; exact Hnd]. cbn [map]. constructor; [|apply IH; exact Hnd].
  intro Hin. apply Hnin. apply in_map_iff in Hin. destruct Hin as (z & Hz & Hzin).
  apply filter_In in Hzin. apply in_map_iff. exists z. tauto.
Qed.

Lemma drop_slot_in : forall sl k e, In e (drop_slot sl k) <-> In e sl /\ fst e <> k.
Proof.
  intros. unfold drop_slot. rewrite filter_In. split; intros (H1 & H2); split; auto.
  - apply negb_true_iff in H2. apply Nat.eqb_neq in H2. exact H2.
  - apply negb_true_iff. apply Nat.eqb_neq. exact H2.
Qed.

Lemma drop_slot_absent : forall sl k, ~ In k (map fst sl) -> drop_slot sl k = sl.
Proof.
  induction sl as [|[k' n'] tl IH]; intros k H; [reflexivity|]. cbn [drop_slot filter fst].
  cbn [map fst] in H. destruct (Nat.eqb k' k) eqn:E.
  - apply Nat.eqb_eq in E. exfalso. apply H. left. exact E.
  - cbn [negb]. f_equal. apply IH. intro Hx. apply H. right. exact Hx.
Qed.

Lemma drop_slot_len : forall sl k n,
  NoDup (map fst sl) -> slot_name sl k = Some n ->
  List.length (drop_slot sl k) = pred (List.length sl).
Proof.
  induction sl as [|[k' n'] tl IH]; cbn [slot_name]; intros k n Hnd H; [discriminate|].
  cbn [map fst] in Hnd. inversion Hnd as [|y l' Hnin Hnd']; subst.
  cbn [drop_slot filter fst]. destruct (Nat.eqb k' k) eqn:E.
  - apply Nat.eqb_eq in E. subst k'. cbn [negb List.length pred].
    fold (drop_slot tl k). rewrite drop_slot_absent by exact Hnin. reflexivity.
  - cbn [negb List.length]. fold (drop_slot tl k). rewrite (IH k n Hnd' H).
    apply slot_name_in in H. destruct tl; [contradiction | reflexivity].
Qed.

Record DI (s : dstate) (m : dmstate) : Prop := mkDI {
  DI_open : dm_open m = d_slots s;
  DI_list : dm_listing m = d_root s;
  DI_users : d_users s = List.length (d_slots s);
  DI_keys : NoDup (map fst (d_slots s));
  DI_names : NoDup (map snd (d_slots s));
  DI_exist : forall e, In e (d_slots s) -> has (snd e) (d_root s) = true;
  DI_issued : forall n, In n (dm_issued m) -> exists c, (c <= d_counter s)%N /\ n = dec c }.

Lemma DI_init : DI dinit dminit.
Proof. constructor; cbn; auto; try constructor; intros; contradiction. Qed.

Lemma aoe_intro : forall op l,
  (forall e, In e op -> has (snd e) l = true) -> all_open_exist op l = true.
Proof. intros op l H. unfold all_open_exist. apply forallb_forall. exact H. Qed.

Lemma name_open_false : forall op n,
  (forall e, In e op -> snd e <> n) -> name_open op n = false.
Proof.
  intros op n H. unfold name_open. destruct (existsb _ op) eqn:E; [|reflexivity].
  apply existsb_exists in E. destruct E as (e & Hin & He). apply String.eqb_eq in He.
  exfalso. exact (H e Hin He).
Qed.

Lemma mem_false : forall n l, ~ In n l -> mem n l = false.
Proof.
  intros n l H. unfold mem. destruct (existsb _ l) eqn:E; [|reflexivity].
  apply existsb_exists in E. destruct E as (x & Hin & Hx). apply String.eqb_eq in Hx. subst x.
  contradiction.
Qed.

Lemma fresh_counter_name : forall s m, DI s m -> ~ In (dec (d_counter s + 1)) (dm_issued m).
Proof.
  intros s m HD Hin. destruct (DI_issued _ _ HD _ Hin) as (c & Hle & Heq).
  apply dec_inj in Heq. lia.
Qed.

Lemma length_zero_nil : forall {A} (l : list A), List.length l = 0 -> l = [].
Proof. destruct l; [reflexivity | discriminate]. Qed.

Ltac inv_pair H := inversion H; subst; clear H.

Lemma dwrite_refines : forall s m k file s' out c,
  DI s m -> dstep s (DWrite k file) = (s', out, c) ->
  exists m', dmon_step m (DWrite k file) (mkObs out c (d_root s')) = (m', "") /\ DI s' m'.
Proof.
  intros s m k file s' out c HD Hs. cbn [dstep] in Hs.
  destruct (slot_name (d_slots s) k) as [n|] eqn:Hsl.
  2:{ inv_pair Hs. exists m. split; [reflexivity | exact HD]. }
  destruct (add_file n file (d_root s)) as [r' ok] eqn:Haf. inv_pair Hs.
  assert (Hr' : r' = fst (add_file n file (d_root s))) by (rewrite Haf; reflexivity).
  destruct HD as [Ho Hl Hu Hk Hn He Hi].
  assert (Haoe : all_open_exist (dm_open m) r' = true).
  { apply aoe_intro. intros e Hin. rewrite Ho in Hin. rewrite Hr', add_file_has. apply He. exact Hin. }
  unfold dmon_step. cbn [ob_out ob_listing d_root]. rewrite Haoe. cbn [negb].
  eexists; split; [reflexivity|]. constructor; dsimp; auto.
  intros e Hin. rewrite Hr', add_file_has. apply He. exact Hin.
Qed.

Lemma dclose_refines : forall s m k f s' out c,
  DI s m -> dstep s (DClose k f) = (s', out, c) ->
  exists m', dmon_step m (DClose k f) (mkObs out c (d_root s')) = (m', "") /\ DI s' m'.
Proof.
  intros s m k f s' out c HD Hs. cbn [dstep] in Hs.
  destruct (slot_name (d_slots s) k) as [n|] eqn:Hsl.
  2:{ inv_pair Hs. exists m. split; [reflexivity | exact HD]. }
  destruct HD as [Ho Hl Hu Hk Hn He Hi].
  pose proof (slot_name_in _ _ _ Hsl) as Hin_kn.
  set (root1 := if cf_removeall f then d_root s else rm n (d_root s)) in *.
  destruct (rel_clean root1 (d_users s) (cf_clean f)) as [root2 c2] eqn:Hrc. inv_pair Hs.
  (* facts about the other open slots *)
  assert (Hothers : forall e, In e (drop_slot (d_slots s) k) -> has (snd e) root1 = true).
  { intros e Hin. apply drop_slot_in in Hin. destruct Hin as (Hin & Hne).
    unfold root1. destruct (cf_removeall f); [apply He; exact Hin|].
    rewrite has_rm_other; [apply He; exact Hin|].
    intro Heq. (* same name, different key: contradicts NoDup names *)
    destruct e as [k2 n2]. cbn in *. subst n2.
    clear - Hn Hin Hin_kn Hne. induction (d_slots s) as [|[a b] tl IH]; [contradiction|].
    cbn [map snd] in Hn. inversion Hn as [|y l' Hnin Hnd]; subst.
    destruct Hin as [H1|H1]; destruct Hin_kn as [H2|H2].
    - inversion H1; inversion H2; subst. contradiction.
    - inversion H1; subst. apply Hnin. apply in_map_iff. exists (k, n). auto.
    - inversion H2; subst. apply Hnin. apply in_map_iff. exists (k2, n). auto.
    - apply IH; auto. }
  unfold dmon_step. dsimp. rewrite Ho, Hsl.
  unfold close_code. rewrite <- Hu. rewrite N.eqb_refl. cbn [negb].
  unfold rel_clean in Hrc.
  destruct (Nat.eqb (d_users s) 1) eqn:H1; inv_pair Hrc.
  - (* last user *)
    apply Nat.eqb_eq in H1. rewrite Nat.eqb_refl. cbn [negb].
    assert (Hdrop : drop_slot (d_slots s) k = []).
    { apply length_zero_nil. rewrite (drop_slot_len _ _ _ Hk Hsl). lia. }
    rewrite Hdrop. subst root1.
    destruct (cf_removeall f) eqn:Hra; destruct (cf_clean f) eqn:Hcc;
      cbn [negb andb is_nil all_open_exist forallb]; try rewrite has_rm_same;
      try (change (has n []) with false); cbn [negb andb];
      (eexists; split; [reflexivity|]); constructor; dsimp; auto;
      first [ (cbn [List.length]; lia) | (cbn [map]; constructor) | (intros e []) ].
  - (* others remain *)
    apply Nat.eqb_neq in H1.
    assert (H0 : Nat.eqb 0 0 = true) by reflexivity. rewrite H0. cbn [negb andb].
    rewrite (aoe_intro _ _ Hothers). subst root1.
    destruct (cf_removeall f) eqn:Hra; cbn [negb andb]; try rewrite has_rm_same; cbn [negb andb];
      (eexists; split; [reflexivity|]); constructor; dsimp; auto;
      try (rewrite (drop_slot_len _ _ _ Hk Hsl); lia);
      try (apply NoDup_map_filter; assumption).
Qed.

Ltac red_lets H := cbv beta iota zeta in H.
Ltac red_lets_goal := cbv beta iota zeta.

Lemma dget_refines : forall s m k dig f s' out c,
  DI s m -> dstep s (DGet k dig f) = (s', out, c) ->
  exists m', dmon_step m (DGet k dig f) (mkObs out c (d_root s')) = (m', "") /\ DI s' m'.
Proof.
  intros s m k dig f s' out c HD Hs. cbn [dstep] in Hs.
  destruct (slot_name (d_slots s) k) as [n0|] eqn:Hsl.
  1:{ inv_pair Hs. exists m. split; [reflexivity | exact HD]. }
  pose proof (fresh_counter_name s m HD) as Hfresh0.
  destruct HD as [Ho Hl Hu Hk Hn He Hi].
  destruct (dir_name (d_counter s) dig) as [n cnt] eqn:Hdn.
  assert (Hcnt : (d_counter s <= cnt)%N) by (destruct dig; inv_pair Hdn; lia).
  assert (Hfresh : is_nil_opt dig && mem n (dm_issued m) = false).
  { destruct dig; [reflexivity|]. inv_pair Hdn. cbn [is_nil_opt andb]. apply mem_false. exact Hfresh0. }
  assert (Hi' : forall x, In x (dm_issued m) -> exists c0, (c0 <= cnt)%N /\ x = dec c0).
  { intros x Hx. destruct (Hi x Hx) as (c0 & Hle & Heq). exists c0. split; [lia | exact Heq]. }
  assert (Hi'' : forall x, In x (if is_nil_opt dig then n :: dm_issued m else dm_issued m) ->
                 exists c0, (c0 <= cnt)%N /\ x = dec c0).
  { intros x Hx. destruct dig; cbn [is_nil_opt] in Hx; [apply Hi'; exact Hx|].
    destruct Hx as [Hx | Hx]; [|apply Hi'; exact Hx]. inv_pair Hdn. exists (d_counter s + 1)%N. split; [lia | reflexivity]. }
  unfold dmon_step. dsimp. rewrite Ho, Hsl, <- Hu.
  destruct (Nat.eqb (d_users s) 0) eqn:Hz.
  - apply Nat.eqb_eq in Hz.
    assert (Hnil : d_slots s = []) by (apply length_zero_nil; lia).
    rewrite Hnil in *. rewrite Hz in *.
    destruct (gf_clean f) eqn:Hgc; red_lets Hs; cbn [negb] in Hs.
    + (* cleaner fails: nothing acquired *)
      inv_pair Hs. rewrite Hl, subset_refl. cbn [Nat.eqb negb andb all_open_exist forallb].
      rewrite andb_false_r. cbn [andb].
      eexists; split; [reflexivity|]. constructor; dsimp; auto; rewrite Hnil; auto.
    + (* cleaner succeeded: root is empty *)
      red_lets Hs. change (has n []) with false in Hs. rewrite orb_false_r in Hs.
      unfold rel_clean in Hs. cbn [Nat.eqb] in Hs.
      destruct (gf_mkdir f) eqn:Hmk; red_lets Hs.
      * inv_pair Hs. dsimp.
        destruct (gf_clean2 f) eqn:Hc2;
        cbn [Nat.eqb negb andb all_open_exist forallb subset_names is_nil Nat.add];
        rewrite ?andb_false_r; cbn [andb];
        (eexists; split; [reflexivity|]); constructor; dsimp; auto; try constructor; intros e [].
      * destruct (gf_enter f) eqn:Hen; red_lets Hs.
        -- inv_pair Hs. dsimp. cbn [app rm filter fst]. rewrite String.eqb_refl.
           destruct (gf_clean2 f) eqn:Hc2; destruct (gf_remove f) eqn:Hrm;
           cbn [Nat.eqb negb andb all_open_exist forallb subset_names is_nil Nat.add];
           rewrite ?andb_false_r; cbn [andb];
           (eexists; split; [reflexivity|]); constructor; dsimp; auto; try constructor; intros e [].
        -- (* success from idle *)
           inv_pair Hs. dsimp. rewrite Hfresh. cbn [app].
           cbn [Nat.eqb negb andb all_open_exist forallb name_open existsb List.length].
           change (empty_dir_in n [(n, [])]) with (empty_dir_in n ([] ++ [(n, [])])%list).
           rewrite empty_dir_in_app. cbn [negb].
           eexists; split; [reflexivity|]. constructor; dsimp; auto.
           ++ cbn [map fst]. constructor; [intros [] | constructor].
           ++ cbn [map snd]. constructor; [intros [] | constructor].
           ++ intros e [He1 | []]. subst e. cbn [snd has existsb fst]. rewrite String.eqb_refl. reflexivity.
  - (* in use: no cleaning, root unchanged *)
    apply Nat.eqb_neq in Hz. red_lets Hs. cbn [negb] in Hs. red_lets Hs.
    assert (Hrc : forall r fl, rel_clean r (S (d_users s)) fl = (r, 0)).
    { intros r fl. unfold rel_clean. destruct (d_users s); [contradiction | reflexivity]. }
    rewrite !Hrc in Hs.
    destruct (gf_mkdir f || has n (d_root s)) eqn:Hmk; red_lets Hs.
    + inv_pair Hs. dsimp. rewrite Hl, subset_refl. cbn [Nat.eqb negb andb Nat.add].
      rewrite andb_false_r. cbn [andb].
      assert (Haoe : all_open_exist (d_slots s) (d_root s) = true) by (apply aoe_intro; exact He).
      rewrite Haoe. cbn [negb].
      eexists; split; [reflexivity|]. constructor; dsimp; auto.
    + apply orb_false_iff in Hmk. destruct Hmk as (Hmk & Hnot).
      destruct (gf_enter f) eqn:Hen; red_lets Hs.
      * inv_pair Hs. dsimp. rewrite (rm_app_new _ _ Hnot).
        assert (Haoe : all_open_exist (d_slots s) (d_root s) = true) by (apply aoe_intro; exact He).
        assert (Haoe2 : all_open_exist (d_slots s) (d_root s ++ [(n, [])])%list = true).
        { apply aoe_intro. intros e Hin. rewrite has_app, (He e Hin). reflexivity. }
        destruct (gf_remove f) eqn:Hrm; cbn [Nat.eqb negb andb Nat.add];
          rewrite ?Hl, ?subset_refl, ?Haoe, ?Haoe2; cbn [negb andb];
          (eexists; split; [reflexivity|]); constructor; dsimp; auto.
        intros e Hin. rewrite has_app, (He e Hin). reflexivity.
      * (* success while in use *)
        inv_pair Hs. dsimp. rewrite Hfresh.
        assert (Hno : name_open (d_slots s) n = false).
        { apply name_open_false. intros e Hin Heq. rewrite <- Heq, (He e Hin) in Hnot. discriminate. }
        assert (Haoe2 : all_open_exist (d_slots s) (d_root s ++ [(n, [])])%list = true).
        { apply aoe_intro. intros e Hin. rewrite has_app, (He e Hin). reflexivity. }
        rewrite Hno, empty_dir_in_app, Haoe2. cbn [Nat.eqb negb andb Nat.add].
        eexists; split; [reflexivity|]. constructor; dsimp; auto.
        -- cbn [List.length]. lia.
        -- cbn [map fst]. constructor; [apply slot_name_none; exact Hsl | exact Hk].
        -- cbn [map snd]. constructor; [|exact Hn]. intro Hin. apply in_map_iff in Hin.
           destruct Hin as (e & Heq & Hin). rewrite <- Heq, (He e Hin) in Hnot. discriminate.
        -- intros e [Heq | Hin].
           ++ subst e. cbn [snd]. rewrite has_app. cbn [has existsb fst]. rewrite String.eqb_refl.
              apply orb_true_r.
           ++ rewrite has_app, (He e Hin). reflexivity.
Qed.

Lemma dstep_refines : forall s m o s' out c,
  DI s m -> dstep s o = (s', out, c) ->
  exists m', dmon_step m o (mkObs out c (d_root s')) = (m', "") /\ DI s' m'.
Proof.
  intros s m o s' out c HD Hs. destruct o.
  - eapply dget_refines; eauto.
  - eapply dclose_refines; eauto.
  - eapply dwrite_refines; eauto.
  - cbn [dstep] in Hs. destruct (slot_name (d_slots s) slot) eqn:Hsl; inv_pair Hs.
    + exists m. split; [reflexivity | exact HD].
    + exists m. split; [|exact HD]. unfold dmon_step. dsimp. rewrite (DI_open _ _ HD), Hsl. reflexivity.
Qed.

Lemma drun_refines : forall ops s m,
  DI s m -> exists m', dmon_run m (dtrace s ops) = (m', "") /\ DI (drun s ops) m'.
Proof.
  induction ops as [|o tl IH]; intros s m HD; cbn [dtrace drun dmon_run].
  - exists m. auto.
  - destruct (dstep s o) as [[s' out] c] eqn:Hs. cbn [fst].
    destruct (dstep_refines _ _ _ _ _ _ HD Hs) as (m1 & Hm1 & HD1).
    cbn [dmon_run]. rewrite Hm1. cbn. apply IH. exact HD1.
Qed.

Lemma dirs_model_trace_ok : forall ops, dtrace_ok (dtrace dinit ops) = true.
Proof.
  intro ops. destruct (drun_refines ops dinit dminit DI_init) as (m' & Hrun & _).
  unfold dtrace_ok. rewrite Hrun. reflexivity.
Qed.

(* released_once: at all times the use count of the IdleInvoker equals the
   number of directories handed out and not yet closed; handles and
   directory names of open directories are pairwise distinct and every open
   directory exists in the root. *)
Lemma released_once_model : forall ops,
  let s := drun dinit ops in
  d_users s = List.length (d_slots s) /\
  NoDup (map fst (d_slots s)) /\ NoDup (map snd (d_slots s)) /\
  forall e, In e (d_slots s) -> has (snd e) (d_root s) = true.
Proof.
  intro ops. destruct (drun_refines ops dinit dminit DI_init) as (m' & _ & HD).
  destruct HD as [Ho Hl Hu Hk Hn He Hi]. auto.
Qed.

(* dir_removed_on_every_path, Close: unless RemoveAll itself fails, the
   directory is gone after Close, whatever else fails. *)
Lemma close_removes_model : forall s k f n,
  slot_name (d_slots s) k = Some n -> cf_removeall f = false ->
  has n (d_root (fst (fst (dstep s (DClose k f))))) = false.
Proof.
  intros s k f n Hsl Hra. cbn [dstep]. rewrite Hsl, Hra. unfold rel_clean.
  destruct (Nat.eqb (d_users s) 1); cbn [fst d_root]; [destruct (cf_clean f)|];
    try apply has_rm_same; reflexivity.
Qed.

(* ... and when the last user leaves and the Cleaner succeeds the root is empty. *)
Lemma close_last_empties_model : forall s k f n,
  slot_name (d_slots s) k = Some n -> d_users s = 1 -> cf_clean f = false ->
  d_root (fst (fst (dstep s (DClose k f)))) = [].
Proof.
  intros s k f n Hsl Hu Hc. cbn [dstep]. rewrite Hsl, Hu, Hc. reflexivity.
Qed.

(* dir_removed_on_every_path, failed GetBuildDirectory: no directory that
   was not there before is left behind, unless Remove itself failed after
   a failed enter. *)
Lemma failed_get_leaves_nothing_model : forall s k dig f s' code c,
  dstep s (DGet k dig f) = (s', DErr code, c) ->
  gf_enter f && gf_remove f = false ->
  forall x, has x (d_root s') = true -> has x (d_root s) = true.
Proof.
  intros s k dig f s' code c Hs Hex x Hx. cbn [dstep] in Hs.
  destruct (slot_name (d_slots s) k); [discriminate|].
  destruct (dir_name (d_counter s) dig) as [n cnt].
  unfold rel_clean in Hs.
  destruct (Nat.eqb (d_users s) 0) eqn:Hz.
  - destruct (gf_clean f); red_lets Hs; cbn [negb] in Hs; red_lets Hs.
    + inv_pair Hs. exact Hx.
    + change (has n []) with false in Hs. rewrite orb_false_r in Hs.
      apply Nat.eqb_eq in Hz. rewrite Hz in Hs. cbn [Nat.eqb] in Hs.
      destruct (gf_mkdir f); red_lets Hs.
      * inv_pair Hs. cbn [d_root] in Hx. destruct (gf_clean2 f); discriminate Hx.
      * destruct (gf_enter f); red_lets Hs; [|discriminate].
        cbn [andb] in Hex. rewrite Hex in Hs. inv_pair Hs. cbn [d_root app rm filter fst] in Hx.
        rewrite String.eqb_refl in Hx. cbn [negb] in Hx. destruct (gf_clean2 f); discriminate Hx.
  - red_lets Hs. cbn [negb] in Hs. red_lets Hs.
    assert (Hne : Nat.eqb (S (d_users s)) 1 = false)
      by (apply Nat.eqb_neq in Hz; apply Nat.eqb_neq; lia).
    rewrite Hne in Hs.
    destruct (gf_mkdir f || has n (d_root s)) eqn:Hmk; red_lets Hs.
    + inv_pair Hs. exact Hx.
    + apply orb_false_iff in Hmk. destruct Hmk as (_ & Hnot).
      destruct (gf_enter f); red_lets Hs; [|discriminate].
      cbn [andb] in Hex. rewrite Hex in Hs. inv_pair Hs. cbn [d_root] in Hx.
      rewrite (rm_app_new _ _ Hnot) in Hx. exact Hx.
Qed.

(* names_unique: counter names handed out in a history never repeat. *)
Lemma dstep_counter_mono : forall s o, (d_counter s <= d_counter (fst (fst (dstep s o))))%N.
Proof.
  intros s o. destruct o as [k dig f|k f|k file|k]; cbn [dstep].
  - destruct (slot_name (d_slots s) k); [cbn; lia|].
    destruct (dir_name (d_counter s) dig) as [n cnt] eqn:Hdn.
    assert (Hcnt : (d_counter s <= cnt)%N) by (destruct dig; inv_pair Hdn; lia).
    destruct (Nat.eqb (d_users s) 0); [destruct (gf_clean f)|]; red_lets_goal; cbn [negb]; red_lets_goal;
      try (cbn; lia);
      (destruct (gf_mkdir f || has n _); red_lets_goal;
       [destruct (rel_clean _ _ _); cbn; exact Hcnt|]);
      (destruct (gf_enter f); red_lets_goal; [destruct (rel_clean _ _ _)|]; cbn; exact Hcnt).
  - destruct (slot_name (d_slots s) k); [|cbn; lia]. destruct (rel_clean _ _ _). cbn. lia.
  - destruct (slot_name (d_slots s) k); [|cbn; lia]. destruct (add_file _ _ _). cbn. lia.
  - destruct (slot_name (d_slots s) k); cbn; lia.
Qed.

Lemma dstep_counter_name : forall s k f s' n c,
  dstep s (DGet k None f) = (s', DGot n, c) ->
  n = dec (d_counter s + 1) /\ d_counter s' = (d_counter s + 1)%N.
Proof.
  intros s k f s' n c Hs. cbn [dstep dir_name] in Hs.
  destruct (slot_name (d_slots s) k); [discriminate|].
  destruct (Nat.eqb (d_users s) 0); [destruct (gf_clean f)|]; red_lets Hs; cbn [negb] in Hs; red_lets Hs;
    try discriminate;
    (destruct (gf_mkdir f || has _ _); red_lets Hs; [destruct (rel_clean _ _ _); discriminate|]);
    (destruct (gf_enter f); red_lets Hs; [destruct (rel_clean _ _ _); discriminate|]);
    inv_pair Hs; auto.
Qed.

Lemma counter_names_fresh : forall ops s,
  (forall x, In x (counter_names (dtrace s ops)) -> exists c, (d_counter s < c)%N /\ x = dec c) /\
  NoDup (counter_names (dtrace s ops)).
Proof.
  induction ops as [|o tl IH]; intro s; cbn [dtrace counter_names].
  - split; [intros x [] | constructor].
  - destruct (dstep s o) as [[s' out] c] eqn:Hs.
    pose proof (dstep_counter_mono s o) as Hmono. rewrite Hs in Hmono. cbn [fst] in Hmono.
    destruct (IH s') as (Hall & Hnd).
    assert (Hweak : forall x, In x (counter_names (dtrace s' tl)) ->
                    exists c0, (d_counter s < c0)%N /\ x = dec c0).
    { intros x Hx. destruct (Hall x Hx) as (c0 & Hlt & Heq). exists c0. split; [lia | exact Heq]. }
    destruct o as [k [h|] f|k f|k file|k]; cbn [counter_names]; try (split; assumption).
    destruct out; try (split; assumption).
    destruct (dstep_counter_name _ _ _ _ _ _ Hs) as (Hn & Hc).
    split.
    + intros x [Hx | Hx]; [|apply Hweak; exact Hx].
      subst x. exists (d_counter s + 1)%N. split; [lia | exact Hn].
    + constructor; [|exact Hnd]. intro Hin. destruct (Hall _ Hin) as (c0 & Hlt & Heq).
      rewrite Hn in Heq. apply dec_inj in Heq. lia.
Qed.

Lemma names_unique_model : forall ops, NoDup (counter_names (dtrace dinit ops)).
Proof. intro ops. apply (counter_names_fresh ops dinit). Qed.

(* ---- a name that exists is refused; what is handed out is fresh ----------- *)

(* While somebody uses the invoker (so the Cleaner does not run), a request
   whose directory name already exists in the root -- held by a live action
   or left behind by a failed RemoveAll -- is refused with the Mkdir error
   (Internal); nothing is created, removed, acquired or handed out. *)
Lemma existing_name_refused_model : forall s k dig f,
  slot_name (d_slots s) k = None -> 0 < d_users s ->
  has (fst (dir_name (d_counter s) dig)) (d_root s) = true ->
  dstep s (DGet k dig f) =
    (mkD (d_root s) (d_users s) (snd (dir_name (d_counter s) dig)) (d_slots s), DErr 13, 0).
Proof.
  intros s k dig f Hsl Hpos Hhas. cbn [dstep]. rewrite Hsl.
  destruct (dir_name (d_counter s) dig) as [n cnt]. cbn [fst snd] in *.
  assert (Hz : Nat.eqb (d_users s) 0 = false) by (apply Nat.eqb_neq; lia).
  rewrite Hz. red_lets_goal. cbn [negb]. red_lets_goal.
  rewrite Hhas, orb_true_r. unfold rel_clean.
  assert (Hne : Nat.eqb (S (d_users s)) 1 = false) by (apply Nat.eqb_neq; lia).
  rewrite Hne. reflexivity.
Qed.

Lemma name_open_has : forall sl n (r : listing),
  (forall e, In e sl -> has (snd e) r = true) -> name_open sl n = true -> has n r = true.
Proof.
  intros sl n r He Hop. unfold name_open in Hop. apply existsb_exists in Hop.
  destruct Hop as (e & Hin & Heq). apply String.eqb_eq in Heq. subst n. apply He. exact Hin.
Qed.

(* In every reachable state: a request for a name held by a live action
   (same action digest, colliding 16-character prefix) is refused. *)
Lemma name_in_use_refused_model : forall ops k dig f,
  let s := drun dinit ops in
  slot_name (d_slots s) k = None ->
  name_open (d_slots s) (fst (dir_name (d_counter s) dig)) = true ->
  dstep s (DGet k dig f) =
    (mkD (d_root s) (d_users s) (snd (dir_name (d_counter s) dig)) (d_slots s), DErr 13, 0).
Proof.
  intros ops k dig f s Hsl Hop.
  destruct (released_once_model ops) as (Hu & _ & _ & He). fold s in Hu, He.
  apply existing_name_refused_model; [exact Hsl| |eapply name_open_has; eauto].
  rewrite Hu. unfold name_open in Hop. destruct (d_slots s); [discriminate Hop | cbn; lia].
Qed.

(* In every reachable state: a directory that is handed out is held by no
   other live action, is empty at that moment, and no open directory was
   touched. *)
Lemma handed_out_fresh_model : forall ops k dig f s' n c,
  let s := drun dinit ops in
  dstep s (DGet k dig f) = (s', DGot n, c) ->
  name_open (d_slots s) n = false /\ empty_dir_in n (d_root s') = true /\
  all_open_exist (d_slots s) (d_root s') = true /\ d_slots s' = (k, n) :: d_slots s.
Proof.
  intros ops k dig f s' n c s Hs.
  destruct (drun_refines ops dinit dminit DI_init) as (m & _ & HD). fold s in HD.
  destruct (dstep_refines _ _ _ _ _ _ HD Hs) as (m' & Hm & HD').
  unfold dmon_step in Hm. dsimp. cbn [ob_out ob_listing ob_cleans] in Hm.
  rewrite (DI_open _ _ HD) in Hm.
  destruct (slot_name (d_slots s) k); [discriminate|].
  repeat match type of Hm with
  | (if ?b then _ else _) = _ => destruct b eqn:?; [discriminate|]
  end.
  inv_pair Hm.
  repeat match goal with H : negb _ = false |- _ => apply negb_false_iff in H end.
  pose proof (DI_open _ _ HD') as Ho'. cbn [dm_open] in Ho'.
  repeat split; auto.
Qed.

Lemma drun_snoc : forall ops s o, drun s (ops ++ [o]) = fst (fst (dstep (drun s ops) o)).
Proof. induction ops as [|x tl IH]; intros s o; cbn [app drun]; [reflexivity | apply IH]. Qed.

(* Close removes the closing action's own directory only: every other open
   directory still exists afterwards. *)
Lemma close_keeps_others_model : forall ops k f,
  let s := drun dinit ops in
  let s' := fst (fst (dstep s (DClose k f))) in
  forall e, In e (d_slots s') -> has (snd e) (d_root s') = true.
Proof.
  intros ops k f s s'.
  destruct (released_once_model (ops ++ [DClose k f])) as (_ & _ & _ & He).
  rewrite drun_snoc in He. exact He.
Qed.
