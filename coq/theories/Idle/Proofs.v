(* Proofs for the IdleInvoker part of C12:
   (a) every accepted trace keeps [Minv] and satisfies the per-step
       properties; (b) the model refines the monitor: every trace of the
       model, for every interleaving, is accepted. *)
From Coq Require Import Lia.
From VF Require Import Idle.Model Idle.Spec.

(* ---- small facts --------------------------------------------------------- *)

Lemma str_eqb_empty : forall k, String.eqb k "" = true -> k = "".
Proof. intros k H. apply String.eqb_eq in H. exact H. Qed.

Lemma remove_one_length : forall t l,
  existsb (Nat.eqb t) l = true -> List.length (remove_one t l) = pred (List.length l).
Proof.
  induction l as [|x tl IH]; cbn [existsb remove_one List.length]; intro H.
  - discriminate.
  - destruct (Nat.eqb x t) eqn:Ext.
    + reflexivity.
    + rewrite Nat.eqb_sym in Ext. rewrite Ext in H. cbn in H.
      specialize (IH H). cbn [List.length]. rewrite IH.
      destruct tl; [discriminate H | reflexivity].
Qed.

Lemma existsb_nil_len : forall t (l : list nat), List.length l = 0 -> existsb (Nat.eqb t) l = false.
Proof. intros t l H. destruct l; [reflexivity | discriminate H]. Qed.

(* ---- (a) accepted traces -------------------------------------------------- *)

Ltac inv_pair H := inversion H; subst; clear H.
Ltac break_hyp H :=
  match type of H with context [match ?x with _ => _ end] => destruct x eqn:? end.
Ltac norm := repeat match goal with
 | H : Nat.eqb _ _ = true |- _ => apply Nat.eqb_eq in H
 | H : Nat.eqb _ _ = false |- _ => apply Nat.eqb_neq in H
 | H : Nat.leb _ _ = true |- _ => apply Nat.leb_le in H
 | H : Nat.leb _ _ = false |- _ => apply Nat.leb_gt in H
 | H : Nat.ltb _ _ = true |- _ => apply Nat.ltb_lt in H
 | H : Nat.ltb _ _ = false |- _ => apply Nat.ltb_ge in H
 | H : _ || _ = false |- _ => apply orb_false_iff in H; destruct H
 | H : negb _ = false |- _ => apply negb_false_iff in H
 | H : Some _ <> None -> _ |- _ => specialize (H ltac:(discriminate))
 | H : ?a = ?a -> _ |- _ => specialize (H eq_refl)
 | H : ?P, H2 : ?P -> _ |- _ => specialize (H2 H)
 end.
Ltac open_step H := unfold mon_step, mon_acquire, mon_clean_done, mon_release in H.

Lemma mon_step_inv : forall m e o m',
  Minv m -> mon_step m e o = (m', "") -> Minv m'.
Proof.
  intros m e o m' (Hc & Hu & Hb) Hs.
  assert (Hu' : users m = 0 \/ (last_clean m = Some true /\ cleaner m = None))
    by (destruct (users m); [left; reflexivity | right; apply Hu; lia]).
  clear Hu. open_step Hs.
  repeat (break_hyp Hs; try discriminate); inv_pair Hs;
  unfold Minv; cbn [users cleaner last_clean holders unbal waiting];
  (split; [|split]); intros; norm; unfold holds in *;
  try (rewrite remove_one_length by assumption); cbn [List.length];
  solve [ destruct Hu' as [? | (? & ?)]; try split; try congruence; try lia; auto ].
Qed.

Lemma minit_inv : Minv minit.
Proof. unfold Minv, minit; cbn. repeat split; auto; try lia; discriminate. Qed.

Lemma mon_run_inv : forall tr m,
  Minv m -> snd (mon_run m tr) = "" -> Minv (fst (mon_run m tr)).
Proof.
  induction tr as [|[e o] tl IH]; intros m Hm Hok; cbn [mon_run] in *.
  - exact Hm.
  - destruct (mon_step m e o) as [m' k] eqn:Hs.
    destruct (String.eqb k "") eqn:Hk.
    + apply str_eqb_empty in Hk. subst k. apply IH; auto. eapply mon_step_inv; eauto.
    + cbn in Hok. subst k. discriminate Hk.
Qed.

Lemma accepted_inv : forall tr, trace_ok tr = true -> Minv (mon_final tr).
Proof.
  intros tr H. unfold trace_ok in H. apply str_eqb_empty in H.
  unfold mon_final. apply mon_run_inv; [apply minit_inv | exact H].
Qed.

Lemma all_steps_of_accept : forall (Q : mstate -> event -> output -> mstate -> Prop),
  (forall m e o m', Minv m -> mon_step m e o = (m', "") -> Q m e o m') ->
  forall tr m, Minv m -> snd (mon_run m tr) = "" -> all_steps Q m tr.
Proof.
  intros Q HQ. induction tr as [|[e o] tl IH]; intros m Hm Hok; cbn [mon_run all_steps] in *.
  - exact I.
  - destruct (mon_step m e o) as [m' k] eqn:Hs. cbn [fst].
    destruct (String.eqb k "") eqn:Hk.
    + apply str_eqb_empty in Hk. subst k. split.
      * eapply HQ; eauto.
      * apply IH; auto. eapply mon_step_inv; eauto.
    + cbn in Hok. subst k. discriminate Hk.
Qed.

(* The Cleaner is called exactly at the 0->1 and 1->0 transitions. *)
Definition Q_transitions (m : mstate) (e : event) (o : output) (_ : mstate) : Prop :=
  o <> ONone -> (o = OCleaning <-> starts_transition m e).

Lemma step_transitions : forall m e o m',
  Minv m -> mon_step m e o = (m', "") -> Q_transitions m e o m'.
Proof.
  intros m e o m' (Hc & Hu & Hb) Hs Hnn. open_step Hs.
  repeat (break_hyp Hs; try discriminate); inv_pair Hs; try congruence;
  cbn [starts_transition]; norm;
  try solve [ split; [intro; try discriminate; try split; auto; try lia
                     | intro Hx; first [contradiction | reflexivity | lia | discriminate
                                       | (destruct Hx as (? & ?); first [lia | congruence])] ] ].
  destruct o; try discriminate; congruence.
Qed.

(* A failed Cleaner run inside Acquire is reported as failure and leaves
   the number of users unchanged; a use count can only become positive by
   a successful run. *)
Definition Q_failed_clean (m : mstate) (e : event) (o : output) (m' : mstate) : Prop :=
  match e with
  | CleanDone _ false => o <> OAcquired /\ users m' = users m
  | _ => True
  end.

Lemma step_failed_clean : forall m e o m',
  Minv m -> mon_step m e o = (m', "") -> Q_failed_clean m e o m'.
Proof.
  intros m e o m' _ Hs. unfold Q_failed_clean. destruct e as [t|t|t|t ok|t b]; auto.
  destruct ok; auto. unfold mon_step in Hs.
  destruct (is_none o) eqn:Hn.
  - inv_pair Hs. split; [destruct o; discriminate || congruence | reflexivity].
  - destruct (cleaner m) as [[c k]|] eqn:Hcl; [|discriminate].
    destruct (Nat.eqb c t); [|discriminate]. unfold mon_clean_done in Hs.
    destruct k.
    + destruct o; try discriminate. inv_pair Hs. split; [discriminate | reflexivity].
    + destruct o; try discriminate.
      destruct (rcls_eqb r (release_result base_ok false)); [|discriminate].
      inv_pair Hs. split; [discriminate | reflexivity].
Qed.

(* A panic is only ever seen when nobody holds the invoker. *)
Definition Q_panic (m : mstate) (e : event) (o : output) (m' : mstate) : Prop :=
  o = OPanic -> users m = 0 /\ unbal m' = true.

Lemma step_panic : forall m e o m',
  Minv m -> mon_step m e o = (m', "") -> Q_panic m e o m'.
Proof.
  intros m e o m' (Hc & Hu & Hb) Hs Ho. subst o. unfold mon_step in Hs. cbn [is_none] in Hs.
  destruct e as [t|t|t|t ok|t b].
  - destruct (busy m t); [discriminate|]. discriminate.
  - destruct (waiting m t); discriminate.
  - destruct (waiting m t); discriminate.
  - destruct (cleaner m) as [[c k]|]; [|discriminate]. destruct (Nat.eqb c t); [|discriminate].
    unfold mon_clean_done in Hs. destruct k; [destruct ok|]; discriminate.
  - destruct (busy m t); [discriminate|]. unfold mon_release in Hs.
    destruct (Nat.eqb (users m) 0) eqn:Hz; [|discriminate]. apply Nat.eqb_eq in Hz.
    inv_pair Hs. split; [exact Hz|]. cbn.
    destruct (unbal m) eqn:Hub; [reflexivity|]. cbn.
    unfold holds. rewrite existsb_nil_len; [reflexivity|]. rewrite <- (Hb eq_refl). exact Hz.
Qed.

Lemma mon_step_unbal_mono : forall m e o m' k,
  mon_step m e o = (m', k) -> unbal m = true -> unbal m' = true.
Proof.
  intros m e o m' k Hs Hub. unfold mon_step in Hs.
  destruct (is_none o); [inv_pair Hs; auto|].
  destruct e as [t|t|t|t ok|t b].
  - destruct (busy m t); [inv_pair Hs; auto|]. unfold mon_acquire in Hs.
    destruct o; try (inv_pair Hs; auto; fail);
      destruct (cleaner m); try (inv_pair Hs; auto; fail);
      destruct (Nat.eqb (users m) 0); inv_pair Hs; auto.
  - destruct (waiting m t); [|inv_pair Hs; auto]. unfold mon_acquire in Hs.
    destruct o; try (inv_pair Hs; auto; fail);
      destruct (cleaner m); try (inv_pair Hs; auto; fail);
      destruct (Nat.eqb (users m) 0); inv_pair Hs; auto.
  - destruct (waiting m t); [|inv_pair Hs; auto]. destruct o; inv_pair Hs; auto.
  - destruct (cleaner m) as [[c k0]|]; [|inv_pair Hs; auto].
    destruct (Nat.eqb c t); [|inv_pair Hs; auto]. unfold mon_clean_done in Hs.
    destruct k0; [destruct ok|]; destruct o; try (inv_pair Hs; auto; fail).
    destruct (rcls_eqb r (release_result base_ok ok)); inv_pair Hs; auto.
  - destruct (busy m t); [inv_pair Hs; auto|]. unfold mon_release in Hs.
    destruct o; try (inv_pair Hs; auto; fail).
    + destruct (cleaner m); [inv_pair Hs; auto|].
      destruct (Nat.eqb (users m) 1); [inv_pair Hs; cbn; rewrite Hub; reflexivity|].
      destruct (Nat.eqb (users m) 0); inv_pair Hs; auto.
    + destruct (Nat.leb 2 (users m)); [|inv_pair Hs; auto].
      destruct (rcls_eqb r (release_result b true)); inv_pair Hs; auto.
      cbn. rewrite Hub. reflexivity.
    + destruct (Nat.eqb (users m) 0); inv_pair Hs; auto. cbn. rewrite Hub. reflexivity.
Qed.

Lemma mon_run_unbal_mono : forall tr m,
  unbal m = true -> unbal (fst (mon_run m tr)) = true.
Proof.
  induction tr as [|[e o] tl IH]; intros m Hub; cbn [mon_run].
  - exact Hub.
  - destruct (mon_step m e o) as [m' k] eqn:Hs.
    pose proof (mon_step_unbal_mono _ _ _ _ _ Hs Hub) as Hub'.
    destruct (String.eqb k ""); [apply IH; exact Hub' | exact Hub'].
Qed.

Lemma accepted_balanced_no_panic_from : forall tr m,
  Minv m -> snd (mon_run m tr) = "" -> unbal (fst (mon_run m tr)) = false ->
  forall e o, In (e, o) tr -> o <> OPanic.
Proof.
  induction tr as [|[e0 o0] tl IH]; intros m Hm Hok Hbal e o Hin; [contradiction|].
  cbn [mon_run] in Hok, Hbal.
  destruct (mon_step m e0 o0) as [m' k] eqn:Hs.
  destruct (String.eqb k "") eqn:Hk.
  - apply str_eqb_empty in Hk. subst k.
    destruct Hin as [Heq | Hin].
    + inv_pair Heq. intro Ho.
      destruct (step_panic _ _ _ _ Hm Hs Ho) as (_ & Hub).
      rewrite (mon_run_unbal_mono tl m' Hub) in Hbal. discriminate.
    + eapply (IH m'); [eapply mon_step_inv; eauto | exact Hok | exact Hbal | exact Hin].
  - cbn in Hok. subst k. discriminate Hk.
Qed.

Lemma accepted_balanced_no_panic : forall tr,
  trace_ok tr = true -> balanced tr -> no_panic_in tr.
Proof.
  intros tr Hok Hbal e o Hin. unfold trace_ok in Hok. apply str_eqb_empty in Hok.
  eapply accepted_balanced_no_panic_from; eauto. apply minit_inv.
Qed.

(* ---- (b) the model refines the monitor ----------------------------------- *)

Ltac su Hu := first [exact Hu | reflexivity | (rewrite Hu; reflexivity) | (rewrite <- Hu; reflexivity) | lia].

Definition pc_of (k : ckind) : pc :=
  match k with CAcq => PAcqClean | CRel b => PRelClean b end.

Record R (s : state) (m : mstate) : Prop := mkR {
  R_users : users m = useCount s;
  R_clean : match cleaner m with
            | Some (t, k) => wakeup s <> None /\ pcs s t = pc_of k /\
                             (forall t', is_clean (pcs s t') = true -> t' = t)
            | None => wakeup s = None /\ forall t', is_clean (pcs s t') = false
            end;
  R_wait : forall t, waiting m t = true <-> exists g, pcs s t = PWait g }.

Lemma R_init : R init minit.
Proof.
  constructor; cbn; auto.
  intro t. split; [discriminate | intros (g & Hg); discriminate Hg].
Qed.

Lemma upd_same : forall f t p, upd f t p t = p.
Proof. intros. unfold upd. rewrite Nat.eqb_refl. reflexivity. Qed.

Lemma upd_other : forall f t p x, x <> t -> upd f t p x = f x.
Proof. intros f t p x H. unfold upd. apply Nat.eqb_neq in H. rewrite H. reflexivity. Qed.

Lemma setw_same : forall f t b, set_waiting f t b t = b.
Proof. intros. unfold set_waiting. rewrite Nat.eqb_refl. reflexivity. Qed.

Lemma setw_other : forall f t b x, x <> t -> set_waiting f t b x = f x.
Proof. intros f t b x H. unfold set_waiting. apply Nat.eqb_neq in H. rewrite H. reflexivity. Qed.

Lemma pc_of_clean : forall k, is_clean (pc_of k) = true.
Proof. destruct k; reflexivity. Qed.

(* Thread t is not busy in the monitor iff it is idle in the model. *)
Lemma R_busy : forall s m t, R s m -> (busy m t = false <-> pcs s t = PIdle).
Proof.
  intros s m t [Hu Hc Hw]. unfold busy, is_cleaner. split.
  - intro H. apply orb_false_iff in H. destruct H as (Hwt & Hct).
    destruct (pcs s t) eqn:Hp; auto.
    + assert (waiting m t = true) by (apply Hw; eauto). congruence.
    + destruct (cleaner m) as [[c k]|].
      * destruct Hc as (_ & _ & Huniq). rewrite (Huniq t) in Hct by (rewrite Hp; reflexivity).
        rewrite Nat.eqb_refl in Hct. discriminate.
      * destruct Hc as (_ & Hnone). specialize (Hnone t). rewrite Hp in Hnone. discriminate.
    + destruct (cleaner m) as [[c k]|].
      * destruct Hc as (_ & _ & Huniq). rewrite (Huniq t) in Hct by (rewrite Hp; reflexivity).
        rewrite Nat.eqb_refl in Hct. discriminate.
      * destruct Hc as (_ & Hnone). specialize (Hnone t). rewrite Hp in Hnone. discriminate.
  - intro Hp. apply orb_false_iff. split.
    + destruct (waiting m t) eqn:Hwt; auto. apply Hw in Hwt. destruct Hwt as (g & Hg). congruence.
    + destruct (cleaner m) as [[c k]|]; auto.
      destruct (Nat.eqb c t) eqn:Hct; auto. apply Nat.eqb_eq in Hct. subst c.
      destruct Hc as (_ & Hpc & _). rewrite Hp in Hpc. destruct k; discriminate.
Qed.

(* The shared tail of AcqStart and Wake. *)
Lemma acquire_refines : forall s m t s' o,
  R s m -> Minv m ->
  (pcs s t = PIdle \/ exists g, pcs s t = PWait g) ->
  acquire_locked s t = (s', o) ->
  exists m', mon_acquire m t o = (m', "") /\ R s' m'.
Proof.
  intros s m t s' o HR Hm Hpc Ha. destruct HR as [Hu Hc Hw].
  assert (Hnc : is_clean (pcs s t) = false)
    by (destruct Hpc as [Hp | (g & Hp)]; rewrite Hp; reflexivity).
  unfold acquire_locked in Ha. destruct (wakeup s) as [g|] eqn:Hwk.
  - (* blocked *)
    inv_pair Ha. destruct (cleaner m) as [[c k]|] eqn:Hcl.
    2:{ destruct Hc as (Hx & _). discriminate Hx. }
    unfold mon_acquire. try rewrite Hcl. eexists; split; [reflexivity|].
    destruct Hc as (Hwn & Hpcc & Huniq).
    assert (Hct : c <> t) by (intro; subst c; rewrite Hpcc, pc_of_clean in Hnc; discriminate).
    constructor; cbn.
    + su Hu.
    + try rewrite Hcl. rewrite Hwk. split; [discriminate|]. split.
      * rewrite upd_other by exact Hct. exact Hpcc.
      * intros t' Ht'. destruct (Nat.eq_dec t' t) as [->|Hne].
        -- rewrite upd_same in Ht'. discriminate.
        -- rewrite upd_other in Ht' by exact Hne. auto.
    + intro x. destruct (Nat.eq_dec x t) as [->|Hne].
      * rewrite setw_same, upd_same. split; eauto.
      * rewrite setw_other, upd_other by exact Hne. apply Hw.
  - destruct (cleaner m) as [[c k]|] eqn:Hcl.
    1:{ destruct Hc as (Hx & _). contradiction. }
    destruct Hc as (_ & Hnone).
    destruct (Nat.eqb (useCount s) 0) eqn:Hz; inv_pair Ha.
    + (* clean *)
      unfold mon_acquire. try rewrite Hcl; rewrite Hu, Hz. eexists; split; [reflexivity|].
      constructor; cbn.
      * su Hu.
      * split; [discriminate|]. split; [apply upd_same|].
        intros t' Ht'. destruct (Nat.eq_dec t' t) as [->|Hne]; auto.
        rewrite upd_other in Ht' by exact Hne. rewrite Hnone in Ht'. discriminate.
      * intro x. destruct (Nat.eq_dec x t) as [->|Hne].
        -- rewrite setw_same, upd_same. split; [discriminate | intros (g & Hg); discriminate Hg].
        -- rewrite setw_other, upd_other by exact Hne. apply Hw.
    + (* acquired directly *)
      unfold mon_acquire. try rewrite Hcl; rewrite Hu, Hz. eexists; split; [reflexivity|].
      constructor; cbn.
      * su Hu.
      * split; [reflexivity|]. intro t'. destruct (Nat.eq_dec t' t) as [->|Hne].
        -- rewrite upd_same. reflexivity.
        -- rewrite upd_other by exact Hne. apply Hnone.
      * intro x. destruct (Nat.eq_dec x t) as [->|Hne].
        -- rewrite setw_same, upd_same. split; [discriminate | intros (g & Hg); discriminate Hg].
        -- rewrite setw_other, upd_other by exact Hne. apply Hw.
Qed.

Lemma step_refines : forall s m e s' o,
  R s m -> Minv m -> step s e = (s', o) ->
  exists m', mon_step m e o = (m', "") /\ R s' m'.
Proof.
  intros s m e s' o HR Hm Hs.
  pose proof HR as [Hu Hc Hw].
  destruct e as [t|t|t|t ok|t b]; cbn [step] in Hs.
  - (* AcqStart *)
    destruct (pcs s t) eqn:Hp; try (inv_pair Hs; exists m; split; [reflexivity | exact HR]).
    destruct (acquire_refines s m t s' o HR Hm (or_introl Hp) Hs) as (m' & Hma & HR').
    exists m'. split; [|exact HR'].
    unfold mon_step. assert (Hb : busy m t = false) by (apply (R_busy s m t HR); exact Hp).
    rewrite Hb. destruct o; try exact Hma.
    unfold acquire_locked in Hs. destruct (wakeup s); [inv_pair Hs|].
    destruct (Nat.eqb (useCount s) 0); inv_pair Hs.
  - (* Wake *)
    destruct (pcs s t) eqn:Hp; try (inv_pair Hs; exists m; split; [reflexivity | exact HR]).
    destruct (closed s g); [|inv_pair Hs; exists m; split; [reflexivity | exact HR]].
    assert (Hex : exists g0, pcs s t = PWait g0) by eauto.
    destruct (acquire_refines s m t s' o HR Hm (or_intror Hex) Hs) as (m' & Hma & HR').
    exists m'. split; [|exact HR'].
    unfold mon_step. assert (Hwt : waiting m t = true) by (apply Hw; exact Hex).
    rewrite Hwt. destruct o; try exact Hma.
    unfold acquire_locked in Hs. destruct (wakeup s); [inv_pair Hs|].
    destruct (Nat.eqb (useCount s) 0); inv_pair Hs.
  - (* CancelWait *)
    destruct (pcs s t) eqn:Hp; try (inv_pair Hs; exists m; split; [reflexivity | exact HR]).
    inv_pair Hs. assert (Hwt : waiting m t = true) by (apply Hw; eauto).
    unfold mon_step. cbn [is_none]. rewrite Hwt. eexists; split; [reflexivity|].
    constructor; cbn.
    + su Hu.
    + destruct (cleaner m) as [[c k]|] eqn:Hcl.
      * destruct Hc as (Hwn & Hpcc & Huniq). split; [exact Hwn|].
        assert (Hct : c <> t) by (intro; subst c; rewrite Hp in Hpcc; destruct k; discriminate).
        split; [rewrite upd_other by exact Hct; exact Hpcc|].
        intros t' Ht'. destruct (Nat.eq_dec t' t) as [->|Hne].
        -- rewrite upd_same in Ht'. discriminate.
        -- rewrite upd_other in Ht' by exact Hne. auto.
      * destruct Hc as (Hwn & Hnone). split; [exact Hwn|]. intro t'.
        destruct (Nat.eq_dec t' t) as [->|Hne]; [rewrite upd_same; reflexivity|].
        rewrite upd_other by exact Hne. apply Hnone.
    + intro x. destruct (Nat.eq_dec x t) as [->|Hne].
      * rewrite setw_same, upd_same. split; [discriminate | intros (g0 & Hg); discriminate Hg].
      * rewrite setw_other, upd_other by exact Hne. apply Hw.
  - (* CleanDone *)
    destruct (pcs s t) eqn:Hp; try (inv_pair Hs; exists m; split; [reflexivity | exact HR]).
    + (* PAcqClean *)
      destruct (cleaner m) as [[c k]|] eqn:Hcl.
      2:{ destruct Hc as (_ & Hnone). specialize (Hnone t). rewrite Hp in Hnone. discriminate. }
      destruct Hc as (Hwn & Hpcc & Huniq).
      assert (c = t) by (symmetry; apply Huniq; rewrite Hp; reflexivity). subst c.
      rewrite Hp in Hpcc. destruct k; [|discriminate].
      assert (Hclean_after : forall t', is_clean (upd (pcs s) t PIdle t') = false).
      { intro t'. destruct (Nat.eq_dec t' t) as [->|Hne]; [rewrite upd_same; reflexivity|].
        rewrite upd_other by exact Hne. destruct (is_clean (pcs s t')) eqn:Hx; auto.
        apply Huniq in Hx. contradiction. }
      assert (Hwait_after : forall x (f : nat -> bool), (forall y, f y = waiting m y) ->
                (f x = true <-> exists g, upd (pcs s) t PIdle x = PWait g)).
      { intros x f Hf. rewrite Hf. destruct (Nat.eq_dec x t) as [->|Hne].
        - rewrite upd_same. split; [|intros (g0 & Hg); discriminate Hg].
          intro Hx. apply Hw in Hx. destruct Hx as (g0 & Hg). congruence.
        - rewrite upd_other by exact Hne. apply Hw. }
      unfold mon_step. try rewrite Hcl; rewrite Nat.eqb_refl. unfold mon_clean_done.
      destruct ok; inv_pair Hs; cbn [is_none]; eexists; (split; [reflexivity|]);
        constructor; cbn; auto; try su Hu; try (intro x; apply Hwait_after; reflexivity).
    + (* PRelClean *)
      destruct (cleaner m) as [[c k]|] eqn:Hcl.
      2:{ destruct Hc as (_ & Hnone). specialize (Hnone t). rewrite Hp in Hnone. discriminate. }
      destruct Hc as (Hwn & Hpcc & Huniq).
      assert (c = t) by (symmetry; apply Huniq; rewrite Hp; reflexivity). subst c.
      rewrite Hp in Hpcc. destruct k as [|b0]; [discriminate|]. inv_pair Hpcc.
      inv_pair Hs.
      unfold mon_step. cbn [is_none]. try rewrite Hcl; rewrite Nat.eqb_refl. unfold mon_clean_done.
      assert (Hrr : rcls_eqb (release_result b0 ok) (release_result b0 ok) = true)
        by (destruct (release_result b0 ok); reflexivity).
      rewrite Hrr. eexists; split; [reflexivity|].
      constructor; cbn; auto.
      * split; [reflexivity|]. intro t'.
        destruct (Nat.eq_dec t' t) as [->|Hne]; [rewrite upd_same; reflexivity|].
        rewrite upd_other by exact Hne. destruct (is_clean (pcs s t')) eqn:Hx; auto.
        apply Huniq in Hx. contradiction.
      * intro x. destruct (Nat.eq_dec x t) as [->|Hne].
        -- rewrite upd_same. split; [|intros (g0 & Hg); discriminate Hg].
           intro Hx. apply Hw in Hx. destruct Hx as (g0 & Hg). congruence.
        -- rewrite upd_other by exact Hne. apply Hw.
  - (* RelStart *)
    destruct (pcs s t) eqn:Hp; try (inv_pair Hs; exists m; split; [reflexivity | exact HR]).
    assert (Hb : busy m t = false) by (apply (R_busy s m t HR); exact Hp).
    destruct Hm as (Hmc & Hmu & Hmb).
    destruct (Nat.eqb (useCount s) 0) eqn:Hz.
    + (* zero use count panic *)
      inv_pair Hs. unfold mon_step. cbn [is_none]. rewrite Hb. unfold mon_release.
      rewrite Hu, Hz. eexists; split; [reflexivity|].
      constructor; cbn; auto.
    + apply Nat.eqb_neq in Hz.
      assert (Hcn : cleaner m = None).
      { destruct (cleaner m) eqn:Hcl; auto. exfalso.
        assert (users m = 0) by (apply Hmc; discriminate). lia. }
      rewrite Hcn in Hc. destruct Hc as (Hwn & Hnone). rewrite Hwn in Hs.
      destruct (Nat.ltb 0 (pred (useCount s))) eqn:Hlt.
      * (* still in use *)
        apply Nat.ltb_lt in Hlt. inv_pair Hs.
        unfold mon_step. cbn [is_none]. rewrite Hb. unfold mon_release.
        assert (H2 : Nat.leb 2 (users m) = true) by (apply Nat.leb_le; lia).
        rewrite H2.
        assert (Hrr : rcls_eqb (release_result b true) (release_result b true) = true)
          by (destruct (release_result b true); reflexivity).
        rewrite Hrr. eexists; split; [reflexivity|].
        constructor; cbn; auto; try su Hu.
        rewrite Hcn. split; [reflexivity | exact Hnone].
      * (* last user: clean *)
        apply Nat.ltb_ge in Hlt. inv_pair Hs.
        unfold mon_step. cbn [is_none]. rewrite Hb. unfold mon_release. rewrite Hcn.
        assert (H1 : Nat.eqb (users m) 1 = true) by (apply Nat.eqb_eq; lia).
        rewrite H1. eexists; split; [reflexivity|].
        constructor; cbn.
        -- lia.
        -- split; [discriminate|]. split; [apply upd_same|].
           intros t' Ht'. destruct (Nat.eq_dec t' t) as [->|Hne]; auto.
           rewrite upd_other in Ht' by exact Hne. rewrite Hnone in Ht'. discriminate.
        -- intro x. destruct (Nat.eq_dec x t) as [->|Hne].
           ++ rewrite upd_same. split; [|intros (g0 & Hg); discriminate Hg].
              intro Hx. apply Hw in Hx. destruct Hx as (g0 & Hg). congruence.
           ++ rewrite upd_other by exact Hne. apply Hw.
Qed.

Lemma run_refines : forall evs s m,
  R s m -> Minv m ->
  exists m', mon_run m (trace s evs) = (m', "") /\ R (run s evs) m' /\ Minv m'.
Proof.
  induction evs as [|e tl IH]; intros s m HR Hm; cbn [trace run mon_run].
  - exists m. auto.
  - destruct (step s e) as [s' o] eqn:Hs. cbn [fst].
    destruct (step_refines _ _ _ _ _ HR Hm Hs) as (m1 & Hms & HR1).
    cbn [mon_run]. rewrite Hms. cbn.
    apply IH; [exact HR1 | eapply mon_step_inv; eauto].
Qed.

(* Every trace of the model, for every interleaving, is accepted. *)
Lemma model_trace_ok : forall evs, trace_ok (trace init evs) = true.
Proof.
  intro evs. destruct (run_refines evs init minit R_init minit_inv) as (m' & Hrun & _).
  unfold trace_ok. rewrite Hrun. reflexivity.
Qed.

Lemma model_related : forall evs,
  R (run init evs) (mon_final (trace init evs)) /\ Minv (mon_final (trace init evs)).
Proof.
  intro evs. destruct (run_refines evs init minit R_init minit_inv) as (m' & Hrun & HR & Hm).
  unfold mon_final. rewrite Hrun. auto.
Qed.

(* ---- statements about the model ------------------------------------------ *)

Lemma clean_exclusive_model : forall evs t,
  let s := run init evs in
  is_clean (pcs s t) = true ->
  useCount s = 0 /\ wakeup s <> None /\
  forall t', is_clean (pcs s t') = true -> t' = t.
Proof.
  intros evs t s Ht. destruct (model_related evs) as ([Hu Hc Hw] & (Hmc & _ & _)).
  fold s in Hu, Hc, Hw.
  destruct (cleaner (mon_final (trace init evs))) as [[c k]|] eqn:Hcl.
  - destruct Hc as (Hwn & Hpcc & Huniq).
    assert (t = c) by (apply Huniq; exact Ht). subst c.
    split; [|split; [exact Hwn | intros t' Ht'; apply Huniq; exact Ht']].
    rewrite <- Hu. apply Hmc. discriminate.
  - destruct Hc as (_ & Hnone). rewrite Hnone in Ht. discriminate.
Qed.

Lemma wakeup_iff_cleaner_model : forall evs,
  let s := run init evs in
  wakeup s <> None <-> exists t, is_clean (pcs s t) = true.
Proof.
  intros evs s. destruct (model_related evs) as ([Hu Hc Hw] & _). fold s in Hu, Hc, Hw.
  destruct (cleaner (mon_final (trace init evs))) as [[c k]|].
  - destruct Hc as (Hwn & Hpcc & _). split; [|intros _; exact Hwn].
    intros _. exists c. rewrite Hpcc. apply pc_of_clean.
  - destruct Hc as (Hwn & Hnone). split; [contradiction|].
    intros (t & Ht). rewrite Hnone in Ht. discriminate.
Qed.

Lemma use_implies_cleaned_model : forall evs,
  let s := run init evs in
  let m := mon_final (trace init evs) in
  0 < useCount s ->
  last_clean m = Some true /\ wakeup s = None /\ forall t, is_clean (pcs s t) = false.
Proof.
  intros evs s m Hpos. destruct (model_related evs) as ([Hu Hc Hw] & (_ & Hmu & _)).
  fold s in Hu, Hc, Hw. fold m in Hu, Hc, Hw, Hmu.
  rewrite <- Hu in Hpos. destruct (Hmu Hpos) as (Hl & Hcn).
  rewrite Hcn in Hc. destruct Hc as (Hwn & Hnone). auto.
Qed.

Lemma model_all_steps : forall (Q : mstate -> event -> output -> mstate -> Prop),
  (forall m e o m', Minv m -> mon_step m e o = (m', "") -> Q m e o m') ->
  forall evs, all_steps Q minit (trace init evs).
Proof.
  intros Q HQ evs. apply all_steps_of_accept; [exact HQ | apply minit_inv|].
  pose proof (model_trace_ok evs) as H. unfold trace_ok in H. apply str_eqb_empty in H. exact H.
Qed.

Lemma clean_at_transitions_model : forall evs,
  all_steps Q_transitions minit (trace init evs).
Proof. apply model_all_steps. exact step_transitions. Qed.

Lemma no_start_after_failed_clean_model : forall evs,
  all_steps Q_failed_clean minit (trace init evs).
Proof. apply model_all_steps. exact step_failed_clean. Qed.

Lemma panic_only_without_users_model : forall evs,
  all_steps Q_panic minit (trace init evs).
Proof. apply model_all_steps. exact step_panic. Qed.

Lemma no_panic_model : forall evs,
  balanced (trace init evs) -> no_panic_in (trace init evs).
Proof. intros evs Hb. apply accepted_balanced_no_panic; [apply model_trace_ok | exact Hb]. Qed.

(* ---- enabledness of wake-ups ---------------------------------------------- *)

Definition Ginv (s : state) : Prop :=
  (forall t g, pcs s t = PWait g -> g < gen s) /\
  (forall h, wakeup s = Some h -> S h = gen s).

Lemma Ginv_init : Ginv init.
Proof. split; cbn; intros; discriminate. Qed.

Lemma upd_cases : forall f t p x, upd f t p x = if Nat.eqb x t then p else f x.
Proof. reflexivity. Qed.

Lemma acquire_Ginv : forall s t, Ginv s -> Ginv (fst (acquire_locked s t)).
Proof.
  intros s t (Hw & Hg). unfold acquire_locked.
  destruct (wakeup s) as [h|] eqn:Hwk.
  - unfold set_pc. cbn [fst]. split; cbn [pcs gen wakeup].
    + intros x g Hx. rewrite upd_cases in Hx. destruct (Nat.eqb x t).
      * inversion Hx; subst. specialize (Hg _ eq_refl). lia.
      * eapply Hw; eauto.
    + intros h' Hh'. rewrite Hwk in Hh'. apply Hg. exact Hh'.
  - destruct (Nat.eqb (useCount s) 0); cbn [fst]; split; cbn [pcs gen wakeup].
    + intros x g Hx. rewrite upd_cases in Hx. destruct (Nat.eqb x t); [discriminate|].
      specialize (Hw _ _ Hx). lia.
    + intros h' Hh'. inversion Hh'. reflexivity.
    + intros x g Hx. rewrite upd_cases in Hx. destruct (Nat.eqb x t); [discriminate|]. eapply Hw; eauto.
    + intros h' Hh'. discriminate.
Qed.

Lemma step_Ginv : forall s e, Ginv s -> Ginv (fst (step s e)).
Proof.
  intros s e HG. pose proof HG as (Hw & Hg).
  destruct e as [t|t|t|t ok|t b]; cbn [step].
  - destruct (pcs s t); try exact HG. apply acquire_Ginv. exact HG.
  - destruct (pcs s t); try exact HG. destruct (closed s g); [apply acquire_Ginv|]; exact HG.
  - destruct (pcs s t); try exact HG. unfold set_pc. cbn [fst]. split; cbn [pcs gen wakeup]; [|exact Hg].
    intros x g0 Hx. rewrite upd_cases in Hx. destruct (Nat.eqb x t); [discriminate|]. eapply Hw; eauto.
  - destruct (pcs s t); try exact HG; [destruct ok|]; cbn [fst]; split; cbn [pcs gen wakeup];
      try (intros h' Hh'; discriminate);
      intros x g0 Hx; rewrite upd_cases in Hx; (destruct (Nat.eqb x t); [discriminate|]); eapply Hw; eauto.
  - destruct (pcs s t); try exact HG.
    destruct (Nat.eqb (useCount s) 0); [exact HG|].
    destruct (Nat.ltb 0 (pred (useCount s))); [exact HG|].
    destruct (wakeup s) eqn:Hwk; [split; cbn; auto|].
    cbn [fst]. split; cbn [pcs gen wakeup].
    + intros x g0 Hx. rewrite upd_cases in Hx. destruct (Nat.eqb x t); [discriminate|].
      specialize (Hw _ _ Hx). lia.
    + intros h' Hh'. inversion Hh'. reflexivity.
Qed.

Lemma run_Ginv : forall evs s, Ginv s -> Ginv (run s evs).
Proof.
  induction evs as [|e tl IH]; intros s HG; cbn [run]; [exact HG|]. apply IH. apply step_Ginv. exact HG.
Qed.

(* A sleeper is either wakeable now, or sleeps on the channel of a cleaner
   call that is in flight (whose CleanDone will close it). *)
Lemma sleeper_wakeable_model : forall evs t g,
  let s := run init evs in
  pcs s t = PWait g ->
  closed s g = true \/ (wakeup s = Some g /\ exists c, is_clean (pcs s c) = true).
Proof.
  intros evs t g s Hp. destruct (run_Ginv evs init Ginv_init) as (Hw & Hg). fold s in Hw, Hg.
  specialize (Hw _ _ Hp). unfold closed.
  assert (Hlt : Nat.ltb g (gen s) = true) by (apply Nat.ltb_lt; exact Hw). rewrite Hlt. cbn [andb].
  destruct (wakeup s) as [h|] eqn:Hwk; [|left; reflexivity].
  destruct (Nat.eqb g h) eqn:E; [|left; reflexivity].
  apply Nat.eqb_eq in E. subst h. right. split; [reflexivity|].
  apply (wakeup_iff_cleaner_model evs). fold s. rewrite Hwk. discriminate.
Qed.

(* ... and a wakeable sleeper's Wake step does something. *)
Lemma wake_enabled_model : forall s t g,
  pcs s t = PWait g -> closed s g = true -> snd (step s (Wake t)) <> ONone.
Proof.
  intros s t g Hp Hc. cbn [step]. rewrite Hp, Hc. unfold acquire_locked.
  destruct (wakeup s); [cbn; discriminate|]. destruct (Nat.eqb (useCount s) 0); cbn; discriminate.
Qed.

Lemma clean_done_enabled_model : forall s t ok,
  is_clean (pcs s t) = true -> snd (step s (CleanDone t ok)) <> ONone /\ wakeup (fst (step s (CleanDone t ok))) = None.
Proof.
  intros s t ok Hc. cbn [step]. destruct (pcs s t); try discriminate; [destruct ok|]; cbn; split; auto; discriminate.
Qed.
