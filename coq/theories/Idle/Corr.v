(* Correspondence evaluator for area Idle (C12): the monitor P of Spec.v on
   the implementation's trace (violation) and the model of Model.v run on
   the same schedule (mismatch). *)
From VF Require Import Common.Verdict Idle.Model Idle.Spec.

Definition output_eqb (a b : output) : bool :=
  match a, b with
  | ONone, ONone | OBlocked, OBlocked | OCleaning, OCleaning | OAcquired, OAcquired
  | OAcqFailed, OAcqFailed | OCancelled, OCancelled | OPanic, OPanic | OStuck, OStuck => true
  | OReleased r1, OReleased r2 => rcls_eqb r1 r2
  | _, _ => false
  end.

(* One IdleInvoker case: the schedule that was executed on the real
   IdleInvoker (one event per critical section) and what the harness saw
   the released goroutine do. *)
Record icase := mkICase {
  ic_evs : list event;
  ic_outs : list output }.

Fixpoint iviol_from (i : nat) (m : mstate) (evs : list event) (outs : list output) : verdict :=
  match evs, outs with
  | e :: evs', o :: outs' =>
    let '(m', k) := mon_step m e o in
    if String.eqb k "" then iviol_from (S i) m' evs' outs' else VViolation i k
  | [], [] => VOk
  | _, _ => VMismatch i "malformed case"
  end.

Fixpoint imism_from (i : nat) (s : state) (evs : list event) (outs : list output) : verdict :=
  match evs, outs with
  | e :: evs', o :: outs' =>
    let '(s', y) := step s e in
    if output_eqb o y then imism_from (S i) s' evs' outs' else VMismatch i "output"
  | _, _ => VOk
  end.

Definition check_icase (c : icase) : verdict :=
  vcombine (iviol_from 0 minit (ic_evs c) (ic_outs c))
           (imism_from 0 init (ic_evs c) (ic_outs c)).

Inductive case :=
| CIdle (c : icase).

Definition check_case (c : case) : verdict :=
  match c with
  | CIdle c => check_icase c
  end.
